(* P_LhNewRt.v -- C01: round trip for the "new style" LHA methods
   -lh4- -lh5- -lh6- -lh7- -lhx- and LHARK's -lh7- (-lk7-).

   Serialise a well-formed stream description (S_LhNew.v: blocks, the three
   per-block tables in every form, literal and copy commands), decode the bytes
   with the model of lib/lh_new_decoder.c (LhNew.v) through the public read API
   (Decoder.v), for any read schedule: the result is the LZ77 expansion of the
   described commands.

   Main results
     lhnew_roundtrip, lhnew_roundtrip_total      any (v, P) with variant_params v P
     lh4_roundtrip ... lk7_roundtrip             the six decoders
     ex_lh5_roundtrip, ex_lk7_roundtrip          computed instances (non-vacuity)

   Layers
     0.  decode_of_chunks_inv2: decode_of_chunks for an inner decoder that is
         total on an invariant over (decoder state, callback state);
         complete canonical codes: longest codeword < number of used symbols,
         trailing unused symbols change nothing
     1.  reader-state abstraction [rs], trees that decode a table [tree_dec]
         (tree_dec_build from build_tree_canonical, tree_dec_single)
     2.  table readers invert the table serialisers: rlv_spec,
         read_temp_table_spec, read_code_table_spec, read_offset_table_spec,
         start_new_block_spec
     3.  ring buffer = LZ77 window (ring_rel, ln_output_byte_spec, ln_copy_spec);
         length and distance classes (plain and LHARK); one command
         (read_offset_code_spec, lhark_copy_count_spec, lhnew_read_tail)
     4.  one lhnew_read = one command (read_cmd_in_block, read_cmd_new_block);
         the chunks of a block and of a stream (stream_chunks)
     5.  the theorem and its six instances *)
From Lhasa Require Import Base ListN DecBase Loop BitReader Tree Generated LhNew Decoder
  S_Larc S_LhNew P_Decoder P_BitReader P_Tree P_S_LhNew P_TreeCanon P_LhNew.
From Coq Require Import ZifyBool ZifyN ZifyNat.
Local Open Scope N_scope.

(* ================================================================== *)
(* 0. decode_of_chunks for a decoder total on an invariant J s c        *)

Section LoopExt2.
  Context {S R : Type}.
  Variables step1 step2 : S -> outcome (S + R).
  Variable I : S -> Prop.
  Variable Q : R -> Prop.
  Hypothesis Hagree : forall s, I s -> step1 s = step2 s.
  Hypothesis Hkeep : forall s x, I s -> step1 s = Ok x ->
    match x with inl s' => I s' | inr r => Q r end.

  Lemma loop_n_ext2 k : forall s, I s ->
    loop_n step1 k s = loop_n step2 k s /\
    (forall x, loop_n step1 k s = Ok x -> match x with inl s' => I s' | inr r => Q r end).
  Proof.
    induction k as [|k IH]; intros s Hi; cbn [loop_n].
    - split; [apply Hagree; exact Hi|]. intros x. apply Hkeep. exact Hi.
    - destruct (IH s Hi) as [E1 K1]. rewrite <- E1.
      destruct (loop_n step1 k s) as [[s'|r]| |] eqn:El; cbn [bind].
      + specialize (K1 _ eq_refl). cbn in K1. apply IH. exact K1.
      + split; [reflexivity|]. intros x Ex. injection Ex as <-. exact (K1 _ eq_refl).
      + split; [reflexivity|discriminate].
      + split; [reflexivity|discriminate].
  Qed.

  Lemma loop_ext2 k s : I s ->
    loop step1 k s = loop step2 k s /\ (forall r, loop step1 k s = Ok r -> Q r).
  Proof.
    intros Hi. unfold loop. destruct (loop_n_ext2 k s Hi) as [E K]. rewrite <- E.
    split; [reflexivity|].
    destruct (loop_n step1 k s) as [[s'|r]| |]; cbn [bind]; try discriminate.
    intros r' Er. injection Er as <-. exact (K _ eq_refl).
  Qed.
End LoopExt2.

Section InvDecoder2.
  Context {cbs st : Type}.
  Variable dread : st -> cbs -> outcome (list N * st * cbs).
  Variable max_read block_size : N.
  Variable J : st -> cbs -> Prop.
  Hypothesis Htot : forall s c, J s c ->
    exists ch s' c', dread s c = Ok (ch, s', c') /\ nlen ch <= max_read /\ J s' c'.

  Definition dread_tot2 (s : st) (c : cbs) : outcome (list N * st * cbs) :=
    match dread s c with
    | Ok (ch, s', c') => if nlen ch <=? max_read then Ok (ch, s', c') else Ok ([], s, c)
    | _ => Ok ([], s, c)
    end.

  Lemma dread_tot2_total : dread_total dread_tot2 max_read.
  Proof.
    intros s c. unfold dread_tot2.
    destruct (dread s c) as [[[ch s'] c']| |].
    - destruct (N.leb_spec (nlen ch) max_read).
      + exists ch, s', c'. auto.
      + exists [], s, c. split; [reflexivity|]. rewrite nlen_nil. lia.
    - exists [], s, c. split; [reflexivity|]. rewrite nlen_nil. lia.
    - exists [], s, c. split; [reflexivity|]. rewrite nlen_nil. lia.
  Qed.

  Lemma dread_tot2_eq s c : J s c -> dread_tot2 s c = dread s c.
  Proof.
    intros Hi. destruct (Htot s c Hi) as (ch & s' & c' & E & Hl & _).
    unfold dread_tot2. rewrite E. destruct (N.leb_spec (nlen ch) max_read); [reflexivity|lia].
  Qed.

  Lemma chunks_from_tot2 chs : forall s c, J s c ->
    chunks_from dread max_read s c chs -> chunks_from dread_tot2 max_read s c chs.
  Proof.
    induction chs as [|ch rest IH]; intros s c Hi Hc; [constructor|].
    inversion Hc as [|? ? ? s' c' ? Edr Hne Hlen Hrest]; subst.
    destruct (Htot s c Hi) as (ch0 & s0 & c0 & E & _ & Hi').
    rewrite Edr in E. injection E as <- <- <-.
    econstructor; [rewrite dread_tot2_eq by exact Hi; exact Edr|exact Hne|exact Hlen|].
    apply IH; assumption.
  Qed.

  Notation JJ := (fun s : @rl cbs st => J (d_inner (rl_d s)) (d_cb (rl_d s))).

  Lemma read_step_agree2 B s : JJ s -> read_step dread max_read B s = read_step dread_tot2 max_read B s.
  Proof. intros Hi. unfold read_step. rewrite (dread_tot2_eq _ _ Hi). reflexivity. Qed.

  Lemma read_step_keep2 B s x : JJ s -> read_step dread max_read B s = Ok x ->
    match x with inl s' => JJ s' | inr r => JJ r end.
  Proof.
    intros Hi. unfold read_step.
    destruct (rl_filled s <? B); [|intros E; injection E as <-; exact Hi].
    destruct (d_failed (rl_d s)); [intros E; injection E as <-; exact Hi|].
    destruct (skipn_N (B - rl_filled s) (d_outbuf (rl_d s))) as [|y ys].
    - destruct (Htot _ _ Hi) as (ch & s' & c' & E & _ & Hi').
      rewrite E. cbn [bind]. destruct (max_read <? nlen ch); [discriminate|].
      destruct ch; intros E2; injection E2 as <-; exact Hi'.
    - intros E; injection E as <-; exact Hi.
  Qed.

  Lemma read_ext2 (d : @decoder cbs st) n : J (d_inner d) (d_cb d) ->
    lha_decoder_read dread max_read block_size d n = lha_decoder_read dread_tot2 max_read block_size d n /\
    forall o ev d1, lha_decoder_read dread max_read block_size d n = Ok (o, ev, d1) -> J (d_inner d1) (d_cb d1).
  Proof.
    intros Hi. unfold lha_decoder_read.
    set (B := if d_stream_length d <? d_stream_pos d + n then d_stream_length d - d_stream_pos d else n).
    set (s0 := {| rl_d := d; rl_out_rev := []; rl_filled := 0 |}).
    destruct (loop_ext2 (read_step dread max_read B) (read_step dread_tot2 max_read B) JJ JJ
                (read_step_agree2 B) (read_step_keep2 B) 64 s0 Hi) as [E K].
    rewrite <- E. split; [reflexivity|].
    destruct (loop (read_step dread max_read B) 64 s0) as [r| |]; cbn [bind]; try discriminate.
    specialize (K r eq_refl). cbv beta in K.
    intros o ev d1. cbn [d_monitor].
    destruct (d_monitor (rl_d r)).
    - unfold check_progress. cbn [d_inner d_cb]. intros E1. injection E1 as _ _ <-. exact K.
    - intros E1. injection E1 as _ _ <-. exact K.
  Qed.

  Lemma run_reads_ext2 ks : forall d : @decoder cbs st, J (d_inner d) (d_cb d) ->
    run_reads dread max_read block_size d ks = run_reads dread_tot2 max_read block_size d ks.
  Proof.
    induction ks as [|k r IH]; intros d Hi; cbn [run_reads]; [reflexivity|].
    destruct (read_ext2 d k Hi) as [E K]. rewrite <- E.
    destruct (lha_decoder_read dread max_read block_size d k) as [[[o ev] d1]| |]; cbn [bind];
      [|reflexivity|reflexivity].
    rewrite (IH d1 (K _ _ _ eq_refl)). reflexivity.
  Qed.

  Theorem decode_of_chunks_inv2 : forall chs s c L ks os d', J s c ->
    chunks_from dread max_read s c chs -> L <= nlen (concat chs) -> L <= sum_N ks -> sum_N ks < 2 ^ 62 ->
    run_reads dread max_read block_size (lha_decoder_new s c L) ks = Ok (os, d') ->
    concat os = firstn_N L (concat chs).
  Proof.
    intros chs s c L ks os d' Hi Hc HL Hk Hs Hr.
    rewrite run_reads_ext2 in Hr by exact Hi.
    eapply (decode_of_chunks_proof dread_tot2 max_read block_size dread_tot2_total);
      [apply chunks_from_tot2; eassumption|exact HL|exact Hk|exact Hs|exact Hr].
  Qed.

  Theorem run_reads_inv_ok2 : forall ks s c L, J s c -> sum_N ks < 2 ^ 62 ->
    exists os d', run_reads dread max_read block_size (lha_decoder_new s c L) ks = Ok (os, d').
  Proof.
    intros ks s c L Hi Hs. rewrite run_reads_ext2 by exact Hi.
    destruct (reads_compose_proof dread_tot2 max_read block_size dread_tot2_total ks (lha_decoder_new s c L))
      as (os & d' & A & _); [unfold pos_ok; cbn; lia|reflexivity|exact Hs|]. eauto.
  Qed.
End InvDecoder2.

(* ================================================================== *)
(* 0b. Two facts about complete canonical codes                        *)
(* ================================================================== *)
(* 1. max_len < used_count                                             *)

Lemma fsum_ge_term h n : forall j, (j < n)%nat -> h (N.of_nat j) <= fsum h n.
Proof.
  induction n as [|k IH]; intros j Hj; [lia|].
  rewrite fsum_S. destruct (Nat.eq_dec j k) as [->|Hne]; [lia|].
  assert (h (N.of_nat j) <= fsum h k) by (apply IH; lia). lia.
Qed.

(* the maximum is attained, so at least one symbol has the maximal length *)
Lemma cnt_mx_pos lens : 0 < mx lens -> 1 <= cnt lens (mx lens).
Proof.
  intros H. unfold mx in *.
  destruct (max_len_attained lens H) as (k & Hk & E).
  unfold cnt. fold (cn lens) in Hk.
  pose proof (fsum_ge_term (fun j => if ln lens j =? max_len lens then 1 else 0) (cn lens) k Hk) as G.
  cbv beta in G. unfold ln, len_of in G. rewrite Nat2N.id, E, N.eqb_refl in G.
  exact G.
Qed.

Section Slack.
  Variable lens : list N.
  Hypothesis Hc : complete_code lens = true.

  (* a level below the deepest one that is exactly full stays full, and
     no symbol lives on the next level *)
  Lemma tight_step c : c < mx lens -> upto lens c = 2 ^ c ->
    upto lens (c + 1) = 2 ^ (c + 1) /\ cnt lens (c + 1) = 0.
  Proof.
    intros Hlt E.
    destruct (complete_facts lens Hc (c + 1)) as [A _]; [lia|].
    rewrite upto_succ, pow2_succ in *. lia.
  Qed.

  Lemma tight_up (d : nat) : forall c, c + N.of_nat d = mx lens -> c < mx lens ->
    upto lens c = 2 ^ c -> cnt lens (mx lens) = 0.
  Proof.
    induction d as [|d IH]; intros c Hd Hlt E; [lia|].
    destruct (tight_step c Hlt E) as [E1 Z].
    destruct (N.eq_dec (c + 1) (mx lens)) as [Em|Em].
    - rewrite <- Em. exact Z.
    - apply (IH (c + 1)); [lia|lia|exact E1].
  Qed.

  (* (i) strictly below the deepest level the Kraft inequality is strict *)
  Lemma upto_strict c : c < mx lens -> upto lens c + 1 <= 2 ^ c.
  Proof.
    intros Hlt.
    destruct (complete_facts lens Hc c) as [A _]; [lia|].
    destruct (N.eq_dec (upto lens c) (2 ^ c)) as [E|E]; [|lia]. exfalso.
    assert (Z : cnt lens (mx lens) = 0).
    { apply (tight_up (N.to_nat (mx lens - c)) c); [lia|exact Hlt|exact E]. }
    pose proof (cnt_mx_pos lens) as P. lia.
  Qed.

  (* (ii) the symbols still to be placed exceed the free nodes by the number
     of levels that remain *)
  Lemma slack_down (d : nat) : forall c, c + N.of_nat d = mx lens -> c < mx lens ->
    2 ^ c + (mx lens - c) <= upto lens c + mgt lens c.
  Proof.
    induction d as [|d IH]; intros c Hd Hlt; [lia|].
    pose proof (upto_strict c Hlt) as S1.
    pose proof (mgt_succ lens c) as G.
    pose proof (upto_succ lens c) as U.
    destruct (N.eq_dec (c + 1) (mx lens)) as [Em|Em].
    - pose proof (complete_upto lens Hc) as CU. pose proof (mgt_mx lens) as M0.
      rewrite <- Em in CU, M0. rewrite pow2_succ in CU.
      replace (mx lens - c) with 1 by lia. lia.
    - assert (B : 2 ^ (c + 1) + (mx lens - (c + 1)) <= upto lens (c + 1) + mgt lens (c + 1)).
      { apply IH; lia. }
      rewrite pow2_succ in B.
      replace (mx lens - c) with (mx lens - (c + 1) + 1) by lia. lia.
  Qed.

  Lemma complete_mx_lt_used : mx lens < used lens.
  Proof.
    pose proof (mx_pos lens Hc) as P.
    assert (B : 2 ^ 0 + (mx lens - 0) <= upto lens 0 + mgt lens 0).
    { apply (slack_down (N.to_nat (mx lens))); lia. }
    rewrite upto_0 in B. pose proof (used_split lens 0) as U. rewrite mle_0 in U.
    change (2 ^ 0) with 1 in B. lia.
  Qed.
End Slack.

Lemma complete_max_len_lt lens : complete_code lens = true -> max_len lens < used_count lens.
Proof.
  intros Hc. rewrite used_count_used. apply (complete_mx_lt_used lens Hc).
Qed.

Lemma used_count_le_nlen lens : used_count lens <= nlen lens.
Proof. rewrite used_count_used. apply used_le_cn. Qed.

Lemma complete_len_lt_nlen lens i : complete_code lens = true -> len_of lens i < nlen lens.
Proof.
  intros Hc.
  pose proof (nth_le_max_len lens (N.to_nat i)) as A. fold (len_of lens i) in A.
  pose proof (complete_max_len_lt lens Hc) as B.
  pose proof (used_count_le_nlen lens) as C. lia.
Qed.

(* ================================================================== *)
(* 2. trailing unused symbols                                          *)

Lemma len_of_app_zeros lens k s : len_of (lens ++ repeat 0 k) s = len_of lens s.
Proof.
  unfold len_of. destruct (Nat.lt_ge_cases (N.to_nat s) (length lens)) as [H|H].
  - apply app_nth1. exact H.
  - rewrite app_nth2 by exact H. rewrite (nth_overflow lens) by exact H.
    apply nth_repeat.
Qed.

Lemma code_value_from_zeros k : forall t L s, code_value_from (repeat 0 k) t L s = 0.
Proof.
  induction k as [|k IH]; intros t L s; [reflexivity|].
  cbn [repeat code_value_from]. rewrite IH. unfold code_before.
  change (0 <? 0) with false. cbn [andb]. reflexivity.
Qed.

Lemma code_value_from_app_zeros lens k : forall t L s,
  code_value_from (lens ++ repeat 0 k) t L s = code_value_from lens t L s.
Proof.
  induction lens as [|x r IH]; intros t L s.
  - cbn [app code_value_from]. apply code_value_from_zeros.
  - cbn [app code_value_from]. rewrite IH. reflexivity.
Qed.

Lemma canonical_code_app_zeros lens k s :
  canonical_code (lens ++ repeat 0 k) s = canonical_code lens s.
Proof.
  unfold canonical_code, code_value.
  rewrite len_of_app_zeros, code_value_from_app_zeros. reflexivity.
Qed.

Lemma max_len_cons x r : max_len (x :: r) = N.max x (max_len r).
Proof. reflexivity. Qed.

Lemma max_len_zeros k : max_len (repeat 0 k) = 0.
Proof.
  induction k as [|k IH]; [reflexivity|].
  cbn [repeat]. rewrite max_len_cons, IH. reflexivity.
Qed.

Lemma max_len_app_zeros lens k : max_len (lens ++ repeat 0 k) = max_len lens.
Proof.
  induction lens as [|x r IH].
  - cbn [app]. apply max_len_zeros.
  - cbn [app]. rewrite !max_len_cons, IH. reflexivity.
Qed.

Lemma used_count_cons x r :
  used_count (x :: r) = (if 0 <? x then 1 else 0) + used_count r.
Proof.
  unfold used_count. cbn [filter]. destruct (0 <? x); [rewrite nlen_cons; lia|lia].
Qed.

Lemma used_count_zeros k : used_count (repeat 0 k) = 0.
Proof.
  induction k as [|k IH]; [reflexivity|].
  cbn [repeat]. rewrite used_count_cons, IH. reflexivity.
Qed.

Lemma used_count_app_zeros lens k : used_count (lens ++ repeat 0 k) = used_count lens.
Proof.
  induction lens as [|x r IH].
  - cbn [app]. apply used_count_zeros.
  - cbn [app]. rewrite !used_count_cons, IH. reflexivity.
Qed.

Lemma kraft_num_zeros k M : kraft_num (repeat 0 k) M = 0.
Proof.
  induction k as [|k IH]; [reflexivity|].
  cbn [repeat kraft_num]. rewrite IH. change (0 <? 0) with false. reflexivity.
Qed.

Lemma kraft_num_app_zeros lens k M : kraft_num (lens ++ repeat 0 k) M = kraft_num lens M.
Proof.
  induction lens as [|x r IH].
  - cbn [app]. apply kraft_num_zeros.
  - cbn [app kraft_num]. rewrite IH. reflexivity.
Qed.

Lemma complete_code_app_zeros lens k : complete_code (lens ++ repeat 0 k) = complete_code lens.
Proof.
  unfold complete_code.
  rewrite max_len_app_zeros, used_count_app_zeros, kraft_num_app_zeros. reflexivity.
Qed.

(* ================================================================== *)
(* 1. Reader states, trees that decode a table                          *)

Lemma HL15 : 32768 = 2 ^ 15.
Proof. reflexivity. Qed.

(* the bit reader [r] over the source [c] presents exactly the bits [bl] *)
Definition rs (r : bsr) (c : src) (bl : list bool) : Prop :=
  bsr_wf r /\ src_ok c /\ pending r c = bl.

Lemma rs_read_bits r c n v rest :
  rs r c (bits_of n v ++ rest) -> N.of_nat n <= 25 -> v < 2 ^ N.of_nat n ->
  exists r' c', read_bits src_cb r c (N.of_nat n) = Ok (Some v, r', c') /\ rs r' c' rest.
Proof.
  intros (Hw & Hs & Hp) Hn Hv.
  destruct (read_bits_src_prefix r c n v rest Hw Hs Hn Hv Hp) as (r' & c' & E & A & B & C).
  exists r', c'. split; [exact E|]. split; [exact A|split; [exact B|exact C]].
Qed.

Lemma rs_read_bits_N r c w v rest :
  rs r c (bits_of (N.to_nat w) v ++ rest) -> w <= 25 -> v < 2 ^ w ->
  exists r' c', read_bits src_cb r c w = Ok (Some v, r', c') /\ rs r' c' rest.
Proof.
  intros H Hw Hv. destruct (rs_read_bits r c (N.to_nat w) v rest H) as (r' & c' & E & A).
  - rewrite N2Nat.id. exact Hw.
  - rewrite N2Nat.id. exact Hv.
  - rewrite N2Nat.id in E. eauto.
Qed.

Lemma rs_read_bit r c b rest : rs r c (b :: rest) ->
  exists r' c', read_bit src_cb r c = Ok (Some (N.b2n b), r', c') /\ rs r' c' rest.
Proof.
  intros (Hw & Hs & Hp).
  destruct (read_bit_src r c b rest Hw Hs Hp) as (r' & c' & E & A & B & C).
  exists r', c'. split; [exact E|]. split; [exact A|split; [exact B|exact C]].
Qed.

(* the tree [t] decodes the table [tab]: on the codeword of a symbol of the
   table, read_from_tree returns the symbol and consumes the codeword *)
Definition tree_dec (t : arr) (tab : table) : Prop :=
  forall sym r c rest, tab_has tab sym = true -> rs r c (tab_code tab sym ++ rest) ->
    exists r' c', read_from_tree 32768 src_cb t r c = Ok (Some sym, r', c') /\ rs r' c' rest.

Lemma tree_dec_single t x t' : set_tree_single 32768 t x = Ok t' -> x < 32768 ->
  tree_dec t' (TabSingle x).
Proof.
  intros E Hx sym r c rest Hh Hr. cbn [tab_has] in Hh. apply N.eqb_eq in Hh. subst sym.
  cbn [tab_code app] in Hr.
  rewrite (read_from_tree_single 32768 15 HL15 src_cb t x t' r c E).
  rewrite N.mod_small by exact Hx. eauto.
Qed.

(* ------------------------------------------------------------------ *)
(* read_length_value                                                   *)

Lemma len_bits_small l : l < 7 -> len_bits l = bits_of 3 l.
Proof. intros H. unfold len_bits. destruct (N.ltb_spec l 7); [reflexivity|lia]. Qed.

Lemma len_bits_big l : 7 <= l ->
  len_bits l = bits_of 3 7 ++ repeat true (N.to_nat (l - 7)) ++ [false].
Proof. intros H. unfold len_bits. destruct (N.ltb_spec l 7); [lia|reflexivity]. Qed.

Lemma pow2_nat_N k : N.of_nat (2 ^ k) = 2 ^ N.of_nat k.
Proof. rewrite Nat2N.inj_pow. reflexivity. Qed.

Lemma rlv_loops k : forall len r c rest, rs r c (repeat true k ++ false :: rest) ->
  exists r' c', loops (ln_rlv_step src_cb) k (len, r, c) (Some (len + N.of_nat k), r', c') /\ rs r' c' rest.
Proof.
  induction k as [|k IH]; intros len r c rest Hr.
  - cbn [repeat app] in Hr. destruct (rs_read_bit r c false rest Hr) as (r' & c' & E & Hr').
    exists r', c'. split; [|exact Hr']. apply loops_done. unfold ln_rlv_step. rewrite E. cbn [bind N.b2n].
    cbv beta iota. change (0 =? 0) with true. cbv iota. replace (len + N.of_nat 0) with len by lia. reflexivity.
  - cbn [repeat app] in Hr. destruct (rs_read_bit r c true _ Hr) as (r1 & c1 & E & Hr1).
    destruct (IH (len + 1) r1 c1 rest Hr1) as (r' & c' & L & Hr').
    exists r', c'. split; [|exact Hr'].
    replace (len + N.of_nat (S k)) with (len + 1 + N.of_nat k) by lia.
    eapply loops_more; [|exact L]. unfold ln_rlv_step. rewrite E. cbn [bind N.b2n]. cbv beta iota.
    change (1 =? 0) with false. cbv iota. reflexivity.
Qed.

Lemma rlv_spec l r c rest : l < 2 ^ 30 -> rs r c (len_bits l ++ rest) ->
  exists r' c', ln_read_length_value src_cb r c = Ok (Some l, r', c') /\ rs r' c' rest.
Proof.
  intros Hl Hr. unfold ln_read_length_value.
  destruct (N.lt_ge_cases l 7) as [Hlt|Hge].
  - rewrite len_bits_small in Hr by exact Hlt.
    destruct (rs_read_bits r c 3 l rest Hr) as (r1 & c1 & E & Hr1); [cbn; lia|cbn; lia|].
    change (N.of_nat 3) with 3 in E. rewrite E. cbn [bind]. cbv beta iota.
    destruct (N.eqb_spec l 7); [lia|]. eauto.
  - rewrite len_bits_big in Hr by exact Hge. rewrite <- !app_assoc in Hr.
    destruct (rs_read_bits r c 3 7 _ Hr) as (r1 & c1 & E & Hr1); [cbn; lia|cbn; lia|].
    change (N.of_nat 3) with 3 in E. rewrite E. cbn [bind]. cbv beta iota.
    change (7 =? 7) with true. cbv iota.
    cbn [app] in Hr1.
    destruct (rlv_loops (N.to_nat (l - 7)) 7 r1 c1 rest Hr1) as (r' & c' & L & Hr').
    replace (7 + N.of_nat (N.to_nat (l - 7))) with l in L by lia.
    exists r', c'. split; [|exact Hr'].
    eapply loop_complete; [exact L|].
    pose proof (pow2_nat_N 30) as E30. change (N.of_nat 30) with 30 in E30. lia.
Qed.

(* ------------------------------------------------------------------ *)
(* build_tree on a complete code yields a decoding tree                *)

Lemma len_of_overflow lens s : nlen lens <= s -> len_of lens s = 0.
Proof. intros H. unfold len_of. apply nth_overflow. unfold nlen in H. lia. Qed.

Lemma nlen_canonical_code lens s : nlen (canonical_code lens s) = len_of lens s.
Proof. unfold canonical_code. rewrite nlen_bits_of. apply N2Nat.id. Qed.

Lemma tree_dec_build t tree_len cl num lens0 k :
  closed 32768 t tree_len -> 1 <= tree_len -> tree_len <= 65536 -> 2 * num <= tree_len ->
  num <= 512 -> cl_repr cl num lens0 -> complete_code lens0 = true ->
  exists t', build_tree 32768 t tree_len cl num = Ok t' /\ tree_dec t' (TabLens (lens0 ++ repeat 0 k)).
Proof.
  intros Hc H1 H2 Hroom Hnum Hrep Hcomp.
  pose proof (used_count_le_nlen lens0) as HU.
  pose proof Hrep as (Hn & _ & Hcl).
  destruct (build_tree_canonical 32768 15 t tree_len cl num lens0 HL15 Hc H1) as (t' & E & Hc' & _ & Hw);
    try assumption; try lia.
  exists t'. split; [exact E|].
  intros sym r c rest Hh (Hw1 & Hs1 & Hp1). cbn [tab_has tab_code] in *.
  rewrite len_of_app_zeros in Hh. rewrite canonical_code_app_zeros in Hp1.
  assert (Hsym : sym < num).
  { destruct (N.lt_ge_cases sym num) as [A|A]; [exact A|].
    rewrite len_of_overflow in Hh by lia. discriminate. }
  destruct (Hw sym Hsym) as [W _]; [lia|].
  destruct (Hcl sym Hsym) as [El Hl256].
  destruct (read_from_tree_walk 32768 15 HL15 t' tree_len (canonical_code lens0 sym) sym r c rest Hc' H1 W)
    as (r' & c' & E' & A & B & C); try assumption.
  { rewrite nlen_canonical_code. change (2 ^ 20) with 1048576. lia. }
  exists r', c'. split; [exact E'|]. split; [exact A|split; [exact B|exact C]].
Qed.

(* ================================================================== *)
(* 2. Table readers                                                     *)

(* the code_lengths[] array holds the list L (and zeros behind it) *)
Definition arr_is (cl : arr) (L : list N) : Prop := forall j, aget cl j = nth (N.to_nat j) L 0.

Lemma arr_is_mk n : arr_is (mk_arr n 0) [].
Proof. intros j. rewrite aget_mk. destruct (N.to_nat j); reflexivity. Qed.

Lemma arr_is_snoc cl L x : arr_is cl L -> arr_is (aset cl (nlen L) x) (L ++ [x]).
Proof.
  intros H j. rewrite aget_aset. destruct (N.eqb_spec (nlen L) j) as [E|E].
  - subst j. unfold nlen. rewrite Nat2N.id. rewrite app_nth2 by lia.
    replace (length L - length L)%nat with O by lia. reflexivity.
  - rewrite H. unfold nlen in E. destruct (Nat.lt_ge_cases (N.to_nat j) (length L)) as [A|A].
    + rewrite app_nth1 by exact A. reflexivity.
    + rewrite nth_overflow by exact A. rewrite nth_overflow; [reflexivity|].
      rewrite app_length. cbn [length]. lia.
Qed.

Lemma nth_app_zeros L k j : nth j (L ++ repeat 0 k) 0 = nth j L 0.
Proof.
  destruct (Nat.lt_ge_cases j (length L)) as [A|A].
  - apply app_nth1. exact A.
  - rewrite app_nth2 by exact A. rewrite (nth_overflow L) by exact A.
    generalize (j - length L)%nat. intros m. revert m. induction k as [|k IH]; intros m.
    + destruct m; reflexivity.
    + destruct m as [|m]; [reflexivity|]. cbn [repeat nth]. apply IH.
Qed.

Lemma arr_is_app_zeros cl L k : arr_is cl L -> arr_is cl (L ++ repeat 0 k).
Proof. intros H j. rewrite nth_app_zeros. apply H. Qed.

Lemma arr_is_zero_at cl L j : arr_is cl L -> nlen L <= j -> arr_is (aset cl j 0) L.
Proof.
  intros H Hj i. rewrite aget_aset. destruct (N.eqb_spec j i) as [E|E]; [|apply H].
  subst i. rewrite nth_overflow; [reflexivity|]. unfold nlen in Hj. lia.
Qed.

Lemma u8_id x : x < 256 -> u8 x = x.
Proof. intros H. unfold u8. change 255 with (N.ones 8). rewrite N.land_ones. apply N.mod_small. exact H. Qed.

Lemma complete_Forall_lt L : complete_code L = true -> Forall (fun l => l < nlen L) L.
Proof.
  intros H. apply Forall_forall. intros x Hx.
  destruct (In_nth L x 0 Hx) as (j & Hj & E). rewrite <- E.
  pose proof (complete_len_lt_nlen L (N.of_nat j) H) as B. unfold len_of in B. rewrite Nat2N.id in B. exact B.
Qed.

Lemma repeat_split {A} (x : A) a b : repeat x (a + b) = repeat x a ++ repeat x b.
Proof. apply repeat_app. Qed.

Lemma firstn_repeat_le {A} (x : A) p : forall m, (p <= m)%nat -> firstn p (repeat x m) = repeat x p.
Proof.
  induction p as [|p IH]; intros m H; [reflexivity|].
  destruct m as [|m]; [lia|]. cbn [repeat firstn]. f_equal. apply IH. lia.
Qed.

(* a list that ends in zeros from position |A| on, cut at n >= |A| *)
Lemma firstn_zeros_tail A m n : (length A <= n)%nat -> (n <= length A + m)%nat ->
  A ++ repeat 0 m = firstn n (A ++ repeat 0 m) ++ repeat 0 (length A + m - n).
Proof.
  intros H1 H2. rewrite firstn_app. rewrite firstn_all2 by exact H1.
  rewrite <- app_assoc. f_equal.
  rewrite firstn_repeat_le by lia. rewrite <- repeat_app. f_equal. lia.
Qed.

(* ------------------------------------------------------------------ *)
(* read_temp_table                                                     *)

(* a run of explicitly sent lengths that does not touch index 2 *)
Lemma rtt_seg ls : forall fuel cl i n r c L rest,
  arr_is cl L -> nlen L = i -> i + nlen ls <= alen cl ->
  Forall (fun l => l < 256) ls ->
  (ls = [] \/ i + nlen ls <= n) -> (i + nlen ls <= 2 \/ 3 <= i) ->
  rs r c (flat_map len_bits ls ++ rest) ->
  exists cl' r' c',
    ln_rtt_loop src_cb (length ls + fuel) cl i n r c = ln_rtt_loop src_cb fuel cl' (i + nlen ls) n r' c' /\
    arr_is cl' (L ++ ls) /\ alen cl' = alen cl /\ rs r' c' rest.
Proof.
  induction ls as [|l ls IH]; intros fuel cl i n r c L rest Ha HL Hal Hf Hn Hi Hr.
  - exists cl, r, c. cbn [length Nat.add flat_map app] in *. rewrite nlen_nil, N.add_0_r, app_nil_r.
    repeat split; try assumption; apply Hr.
  - rewrite nlen_cons in *. inversion Hf as [|? ? Hl Hf']; subst.
    destruct Hn as [Hn|Hn]; [discriminate|].
    cbn [flat_map] in Hr. rewrite <- app_assoc in Hr.
    destruct (rlv_spec l r c _ ltac:(lia) Hr) as (r1 & c1 & E1 & Hr1).
    cbn [length Nat.add]. rewrite ln_rtt_loop_eq.
    destruct (N.ltb_spec (nlen L) n) as [_|]; [|lia].
    rewrite E1. cbn [bind]. cbv beta iota.
    rewrite wr_ok by lia. cbn [bind]. rewrite u8_id by exact Hl.
    destruct (N.eqb_spec (nlen L) 2) as [E2|_]; [lia|].
    destruct (IH fuel (aset cl (nlen L) l) (nlen L + 1) n r1 c1 (L ++ [l]) rest)
      as (cl' & r' & c' & E & Ha' & Hal' & Hr'); try assumption.
    + apply arr_is_snoc. exact Ha.
    + rewrite nlen_app, nlen_cons, nlen_nil. lia.
    + rewrite alen_aset. lia.
    + right. lia.
    + lia.
    + exists cl', r', c'. split; [|split; [|split]].
      * rewrite E. f_equal. lia.
      * rewrite <- app_assoc in Ha'. exact Ha'.
      * rewrite Hal'. apply alen_aset.
      * exact Hr'.
Qed.

(* the zero entries announced by the 2-bit skip field *)
Lemma rtt_skip_spec k : forall cl i L, arr_is cl L -> nlen L = i + 1 -> i + N.of_nat k < alen cl ->
  exists cl', ln_rtt_skip k cl i = Ok (cl', i + N.of_nat k) /\ arr_is cl' (L ++ repeat 0 k) /\ alen cl' = alen cl.
Proof.
  induction k as [|k IH]; intros cl i L Ha HL Hal.
  - exists cl. cbn [ln_rtt_skip repeat]. rewrite app_nil_r, N.add_0_r. auto.
  - rewrite ln_rtt_skip_S. rewrite wr_ok by lia. cbn [bind].
    destruct (IH (aset cl (i + 1) 0) (i + 1) (L ++ [0])) as (cl' & E & Ha' & Hal').
    + rewrite <- HL. apply arr_is_snoc. exact Ha.
    + rewrite nlen_app, nlen_cons, nlen_nil. lia.
    + rewrite alen_aset. lia.
    + exists cl'. split; [rewrite E; f_equal; f_equal; lia|]. split.
      * rewrite <- app_assoc in Ha'. exact Ha'.
      * rewrite Hal'. apply alen_aset.
Qed.

Lemma rtt_done fuel cl i n r c : n <= i -> ln_rtt_loop src_cb fuel cl i n r c = Ok (Some cl, r, c).
Proof. intros H. rewrite ln_rtt_loop_eq. destruct (N.ltb_spec i n); [lia|reflexivity]. Qed.

Lemma cl_repr_of_arr_is cl n L : arr_is cl L -> n <= alen cl -> n <= nlen L ->
  (forall i, len_of L i < 256) -> cl_repr cl n (firstn (N.to_nat n) L).
Proof.
  intros Ha Hal HL Hb. split; [|split].
  - unfold nlen in *. rewrite firstn_length. lia.
  - exact Hal.
  - intros i Hi. rewrite Ha. unfold len_of in *. split; [|apply Hb].
    rewrite <- (firstn_skipn (N.to_nat n) L) at 1. rewrite app_nth1; [reflexivity|].
    unfold nlen in *. rewrite firstn_length. lia.
Qed.

Lemma complete_len_256 L i : complete_code L = true -> nlen L <= 256 -> len_of L i < 256.
Proof. intros H Hn. pose proof (complete_len_lt_nlen L i H). lia. Qed.

(* the explicit lengths, the skip field and the resulting list *)
Lemma rtt_run n lens skip r c rest :
  1 <= n -> n <= 31 -> skip <= 3 -> (3 <= n \/ skip = 0) -> nlen lens = temp_explicit n skip ->
  Forall (fun l => l < 256) lens ->
  rs r c (flat_map len_bits (firstn 3 lens) ++ (if 3 <=? n then bits_of 2 skip else [])
          ++ flat_map len_bits (skipn 3 lens) ++ rest) ->
  exists cl r' c', ln_rtt_loop src_cb 31 (mk_arr 31 0) 0 n r c = Ok (Some cl, r', c') /\
    arr_is cl (temp_lens n lens skip) /\ alen cl = 31 /\ rs r' c' rest.
Proof.
  intros Hn1 Hn31 Hsk Hsk0 Hlen Hf Hr. unfold temp_explicit in Hlen. unfold temp_lens.
  destruct (N.ltb_spec n 3) as [Hlt|Hge].
  - (* fewer than three symbols: no skip field *)
    destruct (N.leb_spec 3 n) as [|_]; [lia|]. cbn [app] in Hr.
    assert (Hl3 : (length lens <= 3)%nat) by (unfold nlen in Hlen; lia).
    rewrite firstn_all2 in Hr by exact Hl3. rewrite skipn_all2 in Hr by exact Hl3.
    cbn [flat_map app] in Hr.
    destruct (rtt_seg lens (31 - length lens) (mk_arr 31 0) 0 n r c [] rest)
      as (cl & r' & c' & E & Ha & Hal & Hr'); try assumption.
    + apply arr_is_mk.
    + reflexivity.
    + cbn [mk_arr alen]. lia.
    + right. lia.
    + left. lia.
    + replace (length lens + (31 - length lens))%nat with 31%nat in E by (unfold nlen in Hlen; lia).
      exists cl, r', c'. rewrite E. rewrite rtt_done by lia.
      split; [reflexivity|]. split; [exact Ha|]. split; [exact Hal|exact Hr'].
  - destruct (N.leb_spec 3 n) as [_|]; [|lia].
    destruct lens as [|a [|b [|c0 T]]]; try (unfold nlen in Hlen; cbn [length] in Hlen; lia).
    cbn [firstn skipn] in *.
    assert (HT : nlen T = n - 3 - skip) by (rewrite !nlen_cons in Hlen; lia).
    inversion Hf as [|? ? Ha256 Hf1]; subst. inversion Hf1 as [|? ? Hb256 Hf2]; subst.
    inversion Hf2 as [|? ? Hc256 HfT]; subst.
    assert (Hr2 : rs r c (flat_map len_bits [a; b] ++ len_bits c0 ++ bits_of 2 skip ++ flat_map len_bits T ++ rest)).
    { cbn [flat_map app] in *. rewrite app_nil_r in Hr. rewrite <- !app_assoc in Hr. rewrite <- !app_assoc. exact Hr. }
    clear Hr.
    assert (N2 : nlen [a; b] = 2) by reflexivity.
    assert (N3 : nlen [a; b; c0] = 3) by reflexivity.
    destruct (rtt_seg [a; b] (S (length T + (28 - length T))) (mk_arr 31 0) 0 n r c []
                (len_bits c0 ++ bits_of 2 skip ++ flat_map len_bits T ++ rest) (arr_is_mk 31))
      as (cl1 & r1 & c1 & E1 & Ha1 & Hal1 & Hr1); try exact Hr2.
    + reflexivity.
    + cbn [mk_arr alen]. rewrite N2. lia.
    + repeat constructor; assumption.
    + right. rewrite N2. lia.
    + left. rewrite N2. lia.
    + replace (length [a; b] + S (length T + (28 - length T)))%nat with 31%nat in E1
        by (cbn [length]; unfold nlen in HT; lia).
      rewrite E1. clear E1. cbn [app] in Ha1. cbn [mk_arr alen] in Hal1.
      rewrite N2. change (0 + 2) with 2.
      (* the third length and the skip field *)
      destruct (rlv_spec c0 r1 c1 _ ltac:(lia) Hr1) as (r2 & c2 & E2 & Hr2').
      rewrite ln_rtt_loop_eq. destruct (N.ltb_spec 2 n) as [_|]; [|lia].
      rewrite E2. cbn [bind]. cbv beta iota. rewrite wr_ok by lia. cbn [bind]. rewrite u8_id by exact Hc256.
      change (2 =? 2) with true. cbv iota.
      destruct (rs_read_bits r2 c2 2 skip _ Hr2') as (r3 & c3 & E3 & Hr3); [cbn; lia|cbn; lia|].
      change (N.of_nat 2) with 2 in E3. rewrite E3. cbn [bind]. cbv beta iota.
      destruct (rtt_skip_spec (N.to_nat skip) (aset cl1 2 c0) 2 [a; b; c0]) as (cl3 & E4 & Ha3 & Hal3).
      { rewrite <- N2. apply (arr_is_snoc cl1 [a; b] c0). exact Ha1. }
      { reflexivity. }
      { rewrite alen_aset. lia. }
      rewrite E4. cbn [bind]. cbv beta iota.
      rewrite alen_aset in Hal3.
      destruct (rtt_seg T (28 - length T) cl3 (2 + N.of_nat (N.to_nat skip) + 1) n r3 c3
                  ([a; b; c0] ++ repeat 0 (N.to_nat skip)) rest Ha3)
        as (cl4 & r4 & c4 & E5 & Ha4 & Hal4 & Hr4); try assumption.
      * rewrite nlen_app, N3. unfold nlen. rewrite repeat_length. lia.
      * lia.
      * destruct T as [|t0 T']; [left; reflexivity|right]. rewrite nlen_cons in *. lia.
      * right. lia.
      * rewrite E5. rewrite rtt_done by lia.
        exists cl4, r4, c4. split; [reflexivity|]. split; [|split; [lia|exact Hr4]].
        rewrite <- app_assoc in Ha4. exact Ha4.
Qed.

Lemma temp_lens_nlen n lens skip : nlen lens = temp_explicit n skip -> (3 <= n \/ skip = 0) ->
  nlen (temp_lens n lens skip) = N.max n (if n <? 3 then n else 3 + skip).
Proof.
  intros H Hs. unfold temp_explicit in H. unfold temp_lens. destruct (N.ltb_spec n 3) as [A|A]; [lia|].
  rewrite !nlen_app. unfold nlen in *. rewrite firstn_length, skipn_length, repeat_length. lia.
Qed.

(* what the decoder hands to build_tree is the described list cut at n; the rest is zeros *)
Lemma temp_lens_cut n lens skip : nlen lens = temp_explicit n skip -> (3 <= n \/ skip = 0) -> 1 <= n ->
  exists k, temp_lens n lens skip = firstn (N.to_nat n) (temp_lens n lens skip) ++ repeat 0 k.
Proof.
  intros H Hs Hn. pose proof (temp_lens_nlen n lens skip H Hs) as HL.
  unfold temp_explicit in H.
  destruct (N.ltb_spec n 3) as [A|A].
  - exists O. cbn [repeat]. rewrite app_nil_r. rewrite firstn_all2; [reflexivity|]. unfold nlen in HL. lia.
  - destruct (N.le_gt_cases (3 + skip) n) as [B|B].
    + exists O. cbn [repeat]. rewrite app_nil_r. rewrite firstn_all2; [reflexivity|]. unfold nlen in HL. lia.
    + (* the skip field reaches past n: no length follows it *)
      unfold temp_lens. destruct (N.ltb_spec n 3) as [|_]; [lia|].
      assert (E : skipn 3 lens = []).
      { apply skipn_all2. unfold nlen in H. lia. }
      rewrite E, app_nil_r.
      exists (length (firstn 3 lens) + N.to_nat skip - N.to_nat n)%nat.
      apply firstn_zeros_tail; rewrite firstn_length; unfold nlen in H; lia.
Qed.

Section TempTable.
  Variable P : lhnew_params.
  Hypothesis HP : params_ok P.
  Hypothesis Htb : p_TEMP_CODE_BITS P = 5.
  Hypothesis Htm : p_MAX_TEMP_CODES P = 31.

  Lemma read_temp_table_spec tmpt r c d rest :
    closed 32768 tmpt 62 -> wf_temp d = true -> rs r c (temp_bits d ++ rest) ->
    exists tmpt' r' c', ln_read_temp_table src_cb P tmpt r c = Ok (true, tmpt', r', c') /\
      rs r' c' rest /\ tree_dec tmpt' (temp_table d).
  Proof.
    intros Hc Hwf Hr. unfold ln_read_temp_table. rewrite (ln_leaf_eq P HP), Htb, Htm.
    pose proof (closed_alen _ _ _ Hc) as Hal.
    destruct d as [s|n lens skip]; cbn [temp_bits wf_temp temp_table] in *.
    - (* single symbol *)
      rewrite <- app_assoc in Hr.
      destruct (rs_read_bits r c 5 0 _ Hr) as (r1 & c1 & E1 & Hr1); [cbn; lia|cbn; lia|].
      change (N.of_nat 5) with 5 in E1. rewrite E1. cbn [bind]. cbv beta iota.
      change (0 =? 0) with true. cbv iota.
      assert (Hs : s < 32) by lia.
      destruct (rs_read_bits r1 c1 5 s _ Hr1) as (r2 & c2 & E2 & Hr2); [cbn; lia|cbn; lia|].
      change (N.of_nat 5) with 5 in E2. rewrite E2. cbn [bind]. cbv beta iota.
      unfold set_tree_single at 1. rewrite wr_ok by lia. cbn [bind].
      eexists _, r2, c2. split; [reflexivity|]. split; [exact Hr2|].
      apply (tree_dec_single tmpt s); [unfold set_tree_single; rewrite wr_ok by lia; reflexivity|lia].
    - rewrite !andb_true_iff in Hwf. destruct Hwf as (((((W1 & W2) & W3) & W4) & W5) & W6).
      unfold MAX_TEMP in W2.
      assert (Hn1 : 1 <= n) by lia. assert (Hn31 : n <= 31) by lia. assert (Hsk : skip <= 3) by lia.
      assert (Hsk0 : 3 <= n \/ skip = 0) by lia. assert (Hlen : nlen lens = temp_explicit n skip) by lia.
      clear W1 W2 W3 W4 W5.
      rewrite <- !app_assoc in Hr.
      destruct (rs_read_bits r c 5 n _ Hr) as (r1 & c1 & E1 & Hr1); [cbn; lia|cbn; lia|].
      change (N.of_nat 5) with 5 in E1. rewrite E1. cbn [bind]. cbv beta iota.
      destruct (N.eqb_spec n 0) as [|_]; [lia|].
      destruct (N.ltb_spec 31 n) as [|_]; [lia|].
      pose proof (temp_lens_nlen n lens skip Hlen Hsk0) as HLn.
      assert (HL34 : nlen (temp_lens n lens skip) <= 34).
      { rewrite HLn. destruct (n <? 3); lia. }
      assert (Hf : Forall (fun l => l < 256) lens).
      { pose proof (complete_Forall_lt _ W6) as F.
        assert (F2 : Forall (fun l => l < 256) (temp_lens n lens skip)).
        { eapply Forall_impl; [|exact F]. cbv beta. intros a Ha. lia. }
        unfold temp_lens in F2. destruct (n <? 3); [exact F2|].
        apply Forall_app in F2. destruct F2 as [F3 F4]. apply Forall_app in F4. destruct F4 as [_ F4].
        rewrite <- (firstn_skipn 3 lens). apply Forall_app. split; assumption. }
      change (N.to_nat 31) with 31%nat.
      destruct (rtt_run n lens skip r1 c1 rest Hn1 Hn31 Hsk Hsk0 Hlen Hf Hr1)
        as (cl & r2 & c2 & E2 & Ha & Hal2 & Hr2).
      rewrite E2. cbn [bind]. cbv beta iota.
      destruct (temp_lens_cut n lens skip Hlen Hsk0 Hn1) as (k & Ecut).
      set (Lf := temp_lens n lens skip) in *.
      assert (Hrep : cl_repr cl n (firstn (N.to_nat n) Lf)).
      { apply cl_repr_of_arr_is; [exact Ha|lia|rewrite HLn; lia|].
        intros i. apply complete_len_256; [exact W6|lia]. }
      assert (Hcomp : complete_code (firstn (N.to_nat n) Lf) = true).
      { rewrite <- (complete_code_app_zeros _ k), <- Ecut. exact W6. }
      destruct (tree_dec_build tmpt (31 * 2) cl n (firstn (N.to_nat n) Lf) k) as (t' & E3 & Hd);
        try assumption; try lia.
      rewrite E3. cbn [bind]. exists t', r2, c2. split; [reflexivity|]. split; [exact Hr2|].
      rewrite Ecut. exact Hd.
  Qed.
End TempTable.

(* ------------------------------------------------------------------ *)
(* read_code_table                                                     *)

Lemma nth_firstn_lt {A} (l : list A) d n j : (j < n)%nat -> nth j (firstn n l) d = nth j l d.
Proof.
  revert n j. induction l as [|x l IH]; intros n j H.
  - rewrite firstn_nil. reflexivity.
  - destruct n as [|n]; [lia|]. cbn [firstn]. destruct j as [|j]; [reflexivity|]. cbn [nth]. apply IH. lia.
Qed.

Lemma arr_is_firstn_zeros cl Lpre k n : arr_is cl Lpre -> nlen Lpre <= n ->
  arr_is cl (firstn_N n (Lpre ++ repeat 0 k)).
Proof.
  intros H Hn j. rewrite H, firstn_N_eq.
  destruct (N.lt_ge_cases j n) as [A|A].
  - rewrite nth_firstn_lt by lia. symmetry. apply nth_app_zeros.
  - rewrite nth_overflow by (unfold nlen in Hn; lia).
    rewrite nth_overflow; [reflexivity|]. rewrite firstn_length. lia.
Qed.

Lemma rct_skip_spec k : forall cl i n L, arr_is cl L -> nlen L <= i -> i <= n -> n <= alen cl ->
  exists cl', ln_rct_skip k cl i n = Ok (cl', N.min (i + N.of_nat k) n) /\ arr_is cl' L /\ alen cl' = alen cl.
Proof.
  induction k as [|k IH]; intros cl i n L Ha HL Hi Hal.
  - exists cl. cbn [ln_rct_skip]. replace (N.min (i + N.of_nat 0) n) with i by lia. auto.
  - rewrite ln_rct_skip_S. destruct (N.ltb_spec i n) as [Hlt|Hge].
    + rewrite wr_ok by lia. cbn [bind].
      destruct (IH (aset cl i 0) (i + 1) n L) as (cl' & E & Ha' & Hal'); try lia.
      * apply arr_is_zero_at; assumption.
      * rewrite alen_aset. exact Hal.
      * exists cl'. split; [rewrite E; f_equal; f_equal; lia|]. split; [exact Ha'|].
        rewrite Hal'. apply alen_aset.
    + exists cl. split; [f_equal; f_equal; lia|]. auto.
Qed.

Lemma nlen_tok_lens t : nlen (tok_lens t) = tok_span t.
Proof.
  destruct t as [l| |k|k]; cbn [tok_lens tok_span]; try reflexivity;
    unfold nlen; rewrite repeat_length; lia.
Qed.

Lemma tok_span_pos t : tok_ok t = true -> 1 <= tok_span t.
Proof. destruct t as [l| |k|k]; cbn [tok_ok tok_span]; lia. Qed.

Lemma toks_cover_length n toks : forall pos, toks_cover n toks pos = true -> forallb tok_ok toks = true ->
  toks = [] \/ pos + nlen toks <= n.
Proof.
  induction toks as [|t toks IH]; intros pos Hc Ho; [left; reflexivity|right].
  cbn [toks_cover forallb] in *. apply andb_true_iff in Hc, Ho. destruct Hc as [Hp Hc]. destruct Ho as [Ht Ho].
  pose proof (tok_span_pos t Ht). rewrite nlen_cons.
  destruct (IH _ Hc Ho) as [->|A]; [rewrite nlen_nil; lia|lia].
Qed.

Lemma toks_cover_reach n toks : forall pos, toks_cover n toks pos = true ->
  n <= pos + nlen (flat_map tok_lens toks).
Proof.
  induction toks as [|t toks IH]; intros pos Hc; cbn [toks_cover flat_map] in *.
  - rewrite nlen_nil. lia.
  - apply andb_true_iff in Hc. destruct Hc as [_ Hc]. specialize (IH _ Hc).
    rewrite nlen_app, nlen_tok_lens. lia.
Qed.

Lemma Forall_len_of (Q : N -> Prop) L i : Q 0 -> Forall Q L -> Q (len_of L i).
Proof.
  intros H0 HF. unfold len_of. destruct (nth_in_or_default (N.to_nat i) L 0) as [A|A].
  - rewrite Forall_forall in HF. apply HF. exact A.
  - rewrite A. exact H0.
Qed.

Section CodeTable.
  Variable P : lhnew_params.
  Hypothesis HP : params_ok P.
  Hypothesis Hnc : p_NUM_CODES P <= 511.
  Variable tmpt : arr.
  Variable tt : table.
  Hypothesis Htd : tree_dec tmpt tt.
  Hypothesis Htb : forall sym, tab_has tt sym = true -> sym < 258.
  Variable n : N.
  Hypothesis Hn : n <= p_NUM_CODES P.

  Notation tokbits := (fun t => ptab_code (tab_prepare tt) (tok_temp_sym t) ++ tok_extra t).

  Lemma rct_step_eq cl i r c : ln_rct_step src_cb P tmpt n (cl, i, r, c) =
    if i <? n then
      '(code, r1, c1) <- read_from_tree 32768 src_cb tmpt r c ;;
      match code with
      | None => Ok (inr (None, r1, c1))
      | Some cv =>
        if cv <=? 2 then
          '(sk, r2, c2) <- ln_read_skip_count src_cb r1 c1 cv ;;
          match sk with
          | None => Ok (inr (None, r2, c2))
          | Some k =>
            '(cl', i') <- ln_rct_skip (N.to_nat k) cl i n ;;
            Ok (inl (cl', i', r2, c2))
          end
        else
          cl' <- wr 722 cl i (u8 (cv - 2)) ;;
          Ok (inl (cl', i + 1, r1, c1))
      end
    else Ok (inr (Some cl, r, c)).
  Proof. unfold ln_rct_step. rewrite (ln_leaf_eq P HP). reflexivity. Qed.

  Lemma rct_loops toks : forall cl pos Lpre r c rest,
    arr_is cl (firstn_N n Lpre) -> nlen Lpre = pos -> alen cl = p_NUM_CODES P ->
    forallb tok_ok toks = true -> forallb (fun t => tab_has tt (tok_temp_sym t)) toks = true ->
    toks_cover n toks pos = true ->
    rs r c (flat_map tokbits toks ++ rest) ->
    exists cl' r' c',
      loops (ln_rct_step src_cb P tmpt n) (length toks) (cl, N.min pos n, r, c) (Some cl', r', c') /\
      arr_is cl' (firstn_N n (Lpre ++ flat_map tok_lens toks)) /\ alen cl' = p_NUM_CODES P /\ rs r' c' rest.
  Proof.
    induction toks as [|t toks IH]; intros cl pos Lpre r c rest Ha HL Hal Hok Hhas Hcov Hr.
    - cbn [toks_cover flat_map app length] in *. rewrite app_nil_r.
      exists cl, r, c. split; [|split; [exact Ha|split; [exact Hal|exact Hr]]].
      apply loops_done. rewrite rct_step_eq. destruct (N.ltb_spec (N.min pos n) n); [lia|reflexivity].
    - cbn [toks_cover forallb flat_map length] in *.
      apply andb_true_iff in Hok, Hhas, Hcov.
      destruct Hok as [Hok1 Hok]. destruct Hhas as [Hhas1 Hhas]. destruct Hcov as [Hpos Hcov].
      assert (Hlt : pos < n) by lia.
      replace (N.min pos n) with pos by lia.
      rewrite firstn_N_all in Ha by lia.
      rewrite <- !app_assoc in Hr. rewrite ptab_code_prepare in Hr.
      destruct (Htd _ r c _ Hhas1 Hr) as (r1 & c1 & E1 & Hr1).
      specialize (IH) with (Lpre := Lpre ++ tok_lens t) (pos := pos + tok_span t) (rest := rest).
      assert (Estep : forall cl1 r2 c2,
        ln_rct_step src_cb P tmpt n (cl, pos, r, c) = Ok (inl (cl1, N.min (pos + tok_span t) n, r2, c2)) ->
        arr_is cl1 (firstn_N n (Lpre ++ tok_lens t)) -> alen cl1 = p_NUM_CODES P ->
        rs r2 c2 (flat_map tokbits toks ++ rest) ->
        exists cl' r' c',
          loops (ln_rct_step src_cb P tmpt n) (S (length toks)) (cl, pos, r, c) (Some cl', r', c') /\
          arr_is cl' (firstn_N n (Lpre ++ tok_lens t ++ flat_map tok_lens toks)) /\
          alen cl' = p_NUM_CODES P /\ rs r' c' rest).
      { intros cl1 r2 c2 Es Ha1 Hal1 Hr2.
        destruct (IH cl1 r2 c2 Ha1) as (cl' & r' & c' & L & Ha' & Hal' & Hr'); try assumption.
        - rewrite nlen_app, nlen_tok_lens. lia.
        - exists cl', r', c'. split; [eapply loops_more; [exact Es|exact L]|].
          rewrite <- app_assoc in Ha'. auto. }
      clear IH.
      rewrite rct_step_eq in Estep.
      destruct (N.ltb_spec pos n) as [_|]; [|lia].
      rewrite E1 in Estep. cbn [bind] in Estep. cbv beta iota in Estep.
      destruct t as [l| |k|k]; cbn [tok_temp_sym tok_extra tok_span tok_lens tok_ok] in *.
      + (* an explicit length *)
        destruct (N.leb_spec (l + 2) 2) as [|_]; [lia|].
        pose proof (Htb _ Hhas1) as Hl.
        rewrite wr_ok in Estep by lia. cbn [bind] in Estep.
        replace (l + 2 - 2) with l in Estep by lia. rewrite u8_id in Estep by lia.
        replace (N.min (pos + 1) n) with (pos + 1) in Estep by lia.
        apply (Estep _ _ _ eq_refl).
        * rewrite firstn_N_all by (rewrite nlen_app, nlen_cons, nlen_nil; lia).
          rewrite <- HL. apply arr_is_snoc. exact Ha.
        * rewrite alen_aset. exact Hal.
        * cbn [app] in Hr1. exact Hr1.
      + (* one zero *)
        change (0 <=? 2) with true in Estep. cbv iota in Estep.
        unfold ln_read_skip_count in Estep. change (0 =? 0) with true in Estep. cbv iota in Estep.
        cbn [bind] in Estep. cbv beta iota in Estep.
        destruct (rct_skip_spec (N.to_nat 1) cl pos n Lpre Ha) as (cl1 & E2 & Ha1 & Hal1); try lia.
        rewrite E2 in Estep. cbn [bind] in Estep. cbv beta iota in Estep.
        replace (pos + N.of_nat (N.to_nat 1)) with (pos + 1) in Estep by lia.
        apply (Estep _ _ _ eq_refl).
        * change [0] with (repeat 0 1). apply arr_is_firstn_zeros; [exact Ha1|lia].
        * lia.
        * cbn [app] in Hr1. exact Hr1.
      + (* a short run *)
        assert (Hk : 3 <= k /\ k <= 18) by lia.
        change (1 <=? 2) with true in Estep. cbv iota in Estep.
        unfold ln_read_skip_count in Estep. change (1 =? 0) with false in Estep.
        change (1 =? 1) with true in Estep. cbv iota in Estep.
        destruct (rs_read_bits r1 c1 4 (k - 3) _ Hr1) as (r2 & c2 & E3 & Hr2); [cbn; lia|cbn; lia|].
        change (N.of_nat 4) with 4 in E3. rewrite E3 in Estep. cbn [bind] in Estep. cbv beta iota in Estep.
        replace (k - 3 + 3) with k in Estep by lia.
        destruct (rct_skip_spec (N.to_nat k) cl pos n Lpre Ha) as (cl1 & E2 & Ha1 & Hal1); try lia.
        rewrite E2 in Estep. cbn [bind] in Estep. cbv beta iota in Estep.
        rewrite N2Nat.id in Estep.
        apply (Estep _ _ _ eq_refl).
        * apply arr_is_firstn_zeros; [exact Ha1|lia].
        * lia.
        * exact Hr2.
      + (* a long run *)
        assert (Hk : 20 <= k /\ k <= 531) by lia.
        change (2 <=? 2) with true in Estep. cbv iota in Estep.
        unfold ln_read_skip_count in Estep. change (2 =? 0) with false in Estep.
        change (2 =? 1) with false in Estep. cbv iota in Estep.
        destruct (rs_read_bits r1 c1 9 (k - 20) _ Hr1) as (r2 & c2 & E3 & Hr2); [cbn; lia|cbn; lia|].
        change (N.of_nat 9) with 9 in E3. rewrite E3 in Estep. cbn [bind] in Estep. cbv beta iota in Estep.
        replace (k - 20 + 20) with k in Estep by lia.
        destruct (rct_skip_spec (N.to_nat k) cl pos n Lpre Ha) as (cl1 & E2 & Ha1 & Hal1); try lia.
        rewrite E2 in Estep. cbn [bind] in Estep. cbv beta iota in Estep.
        rewrite N2Nat.id in Estep.
        apply (Estep _ _ _ eq_refl).
        * apply arr_is_firstn_zeros; [exact Ha1|lia].
        * lia.
        * exact Hr2.
  Qed.
End CodeTable.

Lemma tok_lens_Forall tt toks : (forall sym, tab_has tt sym = true -> sym < 258) ->
  forallb (fun t => tab_has tt (tok_temp_sym t)) toks = true ->
  Forall (fun l => l < 256) (flat_map tok_lens toks).
Proof.
  intros Htb. induction toks as [|t toks IH]; intros H; cbn [flat_map forallb] in *; [constructor|].
  apply andb_true_iff in H. destruct H as [H1 H2]. apply Forall_app. split; [|apply IH; exact H2].
  destruct t as [l| |k|k]; cbn [tok_lens tok_temp_sym] in *.
  - constructor; [|constructor]. specialize (Htb _ H1). lia.
  - constructor; [lia|constructor].
  - apply Forall_forall. intros x Hx. apply repeat_spec in Hx. lia.
  - apply Forall_forall. intros x Hx. apply repeat_spec in Hx. lia.
Qed.

Lemma Forall_firstn_N' {A} (Q : A -> Prop) n l : Forall Q l -> Forall Q (firstn_N n l).
Proof. intros H. rewrite <- (firstn_skipn_N n l) in H. apply Forall_app in H. apply H. Qed.

Section CodeTable2.
  Variable P : lhnew_params.
  Hypothesis HP : params_ok P.
  Hypothesis Hnc : p_NUM_CODES P <= 511.
  Variable v : variant.
  Hypothesis Hv : v_num_codes v = p_NUM_CODES P.

  Lemma read_code_table_spec tmpt ct r c tt d rest :
    tree_dec tmpt tt -> (forall sym, tab_has tt sym = true -> sym < 258) ->
    closed 32768 ct (p_NUM_CODES P * 2) -> wf_code v tt d = true ->
    rs r c (code_bits (tab_prepare tt) d ++ rest) ->
    exists ct' r' c', ln_read_code_table src_cb P tmpt ct r c = Ok (true, ct', r', c') /\
      rs r' c' rest /\ tree_dec ct' (code_table d).
  Proof.
    intros Htd Htb Hc Hwf Hr. unfold ln_read_code_table. rewrite (ln_leaf_eq P HP).
    pose proof (closed_alen _ _ _ Hc) as Hal. pose proof (po_codes_min P HP) as Hmin.
    pose proof (po_code_u16 P HP) as Hu16.
    destruct d as [s|n toks]; cbn [code_bits wf_code code_table] in *.
    - rewrite <- app_assoc in Hr.
      destruct (rs_read_bits r c 9 0 _ Hr) as (r1 & c1 & E1 & Hr1); [cbn; lia|cbn; lia|].
      change (N.of_nat 9) with 9 in E1. rewrite E1. cbn [bind]. cbv beta iota.
      change (0 =? 0) with true. cbv iota.
      assert (Hs : s < 512) by lia.
      destruct (rs_read_bits r1 c1 9 s _ Hr1) as (r2 & c2 & E2 & Hr2); [cbn; lia|cbn; lia|].
      change (N.of_nat 9) with 9 in E2. rewrite E2. cbn [bind]. cbv beta iota.
      unfold set_tree_single at 1. rewrite wr_ok by lia. cbn [bind].
      eexists _, r2, c2. split; [reflexivity|]. split; [exact Hr2|].
      apply (tree_dec_single ct s); [unfold set_tree_single; rewrite wr_ok by lia; reflexivity|lia].
    - rewrite !andb_true_iff in Hwf. destruct Hwf as (((((W1 & W2) & W3) & W4) & W5) & W6).
      assert (Hn : 1 <= n /\ n <= p_NUM_CODES P) by lia. clear W1 W2.
      rewrite <- app_assoc in Hr.
      destruct (rs_read_bits r c 9 n _ Hr) as (r1 & c1 & E1 & Hr1); [cbn; lia|cbn; lia|].
      change (N.of_nat 9) with 9 in E1. rewrite E1. cbn [bind]. cbv beta iota.
      destruct (N.eqb_spec n 0) as [|_]; [lia|].
      destruct (N.ltb_spec (p_NUM_CODES P) n) as [|_]; [lia|].
      destruct (rct_loops P HP Hnc tmpt tt Htd Htb n ltac:(lia) toks (mk_arr (p_NUM_CODES P) 0) 0 [] r1 c1 rest)
        as (cl & r2 & c2 & L & Ha & Hal2 & Hr2); try assumption; try reflexivity.
      { rewrite firstn_N_nil. apply arr_is_mk. }
      replace (N.min 0 n) with 0 in L by lia.
      rewrite (loop_complete _ 10 _ _ _ L).
      2:{ destruct (toks_cover_length n toks 0 W5 W3) as [->|A]; [cbn; lia|].
          pose proof (pow2_nat_N 10) as E10. change (N.of_nat 10) with 10 in E10. unfold nlen in A. lia. }
      cbn [bind]. cbv beta iota. cbn [app] in Ha. fold (code_lens n toks) in Ha.
      assert (HF : Forall (fun l => l < 256) (code_lens n toks)).
      { unfold code_lens. apply Forall_firstn_N'. apply (tok_lens_Forall tt); assumption. }
      assert (Hrep : cl_repr cl n (code_lens n toks)).
      { split; [|split].
        - unfold code_lens. rewrite nlen_firstn_N. pose proof (toks_cover_reach n toks 0 W5). lia.
        - lia.
        - intros i Hi. rewrite Ha. fold (len_of (code_lens n toks) i). split; [reflexivity|].
          apply (Forall_len_of (fun l => l < 256)); [lia|exact HF]. }
      destruct (tree_dec_build ct (p_NUM_CODES P * 2) cl n (code_lens n toks) 0) as (t' & E3 & Hd);
        try assumption; try lia.
      rewrite E3. cbn [bind]. exists t', r2, c2. split; [reflexivity|]. split; [exact Hr2|].
      cbn [repeat] in Hd. rewrite app_nil_r in Hd. exact Hd.
  Qed.
End CodeTable2.

(* ------------------------------------------------------------------ *)
(* read_offset_table                                                   *)

Lemma rot_loops ls : forall cl i r c L rest,
  arr_is cl L -> nlen L = i -> i + nlen ls <= alen cl -> Forall (fun l => l < 256) ls ->
  rs r c (flat_map len_bits ls ++ rest) ->
  exists cl' r' c', ln_rot_loop src_cb (length ls) cl i r c = Ok (Some cl', r', c') /\
    arr_is cl' (L ++ ls) /\ alen cl' = alen cl /\ rs r' c' rest.
Proof.
  induction ls as [|l ls IH]; intros cl i r c L rest Ha HL Hal Hf Hr.
  - exists cl, r, c. cbn [length ln_rot_loop flat_map app] in *. rewrite app_nil_r. auto.
  - rewrite nlen_cons in Hal. inversion Hf as [|? ? Hl Hf']; subst.
    cbn [flat_map] in Hr. rewrite <- app_assoc in Hr.
    destruct (rlv_spec l r c _ ltac:(lia) Hr) as (r1 & c1 & E1 & Hr1).
    cbn [length]. rewrite ln_rot_loop_S. rewrite E1. cbn [bind]. cbv beta iota.
    rewrite wr_ok by lia. cbn [bind]. rewrite u8_id by exact Hl.
    destruct (IH (aset cl (nlen L) l) (nlen L + 1) r1 c1 (L ++ [l]) rest)
      as (cl' & r' & c' & E & Ha' & Hal' & Hr'); try assumption.
    + apply arr_is_snoc. exact Ha.
    + rewrite nlen_app, nlen_cons, nlen_nil. lia.
    + rewrite alen_aset. lia.
    + exists cl', r', c'. split; [exact E|]. split; [rewrite <- app_assoc in Ha'; exact Ha'|].
      split; [rewrite Hal'; apply alen_aset|exact Hr'].
Qed.

Section OffTable.
  Variable P : lhnew_params.
  Hypothesis HP : params_ok P.
  Variable v : variant.
  Hypothesis Hob : p_OFFSET_BITS P = v_offset_bits v.
  Hypothesis Hob6 : v_offset_bits v <= 6.
  Hypothesis Hmo : p_MAX_OFFSET_CODES P = max_offset_codes v.

  Lemma read_offset_table_spec ot r c d rest :
    closed 32768 ot (p_MAX_OFFSET_CODES P * 2) -> wf_off v d = true ->
    rs r c (off_bits v d ++ rest) ->
    exists ot' r' c', ln_read_offset_table src_cb P ot r c = Ok (true, ot', r', c') /\
      rs r' c' rest /\ tree_dec ot' (off_table d).
  Proof.
    intros Hc Hwf Hr. unfold ln_read_offset_table. rewrite (ln_leaf_eq P HP), Hob.
    pose proof (closed_alen _ _ _ Hc) as Hal. pose proof (po_off_min P HP) as Hmin.
    assert (Hmax : max_offset_codes v + 1 = 2 ^ v_offset_bits v).
    { unfold max_offset_codes. rewrite N.shiftl_1_l. pose proof (pow2_pos (v_offset_bits v)). lia. }
    assert (Hp64 : 2 ^ v_offset_bits v <= 64).
    { change 64 with (2 ^ 6). apply N.pow_le_mono_r; lia. }
    set (w := v_offset_bits v) in *.
    destruct d as [s|lens]; cbn [off_bits wf_off off_table] in *; cbv zeta in Hr.
    - rewrite <- app_assoc in Hr.
      destruct (rs_read_bits_N r c w 0 _ Hr) as (r1 & c1 & E1 & Hr1); [lia|pose proof (pow2_pos w); lia|].
      rewrite E1. cbn [bind]. cbv beta iota. change (0 =? 0) with true. cbv iota.
      assert (Hs : s < 2 ^ w) by (rewrite N.shiftl_1_l in Hwf; apply N.ltb_lt in Hwf; exact Hwf).
      destruct (rs_read_bits_N r1 c1 w s _ Hr1) as (r2 & c2 & E2 & Hr2); [lia|exact Hs|].
      rewrite E2. cbn [bind]. cbv beta iota.
      unfold set_tree_single at 1. rewrite wr_ok by lia. cbn [bind].
      eexists _, r2, c2. split; [reflexivity|]. split; [exact Hr2|].
      apply (tree_dec_single ot s); [unfold set_tree_single; rewrite wr_ok by lia; reflexivity|lia].
    - rewrite !andb_true_iff in Hwf. destruct Hwf as ((W1 & W2) & W3).
      assert (Hn : 1 <= nlen lens /\ nlen lens <= max_offset_codes v) by lia. clear W1 W2.
      rewrite <- app_assoc in Hr.
      destruct (rs_read_bits_N r c w (nlen lens) _ Hr) as (r1 & c1 & E1 & Hr1); [lia|lia|].
      rewrite E1. cbn [bind]. cbv beta iota.
      destruct (N.eqb_spec (nlen lens) 0) as [|_]; [lia|].
      destruct (N.ltb_spec (p_MAX_OFFSET_CODES P) (nlen lens)) as [|_]; [lia|].
      assert (HF : Forall (fun l => l < 256) lens).
      { eapply Forall_impl; [|exact (complete_Forall_lt _ W3)]. cbv beta. intros a Ha. lia. }
      replace (N.to_nat (nlen lens)) with (length lens) by (unfold nlen; lia).
      destruct (rot_loops lens (mk_arr (p_MAX_OFFSET_CODES P) 0) 0 r1 c1 [] rest)
        as (cl & r2 & c2 & E2 & Ha & Hal2 & Hr2); try assumption; try reflexivity.
      { apply arr_is_mk. }
      { cbn [mk_arr alen]. lia. }
      rewrite E2. cbn [bind]. cbv beta iota. cbn [app] in Ha. cbn [mk_arr alen] in Hal2.
      assert (Hrep : cl_repr cl (nlen lens) lens).
      { split; [reflexivity|]. split; [lia|]. intros i Hi. rewrite Ha. fold (len_of lens i).
        split; [reflexivity|]. apply (Forall_len_of (fun l => l < 256)); [lia|exact HF]. }
      destruct (tree_dec_build ot (p_MAX_OFFSET_CODES P * 2) cl (nlen lens) lens 0) as (t' & E3 & Hd);
        try assumption; try lia.
      rewrite E3. cbn [bind]. exists t', r2, c2. split; [reflexivity|]. split; [exact Hr2|].
      cbn [repeat] in Hd. rewrite app_nil_r in Hd. exact Hd.
  Qed.
End OffTable.

(* ================================================================== *)
(* 3. The ring buffer is the LZ77 window                                *)

(* the ring buffer holds the last RING_BUFFER_SIZE bytes of the output [orev] (reversed: newest first);
   positions before the start of the output hold a space *)
Definition ring_rel (P : lhnew_params) (s : lhnew_state) (orev : list N) : Prop :=
  alen (ln_ring s) = p_ringbuf_extent P /\
  ln_pos s = nlen orev mod p_RING_BUFFER_SIZE P /\
  forall d, d < p_RING_BUFFER_SIZE P ->
    aget (ln_ring s) ((ln_pos s + p_RING_BUFFER_SIZE P - d - 1) mod p_RING_BUFFER_SIZE P)
    = nth (N.to_nat d) orev 32.

Definition same_rest (s s' : lhnew_state) : Prop :=
  ln_bsr s' = ln_bsr s /\ ln_block_remaining s' = ln_block_remaining s /\
  ln_temp_tree s' = ln_temp_tree s /\ ln_code_tree s' = ln_code_tree s /\
  ln_offset_tree s' = ln_offset_tree s.

(* ------------------------------------------------------------------ *)
(* arithmetic modulo R, for arguments below 2 R                        *)

Lemma mod_cases R x : 0 < R -> x < 2 * R -> x mod R = if x <? R then x else x - R.
Proof.
  intros HR Hx. destruct (N.ltb_spec x R) as [H|H].
  - apply N.mod_small. exact H.
  - replace x with ((x - R) + 1 * R) at 1 by lia.
    rewrite N.mod_add by lia. apply N.mod_small. lia.
Qed.

(* the slot of distance 0 after one more byte is the slot just written *)
Lemma slot_new R pos : 0 < R -> pos < R -> ((pos + 1) mod R + R - 0 - 1) mod R = pos.
Proof.
  intros HR Hp.
  rewrite (mod_cases R (pos + 1)) by lia.
  destruct (N.ltb_spec (pos + 1) R) as [H|H].
  - rewrite mod_cases by lia.
    destruct (N.ltb_spec (pos + 1 + R - 0 - 1) R) as [H1|H1]; lia.
  - rewrite mod_cases by lia.
    destruct (N.ltb_spec (pos + 1 - R + R - 0 - 1) R) as [H1|H1]; lia.
Qed.

(* the slot of distance d >= 1 after one more byte is the old slot of distance d - 1 *)
Lemma slot_old R pos d : 0 < R -> pos < R -> 0 < d -> d < R ->
  ((pos + 1) mod R + R - d - 1) mod R = (pos + R - (d - 1) - 1) mod R.
Proof.
  intros HR Hp Hd0 Hd.
  rewrite (mod_cases R (pos + 1)) by lia.
  rewrite (mod_cases R (pos + R - (d - 1) - 1)) by lia.
  destruct (N.ltb_spec (pos + 1) R) as [H|H].
  - rewrite mod_cases by lia.
    destruct (N.ltb_spec (pos + 1 + R - d - 1) R) as [H1|H1];
      destruct (N.ltb_spec (pos + R - (d - 1) - 1) R) as [H2|H2]; lia.
  - rewrite mod_cases by lia.
    destruct (N.ltb_spec (pos + 1 - R + R - d - 1) R) as [H1|H1];
      destruct (N.ltb_spec (pos + R - (d - 1) - 1) R) as [H2|H2]; lia.
Qed.

Lemma slot_old_ne R pos d : 0 < R -> pos < R -> 0 < d -> d < R ->
  pos <> (pos + R - (d - 1) - 1) mod R.
Proof.
  intros HR Hp Hd0 Hd.
  rewrite mod_cases by lia.
  destruct (N.ltb_spec (pos + R - (d - 1) - 1) R) as [H2|H2]; lia.
Qed.

(* the read position of the copy loop follows the write position *)
Lemma slot_step R pos dist : 0 < R -> pos < R -> dist < R ->
  ((pos + R - dist - 1) mod R + 1) mod R = ((pos + 1) mod R + R - dist - 1) mod R.
Proof.
  intros HR Hp Hd.
  rewrite (mod_cases R (pos + R - dist - 1)) by lia.
  rewrite (mod_cases R (pos + 1)) by lia.
  destruct (N.ltb_spec (pos + R - dist - 1) R) as [H1|H1];
    destruct (N.ltb_spec (pos + 1) R) as [H2|H2].
  - rewrite (mod_cases R (pos + R - dist - 1 + 1)) by lia.
    rewrite (mod_cases R (pos + 1 + R - dist - 1)) by lia.
    destruct (N.ltb_spec (pos + R - dist - 1 + 1) R) as [H3|H3];
      destruct (N.ltb_spec (pos + 1 + R - dist - 1) R) as [H4|H4]; lia.
  - rewrite (mod_cases R (pos + R - dist - 1 + 1)) by lia.
    rewrite (mod_cases R (pos + 1 - R + R - dist - 1)) by lia.
    destruct (N.ltb_spec (pos + R - dist - 1 + 1) R) as [H3|H3];
      destruct (N.ltb_spec (pos + 1 - R + R - dist - 1) R) as [H4|H4]; lia.
  - rewrite (mod_cases R (pos + R - dist - 1 - R + 1)) by lia.
    rewrite (mod_cases R (pos + 1 + R - dist - 1)) by lia.
    destruct (N.ltb_spec (pos + R - dist - 1 - R + 1) R) as [H3|H3];
      destruct (N.ltb_spec (pos + 1 + R - dist - 1) R) as [H4|H4]; lia.
  - rewrite (mod_cases R (pos + R - dist - 1 - R + 1)) by lia.
    rewrite (mod_cases R (pos + 1 - R + R - dist - 1)) by lia.
    destruct (N.ltb_spec (pos + R - dist - 1 - R + 1) R) as [H3|H3];
      destruct (N.ltb_spec (pos + 1 - R + R - dist - 1) R) as [H4|H4]; lia.
Qed.

(* ------------------------------------------------------------------ *)

Lemma ring_size_pos P : params_ok P -> 0 < p_RING_BUFFER_SIZE P.
Proof.
  intros HP. rewrite (po_ring_pow P HP).
  assert (2 ^ p_HISTORY_BITS P <> 0) by (apply N.pow_nonzero; lia). lia.
Qed.

Lemma ln_ring_mod_eq P x : params_ok P -> ln_ring_mod P x = x mod p_RING_BUFFER_SIZE P.
Proof.
  intros HP. unfold ln_ring_mod. rewrite (po_ring_pow P HP).
  replace (2 ^ p_HISTORY_BITS P - 1) with (N.ones (p_HISTORY_BITS P)) by (rewrite N.ones_equiv; lia).
  apply N.land_ones.
Qed.

Lemma ring_rel_pos_lt P s orev : params_ok P -> ring_rel P s orev -> ln_pos s < p_RING_BUFFER_SIZE P.
Proof.
  intros HP (_ & Hpos & _). rewrite Hpos. apply N.mod_lt.
  pose proof (ring_size_pos P HP). lia.
Qed.

Lemma ring_rel_init P s0 : params_ok P -> lhnew_init P = Ok s0 -> ring_rel P s0 [].
Proof.
  intros HP. pose proof (ring_size_pos P HP) as HR.
  unfold lhnew_init. destruct (p_RING_BUFFER_SIZE P <=? p_ringbuf_extent P); [|discriminate].
  destruct (init_tree _ _ _) as [ct| |]; cbn [bind]; try discriminate.
  destruct (init_tree _ _ _) as [ot| |]; cbn [bind]; try discriminate.
  destruct (init_tree _ _ _) as [tt'| |]; cbn [bind]; try discriminate.
  intros E. inversion E as [E']. clear E E'.
  unfold ring_rel. ln_simpl.
  split; [reflexivity|]. split.
  - change (nlen (@nil N)) with 0. symmetry. apply N.mod_small. exact HR.
  - intros d _. rewrite aget_mk. destruct (N.to_nat d); reflexivity.
Qed.

Lemma ring_rel_ext P s s' orev :
  ln_ring s' = ln_ring s -> ln_pos s' = ln_pos s -> ring_rel P s orev -> ring_rel P s' orev.
Proof.
  intros Er Ep (Hlen & Hpos & Hget). unfold ring_rel. rewrite Er, Ep.
  split; [exact Hlen|]. split; [exact Hpos|exact Hget].
Qed.

Lemma ln_output_byte_spec P s o b orev : params_ok P -> ring_rel P s orev -> ob_len o < p_max_read P ->
  exists s', ln_output_byte P s o b = Ok (s', {| ob_rev := b :: ob_rev o; ob_len := ob_len o + 1 |}) /\
    ring_rel P s' (b :: orev) /\ same_rest s s'.
Proof.
  intros HP Hrel Ho.
  pose proof (ring_size_pos P HP) as HR.
  pose proof (po_ring_ext P HP) as Hext.
  pose proof (ring_rel_pos_lt P s orev HP Hrel) as Hp.
  destruct Hrel as (Hlen & Hpos & Hget).
  unfold ln_output_byte, ob_push.
  destruct (N.ltb_spec (ob_len o) (p_max_read P)) as [_|]; [|lia]. cbn [bind].
  rewrite wr_ok by lia. cbn [bind].
  eexists. split; [reflexivity|].
  split; [|unfold same_rest; ln_simpl; repeat split; reflexivity].
  unfold ring_rel. ln_simpl. rewrite (ln_ring_mod_eq P _ HP).
  split; [rewrite alen_aset; exact Hlen|]. split.
  - rewrite nlen_cons, Hpos. apply N.add_mod_idemp_l. lia.
  - intros d Hd. destruct (N.eq_dec d 0) as [->|Hd0].
    + rewrite slot_new by assumption. rewrite aget_aset_eq. reflexivity.
    + rewrite slot_old by (try assumption; lia).
      rewrite aget_aset_ne by (apply slot_old_ne; try assumption; lia).
      rewrite Hget by lia.
      replace (N.to_nat d) with (S (N.to_nat (d - 1))) by lia. reflexivity.
Qed.

Lemma ln_copy_loop_spec P dist : params_ok P -> dist < p_RING_BUFFER_SIZE P ->
  forall k s o start i orev,
  ring_rel P s orev ->
  (start + i) mod p_RING_BUFFER_SIZE P
    = (ln_pos s + p_RING_BUFFER_SIZE P - dist - 1) mod p_RING_BUFFER_SIZE P ->
  start + i + N.of_nat k < 2 ^ 32 ->
  ob_len o + N.of_nat k <= p_max_read P ->
  exists s' o', ln_cfh_loop P k s o start i = Ok (s', o') /\
    ring_rel P s' (lz_copy_ref k orev dist) /\ same_rest s s' /\
    ob_len o' = ob_len o + N.of_nat k /\
    exists l, length l = k /\ lz_copy_ref k orev dist = l ++ orev /\ ob_rev o' = l ++ ob_rev o.
Proof.
  intros HP Hdist.
  pose proof (ring_size_pos P HP) as HR.
  pose proof (po_ring_ext P HP) as Hext.
  induction k as [|k IH]; intros s o start i orev Hrel Hst Hlt Ho.
  - exists s, o. split; [reflexivity|]. split; [exact Hrel|].
    split; [unfold same_rest; repeat split; reflexivity|]. split; [lia|].
    exists []. repeat split; reflexivity.
  - rewrite ln_cfh_loop_S.
    pose proof (ring_rel_pos_lt P s orev HP Hrel) as Hp.
    pose proof Hrel as (Hlen & Hpos & Hget).
    assert (Eu : u32 (start + i) = start + i) by (rewrite u32_mod; apply N.mod_small; lia).
    rewrite Eu, (ln_ring_mod_eq P _ HP), Hst.
    rewrite rd_ok by (rewrite Hlen; pose proof (N.mod_lt (ln_pos s + p_RING_BUFFER_SIZE P - dist - 1)
                                                  (p_RING_BUFFER_SIZE P)); lia).
    cbn [bind]. rewrite (Hget dist Hdist).
    destruct (ln_output_byte_spec P s o (nth (N.to_nat dist) orev 32) orev HP Hrel) as (s1 & E1 & Hrel1 & Hsr1);
      [lia|].
    rewrite E1. cbn [bind]. cbv beta iota.
    assert (Hp1 : ln_pos s1 = (ln_pos s + 1) mod p_RING_BUFFER_SIZE P).
    { destruct Hrel1 as (_ & Hpos1 & _). rewrite Hpos1, nlen_cons, Hpos.
      symmetry. apply N.add_mod_idemp_l. lia. }
    destruct (IH s1 {| ob_rev := nth (N.to_nat dist) orev 32 :: ob_rev o; ob_len := ob_len o + 1 |}
                 start (i + 1) (nth (N.to_nat dist) orev 32 :: orev) Hrel1)
      as (s' & o' & E & Hrel' & Hsr' & Hl' & l & Hll & Hlz & Hob).
    + rewrite Hp1, <- slot_step by assumption. rewrite <- Hst.
      replace (start + (i + 1)) with (start + i + 1) by lia.
      symmetry. apply N.add_mod_idemp_l. lia.
    + lia.
    + cbn [ob_len]. lia.
    + exists s', o'. split; [exact E|].
      cbn [lz_copy_ref]. split; [exact Hrel'|].
      split; [unfold same_rest in *; intuition congruence|].
      cbn [ob_len] in Hl'. split; [lia|].
      exists (l ++ [nth (N.to_nat dist) orev 32]).
      split; [rewrite app_length; cbn [length]; lia|].
      cbn [ob_rev] in Hob. rewrite <- !app_assoc. cbn [app]. split; assumption.
Qed.

(* the start index computed by copy_from_history *)
Lemma ln_copy_spec P s o dist count orev : params_ok P -> p_HISTORY_BITS P <= 24 ->
  ring_rel P s orev -> dist < p_RING_BUFFER_SIZE P -> count <= 1024 ->
  ob_len o + count <= p_max_read P ->
  exists s' o',
    ln_cfh_loop P (N.to_nat count) s o
      (u32 (ln_pos s + p_RING_BUFFER_SIZE P + 4294967296 - dist - 1)) 0 = Ok (s', o') /\
    ring_rel P s' (lz_copy_ref (N.to_nat count) orev dist) /\ same_rest s s' /\
    ob_len o' = ob_len o + count /\
    exists l, nlen l = count /\ lz_copy_ref (N.to_nat count) orev dist = l ++ orev /\
              ob_rev o' = l ++ ob_rev o.
Proof.
  intros HP HB Hrel Hdist Hc Ho.
  pose proof (ring_size_pos P HP) as HR.
  pose proof (ring_rel_pos_lt P s orev HP Hrel) as Hp.
  assert (HR24 : p_RING_BUFFER_SIZE P <= 16777216).
  { rewrite (po_ring_pow P HP). change 16777216 with (2 ^ 24). apply N.pow_le_mono_r; lia. }
  assert (E32 : 2 ^ 32 = 4294967296) by reflexivity.
  assert (Est : u32 (ln_pos s + p_RING_BUFFER_SIZE P + 4294967296 - dist - 1)
                = ln_pos s + p_RING_BUFFER_SIZE P - dist - 1).
  { rewrite u32_mod.
    replace (ln_pos s + p_RING_BUFFER_SIZE P + 4294967296 - dist - 1)
      with (ln_pos s + p_RING_BUFFER_SIZE P - dist - 1 + 1 * 2 ^ 32) by lia.
    rewrite N.mod_add by lia. apply N.mod_small. lia. }
  rewrite Est.
  destruct (ln_copy_loop_spec P dist HP Hdist (N.to_nat count) s o
              (ln_pos s + p_RING_BUFFER_SIZE P - dist - 1) 0 orev Hrel)
    as (s' & o' & E & Hrel' & Hsr' & Hl' & l & Hll & Hlz & Hob).
  - rewrite N.add_0_r. reflexivity.
  - lia.
  - lia.
  - exists s', o'. split; [exact E|]. split; [exact Hrel'|]. split; [exact Hsr'|].
    split; [lia|]. exists l. split; [unfold nlen; lia|]. split; assumption.
Qed.

(* ================================================================== *)
(* Variants and the decoder's constants                                *)

Record variant_params (v : variant) (P : lhnew_params) : Prop := {
  vp_ok : params_ok P;
  vp_hist : p_HISTORY_BITS P = v_history_bits v;
  vp_hist_le : v_history_bits v <= 20;
  vp_ob : p_OFFSET_BITS P = v_offset_bits v;
  vp_ob_le : v_offset_bits v <= 6;
  vp_mo : p_MAX_OFFSET_CODES P = max_offset_codes v;
  vp_nc : v_num_codes v = p_NUM_CODES P;
  vp_nc_le : p_NUM_CODES P <= 511;
  vp_tb : p_TEMP_CODE_BITS P = 5;
  vp_tm : p_MAX_TEMP_CODES P = 31;
  vp_thr : p_COPY_THRESHOLD P = 3;
  vp_lhark : p_lhark P = v_lhark v;
  vp_lhark_hist : v_lhark v = true -> v_history_bits v <= 16
}.

Lemma variant_params_lh4 : variant_params v_lh4 lh4_params.
Proof. constructor; try apply lh4_params_ok; try reflexivity; try (vm_compute; discriminate). Qed.
Lemma variant_params_lh5 : variant_params v_lh5 lh5_params.
Proof. constructor; try apply lh5_params_ok; try reflexivity; try (vm_compute; discriminate). Qed.
Lemma variant_params_lh6 : variant_params v_lh6 lh6_params.
Proof. constructor; try apply lh6_params_ok; try reflexivity; try (vm_compute; discriminate). Qed.
Lemma variant_params_lh7 : variant_params v_lh7 lh7_params.
Proof. constructor; try apply lh7_params_ok; try reflexivity; try (vm_compute; discriminate). Qed.
Lemma variant_params_lhx : variant_params v_lhx lhx_params.
Proof. constructor; try apply lhx_params_ok; try reflexivity; try (vm_compute; discriminate). Qed.
Lemma variant_params_lk7 : variant_params v_lk7 lk7_params.
Proof. constructor; try apply lk7_params_ok; try reflexivity; try (vm_compute; discriminate). Qed.

(* ------------------------------------------------------------------ *)
(* start_new_block                                                     *)

Lemma temp_table_syms d sym : wf_temp d = true -> tab_has (temp_table d) sym = true -> sym < 258.
Proof.
  destruct d as [s|n lens skip]; cbn [wf_temp temp_table tab_has]; intros Hwf Hh.
  - lia.
  - rewrite !andb_true_iff in Hwf. destruct Hwf as (((((W1 & W2) & W3) & W4) & W5) & W6).
    unfold MAX_TEMP in W2.
    pose proof (temp_lens_nlen n lens skip ltac:(lia) ltac:(lia)) as HL.
    destruct (N.lt_ge_cases sym (nlen (temp_lens n lens skip))) as [A|A].
    + destruct (n <? 3); lia.
    + rewrite len_of_overflow in Hh by exact A. discriminate.
Qed.

Definition header_bits (v : variant) (b : block) : list bool :=
  bits_of 16 (nlen (b_cmds b)) ++ temp_bits (b_temp b)
  ++ code_bits (tab_prepare (temp_table (b_temp b))) (b_code b) ++ off_bits v (b_off b).

Section Block.
  Variable v : variant.
  Variable P : lhnew_params.
  Hypothesis VP : variant_params v P.
  Let HP : params_ok P := vp_ok v P VP.

  Lemma start_new_block_spec s c b rest :
    lhnew_inv_gen bsr_ok P s -> wf_block v b = true ->
    rs (ln_bsr s) c (header_bits v b ++ rest) ->
    exists s' c', ln_start_new_block src_cb P s c = Ok (true, s', c') /\
      rs (ln_bsr s') c' rest /\ ln_block_remaining s' = nlen (b_cmds b) /\
      tree_dec (ln_code_tree s') (code_table (b_code b)) /\
      tree_dec (ln_offset_tree s') (off_table (b_off b)) /\
      ln_ring s' = ln_ring s /\ ln_pos s' = ln_pos s.
  Proof.
    intros Hinv Hwf Hr.
    pose proof Hinv as (_ & _ & _ & _ & (Lt & Ct) & (Lc & Cc & _) & (Lo & Co & _)).
    unfold wf_block in Hwf. rewrite !andb_true_iff in Hwf.
    destruct Hwf as (((((W1 & W2) & W3) & W4) & W5) & _).
    unfold header_bits in Hr. rewrite <- !app_assoc in Hr.
    unfold ln_start_new_block.
    destruct (rs_read_bits _ c 16 (nlen (b_cmds b)) _ Hr) as (r1 & c1 & E1 & Hr1); [cbn; lia|cbn; lia|].
    change (N.of_nat 16) with 16 in E1. rewrite E1. cbn [bind]. cbv beta iota zeta. ln_simpl.
    rewrite (vp_tm v P VP) in Ct. change (31 * 2) with 62 in Ct.
    destruct (read_temp_table_spec P HP (vp_tb v P VP) (vp_tm v P VP) (ln_temp_tree s) r1 c1 (b_temp b) _ Ct W3 Hr1)
      as (tmpt & r2 & c2 & E2 & Hr2 & Htd).
    rewrite E2. cbn [bind negb]. cbv beta iota.
    destruct (read_code_table_spec P HP (vp_nc_le v P VP) v (vp_nc v P VP) tmpt (ln_code_tree s) r2 c2
                (temp_table (b_temp b)) (b_code b) _ Htd (fun sym => temp_table_syms _ sym W3) Cc W4 Hr2)
      as (ct & r3 & c3 & E3 & Hr3 & Hcd).
    rewrite E3. cbn [bind negb]. cbv beta iota.
    destruct (read_offset_table_spec P HP v (vp_ob v P VP) (vp_ob_le v P VP) (vp_mo v P VP)
                (ln_offset_tree s) r3 c3 (b_off b) rest Co W5 Hr3)
      as (ot & r4 & c4 & E4 & Hr4 & Hod).
    rewrite E4. cbn [bind negb]. cbv beta iota.
    eexists _, c4. split; [reflexivity|]. ln_simpl.
    split; [exact Hr4|]. split; [reflexivity|]. split; [exact Hcd|]. split; [exact Hod|]. split; reflexivity.
  Qed.
End Block.

(* ------------------------------------------------------------------ *)
(* Length and distance classes: the decoder's formulas invert len_code / dist_code *)

Lemma dist_plain_facts dist h : 2 <= dist -> dist < 2 ^ h ->
  let k := N.log2 dist in
  1 <= k /\ k < h /\ dist - N.shiftl 1 k < 2 ^ k /\ dist - N.shiftl 1 k + N.shiftl 1 k = dist.
Proof.
  intros H2 Hh k. rewrite N.shiftl_1_l.
  destruct (N.log2_spec dist ltac:(lia)) as [A B]. fold k in A, B.
  rewrite N.pow_succ_r' in B.
  assert (K1 : 1 <= k).
  { change 1 with (N.log2 2). apply N.log2_le_mono. exact H2. }
  assert (Kh : k < h) by (apply N.log2_lt_pow2; lia).
  repeat split; try assumption; lia.
Qed.

(* LHARK copy lengths, x = len - 3 in 8 .. 511 *)
Definition lk_len_chk (x : N) : bool :=
  if x <? 8 then true else
  let e := N.log2 x - 2 in
  let code := 260 + 4 * e + (N.shiftr x e - 4) in
  (264 <=? code) && (code <? 288) && ((code - 260) / 4 =? e) && (e <=? 6)
  && (x mod N.shiftl 1 e <? 2 ^ e)
  && (N.shiftl (4 + code mod 4) e + x mod N.shiftl 1 e + 3 =? x + 3).

Lemma lk_len_sweep : Sweep.sweep 9 lk_len_chk 0 = true.
Proof. vm_compute. reflexivity. Qed.

Lemma lk_len_decode x : 8 <= x -> x <= 511 ->
  let e := N.log2 x - 2 in
  let code := 260 + 4 * e + (N.shiftr x e - 4) in
  264 <= code /\ code < 288 /\ (code - 260) / 4 = e /\ e <= 6 /\ x mod N.shiftl 1 e < 2 ^ e /\
  N.shiftl (4 + code mod 4) e + x mod N.shiftl 1 e + 3 = x + 3.
Proof.
  intros H8 H511.
  pose proof (Sweep.sweep_below 9 _ lk_len_sweep x) as Q. unfold lk_len_chk in Q.
  destruct (N.ltb_spec x 8) as [|_]; [lia|]. cbv zeta in Q |- *.
  specialize (Q ltac:(change (2 ^ N.of_nat 9) with 512; lia)).
  rewrite !andb_true_iff in Q. destruct Q as (((((Q1 & Q2) & Q3) & Q4) & Q5) & Q6).
  apply N.leb_le in Q1, Q4. apply N.ltb_lt in Q2, Q5. apply N.eqb_eq in Q3, Q6.
  repeat split; assumption.
Qed.

(* LHARK distances, 4 .. 65535 *)
Definition lk_dist_chk (d : N) : bool :=
  if d <? 4 then true else
  let e := N.log2 d - 1 in
  let code := 2 + 2 * e + (N.shiftr d e - 2) in
  (4 <=? code) && (code <? 32) && ((code - 2) / 2 =? e) && (e <=? 14)
  && (d mod N.shiftl 1 e <? 2 ^ e)
  && (u32 (N.shiftl (2 + code mod 2) e + d mod N.shiftl 1 e) =? d).

Lemma lk_dist_sweep : Sweep.sweep 16 lk_dist_chk 0 = true.
Proof. vm_compute. reflexivity. Qed.

Lemma lk_dist_decode d : 4 <= d -> d < 65536 ->
  let e := N.log2 d - 1 in
  let code := 2 + 2 * e + (N.shiftr d e - 2) in
  4 <= code /\ code < 32 /\ (code - 2) / 2 = e /\ e <= 14 /\ d mod N.shiftl 1 e < 2 ^ e /\
  u32 (N.shiftl (2 + code mod 2) e + d mod N.shiftl 1 e) = d.
Proof.
  intros H4 H16.
  pose proof (Sweep.sweep_below 16 _ lk_dist_sweep d) as Q. unfold lk_dist_chk in Q.
  destruct (N.ltb_spec d 4) as [|_]; [lia|]. cbv zeta in Q |- *.
  specialize (Q ltac:(change (2 ^ N.of_nat 16) with 65536; lia)).
  rewrite !andb_true_iff in Q. destruct Q as (((((Q1 & Q2) & Q3) & Q4) & Q5) & Q6).
  apply N.leb_le in Q1, Q4. apply N.ltb_lt in Q2, Q5. apply N.eqb_eq in Q3, Q6.
  repeat split; assumption.
Qed.

(* ================================================================== *)
(* 3b. One command                                                     *)

Section Cmd.
  Variable v : variant.
  Variable P : lhnew_params.
  Hypothesis VP : variant_params v P.
  Let HP : params_ok P := vp_ok v P VP.

  Lemma hist_pow_le : 2 ^ v_history_bits v <= 2 ^ 20.
  Proof. apply N.pow_le_mono_r; [lia|apply (vp_hist_le v P VP)]. Qed.

  Lemma ring_size_eq : p_RING_BUFFER_SIZE P = 2 ^ v_history_bits v.
  Proof. rewrite (po_ring_pow P HP), (vp_hist v P VP). reflexivity. Qed.

  Lemma dist_ok_lt dist : dist_ok v dist = true -> dist < 2 ^ v_history_bits v.
  Proof. unfold dist_ok. rewrite N.shiftl_1_l. intros H. apply N.ltb_lt in H. exact H. Qed.

  (* read_offset_code returns the distance whose class and extra bits follow *)
  Lemma read_offset_code_spec ot otab r c dist rest :
    tree_dec ot otab -> dist_ok v dist = true ->
    tab_has otab (fst (fst (dist_code v dist))) = true ->
    rs r c (tab_code otab (fst (fst (dist_code v dist)))
            ++ bits_of (N.to_nat (snd (fst (dist_code v dist)))) (snd (dist_code v dist)) ++ rest) ->
    exists r' c', ln_read_offset_code src_cb P ot r c = Ok (Some dist, r', c') /\ rs r' c' rest.
  Proof.
    intros Htd Hok Hhas Hr. apply dist_ok_lt in Hok. pose proof hist_pow_le as H20.
    change (2 ^ 20) with 1048576 in H20.
    unfold ln_read_offset_code. rewrite (ln_leaf_eq P HP).
    destruct (Htd _ r c _ Hhas Hr) as (r1 & c1 & E1 & Hr1). rewrite E1. cbn [bind]. cbv beta iota.
    clear E1 Hr Hhas. rewrite (vp_lhark v P VP).
    unfold dist_code in *. destruct (v_lhark v) eqn:Elh.
    - (* LHARK *)
      assert (H16 : dist < 65536).
      { pose proof (vp_lhark_hist v P VP Elh) as Hh.
        assert (2 ^ v_history_bits v <= 2 ^ 16) by (apply N.pow_le_mono_r; lia).
        change (2 ^ 16) with 65536 in *. lia. }
      destruct (N.ltb_spec dist 4) as [Hlt|Hge]; cbn [fst snd] in *.
      + cbn [bits_of N.to_nat app] in Hr1.
        destruct (N.eqb_spec dist 0) as [->|N0]; [eauto|].
        destruct (N.eqb_spec dist 1) as [->|N1]; [eauto|].
        unfold ln_lhark_read_offset_code. destruct (N.ltb_spec dist 4); [eauto|lia].
      + destruct (lk_dist_decode dist Hge H16) as (Q1 & Q2 & Q3 & Q4 & Q5 & Q6).
        set (e := N.log2 dist - 1) in *. set (code := 2 + 2 * e + (N.shiftr dist e - 2)) in *.
        destruct (N.eqb_spec code 0) as [|_]; [lia|]. destruct (N.eqb_spec code 1) as [|_]; [lia|].
        unfold ln_lhark_read_offset_code. destruct (N.ltb_spec code 4) as [|_]; [lia|].
        cbv zeta. rewrite Q3. destruct (N.ltb_spec 31 e) as [|_]; [lia|].
        destruct (rs_read_bits_N r1 c1 e _ rest Hr1) as (r2 & c2 & E2 & Hr2); [lia|exact Q5|].
        rewrite E2. cbn [bind]. cbv beta iota. rewrite Q6.
        destruct (N.ltb_spec dist 2147483648) as [_|]; [eauto|lia].
    - destruct (N.ltb_spec dist 2) as [Hlt|Hge]; cbn [fst snd] in *.
      + cbn [bits_of N.to_nat app] in Hr1.
        destruct (N.eqb_spec dist 0) as [->|N0]; [eauto|].
        destruct (N.eqb_spec dist 1) as [->|N1]; [eauto|lia].
      + destruct (dist_plain_facts dist (v_history_bits v) Hge Hok) as (K1 & Kh & Kx & Ke).
        pose proof (vp_hist_le v P VP) as Hh.
        set (k := N.log2 dist) in *.
        destruct (N.eqb_spec (k + 1) 0) as [|_]; [lia|]. destruct (N.eqb_spec (k + 1) 1) as [|_]; [lia|].
        replace (k + 1 - 1) with k by lia.
        destruct (N.ltb_spec 30 k) as [|_]; [lia|].
        destruct (rs_read_bits_N r1 c1 k _ rest Hr1) as (r2 & c2 & E2 & Hr2); [lia|exact Kx|].
        rewrite E2. cbn [bind]. cbv beta iota. rewrite Ke. eauto.
  Qed.

  (* the copy count of a length symbol *)
  Lemma copy_count_plain len : v_lhark v = false -> len_ok v len false = true ->
    len_code v len false = (256 + (len - 3), 0, 0) /\ 256 + (len - 3) - 256 + p_COPY_THRESHOLD P = len /\
    3 <= len /\ len <= 256.
  Proof.
    intros Elh Hok. unfold len_ok, len_code in *. rewrite Elh in *. cbn [negb andb] in Hok.
    rewrite (vp_thr v P VP). split; [reflexivity|]. lia.
  Qed.

  Lemma lhark_copy_count_spec r c len alt rest : v_lhark v = true -> len_ok v len alt = true ->
    rs r c (bits_of (N.to_nat (snd (fst (len_code v len alt)))) (snd (len_code v len alt)) ++ rest) ->
    256 <= fst (fst (len_code v len alt)) /\ 3 <= len /\ len <= 514 /\
    exists r' c', ln_lhark_decode_copy_count src_cb P r c (fst (fst (len_code v len alt)))
                  = Ok (Some len, r', c') /\ rs r' c' rest.
  Proof.
    intros Elh Hok Hr. unfold len_ok, len_code in *. rewrite Elh in *.
    unfold ln_lhark_decode_copy_count. rewrite (vp_thr v P VP).
    destruct alt; cbn [fst snd] in *.
    - apply N.eqb_eq in Hok. subst len. split; [lia|]. split; [lia|]. split; [lia|].
      cbn [bits_of N.to_nat app] in Hr. change (288 <? 264) with false. change (288 <? 288) with false.
      cbv iota. eauto.
    - assert (Hl : 3 <= len /\ len <= 514) by lia.
      destruct (N.ltb_spec (len - 3) 8) as [Hlt|Hge]; cbn [fst snd] in *.
      + split; [lia|]. split; [lia|]. split; [lia|].
        cbn [bits_of N.to_nat app] in Hr.
        destruct (N.ltb_spec (256 + (len - 3)) 264) as [_|]; [|lia].
        replace (256 + (len - 3) - 256 + 3) with len by lia. eauto.
      + destruct (lk_len_decode (len - 3) Hge ltac:(lia)) as (Q1 & Q2 & Q3 & Q4 & Q5 & Q6).
        set (x := len - 3) in *. set (e := N.log2 x - 2) in *.
        set (code := 260 + 4 * e + (N.shiftr x e - 4)) in *.
        split; [lia|]. split; [lia|]. split; [lia|].
        destruct (N.ltb_spec code 264) as [|_]; [lia|]. destruct (N.ltb_spec code 288) as [_|]; [|lia].
        cbv zeta. rewrite Q3.
        destruct (rs_read_bits_N r c e _ rest Hr) as (r2 & c2 & E2 & Hr2); [lia|exact Q5|].
        rewrite E2. cbn [bind]. cbv beta iota. rewrite Q6. replace (x + 3) with len by (unfold x; lia). eauto.
  Qed.

  Lemma ob_bytes_rev' o : ob_bytes o = rev (ob_rev o).
  Proof. unfold ob_bytes. rewrite rev_append_rev. apply app_nil_r. Qed.

  Lemma max_read_ge : 258 <= p_max_read P.
  Proof. pose proof (po_copy_max P HP). rewrite (vp_thr v P VP) in *. lia. Qed.

  Lemma copy_from_history_spec s c otab dist count orev rest :
    tree_dec (ln_offset_tree s) otab -> dist_ok v dist = true ->
    tab_has otab (fst (fst (dist_code v dist))) = true ->
    ring_rel P s orev -> count <= 514 -> count <= p_max_read P ->
    rs (ln_bsr s) c (tab_code otab (fst (fst (dist_code v dist)))
            ++ bits_of (N.to_nat (snd (fst (dist_code v dist)))) (snd (dist_code v dist)) ++ rest) ->
    exists s' o' c', ln_copy_from_history src_cb P s ob_empty c count = Ok (s', o', c') /\
      rs (ln_bsr s') c' rest /\ ring_rel P s' (lz_copy_ref (N.to_nat count) orev dist) /\
      (exists l, nlen l = count /\ lz_copy_ref (N.to_nat count) orev dist = l ++ orev /\ ob_rev o' = l) /\
      ln_block_remaining s' = ln_block_remaining s /\
      ln_code_tree s' = ln_code_tree s /\ ln_offset_tree s' = ln_offset_tree s.
  Proof.
    intros Htd Hok Hhas Hring Hc514 Hcmax Hr.
    unfold ln_copy_from_history.
    destruct (read_offset_code_spec _ otab _ c dist rest Htd Hok Hhas Hr) as (r1 & c1 & E1 & Hr1).
    rewrite E1. cbn [bind]. cbv beta iota zeta.
    set (s1 := ln_set_bsr s r1).
    assert (Hring1 : ring_rel P s1 orev) by (apply (ring_rel_ext P s s1 orev); [reflexivity|reflexivity|exact Hring]).
    destruct (ln_copy_spec P s1 ob_empty dist count orev HP) as (s2 & o2 & E2 & Hring2 & Hsame & Hlen & l & Hl1 & Hl2 & Hl3);
      try assumption.
    { rewrite (vp_hist v P VP). pose proof (vp_hist_le v P VP). lia. }
    { rewrite ring_size_eq. apply dist_ok_lt. exact Hok. }
    { lia. }
    rewrite E2. cbn [bind]. cbv beta iota.
    destruct Hsame as (S1 & S2 & S3 & S4 & S5).
    exists s2, o2, c1. split; [reflexivity|]. rewrite S1, S2, S4, S5. unfold s1. ln_simpl.
    split; [exact Hr1|]. split; [exact Hring2|]. split; [|auto].
    exists l. cbn [ob_empty ob_rev] in Hl3. rewrite app_nil_r in Hl3. auto.
  Qed.

  Lemma lhnew_read_tail s c s1 c1 cmd alt ctab otab orev rest :
    loop (ln_block_step src_cb P) 32 (s, c) = Ok (true, s1, c1) ->
    tree_dec (ln_code_tree s1) ctab -> tree_dec (ln_offset_tree s1) otab ->
    wf_cmd v ctab otab (cmd, alt) = true -> ring_rel P s1 orev ->
    rs (ln_bsr s1) c1 (cmd_bits v (tab_prepare ctab) (tab_prepare otab) (cmd, alt) ++ rest) ->
    exists ch s' c', lhnew_read src_cb P s c = Ok (ch, s', c') /\
      ch <> [] /\ rs (ln_bsr s') c' rest /\ ring_rel P s' (rev ch ++ orev) /\
      lz_step_ref orev cmd = rev ch ++ orev /\
      ln_block_remaining s' = ln_block_remaining s1 - 1 /\
      ln_code_tree s' = ln_code_tree s1 /\ ln_offset_tree s' = ln_offset_tree s1.
  Proof.
    intros Hloop Hcd Hod Hwf Hring Hr. pose proof max_read_ge as Hmr.
    unfold lhnew_read. rewrite Hloop. cbn [bind negb]. cbv beta iota zeta.
    unfold ln_read_code. rewrite (ln_leaf_eq P HP). ln_simpl.
    destruct cmd as [b|dist len]; cbn [wf_cmd cmd_bits lz_step_ref] in *.
    - (* literal *)
      rewrite !andb_true_iff in Hwf. destruct Hwf as ((W1 & W2) & W3).
      rewrite ptab_code_prepare in Hr.
      destruct (Hcd _ _ c1 _ W3 Hr) as (r3 & c3 & E3 & Hr3). rewrite E3. cbn [bind]. cbv beta iota.
      destruct (N.ltb_spec b 256) as [Hb|]; [|lia].
      match goal with |- context [ln_output_byte P ?s3 _ _] => set (S3 := s3) end.
      assert (Hring3 : ring_rel P S3 orev) by (apply (ring_rel_ext P s1 S3 orev); [reflexivity|reflexivity|exact Hring]).
      destruct (ln_output_byte_spec P S3 ob_empty (u8 b) orev HP Hring3)  as (s4 & E4 & Hring4 & Hsame).
      { change (ob_len ob_empty) with 0. lia. }
      rewrite E4. cbn [bind]. cbv beta iota. rewrite u8_id in * by exact Hb.
      destruct Hsame as (S1 & S2 & S3' & S4 & S5).
      exists [b], s4, c3. split; [reflexivity|]. split; [discriminate|].
      rewrite S1, S2, S4, S5. unfold S3. ln_simpl. cbn [rev app].
      split; [exact Hr3|]. split; [exact Hring4|]. auto.
    - (* copy *)
      rewrite !andb_true_iff in Hwf. destruct Hwf as (((W1 & W2) & W3) & W4).
      destruct (len_code v len alt) as [[ls le] lx] eqn:El.
      destruct (dist_code v dist) as [[ds de] dx] eqn:Ed.
      cbn [fst snd] in *. rewrite !ptab_code_prepare in Hr. rewrite <- !app_assoc in Hr.
      destruct (Hcd _ _ c1 _ W2 Hr) as (r3 & c3 & E3 & Hr3). rewrite E3. cbn [bind]. cbv beta iota.
      rewrite (vp_lhark v P VP).
      assert (Hfin : forall S3 c4 (count : N),
        tree_dec (ln_offset_tree S3) otab -> ring_rel P S3 orev -> count = len -> count <= 514 ->
        count <= p_max_read P -> 1 <= count ->
        ln_block_remaining S3 = ln_block_remaining s1 - 1 -> ln_code_tree S3 = ln_code_tree s1 ->
        ln_offset_tree S3 = ln_offset_tree s1 ->
        rs (ln_bsr S3) c4 (tab_code otab ds ++ bits_of (N.to_nat de) dx ++ rest) ->
        exists ch s' c',
          ('(s5, o, c5) <- ln_copy_from_history src_cb P S3 ob_empty c4 count ;; Ok (ob_bytes o, s5, c5))
            = Ok (ch, s', c') /\
          ch <> [] /\ rs (ln_bsr s') c' rest /\ ring_rel P s' (rev ch ++ orev) /\
          lz_copy_ref (N.to_nat len) orev dist = rev ch ++ orev /\
          ln_block_remaining s' = ln_block_remaining s1 - 1 /\
          ln_code_tree s' = ln_code_tree s1 /\ ln_offset_tree s' = ln_offset_tree s1).
      { intros S3 c4 count Hod3 Hring3 Ecount Hc514 Hcmax Hc1 B1 B2 B3 Hr4. subst count.
        destruct (copy_from_history_spec S3 c4 otab dist len orev rest Hod3 W3) as
          (s5 & o5 & c5 & E5 & Hr5 & Hring5 & (l & Hl1 & Hl2 & Hl3) & C1 & C2 & C3); try assumption.
        { rewrite Ed. exact W4. }
        { rewrite Ed. cbn [fst snd]. exact Hr4. }
        rewrite E5. cbn [bind]. cbv beta iota.
        exists (ob_bytes o5), s5, c5. split; [reflexivity|].
        rewrite ob_bytes_rev', Hl3, rev_involutive.
        split. { intros X. assert (E0 : nlen (rev l) = 0) by (rewrite X; reflexivity). rewrite nlen_rev in E0. lia. }
        split; [exact Hr5|]. split; [rewrite <- Hl2; exact Hring5|]. split; [exact Hl2|].
        rewrite C1, C2, C3. auto. }
      destruct (v_lhark v) eqn:Elh.
      + (* LHARK: the length class may carry extra bits *)
        pose proof (po_copy_lhark P HP) as Hcl. rewrite (vp_lhark v P VP) in Hcl. specialize (Hcl Elh).
        destruct (lhark_copy_count_spec r3 c3 len alt (tab_code otab ds ++ bits_of (N.to_nat de) dx ++ rest) Elh W1)
          as (Q1 & Q2 & Q3 & r4 & c4 & E4 & Hr4).
        { rewrite El. cbn [fst snd]. exact Hr3. }
        rewrite El in Q1, E4. cbn [fst snd] in Q1, E4.
        destruct (N.ltb_spec ls 256) as [|_]; [lia|].
        ln_simpl. rewrite E4. cbn [bind]. cbv beta iota.
        apply Hfin; ln_simpl; try reflexivity; try assumption; try lia.
      + assert (Ealt : alt = false).
        { unfold len_ok in W1. rewrite Elh in W1. destruct alt; [discriminate|reflexivity]. }
        subst alt.
        destruct (copy_count_plain len Elh W1) as (Q1 & Q2 & Q3 & Q4).
        rewrite El in Q1.
        assert (Els : ls = 256 + (len - 3)) by congruence.
        assert (Ele : le = 0) by congruence. assert (Elx : lx = 0) by congruence.
        subst ls le lx.
        destruct (N.ltb_spec (256 + (len - 3)) 256) as [|_]; [lia|].
        cbn [bits_of N.to_nat app] in Hr3.
        apply Hfin; ln_simpl; try reflexivity; try assumption; try lia.
  Qed.
End Cmd.

(* ================================================================== *)
(* 4. One lhnew_read per command; the chunks of a block and of a stream *)

Lemma block_bits_eq v b : block_bits v b =
  header_bits v b ++ flat_map (cmd_bits v (tab_prepare (code_table (b_code b)))
                                          (tab_prepare (off_table (b_off b)))) (b_cmds b).
Proof. unfold block_bits, header_bits. cbv zeta. rewrite <- !app_assoc. reflexivity. Qed.

Section Chunks.
  Variable v : variant.
  Variable P : lhnew_params.
  Hypothesis VP : variant_params v P.
  Let HP : params_ok P := vp_ok v P VP.

  (* what makes lhnew_read return: the struct invariant and an input that ends *)
  Definition Jinv (s : lhnew_state) (c : src) : Prop :=
    lhnew_inv_gen bsr_ok P s /\ bits (ln_bsr s) + 8 * nlen (src_data c) < 2 ^ 30.

  Lemma Jinv_total s c : Jinv s c ->
    exists ch s' c', lhnew_read src_cb P s c = Ok (ch, s', c') /\ nlen ch <= p_max_read P /\ Jinv s' c'.
  Proof.
    intros [Hi Hm]. destruct (lhnew_read_total_src P HP s c Hi Hm) as (ch & s' & c' & E & A & B & C).
    exists ch, s', c'. split; [exact E|]. split; [exact A|]. split; [exact B|lia].
  Qed.

  (* decoder state, source and output so far; the reader is in front of [bl] *)
  Definition sim (s : lhnew_state) (c : src) (orev : list N) (bl : list bool) : Prop :=
    Jinv s c /\ rs (ln_bsr s) c bl /\ ring_rel P s orev.

  Lemma pow_nat_pos k : (0 < 2 ^ k)%nat.
  Proof. apply Nat.neq_0_lt_0. apply Nat.pow_nonzero. discriminate. Qed.

  Lemma block_loop_skip s c : ln_block_remaining s <> 0 ->
    loop (ln_block_step src_cb P) 32 (s, c) = Ok (true, s, c).
  Proof.
    intros H. apply (loop_complete _ 32 0); [|apply pow_nat_pos].
    apply loops_done. unfold ln_block_step. destruct (N.eqb_spec (ln_block_remaining s) 0); [contradiction|reflexivity].
  Qed.

  Lemma block_loop_start s c s' c' : ln_block_remaining s = 0 ->
    ln_start_new_block src_cb P s c = Ok (true, s', c') -> ln_block_remaining s' <> 0 ->
    loop (ln_block_step src_cb P) 32 (s, c) = Ok (true, s', c').
  Proof.
    intros H0 E H1. apply (loop_complete _ 32 1).
    - eapply loops_more.
      + unfold ln_block_step. rewrite H0. change (0 =? 0) with true. cbv iota. rewrite E. cbn [bind]. reflexivity.
      + apply loops_done. unfold ln_block_step.
        destruct (N.eqb_spec (ln_block_remaining s') 0); [contradiction|reflexivity].
    - apply Nat.pow_gt_1; [lia|discriminate].
  Qed.

  (* the result of a read, completed with what the safety proof knows *)
  Lemma read_completed s c ch s' c' orev rest :
    Jinv s c -> lhnew_read src_cb P s c = Ok (ch, s', c') ->
    rs (ln_bsr s') c' rest -> ring_rel P s' orev ->
    nlen ch <= p_max_read P /\ sim s' c' orev rest.
  Proof.
    intros HJ E Hr Hring. destruct (Jinv_total s c HJ) as (ch0 & s0 & c0 & E0 & A & B).
    rewrite E in E0. injection E0 as <- <- <-. split; [exact A|]. split; [exact B|]. split; assumption.
  Qed.

  Lemma read_cmd_in_block s c orev cmd alt ctab otab rest :
    sim s c orev (cmd_bits v (tab_prepare ctab) (tab_prepare otab) (cmd, alt) ++ rest) ->
    ln_block_remaining s <> 0 ->
    tree_dec (ln_code_tree s) ctab -> tree_dec (ln_offset_tree s) otab ->
    wf_cmd v ctab otab (cmd, alt) = true ->
    exists ch s' c', lhnew_read src_cb P s c = Ok (ch, s', c') /\ ch <> [] /\ nlen ch <= p_max_read P /\
      sim s' c' (rev ch ++ orev) rest /\ lz_step_ref orev cmd = rev ch ++ orev /\
      ln_block_remaining s' = ln_block_remaining s - 1 /\
      tree_dec (ln_code_tree s') ctab /\ tree_dec (ln_offset_tree s') otab.
  Proof.
    intros (HJ & Hr & Hring) Hrem Hcd Hod Hwf.
    destruct (lhnew_read_tail v P VP s c s c cmd alt ctab otab orev rest (block_loop_skip s c Hrem) Hcd Hod Hwf Hring Hr)
      as (ch & s' & c' & E & Hne & Hr' & Hring' & Hstep & B1 & B2 & B3).
    destruct (read_completed s c ch s' c' _ rest HJ E Hr' Hring') as [Hlen Hsim].
    exists ch, s', c'. rewrite B2, B3. auto 10.
  Qed.

  Lemma read_cmd_new_block s c orev b cmd alt cmds rest :
    sim s c orev (header_bits v b ++
                  cmd_bits v (tab_prepare (code_table (b_code b))) (tab_prepare (off_table (b_off b))) (cmd, alt) ++ rest) ->
    ln_block_remaining s = 0 -> wf_block v b = true -> b_cmds b = (cmd, alt) :: cmds ->
    exists ch s' c', lhnew_read src_cb P s c = Ok (ch, s', c') /\ ch <> [] /\ nlen ch <= p_max_read P /\
      sim s' c' (rev ch ++ orev) rest /\ lz_step_ref orev cmd = rev ch ++ orev /\
      ln_block_remaining s' = nlen cmds /\
      tree_dec (ln_code_tree s') (code_table (b_code b)) /\ tree_dec (ln_offset_tree s') (off_table (b_off b)).
  Proof.
    intros (HJ & Hr & Hring) Hrem Hwf Hcmds.
    destruct (start_new_block_spec v P VP s c b _ (proj1 HJ) Hwf Hr)
      as (s1 & c1 & E1 & Hr1 & Hrem1 & Hcd & Hod & R1 & R2).
    assert (Hwc : wf_cmd v (code_table (b_code b)) (off_table (b_off b)) (cmd, alt) = true).
    { unfold wf_block in Hwf. rewrite !andb_true_iff in Hwf. destruct Hwf as (_ & Hf).
      rewrite Hcmds in Hf. cbn [forallb] in Hf. apply andb_true_iff in Hf. apply Hf. }
    assert (Hn0 : ln_block_remaining s1 <> 0) by (rewrite Hrem1, Hcmds, nlen_cons; lia).
    destruct (lhnew_read_tail v P VP s c s1 c1 cmd alt _ _ orev rest (block_loop_start s c s1 c1 Hrem E1 Hn0)
                Hcd Hod Hwc (ring_rel_ext P s s1 orev R1 R2 Hring) Hr1)
      as (ch & s' & c' & E & Hne & Hr' & Hring' & Hstep & B1 & B2 & B3).
    destruct (read_completed s c ch s' c' _ rest HJ E Hr' Hring') as [Hlen Hsim].
    exists ch, s', c'. rewrite B2, B3, B1, Hrem1, Hcmds, nlen_cons.
    split; [exact E|]. split; [exact Hne|]. split; [exact Hlen|]. split; [exact Hsim|]. split; [exact Hstep|].
    split; [lia|]. split; assumption.
  Qed.

  (* runs of reads *)
  Inductive runs : lhnew_state -> src -> list (list N) -> lhnew_state -> src -> Prop :=
  | runs_nil s c : runs s c [] s c
  | runs_cons s c ch s1 c1 chs s2 c2 :
      lhnew_read src_cb P s c = Ok (ch, s1, c1) -> ch <> [] -> nlen ch <= p_max_read P ->
      runs s1 c1 chs s2 c2 -> runs s c (ch :: chs) s2 c2.

  Lemma runs_app s c chs1 s1 c1 chs2 s2 c2 :
    runs s c chs1 s1 c1 -> runs s1 c1 chs2 s2 c2 -> runs s c (chs1 ++ chs2) s2 c2.
  Proof. intros H1 H2. induction H1; [exact H2|]. cbn [app]. econstructor; eauto. Qed.

  Lemma runs_chunks s c chs s' c' : runs s c chs s' c' ->
    chunks_from (lhnew_read src_cb P) (p_max_read P) s c chs.
  Proof. intros H. induction H; [constructor|econstructor; eauto]. Qed.

  Lemma rev_concat_cons (ch : list N) chs orev :
    rev (concat (ch :: chs)) ++ orev = rev (concat chs) ++ rev ch ++ orev.
  Proof. cbn [concat]. rewrite rev_app_distr, app_assoc. reflexivity. Qed.

  (* the remaining commands of a block *)
  Lemma cmds_chunks ctab otab rest cmds : forall s c orev,
    sim s c orev (flat_map (cmd_bits v (tab_prepare ctab) (tab_prepare otab)) cmds ++ rest) ->
    ln_block_remaining s = nlen cmds ->
    tree_dec (ln_code_tree s) ctab -> tree_dec (ln_offset_tree s) otab ->
    forallb (wf_cmd v ctab otab) cmds = true ->
    exists chs s' c', runs s c chs s' c' /\ sim s' c' (rev (concat chs) ++ orev) rest /\
      fold_left lz_step_ref (map fst cmds) orev = rev (concat chs) ++ orev /\
      ln_block_remaining s' = 0.
  Proof.
    induction cmds as [|[cmd alt] cmds IH]; intros s c orev Hsim Hrem Hcd Hod Hwf.
    - exists [], s, c. cbn [flat_map app concat rev map fold_left] in *. split; [constructor|]. auto.
    - cbn [flat_map forallb map fold_left fst] in *. rewrite <- app_assoc in Hsim.
      apply andb_true_iff in Hwf. destruct Hwf as [Hw1 Hw2].
      destruct (read_cmd_in_block s c orev cmd alt ctab otab _ Hsim) as
        (ch & s1 & c1 & E & Hne & Hlen & Hsim1 & Hstep & Hrem1 & Hcd1 & Hod1); try assumption.
      { rewrite Hrem, nlen_cons. lia. }
      destruct (IH s1 c1 (rev ch ++ orev) Hsim1) as (chs & s' & c' & Hruns & Hsim' & Hfold & Hrem'); try assumption.
      { rewrite Hrem1, Hrem, nlen_cons. lia. }
      exists (ch :: chs), s', c'. rewrite rev_concat_cons.
      split; [econstructor; eauto|]. split; [exact Hsim'|]. split; [rewrite Hstep; exact Hfold|exact Hrem'].
  Qed.

  Lemma block_chunks b rest s c orev :
    sim s c orev (block_bits v b ++ rest) -> ln_block_remaining s = 0 -> wf_block v b = true ->
    exists chs s' c', runs s c chs s' c' /\ sim s' c' (rev (concat chs) ++ orev) rest /\
      fold_left lz_step_ref (denote_block b) orev = rev (concat chs) ++ orev /\
      ln_block_remaining s' = 0.
  Proof.
    intros Hsim Hrem Hwf. rewrite block_bits_eq in Hsim. unfold denote_block.
    pose proof Hwf as Hwf0. unfold wf_block in Hwf0. rewrite !andb_true_iff in Hwf0.
    destruct Hwf0 as (((((W1 & W2) & _) & _) & _) & W6).
    destruct (b_cmds b) as [|[cmd alt] cmds] eqn:Ecmds; [rewrite nlen_nil in W1; lia|].
    cbn [flat_map forallb map fold_left fst] in *. rewrite <- !app_assoc in Hsim.
    apply andb_true_iff in W6. destruct W6 as [_ W6].
    destruct (read_cmd_new_block s c orev b cmd alt cmds _ Hsim Hrem Hwf Ecmds) as
      (ch & s1 & c1 & E & Hne & Hlen & Hsim1 & Hstep & Hrem1 & Hcd1 & Hod1).
    destruct (cmds_chunks _ _ rest cmds s1 c1 (rev ch ++ orev) Hsim1 Hrem1 Hcd1 Hod1 W6)
      as (chs & s' & c' & Hruns & Hsim' & Hfold & Hrem').
    exists (ch :: chs), s', c'. rewrite rev_concat_cons.
    split; [econstructor; eauto|]. split; [exact Hsim'|]. split; [rewrite Hstep; exact Hfold|exact Hrem'].
  Qed.

  Lemma stream_chunks rest sd : forall s c orev,
    sim s c orev (flat_map (block_bits v) sd ++ rest) -> ln_block_remaining s = 0 -> wf_stream v sd = true ->
    exists chs s' c', runs s c chs s' c' /\ sim s' c' (rev (concat chs) ++ orev) rest /\
      fold_left lz_step_ref (denote sd) orev = rev (concat chs) ++ orev.
  Proof.
    induction sd as [|b sd IH]; intros s c orev Hsim Hrem Hwf.
    - exists [], s, c. split; [constructor|]. cbn [flat_map app concat rev denote fold_left] in *. auto.
    - unfold wf_stream in Hwf. cbn [flat_map forallb denote] in *. apply andb_true_iff in Hwf. destruct Hwf as [Hw1 Hw2].
      rewrite <- app_assoc in Hsim. rewrite fold_left_app.
      destruct (block_chunks b _ s c orev Hsim Hrem Hw1) as (chs1 & s1 & c1 & Hruns1 & Hsim1 & Hfold1 & Hrem1).
      destruct (IH s1 c1 _ Hsim1 Hrem1 Hw2) as (chs2 & s2 & c2 & Hruns2 & Hsim2 & Hfold2).
      exists (chs1 ++ chs2), s2, c2. split; [eapply runs_app; eauto|].
      rewrite concat_app, rev_app_distr, <- app_assoc. split; [exact Hsim2|].
      rewrite Hfold1. exact Hfold2.
  Qed.
End Chunks.

(* ================================================================== *)
(* 5. The round trip through the public read API                        *)

Lemma lhnew_init_state P s0 : params_ok P -> lhnew_init P = Ok s0 ->
  lhnew_inv P s0 /\ ln_bsr s0 = bsr_init /\ ln_block_remaining s0 = 0.
Proof.
  intros HP E. destruct (lhnew_init_ok P HP) as (s & E' & Hinv). rewrite E in E'. injection E' as <-.
  destruct (lhnew_init_fields P s0 E) as [A B]. auto.
Qed.

(* Serialise a well-formed stream description, append any further bytes, declare
   the length of the expansion: every read schedule that asks for at least that
   much returns exactly the LZ77 expansion of the described commands.  The bound
   on the input size is what the fuel of the model's loops covers. *)
Theorem lhnew_roundtrip : forall (v : variant) (P : lhnew_params) block_size sd tail s0 ks os d',
  variant_params v P ->
  wf_stream v sd = true -> Forall (fun b => b < 256) tail -> lhnew_init P = Ok s0 ->
  let out := lz77_expand (denote sd) in
  nlen out <= sum_N ks -> sum_N ks < 2 ^ 62 ->
  8 * nlen (serialise_bytes v sd ++ tail) < 2 ^ 30 ->
  run_reads (lhnew_read src_cb P) (p_max_read P) block_size
    (lha_decoder_new s0 {| src_data := serialise_bytes v sd ++ tail; src_chunks := [] |} (nlen out)) ks
    = Ok (os, d') ->
  concat os = out.
Proof.
  intros v P block_size sd tail s0 ks os d' VP Hwf Htail Hinit out HL Hs Hsize Hr.
  pose proof (vp_ok v P VP) as HP.
  destruct (lhnew_init_state P s0 HP Hinit) as (Hinv & Hb0 & Hrem0).
  set (src0 := {| src_data := serialise_bytes v sd ++ tail; src_chunks := [] |}) in *.
  destruct (pending_bytes_of_bits (serialise_stream v sd) tail) as (k & _ & Hpend).
  fold (serialise_bytes v sd) in Hpend. fold src0 in Hpend. rewrite serialise_stream_flat_map in Hpend.
  assert (Hsrc : src_ok src0) by (apply src_ok_bytes_of_bits; exact Htail).
  assert (HJ : Jinv P s0 src0).
  { split; [apply lhnew_inv_weaken; exact Hinv|]. rewrite Hb0. cbn [bits bsr_init src0 src_data]. lia. }
  assert (Hsim : sim P s0 src0 [] (flat_map (block_bits v) sd ++ repeat false k ++ bytes_bits tail)).
  { split; [exact HJ|]. split; [|apply ring_rel_init; assumption].
    rewrite Hb0. split; [apply bsr_init_wf|]. split; [exact Hsrc|exact Hpend]. }
  destruct (stream_chunks v P VP _ sd s0 src0 [] Hsim Hrem0 Hwf) as (chs & s' & c' & Hruns & _ & Hfold).
  rewrite app_nil_r in Hfold.
  assert (Eout : concat chs = out).
  { unfold out. rewrite lz77_expand_eq_ref. unfold lz77_expand_ref. rewrite Hfold. symmetry. apply rev_involutive. }
  rewrite <- Eout in *.
  rewrite (decode_of_chunks_inv2 (lhnew_read src_cb P) (p_max_read P) block_size (Jinv P) (Jinv_total v P VP)
             chs s0 src0 (nlen (concat chs)) ks os d' HJ (runs_chunks P _ _ _ _ _ Hruns)); try assumption; try lia.
  apply firstn_N_all. lia.
Qed.

(* ... and the reads do return *)
Theorem lhnew_roundtrip_total : forall (v : variant) (P : lhnew_params) block_size sd tail s0 ks,
  variant_params v P ->
  wf_stream v sd = true -> Forall (fun b => b < 256) tail -> lhnew_init P = Ok s0 ->
  let out := lz77_expand (denote sd) in
  nlen out <= sum_N ks -> sum_N ks < 2 ^ 62 ->
  8 * nlen (serialise_bytes v sd ++ tail) < 2 ^ 30 ->
  exists os d',
    run_reads (lhnew_read src_cb P) (p_max_read P) block_size
      (lha_decoder_new s0 {| src_data := serialise_bytes v sd ++ tail; src_chunks := [] |} (nlen out)) ks
      = Ok (os, d') /\
    concat os = out.
Proof.
  intros v P block_size sd tail s0 ks VP Hwf Htail Hinit out HL Hs Hsize.
  pose proof (vp_ok v P VP) as HP.
  destruct (lhnew_init_state P s0 HP Hinit) as (Hinv & Hb0 & Hrem0).
  set (src0 := {| src_data := serialise_bytes v sd ++ tail; src_chunks := [] |}) in *.
  assert (HJ : Jinv P s0 src0).
  { split; [apply lhnew_inv_weaken; exact Hinv|]. rewrite Hb0. cbn [bits bsr_init src0 src_data]. lia. }
  destruct (run_reads_inv_ok2 (lhnew_read src_cb P) (p_max_read P) block_size (Jinv P) (Jinv_total v P VP)
              ks s0 src0 (nlen out) HJ Hs) as (os & d' & E).
  exists os, d'. split; [exact E|].
  exact (lhnew_roundtrip v P block_size sd tail s0 ks os d' VP Hwf Htail Hinit HL Hs Hsize E).
Qed.

(* the six decoders, with their block sizes *)
Corollary lh4_roundtrip : forall sd tail s0 ks os d',
  wf_stream v_lh4 sd = true -> Forall (fun b => b < 256) tail -> lh4_init = Ok s0 ->
  let out := lz77_expand (denote sd) in
  nlen out <= sum_N ks -> sum_N ks < 2 ^ 62 -> 8 * nlen (serialise_bytes v_lh4 sd ++ tail) < 2 ^ 30 ->
  run_reads (lh4_read src_cb) lh4_max_read lh4_block_size
    (lha_decoder_new s0 {| src_data := serialise_bytes v_lh4 sd ++ tail; src_chunks := [] |} (nlen out)) ks
    = Ok (os, d') ->
  concat os = out.
Proof. intros sd tail s0 ks os d'. exact (lhnew_roundtrip v_lh4 lh4_params lh4_block_size sd tail s0 ks os d' variant_params_lh4). Qed.

Corollary lh5_roundtrip : forall sd tail s0 ks os d',
  wf_stream v_lh5 sd = true -> Forall (fun b => b < 256) tail -> lh5_init = Ok s0 ->
  let out := lz77_expand (denote sd) in
  nlen out <= sum_N ks -> sum_N ks < 2 ^ 62 -> 8 * nlen (serialise_bytes v_lh5 sd ++ tail) < 2 ^ 30 ->
  run_reads (lh5_read src_cb) lh5_max_read lh5_block_size
    (lha_decoder_new s0 {| src_data := serialise_bytes v_lh5 sd ++ tail; src_chunks := [] |} (nlen out)) ks
    = Ok (os, d') ->
  concat os = out.
Proof. intros sd tail s0 ks os d'. exact (lhnew_roundtrip v_lh5 lh5_params lh5_block_size sd tail s0 ks os d' variant_params_lh5). Qed.

Corollary lh6_roundtrip : forall sd tail s0 ks os d',
  wf_stream v_lh6 sd = true -> Forall (fun b => b < 256) tail -> lh6_init = Ok s0 ->
  let out := lz77_expand (denote sd) in
  nlen out <= sum_N ks -> sum_N ks < 2 ^ 62 -> 8 * nlen (serialise_bytes v_lh6 sd ++ tail) < 2 ^ 30 ->
  run_reads (lh6_read src_cb) lh6_max_read lh6_block_size
    (lha_decoder_new s0 {| src_data := serialise_bytes v_lh6 sd ++ tail; src_chunks := [] |} (nlen out)) ks
    = Ok (os, d') ->
  concat os = out.
Proof. intros sd tail s0 ks os d'. exact (lhnew_roundtrip v_lh6 lh6_params lh6_block_size sd tail s0 ks os d' variant_params_lh6). Qed.

Corollary lh7_roundtrip : forall sd tail s0 ks os d',
  wf_stream v_lh7 sd = true -> Forall (fun b => b < 256) tail -> lh7_init = Ok s0 ->
  let out := lz77_expand (denote sd) in
  nlen out <= sum_N ks -> sum_N ks < 2 ^ 62 -> 8 * nlen (serialise_bytes v_lh7 sd ++ tail) < 2 ^ 30 ->
  run_reads (lh7_read src_cb) lh7_max_read lh7_block_size
    (lha_decoder_new s0 {| src_data := serialise_bytes v_lh7 sd ++ tail; src_chunks := [] |} (nlen out)) ks
    = Ok (os, d') ->
  concat os = out.
Proof. intros sd tail s0 ks os d'. exact (lhnew_roundtrip v_lh7 lh7_params lh7_block_size sd tail s0 ks os d' variant_params_lh7). Qed.

Corollary lhx_roundtrip : forall sd tail s0 ks os d',
  wf_stream v_lhx sd = true -> Forall (fun b => b < 256) tail -> lhx_init = Ok s0 ->
  let out := lz77_expand (denote sd) in
  nlen out <= sum_N ks -> sum_N ks < 2 ^ 62 -> 8 * nlen (serialise_bytes v_lhx sd ++ tail) < 2 ^ 30 ->
  run_reads (lhx_read src_cb) lhx_max_read lhx_block_size
    (lha_decoder_new s0 {| src_data := serialise_bytes v_lhx sd ++ tail; src_chunks := [] |} (nlen out)) ks
    = Ok (os, d') ->
  concat os = out.
Proof. intros sd tail s0 ks os d'. exact (lhnew_roundtrip v_lhx lhx_params lhx_block_size sd tail s0 ks os d' variant_params_lhx). Qed.

Corollary lk7_roundtrip : forall sd tail s0 ks os d',
  wf_stream v_lk7 sd = true -> Forall (fun b => b < 256) tail -> lk7_init = Ok s0 ->
  let out := lz77_expand (denote sd) in
  nlen out <= sum_N ks -> sum_N ks < 2 ^ 62 -> 8 * nlen (serialise_bytes v_lk7 sd ++ tail) < 2 ^ 30 ->
  run_reads (lk7_read src_cb) lk7_max_read lk7_block_size
    (lha_decoder_new s0 {| src_data := serialise_bytes v_lk7 sd ++ tail; src_chunks := [] |} (nlen out)) ks
    = Ok (os, d') ->
  concat os = out.
Proof. intros sd tail s0 ks os d'. exact (lhnew_roundtrip v_lk7 lk7_params lk7_block_size sd tail s0 ks os d' variant_params_lk7). Qed.

(* ================================================================== *)
(* 6. Non-vacuity: concrete well-formed streams to which the theorem applies *)

(* -lh5-: a block built by auto_block (explicit tables, overlapping copy, copy
   from before the start, largest distance and length), then two hand-written
   blocks: a temp table whose skip field reaches past its count with a
   single-symbol code table and a single-symbol offset table; a single-symbol
   temp table with a block that consists of one copy *)
Definition ex_sd_lh5 : stream :=
  [ auto_block v_lh5 [(Lit 65, false); (Lit 66, false); (Copy 1 10, false); (Copy 16383 256, false);
                      (Copy 0 3, false); (Lit 255, false)];
    {| b_cmds := [(Lit 65, false); (Lit 65, false)]; b_temp := TLens 3 [1; 1; 0] 3;
       b_code := CSingle 65; b_off := OSingle 0 |};
    {| b_cmds := [(Copy 5 3, false)]; b_temp := TSingle 9;
       b_code := CSingle 256; b_off := OSingle 3 |} ].

Example ex_lh5_wf : wf_stream v_lh5 ex_sd_lh5 = true.
Proof. vm_compute. reflexivity. Qed.
Lemma ex_lh5_len : nlen (lz77_expand (denote ex_sd_lh5)) <= sum_N [7; 100; 1000].
Proof. vm_compute. discriminate. Qed.
Lemma ex_lh5_sum : sum_N [7; 100; 1000] < 2 ^ 62.
Proof. vm_compute. reflexivity. Qed.
Lemma ex_lh5_size : 8 * nlen (serialise_bytes v_lh5 ex_sd_lh5 ++ [1; 2; 3]) < 2 ^ 30.
Proof. vm_compute. reflexivity. Qed.
Lemma ex_tail : Forall (fun b => b < 256) [1; 2; 3].
Proof. repeat constructor. Qed.

Example ex_lh5_roundtrip : exists s0 os d', lhnew_init lh5_params = Ok s0 /\
  run_reads (lhnew_read src_cb lh5_params) (p_max_read lh5_params) lh5_block_size
    (lha_decoder_new s0 {| src_data := serialise_bytes v_lh5 ex_sd_lh5 ++ [1; 2; 3]; src_chunks := [] |}
                     (nlen (lz77_expand (denote ex_sd_lh5)))) [7; 100; 1000] = Ok (os, d') /\
  concat os = lz77_expand (denote ex_sd_lh5).
Proof.
  destruct (lhnew_init_ok lh5_params lh5_params_ok) as (s0 & E & _).
  destruct (lhnew_roundtrip_total v_lh5 lh5_params lh5_block_size ex_sd_lh5 [1; 2; 3] s0 [7; 100; 1000]
              variant_params_lh5 ex_lh5_wf ex_tail E ex_lh5_len ex_lh5_sum ex_lh5_size) as (os & d' & A & B).
  exists s0, os, d'. exact (conj E (conj A B)).
Qed.

(* -lk7-: both codes of copy length 514, a length class with extra bits, a
   distance class with extra bits; a second block in the single-symbol forms *)
Definition ex_sd_lk7 : stream :=
  [ auto_block v_lk7 [(Lit 65, false); (Copy 0 514, true); (Copy 3 514, false); (Copy 5000 100, false);
                      (Lit 66, false)];
    auto_block v_lk7 [(Lit 1, false)] ].

Example ex_lk7_wf : wf_stream v_lk7 ex_sd_lk7 = true.
Proof. vm_compute. reflexivity. Qed.
Lemma ex_lk7_len : nlen (lz77_expand (denote ex_sd_lk7)) <= sum_N [2000].
Proof. vm_compute. discriminate. Qed.
Lemma ex_lk7_sum : sum_N [2000] < 2 ^ 62.
Proof. vm_compute. reflexivity. Qed.
Lemma ex_lk7_size : 8 * nlen (serialise_bytes v_lk7 ex_sd_lk7 ++ [1; 2; 3]) < 2 ^ 30.
Proof. vm_compute. reflexivity. Qed.

Example ex_lk7_roundtrip : exists s0 os d', lhnew_init lk7_params = Ok s0 /\
  run_reads (lhnew_read src_cb lk7_params) (p_max_read lk7_params) lk7_block_size
    (lha_decoder_new s0 {| src_data := serialise_bytes v_lk7 ex_sd_lk7 ++ [1; 2; 3]; src_chunks := [] |}
                     (nlen (lz77_expand (denote ex_sd_lk7)))) [2000] = Ok (os, d') /\
  concat os = lz77_expand (denote ex_sd_lk7).
Proof.
  destruct (lhnew_init_ok lk7_params lk7_params_ok) as (s0 & E & _).
  destruct (lhnew_roundtrip_total v_lk7 lk7_params lk7_block_size ex_sd_lk7 [1; 2; 3] s0 [2000]
              variant_params_lk7 ex_lk7_wf ex_tail E ex_lk7_len ex_lk7_sum ex_lk7_size) as (os & d' & A & B).
  exists s0, os, d'. exact (conj E (conj A B)).
Qed.

Print Assumptions decode_of_chunks_inv2.
Print Assumptions complete_max_len_lt.
Print Assumptions tree_dec_build.
Print Assumptions rlv_spec.
Print Assumptions read_temp_table_spec.
Print Assumptions read_code_table_spec.
Print Assumptions read_offset_table_spec.
Print Assumptions start_new_block_spec.
Print Assumptions ring_rel_init.
Print Assumptions ln_output_byte_spec.
Print Assumptions ln_copy_spec.
Print Assumptions lk_len_decode.
Print Assumptions lk_dist_decode.
Print Assumptions read_offset_code_spec.
Print Assumptions lhnew_read_tail.
Print Assumptions read_cmd_in_block.
Print Assumptions read_cmd_new_block.
Print Assumptions stream_chunks.
Print Assumptions lhnew_roundtrip.
Print Assumptions lhnew_roundtrip_total.
Print Assumptions lh4_roundtrip.
Print Assumptions lh5_roundtrip.
Print Assumptions lh6_roundtrip.
Print Assumptions lh7_roundtrip.
Print Assumptions lhx_roundtrip.
Print Assumptions lk7_roundtrip.
Print Assumptions ex_lh5_roundtrip.
Print Assumptions ex_lk7_roundtrip.

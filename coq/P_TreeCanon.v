(* P_TreeCanon.v -- functional correctness of the tree code (Tree.v, model of
   lib/tree_decode.c): the tree that build_tree constructs from a COMPLETE
   canonical code (S_LhNew.v: canonical_code, complete_code) decodes exactly
   that code, and read_from_tree on a byte source follows it.

   Main results (leaf = 2^w):
     code_value_first_rank      canonical_code = bits of (first l + rank s)
     build_tree_canonical       the built tree walks every codeword to its symbol
     read_from_tree_walk / read_from_tree_canonical
     read_from_tree_single      set_tree_single: code mod leaf, no bits consumed
     canonical_prefix_free      no codeword is a prefix of another
     a counterexample for trees with more than leaf + 1 nodes. *)
From Lhasa Require Import Base ListN DecBase BitReader Loop Tree S_Larc S_LhNew
  P_S_LhNew P_BitReader P_Tree.
From Coq Require Import ZifyBool ZifyN ZifyNat.
Local Open Scope N_scope.

(* ================================================================== *)
(* A. Sums over 0 .. n-1                                               *)

Fixpoint fsum (h : N -> N) (n : nat) : N :=
  match n with
  | O => 0
  | S k => fsum h k + h (N.of_nat k)
  end.

Lemma fsum_S h k : fsum h (S k) = fsum h k + h (N.of_nat k).
Proof. reflexivity. Qed.

Lemma fsum_ext h g n : (forall j, j < N.of_nat n -> h j = g j) -> fsum h n = fsum g n.
Proof.
  induction n as [|k IH]; intros H; [reflexivity|].
  rewrite !fsum_S. rewrite IH by (intros j Hj; apply H; lia). rewrite H by lia. reflexivity.
Qed.

Lemma fsum_add h g n : fsum (fun j => h j + g j) n = fsum h n + fsum g n.
Proof. induction n as [|k IH]; [reflexivity|]. rewrite !fsum_S, IH. lia. Qed.

Lemma fsum_mul c h n : fsum (fun j => c * h j) n = c * fsum h n.
Proof. induction n as [|k IH]; [cbn [fsum]; lia|]. rewrite !fsum_S, IH. lia. Qed.

Lemma fsum_zero h n : (forall j, j < N.of_nat n -> h j = 0) -> fsum h n = 0.
Proof.
  induction n as [|k IH]; intros H; [reflexivity|].
  rewrite fsum_S, IH by (intros j Hj; apply H; lia). rewrite H by lia. reflexivity.
Qed.

Lemma fsum_le h g n : (forall j, j < N.of_nat n -> h j <= g j) -> fsum h n <= fsum g n.
Proof.
  induction n as [|k IH]; intros H; [cbn [fsum]; lia|].
  rewrite !fsum_S. assert (fsum h k <= fsum g k) by (apply IH; intros j Hj; apply H; lia).
  assert (h (N.of_nat k) <= g (N.of_nat k)) by (apply H; lia). lia.
Qed.

Lemma fsum_shift h n : fsum h (S n) = h 0 + fsum (fun j => h (j + 1)) n.
Proof.
  induction n as [|k IH]; [cbn [fsum N.of_nat]; lia|].
  rewrite fsum_S, IH, fsum_S.
  replace (N.of_nat (S k)) with (N.of_nat k + 1) by lia. lia.
Qed.

Lemma fsum_mono h n m : (n <= m)%nat -> fsum h n <= fsum h m.
Proof.
  intros H. induction H as [|m H IH]; [lia|]. rewrite fsum_S. lia.
Qed.

Lemma fsum_trunc h s n : (s <= n)%nat ->
  fsum (fun j => if j <? N.of_nat s then h j else 0) n = fsum h s.
Proof.
  intros H. induction H as [|m H IH].
  - apply fsum_ext. intros j Hj. destruct (N.ltb_spec j (N.of_nat s)); [reflexivity|lia].
  - rewrite fsum_S, IH. destruct (N.ltb_spec (N.of_nat m) (N.of_nat s)); lia.
Qed.

(* sums over a list with running index *)
Fixpoint lsum (g : N -> N -> N) (ls : list N) (t : N) : N :=
  match ls with
  | [] => 0
  | x :: r => g x t + lsum g r (t + 1)
  end.

Lemma lsum_fsum g ls : forall t,
  lsum g ls t = fsum (fun j => g (nth (N.to_nat j) ls 0) (t + j)) (length ls).
Proof.
  induction ls as [|x r IH]; intros t; [reflexivity|].
  cbn [lsum length]. rewrite fsum_shift, IH.
  change (N.to_nat 0) with O. cbn [nth]. rewrite N.add_0_r. f_equal.
  apply fsum_ext. intros j _.
  replace (N.to_nat (j + 1)) with (S (N.to_nat j)) by lia. cbn [nth].
  f_equal. lia.
Qed.

Lemma code_value_from_lsum ls : forall t L s,
  code_value_from ls t L s =
  lsum (fun lt t => if code_before lt t L s then N.shiftl 1 (L - lt) else 0) ls t.
Proof.
  induction ls as [|x r IH]; intros t L s; [reflexivity|].
  cbn [code_value_from lsum]. rewrite IH. reflexivity.
Qed.

Lemma kraft_num_lsum ls M : forall t,
  kraft_num ls M = lsum (fun l _ => if 0 <? l then N.shiftl 1 (M - l) else 0) ls t.
Proof.
  induction ls as [|x r IH]; intros t; [reflexivity|].
  cbn [kraft_num lsum]. rewrite (IH (t + 1)). reflexivity.
Qed.

Lemma used_count_lsum ls : forall t,
  used_count ls = lsum (fun l _ => if 0 <? l then 1 else 0) ls t.
Proof.
  induction ls as [|x r IH]; intros t; [reflexivity|].
  cbn [lsum]. rewrite <- (IH (t + 1)). unfold used_count. cbn [filter].
  destruct (0 <? x); [rewrite nlen_cons; lia|lia].
Qed.

Lemma pow2_sub_succ c x : x <= c -> 2 ^ (c + 1 - x) = 2 * 2 ^ (c - x).
Proof. intros H. replace (c + 1 - x) with (c - x + 1) by lia. apply pow2_succ. Qed.

(* ================================================================== *)
(* B. Arithmetic of canonical codes                                    *)

Section CodeArith.
  Variable lens : list N.
  Definition cn : nat := length lens.
  Definition ln (j : N) : N := len_of lens j.

  (* code space (in units of 2^-c) taken by the symbols of length 1..c *)
  Definition upto (c : N) : N :=
    fsum (fun j => if (0 <? ln j) && (ln j <=? c) then 2 ^ (c - ln j) else 0) cn.
  (* "first l": value of the first codeword of length l *)
  Definition first (l : N) : N :=
    fsum (fun j => if (0 <? ln j) && (ln j <? l) then 2 ^ (l - ln j) else 0) cn.
  Definition cnt (l : N) : N := fsum (fun j => if ln j =? l then 1 else 0) cn.
  Definition rank (l s : N) : N := fsum (fun j => if ln j =? l then 1 else 0) (N.to_nat s).
  Definition mle (c : N) : N := fsum (fun j => if (0 <? ln j) && (ln j <=? c) then 1 else 0) cn.
  Definition mgt (c : N) : N := fsum (fun j => if c <? ln j then 1 else 0) cn.
  Definition used : N := fsum (fun j => if 0 <? ln j then 1 else 0) cn.
  Definition mx : N := max_len lens.

  Lemma first_succ c : first (c + 1) = 2 * upto c.
  Proof.
    unfold first, upto. rewrite <- fsum_mul. apply fsum_ext. intros j _.
    destruct (N.ltb_spec 0 (ln j)); destruct (N.ltb_spec (ln j) (c + 1));
      destruct (N.leb_spec (ln j) c); cbn [andb]; try lia.
    apply pow2_sub_succ. lia.
  Qed.

  Lemma upto_first l : 0 < l -> upto l = first l + cnt l.
  Proof.
    intros Hl. unfold upto, first, cnt. rewrite <- fsum_add. apply fsum_ext. intros j _.
    destruct (N.ltb_spec 0 (ln j)); destruct (N.ltb_spec (ln j) l);
      destruct (N.leb_spec (ln j) l); destruct (N.eqb_spec (ln j) l); cbn [andb]; try lia.
    replace (l - ln j) with 0 by lia. reflexivity.
  Qed.

  Lemma upto_succ c : upto (c + 1) = 2 * upto c + cnt (c + 1).
  Proof. rewrite upto_first by lia. rewrite first_succ. reflexivity. Qed.

  Lemma upto_0 : upto 0 = 0.
  Proof.
    unfold upto. apply fsum_zero. intros j _.
    destruct (N.ltb_spec 0 (ln j)); destruct (N.leb_spec (ln j) 0); cbn [andb]; try lia.
  Qed.

  Lemma mle_0 : mle 0 = 0.
  Proof.
    unfold mle. apply fsum_zero. intros j _.
    destruct (N.ltb_spec 0 (ln j)); destruct (N.leb_spec (ln j) 0); cbn [andb]; try lia.
  Qed.

  Lemma mle_succ c : mle (c + 1) = mle c + cnt (c + 1).
  Proof.
    unfold mle, cnt. rewrite <- fsum_add. apply fsum_ext. intros j _.
    destruct (N.ltb_spec 0 (ln j)); destruct (N.leb_spec (ln j) (c + 1));
      destruct (N.leb_spec (ln j) c); destruct (N.eqb_spec (ln j) (c + 1)); cbn [andb]; try lia.
  Qed.

  Lemma mgt_succ c : mgt c = cnt (c + 1) + mgt (c + 1).
  Proof.
    unfold mgt, cnt. rewrite <- fsum_add. apply fsum_ext. intros j _.
    destruct (N.ltb_spec c (ln j)); destruct (N.ltb_spec (c + 1) (ln j));
      destruct (N.eqb_spec (ln j) (c + 1)); try lia.
  Qed.

  Lemma used_split c : used = mle c + mgt c.
  Proof.
    unfold used, mle, mgt. rewrite <- fsum_add. apply fsum_ext. intros j _.
    destruct (N.ltb_spec 0 (ln j)); destruct (N.leb_spec (ln j) c);
      destruct (N.ltb_spec c (ln j)); cbn [andb]; try lia.
  Qed.

  Lemma nth_le_max_len (ls : list N) : forall k, nth k ls 0 <= max_len ls.
  Proof.
    induction ls as [|x r IH]; intros k.
    - destruct k; cbn [nth]; lia.
    - unfold max_len. cbn [fold_right]. fold (max_len r).
      destruct k as [|k]; cbn [nth]; [lia|]. specialize (IH k). lia.
  Qed.

  Lemma ln_le_mx j : ln j <= mx.
  Proof. apply nth_le_max_len. Qed.

  Lemma mgt_mx : mgt mx = 0.
  Proof.
    unfold mgt. apply fsum_zero. intros j _. pose proof (ln_le_mx j).
    destruct (N.ltb_spec mx (ln j)); lia.
  Qed.

  Lemma kraft_upto : kraft_num lens mx = upto mx.
  Proof.
    rewrite (kraft_num_lsum lens mx 0), lsum_fsum. unfold upto. apply fsum_ext. intros j _.
    fold (len_of lens j). fold (ln j). pose proof (ln_le_mx j).
    rewrite N.shiftl_1_l.
    destruct (N.ltb_spec 0 (ln j)); destruct (N.leb_spec (ln j) mx); cbn [andb]; lia.
  Qed.

  Lemma used_count_used : used_count lens = used.
  Proof. rewrite (used_count_lsum lens 0), lsum_fsum. reflexivity. Qed.

  Lemma rank_succ l s : rank l (s + 1) = rank l s + (if ln s =? l then 1 else 0).
  Proof.
    unfold rank. replace (N.to_nat (s + 1)) with (S (N.to_nat s)) by lia.
    rewrite fsum_S. rewrite N2Nat.id. reflexivity.
  Qed.

  Lemma rank_le_cnt l s : s <= N.of_nat cn -> rank l s <= cnt l.
  Proof. intros H. unfold rank, cnt. apply fsum_mono. lia. Qed.

  Lemma rank_lt_cnt l s : s < N.of_nat cn -> ln s = l -> rank l s < cnt l.
  Proof.
    intros H E. assert (R : rank l (s + 1) <= cnt l) by (apply rank_le_cnt; lia).
    rewrite rank_succ in R. destruct (N.eqb_spec (ln s) l); lia.
  Qed.

  Lemma rank_mono l s s' : s <= s' -> rank l s <= rank l s'.
  Proof. intros H. unfold rank. apply fsum_mono. lia. Qed.

  (* The closed form of S_LhNew is the first/rank form. *)
  Theorem code_value_first_rank s : s < N.of_nat cn -> 0 < ln s ->
    code_value lens s = first (ln s) + rank (ln s) s.
  Proof.
    intros Hs Hl. unfold code_value. fold (ln s). set (L := ln s) in *.
    rewrite code_value_from_lsum, lsum_fsum. fold cn.
    unfold first, rank. rewrite <- (fsum_trunc _ (N.to_nat s) cn) by lia.
    rewrite <- fsum_add. apply fsum_ext. intros j _.
    fold (len_of lens j). fold (ln j). rewrite N2Nat.id, N.add_0_l.
    unfold code_before. rewrite N.shiftl_1_l.
    destruct (N.ltb_spec 0 (ln j)); destruct (N.ltb_spec (ln j) L);
      destruct (N.eqb_spec (ln j) L); destruct (N.ltb_spec j s); cbn [andb orb]; try lia.
    replace (L - ln j) with 0 by lia. reflexivity.
  Qed.

  Corollary canonical_code_first_rank s : s < N.of_nat cn -> 0 < ln s ->
    canonical_code lens s = bits_of (N.to_nat (ln s)) (first (ln s) + rank (ln s) s).
  Proof. intros Hs Hl. unfold canonical_code. fold (ln s). rewrite code_value_first_rank; auto. Qed.

  (* ---------------------------------------------------------------- *)
  (* consequences of completeness                                      *)

  Hypothesis Hcomplete : complete_code lens = true.

  Lemma complete_used : 2 <= used.
  Proof.
    unfold complete_code in Hcomplete. apply andb_prop in Hcomplete. destruct Hcomplete as [H _].
    rewrite used_count_used in H. lia.
  Qed.

  Lemma complete_upto : upto mx = 2 ^ mx.
  Proof.
    unfold complete_code in Hcomplete. apply andb_prop in Hcomplete. destruct Hcomplete as [_ H].
    fold mx in H. rewrite kraft_upto, N.shiftl_1_l in H. lia.
  Qed.

  Lemma mx_pos : 1 <= mx.
  Proof.
    destruct (N.eq_dec mx 0) as [E|E]; [|lia]. exfalso.
    pose proof complete_used as U.
    assert (Z : used = 0).
    { unfold used. apply fsum_zero. intros j _. pose proof (ln_le_mx j).
      destruct (N.ltb_spec 0 (ln j)); lia. }
    lia.
  Qed.

  (* Kraft inequality for every prefix of lengths, and: the free nodes of a
     depth do not outnumber the symbols that still have to be placed *)
  Lemma complete_facts_down (d : nat) : forall c, c + N.of_nat d = mx ->
    upto c <= 2 ^ c /\ 2 ^ c <= upto c + mgt c.
  Proof.
    induction d as [|d IH]; intros c Hc.
    - replace c with mx by lia. rewrite complete_upto, mgt_mx. lia.
    - destruct (IH (c + 1)) as [A B]; [lia|].
      rewrite upto_succ, pow2_succ in *. rewrite (mgt_succ c). lia.
  Qed.

  Lemma complete_facts c : c <= mx -> upto c <= 2 ^ c /\ 2 ^ c <= upto c + mgt c.
  Proof. intros H. apply (complete_facts_down (N.to_nat (mx - c))). lia. Qed.
End CodeArith.

(* ================================================================== *)
(* C. Pure tree walks                                                  *)

Section Walk.
  Variable leaf : N.

  (* The walk of read_from_tree: [v] is the current node value.  Stops at the
     first leaf; None if the bits run out before a leaf. *)
  Fixpoint walk_from (t : arr) (bits : list bool) (v : N) : option N :=
    if is_leaf leaf v then Some (N.land v (leaf - 1))
    else match bits with
         | [] => None
         | b :: r => walk_from t r (aget t (v + N.b2n b))
         end.
  Definition walk (t : arr) (bits : list bool) : option N := walk_from t bits (aget t 0).

  (* the same, but a leaf must be reached exactly when the bits are used up *)
  Fixpoint walk_exact_from (t : arr) (bits : list bool) (v : N) : option N :=
    match bits with
    | [] => if is_leaf leaf v then Some (N.land v (leaf - 1)) else None
    | b :: r => if is_leaf leaf v then None else walk_exact_from t r (aget t (v + N.b2n b))
    end.
  Definition walk_exact (t : arr) (bits : list bool) : option N :=
    walk_exact_from t bits (aget t 0).

  Lemma walk_exact_from_app t bits : forall v rest sym,
    walk_exact_from t bits v = Some sym -> walk_from t (bits ++ rest) v = Some sym.
  Proof.
    induction bits as [|b r IH]; intros v rest sym H.
    - cbn [walk_exact_from] in H. cbn [app]. destruct rest as [|x rest]; cbn [walk_from];
        destruct (is_leaf leaf v); congruence.
    - cbn [walk_exact_from] in H. cbn [app walk_from].
      destruct (is_leaf leaf v); [discriminate|]. apply IH. exact H.
  Qed.

  Lemma walk_exact_walk t bits rest sym :
    walk_exact t bits = Some sym -> walk t (bits ++ rest) = Some sym.
  Proof. apply walk_exact_from_app. Qed.

  Lemma walk_exact_walk' t bits sym : walk_exact t bits = Some sym -> walk t bits = Some sym.
  Proof. intros H. rewrite <- (app_nil_r bits). now apply walk_exact_walk. Qed.

  (* an exact walk cannot be extended or cut short *)
  Lemma walk_exact_from_prefix t bits : forall v x s1 s2,
    walk_exact_from t bits v = Some s1 -> walk_exact_from t (bits ++ x) v = Some s2 ->
    x = [] /\ s1 = s2.
  Proof.
    induction bits as [|b r IH]; intros v x s1 s2 H1 H2.
    - cbn [app] in H2. cbn [walk_exact_from] in H1.
      destruct x as [|y x]; cbn [walk_exact_from] in H2;
        destruct (is_leaf leaf v); try discriminate. split; congruence.
    - cbn [app walk_exact_from] in *. destruct (is_leaf leaf v); [discriminate|]. eauto.
  Qed.

  (* The slot reached from slot [p] along [bits], reading only slots below [n]. *)
  Fixpoint slot_lt (t : arr) (n : N) (bits : list bool) (p : N) : option N :=
    match bits with
    | [] => Some p
    | b :: r =>
      if p <? n then
        if is_leaf leaf (aget t p) then None else slot_lt t n r (aget t p + N.b2n b)
      else None
    end.

  Lemma slot_lt_app t n a : forall b p,
    slot_lt t n (a ++ b) p =
    match slot_lt t n a p with Some p' => slot_lt t n b p' | None => None end.
  Proof.
    induction a as [|x a IH]; intros b p; [reflexivity|].
    cbn [app slot_lt]. destruct (p <? n); [|reflexivity].
    destruct (is_leaf leaf (aget t p)); [reflexivity|]. apply IH.
  Qed.

  Lemma slot_lt_agree t t' n bits : (forall i, i < n -> aget t' i = aget t i) ->
    forall p, slot_lt t' n bits p = slot_lt t n bits p.
  Proof.
    intros H. induction bits as [|b r IH]; intros p; [reflexivity|].
    cbn [slot_lt]. destruct (N.ltb_spec p n) as [Hp|Hp]; [|reflexivity].
    rewrite H by exact Hp. destruct (is_leaf leaf (aget t p)); [reflexivity|]. apply IH.
  Qed.

  Lemma slot_lt_mono t n n' bits : n <= n' -> forall p x,
    slot_lt t n bits p = Some x -> slot_lt t n' bits p = Some x.
  Proof.
    intros Hn. induction bits as [|b r IH]; intros p x H; [exact H|].
    cbn [slot_lt] in *. destruct (N.ltb_spec p n) as [Hp|Hp]; [|discriminate].
    destruct (N.ltb_spec p n'); [|lia].
    destruct (is_leaf leaf (aget t p)); [discriminate|]. apply IH. exact H.
  Qed.

  Lemma slot_lt_transfer t t' n n' bits p x :
    (forall i, i < n -> aget t' i = aget t i) -> n <= n' ->
    slot_lt t n bits p = Some x -> slot_lt t' n' bits p = Some x.
  Proof.
    intros Ha Hn H. apply (slot_lt_mono t' n n' bits Hn).
    rewrite (slot_lt_agree t t' n bits Ha). exact H.
  Qed.

  Lemma slot_lt_walk t n bits : forall p0 p,
    slot_lt t n bits p0 = Some p -> is_leaf leaf (aget t p) = true ->
    walk_exact_from t bits (aget t p0) = Some (N.land (aget t p) (leaf - 1)).
  Proof.
    induction bits as [|b r IH]; intros p0 p H Hl.
    - cbn [slot_lt] in H. injection H as ->. cbn [walk_exact_from]. rewrite Hl. reflexivity.
    - cbn [slot_lt] in H. cbn [walk_exact_from].
      destruct (p0 <? n); [|discriminate].
      destruct (is_leaf leaf (aget t p0)); [discriminate|]. apply IH; assumption.
  Qed.
End Walk.

Lemma bits_of_snoc n : forall x b,
  bits_of (S n) (2 * x + N.b2n b) = bits_of n x ++ [b].
Proof.
  induction n as [|n IH]; intros x b.
  - cbn [bits_of app N.of_nat]. rewrite N.testbit_0_r. reflexivity.
  - rewrite bits_of_S, IH. rewrite (bits_of_S n x). cbn [app]. f_equal.
    replace (N.of_nat (S n)) with (N.succ (N.of_nat n)) by lia.
    apply N.testbit_succ_r.
Qed.

(* ================================================================== *)
(* D. Element-type facts                                               *)

Section Elem.
  Variables leaf w : N.
  Hypothesis Hleaf : leaf = 2 ^ w.

  Lemma is_leaf_small v : v < leaf -> is_leaf leaf v = false.
  Proof.
    intros H. unfold is_leaf.
    assert (E : N.land v leaf = 0).
    { apply N.bits_inj. intros i. rewrite N.land_spec, N.bits_0, Hleaf, N.pow2_bits_eqb.
      destruct (N.eqb_spec w i) as [<-|]; [|apply andb_false_r].
      rewrite <- (N.mod_small v (2 ^ w)) by (rewrite <- Hleaf; exact H).
      rewrite N.mod_pow2_bits_high by lia. reflexivity. }
    rewrite E. reflexivity.
  Qed.

  Definition leafval (s : N) : N := N.lor (elem leaf s) leaf.

  Lemma leafval_is_leaf s : is_leaf leaf (leafval s) = true.
  Proof. apply (is_leaf_lor leaf w Hleaf). Qed.

  Lemma land_lor_leaf_low x : N.land (N.lor x leaf) (leaf - 1) = x mod leaf.
  Proof.
    assert (E : leaf - 1 = N.ones w) by (rewrite N.ones_equiv, <- Hleaf; lia).
    rewrite E, N.land_lor_distr_l, !N.land_ones, <- Hleaf.
    rewrite N.mod_same by (pose proof (leaf_pos leaf w Hleaf); lia).
    apply N.lor_0_r.
  Qed.

  Lemma leafval_sym s : s < leaf -> N.land (leafval s) (leaf - 1) = s.
  Proof.
    intros H. unfold leafval. rewrite land_lor_leaf_low.
    rewrite (elem_small leaf w Hleaf) by lia. apply N.mod_small. exact H.
  Qed.

  Lemma elem_mod_leaf code : elem leaf code mod leaf = code mod leaf.
  Proof.
    rewrite (elem_mod leaf w Hleaf). pose proof (leaf_pos leaf w Hleaf) as P.
    rewrite (N.mul_comm 2 leaf). rewrite N.mod_mul_r by lia.
    rewrite (N.mul_comm leaf ((code / leaf) mod 2)), N.mod_add by lia. apply N.mod_mod. lia.
  Qed.
End Elem.

(* the usual recurrence for the first codeword of each length *)
Lemma first_1 lens : first lens 1 = 0.
Proof. change 1 with (0 + 1). rewrite first_succ, upto_0. reflexivity. Qed.

Lemma first_rec lens l : 0 < l -> first lens (l + 1) = 2 * (first lens l + cnt lens l).
Proof. intros H. rewrite first_succ, upto_first by exact H. reflexivity. Qed.

(* Kraft inequality per length, from completeness *)
Lemma complete_first_cnt lens l : complete_code lens = true -> 0 < l -> l <= mx lens ->
  first lens l + cnt lens l <= 2 ^ l /\ first lens (mx lens) + cnt lens (mx lens) = 2 ^ mx lens.
Proof.
  intros Hc H0 H1. rewrite <- !upto_first by (try exact H0; pose proof (mx_pos lens Hc); lia).
  split; [apply (complete_facts lens Hc l H1)|apply complete_upto; exact Hc].
Qed.

Lemma max_len_attained (ls : list N) : 0 < max_len ls ->
  exists k, (k < length ls)%nat /\ nth k ls 0 = max_len ls.
Proof.
  induction ls as [|x r IH]; intros H.
  - unfold max_len in H. cbn [fold_right] in H. lia.
  - unfold max_len in *. cbn [fold_right] in *. fold (max_len r) in *.
    destruct (N.le_gt_cases (max_len r) x) as [Hx|Hx].
    + exists O. split; [cbn [length]; lia|]. cbn [nth]. lia.
    + destruct IH as (k & Hk & E); [lia|]. exists (S k). split; [cbn [length]; lia|].
      cbn [nth]. lia.
Qed.

Lemma rank_num lens num l : N.of_nat (cn lens) = num -> rank lens l num = cnt lens l.
Proof. intros H. unfold rank, cnt. f_equal. lia. Qed.

Lemma rank_0 lens l : rank lens l 0 = 0.
Proof. reflexivity. Qed.

(* ================================================================== *)
(* E. What the loops of build_tree compute                             *)

Section Exec.
  Variables leaf w : N.
  Hypothesis Hleaf : leaf = 2 ^ w.

  Lemma expand_loop_run n : forall b e,
    b_next b + N.of_nat n = e -> e <= alen (b_tree b) ->
    b_allocated b + 2 * N.of_nat n <= 2 * leaf ->
    exists t', expand_loop leaf n b e =
        Ok {| b_tree := t'; b_len := b_len b;
              b_allocated := b_allocated b + 2 * N.of_nat n; b_next := e |} /\
      alen t' = alen (b_tree b) /\
      forall j, aget t' j =
        if (b_next b <=? j) && (j <? e) then b_allocated b + 2 * (j - b_next b)
        else aget (b_tree b) j.
  Proof.
    induction n as [|n IH]; intros b e He Hal Hsm.
    - exists (b_tree b). split; [|split; [reflexivity|]].
      + destruct b as [t l a x]. cbn [expand_loop b_tree b_len b_allocated b_next] in *.
        f_equal. f_equal; lia.
      + intros j. destruct (N.leb_spec (b_next b) j); destruct (N.ltb_spec j e);
          cbn [andb]; try reflexivity; lia.
    - rewrite expand_loop_S. destruct (N.ltb_spec (b_next b) e) as [Hlt|Hge]; [|lia].
      rewrite wr_ok by lia. cbn [bind].
      rewrite (elem_small leaf w Hleaf) by lia.
      destruct (IH {| b_tree := aset (b_tree b) (b_next b) (b_allocated b); b_len := b_len b;
                      b_allocated := b_allocated b + 2; b_next := b_next b + 1 |} e)
        as (t' & E & L & G); cbn [b_tree b_len b_allocated b_next]; try lia.
      { rewrite alen_aset. lia. }
      exists t'. split; [|split].
      + rewrite E. cbn [b_tree b_len b_allocated b_next]. f_equal. f_equal. lia.
      + rewrite L. cbn [b_tree]. apply alen_aset.
      + intros j. rewrite G. cbn [b_tree b_len b_allocated b_next]. rewrite aget_aset.
        destruct (N.leb_spec (b_next b + 1) j); destruct (N.leb_spec (b_next b) j);
          destruct (N.ltb_spec j e); destruct (N.eqb_spec (b_next b) j);
          cbn [andb]; try reflexivity; try lia.
  Qed.

  Lemma expand_queue_run b :
    b_next b <= b_allocated b ->
    b_allocated b + 2 * (b_allocated b - b_next b) <= b_len b ->
    b_len b <= alen (b_tree b) ->
    b_allocated b + 2 * (b_allocated b - b_next b) <= 2 * leaf ->
    exists t', expand_queue leaf b =
        Ok {| b_tree := t'; b_len := b_len b;
              b_allocated := b_allocated b + 2 * (b_allocated b - b_next b);
              b_next := b_allocated b |} /\
      alen t' = alen (b_tree b) /\
      forall j, aget t' j =
        if (b_next b <=? j) && (j <? b_allocated b) then b_allocated b + 2 * (j - b_next b)
        else aget (b_tree b) j.
  Proof.
    intros H1 H2 H3 H4. unfold expand_queue.
    destruct (N.ltb_spec (b_len b) (b_allocated b + (b_allocated b - b_next b) * 2)); [lia|].
    destruct (expand_loop_run (N.to_nat (b_allocated b - b_next b)) b (b_allocated b))
      as (t' & E & L & G); try lia.
    exists t'. split; [|split; [exact L|exact G]].
    rewrite E. f_equal. f_equal. lia.
  Qed.

  Variable lens : list N.
  Variable cl : arr.
  Variable num : N.
  Hypothesis Hn : N.of_nat (cn lens) = num.
  Hypothesis Hcl_len : num <= alen cl.
  Hypothesis Hcl : forall i, i < num -> aget cl i = ln lens i.

  Lemma add_codes_loop_run l n : forall b i rem base,
    i + N.of_nat n = num ->
    b_next b = base + rank lens l i ->
    base + cnt lens l <= b_allocated b -> b_allocated b <= alen (b_tree b) ->
    exists t' rem', add_codes_loop leaf n b cl i l rem =
        Ok ({| b_tree := t'; b_len := b_len b; b_allocated := b_allocated b;
               b_next := base + cnt lens l |}, rem') /\
      alen t' = alen (b_tree b) /\
      (forall j, j < b_next b \/ base + cnt lens l <= j -> aget t' j = aget (b_tree b) j) /\
      (forall s, i <= s -> s < num -> ln lens s = l ->
         aget t' (base + rank lens l s) = leafval leaf s) /\
      (rem' = true <-> rem = true \/ exists s, i <= s /\ s < num /\ l < ln lens s).
  Proof.
    induction n as [|n IH]; intros b i rem base Hi Hx Hq Hal.
    - exists (b_tree b), rem. split; [|split; [reflexivity|split; [reflexivity|split]]].
      + replace i with num in Hx by lia. rewrite (rank_num lens num l Hn) in Hx.
        destruct b as [t bl a x]. cbn [add_codes_loop b_tree b_len b_allocated b_next] in *.
        subst x. reflexivity.
      + intros s H1 H2. lia.
      + split; [auto|]. intros [H|(s & H1 & H2 & _)]; [exact H|lia].
    - rewrite add_codes_loop_S. rewrite rd_ok by lia. cbn [bind]. rewrite Hcl by lia.
      pose proof (rank_succ lens l i) as RS.
      destruct (N.eqb_spec (ln lens i) l) as [El|El].
      + assert (RL : rank lens l i < cnt lens l) by (apply rank_lt_cnt; [lia|exact El]).
        unfold read_next_entry.
        destruct (N.leb_spec (b_allocated b) (b_next b)) as [Hbad|_]; [lia|].
        cbv beta iota zeta. cbn [b_tree b_len b_allocated b_next].
        rewrite wr_ok by lia. cbn [bind].
        destruct (IH {| b_tree := aset (b_tree b) (b_next b) (N.lor (elem leaf i) leaf);
                        b_len := b_len b; b_allocated := b_allocated b;
                        b_next := b_next b + 1 |} (i + 1) rem base)
          as (t' & rem' & E & L & G1 & G2 & G3); cbn [b_tree b_len b_allocated b_next]; try lia.
        { rewrite alen_aset. exact Hal. }
        cbn [b_tree b_len b_allocated b_next] in *.
        exists t', rem'. split; [exact E|]. split; [rewrite L; apply alen_aset|].
        split; [|split].
        * intros j Hj. rewrite G1 by lia. apply aget_aset_ne. lia.
        * intros s H1 H2 H3. destruct (N.eq_dec s i) as [->|Hne].
          -- rewrite <- Hx. rewrite G1 by lia. apply aget_aset_eq.
          -- apply G2; lia.
        * rewrite G3. split.
          -- intros [H|(s & H1 & H2 & H3)]; [left; exact H|right; exists s; repeat split; lia].
          -- intros [H|(s & H1 & H2 & H3)]; [left; exact H|].
             right. exists s. repeat split; try lia.
             destruct (N.eq_dec s i) as [->|Hne]; lia.
      + destruct (IH b (i + 1) (if l <? ln lens i then true else rem) base)
          as (t' & rem' & E & L & G1 & G2 & G3); try lia.
        exists t', rem'. split; [exact E|]. split; [exact L|]. split; [exact G1|]. split.
        * intros s H1 H2 H3. destruct (N.eq_dec s i) as [->|Hne]; [lia|]. apply G2; lia.
        * rewrite G3. destruct (N.ltb_spec l (ln lens i)) as [Hlt|Hge].
          -- split; [|auto]. intros _. right. exists i. repeat split; lia.
          -- split.
             ++ intros [H|(s & H1 & H2 & H3)]; [left; exact H|right; exists s; repeat split; lia].
             ++ intros [H|(s & H1 & H2 & H3)]; [left; exact H|].
                right. exists s. repeat split; try lia.
                destruct (N.eq_dec s i) as [->|Hne]; lia.
  Qed.
End Exec.

(* ================================================================== *)
(* F. The invariant of build_loop and the main theorem                 *)

(* The code-length array the decoder holds represents the spec's list. *)
Definition cl_repr (cl : arr) (num : N) (lens : list N) : Prop :=
  nlen lens = num /\ num <= alen cl /\
  forall i, i < num -> aget cl i = len_of lens i /\ aget cl i < 256.

Section Canon.
  Variables leaf w : N.
  Hypothesis Hleaf : leaf = 2 ^ w.
  Variable lens : list N.
  Variable cl : arr.
  Variables num tree_len : N.
  Hypothesis Hn : N.of_nat (cn lens) = num.
  Hypothesis Hcl_len : num <= alen cl.
  Hypothesis Hcl : forall i, i < num -> aget cl i = ln lens i.
  Hypothesis Hcomplete : complete_code lens = true.
  Hypothesis Hnum : num <= leaf.
  Hypothesis Hroom : 2 * used lens <= tree_len + 1.
  Hypothesis Hsmall : 2 * used lens <= leaf + 2.

  (* State at the top of the do-while body, [c] lengths done: the queue
     next..allocated holds the free nodes of depth c in path order, every
     symbol of length 1..c has its leaf at the end of its codeword. *)
  Definition Top (c : N) (b : bld) : Prop :=
    b_len b = tree_len /\ tree_len <= alen (b_tree b) /\
    b_next b + 2 ^ c = b_allocated b + upto lens c /\
    1 + 2 * b_next b = b_allocated b + 2 * mle lens c /\
    (forall k, b_next b + k < b_allocated b ->
       slot_lt leaf (b_tree b) (b_next b) (bits_of (N.to_nat c) (upto lens c + k)) 0
       = Some (b_next b + k)) /\
    (forall s, s < num -> 0 < ln lens s -> ln lens s <= c ->
       exists p, p < b_next b /\
         slot_lt leaf (b_tree b) (b_next b) (canonical_code lens s) 0 = Some p /\
         aget (b_tree b) p = leafval leaf s).

  Lemma Top_init t : tree_len <= alen t ->
    Top 0 {| b_tree := t; b_len := tree_len; b_allocated := 1; b_next := 0 |}.
  Proof.
    intros Hal. unfold Top. cbn [b_tree b_len b_allocated b_next].
    rewrite upto_0, mle_0. change (2 ^ 0) with 1.
    split; [reflexivity|]. split; [exact Hal|]. split; [lia|]. split; [lia|]. split.
    - intros k Hk. replace k with 0 by lia. reflexivity.
    - intros s _ H1 H2. lia.
  Qed.

  Lemma exists_longer c : c < mx lens -> exists s, s < num /\ c < ln lens s.
  Proof.
    intros H. destruct (max_len_attained lens) as (k & Hk & E); [unfold mx in H; lia|].
    exists (N.of_nat k). unfold cn in Hn. split; [lia|].
    unfold ln, len_of. rewrite Nat2N.id, E. exact H.
  Qed.

  Lemma round c b : Top c b -> c < mx lens ->
    exists b1 b2 more,
      expand_queue leaf b = Ok b1 /\
      add_codes_with_length leaf b1 cl num (c + 1) = Ok (b2, more) /\
      Top (c + 1) b2 /\ (more = true <-> c + 1 < mx lens).
  Proof.
    intros (TL & TA & TQ & TM & TP & TS) Hc.
    destruct (complete_facts lens Hcomplete c) as [F0a F0b]; [lia|].
    destruct (complete_facts lens Hcomplete (c + 1)) as [F1a F1b]; [lia|].
    pose proof (upto_succ lens c) as US. pose proof (pow2_succ c) as PS.
    pose proof (mgt_succ lens c) as MS. pose proof (used_split lens c) as USP.
    pose proof (mle_succ lens c) as MLS. pose proof (leaf_pos leaf w Hleaf) as LP.
    set (A := b_allocated b) in *. set (X := b_next b) in *. set (t := b_tree b) in *.
    set (P := 2 ^ c) in *. set (U := upto lens c) in *. set (C' := cnt lens (c + 1)) in *.
    rewrite US, PS in F1a, F1b.
    assert (RoomA : A + 2 * (A - X) + 1 <= 2 * used lens) by lia.
    (* expand_queue *)
    destruct (expand_queue_run leaf w Hleaf b) as (t1 & E1 & L1 & G1);
      try (fold A X t; lia).
    fold A X t in E1, L1, G1.
    set (b1 := {| b_tree := t1; b_len := b_len b; b_allocated := A + 2 * (A - X); b_next := A |}) in *.
    (* the new queue: paths of depth c+1 *)
    assert (Q1 : forall j, j < 2 * (A - X) ->
      slot_lt leaf t1 A (bits_of (S (N.to_nat c)) (first lens (c + 1) + j)) 0 = Some (A + j)).
    { intros j Hj. rewrite first_succ. fold U.
      rewrite (N.div2_odd j) at 1.
      replace (2 * U + (2 * N.div2 j + N.b2n (N.odd j))) with (2 * (U + N.div2 j) + N.b2n (N.odd j)) by lia.
      rewrite bits_of_snoc, slot_lt_app.
      assert (Hk : N.div2 j < A - X) by (pose proof (N.div2_odd j); destruct (N.odd j); cbn [N.b2n] in *; lia).
      rewrite (slot_lt_transfer leaf t t1 X A _ 0 (X + N.div2 j)).
      - cbn [slot_lt]. destruct (N.ltb_spec (X + N.div2 j) A); [|lia].
        rewrite G1. destruct (N.leb_spec X (X + N.div2 j)); [|lia].
        destruct (N.ltb_spec (X + N.div2 j) A); [|lia]. cbn [andb].
        rewrite (is_leaf_small leaf w Hleaf) by lia.
        f_equal. pose proof (N.div2_odd j). destruct (N.odd j); cbn [N.b2n] in *; lia.
      - intros i Hi. rewrite G1. destruct (N.leb_spec X i); [lia|reflexivity].
      - lia.
      - apply TP. lia. }
    (* add_codes_with_length *)
    unfold add_codes_with_length.
    destruct (add_codes_loop_run leaf w Hleaf lens cl num Hn Hcl_len Hcl (c + 1) (N.to_nat num) b1 0 false A)
      as (t2 & more & E2 & L2 & G2a & G2b & G2c); subst b1; cbn [b_tree b_len b_allocated b_next] in *;
      fold C'; try lia.
    { rewrite rank_0. lia. }
    eexists. eexists. exists more. split; [exact E1|]. split; [exact E2|]. split.
    - unfold Top. cbn [b_tree b_len b_allocated b_next].
      fold C' in G2a, G2b.
      rewrite US, PS, MLS. fold P U C'.
      assert (Ag2 : forall i, i < A -> aget t2 i = aget t1 i) by (intros i Hi; apply G2a; lia).
      assert (Ag1 : forall i, i < X -> aget t1 i = aget t i).
      { intros i Hi. rewrite G1. destruct (N.leb_spec X i); [lia|reflexivity]. }
      split; [exact TL|]. split; [lia|]. split; [lia|]. split; [lia|]. split.
      + intros k Hk.
        replace (N.to_nat (c + 1)) with (S (N.to_nat c)) by lia.
        replace (2 * U + C' + k) with (first lens (c + 1) + (C' + k)) by (rewrite first_succ; fold U; lia).
        rewrite (slot_lt_transfer leaf t1 t2 A (A + C') _ 0 (A + (C' + k))); [f_equal; lia|exact Ag2|lia|].
        apply Q1. lia.
      + intros s Hs Hp Hle. destruct (N.eq_dec (ln lens s) (c + 1)) as [El|El].
        * exists (A + rank lens (c + 1) s).
          assert (RL : rank lens (c + 1) s < C') by (apply rank_lt_cnt; [lia|exact El]).
          split; [lia|]. split.
          -- rewrite canonical_code_first_rank by lia. rewrite El.
             replace (N.to_nat (c + 1)) with (S (N.to_nat c)) by lia.
             apply (slot_lt_transfer leaf t1 t2 A (A + C')); [exact Ag2|lia|].
             apply Q1. lia.
          -- apply G2b; [lia|exact Hs|exact El].
        * destruct (TS s Hs Hp) as (p & Hp1 & Hp2 & Hp3); [lia|].
          exists p. split; [lia|]. split.
          -- apply (slot_lt_transfer leaf t t2 X (A + C')); [|lia|exact Hp2].
             intros i Hi. rewrite Ag2 by lia. apply Ag1. exact Hi.
          -- rewrite Ag2 by lia. rewrite Ag1 by lia. exact Hp3.
    - rewrite G2c. split.
      + intros [H|(s & _ & H2 & H3)]; [discriminate|]. pose proof (ln_le_mx lens s). lia.
      + intros H. right. destruct (exists_longer (c + 1) H) as (s & H1 & H2).
        exists s. repeat split; try lia.
  Qed.

  Lemma build_loop_run (d : nat) : forall c fuel b,
    c + N.of_nat d = mx lens -> (1 <= d)%nat -> (d <= fuel)%nat -> Top c b ->
    exists b', build_loop leaf fuel b cl num c = Ok b' /\ Top (mx lens) b'.
  Proof.
    induction d as [|d IH]; intros c fuel b Hc Hd Hf HT; [lia|].
    destruct fuel as [|f]; [lia|].
    rewrite build_loop_S.
    destruct (round c b HT) as (b1 & b2 & more & E1 & E2 & HT2 & Hm); [lia|].
    rewrite E1. cbn [bind]. rewrite E2. cbn [bind].
    destruct more.
    - assert (c + 1 < mx lens) by (apply Hm; reflexivity).
      apply IH; try lia. exact HT2.
    - assert (~ c + 1 < mx lens) by (intros H; apply Hm in H; discriminate).
      replace (mx lens) with (c + 1) by lia. exists b2. split; [reflexivity|exact HT2].
  Qed.

  Lemma Top_final b : Top (mx lens) b ->
    forall s, s < num -> ln lens s <> 0 ->
      walk_exact leaf (b_tree b) (canonical_code lens s) = Some s.
  Proof.
    intros (_ & _ & _ & _ & _ & TS) s Hs Hl.
    destruct (TS s Hs) as (p & _ & Hp2 & Hp3); [lia|apply ln_le_mx|].
    unfold walk_exact.
    rewrite (slot_lt_walk leaf (b_tree b) (b_next b) _ 0 p Hp2).
    - rewrite Hp3. rewrite (leafval_sym leaf w Hleaf) by lia. reflexivity.
    - rewrite Hp3. apply (leafval_is_leaf leaf w Hleaf).
  Qed.

  (* any fuel that covers the maximum length will do *)
  Lemma build_loop_canonical fuel t : tree_len <= alen t -> mx lens <= N.of_nat fuel ->
    exists b', build_loop leaf fuel {| b_tree := t; b_len := tree_len; b_allocated := 1; b_next := 0 |}
                          cl num 0 = Ok b' /\
      forall s, s < num -> ln lens s <> 0 ->
        walk_exact leaf (b_tree b') (canonical_code lens s) = Some s.
  Proof.
    intros Hal Hf. pose proof (mx_pos lens Hcomplete) as MP.
    destruct (build_loop_run (N.to_nat (mx lens)) 0 fuel
                {| b_tree := t; b_len := tree_len; b_allocated := 1; b_next := 0 |})
      as (b' & E & HT); try lia.
    { apply Top_init. exact Hal. }
    exists b'. split; [exact E|]. apply Top_final. exact HT.
  Qed.
End Canon.

Lemma used_le_cn lens : used lens <= N.of_nat (cn lens).
Proof.
  unfold used. generalize (cn lens). intros n.
  induction n as [|n IH]; [cbn [fsum]; lia|].
  rewrite fsum_S. destruct (0 <? ln lens (N.of_nat n)); lia.
Qed.

Lemma cl_repr_mx cl num lens : cl_repr cl num lens -> mx lens < 256.
Proof.
  intros (Hn & _ & Hcl). destruct (N.eq_dec (mx lens) 0) as [E|E]; [lia|].
  destruct (max_len_attained lens) as (k & Hk & Ek); [unfold mx in E; lia|].
  destruct (Hcl (N.of_nat k)) as [H1 H2]; [unfold nlen in Hn; lia|].
  unfold len_of in H1. rewrite Nat2N.id in H1. unfold mx. lia.
Qed.

(* Main theorem.  Beyond the room for the 2m-1 nodes of a complete code with m
   symbols, the node indices stored in the tree must stay below [leaf]
   (2m-3 < leaf), or else a child pointer is read back as a leaf: see
   [canonical_needs_small_tree] below.  Real callers have tree_len < leaf. *)
Theorem build_tree_canonical leaf w t tree_len cl num lens :
  leaf = 2 ^ w -> closed leaf t tree_len -> 1 <= tree_len -> tree_len <= 2 * leaf ->
  num <= leaf -> cl_repr cl num lens -> complete_code lens = true ->
  2 * used_count lens - 1 <= tree_len ->
  2 * used_count lens - 1 <= leaf + 1 ->
  exists t', build_tree leaf t tree_len cl num = Ok t' /\
    closed leaf t' tree_len /\ alen t' = alen t /\
    forall s, s < num -> len_of lens s <> 0 ->
      walk_exact leaf t' (canonical_code lens s) = Some s /\
      walk leaf t' (canonical_code lens s) = Some s.
Proof.
  intros Hleaf Hc H1 H2 Hnum Hrep Hcomp Hroom Hsmall.
  pose proof (cl_repr_mx cl num lens Hrep) as Hmx.
  destruct Hrep as (Hn & Hcl_len & Hcl).
  destruct (build_tree_closed leaf w Hleaf t tree_len cl num Hc H1 H2 Hcl_len)
    as (t' & E & Hc' & Hal); [intros i Hi; apply Hcl; exact Hi|].
  exists t'. split; [exact E|]. split; [exact Hc'|]. split; [exact Hal|].
  rewrite used_count_used in Hroom, Hsmall.
  pose proof (complete_used lens Hcomp) as HU.
  destruct (build_loop_canonical leaf w Hleaf lens cl num tree_len) with (fuel := 300%nat) (t := t)
    as (b' & Eb & Hw); try assumption; try lia.
  { intros i Hi. apply Hcl. exact Hi. }
  { apply (closed_alen leaf t tree_len Hc). }
  unfold build_tree in E. rewrite Eb in E. cbn [bind] in E. injection E as <-.
  intros s Hs Hl. assert (W : walk_exact leaf (b_tree b') (canonical_code lens s) = Some s)
    by (apply Hw; assumption).
  split; [exact W|]. apply walk_exact_walk'. exact W.
Qed.

(* the form for callers whose tree has at most leaf + 1 nodes *)
Corollary build_tree_canonical' leaf w t tree_len cl num lens :
  leaf = 2 ^ w -> closed leaf t tree_len -> 1 <= tree_len -> tree_len <= leaf + 1 ->
  num <= leaf -> cl_repr cl num lens -> complete_code lens = true ->
  2 * used_count lens - 1 <= tree_len ->
  exists t', build_tree leaf t tree_len cl num = Ok t' /\
    closed leaf t' tree_len /\ alen t' = alen t /\
    forall s, s < num -> len_of lens s <> 0 ->
      walk_exact leaf t' (canonical_code lens s) = Some s /\
      walk leaf t' (canonical_code lens s) = Some s.
Proof.
  intros Hleaf Hc H1 H2 Hnum Hrep Hcomp Hroom.
  pose proof (leaf_pos leaf w Hleaf).
  apply (build_tree_canonical leaf w); try assumption; lia.
Qed.

Corollary build_tree_canonical_u16 t tree_len cl num lens :
  closed 32768 t tree_len -> 1 <= tree_len -> tree_len <= 32769 ->
  num <= 32768 -> cl_repr cl num lens -> complete_code lens = true ->
  2 * used_count lens - 1 <= tree_len ->
  exists t', build_tree 32768 t tree_len cl num = Ok t' /\
    closed 32768 t' tree_len /\ alen t' = alen t /\
    forall s, s < num -> len_of lens s <> 0 ->
      walk_exact 32768 t' (canonical_code lens s) = Some s /\
      walk 32768 t' (canonical_code lens s) = Some s.
Proof. apply (build_tree_canonical' 32768 15 t tree_len cl num lens eq_refl). Qed.

Corollary build_tree_canonical_u8 t tree_len cl num lens :
  closed 128 t tree_len -> 1 <= tree_len -> tree_len <= 129 ->
  num <= 128 -> cl_repr cl num lens -> complete_code lens = true ->
  2 * used_count lens - 1 <= tree_len ->
  exists t', build_tree 128 t tree_len cl num = Ok t' /\
    closed 128 t' tree_len /\ alen t' = alen t /\
    forall s, s < num -> len_of lens s <> 0 ->
      walk_exact 128 t' (canonical_code lens s) = Some s /\
      walk 128 t' (canonical_code lens s) = Some s.
Proof. apply (build_tree_canonical' 128 7 t tree_len cl num lens eq_refl). Qed.

(* ================================================================== *)
(* G. read_from_tree on a byte source follows the walk                 *)

Section ReadSrc.
  Variables leaf w : N.
  Hypothesis Hleaf : leaf = 2 ^ w.

  Lemma tree_loops t len : closed leaf t len -> forall bits v r s rest sym,
    walk_exact_from leaf t bits v = Some sym ->
    (is_leaf leaf v = true \/ v + 1 < len) ->
    bsr_wf r -> src_ok s -> pending r s = bits ++ rest ->
    exists r' s',
      loops (tree_step leaf src_cb t) (length bits) (v, r, s) (Some sym, r', s') /\
      bsr_wf r' /\ src_ok s' /\ pending r' s' = rest.
  Proof.
    intros Hc. induction bits as [|b bits IH]; intros v r s rest sym Hw Hv Hr Hs Hp.
    - cbn [walk_exact_from] in Hw. destruct (is_leaf leaf v) eqn:El; [|discriminate].
      injection Hw as <-. exists r, s. split; [|split; [exact Hr|split; [exact Hs|exact Hp]]].
      apply loops_done. unfold tree_step. rewrite El. reflexivity.
    - cbn [walk_exact_from] in Hw. destruct (is_leaf leaf v) eqn:El; [discriminate|].
      destruct Hv as [Hv|Hv]; [discriminate|].
      destruct (read_bit_src r s b (bits ++ rest) Hr Hs Hp) as (r1 & s1 & E & Hr1 & Hs1 & Hp1).
      pose proof Hc as [Hal Hcl].
      assert (Hb : N.b2n b <= 1) by (destruct b; cbn [N.b2n]; lia).
      destruct (IH (aget t (v + N.b2n b)) r1 s1 rest sym Hw) as (r' & s' & L & A & B & C);
        try assumption.
      { destruct (Hcl (v + N.b2n b)) as [_ Hd]; [lia|]. destruct Hd as [Hd|Hd]; [left; exact Hd|right; lia]. }
      exists r', s'. split; [|split; [exact A|split; [exact B|exact C]]].
      cbn [length]. eapply loops_more; [|exact L].
      unfold tree_step. rewrite El, E. cbn [bind]. rewrite rd_ok by lia. reflexivity.
  Qed.

  Theorem read_from_tree_walk t len bits sym r s rest :
    closed leaf t len -> 1 <= len -> walk_exact leaf t bits = Some sym -> nlen bits < 2 ^ 20 ->
    bsr_wf r -> src_ok s -> pending r s = bits ++ rest ->
    exists r' s', read_from_tree leaf src_cb t r s = Ok (Some sym, r', s') /\
      bsr_wf r' /\ src_ok s' /\ pending r' s' = rest.
  Proof.
    intros Hc Hlen Hw Hn Hr Hs Hp. unfold read_from_tree.
    pose proof (closed_alen leaf t len Hc) as Hal.
    rewrite rd_ok by lia. cbn [bind].
    destruct (tree_loops t len Hc bits (aget t 0) r s rest sym Hw) as (r' & s' & L & A & B & C);
      try assumption.
    { destruct Hc as [_ Hcl]. destruct (Hcl 0) as [_ Hd]; [lia|].
      destruct Hd as [Hd|Hd]; [left; exact Hd|right; lia]. }
    exists r', s'. split; [|split; [exact A|split; [exact B|exact C]]].
    eapply loop_complete; [exact L|].
    assert (E : N.of_nat (2 ^ 20) = 2 ^ N.of_nat 20) by (rewrite Nat2N.inj_pow; reflexivity).
    change (N.of_nat 20) with 20 in E. unfold nlen in Hn. lia.
  Qed.

  (* set_tree_single: the symbol is returned and no bit is consumed, whatever
     the callback *)
  Theorem read_from_tree_single {cbs} (cb : callback cbs) t code t' r c :
    set_tree_single leaf t code = Ok t' ->
    read_from_tree leaf cb t' r c = Ok (Some (code mod leaf), r, c).
  Proof.
    intros H. unfold set_tree_single in H. apply wr_inv in H. destruct H as [Hal ->].
    unfold read_from_tree. rewrite rd_ok by (rewrite alen_aset; exact Hal). cbn [bind].
    rewrite aget_aset_eq.
    apply (loop_complete _ 20 0).
    - apply loops_done. unfold tree_step. rewrite (is_leaf_lor leaf w Hleaf).
      rewrite (land_lor_leaf_low leaf w Hleaf), (elem_mod_leaf leaf w Hleaf). reflexivity.
    - apply Nat.neq_0_lt_0. apply Nat.pow_nonzero. discriminate.
  Qed.
End ReadSrc.

(* build_tree followed by read_from_tree: the next symbol of a stream that
   starts with the codeword of [sym] is [sym], and exactly the codeword is consumed *)
Theorem read_from_tree_canonical leaf w t tree_len cl num lens sym r s rest :
  leaf = 2 ^ w -> closed leaf t tree_len -> 1 <= tree_len -> tree_len <= 2 * leaf ->
  num <= leaf -> cl_repr cl num lens -> complete_code lens = true ->
  2 * used_count lens - 1 <= tree_len ->
  2 * used_count lens - 1 <= leaf + 1 ->
  sym < num -> len_of lens sym <> 0 ->
  bsr_wf r -> src_ok s -> pending r s = canonical_code lens sym ++ rest ->
  exists t', build_tree leaf t tree_len cl num = Ok t' /\
    exists r' s', read_from_tree leaf src_cb t' r s = Ok (Some sym, r', s') /\
      bsr_wf r' /\ src_ok s' /\ pending r' s' = rest.
Proof.
  intros Hleaf Hc H1 H2 Hnum Hrep Hcomp Hroom Hsmall Hsym Hl Hr Hs Hp.
  destruct (build_tree_canonical leaf w t tree_len cl num lens) as (t' & E & Hc' & _ & Hw);
    try assumption.
  exists t'. split; [exact E|].
  destruct (Hw sym Hsym Hl) as [W _].
  apply (read_from_tree_walk leaf w Hleaf t' tree_len (canonical_code lens sym) sym r s rest);
    try assumption.
  unfold canonical_code. rewrite nlen_bits_of, N2Nat.id.
  pose proof (cl_repr_mx cl num lens Hrep). pose proof (ln_le_mx lens sym). unfold ln in *.
  change (2 ^ 20) with 1048576. lia.
Qed.

(* ================================================================== *)
(* H. Prefix-freeness of complete canonical codes                      *)

Lemma alen_aset_list l : forall a i, alen (aset_list a i l) = alen a.
Proof.
  induction l as [|x r IH]; intros a i; [reflexivity|].
  cbn [aset_list]. rewrite IH. apply alen_aset.
Qed.

Lemma alen_arr_of_list d l : alen (arr_of_list d l) = nlen l.
Proof. unfold arr_of_list. rewrite alen_aset_list. reflexivity. Qed.

Lemma cl_repr_arr_of_list lens : (forall i, len_of lens i < 256) ->
  cl_repr (arr_of_list 0 lens) (nlen lens) lens.
Proof.
  intros H. split; [reflexivity|]. split; [rewrite alen_arr_of_list; lia|].
  intros i _. rewrite aget_arr_of_list. fold (len_of lens i). split; [reflexivity|apply H].
Qed.

(* The codewords are the root paths of the leaves of a tree, hence no
   codeword is a proper prefix of another and distinct symbols have distinct
   codewords: a bit string has at most one decoding. *)
Theorem canonical_prefix_free lens s1 s2 x :
  complete_code lens = true -> s1 < nlen lens -> s2 < nlen lens ->
  len_of lens s1 <> 0 -> len_of lens s2 <> 0 ->
  canonical_code lens s1 ++ x = canonical_code lens s2 -> x = [] /\ s1 = s2.
Proof.
  intros Hcomp H1 H2 L1 L2 E.
  set (num := nlen lens) in *. set (w := num + 1). set (leaf := 2 ^ w).
  set (tree_len := 2 * used lens).
  assert (Hn : N.of_nat (cn lens) = num) by reflexivity.
  assert (Hcl_len : num <= alen (arr_of_list 0 lens)) by (rewrite alen_arr_of_list; fold num; lia).
  assert (Hcl : forall i, i < num -> aget (arr_of_list 0 lens) i = ln lens i)
    by (intros i _; apply aget_arr_of_list).
  assert (Hpow : num < 2 ^ num) by (apply N.pow_gt_lin_r; lia).
  assert (Hleaf2 : leaf = 2 * 2 ^ num) by (unfold leaf, w; apply pow2_succ).
  pose proof (used_le_cn lens) as HU. rewrite Hn in HU.
  destruct (build_loop_canonical leaf w eq_refl lens (arr_of_list 0 lens) num tree_len
              Hn Hcl_len Hcl Hcomp) with (fuel := N.to_nat (mx lens)) (t := mk_arr tree_len 0)
    as (b' & _ & Hw); try (unfold tree_len; cbn [mk_arr alen]; lia).
  pose proof (Hw s1 H1 L1) as W1. pose proof (Hw s2 H2 L2) as W2.
  rewrite <- E in W2. unfold walk_exact in W1, W2.
  exact (walk_exact_from_prefix leaf _ _ _ _ _ _ W1 W2).
Qed.

(* ================================================================== *)
(* I. Non-vacuity and the counterexample                               *)

Definition canon_ex_lens : list N := [2; 2; 2; 3; 3].

Example canon_ex_complete : complete_code canon_ex_lens = true.
Proof. vm_compute. reflexivity. Qed.

Example canon_ex_codes :
  map (canonical_code canon_ex_lens) [0; 1; 2; 3; 4] =
  [[false; false]; [false; true]; [true; false]; [true; true; false]; [true; true; true]].
Proof. vm_compute. reflexivity. Qed.

(* the built tree (2*5-1 = 9 nodes) and every codeword walked, computed *)
Example canon_ex_computed :
  match t0 <- init_tree 32768 (mk_arr 9 0) 9 ;;
        build_tree 32768 t0 9 (arr_of_list 0 canon_ex_lens) 5 with
  | Ok t' =>
    alist t' = [1; 3; 5; 32768; 32769; 32770; 7; 32771; 32772] /\
    map (fun s => walk 32768 t' (canonical_code canon_ex_lens s)) [0; 1; 2; 3; 4] =
    [Some 0; Some 1; Some 2; Some 3; Some 4] /\
    map (fun s => walk_exact 32768 t' (canonical_code canon_ex_lens s)) [0; 1; 2; 3; 4] =
    [Some 0; Some 1; Some 2; Some 3; Some 4]
  | _ => False
  end.
Proof. vm_compute. repeat split; reflexivity. Qed.

(* the hypotheses of build_tree_canonical hold for it, so the theorem applies *)
Example canon_ex_by_theorem :
  exists t', (t0 <- init_tree 32768 (mk_arr 9 0) 9 ;;
              build_tree 32768 t0 9 (arr_of_list 0 canon_ex_lens) 5) = Ok t' /\
    forall s, s < 5 -> walk 32768 t' (canonical_code canon_ex_lens s) = Some s.
Proof.
  destruct (init_tree_closed 32768 15 eq_refl (mk_arr 9 0) 9) as (t0 & E0 & C0 & _).
  { vm_compute. discriminate. }
  rewrite E0. cbn [bind].
  destruct (build_tree_canonical_u16 t0 9 (arr_of_list 0 canon_ex_lens) 5 canon_ex_lens C0)
    as (t' & E & _ & _ & Hw); try lia.
  - apply (cl_repr_arr_of_list canon_ex_lens). intros i. unfold len_of, canon_ex_lens.
    destruct (N.to_nat i) as [|[|[|[|[|[|k]]]]]]; cbn [nth]; lia.
  - apply canon_ex_complete.
  - vm_compute. discriminate.
  - exists t'. split; [exact E|]. intros s Hs. apply Hw; [exact Hs|].
    assert (D : s = 0 \/ s = 1 \/ s = 2 \/ s = 3 \/ s = 4) by lia.
    destruct D as [D|[D|[D|[D|D]]]]; subst s; vm_compute; discriminate.
Qed.

(* a source whose bits start with the codeword of symbol 3 (110), then 01...:
   read_from_tree returns 3 and leaves the reader in front of "01..." *)
Example canon_ex_read :
  match t0 <- init_tree 32768 (mk_arr 9 0) 9 ;;
        t' <- build_tree 32768 t0 9 (arr_of_list 0 canon_ex_lens) 5 ;;
        read_from_tree 32768 src_cb t' bsr_init {| src_data := [200]; src_chunks := [] |} with
  | Ok (res, r', s') => res = Some 3 /\ pending r' s' = [false; true; false; false; false]
  | _ => False
  end.
Proof. vm_compute. split; reflexivity. Qed.

(* Counterexample to the statement without the bound 2m-1 <= leaf + 1: the
   8-bit element type (leaf = 128), a complete code with 66 symbols (62 of
   length 6, four of length 7), a tree of exactly 2*66-1 = 131 <= 2*leaf
   entries, num = 66 <= leaf.  The child index 129 stored in the tree has the
   leaf bit set and is read back as "leaf, symbol 1": symbols 64 and 65
   decode as 1.  With 65 symbols (tree of 129 = leaf + 1 entries) all is well. *)
Definition canon_cex_lens : list N := repeat 6 62 ++ repeat 7 4.

Example canonical_needs_small_tree :
  complete_code canon_cex_lens = true /\ nlen canon_cex_lens = 66 /\
  2 * used_count canon_cex_lens - 1 = 131 /\
  match t0 <- init_tree 128 (mk_arr 131 0) 131 ;;
        build_tree 128 t0 131 (arr_of_list 0 canon_cex_lens) 66 with
  | Ok t' =>
    map (fun s => walk 128 t' (canonical_code canon_cex_lens s)) [62; 63; 64; 65] =
    [Some 62; Some 63; Some 1; Some 1]
  | _ => False
  end.
Proof. vm_compute. repeat split; reflexivity. Qed.

Definition canon_edge_lens : list N := repeat 6 63 ++ repeat 7 2.

Example canonical_edge_ok :
  complete_code canon_edge_lens = true /\ 2 * used_count canon_edge_lens - 1 = 129 /\
  match t0 <- init_tree 128 (mk_arr 129 0) 129 ;;
        build_tree 128 t0 129 (arr_of_list 0 canon_edge_lens) 65 with
  | Ok t' =>
    map (fun s => walk 128 t' (canonical_code canon_edge_lens s)) [0; 62; 63; 64] =
    [Some 0; Some 62; Some 63; Some 64]
  | _ => False
  end.
Proof. vm_compute. repeat split; reflexivity. Qed.

Print Assumptions code_value_first_rank.
Print Assumptions canonical_code_first_rank.
Print Assumptions build_loop_canonical.
Print Assumptions build_tree_canonical.
Print Assumptions build_tree_canonical'.
Print Assumptions build_tree_canonical_u16.
Print Assumptions build_tree_canonical_u8.
Print Assumptions read_from_tree_walk.
Print Assumptions read_from_tree_canonical.
Print Assumptions read_from_tree_single.
Print Assumptions canonical_prefix_free.
Print Assumptions canon_ex_computed.
Print Assumptions canon_ex_by_theorem.
Print Assumptions canon_ex_read.
Print Assumptions canonical_needs_small_tree.

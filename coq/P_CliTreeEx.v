(* P_CliTreeEx.v -- non-vacuity of extract_archive_reproduces_tree: the archive of
   Properties_C06.extraction_instance (directory d/ 0555 listed first, then
   d/a.txt "hello world\n" 0644 and the link d/l -> a.txt) satisfies every
   hypothesis of the theorem. *)
From Lhasa Require Import Base ListN DecBase Loop Generated Crc16 InputStream Header BasicReader
  AnyDecoder Decoder MacBinary Fs FsRun Reader Glob ListOut CliFilter CliExtract CliMain
  P_ReaderCheck P_FsExtract P_ReaderExtract P_CliExtract P_CliTree.
Local Open Scope N_scope.

Definition exa : list N :=
  [36;0;45;108;104;100;45;0;0;0;0;0;0;0;0;0;59;61;75;32;2;0;0;85;5;0;2;100;255;5;0;80;109;65;0;0;
   44;0;45;108;104;48;45;12;0;0;0;12;0;0;0;0;202;154;59;32;2;120;151;85;8;0;1;97;46;116;120;116;5;0;2;100;255;5;0;80;164;129;0;0;
   104;101;108;108;111;32;119;111;114;108;100;10;
   46;0;45;108;104;100;45;0;0;0;0;0;0;0;0;0;133;226;1;32;2;0;0;85;10;0;1;108;124;97;46;116;120;116;5;0;2;100;255;5;0;80;255;161;0;0;0].

Definition ex_br0 : breader := lha_basic_reader_new (lha_input_stream_new (mk_source KFile exa)).
Definition ex_next (br : breader) : option header * breader :=
  match lha_basic_reader_next_file mktime_utc br with Ok x => x | _ => (None, br) end.
Definition ex_br1 := snd (ex_next ex_br0).
Definition ex_hd : header := match fst (ex_next ex_br0) with Some h => h | None => header0 [] end.
Definition ex_br2 := snd (ex_next ex_br1).
Definition ex_ha : header := match fst (ex_next ex_br1) with Some h => h | None => header0 [] end.

Definition n_d : name := [100].
Definition n_a : name := [97;46;116;120;116].
Definition n_l : name := [108].
Definition ex_bytes : list N := [104;101;108;108;111;32;119;111;114;108;100;10].

Example ex_headers :
  h_path ex_hd = Some (dirstr [n_d]) /\ h_filename ex_hd = None /\ is_dir_method ex_hd = true /\
  h_unix_perms ex_hd = 16749 /\ h_timestamp ex_hd = 1262304000 /\
  h_path ex_ha = Some (dirstr [n_d]) /\ h_filename ex_ha = Some n_a /\ is_dir_method ex_ha = false /\
  h_unix_perms ex_ha = 33188 /\ h_timestamp ex_ha = 1000000000.
Proof. repeat split; vm_compute; reflexivity. Qed.

(* the regular member decodes to its bytes, whatever the reader's bookkeeping *)
Example ex_member_ok : forall r, rd_br r = ex_br2 -> rd_type r = CT_NORMAL -> rd_curr r = Some ex_ha ->
  exists r2, member_ok 0 r ex_ha ex_bytes r2.
Proof.
  intros r Hbr Hty Hcur. destruct r as [br cur ty dec inn pol stk dfr lk]. cbn in Hbr, Hty, Hcur. subst br ty cur.
  eexists. unfold member_ok. eexists _, _, [ex_bytes].
  split; [vm_compute; reflexivity|].
  split.
  - eapply dd_more; [discriminate|vm_compute; reflexivity|].
    eapply dd_last. vm_compute. reflexivity.
  - split; [reflexivity|]. split; [vm_compute; reflexivity|]. cbn. lia.
Qed.

Definition ex_hl : header := match fst (ex_next ex_br2) with Some h => h | None => header0 [] end.
Definition ex_tgt : list N := [97;46;116;120;116].

Definition ex_items : list item :=
  [IDir n_d ex_hd [IFile n_a ex_ha ex_bytes; ILink n_l ex_hl ex_tgt]].

Example ex_positioned :
  positioned mktime_utc 0 ex_br1 [MOther ex_hd; MFile ex_ha ex_bytes; MOther ex_hl].
Proof.
  eapply pos_other; [vm_compute; reflexivity|vm_compute; reflexivity|].
  eapply pos_file; [vm_compute; reflexivity|].
  intros r Hbr Hty Hcur. destruct r as [br cur ty dec inn pol stk dfr lk]. cbn in Hbr, Hty, Hcur. subst br ty cur.
  eexists. split.
  - unfold member_ok. eexists _, _, [ex_bytes].
    split; [vm_compute; reflexivity|].
    split.
    + eapply dd_more; [discriminate|vm_compute; reflexivity|].
      eapply dd_last. vm_compute. reflexivity.
    + split; [reflexivity|]. split; [vm_compute; reflexivity|]. cbn. lia.
  - eexists _, _. split; [vm_compute; reflexivity|].
    eapply pos_other; [vm_compute; reflexivity|vm_compute; reflexivity|].
    apply pos_end. vm_compute. reflexivity.
Qed.

Ltac good_name_tac := split; [discriminate|split; [repeat constructor; discriminate|repeat split; vm_compute; reflexivity]].

Example ex_wf : Forall (wf_item 18 false []) ex_items.
Proof.
  constructor; [|constructor]. cbn [wf_item].
  split; [good_name_tac|]. split; [vm_compute; discriminate|].
  split; [repeat split; vm_compute; reflexivity|].
  split; [repeat constructor; cbn; intuition discriminate|].
  split.
  - split; [good_name_tac|]. split; [vm_compute; discriminate|].
    split; [repeat split; vm_compute; reflexivity|]. right. vm_compute. reflexivity.
  - split; [|exact I]. split; [good_name_tac|]. split; [vm_compute; discriminate|].
    repeat split; try (vm_compute; reflexivity); try discriminate.
Qed.

Definition ex_fs : fs := cli_fs_init false exa 1200000000 [].
Definition ex_st : cli_state :=
  {| cs_fs := ex_fs; cs_reader := lha_reader_new (lha_input_stream_new (mk_source KFile exa));
     cs_opts := init_options; cs_stdin := []; cs_stdin_shared := false; cs_out := []; cs_err := [] |}.

(* the theorem applies: the command succeeds and the extraction directory holds exactly the described tree *)
Example ex_instance :
  exists st', extract_archive mktime_utc 0 (lha_filter_init []) ex_st = Ok (RVal true, st') /\
    fs_root (cs_fs st') = update_at (fs_root ex_fs) (fs_cwd ex_fs)
                            (const_some (Dir true 493 now ([] ++ builds 18 ex_items))).
Proof.
  destruct (extract_archive_reproduces_tree mktime_utc 0 (lha_filter_init []) eq_refl 18 false
              (conj eq_refl eq_refl) ex_items ex_st true 493 0 []) as (st' & Hex & _ & Hroot).
  - exact ex_wf.
  - repeat constructor. intros [].
  - intros c _. reflexivity.
  - repeat split.
  - reflexivity.
  - reflexivity.
  - split; [constructor|]. split.
    + apply chain_nil. exists true, 493, 0, []. split; vm_compute; reflexivity.
    + split; vm_compute; reflexivity.
  - reflexivity.
  - repeat split. discriminate.
  - exists ex_br1. split; [vm_compute; reflexivity|exact ex_positioned].
  - vm_compute. reflexivity.
  - exists st'. split; [exact Hex|exact Hroot].
Qed.

(* what that tree is: d with the recorded 0555 and time although it was filled after its creation,
   a.txt with contents, 0644 and time, the link with its target *)
Example ex_built :
  builds 18 ex_items =
  [(n_d, Dir true 365 1262304000
           [(n_a, File true 420 1000000000 ex_bytes); (n_l, Link ex_tgt)])].
Proof. vm_compute. reflexivity. Qed.

Print Assumptions ex_instance.

(* placeholder until the theorems are in place *)
From Lhasa Require Import Base Header.
Example checksum_example : check_l0_checksum [1; 2; 255]%N 2%N = true.
Proof. vm_compute. reflexivity. Qed.

(* Properties_C12.v -- C12: headers failing their own checksum, CRC or length
   rules are never returned.  Statements only; proofs in P_Intact.v, where the
   predicate [intact] is defined independently of the parser's code: level <= 3;
   level 0/1 checksum byte = sum of the base header mod 256 and the length
   rules; level 2 >= 26 bytes; level 3 word size 4 and 32..1 MiB bytes; a seen
   common-CRC field equals the CRC-16 of the raw header with those fields
   zeroed; a file has a name, a directory (not a symlink) has a path. *)
From Lhasa Require Import Base Generated InputStream Header BasicReader P_Intact.
Local Open Scope N_scope.

(* Soundness of the parser w.r.t. the integrity predicate, for EVERY input
   stream state.  Contrapositive: a header whose own integrity data
   contradicts it is never handed to the caller. *)
Theorem returned_header_is_intact : forall mktime st h st',
  lha_file_header_read mktime st = Ok (Some h, st') -> intact h.
Proof. exact P_Intact.returned_header_is_intact. Qed.

Theorem level_above_3_rejected : forall mktime st raw st1 lvl,
  lha_input_stream_read st hdr_COMMON_HEADER_LEN = Ok (Some raw, st1) ->
  nth_N raw 20 = Some lvl -> 3 < lvl ->
  lha_file_header_read mktime st = Ok (None, st1).
Proof. exact P_Intact.level_above_3_rejected. Qed.

(* Through the basic reader: what is returned is intact ... *)
Theorem next_file_returns_intact : forall mktime r h r',
  lha_basic_reader_next_file mktime r = Ok (Some h, r') -> intact h.
Proof. exact P_Intact.next_file_returns_intact. Qed.

(* ... and iteration over the archive ends at the first rejected header: every
   later call returns None again and leaves the reader (and its stream) untouched. *)
Theorem iteration_stops : forall mktime r r',
  lha_basic_reader_next_file mktime r = Ok (None, r') ->
  forall n, next_file_n mktime n r' = Ok (None, r').
Proof. exact P_Intact.iteration_stops. Qed.

Theorem next_file_stops_at_rejected_header : forall mktime r st2,
  br_curr r = None -> br_eof r = false ->
  lha_file_header_read mktime (br_stream r) = Ok (None, st2) ->
  exists r', lha_basic_reader_next_file mktime r = Ok (None, r') /\
             forall n, next_file_n mktime n r' = Ok (None, r').
Proof. exact P_Intact.next_file_stops_at_rejected_header. Qed.

Print Assumptions returned_header_is_intact.
Print Assumptions level_above_3_rejected.
Print Assumptions next_file_returns_intact.
Print Assumptions iteration_stops.
Print Assumptions next_file_stops_at_rejected_header.
(* ---- the whole member list (P_MembersAll.v): every header plain iteration yields on ANY
   stream -- P_CliMembers.stream_headers, the headers an extraction can meet
   (Properties_C10.presents_are_stream_headers) -- is intact; each was returned by a call of
   lha_basic_reader_next_file and of lha_file_header_read ---- *)
From Lhasa Require P_MembersAll.
Theorem stream_headers_intact : ltac:(let t := type of P_MembersAll.stream_headers_intact in exact t).
Proof. exact P_MembersAll.stream_headers_intact. Qed.
Theorem stream_headers_returned : ltac:(let t := type of P_MembersAll.stream_headers_returned in exact t).
Proof. exact P_MembersAll.stream_headers_returned. Qed.
(* ... and so is every header the extraction loop of the tool obtains (with
   Properties_C10.presents_are_stream_headers); it also has C11's names *)
Theorem presented_headers_ok : ltac:(let t := type of P_MembersAll.presented_headers_ok in exact t).
Proof. exact P_MembersAll.presented_headers_ok. Qed.
Print Assumptions stream_headers_intact.
Print Assumptions stream_headers_returned.
Print Assumptions presented_headers_ok.

(* P_CliTreeAnyEx.v -- the archive abstraction of P_CliTree.v (plain members
   described by member_ok) is an instance of the one of P_CliTreeAny.v, and
   non-vacuity of extract_archive_below_any on the archive of P_CliTreeEx.v. *)
From Lhasa Require Import Base ListN DecBase Loop Generated Crc16 InputStream Header BasicReader
  AnyDecoder Decoder MacBinary Fs FsRun Reader Glob ListOut CliFilter CliExtract CliMain
  P_ReaderCheck P_FsExtract P_ReaderExtract P_CliExtract P_CliTree P_CliTreeEx P_FsReplace P_CliOverwrite
  P_CliExtractGen P_CliTreeGen P_DecoderTrace P_MacContent P_MacExtract P_CliTreeAny.
Local Open Scope N_scope.

Section Conv.
  Variable mktime : N -> N -> N -> N -> Z -> N -> N.
  Variable junk : N.

  (* a member that tests good has a run *)
  Lemma good_has_run r h r2 : member_good junk r r2 -> rd_type r = CT_NORMAL -> rd_curr r = Some h ->
    is_dir_method h = false -> exists chunks, good_run junk r h r2 chunks.
  Proof.
    intros [ev0 Hck] Hty Hcur Hdm.
    rewrite (check_eq junk r true h Hty Hcur Hdm) in Hck.
    destruct (open_decoder junk r true) as [[[ok ev1] r1]| |] eqn:Hop; cbn [bind] in Hck; try discriminate.
    destruct ok; [|inversion Hck].
    destruct (do_decode junk r1 check_fs None) as [[[[res2 ev2] r2'] f2]| |] eqn:Hdd; cbn [bind] in Hck; try discriminate.
    inversion Hck; subst res2 r2'. clear Hck.
    destruct (do_decode_any_output junk _ _ _ _ _ _ Hdd) as (chunks & Hrun & _).
    exists chunks, ev1, r1. split; [exact Hop|].
    assert (Hf2 : f2 = check_fs).
    { pose proof (dd_run_writes junk _ _ _ _ _ _ Hrun) as [Hf _]. rewrite fold_write_none in Hf. exact Hf. }
    subst f2. split; [exact Hrun|].
    rewrite do_decode_eq in Hdd.
    destruct (loop (dd_step junk None) 64 (r1, check_fs, [])) as [[[ra fa] evsa]| |]; cbn [bind] in Hdd; try discriminate.
    rewrite inner_len_crc_of in Hdd.
    destruct (inner_of ra) as [dfin|] eqn:Eof; [|discriminate].
    destruct (rd_curr ra) as [h2|] eqn:Ec2; [|discriminate].
    inversion Hdd; subst ra fa. clear Hdd.
    assert (Eh : h2 = h).
    { pose proof (open_decoder_book junk _ _ _ _ _ Hop) as B1. pose proof (dd_run_book junk _ _ _ _ _ _ Hrun) as B2.
      unfold book in B1, B2. congruence. }
    subst h2. exists dfin. split; [exact Eof|].
    match goal with E : (_ && _) = true |- _ => apply andb_prop in E; destruct E as [E1 E2] end.
    apply N.eqb_eq in E1. apply N.eqb_eq in E2. auto.
  Qed.

  Lemma member_ok_good r h bs r2 : rd_type r = CT_NORMAL -> rd_curr r = Some h -> is_dir_method h = false ->
    (h_os_type h =? OS_TYPE_MACOS) = false -> member_ok junk r h bs r2 ->
    member_good junk r r2 /\ exists chunks, good_run junk r h r2 chunks /\ concat chunks = bs.
  Proof.
    intros Hty Hcur Hdm Hos (ev1 & r1 & chunks & Hop & Hrun & Hbs & Hv & Hlen).
    destruct (do_decode_total junk r true ev1 r1 h chunks r2 _ _ None check_fs Hop Hcur Hos Hrun Hlen) as [evs Hdd].
    assert (Hg : member_good junk r r2).
    { exists (ev1 ++ evs). rewrite (check_eq junk r true h Hty Hcur Hdm), Hop. cbn [bind]. rewrite Hdd. cbn [bind].
      rewrite Hbs, Hv. reflexivity. }
    split; [exact Hg|].
    destruct (good_has_run r h r2 Hg Hty Hcur Hdm) as (chunks' & Hgr).
    exists chunks'. split; [exact Hgr|].
    destruct Hgr as (ev1' & r1' & Hop' & Hrun' & _). rewrite Hop in Hop'. inversion Hop'; subst ev1' r1'.
    destruct (dd_run_det junk _ _ _ _ _ _ Hrun _ _ _ Hrun') as (E & _). rewrite <- E. exact Hbs.
  Qed.

  Definition plain_member (m : member) : Prop :=
    match m with MFile h _ => is_dir_method h = false /\ (h_os_type h =? OS_TYPE_MACOS) = false | MOther _ => True end.

  Lemma positioned_any : forall ms br, positioned mktime junk br ms -> Forall plain_member ms ->
    positionedA mktime junk br ms.
  Proof.
    induction ms as [|m ms IH]; intros br Hpos Hall.
    - inversion Hpos; subst. constructor. assumption.
    - inversion Hall as [|m0 l0 Hm Hrest]; subst m0 l0.
      inversion Hpos as [|br0 h bs ms0 Hc Hdec|br0 h ms0 x br' Hc Hbn Hpos']; subst.
      + destruct Hm as (Hdm & Hos). apply posA_file; [exact Hc|].
        intros r Hbr Hty Hcur. destruct (Hdec r Hbr Hty Hcur) as (r2 & Hmem & x & br' & Hbn & Hpos').
        destruct (member_ok_good r h bs r2 Hty Hcur Hdm Hos Hmem) as (Hg & chunks & Hgr & Hbs).
        exists r2, chunks. split; [exact Hg|]. split; [exact Hgr|]. split; [exact Hbs|].
        exists x, br'. split; [exact Hbn|]. apply IH; assumption.
      + eapply posA_other; eauto.
  Qed.
End Conv.

(* ---- the instance ---- *)
Ltac good_name_tacA := split; [discriminate|split; [repeat constructor; discriminate|repeat split; vm_compute; reflexivity]].

Example ex_wfA : Forall (wf_itemA 18 false []) ex_items.
Proof.
  constructor; [|constructor]. cbn [wf_itemA].
  split; [good_name_tacA|]. split; [vm_compute; discriminate|].
  split; [repeat split; vm_compute; reflexivity|].
  split; [repeat constructor; cbn; intuition discriminate|].
  split.
  - split; [good_name_tacA|]. split; [vm_compute; discriminate|].
    split; [repeat split; vm_compute; reflexivity|]. right. vm_compute. reflexivity.
  - split; [|exact I]. split; [good_name_tacA|]. split; [vm_compute; discriminate|].
    repeat split; try (vm_compute; reflexivity); try discriminate.
Qed.

Example ex_positionedA : positionedA mktime_utc 0 ex_br1 [MOther ex_hd; MFile ex_ha ex_bytes; MOther ex_hl].
Proof.
  apply positioned_any; [exact ex_positioned|].
  constructor; [exact I|]. constructor; [split; vm_compute; reflexivity|]. constructor; [exact I|constructor].
Qed.

Example ex_instance_any :
  exists st', extract_archive mktime_utc 0 (lha_filter_init []) ex_st = Ok (RVal true, st') /\
    fs_root (cs_fs st') = update_at (fs_root ex_fs) (fs_cwd ex_fs ++ [])
                            (const_some (Dir true 493 now ([] ++ builds 18 ex_items))).
Proof.
  destruct (extract_archive_below_any mktime_utc 0 (lha_filter_init []) eq_refl 18 false
              (conj eq_refl eq_refl) [] ex_items ex_st true 493 0 []) as (st' & Hex & _ & _ & Hroot).
  - exact ex_wfA.
  - constructor; [|constructor]. cbn [fits].
    split; [vm_compute; discriminate|]. split; [vm_compute; discriminate|]. split; [vm_compute; discriminate|exact I].
  - repeat constructor. intros [].
  - intros c _. reflexivity.
  - apply pfx_plain. repeat split.
  - reflexivity.
  - reflexivity.
  - split; [constructor|]. split.
    + apply chain_nil. exists true, 493, 0, []. split; vm_compute; reflexivity.
    + split; vm_compute; reflexivity.
  - reflexivity.
  - repeat split. discriminate.
  - exists ex_br1. split; [vm_compute; reflexivity|exact ex_positionedA].
  - vm_compute. reflexivity.
  - exists st'. split; [exact Hex|exact Hroot].
Qed.

Print Assumptions positioned_any.
Print Assumptions ex_instance_any.

(* P_MembersAll.v -- the per-header theorems, for the WHOLE member list of
   arbitrary archive bytes.

   [P_CliMembers.stream_headers mktime strm] is the list of headers that plain
   iteration with the basic reader yields on the stream strm.  Here the
   theorems about one returned header are lifted to every element of that list:

     stream_headers_returned   every member was returned by a call of
                               lha_file_header_read (on some stream state) and by
                               a call of lha_basic_reader_next_file
     stream_headers_intact     C12: every member satisfies P_Intact.intact
     stream_headers_names_ok   C11: every member has a file name without '/' and
                               a path whose components are real names
     stream_headers_count      C13: two bytes of the stream per member, for any
                               stream contents; 22 bytes per member when the
                               stream consists of bytes (values below 256)
     stream_headers_of_archive_of
                               E2E: on the bytes archive_of ds the list is exactly
                               headers_of ds, for every description ds covered by
                               wf_descs_any (in particular wf_descs), any kind of source
     presented_headers_ok      with presents_are_stream_headers: every header the extraction
                               loop of the tool obtains is intact and has C11's names

   Lemmas and theorems only. *)
From Lhasa Require Import Base ListN Loop Generated InputStream Header BasicReader AnyDecoder Decoder MacBinary
  Fs FsRun Reader P_HeaderSafe P_Intact P_Path P_StreamEquiv P_BasicReaderIndep P_ReaderIndep P_ReaderIndepFull
  P_KindIndepReader CliExtract P_CliConfineLate P_CliMembers P_CliRetBytes
  P_ReaderCheck P_ReaderExtract P_CliTree S_Capstone S_CapAny P_CapAnyRun.
From Coq Require Import ZifyBool ZifyN ZifyNat.
Local Open Scope N_scope.

Section All.
  Variable mktime : N -> N -> N -> N -> Z -> N -> N.

  (* ---------------------------------------------------------------- *)
  (* 1. every member was returned by a call                            *)

  Lemma fut_returned b h : fut mktime b h ->
    exists b0 b1, lha_basic_reader_next_file mktime b0 = Ok (Some h, b1).
  Proof. induction 1 as [b h b' E|b h h0 b' E F IH]; [exists b, b'; exact E|exact IH]. Qed.

  Lemma next_file_header_read b h b' : lha_basic_reader_next_file mktime b = Ok (Some h, b') ->
    exists st st', lha_file_header_read mktime st = Ok (Some h, st').
  Proof.
    unfold lha_basic_reader_next_file. intros H. binv H r1 E1.
    destruct (br_eof r1); [discriminate|].
    binv H x Eh. destruct x as [hh st2]. destruct hh as [hd|]; [|discriminate].
    injection H as <- _. exists (br_stream r1), st2. exact Eh.
  Qed.

  Theorem stream_headers_returned strm h : In h (stream_headers mktime strm) ->
    (exists b0 b1, lha_basic_reader_next_file mktime b0 = Ok (Some h, b1)) /\
    (exists st st', lha_file_header_read mktime st = Ok (Some h, st')).
  Proof.
    intros Hin. unfold stream_headers in Hin. apply (bheaders_fut mktime _ (lha_basic_reader_new strm) h) in Hin. destruct (fut_returned _ _ Hin) as (b0 & b1 & E).
    split; [exists b0, b1; exact E|exact (next_file_header_read _ _ _ E)].
  Qed.

  (* C12 for the whole list: no member fails its own checksum, CRC or length rules *)
  Theorem stream_headers_intact strm : Forall intact (stream_headers mktime strm).
  Proof.
    apply Forall_forall. intros h Hin. destruct (stream_headers_returned strm h Hin) as [(b0 & b1 & E) _].
    exact (next_file_returns_intact mktime b0 h b1 E).
  Qed.

  (* C11 for the whole list *)
  Theorem stream_headers_names_ok strm :
    Forall (fun h => (forall n, h_filename h = Some n -> P_Path.name_ok n) /\ (forall p, h_path h = Some p -> P_Path.path_ok p))
           (stream_headers mktime strm).
  Proof.
    apply Forall_forall. intros h Hin. destruct (stream_headers_returned strm h Hin) as [_ (st & st' & E)].
    exact (returned_names_ok mktime st h st' E).
  Qed.

  (* ---------------------------------------------------------------- *)
  (* 2. the number of members                                          *)

  Lemma bheaders_count : forall fuel b, wf_reader b ->
    2 * N.of_nat (length (bheaders mktime fuel b)) <= ravail b.
  Proof.
    induction fuel as [|k IH]; intros b W; cbn [bheaders]; [cbn [length]; lia|].
    destruct (lha_basic_reader_next_file mktime b) as [[[h|] b']| |] eqn:E; try (cbn [length]; lia).
    destruct (basic_next_progress mktime _ _ _ W E) as [W' A']. specialize (IH b' W'). cbn [length]. lia.
  Qed.

  (* any stream contents (not only bytes): at least two bytes per member *)
  Theorem stream_headers_count strm : P_HeaderSafe.wf strm ->
    2 * N.of_nat (length (stream_headers mktime strm)) <= avail strm.
  Proof. intros W. unfold stream_headers. apply bheaders_count. exact W. Qed.

  (* a stream of bytes: a returned header has taken at least 22 of them *)
  Lemma basic_next_22 b h b' : SB (br_stream b) -> wf_reader b -> ravail b < 1099511627776 ->
    lha_basic_reader_next_file mktime b = Ok (Some h, b') ->
    SB (br_stream b') /\ wf_reader b' /\ ravail b' + 22 <= ravail b.
  Proof.
    intros Hs Hwf Ha H. unfold lha_basic_reader_next_file in H. binv H r1 E1.
    assert (W1 : SB (br_stream r1) /\ wf_reader r1 /\ ravail r1 <= ravail b).
    { destruct (br_curr b).
      - binv E1 x Es. destruct x as [ok st1]. injection E1 as <-.
        pose proof (lha_input_stream_skip_okp (br_stream b) (br_remaining b) Hwf) as P. rewrite Es in P. cbn [okp] in P.
        split.
        + cbn [br_stream]. eapply stream_skip_SB; [|exact Hs|exact Es].
          right. unfold ravail, avail in Ha. lia.
        + unfold wf_reader, ravail. cbn [br_stream]. exact P.
      - injection E1 as <-. split; [exact Hs|]. split; [exact Hwf|apply N.le_refl]. }
    destruct W1 as (S1 & W1 & A1). destruct (br_eof r1); [discriminate|].
    binv H x Eh. destruct x as [hh st2]. destruct hh as [hd|]; [|discriminate]. injection H as <- <-.
    destruct (header_read_SW mktime _ _ _ S1 W1 Eh) as (S2 & W2 & _ & K).
    destruct (K hd eq_refl) as [_ A2]. unfold wf_reader, ravail in *. cbn [br_stream].
    split; [exact S2|]. split; [exact W2|lia].
  Qed.

  Lemma bheaders_count_bytes : forall fuel b, SB (br_stream b) -> wf_reader b -> ravail b < 1099511627776 ->
    22 * N.of_nat (length (bheaders mktime fuel b)) <= ravail b.
  Proof.
    induction fuel as [|k IH]; intros b Hs W A; cbn [bheaders]; [cbn [length]; lia|].
    destruct (lha_basic_reader_next_file mktime b) as [[[h|] b']| |] eqn:E; try (cbn [length]; lia).
    destruct (basic_next_22 _ _ _ Hs W A E) as (S' & W' & A'). specialize (IH b' S' W'). cbn [length]. lia.
  Qed.

  Theorem stream_headers_count_bytes strm : SB strm -> P_HeaderSafe.wf strm -> avail strm < 1099511627776 ->
    22 * N.of_nat (length (stream_headers mktime strm)) <= avail strm.
  Proof. intros Hs W A. unfold stream_headers. apply bheaders_count_bytes; [exact Hs|exact W|exact A]. Qed.

  (* the archive as a list of bytes, any kind of source *)
  Corollary stream_headers_count_src k data : P_CliRetBytes.bytes_ok data -> nlen data < 1099511627776 ->
    N.of_nat (length (stream_headers mktime (lha_input_stream_new (mk_source k data)))) <= nlen data / 22.
  Proof.
    intros Hb Hl. set (strm := lha_input_stream_new (mk_source k data)).
    assert (Ea : avail strm = nlen data).
    { unfold avail, strm. cbn [lha_input_stream_new is_leadin is_src mk_source so_data]. rewrite nlen_nil. lia. }
    assert (W : P_HeaderSafe.wf strm).
    { unfold P_HeaderSafe.wf, strm. cbn [lha_input_stream_new is_leadin]. rewrite nlen_nil. lia. }
    pose proof (stream_headers_count_bytes strm (new_stream_SB k data Hb) W) as C. rewrite Ea in C. specialize (C Hl).
    apply N.div_le_lower_bound; [discriminate|exact C].
  Qed.

  (* ---------------------------------------------------------------- *)
  (* 3. the members of archive_of ds                                   *)

  Section Pos.
    Variable junk : N.
    Notation positioned := (positioned mktime junk).

    Lemma dd_run_reach out r f chunks r' f' : dd_run junk out r f chunks r' f' -> reach (rd_br r) (rd_br r').
    Proof.
      induction 1 as [r f ev r' E|r f o ev r1 chunks r' f' Ho E Hrun IH].
      - exact (lha_reader_read_reach junk (decoders_use_callback_only_holds junk) _ _ _ _ _ E).
      - eapply reach_trans; [|exact IH].
        exact (lha_reader_read_reach junk (decoders_use_callback_only_holds junk) _ _ _ _ _ E).
    Qed.

    Lemma member_ok_reach r h bs r2 : member_ok junk r h bs r2 -> reach (rd_br r) (rd_br r2).
    Proof.
      intros (ev1 & r1 & chunks & Hop & Hrun & _).
      eapply reach_trans; [|exact (dd_run_reach _ _ _ _ _ _ Hrun)].
      exact (open_decoder_reach junk (decoders_use_callback_only_holds junk) _ _ _ _ _ Hop).
    Qed.

    (* after the first member the basic reader itself (whatever was read of the member's data)
       returns what the description continues with *)
    Lemma positioned_cons_next br m ms : br_wf br -> positioned br (m :: ms) ->
      br_curr br = Some (hdr m) /\
      exists x b2 br2, lha_basic_reader_next_file mktime br = Ok (x, b2) /\
                       breader_equiv br2 b2 /\ br_wf br2 /\ positioned br2 ms.
    Proof.
      intros W Hp. inversion Hp as [|br0 h bs ms0 Hc Hf|br0 h ms0 x br' Hc En Hp']; subst.
      - split; [exact Hc|].
        destruct (Hf (mk_reader br (Some h) CT_NORMAL [] false) eq_refl eq_refl eq_refl) as (r2 & Hm & x & br2 & En & Hp2).
        pose proof (member_ok_reach _ _ _ _ Hm) as Hr. cbn [mk_reader rd_br] in Hr.
        pose proof (reach_wf _ _ Hr W) as W2. destruct Hr as [sizes Er]. rewrite Er in En, W2.
        pose proof (next_file_after_reads mktime br sizes W) as O. rewrite En in O.
        destruct (lha_basic_reader_next_file mktime br) as [[x2 b2]| |] eqn:Eb; cbn [orel] in O; try contradiction.
        destruct O as [Ex Q]. cbn [fst snd] in Ex, Q. subst x2.
        exists x, b2, br2. split; [reflexivity|]. split; [exact Q|]. split; [|exact Hp2].
        exact (next_file_wf mktime _ _ _ W2 En).
      - split; [exact Hc|]. exists x, br', br'. split; [exact En|]. split; [apply breader_equiv_refl|].
        split; [exact (next_file_wf mktime _ _ _ W En)|exact Hp'].
    Qed.

    Lemma positioned_bheaders : forall ms br, positioned br ms ->
      forall b0 x b1 fuel, br_wf b0 -> br_wf br -> lha_basic_reader_next_file mktime b0 = Ok (x, b1) ->
        breader_equiv b1 br -> ravail b0 < N.of_nat fuel -> bheaders mktime fuel b0 = map hdr ms.
    Proof.
      induction ms as [|m ms IH]; intros br Hp b0 x b1 fuel W0 W E Q A.
      - inversion Hp as [br0 Hc| |]; subst.
        destruct (basic_next_curr mktime _ _ _ E) as [Ec _]. destruct Q as (Qc & _).
        assert (Ex : x = None) by congruence. rewrite Ex in E.
        destruct fuel as [|k]; [lia|]. cbn [bheaders]. rewrite E. reflexivity.
      - destruct (positioned_cons_next br m ms W Hp) as (Hc & x' & b2 & br2 & En & Q2 & W2 & Hp2).
        destruct (basic_next_curr mktime _ _ _ E) as [Ec _].
        assert (Ex : x = Some (hdr m)) by (destruct Q as (Qc & _); congruence). rewrite Ex in E. clear Ex Ec.
        destruct fuel as [|k]; [lia|]. cbn [bheaders map]. rewrite E. f_equal.
        pose proof (next_file_wf mktime _ _ _ W0 E) as W1.
        pose proof (next_file_equiv mktime b1 br W1 W Q) as O. rewrite En in O.
        destruct (lha_basic_reader_next_file mktime b1) as [[x3 b3]| |] eqn:E1; cbn [orel] in O; try contradiction.
        destruct O as [Ex Q3]. cbn [fst snd] in Ex, Q3. subst x3.
        apply (IH br2 Hp2 b1 x' b3 k W1 W2 E1).
        + eapply breader_equiv_trans; [exact Q3|apply breader_equiv_sym; exact Q2].
        + destruct W0 as (Ws & _). destruct (basic_next_progress mktime _ _ _ Ws E) as [_ A']. lia.
    Qed.
  End Pos.

  Lemma fetch_new strm : fetch mktime (lha_reader_new strm) =
    ('(_, br') <- lha_basic_reader_next_file mktime (lha_basic_reader_new strm) ;; Ok (br', false)).
  Proof. reflexivity. Qed.

  (* a reader that is new on strm and is about to deliver the members ms: they are the stream's headers *)
  Theorem upcoming_stream_headers junk strm ms : P_HeaderSafe.wf strm -> avail strm < 1099511627776 ->
    upcoming mktime junk (lha_reader_new strm) ms -> stream_headers mktime strm = map hdr ms.
  Proof.
    intros W A (br1 & Hf & Hp). rewrite fetch_new in Hf.
    binv Hf y En. destruct y as [x b1]. injection Hf as <-.
    assert (W0 : br_wf (lha_basic_reader_new strm)).
    { unfold br_wf. cbn [lha_basic_reader_new br_stream br_curr br_eof br_remaining].
      split; [exact W|]. split; [exact A|]. right. reflexivity. }
    unfold stream_headers.
    apply (positioned_bheaders junk ms b1 Hp (lha_basic_reader_new strm) x b1);
      [exact W0|exact (next_file_wf mktime _ _ _ W0 En)|exact En|apply breader_equiv_refl|].
    unfold ravail, avail, nlen. cbn [lha_basic_reader_new br_stream]. lia.
  Qed.

  (* THE MEMBERS OF archive_of ds ARE THE DESCRIBED HEADERS, in order: for every description
     covered by the end-to-end theorems (link targets arbitrary), any kind of source *)
  Theorem stream_headers_of_archive_any k uid0 ds : wf_descs_any uid0 ds -> nlen (archive_of ds) < 1099511627776 ->
    stream_headers mktime (lha_input_stream_new (mk_source k (archive_of ds))) = headers_of ds.
  Proof.
    intros [Hwf _] Hl. rewrite <- ser_items_hdrs.
    apply (upcoming_stream_headers 0); [| |exact (upcoming_archive_any mktime 0 k uid0 ds Hwf)].
    - unfold P_HeaderSafe.wf. cbn [lha_input_stream_new is_leadin]. rewrite nlen_nil. lia.
    - unfold avail. cbn [lha_input_stream_new is_leadin is_src mk_source so_data]. rewrite nlen_nil. lia.
  Qed.

  Corollary stream_headers_of_archive_of k uid0 ds : wf_descs uid0 ds -> nlen (archive_of ds) < 1099511627776 ->
    stream_headers mktime (lha_input_stream_new (mk_source k (archive_of ds))) = headers_of ds.
  Proof. intros H. apply (stream_headers_of_archive_any k uid0). exact (wf_descs_is_any uid0 ds H). Qed.
End All.

(* ------------------------------------------------------------------ *)
(* 4. the headers the extraction loop of the tool obtains               *)

(* with P_CliMembers.presents_are_stream_headers: every header lha_filter_next_file hands to
   the extraction loop -- members, directories and deferred links presented again -- is intact
   and has names that satisfy C11's invariant *)
Corollary presented_headers_ok mktime junk flt st0 strm hd :
  CliExtract.cs_reader st0 = lha_reader_new strm -> P_HeaderSafe.wf strm -> avail strm < 1099511627776 ->
  no_shared_prompt st0 -> P_CliConfineLate.presents mktime junk flt st0 hd ->
  intact hd /\ (forall n, h_filename hd = Some n -> P_Path.name_ok n) /\ (forall p, h_path hd = Some p -> P_Path.path_ok p).
Proof.
  intros Er W A Hn Hp. pose proof (presents_are_stream_headers mktime junk flt st0 strm hd Er W A Hn Hp) as Hin.
  pose proof (stream_headers_intact mktime strm) as Hi. pose proof (stream_headers_names_ok mktime strm) as Hk.
  rewrite Forall_forall in Hi, Hk. split; [exact (Hi hd Hin)|exact (Hk hd Hin)].
Qed.

Print Assumptions stream_headers_returned.
Print Assumptions stream_headers_intact.
Print Assumptions stream_headers_names_ok.
Print Assumptions stream_headers_count.
Print Assumptions stream_headers_count_bytes.
Print Assumptions stream_headers_count_src.
Print Assumptions upcoming_stream_headers.
Print Assumptions stream_headers_of_archive_any.
Print Assumptions stream_headers_of_archive_of.
Print Assumptions presented_headers_ok.

(* P_CapConfine.v -- C10 END TO END, from archive BYTES: for every tree-shaped
   description ds whose symbolic links may point ANYWHERE (S_CapAny.wf_descs_any:
   S_Capstone.wf_descs without "the target is relative and free of '..'"),
   "lha x /arc/a.lzh" on the bytes archive_of ds returns, every operation it
   performs -- the creation of the deferred, dangerous links at the end included --
   resolves below the extraction directory, and every symbolic link below it at the
   end is a link of the description, at its own path, with its own target.

   Why the side condition of the whole-run theorem (P_CliConfineLate.
   no_link_through_safe) holds by itself: in a tree whose names are distinct inside
   each directory a link is a leaf; the path of a link member is a proper prefix of
   no member's path (links_are_leaves).  The known escape
   (Properties_C10.confinement_refuted) needs the same name twice.
   The headers the extraction loop obtains are the members' (P_CapAnyRun.cli_run_any),
   parsed back from the bytes by the header round trip. *)
From Lhasa Require Import Base ListN Loop Generated InputStream Header BasicReader Fs FsRun Reader Glob ListOut
  CliFilter CliExtract CliMain P_FsExtract P_CliExtract P_CliTree
  S_Capstone P_CapHeader P_CapItems P_Capstone P_CapCli S_CapAny P_CapAnyRun
  P_CliSafe P_FsConfine P_CliPath P_FsLinks P_CliPathLen P_CliConfineLate.
From Coq Require Import Lia.
Local Open Scope N_scope.

Set Default Timeout 300.

(* ------------------------------------------------------------------ *)
(* 1. where the members are extracted                                   *)

Lemma plain_x_opts : plain_opts x_opts.
Proof. repeat split. Qed.

Lemma ploc_good comps : Forall good_name comps -> ploc comps = comps.
Proof.
  induction 1 as [|c r (_ & _ & Hd & _) _ IH]; [reflexivity|].
  unfold ploc in *. cbn [filter]. rewrite Hd. cbn [negb]. rewrite IH. reflexivity.
Qed.

Lemma good_snoc dl c : Forall good_name dl -> good_name c -> Forall good_name (dl ++ [c]).
Proof. intros A B. apply Forall_app. split; [exact A|constructor; [exact B|constructor]]. Qed.

Lemma pcomps_file dl c m t bs : Forall good_name dl -> good_name c ->
  pcomps x_opts (file_header dl c m t bs) = dl ++ [c].
Proof.
  intros Hdl Hc. unfold pcomps, pnames.
  rewrite (full_path_eq _ x_opts dl plain_x_opts Hdl) by (cbn [h_path file_header mk_header]; apply opt_str_opt_of).
  cbn [h_filename file_header mk_header]. rewrite (skip_slashes_name c Hc), (split_path_file dl c Hdl Hc).
  apply ploc_good. apply good_snoc; assumption.
Qed.

Lemma pcomps_link dl c t tgt : Forall good_name dl -> good_name c ->
  pcomps x_opts (link_header dl c t tgt) = dl ++ [c].
Proof.
  intros Hdl Hc. unfold pcomps, pnames.
  rewrite (full_path_eq _ x_opts dl plain_x_opts Hdl) by (cbn [h_path link_header mk_header]; apply opt_str_opt_of).
  cbn [h_filename link_header mk_header]. rewrite (skip_slashes_name c Hc), (split_path_file dl c Hdl Hc).
  apply ploc_good. apply good_snoc; assumption.
Qed.

Lemma pcomps_dir dl c m t : Forall good_name dl -> good_name c ->
  pcomps x_opts (dir_header dl c m t) = dl ++ [c].
Proof.
  intros Hdl Hc. pose proof (good_snoc dl c Hdl Hc) as Hg. unfold pcomps, pnames.
  rewrite (full_path_eq _ x_opts (dl ++ [c]) plain_x_opts Hg) by reflexivity.
  cbn [h_filename dir_header mk_header]. rewrite app_nil_r, (split_path_dir _ Hg).
  apply ploc_good. exact Hg.
Qed.

(* ------------------------------------------------------------------ *)
(* 2. a link is a leaf                                                  *)

Lemma wf_any_name uid0 dl d : wf_desc_any uid0 dl d -> good_name (dname d).
Proof. destruct d; cbn [wf_desc_any dname]; intros (H & _); apply H. Qed.

(* every header of d stands at or below dl/name(d) *)
Lemma hdrs_below uid0 : forall d dl h, Forall good_name dl -> wf_desc_any uid0 dl d -> In h (hdrs_of dl d) ->
  exists q, pcomps x_opts h = dl ++ dname d :: q.
Proof.
  induction d as [c m t bs|c t tgt|c m t sub IH] using desc_ind'; intros dl h Hdl Hwf Hin;
    pose proof (wf_any_name uid0 dl _ Hwf) as Hc; cbn [dname] in *; cbn [hdrs_of] in Hin.
  - destruct Hin as [<-|[]]. exists []. apply pcomps_file; assumption.
  - destruct Hin as [<-|[]]. exists []. apply pcomps_link; assumption.
  - destruct Hin as [<-|Hin]; [exists []; apply pcomps_dir; assumption|].
    cbn [wf_desc_any] in Hwf. destruct Hwf as (_ & _ & _ & _ & _ & Hall). apply wf_desc_any_all in Hall.
    apply in_flat_map in Hin. destruct Hin as (x & Hx & Hh). rewrite Forall_forall in IH, Hall.
    destruct (IH x Hx (dl ++ [c]) h (good_snoc dl c Hdl Hc) (Hall x Hx) Hh) as (q & Eq).
    exists (dname x :: q). rewrite Eq, <- app_assoc. reflexivity.
Qed.

Lemma NoDup_map_inj {A B} (g : A -> B) l x y : NoDup (map g l) -> In x l -> In y l -> g x = g y -> x = y.
Proof.
  induction l as [|a l IH]; intros Hnd Hx Hy E; [destruct Hx|].
  cbn [map] in Hnd. inversion Hnd as [|b l' Hnin Hnd']; subst.
  destruct Hx as [->|Hx], Hy as [->|Hy]; try reflexivity.
  - exfalso. apply Hnin. rewrite E. apply in_map. exact Hy.
  - exfalso. apply Hnin. rewrite <- E. apply in_map. exact Hx.
  - apply IH; assumption.
Qed.

Lemma proper_prefix_irrefl {A} (a : list A) : ~ proper_prefix a a.
Proof.
  intros (x & y & E). apply (f_equal (@length A)) in E. rewrite app_length in E. cbn [length] in E. lia.
Qed.

Lemma proper_prefix_shorter {A} (a b : list A) : proper_prefix a b -> (length a < length b)%nat.
Proof. intros (x & y & ->). rewrite app_length. cbn [length]. lia. Qed.

Lemma proper_prefix_head {A} (z : list A) a q1 b q2 : proper_prefix (z ++ a :: q1) (z ++ b :: q2) -> a = b.
Proof.
  intros (x & y & E). rewrite <- app_assoc in E. apply app_inv_head in E. cbn [app] in E. injection E as E _. symmetry. exact E.
Qed.

(* among the headers of sibling descriptions with distinct names *)
Lemma siblings_leaves uid0 dl l : Forall good_name dl -> NoDup (map dname l) -> Forall (wf_desc_any uid0 dl) l ->
  (forall x, In x l -> forall L M, In L (hdrs_of dl x) -> In M (hdrs_of dl x) -> has_target L ->
             ~ proper_prefix (pcomps x_opts L) (pcomps x_opts M)) ->
  forall L M, In L (flat_map (hdrs_of dl) l) -> In M (flat_map (hdrs_of dl) l) -> has_target L ->
              ~ proper_prefix (pcomps x_opts L) (pcomps x_opts M).
Proof.
  intros Hdl Hnd Hwf Hone L M HL HM HT Hpp. rewrite Forall_forall in Hwf.
  apply in_flat_map in HL. destruct HL as (x & Hx & HL). apply in_flat_map in HM. destruct HM as (y & Hy & HM).
  destruct (hdrs_below uid0 x dl L Hdl (Hwf x Hx) HL) as (q1 & E1).
  destruct (hdrs_below uid0 y dl M Hdl (Hwf y Hy) HM) as (q2 & E2).
  rewrite E1, E2 in Hpp. pose proof (proper_prefix_head _ _ _ _ _ Hpp) as En.
  assert (x = y) by (eapply NoDup_map_inj; eauto). subst y.
  apply (Hone x Hx L M HL HM HT). rewrite E1, E2. exact Hpp.
Qed.

Lemma leaves_one uid0 : forall d dl, Forall good_name dl -> wf_desc_any uid0 dl d ->
  forall L M, In L (hdrs_of dl d) -> In M (hdrs_of dl d) -> has_target L ->
              ~ proper_prefix (pcomps x_opts L) (pcomps x_opts M).
Proof.
  induction d as [c m t bs|c t tgt|c m t sub IH] using desc_ind'; intros dl Hdl Hwf L M HL HM HT;
    pose proof (wf_any_name uid0 dl _ Hwf) as Hc; cbn [dname] in Hc; cbn [hdrs_of] in HL, HM.
  - destruct HL as [<-|[]]. destruct HT as [x Hx]. discriminate.
  - destruct HL as [<-|[]]. destruct HM as [<-|[]]. apply proper_prefix_irrefl.
  - cbn [wf_desc_any] in Hwf. destruct Hwf as (_ & _ & _ & _ & Hnd & Hall). apply wf_desc_any_all in Hall.
    pose proof (good_snoc dl c Hdl Hc) as Hg.
    destruct HL as [<-|HL]; [destruct HT as [x Hx]; discriminate|].
    destruct HM as [<-|HM].
    + (* the directory's own header is shorter *)
      intros Hpp. apply proper_prefix_shorter in Hpp. rewrite (pcomps_dir dl c m t Hdl Hc) in Hpp.
      apply in_flat_map in HL. destruct HL as (x & Hx & HL). rewrite Forall_forall in Hall.
      destruct (hdrs_below uid0 x (dl ++ [c]) L Hg (Hall x Hx) HL) as (q & E). rewrite E in Hpp.
      rewrite !app_length in Hpp. cbn [length] in Hpp. lia.
    + apply (siblings_leaves uid0 (dl ++ [c]) sub Hg Hnd Hall); try assumption.
      intros x Hx. rewrite Forall_forall in IH, Hall. apply IH; [exact Hx|exact Hg|apply Hall; exact Hx].
Qed.

(* THE POINT: in a tree-shaped description no member is extracted through a link member *)
Theorem links_are_leaves uid0 ds : wf_descs_any uid0 ds ->
  forall L M, member_of ds L -> member_of ds M -> has_target L ->
              ~ proper_prefix (pcomps x_opts L) (pcomps x_opts M).
Proof.
  intros [Hwf Hnd]. unfold member_of, headers_of.
  apply (siblings_leaves uid0 [] ds (Forall_nil _) Hnd Hwf).
  intros x Hx. apply (leaves_one uid0); [constructor|]. rewrite Forall_forall in Hwf. apply Hwf. exact Hx.
Qed.

Corollary no_link_through_safe_members uid0 ds : wf_descs_any uid0 ds ->
  no_link_through_safe x_opts (member_of ds).
Proof.
  intros Hwf L M HL HM (t & Et & _) _. apply (links_are_leaves uid0 ds Hwf L M HL HM). exists t. exact Et.
Qed.

(* a link member is a described link *)
Lemma link_member_described uid0 : forall d dl L t, Forall good_name dl -> wf_desc_any uid0 dl d ->
  In L (hdrs_of dl d) -> h_symlink_target L = Some t -> In (pcomps x_opts L, t) (dlinks dl d).
Proof.
  induction d as [c m t0 bs|c t0 tgt|c m t0 sub IH] using desc_ind'; intros dl L t Hdl Hwf HL Ht;
    pose proof (wf_any_name uid0 dl _ Hwf) as Hc; cbn [dname] in Hc; cbn [hdrs_of] in HL; cbn [dlinks].
  - destruct HL as [<-|[]]. discriminate.
  - destruct HL as [<-|[]]. cbn [h_symlink_target link_header mk_header] in Ht. injection Ht as <-.
    left. rewrite (pcomps_link dl c t0 tgt Hdl Hc). reflexivity.
  - destruct HL as [<-|HL]; [discriminate|].
    cbn [wf_desc_any] in Hwf. destruct Hwf as (_ & _ & _ & _ & _ & Hall). apply wf_desc_any_all in Hall.
    apply in_flat_map in HL. destruct HL as (x & Hx & HL). apply in_flat_map. exists x. split; [exact Hx|].
    rewrite Forall_forall in IH, Hall. apply IH; [exact Hx|apply good_snoc; assumption|apply Hall; exact Hx|exact HL|exact Ht].
Qed.

Lemma link_member_described_top uid0 ds L t : wf_descs_any uid0 ds -> member_of ds L -> h_symlink_target L = Some t ->
  In (pcomps x_opts L, t) (links_of_descs ds).
Proof.
  intros [Hwf _] HL Ht. unfold member_of, headers_of in HL. apply in_flat_map in HL. destruct HL as (x & Hx & HL).
  apply in_flat_map. exists x. split; [exact Hx|]. rewrite Forall_forall in Hwf.
  apply (link_member_described uid0 x [] L t (Forall_nil _) (Hwf x Hx) HL Ht).
Qed.

(* ------------------------------------------------------------------ *)
(* 3. the test filesystem                                               *)

Lemma fs0_no_links uid0 A mt : no_links_below [bytes_root] (fs_root (fs0 uid0 A mt)).
Proof.
  unfold no_links_below. apply gtree_of_links.
  assert (E : links_of [] (fs_root (fs0 uid0 A mt)) = []) by (unfold fs0; destruct uid0; vm_compute; reflexivity).
  rewrite E. intros l t [].
Qed.

Lemma fs0_trace uid0 A mt : fs_trace (fs0 uid0 A mt) = [].
Proof. unfold fs0. apply cli_fs_init_trace. Qed.

Lemma good_w_x : good_w x_opts.
Proof. exact I. Qed.

(* ------------------------------------------------------------------ *)
(* 4. the theorem                                                       *)

Section E2E.
  Variable mktime : N -> N -> N -> N -> Z -> N -> N.
  Variable localtime : N -> tm.
  Variable strerror : bool -> list N.

  (* the headers the loop presents are members: the hypothesis of the whole-run theorem, discharged
     from the bytes *)
  Theorem presents_members uid0 mt ds : wf_descs_any uid0 ds -> N.of_nat (2 * dsizes ds) < 2 ^ 40 ->
    forall hd, presents mktime 0 x_filter (x_state uid0 (archive_of ds) mt) hd -> member_of ds hd.
  Proof.
    intros Hwf Hsz hd (n & b & st & st1 & Hit & Hn).
    destruct (cli_run_any mktime localtime strerror uid0 0 mt ds Hwf Hsz) as (_ & _ & _ & _ & _ & _ & _ & Hp).
    exact (Hp n b st hd st1 Hit Hn).
  Qed.

  Theorem e2e_confined_members uid0 tnow mt ds :
    wf_descs_any uid0 ds -> N.of_nat (2 * dsizes ds) < 2 ^ 40 ->
    exists r, cli_run mktime localtime strerror uid0 tnow mt argv_x (archive_of ds) [] [] = Ok r /\
      (cr_exit r = 0 \/ cr_exit r = 1) /\
      (forall op, In op (fs_trace (cr_fs r)) -> below_op [bytes_root] op) /\
      links_are_members [bytes_root] x_opts (member_of ds) (fs_root (cr_fs r)).
  Proof.
    intros Hwf Hsz.
    destruct (cli_run_any mktime localtime strerror uid0 tnow mt ds Hwf Hsz) as (r & b & st' & Hr & Hex & Hfs & Hexit & _).
    exists r. split; [exact Hr|]. split; [rewrite Hexit; destruct b; [left|right]; reflexivity|].
    destruct (extract_confined_whole mktime 0 [bytes_root] x_opts good_w_x (member_of ds) x_filter
                (x_state uid0 (archive_of ds) mt) (lha_input_stream_new (mk_source KFile (archive_of ds))) (RVal b) st')
      as [(new & En & Hnew) Hlinks].
    - apply fs0_cwd.
    - apply fs0_no_links.
    - reflexivity.
    - reflexivity.
    - apply presents_members; assumption.
    - apply (no_link_through_safe_members uid0). exact Hwf.
    - exact Hex.
    - rewrite Hfs. split; [|exact Hlinks].
      cbn [cs_fs x_state] in En. rewrite fs0_trace, app_nil_r in En. rewrite En. exact Hnew.
  Qed.

  (* THE END-TO-END CONFINEMENT THEOREM *)
  Theorem e2e_confined uid0 tnow mt ds :
    wf_descs_any uid0 ds -> N.of_nat (2 * dsizes ds) < 2 ^ 40 ->
    exists r, cli_run mktime localtime strerror uid0 tnow mt argv_x (archive_of ds) [] [] = Ok r /\
      (cr_exit r = 0 \/ cr_exit r = 1) /\
      (forall op, In op (fs_trace (cr_fs r)) -> below_op [bytes_root] op) /\
      (forall suf t, Fs.node_at (fs_root (cr_fs r)) (bytes_root :: suf) = Some (Link t) -> In (suf, t) (links_of_descs ds)).
  Proof.
    intros Hwf Hsz. destruct (e2e_confined_members uid0 tnow mt ds Hwf Hsz) as (r & Hr & He & Hops & Hl).
    exists r. split; [exact Hr|]. split; [exact He|]. split; [exact Hops|].
    intros suf t Hn. destruct (Hl suf t Hn) as (L & HL & Ht & <-).
    apply (link_member_described_top uid0); assumption.
  Qed.

  Corollary e2e_confined_by_size uid0 tnow mt ds :
    wf_descs_any uid0 ds -> nlen (archive_of ds) < 2 ^ 39 ->
    exists r, cli_run mktime localtime strerror uid0 tnow mt argv_x (archive_of ds) [] [] = Ok r /\
      (cr_exit r = 0 \/ cr_exit r = 1) /\
      (forall op, In op (fs_trace (cr_fs r)) -> below_op [bytes_root] op) /\
      (forall suf t, Fs.node_at (fs_root (cr_fs r)) (bytes_root :: suf) = Some (Link t) -> In (suf, t) (links_of_descs ds)).
  Proof.
    intros Hwf Hsz. apply e2e_confined; [exact Hwf|]. pose proof (dsizes_le_archive ds).
    assert (E : 2 ^ 40 = 2 * 2 ^ 39) by reflexivity. rewrite E. lia.
  Qed.
End E2E.

Print Assumptions links_are_leaves.
Print Assumptions no_link_through_safe_members.
Print Assumptions presents_members.
Print Assumptions e2e_confined_members.
Print Assumptions e2e_confined.
Print Assumptions e2e_confined_by_size.

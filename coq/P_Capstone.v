(* P_Capstone.v -- from archive BYTES to the extracted TREE.

   [upcoming_archive_of]: the reader made for the bytes archive_of ds (any kind
   of source) delivers exactly the headers of the description, in order, and
   every file decodes to its bytes with matching length and CRC -- by the header
   round trip (C05), the reader's bookkeeping (P_CapReader) and the stored-method
   decoder (P_CapMember).
   [extract_archive_of]: composition with P_CliTree.extract_archive_reproduces_tree.
   [cli_run_archive_of]: "lha x /arc/a.lzh" on the test filesystem whose archive
   file holds archive_of ds exits with status 0 and leaves exactly trees_of ds in
   the extraction directory. *)
From Lhasa Require Import Base ListN DecBase Loop Generated Crc16 P_Crc16 InputStream Header S_Header BasicReader
  AnyDecoder Decoder MacBinary Fs FsRun Reader P_Header
  P_ReaderCheck P_ReaderExtract Glob ListOut CliFilter CliExtract CliMain P_FsExtract P_CliExtract P_CliTree
  S_Capstone P_CapHeader P_CapItems P_CapMember P_CapReader.
From Coq Require Import ZifyBool ZifyN ZifyNat.
Local Open Scope N_scope.

Set Default Timeout 300.

(* the segments of a description *)
Fixpoint segs_of (dl : list name) (d : desc) : list seg :=
  match d with
  | DFile c m t bs => [{| sg_f := file_fields dl c m t bs; sg_h := file_header dl c m t bs; sg_data := Some bs |}]
  | DLink c t tgt => [{| sg_f := link_fields dl c t tgt; sg_h := link_header dl c t tgt; sg_data := None |}]
  | DDir c m t sub =>
    {| sg_f := dir_fields dl c m t; sg_h := dir_header dl c m t; sg_data := None |} :: flat_map (segs_of (dl ++ [c])) sub
  end.

Lemma flat_map_ext_in {A B} (f g : A -> list B) l : (forall x, In x l -> f x = g x) -> flat_map f l = flat_map g l.
Proof.
  induction l as [|x l IH]; intros H; [reflexivity|]. cbn [flat_map].
  rewrite (H x (or_introl eq_refl)), IH; [reflexivity|]. intros y Hy. apply H. right. exact Hy.
Qed.

Lemma concat_flat_map {A B C} (f : A -> list B) (g : B -> list C) l :
  concat (map g (flat_map f l)) = flat_map (fun x => concat (map g (f x))) l.
Proof. induction l as [|x l IH]; [reflexivity|]. cbn [flat_map]. rewrite map_app, concat_app, IH. reflexivity. Qed.

Lemma map_flat_map {A B C} (f : A -> list B) (g : B -> C) l :
  map g (flat_map f l) = flat_map (fun x => map g (f x)) l.
Proof. induction l as [|x l IH]; [reflexivity|]. cbn [flat_map]. rewrite map_app, IH. reflexivity. Qed.

Lemma flat_map_map {A B C} (f : A -> B) (g : B -> list C) l : flat_map g (map f l) = flat_map (fun x => g (f x)) l.
Proof. induction l as [|x l IH]; [reflexivity|]. cbn [map flat_map]. rewrite IH. reflexivity. Qed.

Lemma segs_bytes_enc : forall d dl, concat (map seg_bytes (segs_of dl d)) = enc dl d.
Proof.
  induction d as [c m t bs|c t tgt|c m t sub IH] using desc_ind'; intros dl; cbn [segs_of enc map concat].
  - unfold seg_bytes, seg_data. cbn [sg_f sg_data]. rewrite app_nil_r. reflexivity.
  - unfold seg_bytes, seg_data. cbn [sg_f sg_data]. rewrite !app_nil_r. reflexivity.
  - unfold seg_bytes at 1, seg_data. cbn [sg_f sg_data]. rewrite app_nil_r. f_equal.
    rewrite concat_flat_map. apply flat_map_ext_in. intros d Hin. rewrite Forall_forall in IH. apply IH. exact Hin.
Qed.

Lemma segs_mem_ser : forall d dl, map seg_mem (segs_of dl d) = ser (item_of dl d).
Proof.
  induction d as [c m t bs|c t tgt|c m t sub IH] using desc_ind'; intros dl; cbn [segs_of item_of ser map]; try reflexivity.
  unfold seg_mem at 1. cbn [sg_data sg_h]. f_equal.
  rewrite map_flat_map, flat_map_map. apply flat_map_ext_in. intros d Hin. rewrite Forall_forall in IH. apply IH. exact Hin.
Qed.

Lemma archive_of_segs ds : segs_bytes (flat_map (segs_of []) ds) = archive_of ds.
Proof.
  unfold segs_bytes, archive_of. f_equal. rewrite concat_flat_map. apply flat_map_ext_in. intros d _. apply segs_bytes_enc.
Qed.

Lemma ser_items_segs ds : map seg_mem (flat_map (segs_of []) ds) = flat_map ser (items_of ds).
Proof.
  unfold items_of. rewrite map_flat_map, flat_map_map. apply flat_map_ext_in. intros d _. apply segs_mem_ser.
Qed.

Section Capstone.
  Variable mktime : N -> N -> N -> N -> Z -> N -> N.
  Variable junk : N.

  Lemma segs_ok uid0 : forall d dl, Forall name_ok dl -> wf_desc uid0 dl d -> Forall (seg_ok mktime) (segs_of dl d).
  Proof.
    induction d as [c m t bs|c t tgt|c m t sub IH] using desc_ind'; intros dl Hdl H; cbn [wf_desc segs_of] in *.
    - destruct H as (Hc & Hlen & Hm & Ht & Hbl & Hb & _). constructor; [|constructor].
      unfold seg_ok. cbn [sg_f sg_h sg_data].
      split; [apply wf_file_fields; assumption|]. split; [apply norm_file; assumption|].
      split; [reflexivity|]. split; [left; reflexivity|]. split; [reflexivity|].
      split; [reflexivity|]. split; [reflexivity|]. split; [reflexivity|].
      split; [|exact Hbl]. cbn [h_crc file_header mk_header file_fields mk_fields f_crc].
      apply crc16_is_arc_proof; [lia|exact Hb].
    - destruct H as (Hc & Hlen & Ht & Hne & Htl & Htb & _). constructor; [|constructor].
      unfold seg_ok. cbn [sg_f sg_h sg_data].
      split; [apply wf_link_fields; assumption|]. split; [apply norm_link; assumption|].
      split; [reflexivity|]. split; [right; reflexivity|]. split; [reflexivity|exact I].
    - destruct H as (Hc & Hlen & Hm & Ht & _ & Hall). apply wf_desc_all in Hall. constructor.
      + unfold seg_ok. cbn [sg_f sg_h sg_data].
        split; [apply wf_dir_fields; assumption|]. split; [apply norm_dir; assumption|].
        split; [reflexivity|]. split; [right; reflexivity|]. split; [reflexivity|exact I].
      + assert (Hdl' : Forall name_ok (dl ++ [c])) by (apply Forall_app; split; [exact Hdl|constructor; [exact Hc|constructor]]).
        apply Forall_forall. intros s Hin. apply in_flat_map in Hin. destruct Hin as (d & Hd & Hs).
        rewrite Forall_forall in IH, Hall.
        pose proof (IH d Hd (dl ++ [c]) Hdl' (Hall d Hd)) as Hok. rewrite Forall_forall in Hok. apply Hok. exact Hs.
  Qed.

  (* step 2: the reader delivers the description *)
  Theorem upcoming_archive_of k uid0 ds : Forall (wf_desc uid0 []) ds ->
    upcoming mktime junk (lha_reader_new (lha_input_stream_new (mk_source k (archive_of ds)))) (flat_map ser (items_of ds)).
  Proof.
    intros H. rewrite <- archive_of_segs, <- ser_items_segs. apply upcoming_segs.
    rewrite Forall_forall in *. intros s Hin. apply in_flat_map in Hin. destruct Hin as (d & Hd & Hs).
    pose proof (segs_ok uid0 d [] (Forall_nil _) (H d Hd)) as Hok. rewrite Forall_forall in Hok. apply Hok. exact Hs.
  Qed.
End Capstone.


(* ------------------------------------------------------------------ *)
(* step 3: extraction *)

(* iterations of the extraction loop: a directory is presented twice *)
Fixpoint dsize (d : desc) : nat :=
  match d with
  | DDir _ _ _ sub => S (S (fold_right (fun x a => dsize x + a)%nat O sub))
  | _ => 1%nat
  end.
Definition dsizes (ds : list desc) : nat := fold_right (fun x a => dsize x + a)%nat O ds.

Lemma size_item_of : forall d dl, size (item_of dl d) = dsize d.
Proof.
  induction d as [c m t bs|c t tgt|c m t sub IH] using desc_ind'; intros dl; cbn [item_of size dsize]; try reflexivity.
  do 2 f_equal. induction sub as [|x sub IHs]; [reflexivity|]. inversion IH as [|x0 l0 Hx Hsub]; subst.
  cbn [map fold_right]. rewrite Hx, (IHs Hsub). reflexivity.
Qed.

Lemma sizes_items_of ds : sizes (items_of ds) = dsizes ds.
Proof.
  unfold sizes, items_of, dsizes. induction ds as [|d ds IH]; [reflexivity|].
  cbn [map fold_right]. rewrite size_item_of, IH. reflexivity.
Qed.

(* the loop bound follows from the size of the archive: every entry has a header *)
Lemma enc_header_len f : f_level f = 2 -> 2 <= nlen (encode_header f).
Proof.
  intros H. destruct (enc_head f H) as (a & b & Y & E & _). rewrite E, !nlen_cons. lia.
Qed.

Lemma dsize_le_enc : forall d dl, N.of_nat (dsize d) <= nlen (enc dl d).
Proof.
  induction d as [c m t bs|c t tgt|c m t sub IH] using desc_ind'; intros dl; cbn [dsize enc].
  - rewrite nlen_app. pose proof (enc_header_len (file_fields dl c m t bs) eq_refl). lia.
  - pose proof (enc_header_len (link_fields dl c t tgt) eq_refl). lia.
  - rewrite nlen_app. pose proof (enc_header_len (dir_fields dl c m t) eq_refl) as H2.
    assert (Hs : N.of_nat (fold_right (fun x a => dsize x + a)%nat O sub) <= nlen (flat_map (enc (dl ++ [c])) sub)).
    { induction sub as [|x sub IHs]; [cbn; lia|]. inversion IH as [|x0 l0 Hx Hsub]; subst.
      cbn [fold_right flat_map]. rewrite nlen_app. specialize (Hx (dl ++ [c])). specialize (IHs Hsub). lia. }
    lia.
Qed.

Lemma dsizes_le_archive ds : N.of_nat (dsizes ds) <= nlen (archive_of ds).
Proof.
  unfold dsizes, archive_of. rewrite nlen_app.
  assert (Hs : N.of_nat (fold_right (fun x a => dsize x + a)%nat O ds) <= nlen (flat_map (enc []) ds)).
  { induction ds as [|x ds IHs]; [cbn; lia|]. cbn [fold_right flat_map]. rewrite nlen_app.
    pose proof (dsize_le_enc x []). lia. }
  lia.
Qed.

Section Extract.
  Variable mktime : N -> N -> N -> N -> Z -> N -> N.
  Variable junk : N.

  (* "lha x" (no patterns) started on a fresh reader over the bytes archive_of ds, into a
     ready directory that has none of the top-level names: success, and the directory
     holds its old entries followed by exactly the described tree *)
  Theorem extract_archive_of (f : lha_filter) k u uid0 ds st o pm t ents :
    let s := cs_fs st in
    f_filters f = [] -> umask_ok u -> wf_descs uid0 ds ->
    cs_reader st = lha_reader_new (lha_input_stream_new (mk_source k (archive_of ds))) ->
    (forall c, In c (map dname ds) -> lookup ents c = None) ->
    plain_opts (cs_opts st) -> fs_umask s = u -> fs_uid0 s = uid0 ->
    dir_ready s [] o pm t ents -> N.land pm 1024 = 0 ->
    N.of_nat (dsizes ds) < 2 ^ 40 ->
    exists st', extract_archive mktime junk f st = Ok (RVal true, st') /\
      same_env s (cs_fs st') /\
      match ds with
      | [] => cs_fs st' = s
      | _ => fs_root (cs_fs st') = update_at (fs_root s) (fs_cwd s) (const_some (Dir o pm Fs.now (ents ++ trees_of ds)))
      end.
  Proof.
    intros s Hf Hu Hwf Hrd Hfresh Hopts Hum Huid Hready Hsg Hsz.
    destruct (wf_items_of u uid0 ds Hwf) as [Hit Hnd].
    destruct (extract_archive_reproduces_tree mktime junk f Hf u uid0 Hu (items_of ds) st o pm t ents) as (st' & Hex & Henv & Hroot);
      try assumption.
    - unfold items_of. rewrite map_iname_items. exact Hfresh.
    - rewrite Hrd. repeat split. discriminate.
    - rewrite Hrd. apply (upcoming_archive_of mktime junk k uid0). apply Hwf.
    - rewrite sizes_items_of. exact Hsz.
    - exists st'. split; [exact Hex|]. split; [exact Henv|].
      destruct ds as [|d ds']; [exact Hroot|].
      change (items_of (d :: ds')) with (item_of [] d :: items_of ds') in Hroot.
      change (item_of [] d :: items_of ds') with (items_of (d :: ds')) in Hroot.
      rewrite (builds_items_of u uid0 (d :: ds')) in Hroot by apply Hwf. exact Hroot.
  Qed.
End Extract.

Print Assumptions upcoming_archive_of.
Print Assumptions extract_archive_of.

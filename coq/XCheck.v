(* XCheck.v -- a fixed slice of model evaluations whose result is computed twice
   on every thorough run: by vm_compute inside coqc and by the extracted OCaml
   program (handler `xcheck`).  Equal output is evidence that extraction and the
   OCaml build preserve the meaning of the model functions it covers: the CRC,
   every decoder through the decoder API (on streams made by the specification
   encoders), the header parser and the reader's check verdict. *)
From Lhasa Require Import Base ListN DecBase Generated Crc16 Decoder P_Decoder Null Lzs Lz5 Lh1 Lzhuf LhNew
  PmaCommon Pm1 Pm2 S_Larc S_LhNew S_Pm.
Local Open Scope N_scope.

Definition xsrc (bs : list N) : src := {| src_data := bs; src_chunks := [] |}.

(* decode [stream] declared [len] bytes long with read sizes [ks]; 999999 marks a failure *)
Definition xrun {st : Type} (dread : st -> src -> outcome (list N * st * src)) (max_read block_size : N)
  (init : outcome st) (stream : list N) (len : N) (ks : list N) : list N :=
  match init with
  | Ok s0 =>
    match run_reads dread max_read block_size (lha_decoder_new s0 (xsrc stream) len) ks with
    | Ok (os, d) => concat os ++ [lha_decoder_get_length d; lha_decoder_get_crc d]
    | _ => [999999]
    end
  | _ => [999999]
  end.

Definition x_text : list N := [104; 101; 108; 108; 111; 32; 119; 111; 114; 108; 100; 10; 104; 101; 108; 108; 111].

Definition x_larc : list acmd := [ALit 65; ALit 66; ACopy 2030 5; ALit 67; ACopy 0 17; ALit 10].
Definition x_lz77 : list S_LhNew.cmd :=
  map S_LhNew.Lit x_text ++ [S_LhNew.Copy 4 9; S_LhNew.Lit 33; S_LhNew.Copy 0 40; S_LhNew.Copy 16 3].
Definition x_lzhuf : list Lzhuf.cmd :=
  map Lzhuf.Lit x_text ++ [Lzhuf.Copy 4 9; Lzhuf.Lit 33; Lzhuf.Copy 0 40; Lzhuf.Copy 16 3].
Definition x_pm : list pcmd := map PByte x_text ++ [PCopy 4 9; PByte 33; PCopy 0 40; PCopy 16 3; PByte 200].

Definition xcheck_all : list (list N) :=
  [ [lha_crc16_buf 0 x_text; lha_crc16_buf 4660 (x_text ++ [255; 0; 128]); crc_bitwise 0 x_text];
    xrun (null_read src_cb) null_max_read null_block_size null_init x_text 12 [5; 0; 100];
    xrun (lzs_read src_cb) lzs_max_read lzs_block_size lzs_init (lzs_serialise x_larc) (nlen (lzs_expand x_larc)) [3; 1000];
    xrun (lz5_read src_cb 0) lz5_max_read lz5_block_size lz5_init (lz5_serialise x_larc [true; false]) (nlen (lz5_expand x_larc)) [1; 1000];
    xrun (lh1_read src_cb) lh1_max_read lh1_block_size lh1_init (bits_to_bytes (lzhuf_encode x_lzhuf)) 70 [7; 1000];
    xrun (lh5_read src_cb) lh5_max_read lh5_block_size lh5_init
         (serialise_bytes v_lh5 (auto_stream v_lh5 x_lz77 [])) 70 [64; 1000];
    xrun (lh7_read src_cb) lh7_max_read lh7_block_size lh7_init
         (serialise_bytes v_lh7 (auto_stream v_lh7 x_lz77 [3])) 70 [1000];
    xrun (lk7_read src_cb) lk7_max_read lk7_block_size lk7_init
         (serialise_bytes v_lk7 (auto_stream v_lk7 x_lz77 [])) 70 [2; 1000];
    xrun (pm2_read src_cb) pm2_max_read pm2_block_size pm2_init (pm2_serialise (pm2_auto 0 x_pm)) (nlen (pm2_denote (pm2_auto 0 x_pm))) [9; 1000];
    xrun (pm1_read src_cb) pm1_max_read pm1_block_size pm1_init (pm1_serialise (pm1_auto 0 x_pm)) (nlen (pm1_denote (pm1_auto 0 x_pm))) [1000] ].


(* P_Pm1RtLit.v -- C04, -pm1- half, layer 2: the specification's bit string
   and output in forward form, the simulation relation between decoder state
   and specification state, and the literal side of the decoder:

     pm1_bits_fwd        : pm1_bits d = header ++ items_fwd ...
     pm1_denote_fwd      : pm1_denote d = items_out pst0 (p1_items d)
     core hdr s st       : ring buffer / ring position / output position /
                           history list / selected tree of decoder state s
                           represent the specification state st
     tree_walk_decodes   : (deliverable a) for every start header 0..31 and
                           every class the header's tree reaches,
                           read_byte_decode_index consumes exactly the
                           specification's code of the class and returns it
     read_byte_z         : one literal
     byte_block_loop_z   : a block of literals *)
From Lhasa Require Import Base ListN DecBase BitReader Loop Sweep PmaCommon Generated Pm1
  S_Larc S_Pm P_BitReader P_PmaCommon P_Pm1 P_Pm1RtBits.
From Coq Require Import ZifyBool ZifyN ZifyNat.
Local Open Scope N_scope.

Ltac Zify.zify_post_hook ::= Z.div_mod_to_equations.

(* ------------------------------------------------------------------ *)
(* A. The specification, forwards                                      *)

Definition pst_bytes (st : pst) (bs : list N) : pst := fold_left pst_out bs st.

Lemma pst_bytes_cons st b bs : pst_bytes st (b :: bs) = pst_bytes (pst_out st b) bs.
Proof. reflexivity. Qed.

Lemma ps_pos_out st b : ps_pos (pst_out st b) = ps_pos st + 1.
Proof. reflexivity. Qed.

Lemma ps_pos_bytes bs : forall st, ps_pos (pst_bytes st bs) = ps_pos st + nlen bs.
Proof.
  induction bs as [|b r IH]; intros st; [rewrite nlen_nil; cbn [pst_bytes fold_left]; lia|].
  rewrite pst_bytes_cons, IH, ps_pos_out, nlen_cons. lia.
Qed.

Fixpoint bytes_fwd (t : bt) (st : pst) (bs : list N) : list bool :=
  match bs with
  | [] => []
  | v :: r => obits (pm1_byte_code t (ps_mtf st) v) ++ bytes_fwd t (pst_out st v) r
  end.

Lemma pm1_bytes_bits_fwd t : forall bs st acc,
  pm1_bytes_bits t st bs acc = (pst_bytes st bs, rev (bytes_fwd t st bs) ++ acc).
Proof.
  induction bs as [|b r IH]; intros st acc; [reflexivity|].
  cbn [pm1_bytes_bits bytes_fwd]. rewrite IH, pst_bytes_cons.
  rewrite rev_append_rev, rev_app_distr, <- app_assoc. reflexivity.
Qed.

Definition copy_st (st : pst) (d l : N) : pst := pst_copy pm1_window 0 (N.to_nat l) st d.

Lemma pst_cmd_copy st d l : pst_cmd pm1_window st (PCopy d l) = copy_st st d l.
Proof. reflexivity. Qed.

Definition item_st (st : pst) (it : pm1_item) : pst :=
  match it with
  | ICopy d l => copy_st st d l
  | IBlock bs f =>
    match f with
    | Some (d, l) => copy_st (pst_bytes st bs) d l
    | None => pst_bytes st bs
    end
  end.

Definition follow_fwd (st : pst) (f : option (N * N)) : list bool :=
  match f with
  | Some (d, l) => obits (pm1_copy_bits (ps_pos st) d l)
  | None => []
  end.

Definition item_fwd (t : bt) (st : pst) (it : pm1_item) : list bool :=
  match it with
  | ICopy d l => false :: obits (pm1_copy_bits (ps_pos st) d l)
  | IBlock bs f =>
    true :: obits (pm1_blocklen_bits (nlen bs)) ++ bytes_fwd t st bs ++ follow_fwd (pst_bytes st bs) f
  end.

Lemma pm1_item_bits_fwd t st it acc :
  pm1_item_bits t st it acc = (item_st st it, rev (item_fwd t st it) ++ acc).
Proof.
  destruct it as [bs f|d l].
  - cbn [pm1_item_bits item_st item_fwd]. rewrite pm1_bytes_bits_fwd.
    destruct f as [[d l]|]; cbn [follow_fwd].
    + rewrite pst_cmd_copy. f_equal.
      rewrite !rev_append_rev. cbn [rev]. rewrite !rev_app_distr. cbn [rev].
      rewrite <- !app_assoc. reflexivity.
    + f_equal. rewrite !rev_append_rev, app_nil_r. cbn [rev]. rewrite !rev_app_distr.
      cbn [rev]. rewrite <- !app_assoc. reflexivity.
  - cbn [pm1_item_bits item_st item_fwd]. rewrite pst_cmd_copy. f_equal.
    rewrite rev_append_rev. reflexivity.
Qed.

Fixpoint items_fwd (t : bt) (st : pst) (its : list pm1_item) : list bool :=
  match its with
  | [] => []
  | it :: r => item_fwd t st it ++ items_fwd t (item_st st it) r
  end.

Lemma pm1_items_bits_fwd t : forall its st acc,
  pm1_items_bits t st its acc = rev (items_fwd t st its) ++ acc.
Proof.
  induction its as [|it r IH]; intros st acc; [reflexivity|].
  cbn [pm1_items_bits items_fwd]. rewrite pm1_item_bits_fwd, IH.
  rewrite rev_app_distr, <- app_assoc. reflexivity.
Qed.

Theorem pm1_bits_fwd d :
  pm1_bits d = nbits 5 (p1_header d) ++ items_fwd (pm1_tree (p1_header d)) pst0 (p1_items d).
Proof.
  unfold pm1_bits. rewrite pm1_items_bits_fwd, !rev_append_rev, !app_nil_r.
  rewrite rev_app_distr, !rev_involutive. reflexivity.
Qed.

(* ---- what is output ---- *)

Fixpoint copy_out (n : nat) (st : pst) (dist : N) : list N :=
  match n with
  | O => []
  | S k => let b := ph_back pm1_window 0 (ps_h st) dist in b :: copy_out k (pst_out st b) dist
  end.

Definition item_out (st : pst) (it : pm1_item) : list N :=
  match it with
  | ICopy d l => copy_out (N.to_nat l) st d
  | IBlock bs f =>
    bs ++ match f with Some (d, l) => copy_out (N.to_nat l) (pst_bytes st bs) d | None => [] end
  end.

Fixpoint items_out (st : pst) (its : list pm1_item) : list N :=
  match its with
  | [] => []
  | it :: r => item_out st it ++ items_out (item_st st it) r
  end.

Lemma ph_copy_out n : forall st dist acc,
  ph_copy pm1_window 0 n (ps_h st) dist acc =
  (ps_h (pst_copy pm1_window 0 n st dist), rev (copy_out n st dist) ++ acc).
Proof.
  induction n as [|n IH]; intros st dist acc; [reflexivity|].
  cbn [ph_copy pst_copy copy_out]. cbv zeta.
  change (ph_push (ps_h st) (ph_back pm1_window 0 (ps_h st) dist))
    with (ps_h (pst_out st (ph_back pm1_window 0 (ps_h st) dist))).
  rewrite IH. cbn [rev]. rewrite <- app_assoc. reflexivity.
Qed.

Lemma fold_bytes_out : forall bs st acc,
  fold_left (pm_cmd pm1_window 0) (map PByte bs) (ps_h st, acc) = (ps_h (pst_bytes st bs), rev bs ++ acc).
Proof.
  induction bs as [|b r IH]; intros st acc; [reflexivity|].
  cbn [map fold_left pm_cmd]. change (ph_push (ps_h st) b) with (ps_h (pst_out st b)).
  rewrite IH, pst_bytes_cons. cbn [rev]. rewrite <- app_assoc. reflexivity.
Qed.

Lemma fold_item_out st it acc :
  fold_left (pm_cmd pm1_window 0) (pm1_item_cmds it) (ps_h st, acc) =
  (ps_h (item_st st it), rev (item_out st it) ++ acc).
Proof.
  destruct it as [bs f|d l].
  - cbn [pm1_item_cmds item_st item_out]. rewrite fold_left_app, fold_bytes_out.
    destruct f as [[d l]|].
    + cbn [fold_left pm_cmd]. rewrite ph_copy_out. unfold copy_st.
      rewrite rev_app_distr, <- app_assoc. reflexivity.
    + cbn [fold_left]. rewrite app_nil_r. reflexivity.
  - cbn [pm1_item_cmds item_st item_out fold_left pm_cmd]. rewrite ph_copy_out. reflexivity.
Qed.

Lemma fold_items_out : forall its st acc,
  fold_left (pm_cmd pm1_window 0) (flat_map pm1_item_cmds its) (ps_h st, acc) =
  (ps_h (fold_left item_st its st), rev (items_out st its) ++ acc).
Proof.
  induction its as [|it r IH]; intros st acc; [reflexivity|].
  cbn [flat_map items_out]. rewrite fold_left_app, fold_item_out, IH.
  cbn [fold_left]. rewrite rev_app_distr, <- app_assoc. reflexivity.
Qed.

Theorem pm1_denote_fwd d : pm1_denote d = items_out pst0 (p1_items d).
Proof.
  unfold pm1_denote, pm_expand, pm_expand_fill, pm1_cmds.
  change (pm_fill pm1_window) with 0. change ph_empty with (ps_h pst0).
  rewrite fold_items_out. cbn [snd]. rewrite rev_append_rev, !app_nil_r. apply rev_involutive.
Qed.

Lemma copy_out_length n : forall st d, length (copy_out n st d) = n.
Proof. induction n as [|n IH]; intros st d; [reflexivity|]. cbn [copy_out length]. rewrite IH. reflexivity. Qed.

Lemma ps_pos_copy n : forall st d, ps_pos (pst_copy pm1_window 0 n st d) = ps_pos st + N.of_nat n.
Proof.
  induction n as [|n IH]; intros st d; [cbn [pst_copy]; lia|].
  cbn [pst_copy]. rewrite IH, ps_pos_out. lia.
Qed.

(* ------------------------------------------------------------------ *)
(* B. The simulation relation                                          *)

Definition ring_ok (ring : arr) (h : phist) : Prop :=
  forall j, j < ph_n h -> ph_n h <= j + 16384 ->
    aget ring (j mod 16384) = aget (ph_mem h) j /\ aget (ph_mem h) j < 256.

Definition core (hdr : N) (s : pm1_state) (st : pst) : Prop :=
  alen (pm1_ringbuf s) = pm1_ringbuf_extent /\
  pm1_ringbuf_pos s = ps_pos st mod 16384 /\
  pm1_output_stream_pos s = ps_pos st mod 4294967296 /\
  ring_ok (pm1_ringbuf s) (ps_h st) /\
  hl_wf (pm1_history_list s) /\ hl_list (pm1_history_list s) = ps_mtf st /\
  pm1_byte_decode_tree s = Some hdr /\ hdr < 32.

Lemma core_beq hdr s s' st : beq s s' -> core hdr s st -> core hdr s' st.
Proof.
  intros (B1 & B2 & B3 & B4 & B5) (C1 & C2 & C3 & C4 & C5 & C6 & C7 & C8).
  unfold core. rewrite B1, B2, B3, B4, B5.
  split; [exact C1|]. split; [exact C2|]. split; [exact C3|]. split; [exact C4|].
  split; [exact C5|]. split; [exact C6|]. split; assumption.
Qed.

Lemma rdy_bsr s s' (c : src) bl : pm1_bsr s' = pm1_bsr s -> rdy s c bl -> rdy s' c bl.
Proof. intros E H. unfold rdy in *. rewrite E. exact H. Qed.

Lemma pm1_ring_mod_eq x : pm1_ring_mod x = x mod 16384.
Proof.
  unfold pm1_ring_mod, pm1_RING_BUFFER_SIZE. destruct (N.ltb_spec x 16384); [|reflexivity].
  symmetry. apply N.mod_small. assumption.
Qed.

Lemma u32_mod' x : u32 x = x mod 4294967296.
Proof. apply u32_mod. Qed.

Lemma ring_ok_push ring h b : ring_ok ring h -> b < 256 ->
  ring_ok (aset ring (ph_n h mod 16384) b) (ph_push h b).
Proof.
  intros H Hb j Hj1 Hj2. cbn [ph_push ph_n ph_mem] in *. rewrite !aget_aset.
  destruct (N.eqb_spec (ph_n h) j) as [E|E].
  - subst j. rewrite N.eqb_refl. split; [reflexivity|exact Hb].
  - destruct (N.eqb_spec (ph_n h mod 16384) (j mod 16384)) as [E2|E2]; [exfalso; lia|].
    apply H; lia.
Qed.

(* outputted_byte: the specification state takes the byte *)
Lemma outputted_byte_z hdr s st b : core hdr s st -> b < 256 ->
  exists s', outputted_byte s b = Ok s' /\ core hdr s' (pst_out st b) /\ pm1_bsr s' = pm1_bsr s.
Proof.
  intros (C1 & C2 & C3 & C4 & C5 & C6 & C7 & C8) Hb.
  unfold outputted_byte. cbv zeta. rewrite (u8_small b Hb).
  assert (Hrp : pm1_ringbuf_pos s < 16384) by (rewrite C2; lia).
  rewrite wr_ok by (rewrite C1; unfold pm1_ringbuf_extent; lia). cbn [bind].
  destruct (update_history_list_mtf (pm1_history_list s) b C5) as (h' & Eh & Wh & Lh).
  rewrite (u8_small b Hb) in Lh. rewrite Eh. cbn [bind].
  eexists. split; [reflexivity|]. split; [|reflexivity].
  unfold core.
  cbn [pm1_ringbuf pm1_ringbuf_pos pm1_output_stream_pos pm1_history_list pm1_byte_decode_tree].
  rewrite ps_pos_out.
  split; [rewrite alen_aset; exact C1|].
  split; [rewrite pm1_ring_mod_eq, u32_mod', C2; lia|].
  split; [rewrite u32_mod', C3; lia|].
  split; [rewrite C2; apply ring_ok_push; [exact C4|exact Hb]|].
  split; [exact Wh|]. split; [rewrite Lh, C6; reflexivity|]. split; assumption.
Qed.

(* ------------------------------------------------------------------ *)
(* C. The byte decode trees (deliverable a)                            *)

(* the walk of byte_decode_step over a list of bits *)
Fixpoint bdt_walk (fuel : nat) (row off : N) (bl : list bool) : option (N * list bool) :=
  match fuel with
  | O => None
  | S f =>
    match bl with
    | [] => None
    | b :: r =>
      if off <? 5 then
        let v := aget pm1_byte_decode_trees_arr (row * 5 + off) in
        let child := if b then N.land v 15 else N.land (N.shiftr v 4) 15 in
        if 10 <=? child then Some (child - 10, r) else bdt_walk f row (off + child) r
      else None
    end
  end.

Lemma bdt_walk_S f row off b r : bdt_walk (S f) row off (b :: r) =
  if off <? 5 then
    let v := aget pm1_byte_decode_trees_arr (row * 5 + off) in
    let child := if b then N.land v 15 else N.land (N.shiftr v 4) 15 in
    if 10 <=? child then Some (child - 10, r) else bdt_walk f row (off + child) r
  else None.
Proof. reflexivity. Qed.

Lemma walk_loops fuel : forall row off path cls s (c : src) rest, row < 32 ->
  bdt_walk fuel row off path = Some (cls, []) -> rdy s c (path ++ rest) ->
  exists n s' c', loops (byte_decode_step src_cb row) n (off, s, c) (Some cls, s', c') /\
    (n < fuel)%nat /\ beq s s' /\ rdy s' c' rest.
Proof.
  induction fuel as [|f IH]; intros row off path cls s c rest Hrow Hw Hr; [discriminate|].
  destruct path as [|b r]; [discriminate|]. rewrite bdt_walk_S in Hw.
  destruct (N.ltb_spec off 5) as [Hoff|]; [|discriminate]. cbv zeta in Hw.
  cbn [app] in Hr.
  destruct (pm1_read_bit_z s c b (r ++ rest) Hr) as (s1 & c1 & E1 & B1 & R1).
  assert (Estep : byte_decode_step src_cb row (off, s, c) =
    (let v := aget pm1_byte_decode_trees_arr (row * 5 + off) in
     let child := if b then N.land v 15 else N.land (N.shiftr v 4) 15 in
     if 10 <=? child then Ok (inr (Some (child - 10), s1, c1)) else Ok (inl (off + child, s1, c1)))).
  { unfold byte_decode_step. rewrite E1. cbn [bind]. cbv beta iota.
    rewrite byte_decode_tree_at_ok by assumption. cbn [bind]. destruct b; reflexivity. }
  cbv zeta in Estep.
  set (child := if b then N.land (aget pm1_byte_decode_trees_arr (row * 5 + off)) 15
                else N.land (N.shiftr (aget pm1_byte_decode_trees_arr (row * 5 + off)) 4) 15) in *.
  destruct (10 <=? child).
  - injection Hw as Hcl Hr0. subst cls r. cbn [app] in R1. exists O, s1, c1. split; [constructor; exact Estep|]. split; [lia|].
    split; [exact B1|exact R1].
  - destruct (IH row (off + child) r cls s1 c1 rest Hrow Hw R1) as (n & s' & c' & L & Hn & B & R).
    exists (S n), s', c'. split; [econstructor; [exact Estep|exact L]|]. split; [lia|].
    split; [eapply beq_trans; eassumption|exact R].
Qed.

Definition tree_check (h cls : N) : bool :=
  match bt_path (pm1_tree h) cls with
  | None => true
  | Some path =>
    if aget pm1_byte_decode_trees_arr (h * 5 + 0) =? 0
    then (cls =? 0) && match path with [] => true | _ => false end
    else match bdt_walk 5 h 0 path with
         | Some (c, []) => c =? cls
         | _ => false
         end
  end.

Lemma tree_check_sweep : sweep 5 (fun h => sweep 3 (tree_check h) 0) 0 = true.
Proof. vm_compute. reflexivity. Qed.

Lemma tree_check_ok h cls : h < 32 -> cls < 8 -> tree_check h cls = true.
Proof.
  intros Hh Hc. pose proof (sweep_below 5 _ tree_check_sweep h Hh) as X. cbv beta in X.
  apply (sweep_below 3 _ X cls Hc).
Qed.

(* Deliverable (a): for every start header and every class its tree reaches,
   the decoder's walk of byte_decode_trees[header] consumes exactly the
   specification's (leftmost) code of the class and returns the class. *)
Theorem tree_walk_decodes hdr cls path s (c : src) rest :
  hdr < 32 -> cls < 8 -> pm1_byte_decode_tree s = Some hdr ->
  bt_path (pm1_tree hdr) cls = Some path -> rdy s c (path ++ rest) ->
  exists s' c', read_byte_decode_index src_cb s c = Ok (Some cls, s', c') /\ beq s s' /\ rdy s' c' rest.
Proof.
  intros Hh Hc Ht Hp Hr. pose proof (tree_check_ok hdr cls Hh Hc) as X. unfold tree_check in X.
  rewrite Hp in X. unfold read_byte_decode_index. rewrite Ht.
  rewrite byte_decode_tree_at_ok by lia. cbn [bind].
  destruct (aget pm1_byte_decode_trees_arr (hdr * 5 + 0) =? 0).
  - apply andb_true_iff in X. destruct X as [X1 X2]. apply N.eqb_eq in X1. subst cls.
    destruct path; [|discriminate]. exists s, c. split; [reflexivity|]. split; [apply beq_refl|exact Hr].
  - destruct (bdt_walk 5 hdr 0 path) as [[c0 [|]]|] eqn:Ew; try discriminate.
    apply N.eqb_eq in X. subst c0.
    destruct (walk_loops 5 hdr 0 path cls s c rest Hh Ew Hr) as (n & s' & c' & L & Hn & B & R).
    exists s', c'. split; [|split; assumption].
    apply (loop_complete _ 8 n); [exact L|]. change (2 ^ 8)%nat with 256%nat. lia.
Qed.

(* ------------------------------------------------------------------ *)
(* D. One literal                                                      *)

Definition byte_tbl_check (p : N) : bool :=
  match vl_find pm1_byte_tbl 0 p with
  | Some (cls, base, w) =>
    (cls <? 6) && (aget (vl_offset pm1_byte_ranges) cls =? base) &&
    (aget (vl_bits pm1_byte_ranges) cls =? w) && (base <=? p) && (p <? base + 2 ^ w) && (w <=? 6)
  | None => false
  end.

Lemma byte_tbl_sweep : sweep 8 byte_tbl_check 0 = true.
Proof. vm_compute. reflexivity. Qed.

Lemma byte_tbl_facts p cls base w : p < 256 -> vl_find pm1_byte_tbl 0 p = Some (cls, base, w) ->
  cls < 6 /\ aget (vl_offset pm1_byte_ranges) cls = base /\
  aget (vl_bits pm1_byte_ranges) cls = w /\ base <= p /\ p < base + 2 ^ w /\ w <= 6.
Proof.
  intros Hp E. pose proof (sweep_below 8 _ byte_tbl_sweep p Hp) as X. unfold byte_tbl_check in X.
  rewrite E in X.
  apply andb_true_iff in X. destruct X as [X X6].
  apply andb_true_iff in X. destruct X as [X X5].
  apply andb_true_iff in X. destruct X as [X X4].
  apply andb_true_iff in X. destruct X as [X X3].
  apply andb_true_iff in X. destruct X as [X1 X2].
  apply N.eqb_eq in X2. apply N.eqb_eq in X3. repeat split; try assumption; lia.
Qed.

Lemma byte_code_inv t mtf v : is_some (pm1_byte_code t mtf v) = true ->
  exists p cls base w path, mtf_index mtf v = Some p /\ vl_find pm1_byte_tbl 0 p = Some (cls, base, w) /\
    bt_path t cls = Some path /\ obits (pm1_byte_code t mtf v) = path ++ nbits w (p - base).
Proof.
  unfold pm1_byte_code.
  destruct (mtf_index mtf v) as [p|]; [|discriminate].
  destruct (vl_find pm1_byte_tbl 0 p) as [[[cls base] w]|] eqn:E2; [|discriminate].
  destruct (bt_path t cls) as [path|] eqn:E3; [|discriminate].
  intros _. exists p, cls, base, w, path. repeat split; try assumption.
Qed.

Lemma read_byte_z hdr s (c : src) st v rest :
  core hdr s st -> v < 256 -> is_some (pm1_byte_code (pm1_tree hdr) (ps_mtf st) v) = true ->
  rdy s c (obits (pm1_byte_code (pm1_tree hdr) (ps_mtf st) v) ++ rest) ->
  exists s' c', read_byte src_cb s c = Ok (Some v, s', c') /\ beq s s' /\ rdy s' c' rest.
Proof.
  intros Hc Hv Hs Hr. pose proof Hc as (C1 & C2 & C3 & C4 & C5 & C6 & C7 & C8).
  destruct (byte_code_inv _ _ _ Hs) as (p & cls & base & w & path & E1 & E2 & E3 & E4).
  rewrite E4, <- app_assoc in Hr. rewrite <- C6 in E1.
  destruct (find_mtf_index _ _ _ C5 E1) as [Hp256 Efind].
  destruct (byte_tbl_facts p cls base w Hp256 E2) as (F1 & F2 & F3 & F4 & F5 & F6).
  unfold read_byte.
  destruct (tree_walk_decodes hdr cls path s c _ C8 ltac:(lia) C7 E3 Hr) as (s1 & c1 & Ei & B1 & R1).
  rewrite Ei. cbn [bind]. cbv beta iota.
  assert (A1 : cls < alen (vl_bits pm1_byte_ranges)) by (rewrite byte_ranges_alen_bits; lia).
  assert (A2 : cls < alen (vl_offset pm1_byte_ranges)) by (rewrite byte_ranges_alen_offset; lia).
  destruct (dvl_z pm1_byte_ranges s1 c1 cls base w (p - base) rest A1 A2 F2 F3) as (r2 & c2 & E & R2);
    [lia|lia|exact R1|].
  rewrite E. cbn [bind]. cbv beta iota zeta.
  replace (base + (p - base)) with p by lia.
  change (pm1_history_list (pm1_set_bsr s1 r2)) with (pm1_history_list s1).
  destruct B1 as (_ & _ & _ & _ & B15). rewrite B15, Efind. cbn [bind].
  exists (pm1_set_bsr s1 r2), c2. split; [reflexivity|]. split; [|exact R2].
  eapply beq_trans; [|apply beq_set_bsr]. destruct (tree_walk_decodes hdr cls path s c _ C8 ltac:(lia) C7 E3 Hr) as (s1' & c1' & Ei' & B1' & _).
  rewrite Ei in Ei'. injection Ei' as <- <-. exact B1'.
Qed.

(* ------------------------------------------------------------------ *)
(* E. A block of literals                                              *)

Lemma wf_pm1_bytes_inv t : forall bs st st', wf_pm1_bytes t st bs = Some st' ->
  st' = pst_bytes st bs /\
  match bs with
  | [] => True
  | v :: r => v < 256 /\ is_some (pm1_byte_code t (ps_mtf st) v) = true /\
              wf_pm1_bytes t (pst_out st v) r = Some st'
  end.
Proof.
  induction bs as [|v r IH]; intros st st' H.
  - cbn [wf_pm1_bytes] in H. injection H as <-. split; [reflexivity|exact I].
  - cbn [wf_pm1_bytes] in H.
    destruct ((v <? 256) && is_some (pm1_byte_code t (ps_mtf st) v)) eqn:E; [|discriminate].
    apply andb_true_iff in E. destruct E as [E1 E2].
    destruct (IH _ _ H) as [Est _]. split; [rewrite pst_bytes_cons; exact Est|].
    split; [lia|]. split; assumption.
Qed.

Lemma byte_block_loop_z hdr : forall bs s (c : src) st st' o rest,
  core hdr s st -> wf_pm1_bytes (pm1_tree hdr) st bs = Some st' ->
  ob_len o + nlen bs <= pm1_max_read ->
  rdy s c (bytes_fwd (pm1_tree hdr) st bs ++ rest) ->
  exists s' c', byte_block_loop src_cb (length bs) s c o =
      Ok (true, s', c', {| ob_rev := rev bs ++ ob_rev o; ob_len := ob_len o + nlen bs |}) /\
    core hdr s' (pst_bytes st bs) /\ rdy s' c' rest.
Proof.
  induction bs as [|v r IH]; intros s c st st' o rest Hc Hwf Hl Hr.
  - exists s, c. cbn [length byte_block_loop rev app]. rewrite nlen_nil, N.add_0_r.
    destruct o as [orv ol]. split; [reflexivity|]. split; [exact Hc|exact Hr].
  - destruct (wf_pm1_bytes_inv _ _ _ _ Hwf) as (_ & Hv & Hs & Hwf').
    cbn [bytes_fwd] in Hr. rewrite <- app_assoc in Hr. rewrite nlen_cons in Hl.
    cbn [length]. rewrite byte_block_loop_S.
    destruct (read_byte_z hdr s c st v _ Hc Hv Hs Hr) as (s1 & c1 & E1 & B1 & R1).
    rewrite E1. cbn [bind]. cbv beta iota.
    rewrite ob_push_ok by lia. cbn [bind]. rewrite (u8_small v Hv).
    destruct (outputted_byte_z hdr s1 st v (core_beq _ _ _ _ B1 Hc) Hv) as (s2 & E2 & C2 & Eb2).
    rewrite E2. cbn [bind].
    destruct (IH s2 c1 (pst_out st v) st' {| ob_rev := v :: ob_rev o; ob_len := ob_len o + 1 |} rest C2 Hwf')
      as (s' & c' & E & C' & R').
    { cbn [ob_len]. lia. }
    { apply (rdy_bsr s1 s2 c1 _ Eb2). exact R1. }
    exists s', c'. rewrite E. cbn [ob_rev ob_len rev]. rewrite nlen_cons, <- app_assoc. cbn [app].
    replace (ob_len o + 1 + nlen r) with (ob_len o + (nlen r + 1)) by lia.
    split; [reflexivity|]. split; [rewrite pst_bytes_cons; exact C'|exact R'].
Qed.

Print Assumptions pm1_bits_fwd.
Print Assumptions pm1_denote_fwd.
Print Assumptions tree_walk_decodes.
Print Assumptions read_byte_z.
Print Assumptions byte_block_loop_z.

(* Decoder.v -- model of lib/lha_decoder.c over an abstract inner decoder. *)
From Lhasa Require Import Base DecBase Loop Crc16.
Local Open Scope N_scope.

Section Decoder.
  Context {cbs st : Type}.
  (* the LHADecoderType: read(), max_read, block_size *)
  Variable dread : st -> cbs -> outcome (list N * st * cbs).
  Variable max_read block_size : N.

  Record decoder := {
    d_inner : st;
    d_cb : cbs;
    d_outbuf : list N;          (* outbuf[outbuf_pos .. outbuf_len) *)
    d_stream_pos : N;
    d_stream_length : N;
    d_failed : bool;
    d_crc : N;
    d_monitor : bool;           (* progress_callback != NULL *)
    d_last_block : N;           (* unsigned int *)
    d_total_blocks : N
  }.

  Definition lha_decoder_new (inner : st) (c : cbs) (stream_length : N) : decoder :=
    {| d_inner := inner; d_cb := c; d_outbuf := []; d_stream_pos := 0;
       d_stream_length := stream_length; d_failed := false; d_crc := 0;
       d_monitor := false; d_last_block := 4294967295; d_total_blocks := 0 |}.

  (* check_progress_callback: while (last_block != block) { ++last_block; callback(last_block, total) }
     block and last_block are unsigned int: the loop runs (block - last_block) mod 2^32 times. *)
  Definition progress_events (last block total : N) : list (N * N) :=
    let n := u32 (block + 4294967296 - last) in
    map (fun i => (u32 (last + 1 + N.of_nat i), total)) (seq 0 (N.to_nat n)).

  Definition check_progress (d : decoder) : decoder * list (N * N) :=
    let block := u32 ((d_stream_pos d + block_size - 1) / block_size) in
    ({| d_inner := d_inner d; d_cb := d_cb d; d_outbuf := d_outbuf d; d_stream_pos := d_stream_pos d;
        d_stream_length := d_stream_length d; d_failed := d_failed d; d_crc := d_crc d;
        d_monitor := d_monitor d; d_last_block := block; d_total_blocks := d_total_blocks d |},
     progress_events (d_last_block d) block (d_total_blocks d)).

  Definition lha_decoder_monitor (d : decoder) : decoder * list (N * N) :=
    let total := u32 ((d_stream_length d + block_size - 1) / block_size) in
    check_progress
      {| d_inner := d_inner d; d_cb := d_cb d; d_outbuf := d_outbuf d; d_stream_pos := d_stream_pos d;
         d_stream_length := d_stream_length d; d_failed := d_failed d; d_crc := d_crc d;
         d_monitor := true; d_last_block := d_last_block d; d_total_blocks := total |}.

  (* state of the while (filled < buf_len) loop *)
  Record rl := { rl_d : decoder; rl_out_rev : list N; rl_filled : N }.

  Definition set_buf (d : decoder) (inner : st) (c : cbs) (ob : list N) (failed : bool) : decoder :=
    {| d_inner := inner; d_cb := c; d_outbuf := ob; d_stream_pos := d_stream_pos d;
       d_stream_length := d_stream_length d; d_failed := failed; d_crc := d_crc d;
       d_monitor := d_monitor d; d_last_block := d_last_block d; d_total_blocks := d_total_blocks d |}.

  Definition read_step (buf_len : N) (s : rl) : outcome (rl + rl) :=
    if rl_filled s <? buf_len then
      let d := rl_d s in
      let want := buf_len - rl_filled s in
      let take := firstn_N want (d_outbuf d) in
      let rest := skipn_N want (d_outbuf d) in
      let filled := rl_filled s + nlen take in
      let out := rev_append take (rl_out_rev s) in
      if d_failed d then
        Ok (inr {| rl_d := set_buf d (d_inner d) (d_cb d) rest true; rl_out_rev := out; rl_filled := filled |})
      else
        match rest with
        | [] =>
          '(chunk, inner', c') <- dread (d_inner d) (d_cb d) ;;
          (* the chunk was written into outbuf of max_read bytes *)
          if max_read <? nlen chunk then Fault 501 else
          match chunk with
          | [] => Ok (inr {| rl_d := set_buf d inner' c' [] true; rl_out_rev := out; rl_filled := filled |})
          | _ => Ok (inl {| rl_d := set_buf d inner' c' chunk false; rl_out_rev := out; rl_filled := filled |})
          end
        | _ => Ok (inl {| rl_d := set_buf d (d_inner d) (d_cb d) rest false; rl_out_rev := out; rl_filled := filled |})
        end
    else Ok (inr s).

  (* lha_decoder_read: returns the bytes stored in buf, the progress events, the new decoder *)
  Definition lha_decoder_read (d : decoder) (buf_len : N) : outcome (list N * list (N * N) * decoder) :=
    let buf_len := if d_stream_length d <? d_stream_pos d + buf_len
                   then d_stream_length d - d_stream_pos d else buf_len in
    s <- loop (read_step buf_len) 64 {| rl_d := d; rl_out_rev := []; rl_filled := 0 |} ;;
    let out := rev_append (rl_out_rev s) [] in      (* = rev, linear time *)
    let d1 := rl_d s in
    let d2 := {| d_inner := d_inner d1; d_cb := d_cb d1; d_outbuf := d_outbuf d1;
                 d_stream_pos := d_stream_pos d1 + rl_filled s;
                 d_stream_length := d_stream_length d1; d_failed := d_failed d1;
                 d_crc := lha_crc16_buf (d_crc d1) out;
                 d_monitor := d_monitor d1; d_last_block := d_last_block d1;
                 d_total_blocks := d_total_blocks d1 |} in
    if d_monitor d2 then
      let '(d3, ev) := check_progress d2 in Ok (out, ev, d3)
    else Ok (out, [], d2).

  Definition lha_decoder_get_crc (d : decoder) : N := d_crc d.
  Definition lha_decoder_get_length (d : decoder) : N := d_stream_pos d.
End Decoder.

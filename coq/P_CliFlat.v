(* P_CliFlat.v -- C06, option i (ignore the stored directory path): every file
   and every safe link of the archive lands directly in the extraction
   directory (bl: the current directory, or DIR with w=DIR) under its own name;
   directory entries are passed over, nothing is pushed on the directory stack,
   no fake entries arise. *)
From Lhasa Require Import Base ListN DecBase Loop Generated Crc16 InputStream Header BasicReader
  AnyDecoder Decoder MacBinary Fs FsRun Reader Glob ListOut CliFilter CliExtract
  P_ReaderCheck P_FsExtract P_ReaderExtract P_CliExtract P_CliTree P_FsReplace P_CliOverwrite P_CliExtractGen.
From Coq Require Import ZifyBool ZifyN ZifyNat.
Local Open Scope N_scope.

Set Default Timeout 120.

(* the flattened tree *)
Fixpoint flat (u : N) (it : item) : list (name * node) :=
  match it with
  | IFile c h bs => [(c, File true (fmode u h) (h_timestamp h) bs)]
  | ILink c _ tgt => [(c, Link tgt)]
  | IDir _ _ sub => flat_map (flat u) sub
  end.
Definition flats (u : N) (its : list item) : list (name * node) := flat_map (flat u) its.

Fixpoint msize (it : item) : nat :=
  match it with IDir _ _ sub => S (fold_right (fun x a => msize x + a)%nat O sub) | _ => 1%nat end.
Definition msizes (its : list item) : nat := fold_right (fun x a => msize x + a)%nat O its.

(* options: the stored name alone, below bl *)
Definition flat_opts (bl : list name) (o : lha_options) : Prop :=
  o_use_path o = false /\ o_dry_run o = false /\
  forall h, file_full_path h o = dirstr bl ++ match h_filename h with Some f => skip_slashes f | None => [] end.

Lemma flat_opts_i o : o_use_path o = false -> o_dry_run o = false -> o_extract_path o = None -> flat_opts [] o.
Proof. intros A B C. split; [exact A|]. split; [exact B|]. intros h. unfold file_full_path. rewrite A, C. reflexivity. Qed.

Lemma flat_opts_iw o e bl : o_use_path o = false -> o_dry_run o = false -> o_extract_path o = Some e ->
  e ++ [47] = dirstr bl -> flat_opts bl o.
Proof. intros A B C E. split; [exact A|]. split; [exact B|]. intros h. unfold file_full_path. rewrite A, C, E. reflexivity. Qed.

(* what has been added to the extraction directory *)
Definition added (s s' : fs) (P : phys) (o : bool) (pm : N) (ents news : list (name * node)) : Prop :=
  match news with
  | [] => s' = s
  | _ => fs_root s' = update_at (fs_root s) P (const_some (Dir o pm now (ents ++ news)))
  end.

Lemma nodup_app_r {A} (a b : list A) : NoDup (a ++ b) -> NoDup b.
Proof. induction a as [|x a IH]; intros H; [exact H|]. inversion H; subst. apply IH. assumption. Qed.
Lemma nodup_app_l {A} (a b : list A) : NoDup (a ++ b) -> NoDup a.
Proof.
  induction a as [|x a IH]; intros H; [constructor|]. cbn [app] in H. inversion H as [|x0 l0 Hnin Hnd]; subst.
  constructor; [intros Hin; apply Hnin; apply in_or_app; left; exact Hin|apply IH; exact Hnd].
Qed.
Lemma nodup_app_disj {A} (a b : list A) x : NoDup (a ++ b) -> In x a -> In x b -> False.
Proof.
  induction a as [|k a IH]; intros H Ha Hb; [destruct Ha|]. cbn [app] in H. inversion H as [|x0 l0 Hnin Hnd]; subst.
  destruct Ha as [->|Ha]; [apply Hnin; apply in_or_app; right; exact Hb|eapply IH; eauto].
Qed.

Section Flat.
  Variable mktime : N -> N -> N -> N -> Z -> N -> N.
  Variable junk : N.
  Variable f : lha_filter.
  Hypothesis Hnofilter : f_filters f = [].
  Variables (u : N) (uid0 : bool).
  Variable bl : list name.

  Notation step := (extract_archive_step mktime junk f).
  Notation upcoming := (upcoming mktime junk).
  Notation positioned := (positioned mktime junk).
  Notation iters_one := (iters_one mktime junk f).

  Lemma added_trans s s1 s2 P o pm ents n1 n2 : fs_cwd s1 = fs_cwd s ->
    added s s1 P o pm ents n1 -> added s1 s2 P o pm (ents ++ n1) n2 -> added s s2 P o pm ents (n1 ++ n2).
  Proof.
    intros Hc H1 H2. destruct n1 as [|a n1]; cbn [added app] in *.
    - subst s1. rewrite app_nil_r in H2. exact H2.
    - destruct n2 as [|b n2]; cbn [added] in *.
      + subst s2. rewrite app_nil_r. exact H1.
      + rewrite H2, H1, update_const_twice, <- app_assoc. reflexivity.
  Qed.

  Lemma added_ready s s' o pm t ents news : dir_ready s bl o pm t ents -> same_env s s' ->
    added s s' (fs_cwd s ++ bl) o pm ents news -> exists t', dir_ready s' bl o pm t' (ents ++ news).
  Proof.
    intros Hr Henv Ha. destruct news as [|a n]; cbn [added] in Ha.
    - subst s'. exists t. rewrite app_nil_r. exact Hr.
    - exists now. eapply dir_ready_update; eauto.
  Qed.

  Lemma flat_run : forall n its, (msizes its <= n)%nat -> forall dl rest st b o pm t ents,
    Forall (wf_item u uid0 dl) its -> NoDup (map fst (flats u its)) ->
    (forall c, In c (map fst (flats u its)) -> lookup ents c = None /\ nlen (dirstr bl ++ c) <= 4095) ->
    flat_opts bl (cs_opts st) -> fs_umask (cs_fs st) = u -> fs_uid0 (cs_fs st) = uid0 ->
    dir_ready (cs_fs st) bl o pm t ents ->
    rinv (cs_reader st) [] -> upcoming (cs_reader st) (flat_map ser its ++ rest) ->
    exists st', iters step (msizes its) (b, st) (b, st') /\
      cs_opts st' = cs_opts st /\ same_env (cs_fs st) (cs_fs st') /\
      rinv (cs_reader st') [] /\ upcoming (cs_reader st') rest /\
      added (cs_fs st) (cs_fs st') (fs_cwd (cs_fs st) ++ bl) o pm ents (flats u its).
  Proof.
    induction n as [|n IHn]; intros its Hsz dl rest st b o pm t ents Hwf Hnd Hfresh Hopts Hum Huid Hready Hrinv Hup.
    - destruct its as [|it more].
      + exists st. split; [constructor|]. split; [reflexivity|]. split; [apply same_env_refl|]. cbn [flats flat_map added]. auto.
      + exfalso. cbn [msizes fold_right] in Hsz. destruct it; cbn [msize] in Hsz; lia.
    - destruct its as [|it more].
      + exists st. split; [constructor|]. split; [reflexivity|]. split; [apply same_env_refl|]. cbn [flats flat_map added]. auto.
      + inversion Hwf as [|it0 more0 Hit Hmore]; subst it0 more0.
        assert (Hfl : flats u (it :: more) = flat u it ++ flats u more) by reflexivity.
        rewrite Hfl in Hnd, Hfresh. rewrite map_app in Hnd, Hfresh.
        assert (Hszs : msizes (it :: more) = (msize it + msizes more)%nat) by reflexivity.
        assert (Hsz1 : (1 <= msize it)%nat) by (destruct it; cbn [msize]; lia).
        (* after the head item, the tail *)
        assert (Htail : forall st1, iters step (msize it) (b, st) (b, st1) ->
                  cs_opts st1 = cs_opts st -> same_env (cs_fs st) (cs_fs st1) -> rinv (cs_reader st1) [] ->
                  upcoming (cs_reader st1) (flat_map ser more ++ rest) ->
                  added (cs_fs st) (cs_fs st1) (fs_cwd (cs_fs st) ++ bl) o pm ents (flat u it) ->
                  exists st', iters step (msizes (it :: more)) (b, st) (b, st') /\
                    cs_opts st' = cs_opts st /\ same_env (cs_fs st) (cs_fs st') /\
                    rinv (cs_reader st') [] /\ upcoming (cs_reader st') rest /\
                    added (cs_fs st) (cs_fs st') (fs_cwd (cs_fs st) ++ bl) o pm ents (flats u (it :: more))).
        { intros st1 Hit1 Hopts1 Henv1 Hrinv1 Hup1 Hadd1.
          destruct (added_ready _ _ o pm t ents (flat u it) Hready Henv1 Hadd1) as [t1 Hready1].
          assert (Hcwd1 : fs_cwd (cs_fs st1) = fs_cwd (cs_fs st)) by apply Henv1.
          destruct (IHn more ltac:(lia) dl rest st1 b o pm t1 (ents ++ flat u it)) as
              (st' & Hit' & Hopts' & Henv' & Hrinv' & Hup' & Hadd'); auto.
          { eapply nodup_app_r. exact Hnd. }
          { intros c Hin. destruct (Hfresh c) as [A B]; [apply in_or_app; right; exact Hin|]. split; [|exact B].
            rewrite lookup_app_none by exact A. apply lookup_none_notin. intros Hin'.
            eapply nodup_app_disj; eauto. }
          { rewrite Hopts1. exact Hopts. }
          { destruct Henv1 as (_ & _ & E). congruence. }
          { destruct Henv1 as (_ & E & _). congruence. }
          exists st'. split; [rewrite Hszs; eapply iters_app; eauto|].
          split; [congruence|]. split; [exact (same_env_trans _ _ _ Henv1 Henv')|].
          split; [exact Hrinv'|]. split; [exact Hup'|].
          rewrite Hfl. eapply added_trans; [exact Hcwd1|exact Hadd1|]. rewrite <- Hcwd1. exact Hadd'. }
        pose proof Hrinv as (Hpol & Hdef & Hstk & Htyne).
        pose proof Hopts as (Hu & Hdry & Hfull).
        assert (Hso : stack_ok [] (@nil name)) by (left; reflexivity).
        destruct it as [c h bs|c h tgt|c h sub]; cbn [wf_item] in Hit; cbn [flat] in Htail, Hfresh;
          cbn [flat_map ser app] in Hup.
        * destruct Hit as (Hc & _ & (Hp & Hf & Hdm & Hsl & Hos) & Hmode).
          destruct (present_entry mktime junk (cs_reader st) [] [] _ (MFile h bs) (pstr (MFile h bs)) Hrinv Hso Hup)
            as (br1 & Hpos & Hnext); [right; reflexivity|reflexivity|reflexivity|].
          cbn [hdr] in Hnext. set (r1 := mk_reader br1 (Some h) CT_NORMAL [] false) in *.
          inversion Hpos as [|br0 h0 bs0 ms0 Hcur Hdec|]; subst br0 h0 bs0 ms0.
          destruct (Hdec r1 eq_refl eq_refl eq_refl) as (r2 & Hmem & x & br' & Hbn & Hpos').
          destruct (Hfresh c ltac:(left; reflexivity)) as [Hl0 Hlen].
          assert (Hmode' : fs_uid0 (cs_fs st) = true \/ drop_setid (file_mode (cs_fs st) h) = file_mode (cs_fs st) h).
          { rewrite file_mode_fmode, Hum. destruct Hmode as [Hm|Hm]; [left; congruence|right; exact Hm]. }
          assert (Hfn : file_full_path h (cs_opts st) = dirstr bl ++ c) by (rewrite Hfull, Hf, (skip_slashes_name c Hc); reflexivity).
          destruct (gen_file junk h (set_reader st r1) bl c o pm t ents bs r2) as (st2 & Hex & Hrd2 & Hopts2 & Henv2 & Hroot2); auto.
          cbn [cs_fs set_reader cs_opts] in *.
          pose proof (member_ok_book junk r1 h bs r2 Hmem) as Hbook. unfold book in Hbook. cbn [r1 mk_reader rd_curr rd_type rd_policy rd_dir_stack rd_deferred rd_linked] in Hbook.
          injection Hbook as B1 B2 B3 B4 B5 B6.
          apply (Htail st2).
          { apply iters_one. eapply step_entry; eauto. }
          { exact Hopts2. } { exact Henv2. }
          { rewrite Hrd2. split; [exact B3|]. split; [exact B5|]. split; [exact B4|]. rewrite B2. discriminate. }
          { rewrite Hrd2. exists br'. split; [|exact Hpos']. unfold fetch. rewrite B2, Hbn. reflexivity. }
          { cbn [added]. rewrite Hroot2, file_mode_fmode, Hum. reflexivity. }
        * destruct Hit as (Hc & _ & (Hp & Hf & Hdm & Hsl & Hsafe & Htne & Htlen)).
          destruct (present_entry mktime junk (cs_reader st) [] [] _ (MOther h) (pstr (MOther h)) Hrinv Hso Hup)
            as (br1 & Hpos & Hnext); [right; reflexivity|reflexivity|reflexivity|].
          cbn [hdr] in Hnext. set (r1 := mk_reader br1 (Some h) CT_NORMAL [] false) in *.
          inversion Hpos as [| |br0 h0 ms0 x br' Hcur Hbn Hpos']; subst br0 h0 ms0.
          destruct (Hfresh c ltac:(left; reflexivity)) as [Hl0 Hlen].
          assert (Hfn : file_full_path h (cs_opts st) = dirstr bl ++ c) by (rewrite Hfull, Hf, (skip_slashes_name c Hc); reflexivity).
          destruct (gen_link junk h (set_reader st r1) bl c o pm t ents tgt) as (st2 & Hex & Hopts2 & Hrd2 & Henv2 & Hroot2); auto.
          cbn [cs_fs set_reader cs_opts cs_reader] in *.
          apply (Htail st2).
          { apply iters_one. eapply step_entry; eauto. }
          { exact Hopts2. } { exact Henv2. }
          { rewrite Hrd2. repeat split; discriminate. }
          { rewrite Hrd2. exists br'. split; [|exact Hpos']. unfold fetch. cbn [r1 mk_reader rd_type rd_br]. rewrite Hbn. reflexivity. }
          { exact Hroot2. }
        * destruct Hit as (Hc & _ & (Hp & Hf & Hdm & Hsl) & _ & Hwfsub). apply wf_all in Hwfsub.
          destruct (present_entry mktime junk (cs_reader st) [] [] _ (MOther h) (pstr (MOther h)) Hrinv Hso Hup)
            as (br1 & Hpos & Hnext); [right; reflexivity|reflexivity|reflexivity|].
          cbn [hdr] in Hnext. set (r1 := mk_reader br1 (Some h) CT_NORMAL [] false) in *.
          inversion Hpos as [| |br0 h0 ms0 x br' Hcur Hbn Hpos']; subst br0 h0 ms0.
          pose proof (gen_dir_ignored junk h (set_reader st r1) Hu Hdm Hsl) as Hex.
          rewrite <- app_assoc in Hpos'.
          destruct (IHn sub ltac:(cbn [msizes fold_right msize] in Hsz; unfold msizes; lia) (dl ++ [c]) (flat_map ser more ++ rest)
                        (set_reader st r1) b o pm t ents)
            as (st3 & Hit3 & Hopts3 & Henv3 & Hrinv3 & Hup3 & Hadd3); auto.
          { eapply nodup_app_l. exact Hnd. }
          { intros c0 Hin. apply Hfresh. apply in_or_app. left. exact Hin. }
          { repeat split; discriminate. }
          { exists br'. split; [|exact Hpos']. unfold fetch. cbn [cs_reader set_reader r1 mk_reader rd_type rd_br]. rewrite Hbn. reflexivity. }
          cbn [cs_fs set_reader cs_opts] in *.
          apply (Htail st3).
          { replace (msize (IDir c h sub)) with (1 + msizes sub)%nat by reflexivity.
            eapply iters_app; [apply iters_one; eapply step_entry; eauto|exact Hit3]. }
          { exact Hopts3. } { exact Henv3. } { exact Hrinv3. } { exact Hup3. } { exact Hadd3. }
  Qed.

  (* "lha xi" / "lha ei" (with or without w=DIR, DIR existing): everything lands in the one directory *)
  Theorem extract_archive_flat its st o pm t ents :
    let s := cs_fs st in
    Forall (wf_item u uid0 []) its -> NoDup (map fst (flats u its)) ->
    (forall c, In c (map fst (flats u its)) -> lookup ents c = None /\ nlen (dirstr bl ++ c) <= 4095) ->
    flat_opts bl (cs_opts st) -> fs_umask s = u -> fs_uid0 s = uid0 ->
    dir_ready s bl o pm t ents ->
    rinv (cs_reader st) [] -> upcoming (cs_reader st) (flat_map ser its) ->
    N.of_nat (msizes its) < 2 ^ 40 ->
    exists st', extract_archive mktime junk f st = Ok (RVal true, st') /\
      same_env s (cs_fs st') /\
      added s (cs_fs st') (fs_cwd s ++ bl) o pm ents (flats u its).
  Proof.
    intros s Hwf Hnd Hfresh Hopts Hum Huid Hready Hrinv Hup Hsz.
    rewrite <- (app_nil_r (flat_map ser its)) in Hup.
    destruct (flat_run (msizes its) its (le_n _) [] [] st true o pm t ents
                Hwf Hnd Hfresh Hopts Hum Huid Hready Hrinv Hup)
      as (st1 & Hit & Hopts1 & Henv1 & Hrinv1 & Hup1 & Hadd1).
    destruct Hrinv1 as (Hpol1 & Hdef1 & Hstk1 & Hty1). destruct Hup1 as (br1 & Hf1 & Hpos1).
    assert (Hcur1 : br_curr br1 = None) by (inversion Hpos1; assumption).
    assert (Hnext : exists r', lha_reader_next_file mktime (cs_reader st1) = Ok (None, r')).
    { rewrite (next_file_eq mktime _ Hty1), Hf1. cbn [bind]. rewrite (present_end _ br1 false Hstk1 Hdef1 Hcur1). eauto. }
    destruct Hnext as [r' Hnext].
    pose proof (step_end mktime junk f Hnofilter true st1 r' Hnext) as Hend.
    assert (Hloops : loops (extract_archive_step mktime junk f) (msizes its + 0) (true, st) (RVal true, set_reader st1 r')).
    { eapply loops_after_iters; [exact Hit|]. constructor. exact Hend. }
    exists (set_reader st1 r'). split.
    - unfold extract_archive. destruct Hopts as (_ & Hd & _). rewrite Hd.
      eapply loop_complete_N; [exact Hloops|]. rewrite Nat.add_0_r. exact Hsz.
    - cbn [cs_fs set_reader]. split; [exact Henv1|exact Hadd1].
  Qed.
End Flat.

Print Assumptions flat_run.
Print Assumptions extract_archive_flat.

(* P_CliConfineBytesEx.v -- C10: the confinement test of P_CliConfineBytes.v evaluated on
   archive bytes, and the theorem applied.

     f5_test_false            the witness of the known finding F5 (P_CliConfineLate.f5_archive =
                              Properties_C10.escape_archive): the test answers false; the run
                              escapes (P_CliConfineLate.escape_fails_both_tests).
     example_test_true        d/, d/f, d/s -> f (safe), d/x -> ../y (dangerous, deferred): the
                              test answers true ...
     example_confined         ... so every operation of the loop is below /root, by the theorem
                              (not by evaluating the run) ...
     example_cli_confined     ... and so is every operation of `lha xf /arc/a.lzh`, for any clock,
                              user, time stamp of the archive file and standard input.
     alias_test_false         P_CliConfineLate.alias_archive (a deferred link extracted through
                              a safe link to a plain directory): false.
     stdin_prompt_refuted     the hypothesis "not on standard input, or no overwrite prompt" is
                              necessary: `lha x -` with an existing file a in the directory.  The
                              archive on standard input: member a (data "y\n"), two zero bytes,
                              then the F5 archive.  Plain iteration ends at the zero bytes: one
                              member, the test answers true.  The overwrite prompt takes its
                              answer "y\n" from the archive stream (CliExtract.stdin_data), the
                              member's data is then read two bytes further on, and the next
                              header the loop obtains is the first header of the F5 archive:
                              presented headers that are no stream headers, and a link made in
                              /outside.
   Examples only. *)
From Lhasa Require Import Base ListN Loop Generated Crc16 InputStream Header BasicReader Fs FsRun Reader Glob ListOut
  CliFilter CliExtract CliMain P_HeaderSafe P_CliSafe P_CliOrder P_FsConfine P_FsLinks P_CliPath P_CliConfine P_CliConfineLate
  P_CliMembers P_CliConfineBytes.
Local Open Scope N_scope.

Definition file_stream (A : list N) : istream := stream_of (mk_source KFile A).

(* ---- the F5 witness ---- *)
Example f5_members :
  members_of mktime_utc ex_opts (file_stream f5_archive) =
    [([116; 47], None);                                                          (* t/ *)
     ([115], Some [116]);                                                        (* s -> t *)
     ([115; 47; 112], Some [47; 120]);                                           (* s/p -> /x *)
     ([117; 117; 117; 117; 117; 117; 117; 117], Some [47; 111; 117; 116; 115; 105; 100; 101]);   (* uuuuuuuu -> /outside *)
     ([115], Some [117; 117; 117; 117; 117; 117; 117; 117])].                    (* s -> uuuuuuuu *)
Proof. vm_compute. reflexivity. Qed.

Example f5_test_false : confinement_test mktime_utc ex_opts (file_stream f5_archive) = false.
Proof. vm_compute. reflexivity. Qed.

Example alias_test_false : confinement_test mktime_utc ex_opts (file_stream alias_archive) = false.
Proof. vm_compute. reflexivity. Qed.

(* ---- an ordinary archive with a safe and a dangerous link ---- *)
Example example_members :
  members_of mktime_utc ex_opts (file_stream example_archive) =
    [([100; 47], None);                                   (* d/ *)
     ([100; 47; 102], None);                              (* d/f *)
     ([100; 47; 115], Some [102]);                        (* d/s -> f *)
     ([100; 47; 120], Some [46; 46; 47; 121])].           (* d/x -> ../y *)
Proof. vm_compute. reflexivity. Qed.

Example example_test_true : confinement_test mktime_utc ex_opts (file_stream example_archive) = true.
Proof. vm_compute. reflexivity. Qed.

(* the conclusion by the theorem: the loop as `lha xf /arc/a.lzh` starts it *)
Example example_confined : forall v st,
  extract_archive mktime_utc 0 ex_flt (ex_state example_archive []) = Ok (v, st) ->
  forall o, In o (fs_trace (cs_fs st)) -> below_op [bytes_root] o.
Proof.
  intros v st H.
  assert (B : no_links_below [bytes_root] (fs_root (cs_fs (ex_state example_archive []))))
    by (unfold no_links_below, gtree; vm_compute; repeat split).
  destruct (confined_by_bytes mktime_utc 0 [bytes_root] ex_opts ex_good_w KFile example_archive ex_flt
              (ex_state example_archive []) v st) as (new & En & F).
  - vm_compute. reflexivity.
  - reflexivity.
  - exact B.
  - reflexivity.
  - reflexivity.
  - left. reflexivity.
  - exact example_test_true.
  - exact H.
  - rewrite En. change (fs_trace (cs_fs (ex_state example_archive []))) with (@nil fsop). rewrite app_nil_r. exact F.
Qed.

(* ... and the hypothesis is met: the run returns *)
Example example_run_returns : exists st,
  extract_archive mktime_utc 0 ex_flt (ex_state example_archive []) = Ok (RVal true, st) /\
  length (fs_trace (cs_fs st)) = 12%nat.
Proof. eexists. split; vm_compute; reflexivity. Qed.

(* the whole tool, any clock, user, time stamp and standard input: by the theorem *)
Example example_cli_confined : forall mktime' localtime strerror uid0 now mt stdin r,
  confinement_test mktime' ex_opts (file_stream example_archive) = true ->
  cli_run mktime' localtime strerror uid0 now mt mkdir_argv example_archive stdin [] = Ok r ->
  forall op, In op (fs_trace (cr_fs r)) -> below_op [bytes_root] op.
Proof.
  intros mktime' localtime strerror uid0 now mt stdin r Ht H.
  apply (cli_arc_confined_by_bytes mktime' localtime strerror uid0 now mt mkdir_argv example_archive stdin r
           MODE_EXTRACT ex_opts []); [vm_compute; reflexivity|exact ex_good_w|vm_compute; reflexivity|exact Ht|exact H].
Qed.

Example example_cli_confined_utc : forall localtime strerror uid0 now mt stdin r,
  cli_run mktime_utc localtime strerror uid0 now mt mkdir_argv example_archive stdin [] = Ok r ->
  forall op, In op (fs_trace (cr_fs r)) -> below_op [bytes_root] op.
Proof. intros localtime strerror uid0 now mt stdin r. apply example_cli_confined. exact example_test_true. Qed.

Example example_cli_returns : exists r,
  cli_run mktime_utc gmtime_utc (fun _ => []) false 1300000000 1200000000 mkdir_argv example_archive [] [] = Ok r /\
  cr_exit r = 0 /\ length (fs_trace (cr_fs r)) = 12%nat.
Proof. eexists. split; [vm_compute; reflexivity|]. split; vm_compute; reflexivity. Qed.

(* ---- the archive on standard input and the overwrite prompt ---- *)
Definition dash_argv : list (list N) := [[108; 104; 97]; [120]; [45]].                    (* lha x - *)
Definition dash_opts : lha_options :=
  match parse_main (tl dash_argv) with Some (_, o, _, _) => o | None => init_options end.

(* member a: level 2, -lh0-, 2 bytes "y\n" (CRC 0x97a3), name a, permissions 0100644 *)
Definition member_a : list N :=
  [35;0;45;108;104;48;45;2;0;0;0;2;0;0;0;133;226;1;32;32;2;163;151;85;4;0;1;97;5;0;80;164;129;0;0;121;10].
Definition stdin_archive : list N := member_a ++ [0; 0] ++ f5_archive.
Definition file_a_setup : list op := [OFopen [97] None [1]].                              (* /root/a exists *)

Definition dash_state : cli_state :=
  {| cs_fs := cli_fs_init false [] 1200000000 file_a_setup;
     cs_reader := lha_reader_new (lha_input_stream_new (mk_source KPipe stdin_archive));
     cs_opts := dash_opts; cs_stdin := []; cs_stdin_shared := true; cs_out := []; cs_err := [] |}.

(* the header the loop obtains in its second iteration *)
Definition dash_second : option header :=
  match extract_archive_step mktime_utc 0 (lha_filter_init []) (true, dash_state) with
  | Ok (inl s1) =>
    match next_header mktime_utc (lha_filter_init []) (snd s1) with
    | Ok (Some h2, _) => Some h2
    | _ => None
    end
  | _ => None
  end.

Lemma dash_second_presented h2 : dash_second = Some h2 -> presents mktime_utc 0 (lha_filter_init []) dash_state h2.
Proof.
  unfold dash_second.
  destruct (extract_archive_step mktime_utc 0 (lha_filter_init []) (true, dash_state)) as [[[b1 s1]|x]| |] eqn:E1;
    [|intros X; discriminate X..].
  cbn [snd].
  destruct (next_header mktime_utc (lha_filter_init []) s1) as [[[h|] s2]| |] eqn:E2;
    [|intros X; discriminate X..].
  intros E. injection E as <-.
  exists 1%nat, b1, s1, s2. split; [econstructor; [exact E1|constructor]|exact E2].
Qed.

Definition same_name (x y : header) : bool :=
  bytes_eqb (opt_str (h_path x)) (opt_str (h_path y)) && bytes_eqb (opt_str (h_filename x)) (opt_str (h_filename y)).

Lemma same_name_refl x : same_name x x = true.
Proof.
  assert (R : forall l, bytes_eqb l l = true).
  { intros l. unfold bytes_eqb. rewrite N.eqb_refl. cbn [andb].
    induction l as [|a l IH]; [reflexivity|]. cbn [combine forallb fst snd]. rewrite N.eqb_refl. exact IH. }
  unfold same_name. rewrite !R. reflexivity.
Qed.

Theorem stdin_prompt_refuted :
  (* the archive, as plain iteration sees it: one member, the test passes *)
  members_of mktime_utc dash_opts (stream_of (mk_source KPipe stdin_archive)) = [([97], None)] /\
  confinement_test mktime_utc dash_opts (stream_of (mk_source KPipe stdin_archive)) = true /\
  (* the start: no link below /root, w= not given; but the prompt shares the stream *)
  no_links_below [bytes_root] (fs_root (cs_fs dash_state)) /\ good_w dash_opts /\
  ~ no_shared_prompt dash_state /\
  (* the loop obtains headers that are not headers of the stream *)
  (exists hd, presents mktime_utc 0 (lha_filter_init []) dash_state hd /\
              ~ In hd (stream_headers mktime_utc (stream_of (mk_source KPipe stdin_archive)))) /\
  (* and the run of the tool leaves /root *)
  exists r, cli_run mktime_utc gmtime_utc (fun _ => []) false 1300000000 1200000000 dash_argv [] stdin_archive file_a_setup = Ok r /\
    cr_fs r <> cs_fs dash_state /\
    hd_error (fs_trace (cr_fs r)) = Some (OpSymlink [bytes_outside; [112]] [47; 120]) /\
    existsb leaves_root (fs_trace (cr_fs r)) = true.
Proof.
  split; [vm_compute; reflexivity|]. split; [vm_compute; reflexivity|].
  split; [unfold no_links_below, gtree; vm_compute; repeat split|]. split; [exact I|].
  split.
  { intros [E|E]; [discriminate E|]. apply E. vm_compute. reflexivity. }
  split.
  - (* the second header the loop obtains: t/ of the F5 archive *)
    assert (E : exists h2, dash_second = Some h2 /\
                  existsb (same_name h2) (stream_headers mktime_utc (stream_of (mk_source KPipe stdin_archive))) = false).
    { eexists. split; [vm_compute; reflexivity|vm_compute; reflexivity]. }
    destruct E as (h2 & E2 & Eb). exists h2. split; [apply dash_second_presented; exact E2|].
    intros Hin. apply Bool.not_true_iff_false in Eb. apply Eb. apply existsb_exists. exists h2.
    split; [exact Hin|apply same_name_refl].
  - eexists. split; [vm_compute; reflexivity|]. split; [|split; vm_compute; reflexivity].
    intros E. apply (f_equal (fun f => length (fs_trace f))) in E. vm_compute in E. discriminate E.
Qed.

(* with option f (no prompt) the same command line is covered by the theorem: here the test on the
   whole of standard input is what it should be -- plain iteration meets the end-of-archive marker *)
Example dash_force_confined : forall localtime strerror now k stdin s r,
  lha_main mktime_utc 0 localtime now k strerror [[108; 104; 97]; [120; 102]; [45]] stdin s = Ok r ->
  fs_cwd s = [bytes_root] -> no_links_below [bytes_root] (fs_root s) ->
  nlen stdin < 1099511627776 ->
  confinement_test mktime_utc ex_opts (stream_of (mk_source k stdin)) = true ->
  exists new, fs_trace (cr_fs r) = new ++ fs_trace s /\ forall op, In op new -> below_op [bytes_root] op.
Proof.
  intros localtime strerror now k stdin s r H Hc Hn Hb Ht.
  destruct (lha_main_confined_by_bytes mktime_utc 0 localtime now k strerror [bytes_root]
              [[108; 104; 97]; [120; 102]; [45]] stdin s r MODE_EXTRACT ex_opts [45] [] H) as [X _];
    [vm_compute; reflexivity|exact ex_good_w|exact Hc|exact Hn|exact Hb|intros _; vm_compute; discriminate|exact Ht|exact X].
Qed.

Print Assumptions f5_members.
Print Assumptions f5_test_false.
Print Assumptions alias_test_false.
Print Assumptions example_members.
Print Assumptions example_test_true.
Print Assumptions example_confined.
Print Assumptions example_run_returns.
Print Assumptions example_cli_confined.
Print Assumptions example_cli_confined_utc.
Print Assumptions example_cli_returns.
Print Assumptions stdin_prompt_refuted.
Print Assumptions dash_force_confined.

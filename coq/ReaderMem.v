(* ReaderMem.v -- ownership ledger of lib/lha_reader.c, lib/lha_basic_reader.c and
   the reference counts of lib/lha_file_header.c (property C20).

   The ledger is a skeleton of the reader: headers are abstract ids with a
   reference count, decoders are abstract ids that are live or not, and the
   reader holds ids where the C holds pointers.  Every API operation is a
   function of the skeleton and of a small record of decisions -- the facts
   about the archive and the filesystem that the C consults (did the basic
   reader parse another header and of what kind, did end_of_top_dir say pop,
   did mkdir / fopen / the MacBinary pass-through succeed, ...).  The ledger
   mirrors what the C does at each allocation, add_ref and free call site, not
   what it should do: freeing or using a released id is a Fault with its own
   site number, a pointer to a live decoder that is overwritten stays in the
   set of live decoders (and raises [d_overwrote]).

   Second part: the decisions computed from a run of the concrete model
   Reader.v, so that ledger and concrete model run in lock step and the ledger
   predicts the allocator's live block count after every call (compared with
   the C by harness/py/test_rdr.py --mem).

   Definitions only. *)
From Lhasa Require Import Base DecBase Generated InputStream Header BasicReader AnyDecoder Decoder
  MacBinary Fs FsRun Reader.

(* ================================================================== *)
(* Part 1: the skeleton                                                *)

(* what an entry is for lha_reader_check / lha_reader_extract *)
Inductive ekind : Type :=
| K_file                        (* compress_method != "-lhd-" *)
| K_dir                         (* "-lhd-", symlink_target == NULL *)
| K_link (dangerous : bool).    (* "-lhd-", symlink_target != NULL *)

(* facts about one parsed header *)
Record hinfo := {
  hi_blocks : nat;      (* heap blocks the LHAFileHeader owns: see blocks_of_header *)
  hi_kind : ekind;
  hi_known : bool;      (* lha_decoder_for_name(compress_method) != NULL *)
  hi_mac : bool         (* os_type == LHA_OS_TYPE_MACOS *)
}.
Definition hinfo0 : hinfo := {| hi_blocks := 0; hi_kind := K_file; hi_known := false; hi_mac := false |}.

(* the decisions one API call consults *)
Record decision := {
  dc_header : option hinfo;  (* lha_basic_reader_next_file: lha_file_header_read returned this header *)
  dc_pop : bool;             (* end_of_top_dir, when there is a directory on the stack and an input header *)
  dc_pt_ok : bool;           (* lha_macbinary_passthrough returned a decoder *)
  dc_explicit : bool;        (* the caller passed a filename (no temporary path string) *)
  dc_mkdir_ok : bool;        (* lha_arch_mkdir succeeded *)
  dc_fopen_ok : bool;        (* lha_arch_fopen succeeded *)
  dc_pos : nat               (* extract_placeholder_symlink: list elements the rover skips *)
}.

(* ---- headers: lha_file_header.c reference counts ---- *)
Record hmem := {
  h_heap : list (nat * hinfo);     (* id = position; (reference count, facts); count 0 = released *)
  h_br : option nat;               (* LHABasicReader.curr_file *)
  h_curr : option nat;             (* LHAReader.curr_file *)
  h_type : curr_type;              (* LHAReader.curr_file_type *)
  h_stack : list nat;              (* dir_stack, top first *)
  h_deferred : list nat;           (* deferred_symlinks *)
  h_linked : bool                  (* curr_file->_next is in use (cf. Reader.rd_linked) *)
}.

Definition set_heap (h : hmem) (hp : list (nat * hinfo)) : hmem :=
  {| h_heap := hp; h_br := h_br h; h_curr := h_curr h; h_type := h_type h; h_stack := h_stack h;
     h_deferred := h_deferred h; h_linked := h_linked h |}.
Definition set_br (h : hmem) (b : option nat) (linked : bool) : hmem :=
  {| h_heap := h_heap h; h_br := b; h_curr := h_curr h; h_type := h_type h; h_stack := h_stack h;
     h_deferred := h_deferred h; h_linked := linked |}.
Definition set_curr (h : hmem) (c : option nat) (t : curr_type) (st df : list nat) : hmem :=
  {| h_heap := h_heap h; h_br := h_br h; h_curr := c; h_type := t; h_stack := st;
     h_deferred := df; h_linked := h_linked h |}.
Definition set_lists (h : hmem) (st df : list nat) : hmem :=
  {| h_heap := h_heap h; h_br := h_br h; h_curr := h_curr h; h_type := h_type h; h_stack := st;
     h_deferred := df; h_linked := true |}.

Definition rc (h : hmem) (i : nat) : nat := fst (nth i (h_heap h) (0, hinfo0)).

Fixpoint replace_nth {A} (l : list A) (i : nat) (v : A) : list A :=
  match l, i with
  | [], _ => []
  | _ :: r, O => v :: r
  | x :: r, S k => x :: replace_nth r k v
  end.

(* lha_file_header_free(header): --_refcount, release at 0.  On a released
   header the C reads freed memory. *)
Definition hfree (site : N) (h : hmem) (i : nat) : outcome hmem :=
  match nth_error (h_heap h) i with
  | Some (S k, inf) => Ok (set_heap h (replace_nth (h_heap h) i (k, inf)))
  | _ => Fault site
  end.

(* lha_file_header_add_ref(header) *)
Definition haddref (site : N) (h : hmem) (i : nat) : outcome hmem :=
  match nth_error (h_heap h) i with
  | Some (S k, inf) => Ok (set_heap h (replace_nth (h_heap h) i (S (S k), inf)))
  | _ => Fault site
  end.

(* a read through the pointer *)
Definition huse (site : N) (h : hmem) (i : nat) : outcome hinfo :=
  match nth_error (h_heap h) i with
  | Some (S _, inf) => Ok inf
  | _ => Fault site
  end.

(* lha_file_header_read returned a header: _refcount = 1 *)
Definition hnew (h : hmem) (inf : hinfo) : hmem * nat :=
  (set_heap h (h_heap h ++ [(1, inf)]), length (h_heap h)).

(* lha_basic_reader_next_file *)
Definition basic_next_file (h : hmem) (d : decision) : outcome hmem :=
  h1 <- match h_br h with
        | Some i => h' <- hfree 1501%N h i ;; Ok (set_br h' None false)
        | None => Ok (set_br h None false)
        end ;;
  match dc_header d with
  | None => Ok h1
  | Some inf => let '(h2, i) := hnew h1 inf in Ok (set_br h2 (Some i) false)
  end.

Fixpoint insert_at {A} (l : list A) (n : nat) (v : A) : list A :=
  match n, l with
  | S k, x :: r => x :: insert_at r k v
  | _, _ => v :: l
  end.

(* lha_reader_next_file from "Pop off all appropriate directories from the stack first" on:
   end_of_top_dir, the choice of the new current entry, the deferred symlinks *)
Definition hnext_select (h2 : hmem) (d : decision) : outcome hmem :=
  (* end_of_top_dir: reads dir_stack->path and the input header's path *)
  pop <- match h_stack h2 with
         | [] => Ok false
         | top :: _ =>
           match h_br h2 with
           | None => Ok true
           | Some i => _ <- huse 1504%N h2 top ;; _ <- huse 1505%N h2 i ;; Ok (dc_pop d)
           end
         end ;;
  let h3 := if pop then
              match h_stack h2 with
              | top :: rest => set_curr h2 (Some top) CT_FAKE_DIR rest (h_deferred h2)
              | [] => h2
              end
            else set_curr h2 (h_br h2) CT_NORMAL (h_stack h2) (h_deferred h2) in
  match h_curr h3 with
  | Some _ => Ok h3
  | None =>
    match h_deferred h3 with
    | l :: rest => Ok (set_curr h3 (Some l) CT_DEFERRED_SYMLINK (h_stack h3) rest)
    | [] => Ok (set_curr h3 None CT_EOF (h_stack h3) [])
    end
  end.

(* the header part of lha_reader_next_file (after close_decoder) *)
Definition hnext (h : hmem) (d : decision) : outcome hmem :=
  match h_type h with
  | CT_EOF => Ok h
  | CT_START | CT_NORMAL =>
    h1 <- basic_next_file h d ;;
    hnext_select h1 d
  | CT_FAKE_DIR | CT_DEFERRED_SYMLINK =>
    (* lha_file_header_free(reader->curr_file) *)
    h2 <- match h_curr h with
          | Some c => hfree 1502%N h c
          | None => Fault 1503%N
          end ;;
    hnext_select h2 d
  end.

(* curr_file->_next = <list>; lha_file_header_add_ref(curr_file) *)
Definition hlink (site : N) (h : hmem) (c : nat) (st df : list nat) : outcome hmem :=
  if h_linked h then Fault site else
  h1 <- haddref (site + 1)%N h c ;;
  Ok (set_lists h1 st df).

Fixpoint hfree_all (site : N) (h : hmem) (l : list nat) : outcome hmem :=
  match l with
  | [] => Ok h
  | i :: r => h' <- hfree site h i ;; hfree_all site h' r
  end.

(* the header part of lha_reader_free followed by lha_basic_reader_free *)
Definition hfree_reader (h : hmem) : outcome hmem :=
  h1 <- hfree_all 1506%N h (h_stack h) ;;
  h2 <- hfree_all 1507%N h1 (h_deferred h) ;;
  h3 <- match h_type h with
        | CT_FAKE_DIR | CT_DEFERRED_SYMLINK =>
          match h_curr h with Some c => hfree 1508%N h2 c | None => Fault 1509%N end
        | _ => Ok h2
        end ;;
  h4 <- match h_br h with Some i => hfree 1510%N h3 i | None => Ok h3 end ;;
  Ok {| h_heap := h_heap h4; h_br := None; h_curr := None; h_type := CT_EOF; h_stack := []; h_deferred := [];
        h_linked := false |}.

(* ---- decoders: open_decoder / close_decoder ---- *)
Record dmem := {
  d_decoder : option nat;      (* reader->decoder *)
  d_inner_p : option nat;      (* reader->inner_decoder *)
  d_live : list nat;           (* decoder objects that have been allocated and not freed *)
  d_next : nat;                (* next fresh decoder id *)
  d_overwrote : bool           (* a pointer to a live decoder was overwritten outside close_decoder *)
}.

Definition dmem0 : dmem := {| d_decoder := None; d_inner_p := None; d_live := []; d_next := 0; d_overwrote := false |}.

Fixpoint remove_id (l : list nat) (i : nat) : list nat :=
  match l with
  | [] => []
  | x :: r => if Nat.eqb x i then r else x :: remove_id r i
  end.
Definition mem_id (l : list nat) (i : nat) : bool := existsb (Nat.eqb i) l.

(* lha_decoder_free *)
Definition dfree (site : N) (d : dmem) (i : nat) : outcome dmem :=
  if mem_id (d_live d) i then
    Ok {| d_decoder := d_decoder d; d_inner_p := d_inner_p d; d_live := remove_id (d_live d) i;
          d_next := d_next d; d_overwrote := d_overwrote d |}
  else Fault site.

Definition set_ptrs (d : dmem) (dec inn : option nat) : dmem :=
  {| d_decoder := dec; d_inner_p := inn; d_live := d_live d; d_next := d_next d;
     d_overwrote := d_overwrote d
                    || (match d_decoder d, dec with
                        | Some a, Some b => negb (Nat.eqb a b) && mem_id (d_live d) a
                        | Some a, None => mem_id (d_live d) a
                        | None, _ => false
                        end)
                    || (match d_inner_p d, inn with
                        | Some a, Some b => negb (Nat.eqb a b) && mem_id (d_live d) a
                        | Some a, None => mem_id (d_live d) a
                        | None, _ => false
                        end) |}.

(* lha_decoder_new: one calloc *)
Definition dnew (d : dmem) : dmem * nat :=
  ({| d_decoder := d_decoder d; d_inner_p := d_inner_p d; d_live := d_next d :: d_live d;
      d_next := S (d_next d); d_overwrote := d_overwrote d |}, d_next d).

(* close_decoder: the assignments of NULL follow a free, nothing is lost *)
Definition close_decoder_m (d : dmem) : outcome dmem :=
  d1 <- match d_decoder d with
        | Some a =>
          let inn := match d_inner_p d with
                     | Some b => if Nat.eqb a b then None else Some b
                     | None => None
                     end in
          d' <- dfree 1520%N d a ;;
          Ok {| d_decoder := None; d_inner_p := inn; d_live := d_live d'; d_next := d_next d';
                d_overwrote := d_overwrote d' |}
        | None => Ok d
        end ;;
  match d_inner_p d1 with
  | Some b =>
    d' <- dfree 1521%N d1 b ;;
    Ok {| d_decoder := None; d_inner_p := None; d_live := d_live d'; d_next := d_next d';
          d_overwrote := d_overwrote d' |}
  | None => Ok d1
  end.

(* open_decoder for a CURR_FILE_NORMAL entry with facts inf; returns its result *)
Definition open_decoder_m (d : dmem) (inf : hinfo) (dc : decision) : outcome (bool * dmem) :=
  if negb (hi_known inf) then
    (* reader->inner_decoder = lha_basic_reader_decode(...) = NULL *)
    Ok (false, set_ptrs d (d_decoder d) None)
  else
    let '(d1, i) := dnew d in
    let d2 := set_ptrs d1 (d_decoder d1) (Some i) in
    if hi_mac inf then
      if dc_pt_ok dc then
        let '(d3, o) := dnew d2 in
        Ok (true, set_ptrs d3 (Some o) (Some i))
      else
        (* reader->decoder = NULL; lha_decoder_free(reader->inner_decoder); reader->inner_decoder = NULL *)
        let d3 := set_ptrs d2 None (Some i) in
        d4 <- dfree 1522%N d3 i ;;
        Ok (false, {| d_decoder := None; d_inner_p := None; d_live := d_live d4; d_next := d_next d4;
                      d_overwrote := d_overwrote d4 |})
    else Ok (true, set_ptrs d2 (Some i) (Some i)).

(* ---- the whole ledger ---- *)
Record mem := {
  m_h : hmem;
  m_d : dmem;
  m_plain : bool;       (* dir_policy == LHA_READER_DIR_PLAIN *)
  m_tmp : nat;          (* live temporary path strings (lha_file_header_full_path) *)
  m_files : nat;        (* FILE handles the library has open *)
  m_structs : nat       (* LHAInputStream, LHABasicReader, LHAReader *)
}.

Definition mk (m : mem) (h : hmem) (d : dmem) (tmp files : nat) : mem :=
  {| m_h := h; m_d := d; m_plain := m_plain m; m_tmp := tmp; m_files := files; m_structs := m_structs m |}.

(* lha_input_stream_new / lha_reader_new (with lha_basic_reader_new) *)
Definition mem_new (plain : bool) : mem :=
  {| m_h := {| h_heap := []; h_br := None; h_curr := None; h_type := CT_START; h_stack := []; h_deferred := [];
               h_linked := false |};
     m_d := dmem0; m_plain := plain; m_tmp := 0; m_files := 0; m_structs := 3 |}.

Inductive op : Type := ONext | ORead | OCheck | OExtract.

Definition m_next (m : mem) (dc : decision) : outcome mem :=
  d1 <- close_decoder_m (m_d m) ;;
  h1 <- hnext (m_h m) dc ;;
  Ok (mk m h1 d1 (m_tmp m) (m_files m)).

(* the facts of reader->curr_file *)
Definition curr_info (site : N) (m : mem) : outcome (nat * hinfo) :=
  match h_curr (m_h m) with
  | Some c => inf <- huse site (m_h m) c ;; Ok (c, inf)
  | None => Fault site
  end.

Definition m_open (m : mem) (dc : decision) : outcome (bool * mem) :=
  match h_type (m_h m) with
  | CT_NORMAL =>
    '(_, inf) <- curr_info 1530%N m ;;
    '(ok, d1) <- open_decoder_m (m_d m) inf dc ;;
    Ok (ok, mk m (m_h m) d1 (m_tmp m) (m_files m))
  | _ => Ok (false, m)
  end.

Definition m_read (m : mem) (dc : decision) : outcome mem :=
  match d_decoder (m_d m) with
  | Some a => if mem_id (d_live (m_d m)) a then Ok m else Fault 1531%N       (* lha_decoder_read(reader->decoder) *)
  | None => '(_, m1) <- m_open m dc ;; Ok m1
  end.

Definition m_check (m : mem) (dc : decision) : outcome mem :=
  match h_type (m_h m) with
  | CT_NORMAL =>
    '(_, inf) <- curr_info 1532%N m ;;
    match hi_kind inf with
    | K_file => '(_, m1) <- m_open m dc ;; Ok m1     (* do_decode reads from the decoder just opened *)
    | _ => Ok m
    end
  | _ => Ok m
  end.

(* tmp_filename = lha_file_header_full_path(curr_file) unless a name was passed *)
Definition tmp_alloc (m : mem) (dc : decision) : mem :=
  if dc_explicit dc then m else mk m (m_h m) (m_d m) (S (m_tmp m)) (m_files m).
Definition tmp_free (m : mem) (dc : decision) : mem :=
  if dc_explicit dc then m else mk m (m_h m) (m_d m) (pred (m_tmp m)) (m_files m).

Definition m_extract (m : mem) (dc : decision) : outcome mem :=
  match h_type (m_h m) with
  | CT_NORMAL =>
    '(c, inf) <- curr_info 1533%N m ;;
    match hi_kind inf with
    | K_file =>
      (* extract_file *)
      let m1 := tmp_alloc m dc in
      '(ok, m2) <- m_open m1 dc ;;
      (* fstream = open_output_file(); do_decode(); fclose(fstream) *)
      let m3 := if ok && dc_fopen_ok dc
                then mk m2 (m_h m2) (m_d m2) (m_tmp m2) (pred (S (m_files m2))) else m2 in
      Ok (tmp_free m3 dc)
    | K_link dangerous =>
      (* extract_symlink *)
      let m1 := tmp_alloc m dc in
      if dangerous then
        (* extract_placeholder_symlink: f = lha_arch_fopen(); fclose(f); link; add_ref *)
        if dc_fopen_ok dc then
          h1 <- hlink 1511%N (m_h m1) c (h_stack (m_h m1)) (insert_at (h_deferred (m_h m1)) (dc_pos dc) c) ;;
          Ok (tmp_free (mk m1 h1 (m_d m1) (m_tmp m1) (m_files m1)) dc)
        else Ok (tmp_free m1 dc)
      else Ok (tmp_free m1 dc)
    | K_dir =>
      (* extract_directory *)
      if dc_mkdir_ok dc && negb (m_plain m) then
        h1 <- hlink 1513%N (m_h m) c (c :: h_stack (m_h m)) (h_deferred (m_h m)) ;;
        Ok (mk m h1 (m_d m) (m_tmp m) (m_files m))
      else Ok m
    end
  | CT_FAKE_DIR =>
    (* set_directory_metadata(curr_file, curr_file->path) *)
    '(_, _) <- curr_info 1534%N m ;; Ok m
  | CT_DEFERRED_SYMLINK =>
    (* extract_symlink, never the placeholder *)
    '(_, _) <- curr_info 1535%N m ;; Ok (tmp_free (tmp_alloc m dc) dc)
  | _ => Ok m
  end.

Definition m_step (m : mem) (o : op) (dc : decision) : outcome mem :=
  match o with
  | ONext => m_next m dc
  | ORead => m_read m dc
  | OCheck => m_check m dc
  | OExtract => m_extract m dc
  end.

Fixpoint m_run (m : mem) (l : list (op * decision)) : outcome mem :=
  match l with
  | [] => Ok m
  | (o, dc) :: r => m' <- m_step m o dc ;; m_run m' r
  end.

(* lha_reader_free (close_decoder, the lists, a fake current entry, lha_basic_reader_free, the struct) *)
Definition m_free_reader (m : mem) : outcome mem :=
  d1 <- close_decoder_m (m_d m) ;;
  h1 <- hfree_reader (m_h m) ;;
  Ok {| m_h := h1; m_d := d1; m_plain := m_plain m; m_tmp := m_tmp m; m_files := m_files m;
        m_structs := m_structs m - 2 |}.

(* lha_input_stream_free *)
Definition m_free_stream (m : mem) : mem :=
  {| m_h := m_h m; m_d := m_d m; m_plain := m_plain m; m_tmp := m_tmp m; m_files := m_files m;
     m_structs := m_structs m - 1 |}.

(* ---- what the allocator sees ---- *)
Definition header_blocks (h : hmem) : nat :=
  fold_right (fun c acc => (match fst c with O => 0 | S _ => hi_blocks (snd c) end) + acc) 0 (h_heap h).

Definition live_blocks (m : mem) : nat :=
  m_structs m + header_blocks (m_h m) + length (d_live (m_d m)) + m_tmp m.

(* nothing is held any more *)
Definition ledger_empty (m : mem) : Prop :=
  (forall i, rc (m_h m) i = 0) /\ d_live (m_d m) = [] /\ m_tmp m = 0 /\ m_files m = 0 /\ m_structs m = 0.

(* ================================================================== *)
(* Part 2: lock step with the concrete model                           *)

(* Heap blocks owned by one LHAFileHeader (lib/lha_file_header.c, lib/ext_header.c):
   the struct with its raw data (one block: calloc in lha_file_header_read, grown
   in place by realloc in extend_raw_data) and one block for each of filename,
   path, symlink_target, unix_username, unix_group that is not NULL -- each is
   assigned by malloc/strdup after the previous value has been freed
   (process_level0_path, split_header_filename, parse_symlink, the 0x01 / 0x02 /
   0x52 / 0x53 extended headers); lha_file_header_free frees exactly these. *)
Definition opt_block {A} (o : option A) : N := match o with Some _ => 1 | None => 0 end.
Definition blocks_of_header (h : header) : N :=
  (1 + opt_block (h_filename h) + opt_block (h_path h) + opt_block (h_symlink_target h)
     + opt_block (h_unix_username h) + opt_block (h_unix_group h))%N.

Section LockStep.
  Variable mktime : N -> N -> N -> N -> Z -> N -> N.
  Variable junk : N.

  Definition hinfo_of (h : header) : hinfo :=
    {| hi_blocks := N.to_nat (blocks_of_header h);
       hi_kind := if is_dir_method h then
                    match h_symlink_target h with
                    | Some _ => K_link (is_dangerous_symlink h)
                    | None => K_dir
                    end
                  else K_file;
       hi_known := match lha_decoder_for_name (cstr (h_method h)) with Some _ => true | None => false end;
       hi_mac := (h_os_type h =? OS_TYPE_MACOS)%N |}.

  (* number of list elements extract_placeholder_symlink's rover skips *)
  Fixpoint rover_pos (l : list header) (h : header) : nat :=
    match l with
    | [] => 0
    | x :: r => if (file_header_path_len h <? file_header_path_len x)%N then S (rover_pos r h) else 0
    end.

  (* decisions of a call that took the concrete reader from r to r' *)
  Definition decide (o : op) (explicit : bool) (r r' : reader) : decision :=
    {| dc_header := match o, rd_type r with
                    | ONext, (CT_START | CT_NORMAL) =>
                      match br_curr (rd_br r') with Some h => Some (hinfo_of h) | None => None end
                    | _, _ => None
                    end;
       dc_pop := match rd_type r' with CT_FAKE_DIR => true | _ => false end;
       dc_pt_ok := match rd_decoder r' with Some _ => true | None => false end;
       dc_explicit := explicit;
       dc_mkdir_ok := Nat.ltb (length (rd_dir_stack r)) (length (rd_dir_stack r'));
       dc_fopen_ok := match rd_curr r with
                      | Some h => match h_symlink_target h with
                                  | Some _ => Nat.ltb (length (rd_deferred r)) (length (rd_deferred r'))
                                  | None => true
                                  end
                      | None => true
                      end;
       dc_pos := match rd_curr r with Some h => rover_pos (rd_deferred r) h | None => 0 end |}.

  Definition ls_next (s : reader * mem) : outcome (option header * (reader * mem)) :=
    let '(r, m) := s in
    '(h, r') <- lha_reader_next_file mktime r ;;
    m' <- m_step m ONext (decide ONext false r r') ;;
    Ok (h, (r', m')).

  Definition ls_read (s : reader * mem) (n : N) : outcome (list N * list (N * N) * (reader * mem)) :=
    let '(r, m) := s in
    '(o, ev, r') <- lha_reader_read junk r n ;;
    m' <- m_step m ORead (decide ORead false r r') ;;
    Ok (o, ev, (r', m')).

  Definition ls_check (s : reader * mem) (monitor : bool) : outcome (bool * list (N * N) * (reader * mem)) :=
    let '(r, m) := s in
    '(ok, ev, r') <- lha_reader_check junk r monitor ;;
    m' <- m_step m OCheck (decide OCheck false r r') ;;
    Ok (ok, ev, (r', m')).

  Definition ls_extract (s : reader * mem) (f : fs) (filename : option (list N)) (monitor : bool)
    : outcome (bool * list (N * N) * (reader * mem) * fs) :=
    let '(r, m) := s in
    '(ok, ev, r', f') <- lha_reader_extract junk r f filename monitor ;;
    m' <- m_step m OExtract (decide OExtract (match filename with Some _ => true | None => false end) r r') ;;
    Ok (ok, ev, (r', m'), f').
End LockStep.

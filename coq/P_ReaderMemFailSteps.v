(* P_ReaderMemFailSteps.v -- the allocation steps that the lock-step driver reads
   off the upcoming header bytes (ReaderMemFail.parse_steps, all four header
   levels) always come in an order the construction ledger accepts (wf_steps);
   hence the decisions the lock-step driver computes satisfy wf_decisions, and
   the second half of property C20 holds of the lock-step run itself, from any
   archive bytes, without that premise. *)
From Coq Require Import List Arith Lia Bool PeanoNat.
From Lhasa Require Import Base Loop Generated InputStream Header BasicReader Fs FsRun Reader ReaderMem P_ReaderMem
  ReaderMemFail P_ReaderMemFail.
Import ListNotations.

(* ------------------------------------------------------------------ *)
(* Shapes of step lists                                                *)

(* only extend_raw_data and string-valued extended headers *)
Definition re_only (l : list hstep) : bool :=
  forallb (fun s => match s with HS_realloc | HS_ext _ => true | _ => false end) l.

Lemma re_only_app a b : re_only (a ++ b) = re_only a && re_only b.
Proof. unfold re_only. apply forallb_app. Qed.

Lemma wf_tail_app a b : re_only a = true -> wf_steps_tail (a ++ b) = wf_steps_tail b.
Proof.
  induction a as [|x r IH]; intros Hr; [reflexivity|].
  simpl in Hr. apply andb_true_iff in Hr. destruct Hr as [Hx Hr].
  destruct x; try discriminate; simpl; apply (IH Hr).
Qed.

Lemma wf_tail_wf l : wf_steps_tail l = true -> wf_steps l = true.
Proof.
  induction l as [|x r IH]; intros H; [reflexivity|].
  destruct x; simpl in *.
  - apply (IH H).
  - destruct r; discriminate.
  - exact H.
  - exact H.
Qed.

(* the tail a parse can add after its extended headers *)
Definition sym_tail (t : list hstep) : Prop := t = [] \/ exists b s, t = [HS_symlink b s].
(* what levels 0/1 produce before the extended headers *)
Definition l01_pre (p : list hstep) : Prop := p = [] \/ p = [HS_realloc] \/ exists b, p = [HS_realloc; HS_l0_path b].

Lemma wf_tail_shape a t : re_only a = true -> sym_tail t -> wf_steps_tail (a ++ t) = true.
Proof.
  intros Ha Ht. rewrite (wf_tail_app a t Ha). destruct Ht as [Ht|[b [s Ht]]]; subst; reflexivity.
Qed.

Lemma wf_shape p a t : l01_pre p -> re_only a = true -> sym_tail t -> wf_steps (p ++ a ++ t) = true.
Proof.
  intros Hp Ha Ht. pose proof (wf_tail_shape a t Ha Ht) as Hw.
  destruct Hp as [Hp|[Hp|[b Hp]]]; subst; simpl.
  - apply (wf_tail_wf _ Hw).
  - apply (wf_tail_wf _ Hw).
  - exact Hw.
Qed.

(* ------------------------------------------------------------------ *)
(* Loops                                                               *)

Lemma loops_inv {S R : Type} (step : S -> outcome (S + R)) (I : S -> Prop) (Q : R -> Prop) :
  (forall s s', I s -> step s = Ok (inl s') -> I s') ->
  (forall s r, I s -> step s = Ok (inr r) -> Q r) ->
  forall n s r, loops step n s r -> I s -> Q r.
Proof.
  intros Hc Hd n s r Hl. induction Hl as [s r E|n s s' r E Hl IH]; intros Hi.
  - apply (Hd s r Hi E).
  - apply IH. apply (Hc s s' Hi E).
Qed.

Lemma loop_inv {S R : Type} (step : S -> outcome (S + R)) (I : S -> Prop) (Q : R -> Prop) k s r :
  (forall s s', I s -> step s = Ok (inl s') -> I s') ->
  (forall s r, I s -> step s = Ok (inr r) -> Q r) ->
  loop step k s = Ok r -> I s -> Q r.
Proof.
  intros Hc Hd Hl Hi. destruct (loop_sound step k s r Hl) as [n [Hn _]].
  apply (loops_inv step I Q Hc Hd n s r Hn Hi).
Qed.

Section Steps.
  Variable mktime : N -> N -> N -> N -> Z -> N -> N.

  (* decode_extended_headers adds only HS_ext steps *)
  Lemma ext_shadow_step_acc fs h off av acc x :
    ext_shadow_step fs (h, off, av, acc) = Ok x ->
    match x with
    | inl (_, _, _, acc') => exists t, acc' = acc ++ t /\ re_only t = true
    | inr (_, _, acc') => acc' = acc
    end.
  Proof.
    unfold ext_shadow_step. intros He. cbv beta iota zeta in He.
    apply bind_ok in He. destruct He as [st [_ He]].
    apply bind_ok in He. destruct He as [r [_ He]].
    destruct r as [s'|[ok h']]; inversion He; subst.
    - destruct s' as [[h1 o1] a1]. destruct st as [f|]; eexists; split; try reflexivity.
    - reflexivity.
  Qed.

  Lemma ext_shadow_re h off ok h' s : ext_shadow h off = Ok (ok, h', s) -> re_only s = true.
  Proof.
    unfold ext_shadow. intros He.
    apply (loop_inv _ (fun st : header * N * N * list hstep => re_only (snd st) = true)
                      (fun r : bool * header * list hstep => re_only (snd r) = true) _ _ _) with (3 := He); [| |reflexivity].
    - intros [[[h0 o0] a0] acc] s' Hi E. apply ext_shadow_step_acc in E. destruct s' as [[[h1 o1] a1] acc1].
      destruct E as [t [Et Ht]]. simpl in *. subst acc1. rewrite re_only_app, Hi, Ht. reflexivity.
    - intros [[[h0 o0] a0] acc] [[ok1 h1] acc1] Hi E. apply ext_shadow_step_acc in E. simpl in *. subst. exact Hi.
  Qed.

  (* read_l1_extended_headers adds only HS_realloc steps *)
  Lemma l1_shadow_step_acc h st acc x :
    l1_shadow_step (h, st, acc) = Ok x ->
    exists t, re_only t = true /\
      match x with inl (_, _, acc') => acc' = acc ++ t | inr (_, _, _, acc') => acc' = acc ++ t end.
  Proof.
    unfold l1_shadow_step. intros He. cbv beta iota zeta in He.
    apply bind_ok in He. destruct He as [len [_ He]].
    apply bind_ok in He. destruct He as [r [_ He]].
    exists (if (len =? 0)%N then [] else [HS_realloc]).
    split; [destruct (len =? 0)%N; reflexivity|].
    destruct r as [[h' st']|[[ok h'] st']]; inversion He; subst; destruct (len =? 0)%N; try reflexivity;
      rewrite app_nil_r; reflexivity.
  Qed.

  Lemma l1_shadow_re h st s1 ok h' st' s :
    loop l1_shadow_step 40 (h, st, s1) = Ok (ok, h', st', s) -> exists t, s = s1 ++ t /\ re_only t = true.
  Proof.
    intros He.
    apply (loop_inv _ (fun x : header * istream * list hstep => exists t, snd x = s1 ++ t /\ re_only t = true)
                      (fun r : bool * header * istream * list hstep => exists t, snd r = s1 ++ t /\ re_only t = true)
                      _ _ _) with (3 := He).
    - intros [[h0 st0] acc] s' [t [Et Ht]] E. apply l1_shadow_step_acc in E. destruct E as [u [Hu E]].
      destruct s' as [[h1 st1] acc1]. simpl in *. subst. exists (t ++ u). rewrite app_assoc, re_only_app, Ht, Hu. auto.
    - intros [[h0 st0] acc] [[[ok1 h1] st1] acc1] [t [Et Ht]] E. apply l1_shadow_step_acc in E. destruct E as [u [Hu E]].
      simpl in *. subst. exists (t ++ u). rewrite app_assoc, re_only_app, Ht, Hu. auto.
    - exists []. rewrite app_nil_r. auto.
  Qed.

  Lemma level01_pre h st ok h1 st1 s1 :
    level01_shadow mktime h st = Ok (ok, h1, st1, s1) ->
    l01_pre s1 /\ (ok = false -> s1 = [] \/ s1 = [HS_realloc]).
  Proof.
    unfold level01_shadow. intros He.
    apply bind_ok in He. destruct He as [hl [_ He]].
    apply bind_ok in He. destruct He as [[[ok0 h0] st0] [_ He]].
    destruct (negb ((h_level h =? 0)%N || (h_level h =? 1)%N) || (hl <? (if (h_level h =? 0)%N then hdr_LEVEL_0_MIN_HEADER_LEN else hdr_LEVEL_1_MIN_HEADER_LEN))%N).
    - inversion He; subst. split; [left; reflexivity|auto].
    - destruct (negb ok0).
      + inversion He; subst. split; [right; left; reflexivity|auto].
      + apply bind_ok in He. destruct He as [pl [_ He]].
        apply bind_ok in He. destruct He as [pd [_ He]].
        inversion He; subst. split; [|intros Hx; discriminate].
        destruct pd; [right; left; reflexivity|right; right; eexists; reflexivity].
  Qed.

  (* the steps of one level, before parse_symlink: a levels-0/1 prefix, then reallocs and extended headers *)
  Definition level_shape (s : list hstep) : Prop := exists p a, l01_pre p /\ re_only a = true /\ s = p ++ a.

  Lemma shape_re a : re_only a = true -> level_shape a.
  Proof. intros Ha. exists [], a. split; [left; reflexivity|auto]. Qed.

  Lemma level01_shape h st ok h1 st1 s1 : level01_shadow mktime h st = Ok (ok, h1, st1, s1) -> level_shape s1.
  Proof.
    intros He. destruct (level01_pre _ _ _ _ _ _ He) as [Hp _]. exists s1, []. rewrite app_nil_r. auto.
  Qed.

  Lemma level1_shape h st ok h' s : level1_shadow mktime h st = Ok (ok, h', s) -> level_shape s.
  Proof.
    unfold level1_shadow. intros He.
    apply bind_ok in He. destruct He as [[[[ok1 h1] st1] s1] [E1 He]].
    destruct (level01_pre _ _ _ _ _ _ E1) as [Hp _].
    destruct (negb ok1).
    - inversion He; subst. eexists _, []. rewrite app_nil_r. split; [eassumption|split; reflexivity].
    - apply bind_ok in He. destruct He as [[[[ok2 h2] st2] s2] [E2 He]].
      destruct (l1_shadow_re _ _ _ _ _ _ _ E2) as [t [Et Ht]]. subst s2.
      destruct (negb ok2).
      + inversion He; subst. eexists _, _. split; [eassumption|split; [eassumption|reflexivity]].
      + apply bind_ok in He. destruct He as [[[ok3 h3] s3] [E3 He]].
        inversion He; subst. eexists _, (t ++ _). rewrite re_only_app, Ht, (ext_shadow_re _ _ _ _ _ E3), app_assoc.
        split; [eassumption|split; reflexivity].
  Qed.

  Lemma level2_shape h st ok h' s : level2_shadow h st = Ok (ok, h', s) -> level_shape s.
  Proof.
    unfold level2_shadow. intros He.
    apply bind_ok in He. destruct He as [hl [_ He]].
    destruct (hl <? hdr_LEVEL_2_HEADER_LEN)%N; [inversion He; subst; apply shape_re; reflexivity|].
    apply bind_ok in He. destruct He as [[r st1] [_ He]].
    destruct r as [h1|]; [|inversion He; subst; apply shape_re; reflexivity].
    apply bind_ok in He. destruct He as [h2 [_ He]].
    apply bind_ok in He. destruct He as [[r3 st3] [_ He]].
    destruct r3 as [h3|].
    - apply bind_ok in He. destruct He as [[[ok4 h4] s2] [E4 He]]. inversion He; subst.
      apply shape_re. pose proof (ext_shadow_re _ _ _ _ _ E4) as Hre.
      match goal with |- context [if ?c then _ else _] => destruct c end; simpl; exact Hre.
    - inversion He; subst. apply shape_re.
      match goal with |- context [if ?c then _ else _] => destruct c end; reflexivity.
  Qed.

  Lemma level3_shape h st ok h' s : level3_shadow h st = Ok (ok, h', s) -> level_shape s.
  Proof.
    unfold level3_shadow. intros He.
    apply bind_ok in He. destruct He as [ws [_ He]].
    destruct (negb (ws =? 4)%N); [inversion He; subst; apply shape_re; reflexivity|].
    apply bind_ok in He. destruct He as [[r st1] [_ He]].
    destruct r as [h1|]; [|inversion He; subst; apply shape_re; reflexivity].
    apply bind_ok in He. destruct He as [hl [_ He]].
    destruct ((hdr_LEVEL_3_MAX_HEADER_LEN <? hl)%N || (hl <? nlen (h_raw h1))%N);
      [inversion He; subst; apply shape_re; reflexivity|].
    apply bind_ok in He. destruct He as [[r2 st2] [_ He]].
    destruct r2 as [h2|]; [|inversion He; subst; apply shape_re; reflexivity].
    apply bind_ok in He. destruct He as [h3 [_ He]].
    apply bind_ok in He. destruct He as [[[ok4 h4] s2] [E4 He]]. inversion He; subst.
    apply shape_re. simpl. apply (ext_shadow_re _ _ _ _ _ E4).
  Qed.

  Lemma shape_wf s t : level_shape s -> sym_tail t -> wf_steps (s ++ t) = true.
  Proof.
    intros [p [a [Hp [Ha Hs]]]] Ht. subst s. rewrite <- app_assoc. apply (wf_shape p a t Hp Ha Ht).
  Qed.

  (* the steps of lha_file_header_read on any bytes are in an order the construction ledger accepts *)
  Theorem parse_steps_wf st l : parse_steps mktime st = Ok l -> wf_steps l = true.
  Proof.
    unfold parse_steps. intros He.
    apply bind_ok in He. destruct He as [[r st1] [_ He]].
    destruct r as [raw|]; [|inversion He; reflexivity].
    apply bind_ok in He. destruct He as [lvl [_ He]].
    apply bind_ok in He. destruct He as [[[ok h1] s1] [El He]].
    assert (Hs : level_shape s1).
    { destruct (lvl =? 0)%N.
      - apply bind_ok in El. destruct El as [[[[ok0 h0] st0] s0] [E0 El]]. inversion El; subst.
        apply (level01_shape _ _ _ _ _ _ E0).
      - destruct (lvl =? 1)%N; [apply (level1_shape _ _ _ _ _ El)|].
        destruct (lvl =? 2)%N; [apply (level2_shape _ _ _ _ _ El)|].
        destruct (lvl =? 3)%N; [apply (level3_shape _ _ _ _ _ El)|].
        inversion El; subst. apply shape_re. reflexivity. }
    assert (Hnil : wf_steps s1 = true).
    { rewrite <- (app_nil_r s1). apply (shape_wf s1 [] Hs). left. reflexivity. }
    destruct (negb ok); [inversion He; subst; exact Hnil|].
    match type of He with (if ?c then _ else _) = _ => destruct c end; [inversion He; subst; exact Hnil|].
    match type of He with (if ?c then _ else _) = _ => destruct c end; [|inversion He; subst; exact Hnil].
    match type of He with match ?c with _ => _ end = _ => destruct c end; inversion He; subst;
      apply (shape_wf s1 _ Hs); right; eauto.
  Qed.
End Steps.

(* ------------------------------------------------------------------ *)
(* The lock-step run                                                   *)

(* one API call with its arguments *)
Inductive lop : Type :=
| LNext
| LRead (n : N)
| LCheck (monitor : bool)
| LExtract (filename : option (list N)) (monitor : bool).

Definition op_of (o : lop) : op :=
  match o with LNext => ONext | LRead _ => ORead | LCheck _ => OCheck | LExtract _ _ => OExtract end.

Section Run.
  Variable mktime : N -> N -> N -> N -> Z -> N -> N.
  Variable junk : N.

  (* concrete reader, ledger, filesystem *)
  Definition lstate : Type := reader * fmem * fs.
  Definition ledger (s : lstate) : fmem := snd (fst s).

  (* what a call returned to its caller *)
  Inductive lout : Type :=
  | OutNext (h : option Header.header)
  | OutRead (bytes : list N)
  | OutBool (b : bool).

  Definition fls_step (s : lstate) (o : lop) : outcome (lout * lstate) :=
    let '(r, m, f) := s in
    match o with
    | LNext => '(h, (r', m')) <- fls_next mktime (r, m) ;; Ok (OutNext h, (r', m', f))
    | LRead n => '(b, _, (r', m')) <- fls_read junk (r, m) n ;; Ok (OutRead b, (r', m', f))
    | LCheck mon => '(b, _, (r', m')) <- fls_check junk (r, m) mon ;; Ok (OutBool b, (r', m', f))
    | LExtract name mon => '(b, _, (r', m'), f') <- fls_extract junk (r, m) f name mon ;; Ok (OutBool b, (r', m', f'))
    end.

  Fixpoint fls_run (s : lstate) (l : list lop) : outcome lstate :=
    match l with
    | [] => Ok s
    | o :: r => '(_, s') <- fls_step s o ;; fls_run s' r
    end.

  Lemma fails_in_fhit m m' : fails_in m m' = true <-> fhit m m'.
  Proof.
    unfold fails_in, fhit, hit. rewrite !andb_true_iff, negb_true_iff, Nat.eqb_neq, Nat.ltb_lt, Nat.leb_le. lia.
  Qed.

  (* every call of the lock-step run is a ledger step on decisions with well-formed parse
     steps; when the failing request falls in a read / check / extract, the caller gets
     no bytes / false *)
  Lemma fls_step_ledger s o out s' :
    fls_step s o = Ok (out, s') ->
    exists fd res, wf_steps (fd_steps fd) = true /\
                   f_step (ledger s) (op_of o) fd = Ok (res, ledger s') /\
                   (fhit (ledger s) (ledger s') ->
                    match out with OutNext _ => True | OutRead b => b = [] | OutBool b => b = false end).
  Proof.
    destruct s as [[r m] f]. unfold ledger. simpl fst. simpl snd. destruct o as [|n|mon|name mon]; simpl fls_step; intros He.
    - (* next *)
      apply bind_ok in He. destruct He as [[h [r' m']] [En He]]. inversion He; subst. simpl.
      unfold fls_next in En.
      apply bind_ok in En. destruct En as [[h0 r0] [_ En]].
      apply bind_ok in En. destruct En as [[parses steps] [Eps En]].
      apply bind_ok in En. destruct En as [[res m1] [Ef En]].
      assert (Hwf : wf_steps steps = true).
      { destruct (rd_type r); try (inversion Eps; reflexivity);
          (apply bind_ok in Eps; destruct Eps as [[eof st'] [_ Eps]];
           destruct eof; [inversion Eps; reflexivity|];
           apply bind_ok in Eps; destruct Eps as [st2 [Ep Eps]]; inversion Eps; subst;
           apply (parse_steps_wf mktime _ _ Ep)). }
      exists {| fd_dc := decide ONext false r r0; fd_parses := parses; fd_steps := steps |}, res. split; [exact Hwf|].
      destruct (fails_in m m1).
      + apply bind_ok in En. destruct En as [[h2 r2] [_ En]]. inversion En; subst. split; [exact Ef|auto].
      + inversion En; subst. split; [exact Ef|auto].
    - (* read *)
      apply bind_ok in He. destruct He as [[[b ev] [r' m']] [En He]]. inversion He; subst. simpl.
      unfold fls_read in En.
      apply bind_ok in En. destruct En as [[[o0 ev0] r0] [_ En]].
      apply bind_ok in En. destruct En as [[res m1] [Ef En]].
      eexists (plain_fd _), res. split; [reflexivity|].
      destruct (fails_in m m1) eqn:Efi; inversion En; subst; (split; [exact Ef|]); intros Hh.
      + reflexivity.
      + apply fails_in_fhit in Hh. congruence.
    - (* check *)
      apply bind_ok in He. destruct He as [[[b ev] [r' m']] [En He]]. inversion He; subst. simpl.
      unfold fls_check in En.
      apply bind_ok in En. destruct En as [[[o0 ev0] r0] [_ En]].
      apply bind_ok in En. destruct En as [[res m1] [Ef En]].
      eexists (plain_fd _), res. split; [reflexivity|].
      destruct (fails_in m m1) eqn:Efi; inversion En; subst; (split; [exact Ef|]); intros Hh.
      + reflexivity.
      + apply fails_in_fhit in Hh. congruence.
    - (* extract *)
      apply bind_ok in He. destruct He as [[[[b ev] [r' m']] f'] [En He]]. inversion He; subst. simpl.
      unfold fls_extract in En.
      apply bind_ok in En. destruct En as [[[[o0 ev0] r0] f0] [_ En]].
      destruct (rd_curr r) as [hh|]; cbv beta iota zeta in En;
        (apply bind_ok in En; destruct En as [[res m1] [Ef En]];
         destruct (fails_in m m1) eqn:Efi;
         [ repeat match type of En with
                  | (if ?c then _ else _) = _ => destruct c
                  | bind _ _ = _ => apply bind_ok in En; destruct En as [[[x1 x2] r2] [_ En]]
                  end; inversion En; subst; eexists (plain_fd _), res; (split; [reflexivity|]); (split; [exact Ef|auto])
         | inversion En; subst; eexists (plain_fd _), res; (split; [reflexivity|]); (split; [exact Ef|]);
           intros Hh; apply fails_in_fhit in Hh; congruence ]).
  Qed.

  Lemma fls_run_ledger : forall ops s s',
    fls_run s ops = Ok s' ->
    exists l, map fst l = map op_of ops /\ wf_decisions l /\ f_run (ledger s) l = Ok (ledger s').
  Proof.
    induction ops as [|o ops IH]; intros s s' He.
    - inversion He; subst. exists []. split; [reflexivity|]. split; [constructor|reflexivity].
    - simpl in He. apply bind_ok in He. destruct He as [[out s1] [E1 He]].
      destruct (fls_step_ledger s o out s1 E1) as [fd [res [Hwf [Ef _]]]].
      destruct (IH s1 s' He) as [l [Hm [Hw Hr]]].
      exists ((op_of o, fd) :: l). split; [simpl; rewrite Hm; reflexivity|].
      split; [constructor; [exact Hwf|exact Hw]|]. simpl. rewrite Ef. simpl. exact Hr.
  Qed.

  (* Property C20, second half, over the lock-step run: from any concrete reader state
     (any archive bytes), any filesystem, any protocol-respecting list of calls and any
     failing request k, when the run completes the ledger has not faulted, no live decoder
     pointer was overwritten, and lha_reader_free + the release of the stream leave nothing *)
  Theorem C20_fail_released_run :
    forall (plain : bool) (k : nat) m0 (r0 : reader) (f0 : fs) (ops : list lop) s,
      fmem_new plain k = Some m0 -> protocol (map op_of ops) = true ->
      fls_run (r0, m0, f0) ops = Ok s ->
      d_overwrote (m_d (f_m (ledger s))) = false /\
      exists m', f_free_reader (ledger s) = Ok m' /\ fledger_empty (f_free_stream m').
  Proof.
    intros plain k m0 r0 f0 ops s Hn Hp Hr.
    destruct (fls_run_ledger ops _ _ Hr) as [l [Hm [Hw Hl]]]. unfold ledger in Hl at 1. simpl in Hl.
    destruct (C20_fail_released plain k l m0 Hn) as [s1 [s2 [E1 [Ho [Ef He]]]]]; [rewrite Hm; exact Hp|exact Hw|].
    rewrite Hl in E1. inversion E1; subst. split; [exact Ho|]. exists s2. auto.
  Qed.

  (* the call in which the failing request falls reports failure: the ledger's result is a
     failure value (next_file: NULL or a re-presented entry) and the caller of read / check /
     extract gets no bytes / false *)
  Theorem C20_fail_reported_run :
    forall (plain : bool) (k : nat) m0 (r0 : reader) (f0 : fs) (ops : list lop) (o : lop) s out s',
      fmem_new plain k = Some m0 -> protocol (map op_of (ops ++ [o])) = true ->
      fls_run (r0, m0, f0) ops = Ok s -> fls_step s o = Ok (out, s') ->
      fhit (ledger s) (ledger s') ->
      (exists fd res, f_step (ledger s) (op_of o) fd = Ok (res, ledger s') /\ failure_value res = true) /\
      match out with OutNext _ => True | OutRead b => b = [] | OutBool b => b = false end.
  Proof.
    intros plain k m0 r0 f0 ops o s out s' Hn Hp Hr Hs Hh.
    destruct (fls_run_ledger ops _ _ Hr) as [l [Hm [Hw Hl]]]. unfold ledger in Hl at 1. simpl in Hl.
    destruct (fls_step_ledger s o out s' Hs) as [fd [res [Hwf [Ef Hout]]]].
    split; [|apply (Hout Hh)].
    destruct (C20_fail_reported plain k l (op_of o) fd m0 Hn) as [s1 [res1 [s2 [E1 [E2 Hc]]]]].
    - rewrite map_app, Hm. rewrite map_app in Hp. exact Hp.
    - apply Forall_app. split; [exact Hw|constructor; [exact Hwf|constructor]].
    - rewrite Hl in E1. inversion E1; subst. rewrite Ef in E2. inversion E2; subst.
      exists fd, res1. split; [exact Ef|apply (Hc Hh)].
  Qed.
  (* the same from the start: any archive bytes through any kind of input stream, any
     directory policy (the way harness/ml/d_rdr.ml starts rdrmemfail) *)
  Corollary C20_fail_released_archive :
    forall (kind : skind) (bytes : list N) (policy : dir_policy) (k : nat) m0 (f0 : fs) (ops : list lop) s,
      fmem_new (match policy with DIR_PLAIN => true | _ => false end) k = Some m0 ->
      protocol (map op_of ops) = true ->
      fls_run (lha_reader_set_dir_policy (lha_reader_new (lha_input_stream_new (mk_source kind bytes))) policy, m0, f0) ops
        = Ok s ->
      d_overwrote (m_d (f_m (ledger s))) = false /\
      exists m', f_free_reader (ledger s) = Ok m' /\ fledger_empty (f_free_stream m').
  Proof. intros kind bytes policy k m0 f0 ops s Hn Hp Hr. apply (C20_fail_released_run _ k m0 _ f0 ops s Hn Hp Hr). Qed.
End Run.

Print Assumptions parse_steps_wf.
Print Assumptions C20_fail_released_run.
Print Assumptions C20_fail_reported_run.
Print Assumptions C20_fail_released_archive.

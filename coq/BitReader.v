(* BitReader.v -- model of lib/bit_stream_reader.c *)
From Lhasa Require Import Base DecBase.
Local Open Scope N_scope.

Record bsr := { bit_buffer : N; bits : N }.
Definition bsr_init : bsr := {| bit_buffer := 0; bits := 0 |}.

Section BitReader.
  Context {cbs : Type}.
  Variable cb : callback cbs.

  (* for (i = 0; i < bytes; i++) { bit_buffer |= buf[i] << (24 - bits); bits += 8; }
     buf is uint8_t[4]: index checked. *)
  Fixpoint fill_bytes_loop (r : bsr) (bs : list N) (i : N) : outcome bsr :=
    match bs with
    | [] => Ok r
    | b :: rest =>
      if i <? 4 then
        fill_bytes_loop {| bit_buffer := u32 (N.lor (bit_buffer r) (N.shiftl b (24 - bits r)));
                           bits := bits r + 8 |} rest (i + 1)
      else Fault 101
    end.

  (* while (reader->bits < n) {...}: at most 5 iterations can make progress. *)
  Fixpoint peek_fill (fuel : nat) (r : bsr) (c : cbs) (n : N) : outcome (bool * bsr * cbs) :=
    if bits r <? n then
      match fuel with
      | O => OutOfFuel
      | S f =>
        let fill := (32 - bits r) / 8 in
        let '(bs, c') := cb c fill in
        match bs with
        | [] => Ok (false, r, c')
        | _ => r' <- fill_bytes_loop r bs 0 ;; peek_fill f r' c' n
        end
      end
    else Ok (true, r, c).

  (* peek_bits: None is the C -1.  The result is converted to signed int:
     a value >= 2^31 (only possible for n = 32) is negative, i.e. failure
     as far as every caller's "< 0" test is concerned. *)
  Definition peek_bits (r : bsr) (c : cbs) (n : N) : outcome (option N * bsr * cbs) :=
    if n =? 0 then Ok (Some 0, r, c)
    else
      '(ok, r', c') <- peek_fill 6 r c n ;;
      if ok then
        let v := N.shiftr (bit_buffer r') (32 - n) in
        Ok (if v <? 2147483648 then Some v else None, r', c')
      else Ok (None, r', c').

  Definition read_bits (r : bsr) (c : cbs) (n : N) : outcome (option N * bsr * cbs) :=
    '(res, r', c') <- peek_bits r c n ;;
    match res with
    | Some v => Ok (Some v, {| bit_buffer := u32 (N.shiftl (bit_buffer r') n); bits := bits r' - n |}, c')
    | None => Ok (None, r', c')
    end.

  Definition read_bit (r : bsr) (c : cbs) := read_bits r c 1.
End BitReader.

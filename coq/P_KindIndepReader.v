(* P_KindIndepReader.v -- property C16, decoders and reader layer: the members an
   archive yields -- headers, decoded bytes, check verdicts, and what extraction
   does to the filesystem -- do not depend on the kind of byte source.

   C16 (properties.jsonl): "The members an archive yields - headers, data and
   verdicts - are the same whether it is read from a seekable file, a
   non-seekable pipe (including '-' for standard input), or caller-supplied
   callbacks with or without skip support.  They are also unchanged when the
   first header is preceded by up to 255 KiB of bytes that contain neither an
   archive-method signature nor a self-extractor marker, as in self-extracting
   executables, and when such a stub embeds one decoy header after an 'LHA-SFX'
   or 'LhASFX V1.2,' marker."

   Built on P_KindIndep.v (stream, header parser, basic reader: [kind_rel],
   [br_rel], [next_file_kind], [read_compressed_kind]) and on P_AnyParam2.v
   (binary parametricity of the seven decoders in the callback state:
   [any_read_rel]).

   The reader layer is treated once, generically, in [Section ReaderRel]: for any
   relation BR between basic readers that is compatible with the three things the
   reader layer does with a basic reader ([br_compat]: look at the current
   header, call lha_basic_reader_read_compressed, call
   lha_basic_reader_next_file), [rd_rel BR] relates two LHAReader states whose
   basic readers are BR-related and that are otherwise equal -- the copies of the
   basic reader held inside open decoders (plain and MacBinary pass-through)
   are related in the same way -- and every API function respects it:
   lha_reader_next_file, lha_reader_read, lha_reader_check, lha_reader_extract
   return the same values (or the same Fault / OutOfFuel) and leave related
   readers and the same filesystem ([..._rel]).  No assumption on the order of
   the calls is needed.

   Instantiated here with BR := br_rel (same state, lead-in, remaining bytes;
   kinds of source arbitrary), names [..._kind]:

     run_ops_kind                : any operation sequence, related readers
     members_same_for_all_kinds  : any archive < 2^40 bytes, any two kinds, any
                                   directory policy, any operation sequence:
                                   the same observations and the same filesystem

   and in P_KindIndepSfx.v with relations that forget how the remaining bytes
   are split between lead-in buffer and source (self-extractor prefixes).

   Lemmas and theorems only. *)
From Lhasa Require Import Base DecBase ListN Loop Generated Crc16 InputStream Header BasicReader AnyDecoder Decoder
  MacBinary Fs FsRun Reader P_HeaderSafe P_Intact P_StreamEquiv P_BasicReaderIndep P_ReaderIndep P_ReaderIndepFull
  P_AnyParam2 P_KindIndep.
From Coq Require Import ZifyBool ZifyN ZifyNat.
Local Open Scope N_scope.

Ltac dsimp := cbn [d_inner d_cb d_outbuf d_stream_pos d_stream_length d_failed d_crc d_monitor d_last_block
                   d_total_blocks rl_d rl_out_rev rl_filled fst snd] in *.

(* ------------------------------------------------------------------ *)
(* The generic wrapper lha_decoder_read over two related inner decoders *)

Section DecoderRel.
  Context {cbs1 cbs2 st : Type}.
  Variable Rc : cbs1 -> cbs2 -> Prop.

  (* decoders that differ in their callback state only, and there by Rc *)
  Definition dec_rel (d1 : @decoder cbs1 st) (d2 : @decoder cbs2 st) : Prop :=
    exists c2, Rc (d_cb d1) c2 /\
    d2 = {| d_inner := d_inner d1; d_cb := c2; d_outbuf := d_outbuf d1; d_stream_pos := d_stream_pos d1;
            d_stream_length := d_stream_length d1; d_failed := d_failed d1; d_crc := d_crc d1;
            d_monitor := d_monitor d1; d_last_block := d_last_block d1; d_total_blocks := d_total_blocks d1 |}.

  Lemma dec_rel_intro i c1 c2 ob sp sl fl crc mon lb tb : Rc c1 c2 ->
    dec_rel {| d_inner := i; d_cb := c1; d_outbuf := ob; d_stream_pos := sp; d_stream_length := sl; d_failed := fl;
               d_crc := crc; d_monitor := mon; d_last_block := lb; d_total_blocks := tb |}
            {| d_inner := i; d_cb := c2; d_outbuf := ob; d_stream_pos := sp; d_stream_length := sl; d_failed := fl;
               d_crc := crc; d_monitor := mon; d_last_block := lb; d_total_blocks := tb |}.
  Proof. intros H. exists c2. split; [exact H|reflexivity]. Qed.

  Lemma dec_rel_cb d1 d2 : dec_rel d1 d2 -> Rc (d_cb d1) (d_cb d2).
  Proof. intros (c2 & Hc & ->). exact Hc. Qed.

  Definition dr_rel (x : list N * st * cbs1) (y : list N * st * cbs2) : Prop :=
    fst (fst x) = fst (fst y) /\ snd (fst x) = snd (fst y) /\ Rc (snd x) (snd y).

  Definition dres_rel {A} (x : A * @decoder cbs1 st) (y : A * @decoder cbs2 st) : Prop :=
    fst x = fst y /\ dec_rel (snd x) (snd y).

  Definition rl_rel (s1 : @rl cbs1 st) (s2 : @rl cbs2 st) : Prop :=
    dec_rel (rl_d s1) (rl_d s2) /\ rl_out_rev s1 = rl_out_rev s2 /\ rl_filled s1 = rl_filled s2.

  Lemma lha_decoder_monitor_rel bs d1 d2 : dec_rel d1 d2 ->
    dec_rel (fst (lha_decoder_monitor bs d1)) (fst (lha_decoder_monitor bs d2)) /\
    snd (lha_decoder_monitor bs d1) = snd (lha_decoder_monitor bs d2).
  Proof.
    intros (c2 & Hc & ->). destruct d1 as [i c1 ob sp sl fl crc mon lb tb]. dsimp.
    unfold lha_decoder_monitor, check_progress. dsimp. split; [|reflexivity]. apply dec_rel_intro. exact Hc.
  Qed.

  Variable dread1 : st -> cbs1 -> outcome (list N * st * cbs1).
  Variable dread2 : st -> cbs2 -> outcome (list N * st * cbs2).
  Hypothesis Hd : forall s c1 c2, Rc c1 c2 -> orel dr_rel (dread1 s c1) (dread2 s c2).

  Ltac rl_leaf Hc := cbn [orel sum_rel]; unfold rl_rel, set_buf; dsimp;
    (split; [apply dec_rel_intro; exact Hc|]); split; reflexivity.

  Lemma read_step_rel mr n s1 s2 : rl_rel s1 s2 ->
    orel (sum_rel rl_rel rl_rel) (read_step dread1 mr n s1) (read_step dread2 mr n s2).
  Proof.
    destruct s1 as [d1 o1 f1], s2 as [d2 o2 f2]. unfold rl_rel at 1. dsimp.
    intros ((c2 & Hc & ->) & -> & ->). destruct d1 as [i c1 ob sp sl fl crc mon lb tb]. dsimp.
    unfold read_step. cbv zeta. dsimp.
    destruct (f2 <? n); [|rl_leaf Hc].
    destruct fl; [rl_leaf Hc|].
    destruct (skipn_N (n - f2) ob) as [|x rest]; [|rl_leaf Hc].
    eapply orel_bind; [apply Hd; exact Hc|].
    intros [[ch1 i1] c1'] [[ch2 i2] c2'] (E1 & E2 & E3). dsimp. subst ch2 i2.
    destruct (mr <? nlen ch1); [cbn [orel]; reflexivity|].
    destruct ch1; rl_leaf E3.
  Qed.

  Definition dread_res_rel (x : list N * list (N * N) * @decoder cbs1 st)
                           (y : list N * list (N * N) * @decoder cbs2 st) : Prop :=
    fst x = fst y /\ dec_rel (snd x) (snd y).

  (* lha_decoder_read: the same bytes and progress events, related decoders *)
  Lemma lha_decoder_read_rel mr bs d1 d2 n : dec_rel d1 d2 ->
    orel dread_res_rel (lha_decoder_read dread1 mr bs d1 n) (lha_decoder_read dread2 mr bs d2 n).
  Proof.
    unfold lha_decoder_read. generalize 64%nat. intros k (c2 & Hc & ->).
    destruct d1 as [i c1 ob sp sl fl crc mon lb tb]. dsimp. cbv zeta.
    eapply orel_bind.
    - apply (orel_loop _ _ rl_rel rl_rel (read_step_rel mr _)).
      unfold rl_rel. dsimp. split; [apply dec_rel_intro; exact Hc|]. split; reflexivity.
    - intros [e1 r1 g1] [e2 r2 g2]. unfold rl_rel. dsimp. intros ((c3 & Hc3 & ->) & -> & ->).
      destruct e1 as [i' c1' ob' sp' sl' fl' crc' mon' lb' tb']. dsimp.
      destruct mon'; unfold check_progress; dsimp; cbn [orel]; unfold dread_res_rel; dsimp;
        (split; [reflexivity|]); apply dec_rel_intro; exact Hc3.
  Qed.
End DecoderRel.

Lemma dec_rel_fields {cbs1 cbs2 st} (Rc : cbs1 -> cbs2 -> Prop) (d1 : @decoder cbs1 st) (d2 : @decoder cbs2 st) :
  dec_rel Rc d1 d2 -> d_stream_pos d1 = d_stream_pos d2 /\ d_crc d1 = d_crc d2.
Proof. intros (c2 & Hc & ->). split; reflexivity. Qed.

(* walk two runs of the same code: pure steps are shared, value-dependent branches are taken together *)
Ltac walk leaf := repeat first
  [ progress cbv beta iota
  | match goal with
    | |- orel _ (bind ?m _) (bind ?m _) => apply orel_bind_same; intro
    | |- orel _ (if ?c then _ else _) (if ?c then _ else _) => destruct c
    | |- orel _ (match ?x with _ => _ end) (match ?x with _ => _ end) => destruct x
    | |- orel _ (Ok _) (Ok _) => leaf
    | |- orel _ (Fault _) (Fault _) => cbn [orel]; reflexivity
    end ].

(* ------------------------------------------------------------------ *)
(* What the reader layer needs of a relation between basic readers.  The
   section below is generic in such a relation: it is instantiated with
   [br_rel] (different kinds of source) here and with two relations that
   forget how the remaining bytes are split between lead-in buffer and source
   in P_KindIndepSfx.v (self-extractor prefixes). *)
Definition br_compat (BR : breader -> breader -> Prop) : Prop :=
  (forall a b, BR a b -> br_curr a = br_curr b) /\
  (forall a b n, BR a b ->
     fst (lha_basic_reader_read_compressed a n) = fst (lha_basic_reader_read_compressed b n) /\
     BR (snd (lha_basic_reader_read_compressed a n)) (snd (lha_basic_reader_read_compressed b n))) /\
  (forall mktime a b, BR a b -> br_wf a -> br_wf b ->
     orel (fun x y => fst x = fst y /\ BR (snd x) (snd y))
          (lha_basic_reader_next_file mktime a) (lha_basic_reader_next_file mktime b)).

Section ReaderRel.
Variable BR : breader -> breader -> Prop.
Hypothesis BR_ok : br_compat BR.

Lemma BR_curr a b : BR a b -> br_curr a = br_curr b.
Proof. apply BR_ok. Qed.
Lemma BR_read a b n : BR a b ->
  fst (lha_basic_reader_read_compressed a n) = fst (lha_basic_reader_read_compressed b n) /\
  BR (snd (lha_basic_reader_read_compressed a n)) (snd (lha_basic_reader_read_compressed b n)).
Proof. apply BR_ok. Qed.
Lemma BR_next mktime a b : BR a b -> br_wf a -> br_wf b ->
  orel (fun x y => fst x = fst y /\ BR (snd x) (snd y))
       (lha_basic_reader_next_file mktime a) (lha_basic_reader_next_file mktime b).
Proof. apply BR_ok. Qed.

(* ------------------------------------------------------------------ *)
(* The decoders reading through the basic reader                       *)

Definition idec_rel (d1 d2 : idec) : Prop :=
  id_max_read d1 = id_max_read d2 /\ id_block_size d1 = id_block_size d2 /\ dec_rel BR (id_dec d1) (id_dec d2).

(* binary parametricity of the decoders, instantiated: the callback is
   lha_basic_reader_read_compressed on both sides, the callback states are
   basic readers over sources of different kinds *)
Lemma any_read_BR junk s c1 c2 : BR c1 c2 ->
  orel (dr_rel BR) (any_read decoder_callback junk s c1) (any_read decoder_callback junk s c2).
Proof.
  intros H.
  pose proof (any_read_rel breader breader decoder_callback decoder_callback BR
                BR_read junk s c1 c2 H) as P.
  destruct (any_read decoder_callback junk s c1) as [[[o1 s1] c1']| |],
           (any_read decoder_callback junk s c2) as [[[o2 s2] c2']| |]; cbn [orel]; unfold dr_rel; cbn [fst snd]; auto.
Qed.

Definition ir_res_rel (x y : list N * list (N * N) * idec) : Prop := fst x = fst y /\ idec_rel (snd x) (snd y).

Lemma inner_read_rel junk d1 d2 n : idec_rel d1 d2 ->
  orel ir_res_rel (inner_read junk d1 n) (inner_read junk d2 n).
Proof.
  intros (M & Bs & Hd). unfold inner_read. rewrite <- M, <- Bs.
  eapply orel_bind; [apply (lha_decoder_read_rel BR _ _ (any_read_BR junk)); exact Hd|].
  intros [[o1 e1] x1] [[o2 e2] x2] [E D]. cbn [fst snd] in *. inversion E; subst o2 e2. cbv beta iota.
  cbn [orel]. unfold ir_res_rel, idec_rel, with_dec. cbn [fst snd id_max_read id_block_size id_dec]. auto.
Qed.

Lemma load_BR d1 d2 b1 b2 : idec_rel d1 d2 -> BR b1 b2 -> idec_rel (load_br d1 b1) (load_br d2 b2).
Proof.
  intros (M & Bs & (c2 & Hc & E)) B. unfold idec_rel, load_br, set_cb. cbn [id_max_read id_block_size id_dec].
  split; [exact M|]. split; [exact Bs|]. rewrite E. dsimp. apply dec_rel_intro. exact B.
Qed.

Lemma idec_BR d1 d2 : idec_rel d1 d2 -> BR (idec_br d1) (idec_br d2).
Proof. intros (_ & _ & D). unfold idec_br. apply (dec_rel_cb _ _ _ D). Qed.

(* ------------------------------------------------------------------ *)
(* The MacBinary pass-through decoder                                  *)

Definition mw_rel (w1 w2 : mb_world) : Prop := idec_rel (mw_dec w1) (mw_dec w2) /\ mw_ev w1 = mw_ev w2.

Definition rmh_st_rel (s t : mb_world * list N) : Prop := mw_rel (fst s) (fst t) /\ snd s = snd t.
Definition rmh_res_rel (x y : bool * mb_world * list N) : Prop :=
  fst (fst x) = fst (fst y) /\ mw_rel (snd (fst x)) (snd (fst y)) /\ snd x = snd y.

Lemma rmh_step_rel junk s t : rmh_st_rel s t ->
  orel (sum_rel rmh_st_rel rmh_res_rel) (rmh_step junk s) (rmh_step junk t).
Proof.
  destruct s as [w1 g], t as [w2 g']. intros [[Hd Ev] E]. cbn [fst snd] in *. subst g'.
  unfold rmh_step. destruct (nlen g <? mb_MBHDR_SIZE).
  2:{ cbn [orel sum_rel]. unfold rmh_res_rel, mw_rel. cbn [fst snd]. auto. }
  eapply orel_bind; [apply inner_read_rel; exact Hd|].
  intros [[o1 e1] d1] [[o2 e2] d2] [E D]. cbn [fst snd] in *. inversion E; subst o2 e2. cbv beta iota zeta. rewrite Ev.
  destruct o1; cbn [orel sum_rel]; unfold rmh_res_rel, rmh_st_rel, mw_rel; cbn [fst snd mw_dec mw_ev]; auto.
Qed.

Definition mi_res_rel (x y : option mb_state * mb_world) : Prop := fst x = fst y /\ mw_rel (snd x) (snd y).

Lemma macbinary_init_rel junk w1 w2 h : mw_rel w1 w2 ->
  orel mi_res_rel (macbinary_init junk w1 h) (macbinary_init junk w2 h).
Proof.
  unfold macbinary_init. generalize 10%nat. intros k H. cbv zeta.
  destruct (h_length h <? mb_MBHDR_SIZE); [cbn [orel]; unfold mi_res_rel; cbn [fst snd]; auto|].
  eapply orel_bind;
    [apply (orel_loop _ _ rmh_st_rel rmh_res_rel (rmh_step_rel junk)); split; [exact H|reflexivity]|].
  intros [[ok1 x1] g1] [[ok2 x2] g2] (E1 & E2 & E3). cbn [fst snd] in *. subst ok2 g2.
  walk ltac:(cbn [orel]; unfold mi_res_rel; cbn [fst snd]; split; [reflexivity|exact E2]).
Qed.

Lemma dte_step_rel junk w1 w2 : mw_rel w1 w2 -> orel (sum_rel mw_rel mw_rel) (dte_step junk w1) (dte_step junk w2).
Proof.
  intros [Hd Ev]. unfold dte_step.
  eapply orel_bind; [apply inner_read_rel; exact Hd|].
  intros [[o1 e1] d1] [[o2 e2] d2] [E D]. cbn [fst snd] in *. inversion E; subst o2 e2. cbv beta iota zeta. rewrite Ev.
  destruct o1; cbn [orel sum_rel]; unfold mw_rel; cbn [mw_dec mw_ev]; auto.
Qed.

Lemma macbinary_read_rel junk s w1 w2 : mw_rel w1 w2 ->
  orel (dr_rel mw_rel) (macbinary_read junk s w1) (macbinary_read junk s w2).
Proof.
  unfold macbinary_read. generalize 64%nat. intros k [Hd Ev]. cbv zeta.
  match goal with |- orel _ (if ?c then _ else _) _ => destruct c end; [cbn [orel]; reflexivity|].
  eapply orel_bind; [apply inner_read_rel; exact Hd|].
  intros [[o1 e1] d1] [[o2 e2] d2] [E D]. cbn [fst snd] in *. inversion E; subst o2 e2. cbv beta iota. rewrite Ev.
  match goal with |- orel _ (if ?c then _ else _) _ => destruct c end.
  - eapply orel_bind;
      [apply (orel_loop _ _ mw_rel mw_rel (dte_step_rel junk)); unfold mw_rel; cbn [mw_dec mw_ev]; auto|].
    intros x y Hxy. cbn [orel]. unfold dr_rel. cbn [fst snd]. auto.
  - cbn [orel]. unfold dr_rel, mw_rel. cbn [fst snd mw_dec mw_ev]. auto.
Qed.

(* ------------------------------------------------------------------ *)
(* Readers                                                             *)

Definition odec_rel (o1 o2 : odec) : Prop := dec_rel mw_rel o1 o2.

Definition dobj_rel (a b : dec_obj) : Prop :=
  match a, b with
  | DO_plain d1, DO_plain d2 => idec_rel d1 d2
  | DO_mac o1, DO_mac o2 => odec_rel o1 o2
  | _, _ => False
  end.

Definition opt_rel {A B} (R : A -> B -> Prop) (x : option A) (y : option B) : Prop :=
  match x, y with Some a, Some b => R a b | None, None => True | _, _ => False end.

Definition iref_rel (a b : inner_ref) : Prop :=
  match a, b with
  | IR_null, IR_null => True
  | IR_same, IR_same => True
  | IR_own d1, IR_own d2 => idec_rel d1 d2
  | _, _ => False
  end.

Definition rd_rel (a b : reader) : Prop :=
  BR (rd_br a) (rd_br b) /\ rd_curr a = rd_curr b /\ rd_type a = rd_type b /\
  opt_rel dobj_rel (rd_decoder a) (rd_decoder b) /\ iref_rel (rd_inner a) (rd_inner b) /\
  rd_policy a = rd_policy b /\ rd_dir_stack a = rd_dir_stack b /\ rd_deferred a = rd_deferred b /\
  rd_linked a = rd_linked b.

Definition rres_rel {A} (x y : A * reader) : Prop := fst x = fst y /\ rd_rel (snd x) (snd y).

Lemma rd_rel_init st1 st2 p : BR (lha_basic_reader_new st1) (lha_basic_reader_new st2) ->
  rd_rel (lha_reader_set_dir_policy (lha_reader_new st1) p) (lha_reader_set_dir_policy (lha_reader_new st2) p).
Proof.
  intros H. unfold rd_rel, lha_reader_set_dir_policy, lha_reader_new. rdsimp. cbn [opt_rel iref_rel].
  split; [exact H|]. repeat split.
Qed.

Lemma rd_rel_set_decoders r1 r2 b1 b2 d1 d2 i1 i2 : rd_rel r1 r2 -> BR b1 b2 ->
  opt_rel dobj_rel d1 d2 -> iref_rel i1 i2 -> rd_rel (set_decoders r1 b1 d1 i1) (set_decoders r2 b2 d2 i2).
Proof.
  intros (B & C & T & D & Ir & P & S & Df & L) Hb Hd Hi. unfold rd_rel. rdsimp.
  repeat (split; [assumption|]). assumption.
Qed.

Lemma set_world_rel o1 o2 w1 w2 : odec_rel o1 o2 -> mw_rel w1 w2 ->
  dec_rel mw_rel (set_world o1 w1) (set_world o2 w2).
Proof.
  intros (c2 & Hc & ->) W. unfold set_world. dsimp. apply dec_rel_intro. exact W.
Qed.

Lemma decoder_read_rel junk r1 r2 n : rd_rel r1 r2 ->
  orel rres_rel (decoder_read junk r1 n) (decoder_read junk r2 n).
Proof.
  intros H. pose proof H as (B & C & T & D & Ir & _). unfold decoder_read.
  destruct (rd_decoder r1) as [[d1|o1]|], (rd_decoder r2) as [[d2|o2]|]; cbn [opt_rel dobj_rel] in D; try contradiction.
  - eapply orel_bind; [apply inner_read_rel; apply load_BR; assumption|].
    intros [[oa ea] da] [[ob eb] db] [E Dd]. cbn [fst snd] in *. inversion E; subst ob eb. cbv beta iota.
    cbn [orel]. split; [reflexivity|]. cbn [snd].
    apply rd_rel_set_decoders; [exact H|apply idec_BR; exact Dd|exact Dd|exact Ir].
  - cbv zeta.
    assert (W : mw_rel {| mw_dec := load_br (mw_dec (d_cb o1)) (rd_br r1); mw_ev := [] |}
                       {| mw_dec := load_br (mw_dec (d_cb o2)) (rd_br r2); mw_ev := [] |}).
    { split; [|reflexivity]. cbn [mw_dec]. apply load_BR; [|exact B].
      pose proof (dec_rel_cb _ _ _ D) as [Wd _]. exact Wd. }
    eapply orel_bind;
      [apply (lha_decoder_read_rel mw_rel _ _ (macbinary_read_rel junk)); apply set_world_rel; [exact D|exact W]|].
    intros [[oa ea] da] [[ob eb] db] [E Dd]. cbn [fst snd] in *. inversion E; subst ob eb. cbv beta iota.
    pose proof (dec_rel_cb _ _ _ Dd) as [Wd We].
    cbn [orel]. split; [cbn [fst]; rewrite We; reflexivity|]. cbn [snd].
    apply rd_rel_set_decoders; [exact H|apply idec_BR; exact Wd|exact Dd|exact Ir].
  - cbn [orel]. reflexivity.
Qed.

Lemma lha_basic_reader_decode_rel b1 b2 : BR b1 b2 ->
  orel (opt_rel idec_rel) (lha_basic_reader_decode b1) (lha_basic_reader_decode b2).
Proof.
  intros B. pose proof (BR_curr _ _ B) as C. unfold lha_basic_reader_decode. rewrite <- C.
  destruct (br_curr b1) as [h|]; [|cbn [orel opt_rel]; exact I].
  destruct (lha_decoder_for_name (cstr (h_method h))) as [dt|]; [|cbn [orel opt_rel]; exact I].
  apply orel_bind_same. intros s0. cbn [orel opt_rel]. unfold idec_rel. cbn [id_max_read id_block_size id_dec].
  split; [reflexivity|]. split; [reflexivity|]. unfold lha_decoder_new. apply dec_rel_intro. exact B.
Qed.

Lemma open_decoder_rel junk r1 r2 mon : rd_rel r1 r2 ->
  orel rres_rel (open_decoder junk r1 mon) (open_decoder junk r2 mon).
Proof.
  intros H. pose proof H as (B & C & T & D & Ir & P & S & Df & L). unfold open_decoder. rewrite <- T.
  destruct (rd_type r1); try (cbn [orel]; split; [reflexivity|exact H]).
  eapply orel_bind; [apply lha_basic_reader_decode_rel; exact B|].
  intros [d1|] [d2|] Hd; cbn [opt_rel] in Hd; try contradiction.
  2:{ cbn [orel]. split; [reflexivity|]. cbn [snd]. apply rd_rel_set_decoders; [exact H|exact B|exact D|exact I]. }
  assert (M : exists e x1 x2,
    (if mon then (let '(d', e) := lha_decoder_monitor (id_block_size d1) (id_dec d1) in (with_dec d1 d', e))
     else (d1, [])) = (x1, e) /\
    (if mon then (let '(d', e) := lha_decoder_monitor (id_block_size d2) (id_dec d2) in (with_dec d2 d', e))
     else (d2, [])) = (x2, e) /\ idec_rel x1 x2).
  { destruct mon; [|exists [], d1, d2; auto].
    destruct Hd as (Hm & Hb & Hdd). rewrite <- Hb.
    destruct (lha_decoder_monitor_rel BR (id_block_size d1) _ _ Hdd) as [F1 F2].
    destruct (lha_decoder_monitor (id_block_size d1) (id_dec d1)) as [y1 e1],
             (lha_decoder_monitor (id_block_size d1) (id_dec d2)) as [y2 e2].
    cbn [fst snd] in F1, F2. subst e2. eexists e1, _, _. split; [reflexivity|]. split; [reflexivity|].
    unfold idec_rel, with_dec. cbn [id_max_read id_block_size id_dec]. auto. }
  destruct M as (e & x1 & x2 & -> & -> & Hx). rewrite <- C.
  destruct (rd_curr r1) as [ch|]; [|cbn [orel]; reflexivity].
  destruct (h_os_type ch =? OS_TYPE_MACOS).
  - eapply orel_bind; [apply macbinary_init_rel; split; [exact Hx|reflexivity]|].
    intros [ms1 w1] [ms2 w2] [E [Wd We]]. cbn [fst snd] in *. subst ms2. cbv beta iota.
    destruct ms1 as [m|]; cbn [orel]; (split; [cbn [fst]; rewrite We; reflexivity|]); cbn [snd];
      (apply rd_rel_set_decoders; [exact H|apply idec_BR; exact Wd| |exact I]).
    + cbn [opt_rel dobj_rel]. unfold odec_rel, lha_decoder_new. apply dec_rel_intro. split; [exact Wd|reflexivity].
    + exact I.
  - cbn [orel]. split; [reflexivity|]. cbn [snd]. apply rd_rel_set_decoders; [exact H|exact B|exact Hx|exact I].
Qed.

(* lha_reader_read: the same bytes for every kind of source *)
Theorem lha_reader_read_rel junk r1 r2 n : rd_rel r1 r2 ->
  orel rres_rel (lha_reader_read junk r1 n) (lha_reader_read junk r2 n).
Proof.
  intros H. pose proof H as (B & C & T & D & Ir & _). unfold lha_reader_read.
  destruct (rd_decoder r1) as [x1|] eqn:D1, (rd_decoder r2) as [x2|] eqn:D2; cbn [opt_rel] in D; try contradiction.
  - apply decoder_read_rel. exact H.
  - eapply orel_bind; [apply open_decoder_rel; exact H|].
    intros [[ok1 e1] a1] [[ok2 e2] a2] [E Ha]. cbn [fst snd] in *. inversion E; subst ok2 e2. cbv beta iota.
    destruct ok1; [|cbn [orel]; split; [reflexivity|exact Ha]].
    eapply orel_bind; [apply decoder_read_rel; exact Ha|].
    intros [[oa ea] ra] [[ob eb] rb] [E2 Hb]. cbn [fst snd] in *. inversion E2; subst ob eb. cbv beta iota.
    cbn [orel]. split; [reflexivity|exact Hb].
Qed.

Lemma inner_len_crc_rel r1 r2 : rd_rel r1 r2 -> inner_len_crc r1 = inner_len_crc r2.
Proof.
  intros (B & C & T & D & Ir & _). unfold inner_len_crc, lha_decoder_get_length, lha_decoder_get_crc.
  destruct (rd_inner r1) as [| |i1], (rd_inner r2) as [| |i2]; cbn [iref_rel] in Ir; try contradiction.
  - reflexivity.
  - destruct (rd_decoder r1) as [[d1|o1]|], (rd_decoder r2) as [[d2|o2]|]; cbn [opt_rel dobj_rel] in D;
      try contradiction; try reflexivity.
    + destruct D as (_ & _ & Dd). destruct (dec_rel_fields _ _ _ Dd) as [-> ->]. reflexivity.
    + pose proof (dec_rel_cb _ _ _ D) as [(_ & _ & Dd) _]. destruct (dec_rel_fields _ _ _ Dd) as [-> ->]. reflexivity.
  - destruct Ir as (_ & _ & Dd). destruct (dec_rel_fields _ _ _ Dd) as [-> ->]. reflexivity.
Qed.

Definition dd_st_rel (s t : reader * fs * list (N * N)) : Prop :=
  rd_rel (fst (fst s)) (fst (fst t)) /\ snd (fst s) = snd (fst t) /\ snd s = snd t.

Lemma dd_step_rel junk out s t : dd_st_rel s t ->
  orel (sum_rel dd_st_rel dd_st_rel) (dd_step junk out s) (dd_step junk out t).
Proof.
  destruct s as [[r1 f1] e1], t as [[r2 f2] e2]. intros (H & E1 & E2). cbn [fst snd] in *. subst f2 e2.
  unfold dd_step.
  eapply orel_bind; [apply lha_reader_read_rel; exact H|].
  intros [[oa ea] ra] [[ob eb] rb] [E Hb]. cbn [fst snd] in *. inversion E; subst ob eb. cbv beta iota zeta.
  destruct oa; cbn [orel sum_rel]; unfold dd_st_rel; cbn [fst snd]; auto.
Qed.

Definition ddres_rel (x y : bool * list (N * N) * reader * fs) : Prop :=
  fst (fst x) = fst (fst y) /\ rd_rel (snd (fst x)) (snd (fst y)) /\ snd x = snd y.

Lemma do_decode_rel junk r1 r2 f out : rd_rel r1 r2 ->
  orel ddres_rel (do_decode junk r1 f out) (do_decode junk r2 f out).
Proof.
  unfold do_decode. generalize 64%nat. intros k H.
  eapply orel_bind.
  - apply (orel_loop _ _ dd_st_rel dd_st_rel (dd_step_rel junk out)). split; [exact H|]. split; reflexivity.
  - intros [[a1 g1] e1] [[a2 g2] e2] (Ha & E1 & E2). cbn [fst snd] in *. subst g2 e2.
    rewrite <- (inner_len_crc_rel a1 a2 Ha). pose proof Ha as (_ & C & _). rewrite <- C.
    destruct (inner_len_crc a1) as [[len crc]|]; [|cbn [orel]; reflexivity].
    destruct (rd_curr a1); [|cbn [orel]; reflexivity].
    cbn [orel]. unfold ddres_rel. cbn [fst snd]. auto.
Qed.

(* lha_reader_check: the same verdict for every kind of source *)
Theorem lha_reader_check_rel junk r1 r2 mon : rd_rel r1 r2 ->
  orel rres_rel (lha_reader_check junk r1 mon) (lha_reader_check junk r2 mon).
Proof.
  intros H. pose proof H as (B & C & T & _). unfold lha_reader_check. rewrite <- T, <- C.
  destruct (rd_type r1); try (cbn [orel]; split; [reflexivity|exact H]).
  destruct (rd_curr r1) as [h|]; [|cbn [orel]; reflexivity].
  destruct (is_dir_method h); [cbn [orel]; split; [reflexivity|exact H]|].
  eapply orel_bind; [apply open_decoder_rel; exact H|].
  intros [[ok1 e1] a1] [[ok2 e2] a2] [E Ha]. cbn [fst snd] in *. inversion E; subst ok2 e2. cbv beta iota.
  destruct ok1; [|cbn [orel]; split; [reflexivity|exact Ha]].
  eapply orel_bind; [apply do_decode_rel; exact Ha|].
  intros [[[res1 ev1] x1] g1] [[[res2 ev2] x2] g2] (E1 & Hx & E2). cbn [fst snd] in *. inversion E1; subst res2 ev2.
  cbv beta iota. cbn [orel]. split; [reflexivity|exact Hx].
Qed.

(* ------------------------------------------------------------------ *)
(* lha_reader_next_file                                                *)

Ltac kleaf Hb := cbn [orel]; unfold rres_rel, rd_rel; cbn [fst snd]; rdsimp; cbn [opt_rel iref_rel];
  (split; [reflexivity|]); (split; [exact Hb|]); repeat split; reflexivity.

Lemma nf_choose_rel r1 r2 b1 b2 lk : dframe r1 r2 -> BR b1 b2 ->
  orel rres_rel (nf_choose r1 b1 lk) (nf_choose r2 b2 lk).
Proof.
  destruct r1 as [br1 c1 t1 d1 i1 p1 s1 df1 l1], r2 as [br2 c2 t2 d2 i2 p2 s2 df2 l2].
  unfold dframe. rdsimp. intros (-> & -> & -> & -> & -> & ->) Hb. pose proof (BR_curr _ _ Hb) as C.
  unfold nf_choose, end_of_top_dir. cbv zeta. rdsimp. rewrite C.
  apply orel_bind_same. intros pop. destruct pop.
  - destruct s1 as [|top rest]; rdsimp.
    + destruct c1; [kleaf Hb|]. destruct df1; kleaf Hb.
    + kleaf Hb.
  - rdsimp. rewrite ?C. destruct (br_curr b2); [kleaf Hb|]. destruct df1; kleaf Hb.
Qed.

(* lha_reader_next_file: the same entry for every kind of source *)
Theorem lha_reader_next_file_rel mktime r1 r2 : rd_rel r1 r2 ->
  br_wf (rd_br r1) -> br_wf (rd_br r2) ->
  orel rres_rel (lha_reader_next_file mktime r1) (lha_reader_next_file mktime r2).
Proof.
  intros (B & C & T & D & Ir & P & S & Df & L) W1 W2.
  assert (F : dframe (close_decoder r1) (close_decoder r2)) by (repeat split; rdsimp; congruence).
  rewrite !next_file_unfold. rewrite <- T.
  destruct (rd_type r1) eqn:T1.
  - eapply orel_bind; [apply BR_next; assumption|].
    intros [h1 b1] [h2 b2] [Eh Eb]. cbn [fst snd] in Eh, Eb. cbv beta iota.
    apply nf_choose_rel; assumption.
  - eapply orel_bind; [apply BR_next; assumption|].
    intros [h1 b1] [h2 b2] [Eh Eb]. cbn [fst snd] in Eh, Eb. cbv beta iota.
    apply nf_choose_rel; assumption.
  - rewrite <- L. apply nf_choose_rel; assumption.
  - rewrite <- L. apply nf_choose_rel; assumption.
  - cbn [orel]. unfold rres_rel, rd_rel. cbn [fst snd]. rdsimp. cbn [opt_rel iref_rel].
    split; [reflexivity|]. repeat (split; [first [assumption|exact Logic.I|congruence]|]). assumption.
Qed.

(* ------------------------------------------------------------------ *)
(* lha_reader_extract: the same filesystem operations                  *)

Definition x3_rel (x y : bool * reader * fs) : Prop :=
  fst (fst x) = fst (fst y) /\ rd_rel (snd (fst x)) (snd (fst y)) /\ snd x = snd y.

Ltac x3_leaf H := cbn [orel]; unfold x3_rel; cbn [fst snd]; (split; [reflexivity|]); (split; [exact H|reflexivity]).

Lemma link_curr_rel site r1 r2 s d : rd_rel r1 r2 ->
  orel rd_rel (link_curr site r1 s d) (link_curr site r2 s d).
Proof.
  intros (B & C & T & D & Ir & P & S & Df & L). unfold link_curr. rewrite <- L.
  destruct (rd_linked r1); [cbn [orel]; reflexivity|]. cbn [orel]. unfold rd_rel. rdsimp.
  repeat (split; [first [assumption|reflexivity]|]). reflexivity.
Qed.

Lemma extract_directory_rel r1 r2 f path : rd_rel r1 r2 ->
  orel x3_rel (extract_directory r1 f path) (extract_directory r2 f path).
Proof.
  intros H. pose proof H as (B & C & T & D & Ir & P & S & Df & L).
  unfold extract_directory. rewrite <- C, <- P, <- S, <- Df.
  destruct (rd_curr r1) as [h|]; [|cbn [orel]; reflexivity].
  destruct (match path with Some p => Some p | None => h_path h end) as [p|]; [|cbn [orel]; reflexivity].
  cbv zeta. destruct (arch_mkdir f p _) as [ok f1].
  destruct (negb ok); [x3_leaf H|].
  destruct (rd_policy r1).
  - destruct (set_directory_metadata f1 h p) as [b f2]. x3_leaf H.
  - eapply orel_bind; [apply link_curr_rel; exact H|]. intros a b Hab. x3_leaf Hab.
  - eapply orel_bind; [apply link_curr_rel; exact H|]. intros a b Hab. x3_leaf Hab.
Qed.

Lemma extract_placeholder_symlink_rel r1 r2 f filename : rd_rel r1 r2 ->
  orel x3_rel (extract_placeholder_symlink r1 f filename) (extract_placeholder_symlink r2 f filename).
Proof.
  intros H. pose proof H as (B & C & T & D & Ir & P & S & Df & L).
  unfold extract_placeholder_symlink. rewrite <- C, <- S, <- Df.
  destruct (arch_fopen f filename (Some 384)) as [[hd|] f1]; [|x3_leaf H].
  destruct (rd_curr r1) as [h|]; [|cbn [orel]; reflexivity].
  eapply orel_bind; [apply link_curr_rel; exact H|]. intros a b Hab. x3_leaf Hab.
Qed.

Lemma extract_symlink_rel r1 r2 f filename : rd_rel r1 r2 ->
  orel x3_rel (extract_symlink r1 f filename) (extract_symlink r2 f filename).
Proof.
  intros H. pose proof H as (B & C & T & D & Ir & P & S & Df & L).
  unfold extract_symlink. rewrite <- C, <- T.
  destruct (rd_curr r1) as [h|]; [|cbn [orel]; reflexivity]. cbv zeta.
  destruct ((match rd_type r1 with CT_NORMAL => true | _ => false end) && is_dangerous_symlink h).
  - apply extract_placeholder_symlink_rel. exact H.
  - destruct (h_symlink_target h) as [t|]; [|cbn [orel]; reflexivity].
    destruct (arch_symlink f _ t) as [ok f1]. x3_leaf H.
Qed.

Ltac dd_leaf H := cbn [orel]; unfold ddres_rel; cbn [fst snd]; (split; [reflexivity|]); (split; [exact H|reflexivity]).

Lemma extract_file_rel junk r1 r2 f filename mon : rd_rel r1 r2 ->
  orel ddres_rel (extract_file junk r1 f filename mon) (extract_file junk r2 f filename mon).
Proof.
  intros H. pose proof H as (B & C & T & D & Ir & P & S & Df & L).
  unfold extract_file. rewrite <- C.
  destruct (rd_curr r1) as [h|]; [|cbn [orel]; reflexivity]. cbv zeta.
  eapply orel_bind; [apply open_decoder_rel; exact H|].
  intros [[ok1 e1] a1] [[ok2 e2] a2] [E Ha]. cbn [fst snd] in *. inversion E; subst ok2 e2. cbv beta iota.
  destruct (negb ok1); [dd_leaf Ha|].
  destruct (arch_fopen f _ _) as [[hd|] f1]; [|dd_leaf Ha].
  eapply orel_bind; [apply do_decode_rel; exact Ha|].
  intros [[[res1 ev1] x1] g1] [[[res2 ev2] x2] g2] (E1 & Hx & E2). cbn [fst snd] in *. inversion E1; subst res2 ev2 g2.
  cbv beta iota. dd_leaf Hx.
Qed.

Theorem lha_reader_extract_rel junk r1 r2 f filename mon : rd_rel r1 r2 ->
  orel ddres_rel (lha_reader_extract junk r1 f filename mon) (lha_reader_extract junk r2 f filename mon).
Proof.
  intros H. pose proof H as (B & C & T & D & Ir & P & S & Df & L).
  unfold lha_reader_extract. rewrite <- C, <- T.
  destruct (rd_type r1); try (dd_leaf H).
  - destruct (rd_curr r1) as [h|]; [|cbn [orel]; reflexivity].
    destruct (negb (is_dir_method h)); [apply extract_file_rel; exact H|].
    destruct (h_symlink_target h).
    + eapply orel_bind; [apply extract_symlink_rel; exact H|].
      intros [[ok1 a1] g1] [[ok2 a2] g2] (E1 & Ha & E2). cbn [fst snd] in *. subst ok2 g2. cbv beta iota. dd_leaf Ha.
    + eapply orel_bind; [apply extract_directory_rel; exact H|].
      intros [[ok1 a1] g1] [[ok2 a2] g2] (E1 & Ha & E2). cbn [fst snd] in *. subst ok2 g2. cbv beta iota. dd_leaf Ha.
  - destruct (rd_curr r1) as [h|]; [|dd_leaf H].
    destruct (match filename with Some n => Some n | None => h_path h end) as [p|]; [|cbn [orel]; reflexivity].
    destruct (set_directory_metadata f h p) as [b f1]. dd_leaf H.
  - destruct (rd_curr r1) as [h|]; [|dd_leaf H].
    eapply orel_bind; [apply extract_symlink_rel; exact H|].
    intros [[ok1 a1] g1] [[ok2 a2] g2] (E1 & Ha & E2). cbn [fst snd] in *. subst ok2 g2. cbv beta iota. dd_leaf Ha.
Qed.

(* ------------------------------------------------------------------ *)
(* The invariant br_wf along every operation                           *)

Lemma reach_wf b b' : reach b b' -> br_wf b -> br_wf b'.
Proof. intros [sizes ->] W. apply read_many_wf. exact W. Qed.

Lemma extract_symlink_br r f fn ok r' f' : extract_symlink r f fn = Ok (ok, r', f') -> rd_br r' = rd_br r.
Proof.
  unfold extract_symlink, extract_placeholder_symlink. intros H.
  destruct (rd_curr r) as [h|]; [|discriminate]. cbv zeta in H.
  destruct ((match rd_type r with CT_NORMAL => true | _ => false end) && is_dangerous_symlink h).
  - destruct (arch_fopen f _ _) as [[hd|] f1]; [|inversion H; reflexivity].
    bind_inv H as r1 E. inversion H; subst. apply link_curr_eq in E. apply E.
  - destruct (h_symlink_target h); [|discriminate].
    destruct (arch_symlink f _ l) as [ok1 f1]. inversion H; reflexivity.
Qed.

Lemma extract_directory_br r f fn ok r' f' : extract_directory r f fn = Ok (ok, r', f') -> rd_br r' = rd_br r.
Proof.
  unfold extract_directory. intros H.
  destruct (rd_curr r) as [h|]; [|discriminate].
  destruct (match fn with Some p => Some p | None => h_path h end) as [p|]; [|discriminate].
  cbv zeta in H. destruct (arch_mkdir f p _) as [ok1 f1].
  destruct (negb ok1); [inversion H; reflexivity|].
  destruct (rd_policy r).
  - destruct (set_directory_metadata f1 h p) as [b f2]. inversion H; reflexivity.
  - bind_inv H as r1 E. inversion H; subst. apply link_curr_eq in E. apply E.
  - bind_inv H as r1 E. inversion H; subst. apply link_curr_eq in E. apply E.
Qed.

Lemma lha_reader_extract_reach junk r f fn mon ok ev r' f' :
  lha_reader_extract junk r f fn mon = Ok (ok, ev, r', f') -> reach (rd_br r) (rd_br r').
Proof.
  pose proof (decoders_use_callback_only_holds junk) as Hdec.
  unfold lha_reader_extract. intros H.
  destruct (rd_type r); try (inversion H; subst; apply reach_refl).
  - destruct (rd_curr r) as [h|] eqn:C; [|discriminate].
    destruct (negb (is_dir_method h)).
    + unfold extract_file in H. rewrite C in H. cbv zeta in H.
      bind_inv H as [[ok1 ev1] r1] E1. apply (open_decoder_reach junk Hdec) in E1.
      destruct (negb ok1); [inversion H; subst; exact E1|].
      destruct (arch_fopen f _ _) as [[hd|] f1]; [|inversion H; subst; exact E1].
      bind_inv H as [[[res ev2] r2] f2] E2. apply (do_decode_reach junk Hdec) in E2. inversion H; subst.
      eapply reach_trans; eauto.
    + destruct (h_symlink_target h).
      * bind_inv H as [[ok1 r1] f1] E. inversion H; subst. apply extract_symlink_br in E. rewrite E. apply reach_refl.
      * bind_inv H as [[ok1 r1] f1] E. inversion H; subst. apply extract_directory_br in E. rewrite E. apply reach_refl.
  - destruct (rd_curr r) as [h|]; [|inversion H; subst; apply reach_refl].
    destruct (match fn with Some n => Some n | None => h_path h end); [|discriminate].
    destruct (set_directory_metadata f h l) as [b f1]. inversion H; subst. apply reach_refl.
  - destruct (rd_curr r) as [h|]; [|inversion H; subst; apply reach_refl].
    bind_inv H as [[ok1 r1] f1] E. inversion H; subst. apply extract_symlink_br in E. rewrite E. apply reach_refl.
Qed.

Lemma lha_reader_next_file_wf mktime r h r' : br_wf (rd_br r) ->
  lha_reader_next_file mktime r = Ok (h, r') -> br_wf (rd_br r').
Proof.
  intros W H. rewrite next_file_unfold in H.
  destruct (rd_type r).
  - bind_inv H as [hh br'] Eb. apply nf_choose_cases in H. destruct H as (_ & -> & _). eapply next_file_wf; eauto.
  - bind_inv H as [hh br'] Eb. apply nf_choose_cases in H. destruct H as (_ & -> & _). eapply next_file_wf; eauto.
  - apply nf_choose_cases in H. destruct H as (_ & -> & _). exact W.
  - apply nf_choose_cases in H. destruct H as (_ & -> & _). exact W.
  - inversion H; subst. exact W.
Qed.

Lemma run_op_wf mktime junk r f o x r' f' : br_wf (rd_br r) ->
  run_op mktime junk (r, f) o = Ok (x, (r', f')) -> br_wf (rd_br r').
Proof.
  pose proof (decoders_use_callback_only_holds junk) as Hdec.
  intros W H. unfold run_op in H. destruct o as [|n|mon|fn mon].
  - bind_inv H as [h r1] E. inversion H; subst. eapply lha_reader_next_file_wf; eauto.
  - bind_inv H as [[bs ev] r1] E. inversion H; subst.
    eapply reach_wf; [eapply lha_reader_read_reach; eauto|exact W].
  - bind_inv H as [[b ev] r1] E. inversion H; subst.
    eapply reach_wf; [eapply lha_reader_check_reach; eauto|exact W].
  - bind_inv H as [[[b ev] r1] f1] E. inversion H; subst.
    eapply reach_wf; [eapply lha_reader_extract_reach; eauto|exact W].
Qed.

(* ------------------------------------------------------------------ *)
(* Operation sequences                                                 *)

Definition op_res_rel {A} (x y : A * (reader * fs)) : Prop :=
  fst x = fst y /\ rd_rel (fst (snd x)) (fst (snd y)) /\ snd (snd x) = snd (snd y).

Theorem run_op_rel mktime junk r1 r2 f o : rd_rel r1 r2 -> br_wf (rd_br r1) -> br_wf (rd_br r2) ->
  orel op_res_rel (run_op mktime junk (r1, f) o) (run_op mktime junk (r2, f) o).
Proof.
  intros H W1 W2. unfold run_op. destruct o as [|n|mon|fn mon].
  - eapply orel_bind; [apply lha_reader_next_file_rel; eassumption|].
    intros [h1 a1] [h2 a2] [E Ha]. cbn [fst snd] in *. subst h2. cbv beta iota.
    cbn [orel]. unfold op_res_rel. cbn [fst snd]. pose proof Ha as (_ & _ & T & _).
    unfold lha_reader_current_is_fake. rewrite T. auto.
  - eapply orel_bind; [apply lha_reader_read_rel; eassumption|].
    intros [[b1 e1] a1] [[b2 e2] a2] [E Ha]. cbn [fst snd] in *. inversion E; subst b2 e2. cbv beta iota.
    cbn [orel]. unfold op_res_rel. cbn [fst snd]. auto.
  - eapply orel_bind; [apply lha_reader_check_rel; eassumption|].
    intros [[b1 e1] a1] [[b2 e2] a2] [E Ha]. cbn [fst snd] in *. inversion E; subst b2 e2. cbv beta iota.
    cbn [orel]. unfold op_res_rel. cbn [fst snd]. auto.
  - eapply orel_bind; [apply lha_reader_extract_rel; eassumption|].
    intros [[[b1 e1] a1] g1] [[[b2 e2] a2] g2] (E & Ha & Eg). cbn [fst snd] in *. inversion E; subst b2 e2 g2.
    cbv beta iota. cbn [orel]. unfold op_res_rel. cbn [fst snd]. auto.
Qed.

(* Any sequence of API calls -- in any order, protocol-respecting or not -- on
   two related readers: the same observations (entries with their headers,
   decoded bytes, verdicts), the same filesystem, related readers; or the same
   Fault / OutOfFuel at the same operation. *)
Theorem run_ops_rel mktime junk l : forall r1 r2 f, rd_rel r1 r2 -> br_wf (rd_br r1) -> br_wf (rd_br r2) ->
  orel op_res_rel (run_ops mktime junk (r1, f) l) (run_ops mktime junk (r2, f) l).
Proof.
  induction l as [|o l IH]; intros r1 r2 f H W1 W2; cbn [run_ops].
  - cbn [orel]. unfold op_res_rel. cbn [fst snd]. auto.
  - eapply orel_bind.
    + apply (orel_with_inv op_res_rel (fun x => br_wf (rd_br (fst (snd x)))) (fun x => br_wf (rd_br (fst (snd x))))).
      * apply run_op_rel; assumption.
      * intros [x [a g]] Ex. cbn [fst snd]. eapply run_op_wf; [|exact Ex]; assumption.
      * intros [x [a g]] Ex. cbn [fst snd]. eapply run_op_wf; [|exact Ex]; assumption.
    + intros [x1 [a1 g1]] [x2 [a2 g2]] ((Ex & Ha & Eg) & Wa & Wb). cbn [fst snd] in *. subst x2 g2. cbv beta iota.
      eapply orel_bind; [apply IH; assumption|].
      intros [xs1 [b1 k1]] [xs2 [b2 k2]] (Exs & Hb & Ek). cbn [fst snd] in *. subst xs2 k2. cbv beta iota.
      cbn [orel]. unfold op_res_rel. cbn [fst snd]. auto.
Qed.
End ReaderRel.

(* what the caller sees of a run: the observations and the filesystem *)
Definition observed (x : outcome (list obs * (reader * fs))) : outcome (list obs * fs) :=
  match x with
  | Ok (xs, (_, f)) => Ok (xs, f)
  | Fault s => Fault s
  | OutOfFuel => OutOfFuel
  end.

(* related readers, any compatible relation: the caller sees the same *)
Theorem observed_same BR : br_compat BR -> forall mktime junk l r1 r2 f,
  rd_rel BR r1 r2 -> br_wf (rd_br r1) -> br_wf (rd_br r2) ->
  observed (run_ops mktime junk (r1, f) l) = observed (run_ops mktime junk (r2, f) l).
Proof.
  intros HBR mktime junk l r1 r2 f H W1 W2.
  pose proof (run_ops_rel BR HBR mktime junk l r1 r2 f H W1 W2) as O.
  destruct (run_ops mktime junk (r1, f) l) as [[xs1 [a1 g1]]| |],
           (run_ops mktime junk (r2, f) l) as [[xs2 [a2 g2]]| |];
    cbn [orel] in O; try contradiction; cbn [observed].
  - destruct O as (E1 & _ & E2). cbn [fst snd] in *. subst. reflexivity.
  - subst. reflexivity.
  - reflexivity.
Qed.

Definition reader_on (k : skind) (data : list N) (p : dir_policy) : reader :=
  lha_reader_set_dir_policy (lha_reader_new (lha_input_stream_new (mk_source k data))) p.

(* ------------------------------------------------------------------ *)
(* The four kinds of source                                            *)

Lemma br_rel_compat : br_compat br_rel.
Proof.
  split; [|split].
  - intros a b (_ & C & _). exact C.
  - intros a b n H. apply read_compressed_kind. exact H.
  - intros mktime a b H Wa Wb. apply next_file_kind; assumption.
Qed.

(* readers that differ in the kind of their source (and its request counters) only *)
Definition rd_kind_rel : reader -> reader -> Prop := rd_rel br_rel.

Lemma rd_kind_rel_new k1 k2 data p : rd_kind_rel (reader_on k1 data p) (reader_on k2 data p).
Proof. apply rd_rel_init. apply br_rel_new. Qed.

Theorem lha_reader_next_file_kind mktime r1 r2 : rd_kind_rel r1 r2 ->
  br_wf (rd_br r1) -> br_wf (rd_br r2) ->
  orel (rres_rel br_rel) (lha_reader_next_file mktime r1) (lha_reader_next_file mktime r2).
Proof. apply (lha_reader_next_file_rel br_rel br_rel_compat). Qed.

Theorem lha_reader_read_kind junk r1 r2 n : rd_kind_rel r1 r2 ->
  orel (rres_rel br_rel) (lha_reader_read junk r1 n) (lha_reader_read junk r2 n).
Proof. apply (lha_reader_read_rel br_rel br_rel_compat). Qed.

Theorem lha_reader_check_kind junk r1 r2 mon : rd_kind_rel r1 r2 ->
  orel (rres_rel br_rel) (lha_reader_check junk r1 mon) (lha_reader_check junk r2 mon).
Proof. apply (lha_reader_check_rel br_rel br_rel_compat). Qed.

Theorem lha_reader_extract_kind junk r1 r2 f filename mon : rd_kind_rel r1 r2 ->
  orel (ddres_rel br_rel) (lha_reader_extract junk r1 f filename mon) (lha_reader_extract junk r2 f filename mon).
Proof. apply (lha_reader_extract_rel br_rel br_rel_compat). Qed.

(* Any sequence of API calls -- in any order, protocol-respecting or not -- on
   two readers that differ in the kind of source only: the same observations
   (entries with their headers, decoded bytes, verdicts), the same filesystem,
   related readers; or the same Fault / OutOfFuel at the same operation. *)
Theorem run_ops_kind mktime junk l r1 r2 f : rd_kind_rel r1 r2 -> br_wf (rd_br r1) -> br_wf (rd_br r2) ->
  orel (op_res_rel br_rel) (run_ops mktime junk (r1, f) l) (run_ops mktime junk (r2, f) l).
Proof. apply (run_ops_rel br_rel br_rel_compat). Qed.

(* C16, stream kinds: for every archive (below the 2^40 bytes that the model's
   fuel for the read-based skip loops covers), every directory policy, every
   sequence of lha_reader_next_file / _read / _check / _extract calls (any
   order, any arguments), every initial filesystem, and every two kinds of
   source -- seekable file, pipe, callbacks with or without a skip function --
   the caller observes the same entries and headers, the same decoded bytes,
   the same verdicts and the same filesystem. *)
Theorem members_same_for_all_kinds mktime junk data p f l k1 k2 : nlen data < 1099511627776 ->
  observed (run_ops mktime junk (reader_on k1 data p, f) l) =
  observed (run_ops mktime junk (reader_on k2 data p, f) l).
Proof.
  intros Hb. apply (observed_same br_rel br_rel_compat).
  - apply rd_kind_rel_new.
  - apply br_wf_new. exact Hb.
  - apply br_wf_new. exact Hb.
Qed.

Print Assumptions lha_reader_next_file_kind.
Print Assumptions lha_reader_read_kind.
Print Assumptions lha_reader_check_kind.
Print Assumptions lha_reader_extract_kind.
Print Assumptions run_ops_kind.
Print Assumptions observed_same.
Print Assumptions members_same_for_all_kinds.

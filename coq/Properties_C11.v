(* Properties_C11.v -- C11: returned paths never contain '.', '..' or empty
   components; names contain no '/'.  Statements only; proofs in P_Path.v.
   The specification (slash_components, path_ok, name_ok) is at the top of P_Path.v. *)
From Lhasa Require Import Base InputStream Header P_Path.
Local Open Scope N_scope.

(* For EVERY input stream state (any bytes, any of the four header levels, any
   extended headers, any OS type) and any mktime: if the parser returns a header,
   its file name contains no '/', and every '/'-terminated component of its path is
   a real name -- not empty, not ".", not ".." -- apart from one optional leading '/'. *)
Theorem returned_names_ok : forall mktime st h st',
  lha_file_header_read mktime st = Ok (Some h, st') ->
  (forall n, h_filename h = Some n -> name_ok n) /\ (forall p, h_path h = Some p -> path_ok p).
Proof. exact P_Path.returned_names_ok. Qed.

(* the normalisation itself, for every byte string *)
Theorem collapse_path_ok : forall p, path_ok (collapse_path p).
Proof. exact P_Path.collapse_path_ok. Qed.

(* Joining path and name cannot climb: every prefix of the path's component list has
   non-negative depth (+1 real name, -1 "..", 0 "." or empty). *)
Theorem join_does_not_climb : forall mktime st h st' p,
  lha_file_header_read mktime st = Ok (Some h, st') -> h_path h = Some p ->
  (forall k : nat, (0 <= depth (firstn k (slash_components (strip_lead p) [])))%Z) /\
  (hd_error p <> Some 47 -> forall k : nat, (0 <= depth (firstn k (slash_components p [])))%Z).
Proof. exact P_Path.join_does_not_climb. Qed.

(* non-vacuity: a stored path that climbs is normalised; the raw path is not ok *)
Example collapse_example : collapse_path [97; 47; 46; 46; 47; 46; 46; 47; 98; 47; 46; 47; 99; 47; 47; 100; 47]%N
                           = [98; 47; 99; 47; 100; 47]%N.
Proof. vm_compute. reflexivity. Qed.

Print Assumptions returned_names_ok.
Print Assumptions collapse_path_ok.
Print Assumptions join_does_not_climb.
(* ---- the whole member list (P_MembersAll.v): every header plain iteration yields on ANY
   stream (P_CliMembers.stream_headers) has a name without '/' and a path of real names ---- *)
From Lhasa Require P_MembersAll.
Theorem stream_headers_names_ok : ltac:(let t := type of P_MembersAll.stream_headers_names_ok in exact t).
Proof. exact P_MembersAll.stream_headers_names_ok. Qed.
Print Assumptions stream_headers_names_ok.

(* placeholder until the theorems are in place *)
From Lhasa Require Import Base Header.
Example collapse_example2 : collapse_path [47; 46; 46; 47; 46; 47; 47; 97; 47]%N = [47; 97; 47]%N.
Proof. vm_compute. reflexivity. Qed.

(* P_CliConfineAll.v -- C10, confinement of a WHOLE extraction up to the first
   dangerous link.

   Under the preconditions of P_CliConfine (cwd = R, every link below R safe, w=
   relative without ".."), for every run of the extraction loop, whatever the
   archive: every operation logged up to AND INCLUDING the first successful
   creation of a symbolic link with a dangerous target resolved below R; if no such
   link is ever created, every operation of the run did, and every link below R is
   still safe at the end.  (What happens after that first creation is the known
   finding: Properties_C10.confinement_refuted, P_CliOrder.ordering_mkdir_witness.) *)
From Lhasa Require Import Base Loop Generated InputStream Header BasicReader AnyDecoder Decoder MacBinary
  Fs FsRun Reader Glob ListOut CliFilter CliExtract CliMain P_Path P_CliSafe P_CliOrder P_FsConfine P_CliPath
  P_CliConfine.
From Coq Require Import Lia.
Local Open Scope N_scope.

Lemma kinds_and (P Q : fsop -> Prop) s s' : kinds P s s' -> kinds Q s s' -> kinds (fun o => P o /\ Q o) s s'.
Proof.
  intros (n1 & E1 & F1) (n2 & E2 & F2). rewrite E1 in E2. apply app_inv_tail in E2. subst n2.
  exists n1. split; [exact E1|]. rewrite Forall_forall in *. intros o Ho. split; auto.
Qed.

Lemma dangerous_not_safe t : safe_target t = true -> dangerous_target t = false.
Proof.
  unfold dangerous_target, safe_target. destruct t as [|c r]; [intros H; apply andb_prop in H; destruct H as [_ H];
    apply Bool.negb_true_iff in H; exact H|].
  rewrite is_absolute_cons. destruct (N.eqb_spec c 47) as [->|Hc]; [discriminate|].
  rewrite (lead47_other c r _ _ Hc). cbn [negb andb]. intros H. apply Bool.negb_true_iff in H. exact H.
Qed.

Lemma fs_symlink_shape s t p :
  snd (fs_symlink s t p) = s \/ exists loc root', snd (fs_symlink s t p) = log s (OpSymlink loc t) root'.
Proof.
  unfold fs_symlink. break_match; cbn [snd]; try (left; reflexivity). right. eexists. eexists. reflexivity.
Qed.

Section All.
  Variable mktime : N -> N -> N -> N -> Z -> N -> N.
  Variable junk : N.
  Variable R : phys.
  Variable o0 : lha_options.
  Hypothesis Hw : good_w o0.

  Notation names := (names o0).
  Notation rinv := (rinv names).
  Notation opts_same := (opts_same o0).

  (* below R and not the creation of a dangerous link *)
  Definition good_op (o : fsop) : Prop := below_op R o /\ early_op o.

  (* since f0: good operations, then the creation of a dangerous link below R, then anything *)
  Definition broken (f0 f : fs) : Prop :=
    exists late d early, fs_trace f = late ++ d :: early ++ fs_trace f0 /\
      dangerous_op d /\ below_op R d /\ Forall good_op early.

  Lemma broken_grow f0 f f' : broken f0 f -> (exists new, fs_trace f' = new ++ fs_trace f) -> broken f0 f'.
  Proof.
    intros (late & d & early & E & A & B & C) (new & E'). exists (new ++ late), d, early.
    split; [rewrite E', E, app_assoc; reflexivity|]. repeat split; assumption.
  Qed.

  (* ---- the reader in the final phase ---- *)
  Lemma next_file_rinv2 r0 h r' :
    lha_reader_next_file mktime r0 = Ok (h, r') -> phase2 r0 -> rinv r0 ->
    rinv r' /\ (forall hd, h = Some hd -> rd_curr r' = Some hd).
  Proof.
    intros H (Ht & Es & Eb) [I1 I2 I3 I4]. apply next_file_cases in H.
    destruct H as [(Et & -> & ->)|(Et & br1 & linked & Hbr & H)].
    { split; [constructor; assumption|discriminate]. }
    assert (Eb1 : br_curr br1 = None).
    { destruct Hbr as [[[Y|Y] _]|[_ ->]]; [destruct Ht; congruence|destruct Ht; congruence|exact Eb]. }
    destruct H as [(top & rest & Es' & -> & ->)|[(hc & Ec & -> & ->)|[(Ec & _ & l & lrest & Ed & -> & ->)|(Ec & _ & Ed & -> & ->)]]];
      try congruence.
    - split; [|intros hd E; exact E]. unfold mk_reader. constructor; cbn [rd_curr rd_dir_stack rd_deferred rd_type rd_br].
      + rewrite Ed in I3. inversion I3; subst. intros h E. injection E as <-. assumption.
      + constructor.
      + rewrite Ed in I3. inversion I3; assumption.
      + discriminate.
    - split; [|discriminate]. unfold mk_reader. constructor; cbn [rd_curr rd_dir_stack rd_deferred rd_type rd_br];
        try discriminate; constructor.
  Qed.

  Lemma filter_next_file_all flt r h r' :
    filter_next_file mktime flt r = Ok (h, r') -> reader_ok r -> rinv r ->
    reader_ok r' /\ rinv r' /\ (forall hd, h = Some hd -> rd_curr r' = Some hd).
  Proof.
    unfold filter_next_file. intros H Hok Hi.
    apply (loop_inv (filter_step mktime flt) (fun s => reader_ok s /\ rinv s)
             (fun x => reader_ok (snd x) /\ rinv (snd x) /\ (forall hd, fst x = Some hd -> rd_curr (snd x) = Some hd))) in H.
    - exact H.
    - clear. intros s x [Hok Hi]. unfold filter_step. intros H.
      apply bind_ok in H. destruct H as ([h r1] & Hn & H). cbv beta iota in H.
      pose proof Hn as Hn'. apply next_file_ok in Hn'; [|exact Hok]. destruct Hn' as (A & _).
      assert (G : rinv r1 /\ (forall hd, h = Some hd -> rd_curr r1 = Some hd)).
      { destruct Hok as [[P|P] _].
        - destruct (next_file_rinv mktime names _ _ _ Hn P Hi) as [X Y]. split; [exact X|]. intros hd ->. exact Y.
        - eapply next_file_rinv2; eauto. }
      destruct G as [G1 G2].
      destruct h as [hd|]; [destruct (matches_filter flt hd)|]; injection H as <-; cbn [fst snd].
      + split; [exact A|split; [exact G1|exact G2]].
      + split; [exact A|exact G1].
      + split; [exact A|split; [exact G1|exact G2]].
    - split; assumption.
  Qed.

  (* ---- the creation of a deferred link in a tree that is still safe ---- *)
  Lemma deferred_extract_cases r f p monitor ok ev r' f' :
    lha_reader_extract junk r f (Some p) monitor = Ok (ok, ev, r', f') ->
    phase2 r -> rel_path p -> fs_ok R f ->
    r' = r /\
    ((fs_ok R f' /\ kinds good_op f f') \/
     (exists d mid, fs_trace f' = d :: mid ++ fs_trace f /\ dangerous_op d /\ below_op R d /\ Forall good_op mid)).
  Proof.
    unfold lha_reader_extract. intros H ([Et|Et] & _) Hp Hok; rewrite Et in H.
    2:{ destruct (rd_curr r); injection H as _ _ <- <-; (split; [reflexivity|]); left;
        (split; [exact Hok|apply kinds_refl]). }
    destruct (rd_curr r) as [h|] eqn:Ec;
      [|injection H as _ _ <- <-; split; [reflexivity|]; left; split; [exact Hok|apply kinds_refl]].
    apply bind_ok in H. destruct H as ([[ok1 r1] f1] & Hx & H). cbv beta iota in H. injection H as _ _ <- <-.
    assert (Er : r1 = r).
    { revert Hx. unfold extract_symlink. rewrite Ec, Et. cbn [andb]. destruct (h_symlink_target h); [|discriminate].
      destruct (arch_symlink f p l). intros Hx. injection Hx as _ <- _. reflexivity. }
    split; [exact Er|]. clear Er.
    unfold extract_symlink in Hx. rewrite Ec, Et in Hx. cbn [andb] in Hx.
    destruct (h_symlink_target h) as [t|]; [|discriminate].
    unfold arch_symlink in Hx.
    destruct (fs_unlink_conf R f p Hok Hp) as [O1 K1]. pose proof (fs_unlink_kinds f p) as K1'.
    destruct (fs_unlink f p) as [b s1]. cbn [snd] in O1, K1, K1'.
    assert (G1 : kinds good_op f s1).
    { apply kinds_and; [exact K1|]. eapply kinds_weaken; [|exact K1']. intros o Ho. destruct o; cbn in Ho; try contradiction. intros X; exact X. }
    destruct (fs_symlink_conf R s1 t p O1 Hp) as [K2 O2]. pose proof (fs_symlink_kinds s1 t p) as K2'.
    destruct (fs_symlink_shape s1 t p) as [E|(loc & root' & E)].
    - left. destruct (fs_symlink s1 t p) as [oks s2]. cbn [snd] in *. subst s2. injection Hx as _ _ <-.
      split; assumption.
    - destruct (fs_symlink s1 t p) as [oks s2]. cbn [snd] in *. subst s2. injection Hx as _ _ <-.
      assert (Hloc : below_op R (OpSymlink loc t)).
      { destruct K2 as (n & En & Fn). cbn [log fs_trace] in En.
        change (OpSymlink loc t :: fs_trace s1) with ([OpSymlink loc t] ++ fs_trace s1) in En.
        apply app_inv_tail in En. subst n. inversion Fn; assumption. }
      destruct (safe_target t) eqn:Es.
      + left. split; [apply O2; reflexivity|]. eapply kinds_trans; [exact G1|].
        apply kinds_log. split; [exact Hloc|]. unfold early_op, dangerous_op. rewrite (dangerous_not_safe t Es). discriminate.
      + right. destruct G1 as (mid & Em & Fm). exists (OpSymlink loc t), mid.
        split; [cbn [log fs_trace]; rewrite Em; reflexivity|]. split; [|split; [exact Hloc|exact Fm]].
        unfold dangerous_op. destruct (dangerous_target t) eqn:Ed; [reflexivity|].
        apply safe_target_not_dangerous in Ed. congruence.
  Qed.

  (* ---- the invariant of the whole run ---- *)
  Definition Ginv (f0 : fs) (st : cli_state) : Prop :=
    reader_ok (cs_reader st) /\ opts_same (cs_opts st) /\
    ((rinv (cs_reader st) /\ fs_ok R (cs_fs st) /\ kinds good_op f0 (cs_fs st)) \/ broken f0 (cs_fs st)).

  Lemma extract_archived_file_opts h st v st' :
    extract_archived_file junk h st = Ok (v, st') -> opts_same (cs_opts st) -> opts_same (cs_opts st').
  Proof.
    rewrite extract_archived_file_unfold. cbv zeta. intros H [A B].
    assert (S1 : forall s1 s2, cli_same s1 s2 -> opts_same (cs_opts s1) -> opts_same (cs_opts s2)).
    { intros s1 s2 (_ & _ & C & D) [X Y]. split; congruence. }
    apply cbind_ok in H. destruct H as [(c & H & _)|(skip & st1 & Hs & H)].
    { apply skip_block_same in H. eapply S1; [exact H|split; assumption]. }
    apply skip_block_same in Hs. apply S1 in Hs; [|split; assumption]. clear A B.
    destruct skip.
    { injection H as _ <-. destruct (is_skip _); exact Hs. }
    destruct (negb (o_use_path (cs_opts st1)) && _); [injection H as _ <-; exact Hs|].
    pose proof (make_parent_directories_mkdir (file_full_path h (cs_opts st)) st1) as Km.
    destruct (make_parent_directories (file_full_path h (cs_opts st)) st1) as [okp st2]. cbn [snd] in Km.
    destruct Km as (_ & _ & Eo). rewrite <- Eo in Hs.
    destruct (negb okp); [injection H as _ <-; exact Hs|].
    apply bind_ok in H. destruct H as ([[[success evs] r'] f'] & Hx & H). cbv beta iota in H.
    injection H as _ <-.
    match goal with |- opts_same (cs_opts (if ?c then _ else _)) => destruct c end; [|exact Hs].
    destruct (invoked evs); [exact Hs|]. destruct (h_symlink_target h); exact Hs.
  Qed.

  Lemma grows_of_order h st v st' :
    extract_archived_file junk h st = Ok (v, st') -> reader_ok (cs_reader st) ->
    reader_ok (cs_reader st') /\ exists new, fs_trace (cs_fs st') = new ++ fs_trace (cs_fs st).
  Proof.
    intros H Hr. apply (extract_archived_file_order junk (cs_fs st)) in H; [|apply cli_ok_self; exact Hr].
    split; [apply H|]. apply cli_ok_two_phase in H. destruct H as (late & early & E & _).
    exists (late ++ early). rewrite E, app_assoc. reflexivity.
  Qed.

  Lemma extract_archived_file_all f0 h st v st' :
    extract_archived_file junk h st = Ok (v, st') -> rd_curr (cs_reader st) = Some h -> Ginv f0 st -> Ginv f0 st'.
  Proof.
    intros H Ec (Hr & Ho & Hc).
    destruct (grows_of_order _ _ _ _ H Hr) as [Hr' Hgrow].
    pose proof (extract_archived_file_opts _ _ _ _ H Ho) as Ho'.
    split; [exact Hr'|]. split; [exact Ho'|].
    destruct Hc as [(Hi & Hok & Hk)|Hb]; [|right; eapply broken_grow; eauto].
    destruct Hr as [[P1|P2] Hsort].
    - (* main phase *)
      left.
      assert (HD : Dinv R o0 f0 st).
      { unfold Dinv. split; [split; [left; exact P1|exact Hsort]|]. split; [exact P1|]. split; [exact Hi|].
        split; [exact Hok|]. split; [|exact Ho]. eapply kinds_weaken; [|exact Hk]. intros o Hg. apply Hg. }
      pose proof H as H2. apply (extract_archived_file_conf junk R o0 Hw f0) in H2; [|exact Ec|exact HD].
      destruct H2 as (_ & Q1 & Q3 & Q4 & Q5 & _).
      split; [exact Q3|]. split; [exact Q4|]. apply kinds_and; [exact Q5|].
      apply (extract_archived_file_order junk f0) in H.
      + destruct H as [_ [[_ K]|[Q2 _]]]; [exact K|exfalso; eapply phase_disjoint; eauto].
      + split; [split; [left; exact P1|exact Hsort]|]. left. split; [exact P1|].
        eapply kinds_weaken; [|exact Hk]. intros o Hg. apply Hg.
    - (* final phase, tree still safe *)
      revert H. rewrite extract_archived_file_unfold. cbv zeta. intros H.
      rewrite (ffp_same o0 h _ Ho) in H.
      apply cbind_ok in H. destruct H as [(c & H & _)|(skip & st1 & Hs & H)].
      { apply skip_block_same in H. destruct H as (A & Q & _). left. rewrite A.
        split; [eapply rinv_req; eauto|]. split; assumption. }
      apply skip_block_same in Hs. destruct Hs as (A & Q & _).
      assert (Hi1 : rinv (cs_reader st1)) by (eapply rinv_req; eauto).
      assert (Ec1 : rd_curr (cs_reader st1) = Some h) by (destruct Q as (_ & B & _); congruence).
      assert (P21 : phase2 (cs_reader st1)) by (eapply req_phase2; eauto).
      rewrite <- A in Hok, Hk. clear A Q.
      assert (Keep : forall s, cs_fs s = cs_fs st1 -> cs_reader s = cs_reader st1 ->
                     (rinv (cs_reader s) /\ fs_ok R (cs_fs s) /\ kinds good_op f0 (cs_fs s)) \/ broken f0 (cs_fs s)).
      { intros s -> ->. left. split; [exact Hi1|]. split; assumption. }
      destruct skip.
      { injection H as _ <-. destruct (is_skip _); apply Keep; reflexivity. }
      destruct (negb (o_use_path (cs_opts st1)) && _); [injection H as _ <-; apply Keep; reflexivity|].
      assert (Hc11 : hdr_c11 h) by (apply (ri_curr _ _ Hi1); exact Ec1).
      assert (Hg : good_str (names h)) by (apply file_full_path_good; assumption).
      pose proof (make_parent_directories_conf R (names h) st1 Hg Hok) as Km.
      pose proof (make_parent_directories_mkdir (names h) st1) as Km'.
      destruct (make_parent_directories (names h) st1) as [okp st2]. cbn [snd] in Km, Km'.
      destruct Km as (O2 & K2 & Er & Eo). destruct Km' as (K2' & _).
      assert (G2 : kinds good_op f0 (cs_fs st2)).
      { eapply kinds_trans; [exact Hk|]. apply kinds_and; [exact K2|].
        eapply kinds_weaken; [exact mkdir_early|exact K2']. }
      destruct (negb okp).
      { injection H as _ <-. left. rewrite Er. split; [exact Hi1|]. split; assumption. }
      apply bind_ok in H. destruct H as ([[[success evs] r'] f'] & Hx & H). cbv beta iota in H.
      rewrite <- Er in P21, Hi1.
      apply deferred_extract_cases in Hx; [|exact P21|apply names_rel; [exact Hw|exact Hc11]|exact O2].
      destruct Hx as [-> Hx].
      injection H as _ <-.
      assert (Fin : (rinv (cs_reader st2) /\ fs_ok R f' /\ kinds good_op f0 f') \/ broken f0 f').
      { destruct Hx as [[O3 K3]|(d & mid & E & Dd & Bd & Fm)].
        - left. split; [exact Hi1|]. split; [exact O3|eapply kinds_trans; eassumption].
        - right. destruct G2 as (e2 & E2 & F2). exists [], d, (mid ++ e2).
          split; [cbn [app]; rewrite E, E2, app_assoc; reflexivity|]. split; [exact Dd|]. split; [exact Bd|].
          apply Forall_app. split; assumption. }
      match goal with |- context [cs_reader (if ?c then _ else _)] => destruct c end; [|exact Fin].
      destruct (invoked evs); [exact Fin|]. destruct (h_symlink_target h); exact Fin.
  Qed.

  Lemma extract_archive_step_all f0 flt result st x :
    extract_archive_step mktime junk flt (result, st) = Ok x -> Ginv f0 st ->
    match x with inl s' => Ginv f0 (snd s') | inr r => Ginv f0 (snd r) end.
  Proof.
    unfold extract_archive_step. intros H (Hr & Ho & Hc).
    apply bind_ok in H. destruct H as ([h st1] & Hn & H). cbv beta iota in H.
    apply (next_header_inv mktime) in Hn. destruct Hn as (r1 & Hf & ->).
    assert (G1 : Ginv f0 (set_reader st r1) /\
                 ((rinv r1 /\ forall hd, h = Some hd -> rd_curr r1 = Some hd) \/ broken f0 (cs_fs st))).
    { destruct Hc as [(Hi & Hok & Hk)|Hb].
      - apply filter_next_file_all in Hf; try assumption. destruct Hf as (A & B & C).
        split; [|left; split; assumption]. split; [exact A|]. split; [exact Ho|]. left. split; [exact B|].
        split; assumption.
      - apply filter_next_file_ok in Hf; [|exact Hr]. destruct Hf as [A _].
        split; [|right; exact Hb]. split; [exact A|]. split; [exact Ho|]. right. exact Hb. }
    destruct G1 as [G1 G2].
    destruct h as [hd|]; [|injection H as <-; exact G1].
    apply bind_ok in H. destruct H as ([r st2] & Hx & H).
    assert (G3 : Ginv f0 st2).
    { destruct G2 as [[_ Ec]|Hb].
      - eapply extract_archived_file_all; [exact Hx|apply Ec; reflexivity|exact G1].
      - destruct G1 as (A & B & _).
        destruct (grows_of_order _ _ _ _ Hx A) as [A' Hg].
        split; [exact A'|]. split; [eapply extract_archived_file_opts; eauto|]. right.
        eapply broken_grow; eauto. }
    destruct r; injection H as <-; exact G3.
  Qed.

  (* WHOLE-RUN CONFINEMENT up to the first dangerous link *)
  Theorem extract_confined_until_dangerous flt st0 strm v st :
    fs_ok R (cs_fs st0) -> cs_opts st0 = o0 -> cs_reader st0 = lha_reader_new strm ->
    extract_archive mktime junk flt st0 = Ok (v, st) ->
    (* no dangerous link was created: everything happened below R, the tree is still safe *)
    (fs_ok R (cs_fs st) /\ kinds good_op (cs_fs st0) (cs_fs st)) \/
    (* or: good operations, then the creation of a dangerous link, itself below R, then the rest *)
    broken (cs_fs st0) (cs_fs st).
  Proof.
    intros Hok Ho Er. unfold extract_archive. destruct (o_dry_run (cs_opts st0)).
    - intros H. apply extract_archive_dry_run_fs in H. rewrite H. left. split; [exact Hok|apply kinds_refl].
    - intros H.
      apply (loop_inv (extract_archive_step mktime junk flt)
               (fun s => Ginv (cs_fs st0) (snd s)) (fun r => Ginv (cs_fs st0) (snd r))) in H.
      + cbn [snd] in H. destruct H as (_ & _ & [(_ & A & B)|Hb]); [left; split; assumption|right; exact Hb].
      + clear - Hw. intros [result s] x Hi Hx. cbn [snd] in Hi.
        apply (extract_archive_step_all (cs_fs st0)) in Hx; [|exact Hi]. exact Hx.
      + cbn [snd]. destruct (reader_new_ok strm) as [A B]. split; [rewrite Er; exact A|].
        split; [rewrite Ho; split; reflexivity|]. left. split; [rewrite Er; apply rinv_new|].
        split; [exact Hok|apply kinds_refl].
  Qed.

  (* the same in terms of the trace alone *)
  Corollary extract_trace_confined flt st0 strm v st :
    fs_ok R (cs_fs st0) -> cs_opts st0 = o0 -> cs_reader st0 = lha_reader_new strm ->
    extract_archive mktime junk flt st0 = Ok (v, st) ->
    exists new, fs_trace (cs_fs st) = new ++ fs_trace (cs_fs st0) /\
      ((forall o, In o new -> below_op R o) \/
       exists late d early, new = late ++ d :: early /\ dangerous_op d /\ below_op R d /\
                            (forall o, In o early -> below_op R o /\ ~ dangerous_op o)).
  Proof.
    intros A B C D. destruct (extract_confined_until_dangerous _ _ _ _ _ A B C D) as [[_ (n & E & F)]|(late & d & early & E & X & Y & Z)].
    - exists n. split; [exact E|]. left. intros o Ho. rewrite Forall_forall in F. apply (F o Ho).
    - exists (late ++ d :: early). split; [rewrite E, <- app_assoc; reflexivity|]. right.
      exists late, d, early. split; [reflexivity|]. split; [exact X|]. split; [exact Y|].
      intros o Ho. rewrite Forall_forall in Z. apply (Z o Ho).
  Qed.
End All.

Print Assumptions extract_confined_until_dangerous.
Print Assumptions extract_trace_confined.

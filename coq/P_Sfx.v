(* P_Sfx.v -- C16, second half: the self-extractor scan of lib/lha_input_stream.c
   (skip_sfx) finds the first header after any prefix that has no method
   signature and no SFX marker (in the concatenation), also with one decoy header
   after a marker; the literal reading "the prefix alone has no signature" is
   refuted; the result does not depend on the source kind nor on how the
   underlying reads are chunked.  Lemmas and theorems only. *)
From Lhasa Require Import Base ListN Loop Generated InputStream.
From Coq Require Import ZifyBool ZifyN ZifyNat.
Local Open Scope N_scope.

(* ------------------------------------------------------------------ *)
(* 1. Signatures and markers on byte lists (independent of the scanner) *)

(* "lh?", "lz4" / "lz5" / "lzs", "pm?" except "pms" *)
Definition method_sig (b3 b4 b5 : N) : bool :=
  ((b3 =? 108) && (b4 =? 104))
  || ((b3 =? 108) && (b4 =? 122) && ((b5 =? 52) || (b5 =? 53) || (b5 =? 115)))
  || ((b3 =? 112) && (b4 =? 109) && negb (b5 =? 115)).

(* a header signature "-???-" with a known method at bytes q+2 .. q+6 of s *)
Definition match_at (s : list N) (q : N) : bool :=
  match nth_N s (q + 2), nth_N s (q + 3), nth_N s (q + 4), nth_N s (q + 5), nth_N s (q + 6) with
  | Some b2, Some b3, Some b4, Some b5, Some b6 =>
      (b2 =? 45) && (b6 =? 45) && method_sig b3 b4 b5
  | _, _, _, _, _ => false
  end.

(* the string id occurs in s at position q *)
Fixpoint prefix_at (s : list N) (q : N) (id : list N) : bool :=
  match id with
  | [] => true
  | c :: r =>
    match nth_N s q with
    | Some b => (b =? c) && prefix_at s (q + 1) r
    | None => false
    end
  end.

Definition marker_at (s : list N) (q : N) : bool :=
  prefix_at s q DECLHA_SFX_ID || prefix_at s q AMIGA_LHASFX_ID.

(* The reference scan: examine positions q, q+1, ..., q+n-1 of s in this order
   with skip flag k; a match with flag 0 is the answer, a match with a non-zero
   flag decrements it, then a marker sets it to 1. *)
Fixpoint ref_scan (s : list N) (n : nat) (q k : N) : option N * N :=
  match n with
  | O => (None, k)
  | S n' =>
    let m := match_at s q in
    if m && (k =? 0) then (Some q, k)
    else ref_scan s n' (q + 1) (if marker_at s q then 1 else if m then k - 1 else k)
  end.

(* ------------------------------------------------------------------ *)
(* 2. List helpers *)

Lemma nth_N_some {A} (l : list A) i : i < nlen l -> exists b, nth_N l i = Some b.
Proof.
  intros H. unfold nth_N. destruct (nth_error l (N.to_nat i)) as [b|] eqn:E; [eauto|].
  apply nth_error_None in E. unfold nlen in H. lia.
Qed.

Lemma nth_N_lt {A} (l : list A) i b : nth_N l i = Some b -> i < nlen l.
Proof.
  unfold nth_N. intros H.
  assert (N.to_nat i < length l)%nat by (apply nth_error_Some; congruence).
  unfold nlen. lia.
Qed.

Lemma nth_N_app_mid {A} (D l R : list A) j :
  j < nlen l -> nth_N (D ++ l ++ R) (nlen D + j) = nth_N l j.
Proof.
  intros H. unfold nth_N, nlen in *.
  rewrite nth_error_app2 by lia.
  replace (N.to_nat (N.of_nat (length D) + j) - length D)%nat with (N.to_nat j) by lia.
  apply nth_error_app1. lia.
Qed.

Lemma skipn_N_app_r {A} w (l1 l2 : list A) : nlen l1 <= w ->
  skipn_N w (l1 ++ l2) = skipn_N (w - nlen l1) l2.
Proof.
  intros H. rewrite !skipn_N_eq. rewrite skipn_app.
  rewrite skipn_all2 by (unfold nlen in H; lia). cbn [app].
  f_equal. unfold nlen. lia.
Qed.

Lemma skipn_N_app_l {A} w (l1 l2 : list A) : w <= nlen l1 ->
  skipn_N w (l1 ++ l2) = skipn_N w l1 ++ l2.
Proof.
  intros H. rewrite !skipn_N_eq. rewrite skipn_app.
  replace (N.to_nat w - length l1)%nat with O by (unfold nlen in H; lia).
  reflexivity.
Qed.

(* ------------------------------------------------------------------ *)
(* 3. The scanner's tests are match_at / marker_at on the buffer *)

Lemma leadin_at_ok site l i b :
  nlen l <= leadin_extent -> nth_N l i = Some b -> leadin_at site l i = Ok b.
Proof.
  intros Hl E. pose proof (nth_N_lt _ _ _ E) as Hi. unfold leadin_at. rewrite E.
  destruct (N.ltb_spec i leadin_extent); [reflexivity|lia].
Qed.

Lemma fhm_spec l i : nlen l <= leadin_extent -> i + 6 < nlen l ->
  file_header_match l i = Ok (match_at l i).
Proof.
  intros Hl Hi.
  destruct (nth_N_some l (i + 2)) as [b2 E2]; [lia|].
  destruct (nth_N_some l (i + 3)) as [b3 E3]; [lia|].
  destruct (nth_N_some l (i + 4)) as [b4 E4]; [lia|].
  destruct (nth_N_some l (i + 5)) as [b5 E5]; [lia|].
  destruct (nth_N_some l (i + 6)) as [b6 E6]; [lia|].
  unfold file_header_match, match_at. rewrite E2, E3, E4, E5, E6.
  rewrite (leadin_at_ok _ _ _ _ Hl E2). cbn [bind].
  rewrite (leadin_at_ok _ _ _ _ Hl E6). cbn [bind].
  unfold method_sig.
  destruct (b2 =? 45); destruct (b6 =? 45); cbn [andb negb]; try reflexivity.
  rewrite (leadin_at_ok _ _ _ _ Hl E3). cbn [bind].
  rewrite (leadin_at_ok _ _ _ _ Hl E4). cbn [bind].
  rewrite (leadin_at_ok _ _ _ _ Hl E5). cbn [bind].
  destruct (b3 =? 108); destruct (b4 =? 104); destruct (b4 =? 122); destruct (b3 =? 112);
    destruct (b4 =? 109); destruct (b5 =? 115); destruct (b5 =? 52); destruct (b5 =? 53); reflexivity.
Qed.

Lemma memcmp_spec id : forall l i, nlen l <= leadin_extent -> i + nlen id <= nlen l ->
  memcmp_at l i id = Ok (prefix_at l i id).
Proof.
  induction id as [|c r IH]; intros l i Hl Hi; cbn [memcmp_at prefix_at]; [reflexivity|].
  rewrite nlen_cons in Hi.
  destruct (nth_N_some l i) as [b E]; [lia|].
  rewrite (leadin_at_ok _ _ _ _ Hl E). cbn [bind]. rewrite E.
  destruct (b =? c); cbn [andb]; [|reflexivity].
  apply IH; [exact Hl|lia].
Qed.

Lemma match_at_local D l R i : i + 6 < nlen l ->
  match_at (D ++ l ++ R) (nlen D + i) = match_at l i.
Proof.
  intros H. unfold match_at.
  replace (nlen D + i + 2) with (nlen D + (i + 2)) by lia.
  replace (nlen D + i + 3) with (nlen D + (i + 3)) by lia.
  replace (nlen D + i + 4) with (nlen D + (i + 4)) by lia.
  replace (nlen D + i + 5) with (nlen D + (i + 5)) by lia.
  replace (nlen D + i + 6) with (nlen D + (i + 6)) by lia.
  rewrite !nth_N_app_mid by lia. reflexivity.
Qed.

Lemma prefix_at_local D l R id : forall i, i + nlen id <= nlen l ->
  prefix_at (D ++ l ++ R) (nlen D + i) id = prefix_at l i id.
Proof.
  induction id as [|c r IH]; intros i Hi; cbn [prefix_at]; [reflexivity|].
  rewrite nlen_cons in Hi.
  rewrite nth_N_app_mid by lia.
  replace (nlen D + i + 1) with (nlen D + (i + 1)) by lia.
  rewrite IH by lia. reflexivity.
Qed.

Lemma marker_at_local D l R i : i + 12 <= nlen l ->
  marker_at (D ++ l ++ R) (nlen D + i) = marker_at l i.
Proof.
  intros H. unfold marker_at.
  assert (E1 : nlen DECLHA_SFX_ID = 7) by reflexivity.
  assert (E2 : nlen AMIGA_LHASFX_ID = 12) by reflexivity.
  rewrite !prefix_at_local by lia. reflexivity.
Qed.

Lemma match_at_shift P A q : match_at (P ++ A) (nlen P + q) = match_at A q.
Proof.
  unfold match_at, nth_N.
  assert (E : forall j, nth_error (P ++ A) (N.to_nat (nlen P + q + j)) = nth_error A (N.to_nat (q + j))).
  { intros j. rewrite nth_error_app2 by (unfold nlen; lia). f_equal. unfold nlen. lia. }
  rewrite !E. reflexivity.
Qed.

(* a marker position is never a match position: both markers have 'A' where a
   signature needs '-' *)
Lemma marker_excludes_match s q : marker_at s q = true -> match_at s q = false.
Proof.
  unfold marker_at, match_at, DECLHA_SFX_ID, AMIGA_LHASFX_ID. cbn [prefix_at].
  replace (q + 1 + 1) with (q + 2) by lia.
  destruct (nth_N s q) as [b0|]; [|discriminate].
  destruct (nth_N s (q + 1)) as [b1|]; [|rewrite !andb_false_r; discriminate].
  destruct (nth_N s (q + 2)) as [b2|]; [|reflexivity].
  intros H.
  assert (E : b2 = 65).
  { destruct (N.eqb_spec b2 65) as [e|ne]; [exact e|].
    rewrite !andb_false_r in H. discriminate. }
  subst b2.
  destruct (nth_N s (q + 3)); [|reflexivity]. destruct (nth_N s (q + 4)); [|reflexivity].
  destruct (nth_N s (q + 5)); [|reflexivity]. destruct (nth_N s (q + 6)); reflexivity.
Qed.

(* ------------------------------------------------------------------ *)
(* 4. scan_leadin is the reference scan over the examinable positions of the
      buffer *)

Lemma ref_scan_S s n q k :
  ref_scan s (S n) q k =
  if match_at s q && (k =? 0) then (Some q, k)
  else ref_scan s n (q + 1) (if marker_at s q then 1 else if match_at s q then k - 1 else k).
Proof. reflexivity. Qed.

Lemma ref_scan_app s n1 : forall n2 q k,
  ref_scan s (n1 + n2) q k =
  match ref_scan s n1 q k with
  | (Some r, k') => (Some r, k')
  | (None, k') => ref_scan s n2 (q + N.of_nat n1) k'
  end.
Proof.
  induction n1 as [|n1 IH]; intros n2 q k.
  - cbn [ref_scan Nat.add]. f_equal. lia.
  - change (S n1 + n2)%nat with (S (n1 + n2)). rewrite !ref_scan_S.
    destruct (match_at s q && (k =? 0)); [reflexivity|].
    rewrite IH. replace (q + 1 + N.of_nat n1) with (q + N.of_nat (S n1)) by lia. reflexivity.
Qed.

Lemma ref_scan_range s n : forall q k r k',
  ref_scan s n q k = (Some r, k') -> q <= r < q + N.of_nat n.
Proof.
  induction n as [|n IH]; intros q k r k' H.
  - cbn [ref_scan] in H. discriminate.
  - rewrite ref_scan_S in H. destruct (match_at s q && (k =? 0)).
    + inversion H; subst. lia.
    + apply IH in H. lia.
Qed.

Lemma ref_scan_quiet s n : forall q k,
  (forall j, q <= j < q + N.of_nat n -> match_at s j = false /\ marker_at s j = false) ->
  ref_scan s n q k = (None, k).
Proof.
  induction n as [|n IH]; intros q k H; [reflexivity|].
  rewrite ref_scan_S. destruct (H q) as [Hm Hk]; [lia|]. rewrite Hm, Hk. cbn [andb].
  apply IH. intros j Hj. apply H. lia.
Qed.

Definition scan_res (f i lim : N) (r : option N * N) : option N * N * N :=
  match r with
  | (Some q, k') => (Some (q - f), q - f, k')
  | (None, k') => (None, N.max i lim, k')
  end.

Lemma scan_leadin_S n l i k :
  scan_leadin (S n) l i k =
  if i + 12 <? nlen l then
    m <- file_header_match l i ;;
    if m && (k =? 0) then Ok (Some i, i, k)
    else
      a <- memcmp_at l i DECLHA_SFX_ID ;;
      b <- (if a then Ok true else memcmp_at l i AMIGA_LHASFX_ID) ;;
      scan_leadin n l (i + 1) (if b then 1 else if m then k - 1 else k)
  else Ok (None, i, k).
Proof. reflexivity. Qed.

Lemma scan_leadin_spec D R l : nlen l <= leadin_extent ->
  forall fuel i k, (N.to_nat (nlen l - 12 - i) <= fuel)%nat ->
  scan_leadin fuel l i k =
  Ok (scan_res (nlen D) i (nlen l - 12)
        (ref_scan (D ++ l ++ R) (N.to_nat (nlen l - 12 - i)) (nlen D + i) k)).
Proof.
  intros Hl. induction fuel as [|fuel IH]; intros i k Hf.
  - replace (N.to_nat (nlen l - 12 - i)) with O by lia.
    cbn [scan_leadin ref_scan scan_res]. do 3 f_equal. lia.
  - rewrite scan_leadin_S. destruct (N.ltb_spec (i + 12) (nlen l)) as [Hlt|Hge].
    + replace (N.to_nat (nlen l - 12 - i)) with (S (N.to_nat (nlen l - 12 - (i + 1)))) by lia.
      rewrite ref_scan_S.
      rewrite (fhm_spec l i Hl) by lia. cbn [bind].
      rewrite (match_at_local D l R i) by lia.
      destruct (match_at l i && (k =? 0)).
      * cbn [scan_res]. replace (nlen D + i - nlen D) with i by lia. reflexivity.
      * rewrite (memcmp_spec DECLHA_SFX_ID l i Hl)
          by (change (nlen DECLHA_SFX_ID) with 7; lia).
        cbn [bind].
        rewrite (marker_at_local D l R i) by lia. unfold marker_at.
        destruct (prefix_at l i DECLHA_SFX_ID); cbn [bind orb].
        -- rewrite IH by lia. replace (nlen D + i + 1) with (nlen D + (i + 1)) by lia.
           destruct (ref_scan (D ++ l ++ R) (N.to_nat (nlen l - 12 - (i + 1))) (nlen D + (i + 1)) 1) as [[r|] k'];
             cbn [scan_res]; [reflexivity|]. do 3 f_equal. lia.
        -- rewrite (memcmp_spec AMIGA_LHASFX_ID l i Hl)
             by (change (nlen AMIGA_LHASFX_ID) with 12; lia).
           cbn [bind].
           rewrite IH by lia. replace (nlen D + i + 1) with (nlen D + (i + 1)) by lia.
           match goal with |- Ok (scan_res _ _ _ ?x) = _ => destruct x as [[r|] k'] end;
             cbn [scan_res]; [reflexivity|]. do 3 f_equal. lia.
    + replace (N.to_nat (nlen l - 12 - i)) with O by lia.
      cbn [ref_scan scan_res]. do 3 f_equal. lia.
Qed.

(* One buffer scan, relative to a target position p that the reference scan
   finds: either p is in the buffer's examinable range and is returned, or the
   scan passes over the whole range and the reference scan continues. *)
Lemma scan_step D l R p k :
  nlen l <= leadin_extent -> nlen D <= p ->
  fst (ref_scan (D ++ l ++ R) (N.to_nat (p + 1 - nlen D)) (nlen D) k) = Some p ->
  (p < nlen D + (nlen l - 12) /\
     exists k', scan_leadin 30 l 0 k = Ok (Some (p - nlen D), p - nlen D, k')) \/
  (nlen D + (nlen l - 12) <= p /\
     exists k', scan_leadin 30 l 0 k = Ok (None, nlen l - 12, k') /\
       fst (ref_scan (D ++ l ++ R) (N.to_nat (p + 1 - (nlen D + (nlen l - 12))))
              (nlen D + (nlen l - 12)) k') = Some p).
Proof.
  intros Hl Hf Href. set (s := D ++ l ++ R) in *. set (f := nlen D) in *.
  set (a := nlen l - 12).
  assert (Ha : a <= 12) by (unfold a, leadin_extent in *; lia).
  rewrite (scan_leadin_spec D R l Hl) by (fold a; lia). fold s f a.
  replace (a - 0) with a by lia. replace (f + 0) with f by lia.
  destruct (N.lt_ge_cases p (f + a)) as [Hlt|Hge].
  - left. split; [exact Hlt|].
    replace (N.to_nat a) with (N.to_nat (p + 1 - f) + N.to_nat (a - (p + 1 - f)))%nat by lia.
    rewrite ref_scan_app.
    destruct (ref_scan s (N.to_nat (p + 1 - f)) f k) as [[r|] k'] eqn:E; cbn [fst] in Href; [|discriminate].
    inversion Href; subst r. exists k'. reflexivity.
  - right. split; [exact Hge|].
    replace (N.to_nat (p + 1 - f)) with (N.to_nat a + N.to_nat (p + 1 - (f + a)))%nat in Href by lia.
    rewrite ref_scan_app in Href.
    destruct (ref_scan s (N.to_nat a) f k) as [[r|] k'] eqn:E.
    + cbn [fst] in Href. inversion Href; subst r. apply ref_scan_range in E. lia.
    + exists k'. split.
      * cbn [scan_res]. do 3 f_equal. lia.
      * replace (f + N.of_nat (N.to_nat a)) with (f + a) in Href by lia. exact Href.
Qed.

(* ------------------------------------------------------------------ *)
(* 5. The scan loop over an arbitrary reader.  A reader returns a prefix of the
      remaining data, at most n bytes, non-empty when n > 0 and data remains
      (so every way of chunking the underlying reads is covered). *)

Definition omap {A B} (f : A -> B) (o : outcome A) : outcome B :=
  match o with Ok a => Ok (f a) | Fault s => Fault s | OutOfFuel => OutOfFuel end.
Definition smap {A B C D} (f : A -> C) (g : B -> D) (x : A + B) : C + D :=
  match x with inl a => inl (f a) | inr b => inr (g b) end.

Record gst (Src : Type) := { g_src : Src; g_leadin : list N; g_filepos : N; g_skip : N }.
Arguments g_src {Src}. Arguments g_leadin {Src}. Arguments g_filepos {Src}. Arguments g_skip {Src}.

(* sfx_step, abstracted over the reader *)
Definition gsfx_step {Src} (rd : Src -> N -> list N * Src) (s : gst Src)
  : outcome (gst Src + (bool * Src * list N)) :=
  if g_filepos s <? MAX_SFX_HEADER_LEN then
    let '(got, src') := rd (g_src s) (LEADIN_BUFFER_LEN - nlen (g_leadin s)) in
    match got with
    | [] => Ok (inr (false, src', g_leadin s))
    | _ =>
      let l := g_leadin s ++ got in
      if leadin_extent <? nlen l then Fault 1107 else
      '(found, i, skip') <- scan_leadin 30 l 0 (g_skip s) ;;
      match found with
      | Some i0 => Ok (inr (true, src', skipn_N i0 l))
      | None => Ok (inl {| g_src := src'; g_leadin := skipn_N i l;
                           g_filepos := g_filepos s + i; g_skip := skip' |})
      end
    end
  else Ok (inr (false, g_src s, g_leadin s)).

Definition reader_ok {Src} (sdata : Src -> list N) (rd : Src -> N -> list N * Src) : Prop :=
  forall s n, sdata s = fst (rd s n) ++ sdata (snd (rd s n)) /\
              nlen (fst (rd s n)) <= n /\
              (0 < n -> sdata s <> [] -> fst (rd s n) <> []).

Section GenericReader.
  Variable Src : Type.
  Variable sdata : Src -> list N.
  Variable rd : Src -> N -> list N * Src.
  Variable rd_ok : reader_ok sdata rd.

  Variable s : list N.          (* the whole stream *)
  Variable p : N.               (* the position the reference scan finds *)
  Variable Hp : p < MAX_SFX_HEADER_LEN + 12.
  Variable Hs : p + 13 <= nlen s.

  (* The invariant: dropped ++ leadin ++ remaining = s, |dropped| = filepos,
     every position below filepos has been examined (the reference scan
     continued from filepos with the current flag still finds p), and fewer
     than 13 bytes are buffered. *)
  Definition core_inv (st : gst Src) : Prop :=
    exists D, s = D ++ g_leadin st ++ sdata (g_src st) /\ nlen D = g_filepos st /\
      g_filepos st <= p /\ nlen (g_leadin st) <= 12 /\
      fst (ref_scan s (N.to_nat (p + 1 - g_filepos st)) (g_filepos st) (g_skip st)) = Some p.

  (* A second invariant J, supplied by the instance, whose only job is to show
     that the loop has not given up: filepos < MAX while p is not yet examined.
     (For arbitrary chunking: J = True and p < MAX.  For the list-backed source,
     whose reads are full, filepos stays a multiple of 12 and p may be a little
     larger.) *)
  Variable J : gst Src -> Prop.
  Variable J_lt : forall st, J st -> core_inv st -> g_filepos st < MAX_SFX_HEADER_LEN.
  Variable J_step : forall st st', J st -> core_inv st ->
    gsfx_step rd st = Ok (inl st') -> core_inv st' -> J st'.

  Definition sfx_inv (st : gst Src) : Prop := J st /\ core_inv st.

  Definition sfx_post (r : bool * Src * list N) : Prop :=
    exists src' l, r = (true, src', l) /\ l ++ sdata src' = skipn_N p s.

  (* bytes still to be read before position p becomes examinable *)
  Definition sfx_measure (st : gst Src) : N := p + 13 - (g_filepos st + nlen (g_leadin st)).

  Lemma core_step st : core_inv st -> g_filepos st < MAX_SFX_HEADER_LEN ->
    exists x, gsfx_step rd st = Ok x /\
      match x with
      | inl st' => core_inv st' /\ sfx_measure st' < sfx_measure st
      | inr r => sfx_post r
      end.
  Proof.
    intros (D & Es & HD & Hf & Hl & Href) Hmax.
    unfold gsfx_step.
    destruct (N.ltb_spec (g_filepos st) MAX_SFX_HEADER_LEN) as [_|Hbad]; [|lia].
    pose proof (rd_ok (g_src st) (LEADIN_BUFFER_LEN - nlen (g_leadin st))) as Hrd.
    destruct (rd (g_src st) (LEADIN_BUFFER_LEN - nlen (g_leadin st))) as [got src'].
    cbn [fst snd] in Hrd. destruct Hrd as (Edata & Hgot & Hne).
    assert (Hdne : sdata (g_src st) <> []).
    { intros E. rewrite E, app_nil_r in Es.
      assert (nlen s = g_filepos st + nlen (g_leadin st)) by (rewrite Es, nlen_app; lia). lia. }
    assert (Hgne : got <> []) by (apply Hne; [unfold LEADIN_BUFFER_LEN; lia|exact Hdne]).
    destruct got as [|g0 got']; [congruence|].
    set (l := g_leadin st ++ g0 :: got') in *.
    assert (Hll : nlen l <= leadin_extent).
    { unfold l. rewrite nlen_app. unfold leadin_extent, LEADIN_BUFFER_LEN in *. lia. }
    assert (Hlgt : nlen (g_leadin st) < nlen l).
    { unfold l. rewrite nlen_app, nlen_cons. lia. }
    destruct (N.ltb_spec leadin_extent (nlen l)) as [Hbad|_]; [lia|].
    assert (Es' : s = D ++ l ++ sdata src').
    { rewrite Es, Edata. unfold l. rewrite <- !app_assoc. reflexivity. }
    rewrite <- HD in Href. rewrite Es' in Href.
    destruct (scan_step D l (sdata src') p (g_skip st) Hll ltac:(lia) Href)
      as [(Hlt & k' & E)|(Hge & k' & E & Href')]; rewrite E; cbn [bind].
    - eexists; split; [reflexivity|]. cbn beta iota.
      exists src', (skipn_N (p - nlen D) l). split; [reflexivity|].
      rewrite Es'. rewrite skipn_N_app_r by lia. rewrite skipn_N_app_l by lia. reflexivity.
    - eexists; split; [reflexivity|]. cbn beta iota. split.
      + exists (D ++ firstn_N (nlen l - 12) l). cbn [g_src g_leadin g_filepos g_skip].
        split; [|split; [|split; [|split]]].
        * rewrite Es'. rewrite <- app_assoc. f_equal. rewrite app_assoc. f_equal.
          symmetry. apply firstn_skipn_N.
        * rewrite nlen_app, nlen_firstn_N. lia.
        * lia.
        * rewrite nlen_skipn_N. unfold leadin_extent in Hll. lia.
        * rewrite <- Es' in Href'. rewrite <- HD. exact Href'.
      + unfold sfx_measure. cbn [g_leadin g_filepos]. rewrite nlen_skipn_N. lia.
  Qed.

  Lemma gsfx_step_inv st : sfx_inv st ->
    exists x, gsfx_step rd st = Ok x /\
      match x with
      | inl st' => sfx_inv st' /\ sfx_measure st' < sfx_measure st
      | inr r => sfx_post r
      end.
  Proof.
    intros [HJ Hc]. destruct (core_step st Hc (J_lt st HJ Hc)) as (x & E & Hx).
    exists x. split; [exact E|]. destruct x as [st'|r]; [|exact Hx].
    destruct Hx as [Hc' Hm]. split; [|exact Hm]. split; [|exact Hc'].
    exact (J_step st st' HJ Hc E Hc').
  Qed.

  Theorem gscan_finds src0 :
    sdata src0 = s ->
    J {| g_src := src0; g_leadin := []; g_filepos := 0; g_skip := 0 |} ->
    fst (ref_scan s (N.to_nat (p + 1)) 0 0) = Some p ->
    exists src' l,
      loop (gsfx_step rd) 24 {| g_src := src0; g_leadin := []; g_filepos := 0; g_skip := 0 |}
        = Ok (true, src', l) /\ l ++ sdata src' = skipn_N p s.
  Proof.
    intros E0 HJ0 Href.
    destruct (loop_total_ok (gsfx_step rd) sfx_inv sfx_post sfx_measure 24 gsfx_step_inv
                {| g_src := src0; g_leadin := []; g_filepos := 0; g_skip := 0 |})
      as (r & Er & src' & l & -> & Hl).
    - split; [exact HJ0|]. exists []. cbn [g_src g_leadin g_filepos g_skip app]. rewrite E0.
      split; [reflexivity|]. split; [reflexivity|]. split; [lia|]. split; [change (nlen (@nil N)) with 0; lia|].
      replace (p + 1 - 0) with (p + 1) by lia. exact Href.
    - unfold sfx_measure. cbn [g_leadin g_filepos]. change (nlen (@nil N)) with 0.
      unfold MAX_SFX_HEADER_LEN in Hp. change (2 ^ N.of_nat 24) with 16777216. lia.
    - exists src', l. split; [exact Er|exact Hl].
  Qed.
End GenericReader.

(* Instance 1: any reader (any chunking), p < MAX_SFX_HEADER_LEN *)
Theorem gscan_finds_any Src (sdata : Src -> list N) rd : reader_ok sdata rd ->
  forall s p, p < MAX_SFX_HEADER_LEN -> p + 13 <= nlen s ->
  forall src0, sdata src0 = s ->
  fst (ref_scan s (N.to_nat (p + 1)) 0 0) = Some p ->
  exists src' l,
    loop (gsfx_step rd) 24 {| g_src := src0; g_leadin := []; g_filepos := 0; g_skip := 0 |}
      = Ok (true, src', l) /\ l ++ sdata src' = skipn_N p s.
Proof.
  intros Hrd s p Hp Hs src0 E Href.
  apply (gscan_finds Src sdata rd Hrd s p ltac:(lia) Hs (fun _ => True)); auto.
  intros st _ (D & _ & _ & Hf & _). lia.
Qed.

(* ------------------------------------------------------------------ *)
(* 6. A step-by-step simulation between loops; the model's sfx_step is the generic
      step over raw_read *)

Lemma loop_n_map {S1 R1 S2 R2} (step1 : S1 -> outcome (S1 + R1)) (step2 : S2 -> outcome (S2 + R2))
  (fs : S1 -> S2) (fr : R1 -> R2) :
  (forall s, step2 (fs s) = omap (smap fs fr) (step1 s)) ->
  forall k s, loop_n step2 k (fs s) = omap (smap fs fr) (loop_n step1 k s).
Proof.
  intros H. induction k as [|k IH]; intros s; cbn [loop_n]; [apply H|].
  rewrite IH. destruct (loop_n step1 k s) as [[s'|r]| |]; cbn [bind omap smap]; try reflexivity.
  apply IH.
Qed.

Lemma loop_map {S1 R1 S2 R2} (step1 : S1 -> outcome (S1 + R1)) (step2 : S2 -> outcome (S2 + R2))
  (fs : S1 -> S2) (fr : R1 -> R2) :
  (forall s, step2 (fs s) = omap (smap fs fr) (step1 s)) ->
  forall k s, loop step2 k (fs s) = omap fr (loop step1 k s).
Proof.
  intros H k s. unfold loop. rewrite (loop_n_map step1 step2 fs fr H).
  destruct (loop_n step1 k s) as [[s'|r]| |]; reflexivity.
Qed.

Definition to_g (st : sfx_st) : gst source :=
  {| g_src := sx_src st; g_leadin := sx_leadin st; g_filepos := sx_filepos st; g_skip := sx_skip st |}.

Lemma sfx_step_generic st :
  gsfx_step raw_read (to_g st) = omap (smap to_g (fun r => r)) (sfx_step st).
Proof.
  unfold gsfx_step, sfx_step, to_g. cbn [g_src g_leadin g_filepos g_skip].
  destruct (sx_filepos st <? MAX_SFX_HEADER_LEN); [|reflexivity].
  destruct (raw_read (sx_src st) (LEADIN_BUFFER_LEN - nlen (sx_leadin st))) as [got src'].
  destruct got as [|g0 got']; [reflexivity|].
  destruct (leadin_extent <? nlen (sx_leadin st ++ g0 :: got')); [reflexivity|].
  destruct (scan_leadin 30 (sx_leadin st ++ g0 :: got') 0 (sx_skip st)) as [[[found i] k']| |];
    cbn [bind omap]; try reflexivity.
  destruct found; reflexivity.
Qed.

Lemma raw_read_ok : reader_ok so_data raw_read.
Proof.
  intros s n. unfold raw_read. cbn [fst snd so_data].
  split; [symmetry; apply firstn_skipn_N|]. split; [rewrite nlen_firstn_N; lia|].
  intros Hn Hd. destruct (so_data s) as [|x r]; [congruence|].
  cbn [firstn_N]. destruct (N.eqb_spec n 0); [lia|discriminate].
Qed.

(* ------------------------------------------------------------------ *)
(* 7. skip_sfx on list-backed sources *)

(* Instance 2: the list-backed source.  Its reads are full (24, then 12 bytes)
   until the data runs out, so filepos stays a multiple of 12 and the loop gives
   up only at filepos = 262152 = 12 * ceil(MAX_SFX_HEADER_LEN / 12). *)
Definition sfx_scan_limit : N := 262152.
Lemma sfx_scan_limit_eq : sfx_scan_limit = 12 * ((MAX_SFX_HEADER_LEN + 11) / 12).
Proof. reflexivity. Qed.
Lemma sfx_scan_limit_max : MAX_SFX_HEADER_LEN <= sfx_scan_limit /\ sfx_scan_limit < MAX_SFX_HEADER_LEN + 12.
Proof. unfold sfx_scan_limit, MAX_SFX_HEADER_LEN. lia. Qed.

Definition full_J (st : gst source) : Prop :=
  exists j, g_filepos st = 12 * j /\ (nlen (g_leadin st) = 0 \/ nlen (g_leadin st) = 12).

Lemma raw_J_step s p : p + 13 <= nlen s -> forall st st',
  full_J st -> core_inv source so_data s p st ->
  gsfx_step raw_read st = Ok (inl st') -> core_inv source so_data s p st' -> full_J st'.
Proof.
  intros Hs st st' (j & Ej & Hlen) _ Estep (D' & Es' & HD' & Hf' & Hl' & _).
  unfold gsfx_step in Estep.
  destruct (g_filepos st <? MAX_SFX_HEADER_LEN); [|discriminate].
  unfold raw_read in Estep.
  set (n := LEADIN_BUFFER_LEN - nlen (g_leadin st)) in *.
  pose proof (nlen_firstn_N n (so_data (g_src st))) as Hgot.
  destruct (firstn_N n (so_data (g_src st))) as [|g0 got'] eqn:Eg; [discriminate|].
  set (l := g_leadin st ++ g0 :: got') in *.
  assert (Hlen_l : nlen l = nlen (g_leadin st) + N.min n (nlen (so_data (g_src st)))).
  { unfold l. rewrite nlen_app. lia. }
  destruct (N.ltb_spec leadin_extent (nlen l)) as [_|Hll]; [discriminate|].
  rewrite (scan_leadin_spec [] [] l Hll) in Estep by (unfold leadin_extent in Hll; lia).
  match type of Estep with context [scan_res _ _ _ ?x] => destruct x as [[r|] k'] end;
    cbn [scan_res bind] in Estep; [discriminate|].
  inversion Estep; subst st'. clear Estep.
  cbn [g_src g_leadin g_filepos g_skip so_data] in *.
  destruct (N.le_gt_cases n (nlen (so_data (g_src st)))) as [Hfull|Hshort].
  - assert (El : nlen l = 24) by (unfold n, LEADIN_BUFFER_LEN in *; lia).
    exists (j + 1). cbn [g_leadin g_filepos]. rewrite nlen_skipn_N, El. change (N.max 0 (24 - 12)) with 12. split; [lia|right; reflexivity].
  - exfalso.
    assert (Enil : skipn_N n (so_data (g_src st)) = []) by (apply skipn_N_nil_iff; lia).
    rewrite Enil, app_nil_r in Es'.
    assert (nlen s = g_filepos st + N.max 0 (nlen l - 12) + nlen (skipn_N (N.max 0 (nlen l - 12)) l))
      by (rewrite Es' at 1; rewrite nlen_app; lia).
    lia.
Qed.

Theorem skip_sfx_ref k s p :
  p < sfx_scan_limit -> p + 13 <= nlen s ->
  fst (ref_scan s (N.to_nat (p + 1)) 0 0) = Some p ->
  exists st', skip_sfx (lha_input_stream_new (mk_source k s)) = Ok (true, st') /\
    is_leadin st' ++ so_data (is_src st') = skipn_N p s /\ is_state st' = IS_INIT.
Proof.
  intros Hp Hs Href.
  destruct (gscan_finds source so_data raw_read raw_read_ok s p
              ltac:(unfold sfx_scan_limit, MAX_SFX_HEADER_LEN in *; lia) Hs full_J) with (src0 := mk_source k s)
    as (src' & l & El & Hl).
  - intros st (j & Ej & _) (D & _ & _ & Hf & _).
    unfold sfx_scan_limit, MAX_SFX_HEADER_LEN in *. lia.
  - exact (raw_J_step s p Hs).
  - reflexivity.
  - exists 0. cbn [g_filepos g_leadin]. split; [reflexivity|left; reflexivity].
  - exact Href.
  - pose proof (loop_map sfx_step (gsfx_step raw_read) to_g (fun r => r) sfx_step_generic 24
                  {| sx_src := mk_source k s; sx_leadin := []; sx_filepos := 0; sx_skip := 0 |}) as Hm.
    unfold to_g in Hm at 1. cbn [sx_src sx_leadin sx_filepos sx_skip] in Hm.
    rewrite El in Hm.
    unfold skip_sfx, lha_input_stream_new. cbn [is_src is_leadin is_state].
    destruct (loop sfx_step 24 {| sx_src := mk_source k s; sx_leadin := []; sx_filepos := 0; sx_skip := 0 |})
      as [r| |]; cbn [omap] in Hm; try discriminate.
    inversion Hm; subst r. cbn [bind].
    eexists; split; [reflexivity|]. cbn [is_leadin is_src is_state]. split; [exact Hl|reflexivity].
Qed.

(* The reference scan's answer under the hypotheses of the two prefix theorems *)
Lemma ref_plain P A :
  match_at A 0 = true ->
  (forall q, q < nlen P -> match_at (P ++ A) q = false /\ marker_at (P ++ A) q = false) ->
  fst (ref_scan (P ++ A) (N.to_nat (nlen P + 1)) 0 0) = Some (nlen P).
Proof.
  intros HmA Hquiet.
  replace (N.to_nat (nlen P + 1)) with (N.to_nat (nlen P) + 1)%nat by lia.
  rewrite ref_scan_app. rewrite ref_scan_quiet by (intros j Hj; apply Hquiet; lia).
  replace (0 + N.of_nat (N.to_nat (nlen P))) with (nlen P + 0) by lia.
  rewrite ref_scan_S. rewrite match_at_shift, HmA. cbn [andb N.eqb fst]. f_equal. lia.
Qed.

Lemma ref_decoy P A m d :
  match_at A 0 = true ->
  m <= d -> d < nlen P ->
  (forall q, q < nlen P -> (marker_at (P ++ A) q = true <-> q = m)) ->
  (forall q, q < nlen P -> (match_at (P ++ A) q = true <-> q = d)) ->
  fst (ref_scan (P ++ A) (N.to_nat (nlen P + 1)) 0 0) = Some (nlen P).
Proof.
  intros HmA Hmd Hd Hmark Hmatch.
  set (s := P ++ A) in *. set (p := nlen P) in *.
  assert (Hmk_m : marker_at s m = true) by (apply Hmark; [lia|reflexivity]).
  assert (Hmt_d : match_at s d = true) by (apply Hmatch; [lia|reflexivity]).
  assert (Hmt_m : match_at s m = false) by (apply marker_excludes_match; exact Hmk_m).
  assert (Hne : m <> d) by (intros ->; congruence).
  assert (Hmk_f : forall q, q < p -> q <> m -> marker_at s q = false).
  { intros q Hq Hqm. destruct (marker_at s q) eqn:E; [|reflexivity].
    exfalso. apply Hqm. apply Hmark; assumption. }
  assert (Hmt_f : forall q, q < p -> q <> d -> match_at s q = false).
  { intros q Hq Hqd. destruct (match_at s q) eqn:E; [|reflexivity].
    exfalso. apply Hqd. apply Hmatch; assumption. }
  (* positions: [0,m) quiet; m marker; (m,d) quiet; d decoy; (d,p) quiet; p found *)
  replace (N.to_nat (p + 1))
    with (N.to_nat m + (1 + (N.to_nat (d - m - 1) + (1 + (N.to_nat (p - d - 1) + 1)))))%nat by lia.
  rewrite ref_scan_app.
  rewrite ref_scan_quiet by (intros j Hj; split; [apply Hmt_f|apply Hmk_f]; lia).
  rewrite ref_scan_app. rewrite ref_scan_S.
  replace (0 + N.of_nat (N.to_nat m)) with m by lia.
  rewrite Hmt_m, Hmk_m. cbn [andb ref_scan].
  rewrite ref_scan_app.
  rewrite ref_scan_quiet by (intros j Hj; split; [apply Hmt_f|apply Hmk_f]; lia).
  rewrite ref_scan_app. rewrite ref_scan_S.
  replace (m + N.of_nat 1 + N.of_nat (N.to_nat (d - m - 1))) with d by lia.
  rewrite Hmt_d, (Hmk_f d) by lia. cbn [andb N.eqb ref_scan].
  change (1 - 1) with 0.
  rewrite ref_scan_app.
  rewrite ref_scan_quiet by (intros j Hj; split; [apply Hmt_f|apply Hmk_f]; lia).
  rewrite ref_scan_S.
  replace (d + N.of_nat 1 + N.of_nat (N.to_nat (p - d - 1))) with (p + 0) by lia.
  unfold s, p. rewrite match_at_shift, HmA. cbn [andb N.eqb fst]. f_equal. lia.
Qed.

Lemma skipn_N_app_exact {A} (P Q : list A) : skipn_N (nlen P) (P ++ Q) = Q.
Proof.
  rewrite skipn_N_app_r by lia. replace (nlen P - nlen P) with 0 by lia. apply skipn_N_0.
Qed.

(* 7.1  Plain prefix.  The bound: |P| < 262152 = sfx_scan_limit, which is exact
   for the list-backed source (see the Examples at the end) and covers
   |P| <= 255 KiB and |P| < 256 KiB = MAX_SFX_HEADER_LEN.  For arbitrarily
   chunked reads the bound is |P| < MAX_SFX_HEADER_LEN (section 9). *)
Theorem sfx_prefix_skipped : forall k P A,
  nlen P < sfx_scan_limit ->
  13 <= nlen A -> match_at A 0 = true ->
  (forall q, q < nlen P -> match_at (P ++ A) q = false /\ marker_at (P ++ A) q = false) ->
  exists st', skip_sfx (lha_input_stream_new (mk_source k (P ++ A))) = Ok (true, st') /\
    is_leadin st' ++ so_data (is_src st') = A /\ is_state st' = IS_INIT.
Proof.
  intros k P A HP HA HmA Hquiet.
  destruct (skip_sfx_ref k (P ++ A) (nlen P)) as (st' & E & Hl & Hst).
  - exact HP.
  - rewrite nlen_app. lia.
  - exact (ref_plain P A HmA Hquiet).
  - exists st'. split; [exact E|]. split; [|exact Hst]. rewrite Hl. apply skipn_N_app_exact.
Qed.

(* what lha_input_stream_read does after a successful scan *)
Lemma read_after_scan st A n :
  is_state st = IS_INIT ->
  (exists st', skip_sfx st = Ok (true, st') /\ is_leadin st' ++ so_data (is_src st') = A) ->
  n <= nlen A ->
  exists st'', lha_input_stream_read st n = Ok (Some (firstn_N n A), st'') /\
    is_state st'' = IS_READING /\ is_leadin st'' ++ so_data (is_src st'') = skipn_N n A.
Proof.
  intros Hinit (st' & E & HA) Hn.
  unfold lha_input_stream_read. rewrite Hinit, E. cbn [bind].
  unfold read_ready. cbn [is_state is_leadin is_src].
  set (l := is_leadin st') in *. set (src := is_src st') in *.
  rewrite nlen_firstn_N.
  destruct (N.ltb_spec (N.min n (nlen l)) n) as [Hlt|Hge].
  - unfold raw_read. rewrite nlen_firstn_N.
    assert (Hlen : nlen A = nlen l + nlen (so_data src)) by (rewrite <- HA; apply nlen_app).
    destruct (N.eqb_spec (N.min n (nlen l) + N.min (n - N.min n (nlen l)) (nlen (so_data src))) n) as [_|Hbad]; [|lia].
    assert (Ef : firstn_N n l ++ firstn_N (n - N.min n (nlen l)) (so_data src) = firstn_N n A).
    { rewrite <- HA. rewrite firstn_N_app_r by lia.
      rewrite (firstn_N_all n l) by lia. do 2 f_equal. lia. }
    rewrite Ef.
    eexists; split; [reflexivity|]. split; [reflexivity|]. cbn [is_leadin is_src so_data].
    rewrite <- HA. rewrite skipn_N_app_r by lia.
    replace (skipn_N n l) with (@nil N) by (symmetry; apply skipn_N_nil_iff; lia).
    cbn [app]. f_equal. lia.
  - assert (Ef : firstn_N n l = firstn_N n A).
    { rewrite <- HA. symmetry. apply firstn_N_app_l. lia. }
    rewrite Ef.
    eexists; split; [reflexivity|]. split; [reflexivity|]. cbn [is_leadin is_src].
    rewrite <- HA. symmetry. apply skipn_N_app_l. lia.
Qed.

Corollary sfx_prefix_read : forall k P A n,
  nlen P < sfx_scan_limit ->
  13 <= nlen A -> match_at A 0 = true ->
  (forall q, q < nlen P -> match_at (P ++ A) q = false /\ marker_at (P ++ A) q = false) ->
  n <= nlen A ->
  exists st'', lha_input_stream_read (lha_input_stream_new (mk_source k (P ++ A))) n
                 = Ok (Some (firstn_N n A), st'') /\
    is_state st'' = IS_READING /\ is_leadin st'' ++ so_data (is_src st'') = skipn_N n A.
Proof.
  intros k P A n HP HA HmA Hq Hn.
  apply read_after_scan; [reflexivity| |exact Hn].
  destruct (sfx_prefix_skipped k P A HP HA HmA Hq) as (st' & E & Hl & _). eauto.
Qed.

(* 7.2  One decoy header after a marker *)
Theorem sfx_one_decoy : forall k P A m d,
  nlen P < sfx_scan_limit ->
  13 <= nlen A -> match_at A 0 = true ->
  m <= d -> d < nlen P ->
  (forall q, q < nlen P -> (marker_at (P ++ A) q = true <-> q = m)) ->
  (forall q, q < nlen P -> (match_at (P ++ A) q = true <-> q = d)) ->
  exists st', skip_sfx (lha_input_stream_new (mk_source k (P ++ A))) = Ok (true, st') /\
    is_leadin st' ++ so_data (is_src st') = A /\ is_state st' = IS_INIT.
Proof.
  intros k P A m d HP HA HmA Hmd Hd Hmark Hmatch.
  destruct (skip_sfx_ref k (P ++ A) (nlen P)) as (st' & E & Hl & Hst).
  - exact HP.
  - rewrite nlen_app. lia.
  - exact (ref_decoy P A m d HmA Hmd Hd Hmark Hmatch).
  - exists st'. split; [exact E|]. split; [|exact Hst]. rewrite Hl. apply skipn_N_app_exact.
Qed.

Corollary sfx_one_decoy_read : forall k P A m d n,
  nlen P < sfx_scan_limit ->
  13 <= nlen A -> match_at A 0 = true ->
  m <= d -> d < nlen P ->
  (forall q, q < nlen P -> (marker_at (P ++ A) q = true <-> q = m)) ->
  (forall q, q < nlen P -> (match_at (P ++ A) q = true <-> q = d)) ->
  n <= nlen A ->
  exists st'', lha_input_stream_read (lha_input_stream_new (mk_source k (P ++ A))) n
                 = Ok (Some (firstn_N n A), st'') /\
    is_state st'' = IS_READING /\ is_leadin st'' ++ so_data (is_src st'') = skipn_N n A.
Proof.
  intros k P A m d n HP HA HmA Hmd Hd Hmark Hmatch Hn.
  apply read_after_scan; [reflexivity| |exact Hn].
  destruct (sfx_one_decoy k P A m d HP HA HmA Hmd Hd Hmark Hmatch) as (st' & E & Hl & _). eauto.
Qed.

(* ------------------------------------------------------------------ *)
(* 8. The source kind does not matter for the scan (nor for reads): changing
      so_kind commutes with skip_sfx and lha_input_stream_read, for EVERY
      stream content, successful scan or not. *)

Definition rekind (k : skind) (s : source) : source :=
  {| so_kind := k; so_data := so_data s; so_reads := so_reads s; so_skips := so_skips s |}.
Definition rekind_sx (k : skind) (st : sfx_st) : sfx_st :=
  {| sx_src := rekind k (sx_src st); sx_leadin := sx_leadin st;
     sx_filepos := sx_filepos st; sx_skip := sx_skip st |}.
Definition rekind_res (k : skind) (r : bool * source * list N) : bool * source * list N :=
  let '(b, src, l) := r in (b, rekind k src, l).
Definition rekind_is (k : skind) (st : istream) : istream :=
  {| is_src := rekind k (is_src st); is_state := is_state st; is_leadin := is_leadin st |}.

Lemma raw_read_kind k s n :
  raw_read (rekind k s) n = (fst (raw_read s n), rekind k (snd (raw_read s n))).
Proof. reflexivity. Qed.

Lemma sfx_step_kind k st :
  sfx_step (rekind_sx k st) = omap (smap (rekind_sx k) (rekind_res k)) (sfx_step st).
Proof.
  unfold sfx_step, rekind_sx. cbn [sx_src sx_leadin sx_filepos sx_skip].
  destruct (sx_filepos st <? MAX_SFX_HEADER_LEN); [|reflexivity].
  rewrite raw_read_kind.
  destruct (raw_read (sx_src st) (LEADIN_BUFFER_LEN - nlen (sx_leadin st))) as [got src'].
  cbn [fst snd].
  destruct got as [|g0 got']; [reflexivity|].
  destruct (leadin_extent <? nlen (sx_leadin st ++ g0 :: got')); [reflexivity|].
  destruct (scan_leadin 30 (sx_leadin st ++ g0 :: got') 0 (sx_skip st)) as [[[found i] k']| |];
    cbn [bind omap]; try reflexivity.
  destruct found; reflexivity.
Qed.

Theorem skip_sfx_kind k st :
  skip_sfx (rekind_is k st) =
  omap (fun r : bool * istream => (fst r, rekind_is k (snd r))) (skip_sfx st).
Proof.
  unfold skip_sfx, rekind_is at 1 2 3. cbn [is_src is_state is_leadin].
  pose proof (loop_map sfx_step sfx_step (rekind_sx k) (rekind_res k) (sfx_step_kind k) 24
                {| sx_src := is_src st; sx_leadin := is_leadin st; sx_filepos := 0; sx_skip := 0 |}) as Hm.
  unfold rekind_sx in Hm at 1. cbn [sx_src sx_leadin sx_filepos sx_skip] in Hm.
  rewrite Hm.
  destruct (loop sfx_step 24 {| sx_src := is_src st; sx_leadin := is_leadin st; sx_filepos := 0; sx_skip := 0 |})
    as [[[b src'] l]| |]; reflexivity.
Qed.

Corollary skip_sfx_source_kind k k' data :
  skip_sfx (lha_input_stream_new (mk_source k' data)) =
  omap (fun r : bool * istream => (fst r, rekind_is k' (snd r)))
       (skip_sfx (lha_input_stream_new (mk_source k data))).
Proof. exact (skip_sfx_kind k' (lha_input_stream_new (mk_source k data))). Qed.

Theorem stream_read_kind k st n :
  lha_input_stream_read (rekind_is k st) n =
  omap (fun r : option (list N) * istream => (fst r, rekind_is k (snd r))) (lha_input_stream_read st n).
Proof.
  unfold lha_input_stream_read.
  assert (Hrr : forall st1, read_ready (rekind_is k st1) n =
                 (fst (read_ready st1 n), rekind_is k (snd (read_ready st1 n)))).
  { intros [src1 stt ld]. unfold read_ready, rekind_is. cbn [is_src is_state is_leadin].
    destruct stt; try reflexivity;
      (destruct (nlen (firstn_N n ld) <? n); [|reflexivity];
       rewrite raw_read_kind;
       destruct (raw_read src1 (n - nlen (firstn_N n ld))) as [got src'];
       cbn [fst snd];
       destruct (nlen (firstn_N n ld) + nlen got =? n); reflexivity). }
  change (is_state (rekind_is k st)) with (is_state st).
  destruct (is_state st) eqn:Est.
  - rewrite skip_sfx_kind. destruct (skip_sfx st) as [[ok st']| |]; cbn [omap bind fst snd]; try reflexivity.
    change {| is_src := is_src (rekind_is k st'); is_state := if ok then IS_READING else IS_FAIL;
              is_leadin := is_leadin (rekind_is k st') |}
      with (rekind_is k {| is_src := is_src st'; is_state := if ok then IS_READING else IS_FAIL;
                           is_leadin := is_leadin st' |}).
    rewrite Hrr. reflexivity.
  - cbn [bind omap]. rewrite Hrr. reflexivity.
  - cbn [bind omap]. rewrite Hrr. reflexivity.
Qed.

(* ------------------------------------------------------------------ *)
(* 9. Chunking of the underlying reads does not matter.
      (a) A general invariant of the generic loop: after every iteration the
          positions examined are exactly {q | q + 13 <= bytes read so far}
          (= {q | q < filepos}), none of them was the answer, and the skip flag
          is the reference scan's flag.
      (b) When the loop returns "found", it returns the reference scan's answer.
      (c) A concrete source whose i-th read delivers at most max(1, c_i) bytes. *)

Section Chunking.
  Variable Src : Type.
  Variable sdata : Src -> list N.
  Variable rd : Src -> N -> list N * Src.
  Variable rd_ok : reader_ok sdata rd.
  Variable s : list N.

  (* bytes read so far = filepos + |leadin| *)
  Definition scan_inv (st : gst Src) : Prop :=
    exists D, s = D ++ g_leadin st ++ sdata (g_src st) /\ nlen D = g_filepos st /\
      g_filepos st = g_filepos st + nlen (g_leadin st) - 12 /\
      ref_scan s (N.to_nat (g_filepos st)) 0 0 = (None, g_skip st).

  Lemma scan_inv_init src0 : sdata src0 = s ->
    scan_inv {| g_src := src0; g_leadin := []; g_filepos := 0; g_skip := 0 |}.
  Proof.
    intros E. exists []. cbn [g_src g_leadin g_filepos g_skip app]. rewrite E.
    split; [reflexivity|]. split; [reflexivity|]. split; [reflexivity|]. reflexivity.
  Qed.

  Lemma scan_inv_step st x : scan_inv st -> gsfx_step rd st = Ok x ->
    match x with
    | inl st' => scan_inv st' /\
        g_filepos st + nlen (g_leadin st) < g_filepos st' + nlen (g_leadin st')
    | inr (true, src', l') =>
        exists r, fst (ref_scan s (N.to_nat (r + 1)) 0 0) = Some r /\
                  l' ++ sdata src' = skipn_N r s /\ r < MAX_SFX_HEADER_LEN + 12
    | inr (false, _, _) => True
    end.
  Proof.
    intros (D & Es & HD & Hf & Href). unfold gsfx_step.
    destruct (N.ltb_spec (g_filepos st) MAX_SFX_HEADER_LEN) as [Hmax|_];
      [|intros E; inversion E; exact I].
    pose proof (rd_ok (g_src st) (LEADIN_BUFFER_LEN - nlen (g_leadin st))) as Hrd.
    destruct (rd (g_src st) (LEADIN_BUFFER_LEN - nlen (g_leadin st))) as [got src'].
    cbn [fst snd] in Hrd. destruct Hrd as (Edata & Hgot & _).
    destruct got as [|g0 got']; [intros E; inversion E; exact I|].
    set (l := g_leadin st ++ g0 :: got') in *.
    assert (Hlgt : nlen l = nlen (g_leadin st) + nlen got' + 1).
    { unfold l. rewrite nlen_app, nlen_cons. lia. }
    rewrite nlen_cons in Hgot.
    destruct (N.ltb_spec leadin_extent (nlen l)) as [_|Hll]; [discriminate|].
    assert (Es' : s = D ++ l ++ sdata src').
    { rewrite Es, Edata. unfold l. rewrite <- !app_assoc. reflexivity. }
    rewrite (scan_leadin_spec D (sdata src') l Hll) by (unfold leadin_extent in Hll; lia).
    rewrite <- Es'. replace (nlen l - 12 - 0) with (nlen l - 12) by lia.
    replace (nlen D + 0) with (nlen D) by lia. set (a := nlen l - 12).
    pose proof (ref_scan_app s (N.to_nat (g_filepos st)) (N.to_nat a) 0 0) as Happ.
    rewrite Href in Happ. replace (0 + N.of_nat (N.to_nat (g_filepos st))) with (nlen D) in Happ by lia.
    destruct (ref_scan s (N.to_nat a) (nlen D) (g_skip st)) as [[r|] k'] eqn:Er; cbn [scan_res bind].
    - intros E; inversion E; subst x. clear E.
      pose proof (ref_scan_range _ _ _ _ _ _ Er) as Hr.
      exists r. split; [|split].
      + replace (N.to_nat (r + 1)) with (N.to_nat (g_filepos st) + N.to_nat (r + 1 - nlen D))%nat by lia.
        rewrite ref_scan_app, Href.
        replace (0 + N.of_nat (N.to_nat (g_filepos st))) with (nlen D) by lia.
        replace (N.to_nat a) with (N.to_nat (r + 1 - nlen D) + N.to_nat (a - (r + 1 - nlen D)))%nat in Er by lia.
        rewrite ref_scan_app in Er.
        destruct (ref_scan s (N.to_nat (r + 1 - nlen D)) (nlen D) (g_skip st)) as [[r'|] k''] eqn:Er'.
        * inversion Er; subst. reflexivity.
        * apply ref_scan_range in Er. lia.
      + rewrite Es'. rewrite skipn_N_app_r by lia. rewrite skipn_N_app_l by (unfold a in Hr; lia). reflexivity.
      + unfold a, leadin_extent in *. lia.
    - intros E; inversion E; subst x. clear E. cbn [g_src g_leadin g_filepos g_skip].
      replace (N.max 0 a) with a by lia. split.
      + exists (D ++ firstn_N a l). cbn [g_src g_leadin g_filepos g_skip]. split; [|split; [|split]].
        * rewrite Es' at 1. rewrite <- app_assoc. f_equal. rewrite app_assoc. f_equal.
          symmetry. apply firstn_skipn_N.
        * rewrite nlen_app, nlen_firstn_N. unfold a. lia.
        * rewrite nlen_skipn_N. unfold a. lia.
        * replace (N.to_nat (g_filepos st + a)) with (N.to_nat (g_filepos st) + N.to_nat a)%nat by lia.
          exact Happ.
      + rewrite nlen_skipn_N. unfold a. lia.
  Qed.

  Lemma scan_inv_iters n st st' : iters (gsfx_step rd) n st st' -> scan_inv st -> scan_inv st'.
  Proof.
    intros Hit. induction Hit as [|n s0 s1 s2 Hstep Hit IH]; intros H0; [exact H0|].
    apply IH. exact (proj1 (scan_inv_step s0 (inl s1) H0 Hstep)).
  Qed.

  Lemma scan_inv_loops n st r : loops (gsfx_step rd) n st r -> scan_inv st ->
    match r with
    | (true, src', l') =>
        exists q, fst (ref_scan s (N.to_nat (q + 1)) 0 0) = Some q /\
                  l' ++ sdata src' = skipn_N q s /\ q < MAX_SFX_HEADER_LEN + 12
    | (false, _, _) => True
    end.
  Proof.
    intros Hl. induction Hl as [s0 r Hstep|n s0 s1 r Hstep Hl IH]; intros H0.
    - exact (scan_inv_step s0 (inr r) H0 Hstep).
    - apply IH. exact (proj1 (scan_inv_step s0 (inl s1) H0 Hstep)).
  Qed.

  (* every state the loop can reach satisfies the invariant *)
  Theorem scan_inv_reachable src0 n st : sdata src0 = s ->
    iters (gsfx_step rd) n {| g_src := src0; g_leadin := []; g_filepos := 0; g_skip := 0 |} st ->
    scan_inv st.
  Proof. intros E Hit. exact (scan_inv_iters _ _ _ Hit (scan_inv_init src0 E)). Qed.

  (* whatever the loop returns as found is the reference scan's answer *)
  Theorem scan_found_is_ref src0 k src' l' : sdata src0 = s ->
    loop (gsfx_step rd) k {| g_src := src0; g_leadin := []; g_filepos := 0; g_skip := 0 |}
      = Ok (true, src', l') ->
    exists r, fst (ref_scan s (N.to_nat (r + 1)) 0 0) = Some r /\
              l' ++ sdata src' = skipn_N r s /\ r < MAX_SFX_HEADER_LEN + 12.
  Proof.
    intros E Hl. apply loop_sound in Hl. destruct Hl as (n & Hl & _).
    exact (scan_inv_loops _ _ _ Hl (scan_inv_init src0 E)).
  Qed.
End Chunking.

Lemma ref_answer_unique s n1 n2 r1 r2 :
  fst (ref_scan s n1 0 0) = Some r1 -> fst (ref_scan s n2 0 0) = Some r2 -> r1 = r2.
Proof.
  assert (W : forall a b ra rb, (a <= b)%nat ->
            fst (ref_scan s a 0 0) = Some ra -> fst (ref_scan s b 0 0) = Some rb -> ra = rb).
  { intros a b ra rb Hab Ha Hb. replace b with (a + (b - a))%nat in Hb by lia.
    rewrite ref_scan_app in Hb. destruct (ref_scan s a 0 0) as [[r|] k']; cbn [fst] in *; congruence. }
  intros H1 H2. destruct (Nat.le_ge_cases n1 n2); [eauto|symmetry; eauto].
Qed.

(* a source that delivers at most max(1, c_i) bytes on the i-th read (and
   everything asked for once the list of chunk sizes is used up) *)
Record csource := { cs_data : list N; cs_chunks : list N }.
Definition chunk_read (s : csource) (n : N) : list N * csource :=
  let c := match cs_chunks s with [] => n | c :: _ => N.min n (N.max 1 c) end in
  (firstn_N c (cs_data s), {| cs_data := skipn_N c (cs_data s); cs_chunks := tl (cs_chunks s) |}).

Lemma chunk_read_ok : reader_ok cs_data chunk_read.
Proof.
  intros s n. unfold chunk_read. cbn [fst snd cs_data].
  set (c := match cs_chunks s with [] => n | c :: _ => N.min n (N.max 1 c) end).
  assert (Hc : c <= n /\ (0 < n -> 0 < c)) by (unfold c; destruct (cs_chunks s); lia).
  split; [symmetry; apply firstn_skipn_N|]. split; [rewrite nlen_firstn_N; lia|].
  intros Hn Hd. destruct (cs_data s) as [|x r]; [congruence|].
  cbn [firstn_N]. destruct (N.eqb_spec c 0); [lia|discriminate].
Qed.

Notation chunked_scan chunks data :=
  (loop (gsfx_step chunk_read) 24
    {| g_src := {| cs_data := data; cs_chunks := chunks |}; g_leadin := []; g_filepos := 0; g_skip := 0 |}).

(* with no chunk limits this is the model's scan *)
Lemma chunked_scan_nil_model k data :
  omap (fun r : bool * csource * list N => let '(b, src, l) := r in (b, l ++ cs_data src)) (chunked_scan [] data) =
  omap (fun r : bool * istream => (fst r, is_leadin (snd r) ++ so_data (is_src (snd r))))
       (skip_sfx (lha_input_stream_new (mk_source k data))).
Proof.
  unfold skip_sfx, lha_input_stream_new. cbn [is_src is_leadin is_state].
  set (fs := fun st : sfx_st => {| g_src := {| cs_data := so_data (sx_src st); cs_chunks := [] |};
                                   g_leadin := sx_leadin st; g_filepos := sx_filepos st; g_skip := sx_skip st |}).
  set (fr := fun r : bool * source * list N =>
               let '(b, src, l) := r in (b, {| cs_data := so_data src; cs_chunks := [] |}, l)).
  assert (Hstep : forall st, gsfx_step chunk_read (fs st) = omap (smap fs fr) (sfx_step st)).
  { intros st. unfold gsfx_step, sfx_step, fs, chunk_read, raw_read.
    cbn [g_src g_leadin g_filepos g_skip cs_data cs_chunks tl].
    destruct (sx_filepos st <? MAX_SFX_HEADER_LEN); [|reflexivity].
    destruct (firstn_N (LEADIN_BUFFER_LEN - nlen (sx_leadin st)) (so_data (sx_src st))) as [|g0 got']; [reflexivity|].
    destruct (leadin_extent <? nlen (sx_leadin st ++ g0 :: got')); [reflexivity|].
    destruct (scan_leadin 30 (sx_leadin st ++ g0 :: got') 0 (sx_skip st)) as [[[found i] k']| |];
      cbn [bind omap]; try reflexivity.
    destruct found; reflexivity. }
  pose proof (loop_map sfx_step (gsfx_step chunk_read) fs fr Hstep 24
                {| sx_src := mk_source k data; sx_leadin := []; sx_filepos := 0; sx_skip := 0 |}) as Hm.
  unfold fs in Hm at 1. cbn [sx_src sx_leadin sx_filepos sx_skip mk_source so_data] in Hm.
  rewrite Hm.
  destruct (loop sfx_step 24 {| sx_src := mk_source k data; sx_leadin := []; sx_filepos := 0; sx_skip := 0 |})
    as [[[b src'] l]| |]; reflexivity.
Qed.

(* The scan finds the reference answer for every chunking ... *)
Theorem chunked_scan_ref chunks s p :
  p < MAX_SFX_HEADER_LEN -> p + 13 <= nlen s ->
  fst (ref_scan s (N.to_nat (p + 1)) 0 0) = Some p ->
  exists src' l, chunked_scan chunks s = Ok (true, src', l) /\ l ++ cs_data src' = skipn_N p s.
Proof.
  intros Hp Hs Href.
  exact (gscan_finds_any csource cs_data chunk_read chunk_read_ok s p Hp Hs
           {| cs_data := s; cs_chunks := chunks |} eq_refl Href).
Qed.

(* ... so the prefix theorems hold for every chunking, and the position reached
   is the one the unchunked model reaches *)
Theorem sfx_prefix_skipped_chunked : forall chunks P A,
  nlen P < MAX_SFX_HEADER_LEN ->
  13 <= nlen A -> match_at A 0 = true ->
  (forall q, q < nlen P -> match_at (P ++ A) q = false /\ marker_at (P ++ A) q = false) ->
  exists src' l, chunked_scan chunks (P ++ A) = Ok (true, src', l) /\ l ++ cs_data src' = A.
Proof.
  intros chunks P A HP HA HmA Hquiet.
  destruct (chunked_scan_ref chunks (P ++ A) (nlen P)) as (src' & l & E & Hl).
  - exact HP.
  - rewrite nlen_app. lia.
  - exact (ref_plain P A HmA Hquiet).
  - exists src', l. split; [exact E|]. rewrite Hl. apply skipn_N_app_exact.
Qed.

Theorem sfx_one_decoy_chunked : forall chunks P A m d,
  nlen P < MAX_SFX_HEADER_LEN ->
  13 <= nlen A -> match_at A 0 = true ->
  m <= d -> d < nlen P ->
  (forall q, q < nlen P -> (marker_at (P ++ A) q = true <-> q = m)) ->
  (forall q, q < nlen P -> (match_at (P ++ A) q = true <-> q = d)) ->
  exists src' l, chunked_scan chunks (P ++ A) = Ok (true, src', l) /\ l ++ cs_data src' = A.
Proof.
  intros chunks P A m d HP HA HmA Hmd Hd Hmark Hmatch.
  destruct (chunked_scan_ref chunks (P ++ A) (nlen P)) as (src' & l & E & Hl).
  - exact HP.
  - rewrite nlen_app. lia.
  - exact (ref_decoy P A m d HmA Hmd Hd Hmark Hmatch).
  - exists src', l. split; [exact E|]. rewrite Hl. apply skipn_N_app_exact.
Qed.

(* If two chunkings both find a header, they find the same one *)
Theorem chunking_independent chunks1 chunks2 s src1 l1 src2 l2 :
  chunked_scan chunks1 s = Ok (true, src1, l1) ->
  chunked_scan chunks2 s = Ok (true, src2, l2) ->
  l1 ++ cs_data src1 = l2 ++ cs_data src2.
Proof.
  intros H1 H2.
  destruct (scan_found_is_ref csource cs_data chunk_read chunk_read_ok s
              {| cs_data := s; cs_chunks := chunks1 |} 24 src1 l1 eq_refl H1) as (r1 & R1 & E1 & _).
  destruct (scan_found_is_ref csource cs_data chunk_read chunk_read_ok s
              {| cs_data := s; cs_chunks := chunks2 |} 24 src2 l2 eq_refl H2) as (r2 & R2 & E2 & _).
  rewrite E1, E2. f_equal. eapply ref_answer_unique; eauto.
Qed.

(* ------------------------------------------------------------------ *)
(* 10. The literal reading of C16 is refuted: a prefix that by itself contains
       no signature and no marker can complete a signature with the first
       bytes of the archive (a match straddling the boundary). *)

(* a signature pattern starts at byte j *)
Definition sig_at (s : list N) (j : N) : bool :=
  match nth_N s j, nth_N s (j + 1), nth_N s (j + 2), nth_N s (j + 3), nth_N s (j + 4) with
  | Some b0, Some b1, Some b2, Some b3, Some b4 =>
      (b0 =? 45) && (b4 =? 45) && method_sig b1 b2 b3
  | _, _, _, _, _ => false
  end.

Lemma match_at_sig s q : match_at s q = sig_at s (q + 2).
Proof.
  unfold match_at, sig_at.
  replace (q + 2 + 1) with (q + 3) by lia. replace (q + 2 + 2) with (q + 4) by lia.
  replace (q + 2 + 3) with (q + 5) by lia. replace (q + 2 + 4) with (q + 6) by lia.
  reflexivity.
Qed.

Lemma nth_N_beyond {A} (l : list A) i : nlen l <= i -> nth_N l i = None.
Proof. intros H. unfold nth_N. apply nth_error_None. unfold nlen in H. lia. Qed.

Lemma sig_at_beyond s j : nlen s <= j + 4 -> sig_at s j = false.
Proof.
  intros H. unfold sig_at. rewrite (nth_N_beyond s (j + 4) H).
  destruct (nth_N s j); [|reflexivity]. destruct (nth_N s (j + 1)); [|reflexivity].
  destruct (nth_N s (j + 2)); [|reflexivity]. destruct (nth_N s (j + 3)); reflexivity.
Qed.

Lemma match_at_beyond s q : nlen s <= q + 6 -> match_at s q = false.
Proof. intros H. rewrite match_at_sig. apply sig_at_beyond. lia. Qed.

Lemma marker_at_beyond s q : nlen s <= q -> marker_at s q = false.
Proof.
  intros H. unfold marker_at, DECLHA_SFX_ID, AMIGA_LHASFX_ID. cbn [prefix_at].
  rewrite (nth_N_beyond s q H). reflexivity.
Qed.

Lemma forall_below (f : N -> bool) n :
  forallb f (map N.of_nat (seq 0 n)) = true -> forall q, q < N.of_nat n -> f q = true.
Proof.
  intros H q Hq. rewrite forallb_forall in H. apply H.
  apply in_map_iff. exists (N.to_nat q). split; [lia|]. apply in_seq. lia.
Qed.

(* what the scan leaves to be read, None when it fails *)
Definition scan_rest (k : skind) (s : list N) : option (list N) :=
  match skip_sfx (lha_input_stream_new (mk_source k s)) with
  | Ok (true, st') => Some (is_leadin st' ++ so_data (is_src st'))
  | _ => None
  end.

Lemma scan_rest_some k s r : scan_rest k s = Some r ->
  exists st', skip_sfx (lha_input_stream_new (mk_source k s)) = Ok (true, st') /\
              is_leadin st' ++ so_data (is_src st') = r.
Proof.
  unfold scan_rest. destruct (skip_sfx (lha_input_stream_new (mk_source k s))) as [[[|] st']| |];
    try discriminate. intros E. inversion E. eauto.
Qed.

(* Two valid one-member level-0 archives ("a.txt" holding "hi\n", stored with
   -lh0-, followed by the end-of-archive byte); both are accepted by lha t.
   In the second the timestamp was chosen so that the header checksum - the
   archive's SECOND byte - is 0x2d '-'. *)
Definition arch0 : list N :=
  [27; 134; 45; 108; 104; 48; 45; 3; 0; 0; 0; 3; 0; 0; 0; 120; 86; 52; 82; 32; 0; 5;
   97; 46; 116; 120; 116; 47; 139; 104; 105; 10; 0].
Definition arch45 : list N :=
  [27; 45; 45; 108; 104; 48; 45; 3; 0; 0; 0; 3; 0; 0; 0; 31; 86; 52; 82; 32; 0; 5;
   97; 46; 116; 120; 116; 47; 139; 104; 105; 10; 0].
Definition zz_lh : list N := [122; 122; 45; 108; 104].          (* "zz-lh" *)

Theorem sfx_literal_refuted :
  exists P A,
    nlen P < sfx_scan_limit /\ 13 <= nlen A /\ match_at A 0 = true /\
    (* P alone: no signature pattern anywhere, no match position, no marker *)
    (forall j, sig_at P j = false) /\
    (forall q, match_at P q = false /\ marker_at P q = false) /\
    (* A alone: its own signature only, no marker *)
    (forall q, q <> 0 -> match_at A q = false) /\ (forall q, marker_at A q = false) /\
    (* but the scan of P ++ A stops |P| = 5 bytes early, for every source kind *)
    forall k, exists st',
      skip_sfx (lha_input_stream_new (mk_source k (P ++ A))) = Ok (true, st') /\
      is_leadin st' ++ so_data (is_src st') = P ++ A /\
      is_leadin st' ++ so_data (is_src st') <> A.
Proof.
  exists zz_lh, arch45.
  split; [vm_compute; reflexivity|]. split; [vm_compute; discriminate|]. split; [vm_compute; reflexivity|].
  split; [|split; [|split; [|split]]].
  - intros j. destruct (N.lt_ge_cases j 1) as [H|H].
    + replace j with 0 by lia. vm_compute. reflexivity.
    + apply sig_at_beyond. change (nlen zz_lh) with 5. lia.
  - intros q. split.
    + apply match_at_beyond. change (nlen zz_lh) with 5. lia.
    + destruct (N.lt_ge_cases q 5) as [H|H].
      * apply negb_true_iff.
        apply (forall_below (fun q => negb (marker_at zz_lh q)) 5); [vm_compute; reflexivity|exact H].
      * apply marker_at_beyond. change (nlen zz_lh) with 5. lia.
  - intros q Hq. destruct (N.lt_ge_cases q 33) as [H|H].
    + pose proof (forall_below (fun q => (q =? 0) || negb (match_at arch45 q)) 33
                    ltac:(vm_compute; reflexivity) q H) as Hall.
      cbn beta in Hall. destruct (N.eqb_spec q 0); [congruence|].
      cbn [orb] in Hall. apply negb_true_iff. exact Hall.
    + apply match_at_beyond. change (nlen arch45) with 33. lia.
  - intros q. destruct (N.lt_ge_cases q 33) as [H|H].
    + apply negb_true_iff.
      apply (forall_below (fun q => negb (marker_at arch45 q)) 33); [vm_compute; reflexivity|exact H].
    + apply marker_at_beyond. change (nlen arch45) with 33. lia.
  - intros k.
    assert (E : scan_rest k (zz_lh ++ arch45) = Some (zz_lh ++ arch45))
      by (destruct k; vm_compute; reflexivity).
    destruct (scan_rest_some _ _ _ E) as (st' & E1 & E2).
    exists st'. split; [exact E1|]. split; [exact E2|]. rewrite E2. vm_compute. discriminate.
Qed.

(* the exact hypothesis (over positions of P ++ A) indeed fails for this pair *)
Example literal_pair_has_straddling_match : match_at (zz_lh ++ arch45) 0 = true.
Proof. vm_compute. reflexivity. Qed.

(* ------------------------------------------------------------------ *)
(* 11. Non-vacuity: the hypotheses are satisfiable and the scan ends at A *)

(* random-looking bytes (a linear congruential generator) *)
Fixpoint lcg_bytes (n : nat) (x : N) : list N :=
  match n with
  | O => []
  | S n' => let x' := (x * 1103515245 + 12345) mod 2147483648 in
            (x' / 65536) mod 256 :: lcg_bytes n' x'
  end.

Lemma tuple3_eq {A B C} (a a' : A) (b b' : B) (c c' : C) :
  (a, b, c) = (a', b', c') -> a = a' /\ b = b' /\ c = c'.
Proof. intros H. inversion H. auto. Qed.
Lemma tuple4_eq {A B C D} (a a' : A) (b b' : B) (c c' : C) (d d' : D) :
  (a, b, c, d) = (a', b', c', d') -> a = a' /\ b = b' /\ c = c' /\ d = d'.
Proof. intros H. inversion H. auto. Qed.

Definition quiet_prefix (P A : list N) : bool :=
  let s := P ++ A in
  forallb (fun q => negb (match_at s q) && negb (marker_at s q)) (map N.of_nat (seq 0 (length P))).

Lemma quiet_prefix_ok P A : quiet_prefix P A = true ->
  forall q, q < nlen P -> match_at (P ++ A) q = false /\ marker_at (P ++ A) q = false.
Proof.
  intros H q Hq. apply (forall_below _ _ H) in Hq. cbn beta in Hq.
  apply andb_true_iff in Hq. destruct Hq as [H1 H2].
  split; apply negb_true_iff; assumption.
Qed.

Example arch0_ok : 13 <= nlen arch0 /\ match_at arch0 0 = true.
Proof. split; [vm_compute; discriminate|vm_compute; reflexivity]. Qed.

(* the hypotheses of sfx_prefix_skipped hold, and (independently, by running the
   model) the stream ends up positioned at the archive *)
Definition prefix_check (n : nat) : bool * bool * option (list N) :=
  let P := lcg_bytes n 1 in
  (nlen P =? N.of_nat n, quiet_prefix P arch0, scan_rest KFile (P ++ arch0)).
Definition prefix_example (n : nat) : Prop := prefix_check n = (true, true, Some arch0).
Lemma prefix_example_ok n : prefix_example n ->
  nlen (lcg_bytes n 1) = N.of_nat n /\ quiet_prefix (lcg_bytes n 1) arch0 = true /\
  scan_rest KFile (lcg_bytes n 1 ++ arch0) = Some arch0.
Proof.
  unfold prefix_example, prefix_check. cbv zeta. intros H.
  apply tuple3_eq in H. destruct H as (H1 & H2 & H3).
  apply N.eqb_eq in H1. auto.
Qed.

Example ex_prefix_0 : prefix_example 0. Proof. vm_compute. reflexivity. Qed.
Example ex_prefix_1 : prefix_example 1. Proof. vm_compute. reflexivity. Qed.
Example ex_prefix_11 : prefix_example 11. Proof. vm_compute. reflexivity. Qed.
Example ex_prefix_12 : prefix_example 12. Proof. vm_compute. reflexivity. Qed.
Example ex_prefix_13 : prefix_example 13. Proof. vm_compute. reflexivity. Qed.
Example ex_prefix_24 : prefix_example 24. Proof. vm_compute. reflexivity. Qed.
Example ex_prefix_25 : prefix_example 25. Proof. vm_compute. reflexivity. Qed.
Example ex_prefix_1000 : prefix_example 1000. Proof. vm_compute. reflexivity. Qed.

(* the theorem applied to the 1000-byte example *)
Example ex_prefix_1000_thm : forall k, exists st',
  skip_sfx (lha_input_stream_new (mk_source k (lcg_bytes 1000 1 ++ arch0))) = Ok (true, st') /\
  is_leadin st' ++ so_data (is_src st') = arch0 /\ is_state st' = IS_INIT.
Proof.
  intros k. destruct (prefix_example_ok _ ex_prefix_1000) as (Hn & Hq & _). destruct arch0_ok as [Ha Hm].
  apply sfx_prefix_skipped; [rewrite Hn; vm_compute; reflexivity|exact Ha|exact Hm|].
  apply quiet_prefix_ok. exact Hq.
Qed.

(* every source kind, and a few chunkings *)
Example ex_kinds : forall k, scan_rest k (lcg_bytes 25 1 ++ arch0) = Some arch0.
Proof. destruct k; vm_compute; reflexivity. Qed.

Definition cscan (chunks : list N) (s : list N) : option (list N) :=
  match chunked_scan chunks s with
  | Ok (true, src, l) => Some (l ++ cs_data src)
  | _ => None
  end.

Example ex_chunked_1 : cscan (repeat 1 2000) (lcg_bytes 1000 1 ++ arch0) = Some arch0.
Proof. vm_compute. reflexivity. Qed.
Example ex_chunked_mixed : cscan [5; 7; 3; 1; 24; 2; 13; 13; 1; 1; 1; 9] (lcg_bytes 100 1 ++ arch0) = Some arch0.
Proof. vm_compute. reflexivity. Qed.

(* stub + marker + stub + decoy header + stub *)
Definition decoy_hdr : list N := [0; 0; 45; 108; 104; 53; 45].       (* "\0\0-lh5-" *)
Definition decoy_prefix (marker : list N) (n1 n2 n3 : nat) : list N :=
  lcg_bytes n1 2 ++ marker ++ lcg_bytes n2 3 ++ decoy_hdr ++ lcg_bytes n3 4.

Definition decoy_hyp (P A : list N) (m d : N) : bool :=
  let s := P ++ A in
  forallb (fun q => Bool.eqb (marker_at s q) (q =? m) && Bool.eqb (match_at s q) (q =? d))
          (map N.of_nat (seq 0 (length P))).

Lemma decoy_hyp_ok P A m d : decoy_hyp P A m d = true ->
  (forall q, q < nlen P -> (marker_at (P ++ A) q = true <-> q = m)) /\
  (forall q, q < nlen P -> (match_at (P ++ A) q = true <-> q = d)).
Proof.
  intros H. split; intros q Hq; apply (forall_below _ _ H) in Hq; cbn beta in Hq;
    apply andb_true_iff in Hq; destruct Hq as [H1 H2].
  - apply eqb_prop in H1. rewrite H1. apply N.eqb_eq.
  - apply eqb_prop in H2. rewrite H2. apply N.eqb_eq.
Qed.

Definition decoy_check (marker : list N) (n1 n2 n3 : nat) : bool * bool * bool * option (list N) :=
  let P := decoy_prefix marker n1 n2 n3 in
  let m := N.of_nat n1 in
  let d := N.of_nat n1 + nlen marker + N.of_nat n2 in
  (m <=? d, d <? nlen P, decoy_hyp P arch0 m d, scan_rest KFile (P ++ arch0)).
Definition decoy_example (marker : list N) (n1 n2 n3 : nat) : Prop :=
  decoy_check marker n1 n2 n3 = (true, true, true, Some arch0).
Lemma decoy_example_ok marker n1 n2 n3 : decoy_example marker n1 n2 n3 ->
  let P := decoy_prefix marker n1 n2 n3 in
  let m := N.of_nat n1 in
  let d := N.of_nat n1 + nlen marker + N.of_nat n2 in
  m <= d /\ d < nlen P /\ decoy_hyp P arch0 m d = true /\ scan_rest KFile (P ++ arch0) = Some arch0.
Proof.
  unfold decoy_example, decoy_check. cbv zeta. intros H.
  apply tuple4_eq in H. destruct H as (H1 & H2 & H3 & H4).
  apply N.leb_le in H1. apply N.ltb_lt in H2. auto.
Qed.

Example ex_decoy_declha : decoy_example DECLHA_SFX_ID 40 100 300.
Proof. vm_compute. reflexivity. Qed.
Example ex_decoy_amiga : decoy_example AMIGA_LHASFX_ID 17 5 2.
Proof. vm_compute. reflexivity. Qed.
(* decoy directly after the marker, marker at the very start *)
Example ex_decoy_adjacent : decoy_example DECLHA_SFX_ID 0 0 0.
Proof. vm_compute. reflexivity. Qed.

Example ex_decoy_thm : forall k, exists st',
  skip_sfx (lha_input_stream_new (mk_source k (decoy_prefix DECLHA_SFX_ID 40 100 300 ++ arch0))) = Ok (true, st') /\
  is_leadin st' ++ so_data (is_src st') = arch0 /\ is_state st' = IS_INIT.
Proof.
  intros k. destruct (decoy_example_ok _ _ _ _ ex_decoy_declha) as (Hmd & Hd & Hh & _). destruct arch0_ok as [Ha Hm].
  destruct (decoy_hyp_ok _ _ _ _ Hh) as [Hmark Hmatch].
  eapply sfx_one_decoy; [vm_compute; reflexivity|exact Ha|exact Hm|exact Hmd|exact Hd|exact Hmark|exact Hmatch].
Qed.

(* without the marker the decoy is taken for the first header; with two decoys
   after one marker the second is *)
Example ex_decoy_without_marker :
  scan_rest KFile (decoy_prefix [] 40 100 300 ++ arch0) <> Some arch0.
Proof. vm_compute. discriminate. Qed.
Example ex_two_decoys :
  scan_rest KFile (decoy_prefix DECLHA_SFX_ID 40 100 300 ++ decoy_hdr ++ lcg_bytes 20 5 ++ arch0) <> Some arch0.
Proof. vm_compute. discriminate. Qed.

(* ------------------------------------------------------------------ *)
(* 12. The bounds are exact.  List-backed source (full reads): a header at
       stream position 262151 is found, at 262152 it is not.  Between
       MAX_SFX_HEADER_LEN = 262144 and 262151 the answer depends on how the
       reads are chunked: a first read of 16 bytes makes filepos hit 262144
       exactly, and the scan gives up on a header that full reads find. *)

Definition zeros (n : N) : list N := repeat 0 (N.to_nat n).

Example bound_model_last_found : scan_rest KFile (zeros 262151 ++ arch0) = Some arch0.
Proof. vm_cast_no_check (@eq_refl (option (list N)) (Some arch0)). Qed.
Example bound_model_first_missed : scan_rest KFile (zeros 262152 ++ arch0) = None.
Proof. vm_cast_no_check (@eq_refl (option (list N)) None). Qed.
Example bound_chunked_last_found : cscan [16] (zeros 262143 ++ arch0) = Some arch0.
Proof. vm_cast_no_check (@eq_refl (option (list N)) (Some arch0)). Qed.
Example bound_chunking_matters_at_max :
  cscan [16] (zeros 262144 ++ arch0) = None /\ cscan [] (zeros 262144 ++ arch0) = Some arch0.
Proof.
  split; [vm_cast_no_check (@eq_refl (option (list N)) None)
         |vm_cast_no_check (@eq_refl (option (list N)) (Some arch0))].
Qed.

(* ------------------------------------------------------------------ *)
Print Assumptions fhm_spec.
Print Assumptions scan_leadin_spec.
Print Assumptions marker_excludes_match.
Print Assumptions gscan_finds.
Print Assumptions gscan_finds_any.
Print Assumptions skip_sfx_ref.
Print Assumptions sfx_prefix_skipped.
Print Assumptions sfx_prefix_read.
Print Assumptions sfx_one_decoy.
Print Assumptions sfx_one_decoy_read.
Print Assumptions sfx_literal_refuted.
Print Assumptions skip_sfx_kind.
Print Assumptions skip_sfx_source_kind.
Print Assumptions stream_read_kind.
Print Assumptions scan_inv_reachable.
Print Assumptions scan_found_is_ref.
Print Assumptions chunked_scan_nil_model.
Print Assumptions chunked_scan_ref.
Print Assumptions sfx_prefix_skipped_chunked.
Print Assumptions sfx_one_decoy_chunked.
Print Assumptions chunking_independent.
Print Assumptions ex_prefix_1000_thm.
Print Assumptions ex_decoy_thm.
Print Assumptions bound_chunking_matters_at_max.

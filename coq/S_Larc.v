(* S_Larc.v -- specification side for C03: what a list of LArc commands
   denotes (a ring addressed by absolute position) and how -lzs- and -lz5-
   serialise such a list.  Written independently of the decoder models. *)
From Lhasa Require Import Base.
Local Open Scope N_scope.

Inductive acmd : Type :=
| ALit (b : N)
| ACopy (pos len : N).        (* absolute ring position, number of bytes *)

(* The ring machine of the property statement: a ring of [size] bytes with a
   write position; a literal is written and output; a copy outputs (and
   writes) the bytes found at pos, pos+1, ... one at a time, so it may read
   bytes it has just written. *)
Record ring := { r_mem : arr; r_wpos : N }.

Definition ring_put (size : N) (r : ring) (b : N) : ring :=
  {| r_mem := aset (r_mem r) (r_wpos r) b; r_wpos := (r_wpos r + 1) mod size |}.

Fixpoint ring_copy (size : N) (n : nat) (r : ring) (pos : N) (out_rev : list N) : ring * list N :=
  match n with
  | O => (r, out_rev)
  | S k =>
    let b := aget (r_mem r) (pos mod size) in
    ring_copy size k (ring_put size r b) (pos + 1) (b :: out_rev)
  end.

Definition ring_cmd (size : N) (st : ring * list N) (c : acmd) : ring * list N :=
  let '(r, out_rev) := st in
  match c with
  | ALit b => (ring_put size r b, b :: out_rev)
  | ACopy pos len => ring_copy size (N.to_nat len) r pos out_rev
  end.

Definition ring_expand (size : N) (r0 : ring) (cmds : list acmd) : list N :=
  rev (snd (fold_left (ring_cmd size) cmds (r0, []))).

(* -lzs-: 2 KiB ring of spaces, write position 2048 - 17 *)
Definition lzs_ring0 : ring := {| r_mem := mk_arr 2048 32; r_wpos := 2048 - 17 |}.
Definition lzs_expand (cmds : list acmd) : list N := ring_expand 2048 lzs_ring0 cmds.

(* -lz5-: 4 KiB ring with the LArc fill pattern given in closed form:
   256 runs of 13 equal bytes, 0..255 ascending, 255..0 descending,
   128 zeros, 110 spaces, 18 zeros; write position 4096 - 18 *)
Definition lz5_fill_at (p : N) : N :=
  if p <? 3328 then p / 13
  else if p <? 3584 then p - 3328
  else if p <? 3840 then 255 - (p - 3584)
  else if p <? 3968 then 0
  else if p <? 4078 then 32
  else 0.
Definition lz5_ring0 : ring :=
  {| r_mem := aset_list (mk_arr 4096 0) 0 (map (fun i => lz5_fill_at (N.of_nat i)) (seq 0 4096));
     r_wpos := 4096 - 18 |}.
Definition lz5_expand (cmds : list acmd) : list N := ring_expand 4096 lz5_ring0 cmds.

(* ---- serialisation ---- *)

(* n-bit big-endian field *)
Fixpoint bits_of (n : nat) (v : N) : list bool :=
  match n with
  | O => []
  | S k => N.testbit v (N.of_nat k) :: bits_of k v
  end.

Fixpoint byte_of_bits (l : list bool) (n : nat) (acc : N) : N * list bool :=
  match n with
  | O => (acc, l)
  | S k =>
    match l with
    | [] => byte_of_bits [] k (2 * acc)
    | b :: r => byte_of_bits r k (2 * acc + (if b then 1 else 0))
    end
  end.

(* MSB first, zero padded *)
Fixpoint bytes_of_bits_fuel (fuel : nat) (l : list bool) : list N :=
  match fuel with
  | O => []
  | S f =>
    match l with
    | [] => []
    | _ => let '(b, r) := byte_of_bits l 8 0 in b :: bytes_of_bits_fuel f r
    end
  end.
Definition bytes_of_bits (l : list bool) : list N := bytes_of_bits_fuel (length l) l.

(* -lzs-: flag bit 1 + 8 bits | flag bit 0 + 11 bits position + 4 bits (len - 2) *)
Definition lzs_cmd_bits (c : acmd) : list bool :=
  match c with
  | ALit b => true :: bits_of 8 b
  | ACopy pos len => false :: bits_of 11 pos ++ bits_of 4 (len - 2)
  end.
Definition lzs_serialise (cmds : list acmd) : list N := bytes_of_bits (flat_map lzs_cmd_bits cmds).
Definition lzs_wf_cmd (c : acmd) : bool :=
  match c with
  | ALit b => b <? 256
  | ACopy pos len => (pos <? 2048) && (2 <=? len) && (len <=? 17)
  end.

(* -lz5-: runs of eight commands; flag byte, bit i (LSB first) set = literal;
   literal: the byte; copy: pos low 8 bits, then (pos >> 4 & 0xf0) | (len - 3).
   [pad] supplies the flag bits of the unused positions of the last run. *)
Definition lz5_cmd_bytes (c : acmd) : list N :=
  match c with
  | ALit b => [b]
  | ACopy pos len => [N.land pos 255; N.lor (N.land (N.shiftr pos 4) 240) (len - 3)]
  end.
Definition lz5_flag (c : acmd) : bool := match c with ALit _ => true | ACopy _ _ => false end.

Fixpoint flag_byte (flags : list bool) (i : N) : N :=
  match flags with
  | [] => 0
  | f :: r => (if f then N.shiftl 1 i else 0) + flag_byte r (i + 1)
  end.

Fixpoint lz5_serialise_fuel (fuel : nat) (cmds : list acmd) (pad : list bool) : list N :=
  match fuel with
  | O => []
  | S f =>
    match cmds with
    | [] => []
    | _ =>
      let run := firstn 8 cmds in
      let rest := skipn 8 cmds in
      let flags := map lz5_flag run ++ (match rest with [] => firstn (8 - length run) pad | _ => [] end) in
      flag_byte flags 0 :: flat_map lz5_cmd_bytes run ++ lz5_serialise_fuel f rest pad
    end
  end.
Definition lz5_serialise (cmds : list acmd) (pad : list bool) : list N :=
  lz5_serialise_fuel (length cmds) cmds pad.
Definition lz5_wf_cmd (c : acmd) : bool :=
  match c with
  | ALit b => b <? 256
  | ACopy pos len => (pos <? 4096) && (3 <=? len) && (len <=? 18)
  end.

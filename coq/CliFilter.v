(* CliFilter.v -- src/filter.c over the reader model: lha_filter_next_file as
   the command-line tool uses it (Glob.v has match_glob, matches_filter and a
   version of lha_filter_next_file over a list of headers that the list
   commands use).  Definitions only. *)
From Lhasa Require Import Base Loop Header BasicReader Reader Glob.
Local Open Scope N_scope.

Section Filter.
  Variable mktime : N -> N -> N -> N -> Z -> N -> N.

  (* one iteration of
       do { header = lha_reader_next_file(filter->reader); }
       while (header != NULL && !matches_filter(filter, header)); *)
  Definition filter_step (f : lha_filter) (r : reader) : outcome (reader + (option header * reader)) :=
    '(h, r') <- lha_reader_next_file mktime r ;;
    match h with
    | None => Ok (inr (None, r'))
    | Some hd => if matches_filter f hd then Ok (inr (Some hd, r')) else Ok (inl r')
    end.

  (* lha_filter_next_file(filter): the reader is filter->reader *)
  Definition filter_next_file (f : lha_filter) (r : reader) : outcome (option header * reader) :=
    loop (filter_step f) 40 r.
End Filter.

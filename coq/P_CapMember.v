(* P_CapMember.v -- a member stored with -lh0- whose bytes are where the basic
   reader stands decodes to exactly these bytes: the run of lha_reader_read
   calls that lha_reader_check / extract_file make exists, delivers the bytes in
   chunks of 64, and leaves the basic reader at the end of the member
   ([stored_member_ok]: P_ReaderExtract.member_ok, which the tree result of
   P_CliTree asks of every regular member). *)
From Lhasa Require Import Base ListN DecBase Loop Generated Crc16 P_Crc16 InputStream Header BasicReader
  Null AnyDecoder Decoder MacBinary Fs FsRun Reader P_Sfx P_StreamEquiv P_Decoder P_ReaderCheck P_ReaderExtract S_Capstone.
From Coq Require Import ZifyBool ZifyN ZifyNat.
Local Open Scope N_scope.

Set Default Timeout 120.

(* the basic reader stands inside a member: [rest] of it is still in the
   stream, followed by [tail] *)
Definition br_at (br : breader) (cur : option header) (rest tail : list N) : Prop :=
  br_curr br = cur /\ br_eof br = false /\ br_remaining br = nlen rest /\
  is_state (br_stream br) = IS_READING /\ is_leadin (br_stream br) = [] /\
  so_data (is_src (br_stream br)) = rest ++ tail.

Lemma firstn_N_min {A} n (l : list A) : firstn_N (N.min n (nlen l)) l = firstn_N n l.
Proof.
  destruct (N.le_gt_cases n (nlen l)) as [H|H].
  - rewrite N.min_l by exact H. reflexivity.
  - rewrite N.min_r by lia. rewrite !firstn_N_all by lia. reflexivity.
Qed.

Lemma skipn_N_min {A} n (l : list A) : skipn_N (N.min n (nlen l)) l = skipn_N n l.
Proof.
  destruct (N.le_gt_cases n (nlen l)) as [H|H].
  - rewrite N.min_l by exact H. reflexivity.
  - rewrite N.min_r by lia. rewrite !skipn_N_all by lia. reflexivity.
Qed.

Lemma callback_at br cur rest tail n : br_at br cur rest tail ->
  fst (decoder_callback br n) = firstn_N n rest /\
  br_at (snd (decoder_callback br n)) cur (skipn_N n rest) tail.
Proof.
  intros (Hc & He & Hr & Hs & Hl & Hd). unfold decoder_callback, lha_basic_reader_read_compressed.
  rewrite He, Hr. cbn [orb].
  destruct (N.eqb_spec (nlen rest) 0) as [E0|E0].
  - apply nlen_zero_nil in E0. subst rest. cbn [fst snd]. rewrite firstn_N_nil, skipn_N_nil.
    split; [reflexivity|]. repeat split; assumption.
  - set (bytes := if nlen rest <? n then nlen rest else n).
    assert (Eb : bytes = N.min n (nlen rest)) by (unfold bytes; destruct (N.ltb_spec (nlen rest) n); lia).
    rewrite Hs.
    assert (NF : is_state (br_stream br) <> IS_FAIL) by (rewrite Hs; discriminate).
    destruct (read_ready_spec_rem (br_stream br) bytes NF) as (F1 & F2 & _ & F4 & F5).
    unfold remaining in F1, F2. rewrite Hl, Hd in *. cbn [app] in F1, F2.
    destruct (read_ready (br_stream br) bytes) as [res st'] eqn:Er. cbn [fst snd] in *.
    rewrite nlen_app in F1. destruct (N.leb_spec bytes (nlen rest + nlen tail)) as [_|Hbad]; [|lia].
    subst res. cbn [fst snd].
    rewrite firstn_N_app_l by lia. rewrite Eb, firstn_N_min. split; [reflexivity|].
    unfold br_at. cbn [br_curr br_eof br_remaining br_stream].
    split; [exact Hc|]. split; [reflexivity|]. split; [rewrite nlen_skipn_N; lia|]. split; [congruence|].
    split; [rewrite F5, skipn_N_nil; reflexivity|].
    rewrite F5, skipn_N_nil in F2. cbn [app] in F2. rewrite F2.
    rewrite P_StreamEquiv.skipn_N_app_l by lia. rewrite Eb, skipn_N_min. reflexivity.
Qed.

Section Member.
  Variable junk : N.

  Notation dread := (any_read decoder_callback junk).
  Notation dec := (@decoder breader dstate).

  Lemma dread_null br cur rest tail : br_at br cur rest tail ->
    exists br', dread (DS_null tt) br = Ok (firstn_N 1024 rest, DS_null tt, br') /\ br_at br' cur (skipn_N 1024 rest) tail.
  Proof.
    intros H. destruct (callback_at br cur rest tail 1024 H) as [E1 E2].
    unfold any_read, null_read. change null_BLOCK_READ_SIZE with 1024.
    destruct (decoder_callback br 1024) as [bs c'] eqn:Ec. cbn [fst snd] in *. subst bs.
    assert (L : nlen (firstn_N 1024 rest) <= null_max_read) by (rewrite nlen_firstn_N; unfold null_max_read; lia).
    destruct (N.leb_spec (nlen (firstn_N 1024 rest)) null_max_read) as [_|Hbad]; [|lia].
    cbn [bind]. exists c'. split; [reflexivity|exact E2].
  Qed.

  (* the decoder of a stored member: [todo] = buffered bytes ++ bytes still in the stream *)
  Definition dec_at (d : dec) (cur : option header) (todo tail : list N) : Prop :=
    d_inner d = DS_null tt /\
    (exists rest, todo = d_outbuf d ++ rest /\ br_at (d_cb d) cur rest tail) /\
    (d_failed d = true -> todo = []).

  Definition same_pass (d d' : dec) : Prop :=
    d_stream_pos d' = d_stream_pos d /\ d_stream_length d' = d_stream_length d /\ d_crc d' = d_crc d /\
    d_monitor d' = d_monitor d /\ d_last_block d' = d_last_block d /\ d_total_blocks d' = d_total_blocks d.

  Section OneRead.
    Variables (d0 : dec) (cur : option header) (todo tail : list N) (B : N).
    Hypothesis HB : B <= nlen todo.

    Definition linv (s : @rl breader dstate) : Prop :=
      rl_filled s <= B /\ rl_out_rev s = rev (firstn_N (rl_filled s) todo) /\
      dec_at (rl_d s) cur (skipn_N (rl_filled s) todo) tail /\ same_pass d0 (rl_d s).

    Definition lpost (s : @rl breader dstate) : Prop := linv s /\ rl_filled s = B.

    Definition lmeas (s : @rl breader dstate) : N :=
      2 * (B - rl_filled s) + (match d_outbuf (rl_d s) with [] => 1 | _ => 0 end) + 1.

    Lemma firstn_N_plus (a b : N) (l : list N) : firstn_N (a + b) l = firstn_N a l ++ firstn_N b (skipn_N a l).
    Proof.
      rewrite <- (firstn_skipn_N a l) at 1.
      destruct (N.le_gt_cases (nlen l) a) as [H|H].
      - rewrite (skipn_N_all a l) by exact H. rewrite app_nil_r, firstn_N_nil, app_nil_r.
        rewrite firstn_N_firstn_N. f_equal. lia.
      - rewrite firstn_N_app_r by (rewrite nlen_firstn_N; lia). f_equal. f_equal. rewrite nlen_firstn_N. lia.
    Qed.

    Lemma lstep s : linv s -> exists x, read_step dread 1024 B s = Ok x /\
      match x with inl s' => linv s' /\ lmeas s' < lmeas s | inr r => lpost r end.
    Proof.
      intros (Hf & Hout & (Hin & (rest & Htodo & Hbr) & Hfail) & Hpass).
      unfold read_step.
      destruct (N.ltb_spec (rl_filled s) B) as [Hlt|Hge].
      2:{ eexists. split; [reflexivity|]. split; [|lia]. split; [exact Hf|]. split; [exact Hout|]. split; [|exact Hpass].
          split; [exact Hin|]. split; [exists rest; split; assumption|exact Hfail]. }
      set (d := rl_d s) in *. set (ob := d_outbuf d) in *. set (want := B - rl_filled s).
      assert (Hlen : nlen (skipn_N (rl_filled s) todo) = nlen todo - rl_filled s) by apply nlen_skipn_N.
      assert (Hwant : want <= nlen ob + nlen rest) by (rewrite Htodo, nlen_app in Hlen; unfold want; lia).
      assert (Ef : d_failed d = false).
      { destruct (d_failed d); [|reflexivity]. rewrite (Hfail eq_refl) in Hlen. rewrite nlen_nil in Hlen. lia. }
      rewrite Ef.
      assert (Etake : nlen (firstn_N want ob) = N.min want (nlen ob)) by apply nlen_firstn_N.
      assert (Eout : forall k, k = nlen (firstn_N want ob) ->
                rev_append (firstn_N want ob) (rl_out_rev s) = rev (firstn_N (rl_filled s + k) todo)).
      { intros k ->. rewrite rev_append_rev, Hout, <- rev_app_distr. f_equal.
        rewrite firstn_N_plus. f_equal. rewrite Htodo. rewrite Etake.
        destruct (N.le_gt_cases want (nlen ob)) as [H|H].
        - rewrite N.min_l by exact H. rewrite firstn_N_app_l by exact H. reflexivity.
        - rewrite N.min_r by lia. rewrite firstn_N_app_l by lia. rewrite !firstn_N_all by lia. reflexivity. }
      destruct (skipn_N_cases want ob) as [[Hle Es]|[Hgt (y & ys & Es)]]; rewrite Es.
      - (* the buffer is used up: the next block is fetched *)
        destruct (dread_null (d_cb d) cur rest tail Hbr) as (br' & Ed & Hbr').
        rewrite Hin, Ed. cbn [bind]. cbv beta iota.
        assert (Em : (1024 <? nlen (firstn_N 1024 rest)) = false) by (apply N.ltb_ge; rewrite nlen_firstn_N; lia).
        rewrite Em.
        assert (Etk : nlen (firstn_N want ob) = nlen ob) by lia.
        assert (Eskip : skipn_N (rl_filled s + nlen ob) todo = rest).
        { rewrite skipn_N_add, Htodo. apply P_Sfx.skipn_N_app_exact. }
        destruct (firstn_N 1024 rest) as [|z zs] eqn:Ech.
        + (* end of the data *)
          assert (Er : rest = []).
          { destruct rest as [|q rest']; [reflexivity|]. pose proof (nlen_firstn_N 1024 (q :: rest')) as Hn.
            rewrite Ech, nlen_nil, nlen_cons in Hn. lia. }
          rewrite Er in *. rewrite nlen_nil in Hwant.
          eexists. split; [reflexivity|]. unfold lpost, linv. cbn [rl_filled rl_out_rev rl_d].
          rewrite Etk. split; [|unfold want in *; lia].
          split; [unfold want in *; lia|]. split; [apply Eout; symmetry; exact Etk|].
          split; [|exact Hpass].
          unfold dec_at. cbn [set_buf d_inner d_outbuf d_cb d_failed]. split; [reflexivity|].
          rewrite Eskip. split; [|reflexivity]. exists []. split; [reflexivity|]. rewrite skipn_N_nil in Hbr'. exact Hbr'.
        + eexists. split; [reflexivity|]. cbn [rl_filled rl_out_rev rl_d]. rewrite Etk. split.
          * unfold linv. cbn [rl_filled rl_out_rev rl_d].
            split; [unfold want in *; lia|]. split; [apply Eout; symmetry; exact Etk|].
            split; [|exact Hpass].
            unfold dec_at. cbn [set_buf d_inner d_outbuf d_cb d_failed]. split; [reflexivity|].
            rewrite Eskip. split; [|discriminate]. exists (skipn_N 1024 rest). split; [|exact Hbr'].
            rewrite <- Ech. symmetry. apply firstn_skipn_N.
          * unfold lmeas. cbn [rl_filled rl_d set_buf d_outbuf]. fold d. fold ob.
            destruct ob as [|q qs]; [rewrite nlen_nil; lia|rewrite nlen_cons in *; unfold want in *; lia].
      - (* enough bytes are buffered *)
        assert (Etk : nlen (firstn_N want ob) = want) by lia.
        eexists. split; [reflexivity|]. cbn [rl_filled rl_out_rev rl_d]. rewrite Etk. split.
        + unfold linv. cbn [rl_filled rl_out_rev rl_d].
          split; [unfold want; lia|]. split; [apply Eout; symmetry; exact Etk|].
          split; [|exact Hpass].
          unfold dec_at. cbn [set_buf d_inner d_outbuf d_cb d_failed]. split; [exact Hin|].
          split; [|discriminate]. exists rest. split; [|exact Hbr].
          rewrite skipn_N_add, Htodo, P_StreamEquiv.skipn_N_app_l by lia. rewrite Es. reflexivity.
        + unfold lmeas. cbn [rl_filled rl_d set_buf d_outbuf]. unfold want in *. lia.
    Qed.
  End OneRead.

  (* one lha_decoder_read *)
  Lemma read_fin_spec bsz (s : @rl breader dstate) : exists ev d',
    read_fin bsz s = Ok (rev (rl_out_rev s), ev, d') /\
    d_inner d' = d_inner (rl_d s) /\ d_cb d' = d_cb (rl_d s) /\ d_outbuf d' = d_outbuf (rl_d s) /\
    d_failed d' = d_failed (rl_d s) /\ d_stream_pos d' = d_stream_pos (rl_d s) + rl_filled s /\
    d_stream_length d' = d_stream_length (rl_d s) /\
    d_crc d' = lha_crc16_buf (d_crc (rl_d s)) (rev (rl_out_rev s)) /\ d_monitor d' = d_monitor (rl_d s).
  Proof.
    unfold read_fin. cbv zeta. cbn [d_monitor]. rewrite <- !rev_alt.
    destruct (d_monitor (rl_d s)) eqn:Em.
    - unfold check_progress. eexists. eexists. split; [reflexivity|]. cbn [d_inner d_cb d_outbuf d_failed d_stream_pos d_stream_length d_crc d_monitor].
      repeat split.
    - eexists. eexists. split; [reflexivity|]. cbn [d_inner d_cb d_outbuf d_failed d_stream_pos d_stream_length d_crc d_monitor].
      repeat split.
  Qed.

  Lemma dec_read_null (d : dec) bsz cur todo tail n :
    dec_at d cur todo tail -> d_stream_pos d + nlen todo = d_stream_length d -> n < 2 ^ 62 ->
    exists ev d', lha_decoder_read dread 1024 bsz d n = Ok (firstn_N n todo, ev, d') /\
      dec_at d' cur (skipn_N n todo) tail /\
      d_stream_pos d' = d_stream_pos d + nlen (firstn_N n todo) /\
      d_stream_length d' = d_stream_length d /\
      d_crc d' = lha_crc16_buf (d_crc d) (firstn_N n todo) /\ d_monitor d' = d_monitor d.
  Proof.
    intros Hat Hlen Hn. rewrite (dec_read_unfold dread 1024 bsz d n).
    set (B := clamp d n).
    assert (EB : B = N.min n (nlen todo)).
    { unfold B, clamp. destruct (N.ltb_spec (d_stream_length d) (d_stream_pos d + n)); lia. }
    assert (HB : B <= nlen todo) by lia.
    destruct (loop_total_ok (read_step dread 1024 B) (linv d cur todo tail B) (lpost d cur todo tail B) (lmeas B) 64
                (lstep d cur todo tail B HB) {| rl_d := d; rl_out_rev := []; rl_filled := 0 |}) as (r & Er & (Hinv & Hfill)).
    - unfold linv. cbn [rl_d rl_out_rev rl_filled]. split; [lia|]. rewrite firstn_N_0, skipn_N_0.
      split; [reflexivity|]. split; [exact Hat|]. repeat split.
    - unfold lmeas. cbn [rl_d rl_filled]. change (2 ^ N.of_nat 64) with 18446744073709551616.
      assert (2 ^ 62 = 4611686018427387904) by reflexivity. destruct (d_outbuf d); lia.
    - rewrite Er. cbn [bind].
      destruct Hinv as (_ & Hout & Hdat & Hpass).
      destruct (read_fin_spec bsz r) as (ev & d' & Efin & Ei & Ec & Eo & Efl & Ep & El & Ecrc & Emon).
      rewrite Efin, Hout, rev_involutive, Hfill, EB, firstn_N_min.
      exists ev, d'. split; [reflexivity|].
      destruct Hpass as (Pp & Pl & Pc & Pm & _).
      split.
      + destruct Hdat as (Hi & (rest & Ht & Hb) & Hf). rewrite Hfill, EB, skipn_N_min in *.
        unfold dec_at. rewrite Ei, Ec, Eo, Efl. split; [exact Hi|]. split; [exists rest; split; assumption|exact Hf].
      + rewrite Ep, El, Ecrc, Emon, Pp, Pl, Pc, Pm, Hout, rev_involutive, Hfill, EB, firstn_N_min.
        rewrite nlen_firstn_N. repeat split.
  Qed.

  (* ---- the reader with such a decoder open ---- *)
  Definition rd_at (r : reader) (cur : option header) (done todo tail : list N) : Prop :=
    exists d, rd_decoder r = Some (DO_plain d) /\ rd_inner r = IR_same /\ id_max_read d = 1024 /\
      dec_at (id_dec (load_br d (rd_br r))) cur todo tail /\
      d_stream_pos (id_dec d) = nlen done /\ d_stream_length (id_dec d) = nlen done + nlen todo.

  Lemma dec_at_set_cb (d : dec) cur todo tail : dec_at (set_cb d (d_cb d)) cur todo tail <-> dec_at d cur todo tail.
  Proof. unfold dec_at. cbn [set_cb d_inner d_outbuf d_cb d_failed]. reflexivity. Qed.

  Lemma reader_read_null r cur done todo tail : rd_at r cur done todo tail ->
    exists ev r', lha_reader_read junk r 64 = Ok (firstn_N 64 todo, ev, r') /\
      rd_at r' cur (done ++ firstn_N 64 todo) (skipn_N 64 todo) tail /\
      rd_curr r' = rd_curr r /\ rd_type r' = rd_type r.
  Proof.
    intros (d & Hd & Hi & Hm & Hat & Hp & Hl).
    rewrite (reader_read_open junk r 64 _ Hd), decoder_read_eq, Hd. unfold inner_read.
    cbn [load_br id_max_read id_block_size]. rewrite Hm.
    destruct (dec_read_null (id_dec (load_br d (rd_br r))) (id_block_size d) cur todo tail 64 Hat) as (ev & d' & E & Hat' & Hp' & Hl' & _).
    - cbn [load_br id_dec set_cb d_stream_pos d_stream_length]. lia.
    - reflexivity.
    - rewrite E. cbn [bind].
      eexists. eexists. split; [reflexivity|]. split; [|split; reflexivity].
      eexists. cbn [set_decoders rd_decoder rd_inner rd_br]. split; [reflexivity|]. split; [exact Hi|].
      cbn [with_dec id_max_read id_dec load_br idec_br]. split; [exact Hm|].
      split; [apply dec_at_set_cb; exact Hat'|].
      cbn [load_br id_dec set_cb d_stream_pos d_stream_length] in Hp', Hl'.
      rewrite Hp', Hl', Hp, Hl, nlen_app.
      pose proof (firstn_skipn_N 64 todo) as Efs. apply (f_equal nlen) in Efs. rewrite nlen_app in Efs. lia.
  Qed.

  Lemma run_null cur tail : forall n todo r done, nlen todo <= N.of_nat n -> rd_at r cur done todo tail ->
    exists chunks r2, dd_run junk None r check_fs chunks r2 check_fs /\ concat chunks = todo /\
      (length chunks <= n)%nat /\ rd_at r2 cur (done ++ todo) [] tail /\
      rd_curr r2 = rd_curr r /\ rd_type r2 = rd_type r.
  Proof.
    induction n as [|n IH]; intros todo r done Hn Hat.
    - assert (todo = []) by (apply nlen_zero_nil; lia). subst todo.
      destruct (reader_read_null r cur done [] tail Hat) as (ev & r' & E & Hat' & Hc & Ht).
      rewrite firstn_N_nil in E. rewrite firstn_N_nil, skipn_N_nil in Hat'.
      exists [], r'. split; [eapply dd_last; exact E|]. split; [reflexivity|]. split; [apply le_n|]. auto.
    - destruct (reader_read_null r cur done todo tail Hat) as (ev & r' & E & Hat' & Hc & Ht).
      destruct (firstn_N 64 todo) as [|x xs] eqn:Ef.
      + assert (todo = []).
        { destruct todo as [|q qs]; [reflexivity|]. pose proof (nlen_firstn_N 64 (q :: qs)) as Hl.
          rewrite Ef, nlen_nil, nlen_cons in Hl. lia. }
        subst todo. rewrite skipn_N_nil in Hat'.
        exists [], r'. split; [eapply dd_last; exact E|]. split; [reflexivity|]. split; [cbn; lia|]. auto.
      + destruct (IH (skipn_N 64 todo) r' (done ++ x :: xs)) as (chunks & r2 & Hrun & Hcat & Hlen & Hat2 & Hc2 & Ht2).
        * rewrite nlen_skipn_N. pose proof (nlen_firstn_N 64 todo) as Hl. rewrite Ef, nlen_cons in Hl. lia.
        * exact Hat'.
        * exists ((x :: xs) :: chunks), r2. split; [eapply dd_more; [discriminate|exact E|exact Hrun]|].
          split; [cbn [concat]; rewrite Hcat, <- Ef; apply firstn_skipn_N|].
          split; [cbn [length]; lia|].
          split; [|split; congruence].
          rewrite <- app_assoc, <- Ef, firstn_skipn_N in Hat2. exact Hat2.
  Qed.

  Lemma decoder_for_lh0 :
    lha_decoder_for_name lh0 = Some {| dt_init := Ok (DS_null tt); dt_max_read := 1024; dt_block_size := 2048 |}.
  Proof. vm_compute. reflexivity. Qed.

  Lemma open_stored r h bs tail :
    rd_type r = CT_NORMAL -> rd_curr r = Some h -> br_at (rd_br r) (Some h) bs tail ->
    cstr (h_method h) = lh0 -> (h_os_type h =? OS_TYPE_MACOS) = false -> h_length h = nlen bs ->
    exists ev r1, open_decoder junk r true = Ok (true, ev, r1) /\ rd_at r1 (Some h) [] bs tail.
  Proof.
    intros Hty Hcur Hbr Hmeth Hos Hlen. pose proof Hbr as (Hbc & _).
    unfold open_decoder. rewrite Hty. unfold lha_basic_reader_decode. rewrite Hbc, Hmeth, decoder_for_lh0.
    cbn [dt_init dt_max_read dt_block_size bind]. rewrite Hcur, Hos.
    unfold lha_decoder_monitor, check_progress. cbv beta iota zeta.
    eexists. eexists. split; [reflexivity|].
    eexists. cbn [set_decoders rd_decoder rd_inner rd_br]. split; [reflexivity|]. split; [reflexivity|].
    cbn [with_dec id_max_read id_dec id_block_size load_br set_cb lha_decoder_new d_inner d_cb d_outbuf d_stream_pos d_stream_length
         d_failed d_crc d_monitor d_last_block d_total_blocks].
    split; [reflexivity|]. split; [|split; [reflexivity|rewrite Hlen, nlen_nil; lia]].
    unfold dec_at. cbn [d_inner d_outbuf d_cb d_failed]. split; [reflexivity|]. split; [|discriminate].
    exists bs. split; [reflexivity|exact Hbr].
  Qed.

  (* the hypothesis of the tree theorem for a stored member *)
  Theorem stored_member_ok r h bs tail :
    rd_type r = CT_NORMAL -> rd_curr r = Some h -> br_at (rd_br r) (Some h) bs tail ->
    cstr (h_method h) = lh0 -> (h_os_type h =? OS_TYPE_MACOS) = false ->
    h_length h = nlen bs -> lha_crc16_buf 0 bs = h_crc h -> nlen bs < 2 ^ 60 ->
    exists r2, member_ok junk r h bs r2 /\ br_at (rd_br r2) (Some h) [] tail.
  Proof.
    intros Hty Hcur Hbr Hmeth Hos Hlen Hcrc Hsz.
    destruct (open_stored r h bs tail Hty Hcur Hbr Hmeth Hos Hlen) as (ev1 & r1 & Hop & Hat1).
    destruct (run_null (Some h) tail (N.to_nat (nlen bs)) bs r1 [] ltac:(lia) Hat1)
      as (chunks & r2 & Hrun & Hcat & Hlenc & Hat2 & _ & _).
    exists r2. split.
    - exists ev1, r1, chunks. split; [exact Hop|]. split; [exact Hrun|]. split; [exact Hcat|].
      split; [apply verdict_true; split; [symmetry; exact Hlen|exact Hcrc]|].
      assert (2 ^ 60 < 2 ^ 64) by (apply N.pow_lt_mono_r; lia). lia.
    - destruct Hat2 as (d & Hd & _ & _ & (_ & (rest & Ht & Hb) & _) & _).
      cbn [load_br id_dec set_cb d_outbuf d_cb] in Ht, Hb.
      symmetry in Ht. apply app_eq_nil in Ht. destruct Ht as [_ ->]. exact Hb.
  Qed.
End Member.

Print Assumptions stored_member_ok.

(* FsRun.v -- the operation language of the differential test of Fs.v against
   the real kernel (harness/c/drv_fs.c, harness/py/test_fs.py): the
   lha_arch_unix.c functions composed from the Fs.v primitives exactly as the
   C composes the system calls, an interpreter for sequences of them, the
   initial tree that the C driver builds, and a canonical dump of a tree. *)
From Lhasa Require Import Base Fs.
Local Open Scope N_scope.

(* ---- lib/lha_arch_unix.c over Fs ---- *)

Definition arch_mkdir (s : fs) (path : list N) (unix_perms : N) : bool * fs :=
  fs_mkdir s path unix_perms.

Definition arch_exists (s : fs) (filename : list N) : ftype := fs_exists s filename.

(* lha_arch_fopen without the (ignored) fchown; unix_perms = None is the C's -1.
   Returns the handle of the open file. *)
Definition arch_fopen (s : fs) (filename : list N) (unix_perms : option N) : option phys * fs :=
  let '(_, s) := fs_unlink s filename in
  match fs_create_excl s filename 384 (* 0600 *) with
  | (None, s) => (None, s)
  | (Some h, s) =>
    match unix_perms with
    | None => (Some h, s)
    | Some m =>
      let '(ok, s) := fs_fchmod s h m in
      if ok then (Some h, s)
      else let '(_, s) := fs_remove s filename in (None, s)
    end
  end.

Definition arch_symlink (s : fs) (path target : list N) : bool * fs :=
  let '(_, s) := fs_unlink s path in
  fs_symlink s target path.

(* lstat(): not used by lhasa; it makes [resolve _ _ false] observable *)
Inductive lstat_res : Type := LS_NONE | LS_FILE | LS_DIRECTORY | LS_LINK | LS_ERROR.
Definition fs_lstat (s : fs) (p : list N) : lstat_res :=
  match resolve s p false with
  | WOk _ _ None => LS_NONE
  | WOk _ _ (Some (Dir _ _ _ _)) => LS_DIRECTORY
  | WOk _ _ (Some (File _ _ _ _)) => LS_FILE
  | WOk _ _ (Some (Link _)) => LS_LINK
  | WRoot => LS_DIRECTORY
  | WDir _ => LS_DIRECTORY
  | WFail true => LS_NONE
  | WFail false => LS_ERROR
  end.

(* ---- operation sequences ---- *)

Inductive op : Type :=
| OMkdir (path : list N) (mode : N)
| OExists (path : list N)
| OLstat (path : list N)
| OUnlink (path : list N)
| OFopen (path : list N) (perms : option N) (data : list N)   (* fopen; fwrite; fclose *)
| OSymlink (path target : list N)
| OChmod (path : list N) (mode : N)
| OUtime (path : list N) (t : N)
| OChown (path : list N).                                      (* to some other user *)

Inductive result : Type :=
| RBool (ok : bool)
| RType (t : ftype)
| RLstat (t : lstat_res).

Definition run_op (o : op) (s : fs) : result * fs :=
  match o with
  | OMkdir p m => let '(b, s) := arch_mkdir s p m in (RBool b, s)
  | OExists p => (RType (arch_exists s p), s)
  | OLstat p => (RLstat (fs_lstat s p), s)
  | OUnlink p => let '(b, s) := fs_unlink s p in (RBool b, s)
  | OFopen p perms data =>
    match arch_fopen s p perms with
    | (None, s) => (RBool false, s)
    | (Some h, s) => (RBool true, fs_write s h data)
    end
  | OSymlink p t => let '(b, s) := arch_symlink s p t in (RBool b, s)
  | OChmod p m => let '(b, s) := fs_chmod s p m in (RBool b, s)
  | OUtime p t => let '(b, s) := fs_utime s p t in (RBool b, s)
  | OChown p => let '(b, s) := fs_chown s p in (RBool b, s)
  end.

Fixpoint run_ops (l : list op) (s : fs) : list result * fs :=
  match l with
  | [] => ([], s)
  | o :: r =>
    let '(x, s) := run_op o s in
    let '(xs, s) := run_ops r s in
    (x :: xs, s)
  end.

(* ---- the initial state built by drv_fs.c ---- *)

Definition bytes_root : name := [114; 111; 111; 116].                      (* "root" *)
Definition bytes_outside : name := [111; 117; 116; 115; 105; 100; 101].    (* "outside" *)
Definition bytes_foreign : name := [102; 111; 114; 101; 105; 103; 110].    (* "foreign" *)
Definition bytes_priv : name := [112; 114; 105; 118].                      (* "priv" *)

Definition fs_init_root : node :=
  Dir true 493 0                                      (* 0755, ours *)
    [ (bytes_root, Dir true 493 0 []);
      (bytes_outside, Dir true 493 0 [([102], File true 420 0 [111; 117; 116])]);   (* f = "out" *)
      (bytes_foreign, Dir false 1023 0                (* 1777, like /tmp, nothing in it is ours *)
         [ ([114; 102], File false 420 0 [114; 102]);                               (* rf 0644 *)
           ([114; 100], Dir false 493 0 [([103], File false 438 0 [103])]);         (* rd 0755 / g 0666 *)
           ([119; 119], Dir false 511 0 [([104], File false 420 0 [104])]);         (* ww 0777 / h 0644 *)
           (bytes_priv, Dir false 448 0 [([115], File false 420 0 [115])]) ]) ].    (* priv 0700 / s *)

Definition fs_init (uid0 : bool) : fs :=
  {| fs_root := fs_init_root; fs_cwd := [bytes_root]; fs_uid0 := uid0;
     fs_umask := 18 (* 022 *); fs_trace := [] |}.

(* ---- canonical dump: every node with its location, in preorder with the
   entries of a directory sorted bytewise by name ---- *)

Inductive dent : Type :=
| DDir (loc : phys) (perm mtime : N)
| DFile (loc : phys) (perm mtime : N) (data : list N)
| DLink (loc : phys) (target : list N).

Definition dent_loc (d : dent) : phys :=
  match d with DDir l _ _ => l | DFile l _ _ _ => l | DLink l _ => l end.

Fixpoint flatten (loc : phys) (n : node) : list dent :=
  match n with
  | Dir _ p t ents =>
    DDir loc p t ::
    (fix go (l : list (name * node)) : list dent :=
       match l with
       | [] => []
       | (k, v) :: r => flatten (loc ++ [k]) v ++ go r
       end) ents
  | File _ p t d => [DFile loc p t d]
  | Link tgt => [DLink loc tgt]
  end.

Fixpoint name_leb (a b : name) : bool :=
  match a, b with
  | [], _ => true
  | _ :: _, [] => false
  | x :: r, y :: s => if x <? y then true else if y <? x then false else name_leb r s
  end.

(* lexicographic on the components: a directory before its contents *)
Fixpoint phys_leb (a b : phys) : bool :=
  match a, b with
  | [], _ => true
  | _ :: _, [] => false
  | x :: r, y :: s => if name_eqb x y then phys_leb r s else name_leb x y
  end.

Fixpoint insert_dent (d : dent) (l : list dent) : list dent :=
  match l with
  | [] => [d]
  | e :: r => if phys_leb (dent_loc d) (dent_loc e) then d :: l else e :: insert_dent d r
  end.

Definition dump (s : fs) : list dent := fold_right insert_dent [] (flatten [] (fs_root s)).

(* one test case *)
Definition run_case (uid0 : bool) (l : list op) : list result * list dent :=
  let '(rs, s) := run_ops l (fs_init uid0) in (rs, dump s).

(* P_ReaderCheck.v -- C07: what the verdict of lha_reader_check / extract_file
   (Reader.v: do_decode) means.

   do_decode calls lha_reader_read(.., 64) until a read returns nothing and then
   compares lha_decoder_get_length / lha_decoder_get_crc of reader->inner_decoder
   with the header's length and CRC.  Proved here, for every run that returns
   (no totality is claimed: a run may end in Fault 1403 or OutOfFuel):

   * the length/CRC bookkeeping of one lha_decoder_read that returned (no
     hypothesis on the inner decoder: P_Decoder.read_spec needs it to be total);
   * [ireads d bs d']: d' is reached from the inner decoder d by calls of
     lha_decoder_read that returned the bytes bs in this order; position and
     CRC of d' are those of d advanced by bs;
   * [dd_run]: the chunks returned by the successive lha_reader_read(.., 64) of
     do_decode and the writes to the output file;
   * do_decode's verdict is  pos + |ibs| == length && crc16(crc, ibs) == crc  for the
     bytes ibs that reader->inner_decoder returned during the loop; for a plain
     member these are the bytes do_decode got; for a MacOS member (pass-through
     decoder) they are the inner stream, MacBinary header included. *)
From Lhasa Require Import Base ListN DecBase Loop Generated Crc16 P_Crc16 InputStream Header BasicReader
  AnyDecoder Decoder MacBinary Fs FsRun Reader P_Decoder.
From Coq Require Import ZifyBool ZifyN ZifyNat.
Local Open Scope N_scope.

(* ------------------------------------------------------------------ *)
(* One lha_decoder_read that returned, any inner decoder.               *)
Section DecGeneric.
  Context {cbs st : Type}.
  Variable dread : st -> cbs -> outcome (list N * st * cbs).
  Variable max_read block_size : N.

  Definition read_fin (s : @rl cbs st) : outcome (list N * list (N * N) * @decoder cbs st) :=
    let out := rev_append (rl_out_rev s) [] in
    let d1 := rl_d s in
    let d2 := {| d_inner := d_inner d1; d_cb := d_cb d1; d_outbuf := d_outbuf d1;
                 d_stream_pos := d_stream_pos d1 + rl_filled s;
                 d_stream_length := d_stream_length d1; d_failed := d_failed d1;
                 d_crc := lha_crc16_buf (d_crc d1) out;
                 d_monitor := d_monitor d1; d_last_block := d_last_block d1;
                 d_total_blocks := d_total_blocks d1 |} in
    if d_monitor d2 then
      let '(d3, ev) := check_progress block_size d2 in Ok (out, ev, d3)
    else Ok (out, [], d2).

  Lemma dec_read_unfold (d : @decoder cbs st) n :
    lha_decoder_read dread max_read block_size d n =
    (s <- loop (read_step dread max_read (clamp d n)) 64 {| rl_d := d; rl_out_rev := []; rl_filled := 0 |} ;; read_fin s).
  Proof. reflexivity. Qed.

  Lemma read_fin_ok s o ev d' : read_fin s = Ok (o, ev, d') ->
    o = rev (rl_out_rev s) /\
      d_stream_pos d' = d_stream_pos (rl_d s) + rl_filled s /\
      d_crc d' = lha_crc16_buf (d_crc (rl_d s)) o /\
      d_stream_length d' = d_stream_length (rl_d s) /\
      d_cb d' = d_cb (rl_d s) /\ d_inner d' = d_inner (rl_d s).
  Proof.
    unfold read_fin. cbv zeta. cbn [d_monitor]. rewrite <- !rev_alt. intros H.
    destruct (d_monitor (rl_d s)).
    - unfold check_progress in H. inversion H; subst; clear H. repeat split.
    - inversion H; subst; clear H. repeat split.
  Qed.

  Lemma dec_read_ok_pull (d : @decoder cbs st) n o ev d' :
    lha_decoder_read dread max_read block_size d n = Ok (o, ev, d') ->
    exists k d1, pull dread max_read k (clamp d n) d = Some (o, d1) /\
      d_stream_pos d' = d_stream_pos d1 + nlen o /\
      d_crc d' = lha_crc16_buf (d_crc d1) o /\
      d_stream_length d' = d_stream_length d1 /\
      d_cb d' = d_cb d1 /\ d_inner d' = d_inner d1.
  Proof.
    rewrite dec_read_unfold. intros H.
    destruct (loop (read_step dread max_read (clamp d n)) 64 {| rl_d := d; rl_out_rev := []; rl_filled := 0 |})
      as [s| |] eqn:El; cbn [bind] in H; try discriminate.
    apply loop_sound in El. destruct El as (k & Hl & _).
    apply loops_pull in Hl; [|cbn [rl_filled]; lia].
    destruct Hl as (o1 & P & Eo & Ef). cbn [rl_d rl_out_rev rl_filled] in P, Eo, Ef.
    rewrite N.sub_0_r in P. rewrite app_nil_r in Eo. rewrite N.add_0_l in Ef.
    apply read_fin_ok in H. destruct H as (Ho & Hp & Hc & Hl & Hcb & Hi).
    rewrite Eo, rev_involutive in Ho. subst o1.
    exists (S k), (rl_d s). rewrite Ef in Hp. auto 10.
  Qed.

  (* position, CRC and declared length after a read that returned *)
  Lemma dec_read_ok_len_crc (d : @decoder cbs st) n o ev d' :
    lha_decoder_read dread max_read block_size d n = Ok (o, ev, d') ->
    d_stream_pos d' = d_stream_pos d + nlen o /\
    d_crc d' = lha_crc16_buf (d_crc d) o /\
    d_stream_length d' = d_stream_length d.
  Proof.
    intros H. apply dec_read_ok_pull in H.
    destruct H as (k & d1 & P & Hp & Hc & Hl & _).
    apply pull_passengers in P. destruct P as (Pp & Pl & Pc & _).
    rewrite Hp, Hc, Hl, Pp, Pl, Pc. repeat split.
  Qed.

  (* a property of the callback state that every call of the inner decoder
     preserves (reflexive, transitive) holds across a read *)
  Variable R : cbs -> cbs -> Prop.
  Hypothesis R_refl : forall c, R c c.
  Hypothesis R_trans : forall a b c, R a b -> R b c -> R a c.
  Hypothesis R_dread : forall s c ch s' c', dread s c = Ok (ch, s', c') -> R c c'.

  Lemma pull_cb_rel k : forall w (d : @decoder cbs st) o d',
    pull dread max_read k w d = Some (o, d') -> R (d_cb d) (d_cb d').
  Proof.
    induction k as [|k IH]; intros w d o d' H.
    - simpl in H. destruct (w =? 0); inversion H; subst. apply R_refl.
    - rewrite pull_S in H. cbv zeta in H.
      destruct (w =? 0); [inversion H; subst; apply R_refl|].
      destruct (d_failed d); [inversion H; subst; apply R_refl|].
      destruct (skipn_N w (d_outbuf d)) as [|y ys].
      + destruct (dread (d_inner d) (d_cb d)) as [[[chunk inner'] c']| |] eqn:Ed; try discriminate.
        apply R_dread in Ed.
        destruct (max_read <? nlen chunk); [discriminate|].
        destruct chunk as [|z zs]; [inversion H; subst; exact Ed|].
        destruct (pull dread max_read k _ _) as [[o1 d1]|] eqn:Ep; [|discriminate]. inversion H; subst.
        apply IH in Ep. cbn [set_buf d_cb] in Ep. eapply R_trans; eauto.
      + destruct (pull dread max_read k _ _) as [[o1 d1]|] eqn:Ep; [|discriminate]. inversion H; subst.
        apply IH in Ep. exact Ep.
  Qed.

  Lemma dec_read_cb_rel (d : @decoder cbs st) n o ev d' :
    lha_decoder_read dread max_read block_size d n = Ok (o, ev, d') -> R (d_cb d) (d_cb d').
  Proof.
    intros H. apply dec_read_ok_pull in H.
    destruct H as (k & d1 & P & _ & _ & _ & Hcb & _).
    rewrite Hcb. eapply pull_cb_rel; eauto.
  Qed.
End DecGeneric.

(* ------------------------------------------------------------------ *)
(* The inner decoder (one of the decoders[] types over the basic reader) *)
Section InnerReads.
  Variable junk : N.

  Definition ipos (d : idec) : N := lha_decoder_get_length (id_dec d).
  Definition icrc (d : idec) : N := lha_decoder_get_crc (id_dec d).

  (* d' is reached from d by calls lha_decoder_read(d, ..) -- any sizes -- that
     returned, in this order, the bytes bs.  Between calls the decoder's
     callback data (the basic reader it reads from) may be stored again: the
     reader does that before every use ([load_br]). *)
  Inductive ireads : idec -> list N -> idec -> Prop :=
  | ir_refl d : ireads d [] d
  | ir_read d n o ev d1 bs d2 :
      inner_read junk d n = Ok (o, ev, d1) -> ireads d1 bs d2 -> ireads d (o ++ bs) d2
  | ir_load d b bs d2 : ireads (load_br d b) bs d2 -> ireads d bs d2.

  Lemma inner_read_len_crc d n o ev d' : inner_read junk d n = Ok (o, ev, d') ->
    ipos d' = ipos d + nlen o /\ icrc d' = lha_crc16_buf (icrc d) o.
  Proof.
    unfold inner_read. intros H.
    destruct (lha_decoder_read _ _ _ (id_dec d) n) as [[[o1 ev1] d1]| |] eqn:E; cbn [bind] in H; try discriminate.
    inversion H; subst; clear H.
    apply dec_read_ok_len_crc in E. destruct E as (Hp & Hc & _).
    unfold ipos, icrc, lha_decoder_get_length, lha_decoder_get_crc. cbn [with_dec id_dec]. auto.
  Qed.

  (* length and CRC reported by the decoder are those of the bytes it returned *)
  Theorem ireads_len_crc d bs d' : ireads d bs d' ->
    ipos d' = ipos d + nlen bs /\ icrc d' = lha_crc16_buf (icrc d) bs.
  Proof.
    induction 1 as [d|d n o ev d1 bs d2 Hr _ IH|d b bs d2 _ IH].
    - unfold nlen; cbn [length]. split; [lia|reflexivity].
    - apply inner_read_len_crc in Hr. destruct Hr as [Hp Hc]. destruct IH as [IHp IHc].
      rewrite nlen_app, crc16_split_proof, IHp, IHc, Hp, Hc. split; [lia|reflexivity].
    - exact IH.
  Qed.

  Lemma ireads_app a x b : ireads a x b -> forall y c, ireads b y c -> ireads a (x ++ y) c.
  Proof.
    induction 1 as [d|d n o ev d1 bs d2 Hr _ IH|d b bs d2 _ IH]; intros y c Hy.
    - exact Hy.
    - rewrite <- app_assoc. eapply ir_read; [exact Hr|]. apply IH. exact Hy.
    - eapply ir_load. apply IH. exact Hy.
  Qed.

  Lemma ireads_one d n o ev d1 : inner_read junk d n = Ok (o, ev, d1) -> ireads d o d1.
  Proof. intros H. rewrite <- (app_nil_r o). eapply ir_read; [exact H|constructor]. Qed.

  (* ---- the MacBinary pass-through decoder: every entry point only advances the
     inner decoder by reads ---- *)
  Definition wreads (w w' : mb_world) : Prop := exists bs, ireads (mw_dec w) bs (mw_dec w').

  Lemma wreads_refl w : wreads w w.
  Proof. exists []. constructor. Qed.

  Lemma wreads_trans a b c : wreads a b -> wreads b c -> wreads a c.
  Proof. intros [x Hx] [y Hy]. exists (x ++ y). eapply ireads_app; eauto. Qed.

  (* read_macbinary_header: the header bytes are what the inner decoder returned *)
  Lemma rmh_loops n : forall s r, loops (rmh_step junk) n s r ->
    exists bs, ireads (mw_dec (fst s)) bs (mw_dec (snd (fst r))) /\ snd r = snd s ++ bs.
  Proof.
    induction n as [|n IH]; intros s r Hl; inversion Hl; subst.
    - match goal with E : rmh_step junk s = Ok (inr r) |- _ => rename E into Es end.
      destruct s as [w got]. unfold rmh_step in Es.
      destruct (nlen got <? mb_MBHDR_SIZE).
      + destruct (inner_read junk (mw_dec w) (mb_MBHDR_SIZE - nlen got)) as [[[o ev] d1]| |] eqn:E;
          cbn [bind] in Es; try discriminate.
        destruct o as [|x xs]; [|discriminate]. inversion Es; subst; clear Es.
        exists []. cbn [fst snd mw_dec]. split; [|now rewrite app_nil_r].
        apply ireads_one in E. exact E.
      + inversion Es; subst; clear Es. exists []. cbn [fst snd]. split; [constructor|now rewrite app_nil_r].
    - match goal with E : rmh_step junk s = Ok (inl ?x) |- _ => rename E into Es; rename x into s1 end.
      match goal with L : loops _ n s1 r |- _ => rename L into Hl1 end.
      destruct s as [w got]. unfold rmh_step in Es.
      destruct (nlen got <? mb_MBHDR_SIZE); [|discriminate].
      destruct (inner_read junk (mw_dec w) (mb_MBHDR_SIZE - nlen got)) as [[[o ev] d1]| |] eqn:E;
        cbn [bind] in Es; try discriminate.
      destruct o as [|x xs]; [discriminate|]. inversion Es; subst; clear Es.
      apply IH in Hl1. destruct Hl1 as (bs & Hi & Hg). cbn [fst snd mw_dec] in *.
      exists ((x :: xs) ++ bs). split; [|rewrite Hg, app_assoc; reflexivity].
      eapply ir_read; eauto.
  Qed.

  Lemma macbinary_init_wreads w h ms w' : macbinary_init junk w h = Ok (ms, w') -> wreads w w'.
  Proof.
    unfold macbinary_init. intros H.
    destruct (h_length h <? mb_MBHDR_SIZE); [inversion H; subst; apply wreads_refl|].
    destruct (loop (rmh_step junk) 10 (w, [])) as [[[ok w1] got]| |] eqn:El; cbn [bind] in H; try discriminate.
    apply loop_sound in El. destruct El as (n & Hl & _).
    apply rmh_loops in Hl. destruct Hl as (bs & Hi & _). cbn [fst snd] in Hi.
    assert (Hw : wreads w w1) by (exists bs; exact Hi).
    destruct ok; cbn [negb] in H; [|inversion H; subst; exact Hw].
    destruct (mb_header_extent <? nlen got); [discriminate|].
    destruct (is_macbinary_header got h) as [b| |]; cbn [bind] in H; try discriminate.
    destruct b; cbn [negb] in H; [|inversion H; subst; exact Hw].
    destruct (be32 1312 got mb_MBHDR_OFF_DATA_FORK_LEN) as [dfl| |]; cbn [bind] in H; try discriminate.
    destruct (be32 1313 got mb_MBHDR_OFF_RES_FORK_LEN) as [rfl| |]; cbn [bind] in H; try discriminate.
    inversion H; subst; exact Hw.
  Qed.

  Lemma dte_step_eq w : dte_step junk w =
    ('(o, ev, d') <- inner_read junk (mw_dec w) 128 ;;
     let w' := {| mw_dec := d'; mw_ev := mw_ev w ++ ev |} in
     match o with [] => Ok (inr w') | _ => Ok (inl w') end).
  Proof. reflexivity. Qed.

  Lemma dte_loops n : forall w w', loops (dte_step junk) n w w' -> wreads w w'.
  Proof.
    induction n as [|n IH]; intros w w' Hl; inversion Hl; subst.
    - match goal with E : dte_step junk w = Ok (inr w') |- _ => rename E into Es end.
      rewrite dte_step_eq in Es.
      destruct (inner_read junk (mw_dec w) 128) as [[[o ev] d1]| |] eqn:E; cbn [bind] in Es; try discriminate.
      apply ireads_one in E.
      destruct o; inversion Es; subst; clear Es. eexists; cbn [mw_dec]; exact E.
    - match goal with E : dte_step junk w = Ok (inl ?x) |- _ => rename E into Es; rename x into w1 end.
      match goal with L : loops _ n w1 w' |- _ => rename L into Hl1 end.
      rewrite dte_step_eq in Es.
      destruct (inner_read junk (mw_dec w) 128) as [[[o ev] d1]| |] eqn:E; cbn [bind] in Es; try discriminate.
      apply ireads_one in E.
      destruct o; inversion Es; subst; clear Es.
      eapply wreads_trans; [|apply IH; exact Hl1]. eexists; cbn [mw_dec]; exact E.
  Qed.

  Lemma macbinary_read_wreads s w o s' w' : macbinary_read junk s w = Ok (o, s', w') -> wreads w w'.
  Proof.
    unfold macbinary_read. cbv zeta. intros H.
    destruct (mb_OUTPUT_BUFFER_SIZE <? _); [discriminate|].
    match type of H with context [inner_read junk (mw_dec w) ?n] =>
      destruct (inner_read junk (mw_dec w) n) as [[[o1 ev] d1]| |] eqn:E end; cbn [bind] in H; try discriminate.
    apply ireads_one in E.
    assert (Hw : wreads w {| mw_dec := d1; mw_ev := mw_ev w ++ ev |}) by (eexists; cbn [mw_dec]; exact E).
    destruct (mb_remaining s - nlen o1 =? 0).
    - destruct (loop (dte_step junk) 64 _) as [w2| |] eqn:El; cbn [bind] in H; try discriminate.
      inversion H; subst; clear H.
      apply loop_sound in El. destruct El as (n & Hl & _). apply dte_loops in Hl.
      eapply wreads_trans; eauto.
    - inversion H; subst; exact Hw.
  Qed.

  (* lha_decoder_read on the pass-through decoder *)
  Lemma outer_read_wreads (o : odec) n out ev o' :
    lha_decoder_read (macbinary_read junk) macbinary_max_read macbinary_block_size o n = Ok (out, ev, o') ->
    wreads (d_cb o) (d_cb o').
  Proof.
    apply (dec_read_cb_rel (macbinary_read junk) macbinary_max_read macbinary_block_size wreads
             wreads_refl wreads_trans).
    intros s c ch s' c' H. eapply macbinary_read_wreads; eauto.
  Qed.
End InnerReads.

(* ------------------------------------------------------------------ *)
(* The reader                                                          *)
Section ReaderCheck.
  Variable junk : N.

  Notation ireads := (ireads junk).

  (* the object reader->inner_decoder points to *)
  Definition inner_of (r : reader) : option idec :=
    match rd_inner r with
    | IR_null => None
    | IR_own d => Some d
    | IR_same =>
      match rd_decoder r with
      | Some (DO_plain d) => Some d
      | Some (DO_mac o) => Some (mw_dec (d_cb o))
      | None => None
      end
    end.

  Lemma inner_len_crc_of r :
    inner_len_crc r = match inner_of r with Some d => Some (ipos d, icrc d) | None => None end.
  Proof.
    unfold inner_len_crc, inner_of. destruct (rd_inner r); try reflexivity.
    destruct (rd_decoder r) as [[d|o]|]; reflexivity.
  Qed.

  Definition is_plain (x : dec_obj) : Prop := match x with DO_plain _ => True | DO_mac _ => False end.

  Lemma decoder_read_eq r n : decoder_read junk r n =
    match rd_decoder r with
    | Some (DO_plain d) =>
      '(o, ev, d') <- inner_read junk (load_br d (rd_br r)) n ;;
      Ok (o, ev, set_decoders r (idec_br d') (Some (DO_plain d')) (rd_inner r))
    | Some (DO_mac o) =>
      let w := {| mw_dec := load_br (mw_dec (d_cb o)) (rd_br r); mw_ev := [] |} in
      '(out, _, o') <- lha_decoder_read (macbinary_read junk) macbinary_max_read macbinary_block_size (set_world o w) n ;;
      Ok (out, mw_ev (d_cb o'), set_decoders r (idec_br (mw_dec (d_cb o'))) (Some (DO_mac o')) (rd_inner r))
    | None => Fault 1412
    end.
  Proof. reflexivity. Qed.

  Lemma reader_read_open r n x : rd_decoder r = Some x -> lha_reader_read junk r n = decoder_read junk r n.
  Proof. intros H. unfold lha_reader_read. rewrite H. reflexivity. Qed.

  (* one lha_reader_read with a decoder open and reader->inner_decoder inside it *)
  Lemma reader_read_step r n x o ev r' :
    rd_decoder r = Some x -> rd_inner r = IR_same -> lha_reader_read junk r n = Ok (o, ev, r') ->
    rd_inner r' = IR_same /\ rd_curr r' = rd_curr r /\ rd_type r' = rd_type r /\
    exists x' d d' ibs, rd_decoder r' = Some x' /\ (is_plain x -> is_plain x') /\
      inner_of r = Some d /\ inner_of r' = Some d' /\ ireads d ibs d' /\ (is_plain x -> ibs = o).
  Proof.
    intros Hdec Hin H. rewrite (reader_read_open r n x Hdec), decoder_read_eq, Hdec in H.
    destruct x as [d|od].
    - destruct (inner_read junk (load_br d (rd_br r)) n) as [[[o1 ev1] d1]| |] eqn:E; cbn [bind] in H; try discriminate.
      inversion H; subst; clear H.
      unfold inner_of. cbn [set_decoders rd_inner rd_decoder rd_curr rd_type]. rewrite Hin, Hdec.
      repeat split.
      exists (DO_plain d1), d, d1, o. repeat split; auto.
      eapply ir_load. eapply ireads_one. exact E.
    - cbv zeta in H.
      destruct (lha_decoder_read (macbinary_read junk) macbinary_max_read macbinary_block_size _ n)
        as [[[o1 ev1] od1]| |] eqn:E; cbn [bind] in H; try discriminate.
      inversion H; subst; clear H.
      unfold inner_of. cbn [set_decoders rd_inner rd_decoder rd_curr rd_type]. rewrite Hin, Hdec.
      repeat split.
      apply outer_read_wreads in E. destruct E as [bs Hbs]. cbn [set_world d_cb mw_dec] in Hbs.
      exists (DO_mac od1), (mw_dec (d_cb od)), (mw_dec (d_cb od1)), bs.
      repeat split; auto; try (intros []; fail).
      eapply ir_load. exact Hbs.
  Qed.

  (* ---- the loop of do_decode ---- *)
  (* what fwrite(buf, 1, bytes, output) does to the filesystem *)
  Definition dd_write (out : option phys) (f : fs) (o : list N) : fs :=
    match out with Some h => fs_write f h o | None => f end.

  (* [dd_run out r f chunks r' f']: started with reader r and filesystem f, the
     successive lha_reader_read(reader, buf, 64) return the non-empty chunks
     [chunks], each written to [out], then an empty one; r', f' are the final
     reader and filesystem. *)
  Inductive dd_run (out : option phys) : reader -> fs -> list (list N) -> reader -> fs -> Prop :=
  | dd_last r f ev r' : lha_reader_read junk r 64 = Ok ([], ev, r') -> dd_run out r f [] r' f
  | dd_more r f o ev r1 chunks r' f' :
      o <> [] -> lha_reader_read junk r 64 = Ok (o, ev, r1) ->
      dd_run out r1 (dd_write out f o) chunks r' f' -> dd_run out r f (o :: chunks) r' f'.

  Lemma dd_step_eq out r f evs : dd_step junk out (r, f, evs) =
    ('(o, ev, r') <- lha_reader_read junk r 64 ;;
     let f' := match out with Some h => (match o with [] => f | _ => fs_write f h o end) | None => f end in
     match o with
     | [] => Ok (inr (r', f', evs ++ ev))
     | _ => Ok (inl (r', f', evs ++ ev))
     end).
  Proof. reflexivity. Qed.

  Lemma dd_loops out n : forall s s', loops (dd_step junk out) n s s' ->
    exists chunks, dd_run out (fst (fst s)) (snd (fst s)) chunks (fst (fst s')) (snd (fst s')).
  Proof.
    induction n as [|n IH]; intros s s' Hl; inversion Hl; subst.
    - match goal with E : dd_step junk out s = Ok (inr s') |- _ => rename E into Es end.
      destruct s as [[r f] evs]. rewrite dd_step_eq in Es.
      destruct (lha_reader_read junk r 64) as [[[o ev] r1]| |] eqn:E; cbn [bind] in Es; try discriminate.
      cbv zeta in Es. destruct o as [|b o]; [|discriminate].
      inversion Es; subst; clear Es. cbn [fst snd].
      exists []. destruct out; econstructor; exact E.
    - match goal with E : dd_step junk out s = Ok (inl ?x) |- _ => rename E into Es; rename x into s1 end.
      match goal with L : loops _ n s1 s' |- _ => rename L into Hl1 end.
      destruct s as [[r f] evs]. rewrite dd_step_eq in Es.
      destruct (lha_reader_read junk r 64) as [[[o ev] r1]| |] eqn:E; cbn [bind] in Es; try discriminate.
      cbv zeta in Es. destruct o as [|b o]; [discriminate|].
      inversion Es; subst; clear Es.
      apply IH in Hl1. destruct Hl1 as [chunks Hc]. cbn [fst snd] in *.
      exists ((b :: o) :: chunks). eapply dd_more; [discriminate|exact E|].
      destruct out; exact Hc.
  Qed.

  (* the run is determined by the starting state *)
  Lemma dd_run_det out r f c1 r1 f1 : dd_run out r f c1 r1 f1 ->
    forall c2 r2 f2, dd_run out r f c2 r2 f2 -> c1 = c2 /\ r1 = r2 /\ f1 = f2.
  Proof.
    induction 1 as [r f ev r' E|r f o ev ra chunks r' f' Hne E _ IH]; intros c2 r2 f2 H2;
      inversion H2; subst.
    - match goal with A : lha_reader_read junk r 64 = Ok ([], _, _) |- _ => rewrite E in A; inversion A; subst end.
      auto.
    - match goal with A : lha_reader_read junk r 64 = Ok (?o, _, _), B : ?o <> [] |- _ =>
        rewrite E in A; inversion A; subst; contradiction B; reflexivity end.
    - match goal with A : lha_reader_read junk r 64 = Ok ([], _, _) |- _ =>
        rewrite E in A; inversion A; subst; contradiction Hne; reflexivity end.
    - match goal with A : lha_reader_read junk r 64 = Ok (_, _, _) |- _ => rewrite E in A; inversion A; subst end.
      match goal with A : dd_run out _ _ _ r2 f2 |- _ => apply IH in A; destruct A as (-> & -> & ->) end.
      auto.
  Qed.

  (* the output file receives exactly the chunks, in order; nothing else is done
     to the filesystem *)
  Lemma dd_run_writes out r f chunks r' f' : dd_run out r f chunks r' f' ->
    f' = fold_left (dd_write out) chunks f /\ Forall (fun o => o <> []) chunks.
  Proof.
    induction 1 as [r f ev r' E|r f o ev ra chunks r' f' Hne E _ IH].
    - split; [reflexivity|constructor].
    - destruct IH as [IHf IHn]. cbn [fold_left]. split; [exact IHf|constructor; assumption].
  Qed.

  Lemma dd_run_inner out r f chunks r' f' : dd_run out r f chunks r' f' ->
    forall x d, rd_decoder r = Some x -> rd_inner r = IR_same -> inner_of r = Some d ->
    rd_inner r' = IR_same /\ rd_curr r' = rd_curr r /\ rd_type r' = rd_type r /\
    exists d' ibs, inner_of r' = Some d' /\ ireads d ibs d' /\ (is_plain x -> ibs = concat chunks).
  Proof.
    induction 1 as [r f ev r' E|r f o ev ra chunks r' f' Hne E _ IH]; intros x d Hdec Hin Hof.
    - destruct (reader_read_step r 64 x [] ev r' Hdec Hin E)
        as (Hin' & Hc & Ht & x' & d0 & d' & ibs & Hdec' & Hpl & Hof0 & Hof' & Hi & Hb).
      rewrite Hof in Hof0. inversion Hof0; subst d0.
      repeat split; auto. exists d', ibs. auto.
    - destruct (reader_read_step r 64 x o ev ra Hdec Hin E)
        as (Hin' & Hc & Ht & x' & d0 & d1 & ibs & Hdec' & Hpl & Hof0 & Hof' & Hi & Hb).
      rewrite Hof in Hof0. inversion Hof0; subst d0.
      destruct (IH x' d1 Hdec' Hin' Hof') as (Hin2 & Hc2 & Ht2 & d2 & ibs2 & Hof2 & Hi2 & Hb2).
      repeat split; try congruence.
      exists d2, (ibs ++ ibs2). split; [exact Hof2|]. split; [eapply ireads_app; eauto|].
      intros Hp. cbn [concat]. rewrite (Hb Hp), (Hb2 (Hpl Hp)). reflexivity.
  Qed.

  (* ---- do_decode ---- *)
  Lemma do_decode_eq r f out : do_decode junk r f out =
    ('(r1, f1, evs) <- loop (dd_step junk out) 64 (r, f, []) ;;
     match inner_len_crc r1, rd_curr r1 with
     | Some (len, crc), Some h => Ok ((len =? h_length h) && (crc =? h_crc h), evs, r1, f1)
     | _, _ => Fault 1403
     end).
  Proof. reflexivity. Qed.

  (* The verdict of do_decode, when it returns: [ibs] are the bytes that
     reader->inner_decoder returned during the loop; the verdict says that its
     position and CRC, advanced by them, are the header's. *)
  Theorem do_decode_verdict r f out res evs r' f' x d h :
    do_decode junk r f out = Ok (res, evs, r', f') ->
    rd_decoder r = Some x -> rd_inner r = IR_same -> inner_of r = Some d -> rd_curr r = Some h ->
    exists chunks d' ibs,
      dd_run out r f chunks r' f' /\ inner_of r' = Some d' /\ ireads d ibs d' /\
      (is_plain x -> ibs = concat chunks) /\
      res = ((ipos d + nlen ibs =? h_length h) && (lha_crc16_buf (icrc d) ibs =? h_crc h)).
  Proof.
    intros H Hdec Hin Hof Hcur. rewrite do_decode_eq in H.
    destruct (loop (dd_step junk out) 64 (r, f, [])) as [[[r1 f1] evs1]| |] eqn:El; cbn [bind] in H; try discriminate.
    apply loop_sound in El. destruct El as (n & Hl & _).
    apply dd_loops in Hl. destruct Hl as [chunks Hrun]. cbn [fst snd] in Hrun.
    destruct (dd_run_inner _ _ _ _ _ _ Hrun x d Hdec Hin Hof) as (Hin1 & Hc1 & _ & d' & ibs & Hof1 & Hi & Hb).
    rewrite inner_len_crc_of, Hof1, Hc1, Hcur in H. inversion H; subst; clear H.
    exists chunks, d', ibs. repeat split; auto.
    apply ireads_len_crc in Hi. destruct Hi as [-> ->]. reflexivity.
  Qed.

  (* ---- open_decoder ---- *)
  (* the decoder lha_basic_reader_decode creates for the current member, with
     the progress callback attached if one was given *)
  Definition fresh_inner (r : reader) (mon : bool) (d0 : idec) : Prop :=
    exists dd, lha_basic_reader_decode (rd_br r) = Ok (Some dd) /\
      d0 = if mon then with_dec dd (fst (lha_decoder_monitor (id_block_size dd) (id_dec dd))) else dd.

  Lemma basic_decode_fresh br dd : lha_basic_reader_decode br = Ok (Some dd) -> ipos dd = 0 /\ icrc dd = 0.
  Proof.
    unfold lha_basic_reader_decode. intros H.
    destruct (br_curr br) as [h|]; [|discriminate].
    destruct (lha_decoder_for_name (cstr (h_method h))) as [dt|]; [|discriminate].
    destruct (dt_init dt) as [s0| |]; cbn [bind] in H; try discriminate.
    inversion H; subst. split; reflexivity.
  Qed.

  Lemma fresh_inner_zero r mon d0 : fresh_inner r mon d0 -> ipos d0 = 0 /\ icrc d0 = 0.
  Proof.
    intros (dd & Hd & ->). apply basic_decode_fresh in Hd. destruct mon; [|exact Hd].
    exact Hd.
  Qed.

  Lemma open_decoder_ok r mon ev r1 h :
    open_decoder junk r mon = Ok (true, ev, r1) -> rd_curr r = Some h ->
    rd_type r = CT_NORMAL /\ rd_curr r1 = Some h /\ rd_inner r1 = IR_same /\
    exists d0 x d1 ibs0,
      fresh_inner r mon d0 /\ rd_decoder r1 = Some x /\ inner_of r1 = Some d1 /\ ireads d0 ibs0 d1 /\
      ((h_os_type h =? OS_TYPE_MACOS) = false -> is_plain x /\ ibs0 = [] /\ d1 = d0) /\
      ((h_os_type h =? OS_TYPE_MACOS) = true -> ~ is_plain x).
  Proof.
    intros H Hcur. unfold open_decoder in H.
    destruct (rd_type r) eqn:Et; try discriminate.
    destruct (lha_basic_reader_decode (rd_br r)) as [[dd|]| |] eqn:Ed; cbn [bind] in H; try discriminate.
    set (d0 := if mon then with_dec dd (fst (lha_decoder_monitor (id_block_size dd) (id_dec dd))) else dd).
    assert (Hfresh : fresh_inner r mon d0) by (exists dd; split; [exact Ed|reflexivity]).
    assert (Hd0 : exists e0, (if mon
                  then (let '(d', e) := lha_decoder_monitor (id_block_size dd) (id_dec dd) in (with_dec dd d', e))
                  else (dd, [])) = (d0, e0)).
    { subst d0. destruct mon; [|eexists; reflexivity].
      destruct (lha_decoder_monitor (id_block_size dd) (id_dec dd)) as [dm em]. eexists; reflexivity. }
    destruct Hd0 as [e0 Hd0]. rewrite Hd0 in H. clearbody d0. clear Hd0.
    rewrite Hcur in H.
    destruct (h_os_type h =? OS_TYPE_MACOS) eqn:Eos.
    - destruct (macbinary_init junk {| mw_dec := d0; mw_ev := [] |} h) as [[ms w]| |] eqn:Ei; cbn [bind] in H; try discriminate.
      destruct ms as [m|]; inversion H; subst; clear H.
      apply macbinary_init_wreads in Ei. destruct Ei as [bs Hbs]. cbn [mw_dec] in Hbs.
      unfold inner_of. cbn [set_decoders rd_curr rd_inner rd_decoder lha_decoder_new d_cb mw_dec].
      split; [reflexivity|]. split; [exact Hcur|]. split; [reflexivity|].
      eexists d0, _, _, bs. split; [exact Hfresh|]. split; [reflexivity|]. split; [reflexivity|].
      split; [exact Hbs|]. split; [discriminate|]. intros _ [].
    - inversion H; subst; clear H.
      unfold inner_of. cbn [set_decoders rd_curr rd_inner rd_decoder].
      split; [reflexivity|]. split; [exact Hcur|]. split; [reflexivity|].
      exists d0, (DO_plain d0), d0, []. split; [exact Hfresh|]. split; [reflexivity|]. split; [reflexivity|].
      split; [constructor|]. split; [intros _; repeat split|discriminate].
  Qed.

  (* ---- open_decoder followed by do_decode: what lha_reader_check and extract_file do ---- *)
  Definition verdict (h : header) (bs : list N) : bool :=
    (nlen bs =? h_length h) && (lha_crc16_buf 0 bs =? h_crc h).

  Lemma verdict_true h bs : verdict h bs = true <-> nlen bs = h_length h /\ lha_crc16_buf 0 bs = h_crc h.
  Proof. unfold verdict. rewrite Bool.andb_true_iff, !N.eqb_eq. reflexivity. Qed.

  Lemma verdict_false h bs : verdict h bs = false <-> nlen bs <> h_length h \/ lha_crc16_buf 0 bs <> h_crc h.
  Proof. unfold verdict. rewrite Bool.andb_false_iff, !N.eqb_neq. reflexivity. Qed.

  (* the CRC is CRC-16/ARC by its bitwise definition when the bytes are bytes *)
  Lemma verdict_arc h bs : Forall (fun b => b < 256) bs ->
    verdict h bs = (nlen bs =? h_length h) && (crc_bitwise 0 bs =? h_crc h).
  Proof. intros Hb. unfold verdict. rewrite crc16_is_arc_proof; [reflexivity|lia|exact Hb]. Qed.

  Lemma open_decode_verdict r mon ev1 r1 h f out res evs r' f' :
    open_decoder junk r mon = Ok (true, ev1, r1) -> rd_curr r = Some h ->
    do_decode junk r1 f out = Ok (res, evs, r', f') ->
    exists d0 ibs dfin chunks,
      fresh_inner r mon d0 /\ ireads d0 ibs dfin /\ inner_of r' = Some dfin /\
      dd_run out r1 f chunks r' f' /\
      ((h_os_type h =? OS_TYPE_MACOS) = false -> ibs = concat chunks) /\
      res = verdict h ibs.
  Proof.
    intros Hop Hcur Hdd.
    destruct (open_decoder_ok r mon ev1 r1 h Hop Hcur)
      as (_ & Hcur1 & Hin1 & d0 & x & d1 & ibs0 & Hfresh & Hdec1 & Hof1 & Hi0 & Hplain & _).
    destruct (do_decode_verdict r1 f out res evs r' f' x d1 h Hdd Hdec1 Hin1 Hof1 Hcur1)
      as (chunks & d' & ibs & Hrun & Hof' & Hi & Hb & Hres).
    exists d0, (ibs0 ++ ibs), d', chunks.
    split; [exact Hfresh|]. split; [eapply ireads_app; eauto|]. split; [exact Hof'|].
    split; [exact Hrun|]. split.
    - intros Hos. destruct (Hplain Hos) as (Hp & -> & _). cbn [app]. apply Hb. exact Hp.
    - destruct (fresh_inner_zero r mon d0 Hfresh) as [Hp0 Hc0].
      apply ireads_len_crc in Hi0. destruct Hi0 as [Hp1 Hc1].
      unfold verdict. rewrite Hres, Hp1, Hc1, Hp0, Hc0, nlen_app, crc16_split_proof, N.add_0_l. reflexivity.
  Qed.

  (* the empty filesystem lha_reader_check hands to do_decode (no output file) *)
  Definition check_fs : fs :=
    {| fs_root := Dir true 0 0 []; fs_cwd := []; fs_uid0 := false; fs_umask := 0; fs_trace := [] |}.

  Lemma check_eq r mon h : rd_type r = CT_NORMAL -> rd_curr r = Some h -> is_dir_method h = false ->
    lha_reader_check junk r mon =
    ('(ok, ev, r1) <- open_decoder junk r mon ;;
     if ok then
       '(res, ev2, r2, _) <- do_decode junk r1 check_fs None ;; Ok (res, ev ++ ev2, r2)
     else Ok (false, ev, r1)).
  Proof. intros Ht Hc Hd. unfold lha_reader_check. rewrite Ht, Hc, Hd. reflexivity. Qed.

  Lemma fold_write_none chunks : forall f, fold_left (dd_write None) chunks f = f.
  Proof. induction chunks as [|c cs IH]; intros f; [reflexivity|]. cbn [fold_left dd_write]. apply IH. Qed.

  (* lha_reader_check on a member that is not a directory / symbolic link entry,
     every kind of member (plain or MacOS) *)
  Theorem check_verdict r mon res ev r' h :
    lha_reader_check junk r mon = Ok (res, ev, r') ->
    rd_type r = CT_NORMAL -> rd_curr r = Some h -> is_dir_method h = false ->
    exists ok ev1 r1, open_decoder junk r mon = Ok (ok, ev1, r1) /\
      (ok = false -> res = false /\ r' = r1) /\
      (ok = true -> exists d0 ibs dfin chunks,
         fresh_inner r mon d0 /\ ireads d0 ibs dfin /\ inner_of r' = Some dfin /\
         dd_run None r1 check_fs chunks r' check_fs /\
         ((h_os_type h =? OS_TYPE_MACOS) = false -> ibs = concat chunks) /\
         res = verdict h ibs).
  Proof.
    intros H Ht Hcur Hdir. rewrite (check_eq r mon h Ht Hcur Hdir) in H.
    destruct (open_decoder junk r mon) as [[[ok ev1] r1]| |] eqn:Hop; cbn [bind] in H; try discriminate.
    exists ok, ev1, r1. split; [reflexivity|].
    destruct ok.
    - split; [discriminate|]. intros _.
      destruct (do_decode junk r1 check_fs None) as [[[[res2 ev2] r2] f2]| |] eqn:Hdd; cbn [bind] in H; try discriminate.
      inversion H; subst; clear H.
      destruct (open_decode_verdict _ _ _ _ _ _ _ _ _ _ _ Hop Hcur Hdd)
        as (d0 & ibs & dfin & chunks & A & B & C & D & E & F).
      exists d0, ibs, dfin, chunks. repeat split; auto.
      pose proof (dd_run_writes _ _ _ _ _ _ D) as [Hf _]. rewrite fold_write_none in Hf. subst f2. exact D.
    - split; [|discriminate]. intros _. inversion H; subst. auto.
  Qed.

  (* 1. reported good => the bytes do_decode read have the header's length and CRC *)
  Theorem check_good_implies_match r mon ev r' h :
    lha_reader_check junk r mon = Ok (true, ev, r') ->
    rd_type r = CT_NORMAL -> rd_curr r = Some h -> is_dir_method h = false ->
    (h_os_type h =? OS_TYPE_MACOS) = false ->
    exists ev1 r1 chunks,
      open_decoder junk r mon = Ok (true, ev1, r1) /\
      dd_run None r1 check_fs chunks r' check_fs /\
      let bs := concat chunks in
      nlen bs = h_length h /\ lha_crc16_buf 0 bs = h_crc h /\
      (Forall (fun b => b < 256) bs -> crc_bitwise 0 bs = h_crc h).
  Proof.
    intros H Ht Hcur Hdir Hos.
    destruct (check_verdict _ _ _ _ _ _ H Ht Hcur Hdir) as (ok & ev1 & r1 & Hop & Hfalse & Htrue).
    destruct ok; [|destruct (Hfalse eq_refl); discriminate].
    destruct (Htrue eq_refl) as (d0 & ibs & dfin & chunks & _ & _ & _ & Hrun & Hb & Hres).
    rewrite (Hb Hos) in Hres. symmetry in Hres. apply verdict_true in Hres. destruct Hres as [Hl Hc].
    exists ev1, r1, chunks. split; [exact Hop|]. split; [exact Hrun|]. cbv zeta.
    split; [exact Hl|]. split; [exact Hc|].
    intros Hby. rewrite <- Hc. symmetry. apply crc16_is_arc_proof; [lia|exact Hby].
  Qed.

  (* 2. the bytes do_decode reads do not have the header's length and CRC => reported bad;
     and no decoder => reported bad *)
  Theorem check_mismatch_implies_bad r mon res ev r' h ev1 r1 chunks r2 f2 :
    lha_reader_check junk r mon = Ok (res, ev, r') ->
    rd_type r = CT_NORMAL -> rd_curr r = Some h -> is_dir_method h = false ->
    (h_os_type h =? OS_TYPE_MACOS) = false ->
    open_decoder junk r mon = Ok (true, ev1, r1) ->
    dd_run None r1 check_fs chunks r2 f2 ->
    nlen (concat chunks) <> h_length h \/ lha_crc16_buf 0 (concat chunks) <> h_crc h ->
    res = false.
  Proof.
    intros H Ht Hcur Hdir Hos Hop Hrun Hbad.
    destruct (check_verdict _ _ _ _ _ _ H Ht Hcur Hdir) as (ok & ev1' & r1' & Hop' & _ & Htrue).
    rewrite Hop in Hop'. inversion Hop'; subst ok ev1' r1'; clear Hop'.
    destruct (Htrue eq_refl) as (d0 & ibs & dfin & chunks' & _ & _ & _ & Hrun' & Hb & Hres).
    destruct (dd_run_det _ _ _ _ _ _ Hrun _ _ _ Hrun') as (<- & _ & _).
    rewrite (Hb Hos) in Hres. rewrite Hres. apply verdict_false. exact Hbad.
  Qed.

  Corollary check_mismatch_implies_bad_arc r mon res ev r' h ev1 r1 chunks r2 f2 :
    lha_reader_check junk r mon = Ok (res, ev, r') ->
    rd_type r = CT_NORMAL -> rd_curr r = Some h -> is_dir_method h = false ->
    (h_os_type h =? OS_TYPE_MACOS) = false ->
    open_decoder junk r mon = Ok (true, ev1, r1) ->
    dd_run None r1 check_fs chunks r2 f2 ->
    Forall (fun b => b < 256) (concat chunks) ->
    nlen (concat chunks) <> h_length h \/ crc_bitwise 0 (concat chunks) <> h_crc h ->
    res = false.
  Proof.
    intros H Ht Hcur Hdir Hos Hop Hrun Hby Hbad.
    eapply check_mismatch_implies_bad; eauto.
    rewrite crc16_is_arc_proof; [exact Hbad|lia|exact Hby].
  Qed.

  Theorem check_no_decoder_is_bad r mon res ev r' h ev1 r1 :
    lha_reader_check junk r mon = Ok (res, ev, r') ->
    rd_type r = CT_NORMAL -> rd_curr r = Some h -> is_dir_method h = false ->
    open_decoder junk r mon = Ok (false, ev1, r1) -> res = false /\ r' = r1.
  Proof.
    intros H Ht Hcur Hdir Hop.
    destruct (check_verdict _ _ _ _ _ _ H Ht Hcur Hdir) as (ok & ev1' & r1' & Hop' & Hfalse & _).
    rewrite Hop in Hop'. inversion Hop'; subst. apply Hfalse. reflexivity.
  Qed.

  (* 4. MacOS members: the verdict is about the stream of the inner decoder *)
  Theorem check_good_implies_inner_match r mon ev r' h :
    lha_reader_check junk r mon = Ok (true, ev, r') ->
    rd_type r = CT_NORMAL -> rd_curr r = Some h -> is_dir_method h = false ->
    exists ev1 r1 d0 ibs dfin chunks,
      open_decoder junk r mon = Ok (true, ev1, r1) /\
      dd_run None r1 check_fs chunks r' check_fs /\           (* what the caller of lha_reader_read gets *)
      fresh_inner r mon d0 /\ ireads d0 ibs dfin /\ inner_of r' = Some dfin /\
      nlen ibs = h_length h /\ lha_crc16_buf 0 ibs = h_crc h /\
      (Forall (fun b => b < 256) ibs -> crc_bitwise 0 ibs = h_crc h).
  Proof.
    intros H Ht Hcur Hdir.
    destruct (check_verdict _ _ _ _ _ _ H Ht Hcur Hdir) as (ok & ev1 & r1 & Hop & Hfalse & Htrue).
    destruct ok; [|destruct (Hfalse eq_refl); discriminate].
    destruct (Htrue eq_refl) as (d0 & ibs & dfin & chunks & Hfr & Hi & Hof & Hrun & _ & Hres).
    symmetry in Hres. apply verdict_true in Hres. destruct Hres as [Hl Hc].
    exists ev1, r1, d0, ibs, dfin, chunks. repeat split; auto.
    intros Hby. rewrite <- Hc. symmetry. apply crc16_is_arc_proof; [lia|exact Hby].
  Qed.

  Theorem check_inner_mismatch_implies_bad r mon res ev r' h :
    lha_reader_check junk r mon = Ok (res, ev, r') ->
    rd_type r = CT_NORMAL -> rd_curr r = Some h -> is_dir_method h = false ->
    forall d0 ibs, fresh_inner r mon d0 -> ireads d0 ibs (match inner_of r' with Some d => d | None => d0 end) ->
    nlen ibs <> h_length h \/ lha_crc16_buf 0 ibs <> h_crc h -> res = false.
  Proof.
    intros H Ht Hcur Hdir d0 ibs Hfr Hi Hbad.
    destruct (check_verdict _ _ _ _ _ _ H Ht Hcur Hdir) as (ok & ev1 & r1 & Hop & Hfalse & Htrue).
    destruct ok; [|destruct (Hfalse eq_refl); assumption].
    destruct (Htrue eq_refl) as (d0' & ibs' & dfin & chunks & Hfr' & Hi' & Hof & _ & _ & Hres).
    rewrite Hof in Hi.
    assert (d0' = d0).
    { destruct Hfr as (dd & Hd & Ed). destruct Hfr' as (dd' & Hd' & Ed').
      rewrite Hd in Hd'. inversion Hd'; subst dd'. congruence. }
    subst d0'.
    destruct (fresh_inner_zero _ _ _ Hfr) as [Hp0 Hc0].
    apply ireads_len_crc in Hi. apply ireads_len_crc in Hi'.
    destruct Hi as [Hp Hc]. destruct Hi' as [Hp' Hc'].
    rewrite Hres. apply verdict_false.
    symmetry in Hres. destruct (verdict h ibs') eqn:Ev; [|apply verdict_false in Ev].
    - apply verdict_true in Ev. destruct Ev as [El Ec].
      rewrite Hp0, N.add_0_l in Hp, Hp'. rewrite Hc0 in Hc, Hc'.
      exfalso. destruct Hbad as [Hbad|Hbad]; apply Hbad; congruence.
    - exact Ev.
  Qed.

  (* ---- 3. extract_file ---- *)
  Definition ex_fname (h : header) (name : option (list N)) : list N :=
    match name with Some n => n | None => full_path h end.
  Definition ex_perms (h : header) : option N :=
    if have_extra h FILE_UNIX_PERMS then Some (h_unix_perms h) else None.

  Lemma extract_file_eq r f name mon h : rd_curr r = Some h ->
    extract_file junk r f name mon =
    ('(ok, ev, r1) <- open_decoder junk r mon ;;
     if negb ok then Ok (false, ev, r1, f) else
     match arch_fopen f (ex_fname h name) (ex_perms h) with
     | (None, f1) => Ok (false, ev, r1, f1)
     | (Some hd, f1) =>
       '(res, ev2, r2, f2) <- do_decode junk r1 f1 (Some hd) ;;
       let f3 := if res then snd (set_timestamps_from_header f2 (ex_fname h name) h) else f2 in
       Ok (res, ev ++ ev2, r2, f3)
     end).
  Proof. intros Hc. unfold extract_file. rewrite Hc. reflexivity. Qed.

  Lemma reader_extract_regular r f name mon h :
    rd_type r = CT_NORMAL -> rd_curr r = Some h -> is_dir_method h = false ->
    lha_reader_extract junk r f name mon = extract_file junk r f name mon.
  Proof. intros Ht Hc Hd. unfold lha_reader_extract. rewrite Ht, Hc, Hd. reflexivity. Qed.

  (* the writes of do_decode to the open file, as one expression *)
  Definition write_chunks (hd : phys) (chunks : list (list N)) (f : fs) : fs :=
    fold_left (fun s o => fs_write s hd o) chunks f.

  Lemma write_chunks_trace hd chunks : forall f,
    fs_trace (write_chunks hd chunks f) = rev (map (fun o => OpWrite hd (nlen o)) chunks) ++ fs_trace f.
  Proof.
    unfold write_chunks. induction chunks as [|c cs IH]; intros f; [reflexivity|].
    cbn [fold_left map rev]. rewrite IH. rewrite <- app_assoc. reflexivity.
  Qed.

  Theorem extract_file_verdict r f name mon res ev r' f' h :
    extract_file junk r f name mon = Ok (res, ev, r', f') -> rd_curr r = Some h ->
    exists ok ev1 r1, open_decoder junk r mon = Ok (ok, ev1, r1) /\
      (ok = false -> res = false /\ r' = r1 /\ f' = f) /\
      (ok = true ->
         match arch_fopen f (ex_fname h name) (ex_perms h) with
         | (None, f1) => res = false /\ r' = r1 /\ f' = f1
         | (Some hd, f1) =>
           exists d0 ibs dfin chunks,
             fresh_inner r mon d0 /\ ireads d0 ibs dfin /\ inner_of r' = Some dfin /\
             dd_run (Some hd) r1 f1 chunks r' (write_chunks hd chunks f1) /\
             Forall (fun o => o <> []) chunks /\
             ((h_os_type h =? OS_TYPE_MACOS) = false -> ibs = concat chunks) /\
             res = verdict h ibs /\
             f' = if res then snd (set_timestamps_from_header (write_chunks hd chunks f1) (ex_fname h name) h)
                  else write_chunks hd chunks f1
         end).
  Proof.
    intros H Hcur. rewrite (extract_file_eq r f name mon h Hcur) in H.
    destruct (open_decoder junk r mon) as [[[ok ev1] r1]| |] eqn:Hop; cbn [bind] in H; try discriminate.
    exists ok, ev1, r1. split; [reflexivity|].
    destruct ok; cbn [negb] in H.
    - split; [discriminate|]. intros _.
      destruct (arch_fopen f (ex_fname h name) (ex_perms h)) as [[hd|] f1].
      + destruct (do_decode junk r1 f1 (Some hd)) as [[[[res2 ev2] r2] f2]| |] eqn:Hdd; cbn [bind] in H; try discriminate.
        cbv zeta in H. inversion H; subst res2 r2 f'; clear H.
        destruct (open_decode_verdict _ _ _ _ _ _ _ _ _ _ _ Hop Hcur Hdd)
          as (d0 & ibs & dfin & chunks & A & B & C & D & E & F).
        pose proof (dd_run_writes _ _ _ _ _ _ D) as [Hf Hne]. fold (write_chunks hd chunks f1) in Hf. subst f2.
        exists d0, ibs, dfin, chunks. repeat split; auto.
      + inversion H; subst. auto.
    - split; [|discriminate]. intros _. inversion H; subst. auto.
  Qed.

  (* reported good (plain member): the file has been written with exactly the
     bytes that were verified, then the timestamp was set *)
  Theorem extract_good_implies_match r f name mon ev r' f' h :
    extract_file junk r f name mon = Ok (true, ev, r', f') -> rd_curr r = Some h ->
    (h_os_type h =? OS_TYPE_MACOS) = false ->
    exists ev1 r1 hd f1 chunks,
      open_decoder junk r mon = Ok (true, ev1, r1) /\
      arch_fopen f (ex_fname h name) (ex_perms h) = (Some hd, f1) /\
      dd_run (Some hd) r1 f1 chunks r' (write_chunks hd chunks f1) /\
      Forall (fun o => o <> []) chunks /\
      let bs := concat chunks in
      nlen bs = h_length h /\ lha_crc16_buf 0 bs = h_crc h /\
      (Forall (fun b => b < 256) bs -> crc_bitwise 0 bs = h_crc h) /\
      f' = snd (set_timestamps_from_header (write_chunks hd chunks f1) (ex_fname h name) h).
  Proof.
    intros H Hcur Hos.
    destruct (extract_file_verdict _ _ _ _ _ _ _ _ _ H Hcur) as (ok & ev1 & r1 & Hop & Hfalse & Htrue).
    destruct ok; [|destruct (Hfalse eq_refl); discriminate].
    specialize (Htrue eq_refl).
    destruct (arch_fopen f (ex_fname h name) (ex_perms h)) as [[hd|] f1]; [|destruct Htrue; discriminate].
    destruct Htrue as (d0 & ibs & dfin & chunks & _ & _ & _ & Hrun & Hne & Hb & Hres & Hf).
    rewrite (Hb Hos) in Hres. symmetry in Hres. apply verdict_true in Hres. destruct Hres as [Hl Hc].
    exists ev1, r1, hd, f1, chunks. split; [exact Hop|]. split; [reflexivity|]. split; [exact Hrun|].
    split; [exact Hne|]. cbv zeta. split; [exact Hl|]. split; [exact Hc|]. split; [|exact Hf].
    intros Hby. rewrite <- Hc. symmetry. apply crc16_is_arc_proof; [lia|exact Hby].
  Qed.

  (* the converse, and: reported bad => set_timestamps_from_header was not called;
     the filesystem is the one left by lha_arch_fopen and the writes *)
  Theorem extract_mismatch_implies_bad r f name mon res ev r' f' h ev1 r1 hd f1 chunks r2 f2 :
    extract_file junk r f name mon = Ok (res, ev, r', f') -> rd_curr r = Some h ->
    (h_os_type h =? OS_TYPE_MACOS) = false ->
    open_decoder junk r mon = Ok (true, ev1, r1) ->
    arch_fopen f (ex_fname h name) (ex_perms h) = (Some hd, f1) ->
    dd_run (Some hd) r1 f1 chunks r2 f2 ->
    nlen (concat chunks) <> h_length h \/ lha_crc16_buf 0 (concat chunks) <> h_crc h ->
    res = false /\ f' = write_chunks hd chunks f1.
  Proof.
    intros H Hcur Hos Hop Hfo Hrun Hbad.
    destruct (extract_file_verdict _ _ _ _ _ _ _ _ _ H Hcur) as (ok & ev1' & r1' & Hop' & _ & Htrue).
    rewrite Hop in Hop'. inversion Hop'; subst ok ev1' r1'; clear Hop'.
    specialize (Htrue eq_refl). rewrite Hfo in Htrue.
    destruct Htrue as (d0 & ibs & dfin & chunks' & _ & _ & _ & Hrun' & _ & Hb & Hres & Hf).
    destruct (dd_run_det _ _ _ _ _ _ Hrun _ _ _ Hrun') as (<- & _ & _).
    rewrite (Hb Hos) in Hres.
    assert (Hr : res = false) by (rewrite Hres; apply verdict_false; exact Hbad).
    rewrite Hr in Hf. auto.
  Qed.

  Theorem extract_bad_no_timestamp r f name mon ev r' f' h :
    extract_file junk r f name mon = Ok (false, ev, r', f') -> rd_curr r = Some h ->
    f' = f \/
    (fst (arch_fopen f (ex_fname h name) (ex_perms h)) = None /\ f' = snd (arch_fopen f (ex_fname h name) (ex_perms h))) \/
    (exists hd chunks, fst (arch_fopen f (ex_fname h name) (ex_perms h)) = Some hd /\
       f' = write_chunks hd chunks (snd (arch_fopen f (ex_fname h name) (ex_perms h)))).
  Proof.
    intros H Hcur.
    destruct (extract_file_verdict _ _ _ _ _ _ _ _ _ H Hcur) as (ok & ev1 & r1 & Hop & Hfalse & Htrue).
    destruct ok; [|left; apply (Hfalse eq_refl)].
    specialize (Htrue eq_refl). right.
    destruct (arch_fopen f (ex_fname h name) (ex_perms h)) as [[hd|] f1]; cbn [fst snd].
    - right. destruct Htrue as (d0 & ibs & dfin & chunks & _ & _ & _ & _ & _ & _ & Hres & Hf).
      exists hd, chunks. split; [reflexivity|exact Hf].
    - left. destruct Htrue as (_ & _ & ->). auto.
  Qed.
  (* the exception: an entry with the directory method is reported good without
     decoding anything, whatever length and CRC its header records *)
  Theorem check_dir_entry_always_good r mon h :
    rd_type r = CT_NORMAL -> rd_curr r = Some h -> is_dir_method h = true ->
    lha_reader_check junk r mon = Ok (true, [], r).
  Proof. intros Ht Hc Hd. unfold lha_reader_check. rewrite Ht, Hc, Hd. reflexivity. Qed.
End ReaderCheck.

(* ------------------------------------------------------------------ *)
(* The content of the output file after the writes of do_decode.        *)
Section FileContent.
  Lemma name_eqb_refl n : name_eqb n n = true.
  Proof. induction n as [|a n IH]; cbn [name_eqb]; [reflexivity|]. rewrite N.eqb_refl. exact IH. Qed.

  Lemma lookup_map_set c v : forall ents x, lookup ents c = Some x ->
    lookup (map (fun kv => if name_eqb (fst kv) c then (c, v) else kv) ents) c = Some v.
  Proof.
    induction ents as [|[k y] r IH]; intros x H; cbn [lookup map fst] in *; [discriminate|].
    destruct (name_eqb k c) eqn:E.
    - cbn [lookup]. rewrite name_eqb_refl. reflexivity.
    - cbn [lookup]. rewrite E. eapply IH; eauto.
  Qed.

  Lemma lookup_set_ent ents c v x : lookup ents c = Some x -> lookup (set_ent ents c v) c = Some v.
  Proof. unfold set_ent. intros H. rewrite H. eapply lookup_map_set; eauto. Qed.

  Lemma node_at_cons o p t ents c r :
    node_at (Dir o p t ents) (c :: r) = match lookup ents c with Some m => node_at m r | None => None end.
  Proof. reflexivity. Qed.

  Lemma update_at_one o p t ents c g :
    update_at (Dir o p t ents) [c] g =
    match g (lookup ents c) with
    | Some m => Dir o p t (set_ent ents c m)
    | None => Dir o p t (remove_ent ents c)
    end.
  Proof. reflexivity. Qed.

  Lemma update_at_more o p t ents c c2 r2 g :
    update_at (Dir o p t ents) (c :: c2 :: r2) g =
    match lookup ents c with
    | Some m => Dir o p t (set_ent ents c (update_at m (c2 :: r2) g))
    | None => Dir o p t ents
    end.
  Proof. reflexivity. Qed.

  Lemma node_at_update_at g : forall loc root n m, loc <> [] ->
    node_at root loc = Some n -> g (Some n) = Some m -> node_at (update_at root loc g) loc = Some m.
  Proof.
    induction loc as [|c r IH]; intros root n m Hne Hn Hg; [contradiction Hne; reflexivity|].
    destruct root as [o p t ents|o p t d|tg]; try discriminate.
    rewrite node_at_cons in Hn.
    destruct (lookup ents c) as [x|] eqn:El; [|discriminate].
    destruct r as [|c2 r2].
    - cbn [node_at] in Hn. inversion Hn; subst x.
      rewrite update_at_one, El, Hg, node_at_cons, (lookup_set_ent _ _ _ _ El). reflexivity.
    - rewrite update_at_more, El, node_at_cons, (lookup_set_ent _ _ _ _ El).
      eapply IH; eauto. discriminate.
  Qed.

  (* the data of the regular file at a location *)
  Definition file_data (s : fs) (loc : phys) : option (list N) :=
    match node_at (fs_root s) loc with Some (File _ _ _ d) => Some d | _ => None end.

  Lemma fs_write_data s hd d o : hd <> [] -> file_data s hd = Some d ->
    file_data (fs_write s hd o) hd = Some (d ++ o).
  Proof.
    unfold file_data. intros Hne H.
    destruct (node_at (fs_root s) hd) as [[o1 p1 t1 e1|own p t d1|tg]|] eqn:En; try discriminate.
    inversion H; subst d1.
    unfold fs_write, log. cbn [fs_root].
    erewrite node_at_update_at; [|exact Hne|exact En|reflexivity]. reflexivity.
  Qed.

  Lemma write_chunks_data hd chunks : forall s d, hd <> [] -> file_data s hd = Some d ->
    file_data (write_chunks hd chunks s) hd = Some (d ++ concat chunks).
  Proof.
    unfold write_chunks. induction chunks as [|c cs IH]; intros s d Hne H; cbn [fold_left concat].
    - rewrite app_nil_r. exact H.
    - rewrite app_assoc. apply IH; [exact Hne|]. apply fs_write_data; assumption.
  Qed.

  (* the handle lha_arch_fopen returns is a location below the root *)
  Lemma create_excl_handle s p m hd s' : fs_create_excl s p m = (Some hd, s') -> hd <> [].
  Proof.
    unfold fs_create_excl. intros H.
    destruct (trailing_slash p); [discriminate|].
    destruct (resolve s p false) as [parent last [n|]| | |]; try discriminate.
    destruct (parent_writable s parent); [|discriminate].
    inversion H; subst. intros E. apply app_eq_nil in E. destruct E as [_ E]. discriminate.
  Qed.
  Lemma arch_fopen_handle s p m hd s' : arch_fopen s p m = (Some hd, s') -> hd <> [].
  Proof.
    unfold arch_fopen. intros H.
    destruct (fs_unlink s p) as [b s1].
    destruct (fs_create_excl s1 p 384) as [[h|] s2] eqn:Ec; [|discriminate].
    apply create_excl_handle in Ec.
    destruct m as [md|].
    - destruct (fs_fchmod s2 h md) as [ok s3]. destruct ok.
      + inversion H; subst. exact Ec.
      + destruct (fs_remove s3 p). discriminate.
    - inversion H; subst. exact Ec.
  Qed.

  (* extract_file reported good (plain member): if lha_arch_fopen handed out an
     empty regular file, then -- before the timestamp is set -- that file holds
     exactly the bytes whose length and CRC were compared with the header *)
  Theorem extract_good_file_content junk r f name mon ev r' f' h :
    extract_file junk r f name mon = Ok (true, ev, r', f') -> rd_curr r = Some h ->
    (h_os_type h =? OS_TYPE_MACOS) = false ->
    exists hd f1 bs f2,
      arch_fopen f (ex_fname h name) (ex_perms h) = (Some hd, f1) /\
      f' = snd (set_timestamps_from_header f2 (ex_fname h name) h) /\
      nlen bs = h_length h /\ lha_crc16_buf 0 bs = h_crc h /\
      (file_data f1 hd = Some [] -> file_data f2 hd = Some bs).
  Proof.
    intros H Hcur Hos.
    destruct (extract_good_implies_match _ _ _ _ _ _ _ _ _ H Hcur Hos)
      as (ev1 & r1 & hd & f1 & chunks & _ & Hfo & _ & _ & Hrest).
    cbv zeta in Hrest. destruct Hrest as (Hl & Hc & _ & Hf).
    exists hd, f1, (concat chunks), (write_chunks hd chunks f1).
    repeat split; auto.
    intros Hd. apply (write_chunks_data hd chunks f1 [] (arch_fopen_handle _ _ _ _ _ Hfo) Hd).
  Qed.
End FileContent.

(* ------------------------------------------------------------------ *)
(* 5. Non-vacuity: a stored (-lh0-) member "fox.txt" of 90 bytes in a level-0
   archive (the real lha -t says "Tested" for the first stream and "CRC error"
   for the second, which differs in the recorded CRC only). *)
Module Example.
  Definition ex_junk : N := 170.

  Definition ex_data : list N := [
     84; 104; 101; 32; 113; 117; 105; 99; 107; 32; 98; 114; 111; 119; 110; 32; 102; 111; 120; 32; 106; 117; 109; 112;
     115; 32; 111; 118; 101; 114; 32; 116; 104; 101; 32; 108; 97; 122; 121; 32; 100; 111; 103; 59; 32; 67; 48; 55;
     32; 110; 111; 110; 45; 118; 97; 99; 117; 105; 116; 121; 32; 101; 120; 97; 109; 112; 108; 101; 44; 32; 57; 48;
     32; 98; 121; 116; 101; 115; 32; 108; 111; 110; 103; 46; 46; 46; 46; 10; 33; 33].

  (* header: size, checksum, "-lh0-", compressed and original length 90, DOS time, attribute,
     level 0, name, CRC-16 (low byte first) *)
  Definition ex_header (sum crc_lo : N) : list N :=
    [29; sum; 45; 108; 104; 48; 45; 90; 0; 0; 0; 90; 0; 0; 0; 0; 0; 33; 40; 32; 0; 7;
     102; 111; 120; 46; 116; 120; 116; crc_lo; 203].

  Definition ex_good : list N := ex_header 238 198 ++ ex_data ++ [0].
  Definition ex_bad : list N := ex_header 239 199 ++ ex_data ++ [0].     (* recorded CRC 0xCBC7 instead of 0xCBC6 *)

  Definition ex_reader (archive : list N) : outcome (option header * reader) :=
    lha_reader_next_file mktime_utc (lha_reader_new (lha_input_stream_new (mk_source KFile archive))).

  Definition ex_check (archive : list N) : outcome (option (N * N * N) * bool) :=
    '(h, r) <- ex_reader archive ;;
    '(res, _, _) <- lha_reader_check ex_junk r false ;;
    Ok (match h with Some hd => Some (h_length hd, h_crc hd, h_os_type hd) | None => None end, res).

  Example ex_data_is_90_bytes : nlen ex_data = 90 /\ crc_bitwise 0 ex_data = 52166 /\ forallb (fun b => b <? 256) ex_data = true.
  Proof. vm_compute. auto. Qed.

  Example check_good_member : ex_check ex_good = Ok (Some (90, 52166, 0), true).
  Proof. vm_compute. reflexivity. Qed.

  Example check_bad_crc_member : ex_check ex_bad = Ok (Some (90, 52167, 0), false).
  Proof. vm_compute. reflexivity. Qed.

  (* the hypotheses of check_good_implies_match / check_mismatch_implies_bad hold of these readers *)
  Example ex_hypotheses : forall a, a = ex_good \/ a = ex_bad ->
    exists h r, ex_reader a = Ok (Some h, r) /\ rd_type r = CT_NORMAL /\ rd_curr r = Some h /\
                is_dir_method h = false /\ (h_os_type h =? OS_TYPE_MACOS) = false.
  Proof.
    intros a [->| ->].
    - destruct (ex_reader ex_good) as [[[h|] r]| |] eqn:E; vm_compute in E; try discriminate.
      inversion E; subst. eexists _, _. split; [reflexivity|]. vm_compute. auto.
    - destruct (ex_reader ex_bad) as [[[h|] r]| |] eqn:E; vm_compute in E; try discriminate.
      inversion E; subst. eexists _, _. split; [reflexivity|]. vm_compute. auto.
  Qed.

  (* the chunks of the run: 64 bytes, then 26 *)
  Example ex_chunks :
    match ex_reader ex_good with
    | Ok (_, r) =>
      match open_decoder ex_junk r false with
      | Ok (true, _, r1) =>
        match lha_reader_read ex_junk r1 64 with
        | Ok (o1, _, r2) =>
          match lha_reader_read ex_junk r2 64 with
          | Ok (o2, _, r3) =>
            match lha_reader_read ex_junk r3 64 with
            | Ok (o3, _, _) => o1 ++ o2 = ex_data /\ nlen o1 = 64 /\ nlen o2 = 26 /\ o3 = []
            | _ => False
            end
          | _ => False
          end
        | _ => False
        end
      | _ => False
      end
    | _ => False
    end.
  Proof. vm_compute. auto. Qed.

  (* 3, non-vacuity: extraction into the harness's initial filesystem (cwd /root,
     not the superuser).  Good member: the file holds the 90 bytes and gets the
     header's time (2000-01-01 00:00:00 UTC); wrong CRC: the bytes are written all
     the same, false is returned and no utime is issued. *)
  Definition ex_fox : name := [102; 111; 120; 46; 116; 120; 116].
  Definition ex_extract (archive : list N) : outcome (bool * option node * list fsop) :=
    '(_, r) <- ex_reader archive ;;
    '(res, _, _, f') <- lha_reader_extract ex_junk r (fs_init false) None false ;;
    Ok (res, node_at (fs_root f') [bytes_root; ex_fox], fs_trace f').

  Example extract_good_member :
    ex_extract ex_good =
    Ok (true, Some (File true 384 946684800 ex_data),
        [OpUtime [bytes_root; ex_fox] 946684800; OpWrite [bytes_root; ex_fox] 26;
         OpWrite [bytes_root; ex_fox] 64; OpCreate [bytes_root; ex_fox]]).
  Proof. vm_compute. reflexivity. Qed.

  Example extract_bad_crc_member :
    ex_extract ex_bad =
    Ok (false, Some (File true 384 0 ex_data),
        [OpWrite [bytes_root; ex_fox] 26; OpWrite [bytes_root; ex_fox] 64; OpCreate [bytes_root; ex_fox]]).
  Proof. vm_compute. reflexivity. Qed.

  (* 4, non-vacuity and the limit of the statement: a real MacLHA archive
     (/repo/test/archives/maclha_224/l1_subdir.lzh: hello.txt, MacOS, stored, header length 256).
     The check reports it good; the inner stream is 256 bytes with the recorded CRC; the caller
     of lha_reader_read (and the extracted file) gets the 11 bytes of the data fork, whose
     length and CRC are not the header's. *)
  Definition mac_archive : list N := [
     34; 253; 45; 108; 104; 48; 45; 23; 1; 0; 0; 0; 1; 0; 0; 65; 153; 147; 64; 32; 1; 9; 104; 101;
     108; 108; 111; 46; 116; 120; 116; 161; 237; 109; 18; 0; 2; 115; 117; 98; 100; 105; 114; 255; 115; 117; 98; 100;
     105; 114; 50; 255; 5; 0; 0; 172; 154; 0; 0; 0; 9; 104; 101; 108; 108; 111; 46; 116; 120; 116; 0; 0;
     0; 0; 0; 0; 0; 0; 0; 0; 0; 0; 0; 0; 0; 0; 0; 0; 0; 0; 0; 0; 0; 0; 0; 0;
     0; 0; 0; 0; 0; 0; 0; 0; 0; 0; 0; 0; 0; 0; 0; 0; 0; 0; 0; 0; 0; 0; 0; 0;
     0; 0; 0; 0; 84; 69; 88; 84; 116; 116; 120; 116; 1; 0; 0; 64; 0; 0; 0; 0; 0; 0; 0; 0;
     0; 11; 0; 0; 0; 0; 203; 182; 15; 216; 203; 182; 19; 138; 0; 0; 0; 0; 0; 0; 0; 0; 0; 0;
     0; 0; 0; 0; 0; 0; 0; 0; 0; 0; 0; 0; 0; 0; 0; 0; 0; 0; 0; 104; 101; 108; 108; 111;
     32; 119; 111; 114; 108; 100; 0; 0; 0; 0; 0; 0; 0; 0; 0; 0; 0; 0; 0; 0; 0; 0; 0; 0;
     0; 0; 0; 0; 0; 0; 0; 0; 0; 0; 0; 0; 0; 0; 0; 0; 0; 0; 0; 0; 0; 0; 0; 0;
     0; 0; 0; 0; 0; 0; 0; 0; 0; 0; 0; 0; 0; 0; 0; 0; 0; 0; 0; 0; 0; 0; 0; 0;
     0; 0; 0; 0; 0; 0; 0; 0; 0; 0; 0; 0; 0; 0; 0; 0; 0; 0; 0; 0; 0; 0; 0; 0;
     0; 0; 0; 0; 0; 0; 0; 0; 0; 0; 0; 0; 0; 0; 0; 0; 0; 0; 0; 0; 0; 0; 0; 0;
     0; 0; 0; 0].

  Definition mac_reader : outcome (option header * reader) :=
    lha_reader_next_file mktime_utc (lha_reader_new (lha_input_stream_new (mk_source KFile mac_archive))).

  Example mac_member_checked_good :
    ('(h, r) <- mac_reader ;;
     '(res, _, r') <- lha_reader_check ex_junk r false ;;
     Ok (match h with Some hd => Some (h_length hd, h_crc hd, h_os_type hd =? OS_TYPE_MACOS) | None => None end,
         res, inner_len_crc r'))
    = Ok (Some (256, 60833, true), true, Some (256, 60833)).
  Proof. vm_compute. reflexivity. Qed.

  Example mac_member_delivered_bytes :
    match mac_reader with
    | Ok (_, r) =>
      match open_decoder ex_junk r false with
      | Ok (true, _, r1) =>
        match lha_reader_read ex_junk r1 64 with
        | Ok (o1, _, r2) =>
          match lha_reader_read ex_junk r2 64 with
          | Ok (o2, _, r3) =>
            o1 = [104; 101; 108; 108; 111; 32; 119; 111; 114; 108; 100] (* "hello world" *) /\ o2 = [] /\
            nlen o1 <> 256 /\ crc_bitwise 0 o1 <> 60833 /\ inner_len_crc r3 = Some (256, 60833)
          | _ => False
          end
        | _ => False
        end
      | _ => False
      end
    | _ => False
    end.
  Proof. vm_compute. repeat split; discriminate. Qed.
End Example.

Print Assumptions dec_read_ok_len_crc.
Print Assumptions ireads_len_crc.
Print Assumptions do_decode_verdict.
Print Assumptions check_verdict.
Print Assumptions check_good_implies_match.
Print Assumptions check_mismatch_implies_bad.
Print Assumptions check_mismatch_implies_bad_arc.
Print Assumptions check_no_decoder_is_bad.
Print Assumptions check_good_implies_inner_match.
Print Assumptions check_inner_mismatch_implies_bad.
Print Assumptions extract_file_verdict.
Print Assumptions extract_good_implies_match.
Print Assumptions extract_mismatch_implies_bad.
Print Assumptions extract_bad_no_timestamp.
Print Assumptions reader_extract_regular.
Print Assumptions extract_good_file_content.
Print Assumptions Example.check_good_member.
Print Assumptions Example.check_bad_crc_member.
Print Assumptions Example.ex_hypotheses.
Print Assumptions Example.extract_good_member.
Print Assumptions Example.extract_bad_crc_member.
Print Assumptions Example.mac_member_checked_good.
Print Assumptions Example.mac_member_delivered_bytes.
Print Assumptions check_dir_entry_always_good.

(* P_Lh1.v -- proofs about the model of lib/lh1_decoder.c (Lh1.v) and its relation to
   the LZHUF specification (Lzhuf.v).  See the summary at the end of the file. *)
From Lhasa Require Import Base ListN DecBase BitReader Loop Sweep Generated Lh1 Lzhuf S_Larc P_BitReader.
From Coq Require Import ZifyBool ZifyN ZifyNat.
Local Open Scope N_scope.
Ltac Zify.zify_post_hook ::= Z.div_mod_to_equations.

(* P_Lh1a -- part A: helpers, finite facts (stage 1), invariant, checker (stage 2) *)

(* ------------------------------------------------------------------ *)
(* A.0  small arithmetic helpers                                        *)

Lemma land_ones_small x n : x < 2 ^ n -> N.land x (N.ones n) = x.
Proof. intros H. rewrite N.land_ones. apply N.mod_small. exact H. Qed.

Lemma u16_id x : x < 65536 -> u16 x = x.
Proof. intros H. unfold u16. change 65535 with (N.ones 16). apply land_ones_small. exact H. Qed.

Lemma u32_id x : x < 4294967296 -> u32 x = x.
Proof. intros H. unfold u32. change 4294967295 with (N.ones 32). apply land_ones_small. exact H. Qed.

Lemma u8_id x : x < 256 -> u8 x = x.
Proof. intros H. unfold u8. change 255 with (N.ones 8). apply land_ones_small. exact H. Qed.

Lemma land1_id x : x <= 1 -> N.land x 1 = x.
Proof. intros H. change 1 with (N.ones 1) at 1. apply land_ones_small. change (2 ^ 1) with 2. lia. Qed.

Lemma land15_id x : x < 32768 -> N.land x 32767 = x.
Proof. intros H. change 32767 with (N.ones 15). apply land_ones_small. exact H. Qed.

Lemma usub_id a b : b <= a -> a < 4294967296 -> usub a b = a - b.
Proof.
  intros H1 H2. unfold usub. destruct (N.leb_spec b a); [|lia]. apply u32_id. lia.
Qed.

Lemma dec1_id x : 1 <= x -> x < 4294967296 -> dec1 x = x - 1.
Proof. intros. unfold dec1. apply usub_id; lia. Qed.

Lemma dec2_id x : 2 <= x -> x < 4294967296 -> dec2 x = x - 2.
Proof. intros. unfold dec2. apply usub_id; lia. Qed.

Lemma u16z_id z : (0 <= z < 65536)%Z -> u16z z = Z.to_N z.
Proof.
  intros H. unfold u16z. f_equal. change 65535%Z with (Z.ones 16).
  rewrite Z.land_ones by lia. apply Z.mod_small. change (2 ^ 16)%Z with 65536%Z. lia.
Qed.

(* ------------------------------------------------------------------ *)
(* A.1  sums over an initial segment                                    *)

Fixpoint sumf (f : N -> N) (n : nat) : N :=
  match n with
  | O => 0
  | S k => sumf f k + f (N.of_nat k)
  end.

Lemma sumf_S f k : sumf f (S k) = sumf f k + f (N.of_nat k).
Proof. reflexivity. Qed.

Lemma sumf_ext f g n : (forall i, i < N.of_nat n -> f i = g i) -> sumf f n = sumf g n.
Proof.
  induction n as [|k IH]; intros H; [reflexivity|].
  rewrite !sumf_S. rewrite IH by (intros i Hi; apply H; lia). rewrite H by lia. reflexivity.
Qed.

(* one point changes *)
Lemma sumf_upd1 f g n a : a < N.of_nat n ->
  (forall i, i < N.of_nat n -> i <> a -> f i = g i) ->
  sumf f n + g a = sumf g n + f a.
Proof.
  induction n as [|k IH]; intros Ha H; [lia|].
  rewrite !sumf_S. destruct (N.eq_dec a (N.of_nat k)) as [E|E].
  - subst a. rewrite (sumf_ext f g k) by (intros i Hi; apply H; lia). lia.
  - rewrite (H (N.of_nat k)) by lia.
    assert (sumf f k + g a = sumf g k + f a) by (apply IH; [lia|intros i Hi Hne; apply H; lia]).
    lia.
Qed.

(* two points change *)
Lemma sumf_upd2 f g n a b : a < N.of_nat n -> b < N.of_nat n -> a <> b ->
  (forall i, i < N.of_nat n -> i <> a -> i <> b -> f i = g i) ->
  sumf f n + g a + g b = sumf g n + f a + f b.
Proof.
  induction n as [|k IH]; intros Ha Hb Hab H; [lia|].
  rewrite !sumf_S. destruct (N.eq_dec a (N.of_nat k)) as [E|E].
  - subst a.
    assert (sumf f k + g b = sumf g k + f b) by (apply sumf_upd1; [lia|intros i Hi Hne; apply H; lia]).
    lia.
  - destruct (N.eq_dec b (N.of_nat k)) as [E'|E'].
    + subst b.
      assert (sumf f k + g a = sumf g k + f a) by (apply sumf_upd1; [lia|intros i Hi Hne; apply H; lia]).
      lia.
    + rewrite (H (N.of_nat k)) by lia.
      assert (sumf f k + g a + g b = sumf g k + f a + f b) by (apply IH; try lia; intros i Hi H1 H2; apply H; lia).
      lia.
Qed.

Lemma sumf_le f g n : (forall i, i < N.of_nat n -> f i <= g i) -> sumf f n <= sumf g n.
Proof.
  induction n as [|k IH]; intros H; [cbn; lia|].
  rewrite !sumf_S. assert (sumf f k <= sumf g k) by (apply IH; intros i Hi; apply H; lia).
  assert (f (N.of_nat k) <= g (N.of_nat k)) by (apply H; lia). lia.
Qed.

Lemma sumf_add f g n : sumf (fun i => f i + g i) n = sumf f n + sumf g n.
Proof. induction n as [|k IH]; [reflexivity|]. rewrite !sumf_S, IH. lia. Qed.

Lemma sumf_mul2 f n : sumf (fun i => 2 * f i) n = 2 * sumf f n.
Proof. induction n as [|k IH]; [reflexivity|]. rewrite !sumf_S, IH. lia. Qed.

(* ------------------------------------------------------------------ *)
(* A.2  bounded quantifiers as booleans                                 *)

Definition all_lt (n : N) (p : N -> bool) : bool := sweep 10 (fun i => (n <=? i) || p i) 0.

Lemma all_lt_spec n p : n <= 1024 -> all_lt n p = true -> forall i, i < n -> p i = true.
Proof.
  intros Hn H i Hi. unfold all_lt in H.
  pose proof (sweep_below 10 _ H i) as X. cbv beta in X.
  change (2 ^ N.of_nat 10) with 1024 in X.
  assert (Y : (n <=? i) || p i = true) by (apply X; lia).
  destruct (N.leb_spec n i); [lia|]. exact Y.
Qed.

Lemma all_lt_627 p : all_lt 627 p = true -> forall i, i < 627 -> p i = true.
Proof. apply all_lt_spec. lia. Qed.
Lemma all_lt_626 p : all_lt 626 p = true -> forall i, i < 626 -> p i = true.
Proof. apply all_lt_spec. lia. Qed.
Lemma all_lt_314 p : all_lt 314 p = true -> forall i, i < 314 -> p i = true.
Proof. apply all_lt_spec. lia. Qed.

Ltac fa627 H := let X := fresh in pose proof (all_lt_627 _ H) as X; clear H; rename X into H.
Ltac fa626 H := let X := fresh in pose proof (all_lt_626 _ H) as X; clear H; rename X into H.
Ltac fa314 H := let X := fresh in pose proof (all_lt_314 _ H) as X; clear H; rename X into H.

Fixpoint any_from (k : nat) (base : N) (p : N -> bool) : bool :=
  match k with
  | O => false
  | S k' => p base || any_from k' (base + 1) p
  end.

Lemma any_from_spec k : forall base p, any_from k base p = true ->
  exists i, base <= i /\ i < base + N.of_nat k /\ p i = true.
Proof.
  induction k as [|k IH]; intros base p H; [discriminate|].
  cbn [any_from] in H. destruct (p base) eqn:E.
  - exists base. split; [lia|]. split; [lia|exact E].
  - cbn in H. destruct (IH _ _ H) as (i & A & B & C). exists i. split; [lia|]. split; [lia|exact C].
Qed.

Definition any_lt (n : N) (p : N -> bool) : bool := any_from (N.to_nat n) 0 p.

Lemma any_lt_spec n p : any_lt n p = true -> exists i, i < n /\ p i = true.
Proof.
  intros H. destruct (any_from_spec _ _ _ H) as (i & A & B & C). exists i. split; [lia|exact C].
Qed.

(* ------------------------------------------------------------------ *)
(* A.3  stage 1: the initial state and the offset tables                *)

Definition lh1_s0 : lh1_state :=
  Eval vm_compute in (match lh1_init with Ok s => s | _ =>
     {| lh1_bsr := bsr_init; lh1_ring := mk_arr 0 0; lh1_pos := 0; lh1_t := lh1_tree_zero;
        lh1_lookup := mk_arr 0 0; lh1_lengths := mk_arr 0 0 |} end).

Lemma lh1_init_eq : lh1_init = Ok lh1_s0.
Proof. vm_compute. reflexivity. Qed.

Lemma lh1_s0_lookup_len : alen (lh1_lookup lh1_s0) = 256.
Proof. reflexivity. Qed.
Lemma lh1_s0_lengths_len : alen (lh1_lengths lh1_s0) = 64.
Proof. reflexivity. Qed.
Lemma lh1_s0_ring_len : alen (lh1_ring lh1_s0) = 4096.
Proof. reflexivity. Qed.

(* every 8-bit window finds an upper offset < 64 whose code length is 3..8 *)
Lemma lh1_offset_tables_sweep :
  sweep 8 (fun fu => let o := aget (lh1_lookup lh1_s0) fu in
                     (o <? 64) && (3 <=? aget (lh1_lengths lh1_s0) o) && (aget (lh1_lengths lh1_s0) o <=? 8)) 0 = true.
Proof. vm_compute. reflexivity. Qed.

Lemma lh1_offset_tables fu : fu < 256 ->
  aget (lh1_lookup lh1_s0) fu < 64 /\
  3 <= aget (lh1_lengths lh1_s0) (aget (lh1_lookup lh1_s0) fu) <= 8.
Proof.
  intros H. pose proof (sweep_below 8 _ lh1_offset_tables_sweep fu) as X.
  cbv beta zeta in X. change (2 ^ N.of_nat 8) with 256 in X. specialize (X H). lia.
Qed.

(* the decoder's table (built from lh1_offset_fdist) against LZHUF's p_len / p_code:
   k = 256 * u + w ranges over the pairs (upper offset u, 8-bit window w); whenever the
   top p_len[u] bits of w are the top p_len[u] bits of p_code[u], the lookup gives u and
   the stored length is p_len[u] *)
Definition pos_code_ok (k : N) : bool :=
  let u := k / 256 in let w := k mod 256 in
  let sh := 8 - aget p_len u in
  negb (N.shiftr w sh =? N.shiftr (aget p_code u) sh) ||
  ((aget (lh1_lookup lh1_s0) w =? u) && (aget (lh1_lengths lh1_s0) u =? aget p_len u)).

Lemma lh1_position_code_sweep : sweep 14 pos_code_ok 0 = true.
Proof. vm_compute. reflexivity. Qed.

Lemma lh1_position_code u w : u < 64 -> w < 256 ->
  N.shiftr w (8 - aget p_len u) = N.shiftr (aget p_code u) (8 - aget p_len u) ->
  aget (lh1_lookup lh1_s0) w = u /\ aget (lh1_lengths lh1_s0) u = aget p_len u.
Proof.
  intros Hu Hw E.
  pose proof (sweep_below 14 _ lh1_position_code_sweep (256 * u + w)) as X.
  change (2 ^ N.of_nat 14) with 16384 in X.
  assert (Y : pos_code_ok (256 * u + w) = true) by (apply X; lia). clear X.
  unfold pos_code_ok in Y. cbv zeta in Y.
  assert (E1 : (256 * u + w) / 256 = u).
  { rewrite N.mul_comm, N.div_add_l by lia. rewrite N.div_small by lia. lia. }
  assert (E2 : (256 * u + w) mod 256 = w).
  { rewrite N.add_comm, N.mul_comm, N.mod_add by lia. apply N.mod_small. lia. }
  rewrite E1, E2 in Y. rewrite E in Y. rewrite N.eqb_refl in Y. cbn [negb orb] in Y. lia.
Qed.

(* the code itself (all lower window bits zero) is an instance; p_code[u] < 256 *)
Lemma lh1_position_code_self_sweep :
  sweep 6 (fun u => (aget p_code u <? 256) && (aget (lh1_lookup lh1_s0) (aget p_code u) =? u)) 0 = true.
Proof. vm_compute. reflexivity. Qed.

(* ------------------------------------------------------------------ *)
(* A.4  the invariant                                                   *)

Definition tlen (t : lh1_tree) : Prop :=
  alen (t_leaf t) = 627 /\ alen (t_child t) = 627 /\ alen (t_parent t) = 627 /\
  alen (t_freq t) = 627 /\ alen (t_group t) = 627 /\ alen (t_leaf_nodes t) = 314 /\
  alen (t_groups t) = 627 /\ alen (t_group_leader t) = 627.

Definition cnt_of (L : arr) : N := sumf (fun i => aget L i) 627.
Definition ls_of (L F : arr) : N := sumf (fun i => aget L i * aget F i) 627.

(* number of places where the frequency drops *)
Definition bnd_of (F : arr) : N := sumf (fun i => if aget F i =? aget F (i + 1) then 0 else 1) 626.

Strategy expand [cnt_of ls_of bnd_of].

(* structure: leaf flags, child indices, parent and leaf_nodes back pointers *)
Record SI (L C P LN : arr) : Prop := {
  si_node : forall i, i < 627 ->
    aget L i <= 1 /\ (aget L i = 1 -> aget C i < 314) /\
    (aget L i = 0 -> i + 2 <= aget C i /\ aget C i <= 626);
  si_lnb : forall c, c < 314 -> aget LN c < 627;
  si_ln : forall c i, c < 314 -> i < 627 -> (aget LN c = i <-> aget L i = 1 /\ aget C i = c);
  si_pab : forall j, 1 <= j -> j < 627 -> aget P j < 627;
  si_pa : forall j i, 1 <= j -> j < 627 -> i < 627 ->
    (aget P j = i <-> aget L i = 0 /\ (aget C i = j \/ aget C i = j + 1));
  si_cnt : cnt_of L = 314;
  si_even : forall i, i < 627 -> aget L i = 0 -> N.even (aget C i) = true
}.

(* frequencies; n is the node on the path that is still to be incremented (0: none) *)
Record FI (L C F : arr) (n : N) : Prop := {
  fi_sorted : forall i, i < 626 -> aget F (i + 1) <= aget F i;
  fi_pos : forall i, i < 627 -> 1 <= aget F i;
  fi_sum : forall b, b < 627 -> aget L b = 0 ->
    aget F b + (if b =? n then 1 else 0) =
    aget F (aget C b) + aget F (aget C b - 1) + (if b =? 0 then 1 else 0);
  fi_max : aget F 0 <= 32768;
  fi_ls : ls_of L F + aget L n = aget F 0
}.

(* groups *)
Record GI (F G GL GS : arr) (ng : N) : Prop := {
  gi_grb : forall i, i < 627 -> aget G i < 627;
  gi_eq : forall i j, i < 627 -> j < 627 -> (aget G i = aget G j <-> aget F i = aget F j);
  gi_lead : forall i, i < 627 ->
    aget GL (aget G i) <= i /\ aget F (aget GL (aget G i)) = aget F i /\
    (aget GL (aget G i) = 0 \/ aget F (aget GL (aget G i) - 1) <> aget F i);
  gi_ng : ng <= 627;
  gi_fb : forall k, ng <= k -> k < 627 -> aget GS k < 627;
  gi_unused : forall k i, ng <= k -> k < 627 -> i < 627 -> aget G i <> aget GS k;
  gi_dist : forall k k', ng <= k -> k < 627 -> ng <= k' -> k' < 627 -> aget GS k = aget GS k' -> k = k';
  gi_cnt : ng = 1 + bnd_of F
}.

Record PI (t : lh1_tree) (n : N) : Prop := {
  pi_len : tlen t;
  pi_s : SI (t_leaf t) (t_child t) (t_parent t) (t_leaf_nodes t);
  pi_f : FI (t_leaf t) (t_child t) (t_freq t) n;
  pi_g : GI (t_freq t) (t_group t) (t_group_leader t) (t_groups t) (t_num_groups t)
}.

(* the state between two calls *)
Definition lh1_tree_inv (t : lh1_tree) : Prop := PI t 0.

(* ------------------------------------------------------------------ *)
(* A.5  boolean checker and reflection                                  *)

Definition si_b (L C P LN : arr) : bool :=
  all_lt 627 (fun i => (aget L i <=? 1) && (negb (aget L i =? 1) || (aget C i <? 314)) &&
                       (negb (aget L i =? 0) || ((i + 2 <=? aget C i) && (aget C i <=? 626)))) &&
  all_lt 314 (fun c => aget LN c <? 627) &&
  all_lt 314 (fun c => all_lt 627 (fun i =>
      Bool.eqb (aget LN c =? i) ((aget L i =? 1) && (aget C i =? c)))) &&
  all_lt 627 (fun j => (j =? 0) || (aget P j <? 627)) &&
  all_lt 627 (fun j => (j =? 0) || all_lt 627 (fun i =>
      Bool.eqb (aget P j =? i) ((aget L i =? 0) && ((aget C i =? j) || (aget C i =? j + 1))))) &&
  (cnt_of L =? 314) &&
  all_lt 627 (fun i => negb (aget L i =? 0) || N.even (aget C i)).

Lemma si_b_spec L C P LN : si_b L C P LN = true -> SI L C P LN.
Proof.
  unfold si_b. rewrite !andb_true_iff. intros [[[[[[H1 H2] H3] H4] H5] H6] H7].
  fa627 H1. fa314 H2. fa314 H3.
  fa627 H4. fa627 H5. fa627 H7.
  constructor.
  - intros i Hi. pose proof (H1 i Hi) as X. cbv beta in X. lia.
  - intros c Hc. pose proof (H2 c Hc) as X. cbv beta in X. lia.
  - intros c i Hc Hi. pose proof (H3 c Hc) as X. cbv beta in X.
    pose proof (all_lt_627 _ X i Hi) as Y. cbv beta in Y. clear X. lia.
  - intros j Hj1 Hj. pose proof (H4 j Hj) as X. cbv beta in X. lia.
  - intros j i Hj1 Hj Hi. pose proof (H5 j Hj) as X. cbv beta in X.
    destruct (N.eqb_spec j 0) as [|_]; [lia|]. cbn [orb] in X.
    pose proof (all_lt_627 _ X i Hi) as Y. cbv beta in Y. clear X. lia.
  - lia.
  - intros i Hi Li. pose proof (H7 i Hi) as X. cbv beta in X. rewrite Li in X. cbn [N.eqb negb orb] in X. exact X.
Qed.

Definition fi_b (L C F : arr) (n : N) : bool :=
  all_lt 626 (fun i => aget F (i + 1) <=? aget F i) &&
  all_lt 627 (fun i => 1 <=? aget F i) &&
  all_lt 627 (fun b => negb (aget L b =? 0) ||
     (aget F b + (if b =? n then 1 else 0) =?
      aget F (aget C b) + aget F (aget C b - 1) + (if b =? 0 then 1 else 0))) &&
  (aget F 0 <=? 32768) &&
  (ls_of L F + aget L n =? aget F 0).

Lemma fi_b_spec L C F n : fi_b L C F n = true -> FI L C F n.
Proof.
  unfold fi_b. rewrite !andb_true_iff. intros [[[[H1 H2] H3] H4] H5].
  fa626 H1. fa627 H2. fa627 H3.
  constructor.
  - intros i Hi. pose proof (H1 i Hi) as X. cbv beta in X. lia.
  - intros i Hi. pose proof (H2 i Hi) as X. cbv beta in X. lia.
  - intros b Hb Hl. pose proof (H3 b Hb) as X. cbv beta in X.
    rewrite Hl in X. cbn [N.eqb negb orb] in X. apply N.eqb_eq in X. exact X.
  - lia.
  - lia.
Qed.

Definition gi_b (F G GL GS : arr) (ng : N) : bool :=
  all_lt 627 (fun i => aget G i <? 627) &&
  all_lt 627 (fun i => all_lt 627 (fun j => Bool.eqb (aget G i =? aget G j) (aget F i =? aget F j))) &&
  all_lt 627 (fun i => (aget GL (aget G i) <=? i) && (aget F (aget GL (aget G i)) =? aget F i) &&
                       ((aget GL (aget G i) =? 0) || negb (aget F (aget GL (aget G i) - 1) =? aget F i))) &&
  (ng <=? 627) &&
  all_lt 627 (fun k => (k <? ng) || (aget GS k <? 627)) &&
  all_lt 627 (fun k => (k <? ng) || all_lt 627 (fun i => negb (aget G i =? aget GS k))) &&
  all_lt 627 (fun k => (k <? ng) || all_lt 627 (fun k' => (k' <? ng) || negb (aget GS k =? aget GS k') || (k =? k'))) &&
  (ng =? 1 + bnd_of F).

Lemma gi_b_spec F G GL GS ng : gi_b F G GL GS ng = true -> GI F G GL GS ng.
Proof.
  unfold gi_b. rewrite !andb_true_iff. intros [[[[[[[H1 H2] H3] H4] H5] H6] H7] H8].
  fa627 H1. fa627 H2. fa627 H3.
  fa627 H5. fa627 H6. fa627 H7.
  constructor.
  - intros i Hi. pose proof (H1 i Hi) as X. cbv beta in X. lia.
  - intros i j Hi Hj. pose proof (H2 i Hi) as X. cbv beta in X.
    pose proof (all_lt_627 _ X j Hj) as Y. cbv beta in Y. clear X. lia.
  - intros i Hi. pose proof (H3 i Hi) as X. cbv beta in X. lia.
  - lia.
  - intros k Hk1 Hk. pose proof (H5 k Hk) as X. cbv beta in X. lia.
  - intros k i Hk1 Hk Hi. pose proof (H6 k Hk) as X. cbv beta in X.
    destruct (N.ltb_spec k ng); [lia|]. cbn [orb] in X.
    pose proof (all_lt_627 _ X i Hi) as Y. cbv beta in Y. clear X. lia.
  - intros k k' Hk1 Hk Hk1' Hk' E. pose proof (H7 k Hk) as X. cbv beta in X.
    destruct (N.ltb_spec k ng); [lia|]. cbn [orb] in X.
    pose proof (all_lt_627 _ X k' Hk') as Y. cbv beta in Y. clear X. lia.
  - lia.
Qed.

Definition tlen_b (t : lh1_tree) : bool :=
  (alen (t_leaf t) =? 627) && (alen (t_child t) =? 627) && (alen (t_parent t) =? 627) &&
  (alen (t_freq t) =? 627) && (alen (t_group t) =? 627) && (alen (t_leaf_nodes t) =? 314) &&
  (alen (t_groups t) =? 627) && (alen (t_group_leader t) =? 627).

Definition pi_b (t : lh1_tree) (n : N) : bool :=
  tlen_b t && si_b (t_leaf t) (t_child t) (t_parent t) (t_leaf_nodes t) &&
  fi_b (t_leaf t) (t_child t) (t_freq t) n &&
  gi_b (t_freq t) (t_group t) (t_group_leader t) (t_groups t) (t_num_groups t).

Lemma pi_b_spec t n : pi_b t n = true -> PI t n.
Proof.
  unfold pi_b. rewrite !andb_true_iff. intros [[[H1 H2] H3] H4].
  constructor.
  - unfold tlen_b in H1. unfold tlen. lia.
  - apply si_b_spec. exact H2.
  - apply fi_b_spec. exact H3.
  - apply gi_b_spec. exact H4.
Qed.

Definition inv_b (t : lh1_tree) : bool := pi_b t 0.

Lemma inv_b_spec t : inv_b t = true -> lh1_tree_inv t.
Proof. apply pi_b_spec. Qed.

Lemma lh1_s0_inv_b : inv_b (lh1_t lh1_s0) = true.
Proof. vm_cast_no_check (eq_refl true). Qed.

Theorem lh1_s0_tree_inv : lh1_tree_inv (lh1_t lh1_s0).
Proof. apply inv_b_spec. exact lh1_s0_inv_b. Qed.

(* P_Lh1b -- part B: derived facts, make_group_leader *)

(* ------------------------------------------------------------------ *)
(* B.1  derived facts                                                   *)

Lemma sorted_gen F : (forall i, i < 626 -> aget F (i + 1) <= aget F i) ->
  forall i j, i <= j -> j < 627 -> aget F j <= aget F i.
Proof.
  intros H i j Hij Hj.
  assert (G : forall d i, i + N.of_nat d < 627 -> aget F (i + N.of_nat d) <= aget F i).
  { induction d as [|d IH]; intros i0 H0.
    - replace (i0 + N.of_nat 0) with i0 by lia. lia.
    - replace (i0 + N.of_nat (S d)) with (i0 + N.of_nat d + 1) by lia.
      assert (aget F (i0 + N.of_nat d + 1) <= aget F (i0 + N.of_nat d)) by (apply H; lia).
      assert (aget F (i0 + N.of_nat d) <= aget F i0) by (apply IH; lia). lia. }
  specialize (G (N.to_nat (j - i)) i). replace (i + N.of_nat (N.to_nat (j - i))) with j in G by lia.
  apply G. lia.
Qed.

Lemma si_root L C P LN : SI L C P LN -> aget L 0 = 0 /\ aget C 0 = 2.
Proof.
  intros S.
  pose proof (si_pab _ _ _ _ S 1 ltac:(lia) ltac:(lia)) as B.
  pose proof (si_pa _ _ _ _ S 1 (aget P 1) ltac:(lia) ltac:(lia) B) as [X _].
  specialize (X eq_refl). destruct X as [X1 X2].
  pose proof (si_node _ _ _ _ S (aget P 1) B) as (_ & _ & N3). specialize (N3 X1).
  assert (E : aget P 1 = 0) by lia. rewrite E in *. split; [exact X1|lia].
Qed.

Lemma fi_root_gt L C P LN F n : SI L C P LN -> FI L C F n ->
  forall j, 1 <= j -> j < 627 -> aget F j + 2 <= aget F 0 + (if n =? 0 then 1 else 0).
Proof.
  intros S Fi j Hj1 Hj.
  destruct (si_root _ _ _ _ S) as [R1 R2].
  pose proof (fi_sum _ _ _ _ Fi 0 ltac:(lia) R1) as X. rewrite R2 in X. change (2 - 1) with 1 in X.
  change (0 =? 0) with true in X. cbv iota in X.
  pose proof (fi_pos _ _ _ _ Fi 2 ltac:(lia)).
  assert (aget F j <= aget F 1) by (apply (sorted_gen F (fi_sorted _ _ _ _ Fi)); lia).
  destruct (N.eqb_spec 0 n); destruct (N.eqb_spec n 0); lia.
Qed.

Lemma fi_le_root L C F n : FI L C F n -> forall j, j < 627 -> aget F j <= aget F 0.
Proof. intros Fi j Hj. apply (sorted_gen F (fi_sorted _ _ _ _ Fi)); lia. Qed.

Lemma sumf_const1 n : sumf (fun _ => 1) n = N.of_nat n.
Proof. induction n as [|k IH]; [reflexivity|]. rewrite sumf_S, IH. lia. Qed.

Lemma bnd_le F : bnd_of F <= 626.
Proof.
  unfold bnd_of. change 626 with (N.of_nat 626). rewrite <- sumf_const1.
  apply sumf_le. intros i _. destruct (aget F i =? aget F (i + 1)); lia.
Qed.

Lemma gi_ng_le F G GL GS ng : GI F G GL GS ng -> 1 <= ng /\ ng <= 627.
Proof. intros Gi. pose proof (gi_cnt _ _ _ _ _ Gi). pose proof (bnd_le F). lia. Qed.

(* ------------------------------------------------------------------ *)
(* B.2  make_group_leader                                               *)

Definition sw (n l i : N) : N := if i =? l then n else if i =? n then l else i.

Definition swap_tree (t : lh1_tree) (n l : N) : lh1_tree :=
  let lfl := aget (t_leaf t) l in let lfn := aget (t_leaf t) n in
  let chl := aget (t_child t) l in let chn := aget (t_child t) n in
  let LA := aset (aset (t_leaf t) l lfn) n lfl in
  let CA := aset (aset (t_child t) l chn) n chl in
  let LN1 := if lfl =? 0 then t_leaf_nodes t else aset (t_leaf_nodes t) chl n in
  let P1 := if lfl =? 0 then aset (aset (t_parent t) chl n) (chl - 1) n else t_parent t in
  let LN2 := if lfn =? 0 then LN1 else aset LN1 chn l in
  let P2 := if lfn =? 0 then aset (aset P1 chn l) (chn - 1) l else P1 in
  mkT LA CA P2 (t_freq t) (t_group t) LN2 (t_groups t) (t_num_groups t) (t_group_leader t).

Ltac alen_tac := cbn [t_leaf t_child t_parent t_freq t_group t_leaf_nodes t_groups t_num_groups t_group_leader]; rewrite ?alen_aset; lia.

Lemma mgl_eq t n : PI t n -> 1 <= n -> n < 627 ->
  let l := aget (t_group_leader t) (aget (t_group t) n) in
  make_group_leader t n = Ok (l, if l =? n then t else swap_tree t n l).
Proof.
  intros [Tl S Fi Gi] Hn1 Hn l.
  destruct t as [LA CA PA FA GA LNA GSA ng GLA].
  cbn [t_leaf t_child t_parent t_freq t_group t_leaf_nodes t_groups t_num_groups t_group_leader] in *.
  destruct Tl as (T1 & T2 & T3 & T4 & T5 & T6 & T7 & T8).
  cbn [t_leaf t_child t_parent t_freq t_group t_leaf_nodes t_groups t_num_groups t_group_leader] in *.
  pose proof (gi_grb _ _ _ _ _ Gi n Hn) as Hg.
  pose proof (gi_lead _ _ _ _ _ Gi n Hn) as (Hl1 & Hl2 & Hl3). fold l in Hl1, Hl2, Hl3.
  assert (Hl : l < 627) by lia.
  pose proof (si_node _ _ _ _ S l Hl) as (A1 & A2 & A3).
  pose proof (si_node _ _ _ _ S n Hn) as (B1 & B2 & B3).
  unfold make_group_leader, rd_group, rd_group_leader, rd_leaf, rd_child.
  cbn [t_leaf t_child t_parent t_freq t_group t_leaf_nodes t_groups t_num_groups t_group_leader].
  rewrite (rd_ok 820 GA n) by lia. cbn [bind].
  rewrite (rd_ok 821 GLA) by lia. cbn [bind]. fold l.
  destruct (N.eqb_spec l n) as [E|E]; [rewrite E; reflexivity|].
  rewrite (rd_ok 823 LA l) by lia. cbn [bind].
  rewrite (rd_ok 822 LA n) by lia. cbn [bind].
  unfold wr_leaf, wr_child, wr_leaf_nodes, wr_parent, set_leaf, set_child, set_leaf_nodes, set_parent.
  cbn [t_leaf t_child t_parent t_freq t_group t_leaf_nodes t_groups t_num_groups t_group_leader].
  rewrite (wr_ok 823 LA) by lia. cbn [bind].
  cbn [t_leaf t_child t_parent t_freq t_group t_leaf_nodes t_groups t_num_groups t_group_leader].
  rewrite wr_ok by (rewrite ?alen_aset; lia). cbn [bind].
  cbn [t_leaf t_child t_parent t_freq t_group t_leaf_nodes t_groups t_num_groups t_group_leader].
  rewrite (rd_ok 823 CA l) by lia. cbn [bind].
  rewrite (rd_ok 822 CA n) by lia. cbn [bind].
  rewrite (wr_ok 823 CA) by lia. cbn [bind].
  cbn [t_leaf t_child t_parent t_freq t_group t_leaf_nodes t_groups t_num_groups t_group_leader].
  rewrite wr_ok by (rewrite ?alen_aset; lia). cbn [bind].
  cbn [t_leaf t_child t_parent t_freq t_group t_leaf_nodes t_groups t_num_groups t_group_leader].
  rewrite (land1_id (aget LA l)) by lia. rewrite (land1_id (aget LA n)) by lia.
  assert (C1 : aget CA l < 627) by (destruct (N.eq_dec (aget LA l) 0); [specialize (A3 ltac:(assumption))|specialize (A2 ltac:(lia))]; lia).
  assert (C2 : aget CA n < 627) by (destruct (N.eq_dec (aget LA n) 0); [specialize (B3 ltac:(assumption))|specialize (B2 ltac:(lia))]; lia).
  rewrite (land15_id (aget CA l)) by lia. rewrite (land15_id (aget CA n)) by lia.
  rewrite !(u16_id n) by lia. rewrite !(u16_id l) by lia.
  unfold swap_tree.
  cbn [t_leaf t_child t_parent t_freq t_group t_leaf_nodes t_groups t_num_groups t_group_leader].
  destruct (N.eqb_spec (aget LA l) 0) as [E1|E1]; cbn [negb].
  - specialize (A3 E1). rewrite (dec1_id (aget CA l)) by lia.
    rewrite (wr_ok 825) by lia. cbn [bind].
    cbn [t_leaf t_child t_parent t_freq t_group t_leaf_nodes t_groups t_num_groups t_group_leader].
    rewrite (wr_ok 826) by (rewrite ?alen_aset; lia). cbn [bind].
    cbn [t_leaf t_child t_parent t_freq t_group t_leaf_nodes t_groups t_num_groups t_group_leader].
    destruct (N.eqb_spec (aget LA n) 0) as [E2|E2]; cbn [negb].
    + specialize (B3 E2). rewrite (dec1_id (aget CA n)) by lia.
      rewrite (wr_ok 828) by (rewrite ?alen_aset; lia). cbn [bind].
      cbn [t_leaf t_child t_parent t_freq t_group t_leaf_nodes t_groups t_num_groups t_group_leader].
      rewrite (wr_ok 829) by (rewrite ?alen_aset; lia). cbn [bind]. reflexivity.
    + specialize (B2 ltac:(lia)).
      rewrite (wr_ok 827) by (rewrite ?alen_aset; lia). cbn [bind]. reflexivity.
  - specialize (A2 ltac:(lia)).
    rewrite (wr_ok 824) by lia. cbn [bind].
    cbn [t_leaf t_child t_parent t_freq t_group t_leaf_nodes t_groups t_num_groups t_group_leader].
    destruct (N.eqb_spec (aget LA n) 0) as [E2|E2]; cbn [negb].
    + specialize (B3 E2). rewrite (dec1_id (aget CA n)) by lia.
      rewrite (wr_ok 828) by (rewrite ?alen_aset; lia). cbn [bind].
      cbn [t_leaf t_child t_parent t_freq t_group t_leaf_nodes t_groups t_num_groups t_group_leader].
      rewrite (wr_ok 829) by (rewrite ?alen_aset; lia). cbn [bind]. reflexivity.
    + specialize (B2 ltac:(lia)).
      rewrite (wr_ok 827) by (rewrite ?alen_aset; lia). cbn [bind]. reflexivity.
Qed.

Lemma sw_inv n l x i : l <> n -> (sw n l x = i <-> x = sw n l i).
Proof.
  intros H. unfold sw.
  destruct (N.eqb_spec x l), (N.eqb_spec x n), (N.eqb_spec i l), (N.eqb_spec i n); lia.
Qed.

Lemma sw_lt n l i : n < 627 -> l < 627 -> i < 627 -> sw n l i < 627.
Proof. intros. unfold sw. destruct (i =? l), (i =? n); lia. Qed.

Section Swap.
  Variables (t : lh1_tree) (n l : N).
  Hypothesis HS : SI (t_leaf t) (t_child t) (t_parent t) (t_leaf_nodes t).
  Hypothesis Hn : n < 627.
  Hypothesis Hl : l < 627.
  Hypothesis Hne : l <> n.

  Lemma swap_leaf i : aget (t_leaf (swap_tree t n l)) i = aget (t_leaf t) (sw n l i).
  Proof.
    unfold swap_tree, sw. cbn [t_leaf]. rewrite !aget_aset.
    destruct (N.eqb_spec n i), (N.eqb_spec l i), (N.eqb_spec i l), (N.eqb_spec i n); subst; try lia; reflexivity.
  Qed.

  Lemma swap_child i : aget (t_child (swap_tree t n l)) i = aget (t_child t) (sw n l i).
  Proof.
    unfold swap_tree, sw. cbn [t_child]. rewrite !aget_aset.
    destruct (N.eqb_spec n i), (N.eqb_spec l i), (N.eqb_spec i l), (N.eqb_spec i n); subst; try lia; reflexivity.
  Qed.

  Lemma swap_ln c : c < 314 ->
    aget (t_leaf_nodes (swap_tree t n l)) c = sw n l (aget (t_leaf_nodes t) c).
  Proof.
    intros Hc.
    pose proof (si_ln _ _ _ _ HS c l Hc Hl) as X1.
    pose proof (si_ln _ _ _ _ HS c n Hc Hn) as X2.
    pose proof (si_node _ _ _ _ HS l Hl) as (A1 & _ & _).
    pose proof (si_node _ _ _ _ HS n Hn) as (B1 & _ & _).
    unfold swap_tree, sw. cbn [t_leaf_nodes].
    destruct (N.eqb_spec (aget (t_leaf t) l) 0) as [E1|E1];
    destruct (N.eqb_spec (aget (t_leaf t) n) 0) as [E2|E2];
    rewrite ?aget_aset;
    repeat match goal with |- context [N.eqb ?a ?b] => destruct (N.eqb_spec a b) end; lia.
  Qed.

  Lemma swap_pa j : 1 <= j -> j < 627 ->
    aget (t_parent (swap_tree t n l)) j = sw n l (aget (t_parent t) j).
  Proof.
    intros Hj1 Hj.
    pose proof (si_pa _ _ _ _ HS j l Hj1 Hj Hl) as X1.
    pose proof (si_pa _ _ _ _ HS j n Hj1 Hj Hn) as X2.
    pose proof (si_node _ _ _ _ HS l Hl) as (A1 & _ & A3).
    pose proof (si_node _ _ _ _ HS n Hn) as (B1 & _ & B3).
    unfold swap_tree, sw. cbn [t_parent].
    destruct (N.eqb_spec (aget (t_leaf t) l) 0) as [E1|E1];
    destruct (N.eqb_spec (aget (t_leaf t) n) 0) as [E2|E2];
    rewrite ?aget_aset;
    repeat match goal with |- context [N.eqb ?a ?b] => destruct (N.eqb_spec a b) end; lia.
  Qed.

  Hypothesis Hlt : l < n.
  Hypothesis Hord : aget (t_leaf t) l = 0 -> n + 2 <= aget (t_child t) l.

  Lemma swap_SI : SI (t_leaf (swap_tree t n l)) (t_child (swap_tree t n l))
                     (t_parent (swap_tree t n l)) (t_leaf_nodes (swap_tree t n l)).
  Proof.
    constructor.
    - intros i Hi. rewrite swap_leaf, swap_child.
      pose proof (si_node _ _ _ _ HS (sw n l i) (sw_lt n l i Hn Hl Hi)) as (A1 & A2 & A3).
      split; [exact A1|]. split; [exact A2|]. intros E. specialize (A3 E).
      revert E A3 Hord. unfold sw. destruct (N.eqb_spec i l), (N.eqb_spec i n); subst; intros; lia.
    - intros c Hc. rewrite swap_ln by exact Hc. apply sw_lt; auto. apply (si_lnb _ _ _ _ HS c Hc).
    - intros c i Hc Hi. rewrite swap_ln by exact Hc. rewrite swap_leaf, swap_child.
      rewrite sw_inv by exact Hne. apply (si_ln _ _ _ _ HS c _ Hc). apply sw_lt; auto.
    - intros j Hj1 Hj. rewrite swap_pa by assumption. apply sw_lt; auto. apply (si_pab _ _ _ _ HS j Hj1 Hj).
    - intros j i Hj1 Hj Hi. rewrite swap_pa by assumption. rewrite swap_leaf, swap_child.
      rewrite sw_inv by exact Hne. apply (si_pa _ _ _ _ HS j _ Hj1 Hj). apply sw_lt; auto.
    - rewrite <- (si_cnt _ _ _ _ HS). unfold cnt_of.
      pose proof (sumf_upd2 (fun i => aget (t_leaf (swap_tree t n l)) i) (fun i => aget (t_leaf t) i) 627 l n) as X.
      cbv beta in X. rewrite !swap_leaf in X.
      assert (E1 : sw n l l = n) by (unfold sw; rewrite N.eqb_refl; reflexivity).
      assert (E2 : sw n l n = l) by (unfold sw; destruct (N.eqb_spec n l); [lia|]; rewrite N.eqb_refl; reflexivity).
      rewrite E1, E2 in X.
      assert (Y : sumf (fun i => aget (t_leaf (swap_tree t n l)) i) 627 + aget (t_leaf t) l + aget (t_leaf t) n =
                  sumf (fun i => aget (t_leaf t) i) 627 + aget (t_leaf t) n + aget (t_leaf t) l).
      { apply X; try (change (N.of_nat 627) with 627; lia).
        intros i Hi H1 H2. rewrite swap_leaf. unfold sw.
        destruct (N.eqb_spec i l), (N.eqb_spec i n); lia. }
      lia.
    - intros i Hi. rewrite swap_leaf, swap_child. apply (si_even _ _ _ _ HS). apply sw_lt; auto.
  Qed.
End Swap.

Lemma swap_freq t n l : t_freq (swap_tree t n l) = t_freq t.
Proof. reflexivity. Qed.
Lemma swap_group t n l : t_group (swap_tree t n l) = t_group t.
Proof. reflexivity. Qed.
Lemma swap_gl t n l : t_group_leader (swap_tree t n l) = t_group_leader t.
Proof. reflexivity. Qed.
Lemma swap_gs t n l : t_groups (swap_tree t n l) = t_groups t.
Proof. reflexivity. Qed.
Lemma swap_ng t n l : t_num_groups (swap_tree t n l) = t_num_groups t.
Proof. reflexivity. Qed.

Lemma swap_tlen t n l : tlen t -> tlen (swap_tree t n l).
Proof.
  intros (T1 & T2 & T3 & T4 & T5 & T6 & T7 & T8). unfold swap_tree, tlen.
  cbn [t_leaf t_child t_parent t_freq t_group t_leaf_nodes t_groups t_num_groups t_group_leader].
  destruct (aget (t_leaf t) l =? 0), (aget (t_leaf t) n =? 0); rewrite ?alen_aset; repeat split; assumption.
Qed.

Lemma swap_PI t n : PI t n -> 1 <= n -> n < 627 ->
  let l := aget (t_group_leader t) (aget (t_group t) n) in
  l <> n ->
  PI (swap_tree t n l) l /\ 1 <= l /\ l < n /\ aget (t_freq t) l = aget (t_freq t) n.
Proof.
  intros [Tl S Fi Gi] Hn1 Hn l Hne.
  pose proof (gi_lead _ _ _ _ _ Gi n Hn) as (Hl1 & Hl2 & Hl3). fold l in Hl1, Hl2, Hl3.
  assert (Hl : l < 627) by lia.
  pose proof (fi_root_gt _ _ _ _ _ _ S Fi n Hn1 Hn) as R.
  destruct (N.eqb_spec n 0) as [|_]; [lia|].
  assert (Hl0 : 1 <= l) by (destruct (N.eq_dec l 0) as [E|E]; [rewrite E in Hl2; lia|lia]).
  assert (Hlt : l < n) by lia.
  assert (Hord : aget (t_leaf t) l = 0 -> n + 2 <= aget (t_child t) l).
  { intros E. pose proof (fi_sum _ _ _ _ Fi l Hl E) as X.
    pose proof (si_node _ _ _ _ S l Hl) as (_ & _ & A3). specialize (A3 E).
    destruct (N.eqb_spec l n); [lia|]. destruct (N.eqb_spec l 0); [lia|].
    pose proof (fi_pos _ _ _ _ Fi (aget (t_child t) l) ltac:(lia)).
    destruct (N.le_gt_cases (aget (t_child t) l - 1) n) as [Y|Y]; [|lia].
    pose proof (sorted_gen _ (fi_sorted _ _ _ _ Fi) (aget (t_child t) l - 1) n Y Hn). lia. }
  split; [|split; [exact Hl0|split; [exact Hlt|exact Hl2]]].
  constructor.
  - apply swap_tlen. exact Tl.
  - apply swap_SI; assumption.
  - rewrite swap_freq. constructor.
    + apply (fi_sorted _ _ _ _ Fi).
    + apply (fi_pos _ _ _ _ Fi).
    + intros b Hb. rewrite swap_leaf, swap_child by assumption. intros E.
      pose proof (fi_sum _ _ _ _ Fi (sw n l b) (sw_lt n l b Hn Hl Hb) E) as X.
      revert X. unfold sw.
      destruct (N.eqb_spec b l) as [->|B1].
      * rewrite N.eqb_refl. destruct (N.eqb_spec n 0); [lia|]. destruct (N.eqb_spec l 0); [lia|]. lia.
      * destruct (N.eqb_spec b n) as [->|B2].
        -- destruct (N.eqb_spec l n); [lia|]. destruct (N.eqb_spec l 0); [lia|]. destruct (N.eqb_spec n 0); lia.
        -- destruct (N.eqb_spec b n); [lia|]. lia.
    + apply (fi_max _ _ _ _ Fi).
    + rewrite swap_leaf by assumption.
      replace (sw n l l) with n by (unfold sw; rewrite N.eqb_refl; reflexivity).
      rewrite <- (fi_ls _ _ _ _ Fi). f_equal. unfold ls_of.
      pose proof (sumf_upd2 (fun i => aget (t_leaf (swap_tree t n l)) i * aget (t_freq t) i)
                            (fun i => aget (t_leaf t) i * aget (t_freq t) i) 627 l n) as X.
      cbv beta in X. rewrite !swap_leaf in X by assumption.
      assert (E1 : sw n l l = n) by (unfold sw; rewrite N.eqb_refl; reflexivity).
      assert (E2 : sw n l n = l) by (unfold sw; destruct (N.eqb_spec n l); [lia|]; rewrite N.eqb_refl; reflexivity).
      rewrite E1, E2 in X.
      assert (Y : sumf (fun i => aget (t_leaf (swap_tree t n l)) i * aget (t_freq t) i) 627 +
                  aget (t_leaf t) l * aget (t_freq t) l + aget (t_leaf t) n * aget (t_freq t) n =
                  sumf (fun i => aget (t_leaf t) i * aget (t_freq t) i) 627 +
                  aget (t_leaf t) n * aget (t_freq t) l + aget (t_leaf t) l * aget (t_freq t) n).
      { apply X; try (change (N.of_nat 627) with 627; lia).
        intros i Hi H1 H2. rewrite swap_leaf by assumption. unfold sw.
        destruct (N.eqb_spec i l), (N.eqb_spec i n); lia. }
      rewrite Hl2 in Y. lia.
  - rewrite swap_freq, swap_group, swap_gl, swap_gs, swap_ng. exact Gi.
Qed.

(* P_Lh1c -- part C: increment_node_freq *)

Ltac tproj := cbn [t_leaf t_child t_parent t_freq t_group t_leaf_nodes t_groups t_num_groups t_group_leader].
Ltac tproj_in H := cbn [t_leaf t_child t_parent t_freq t_group t_leaf_nodes t_groups t_num_groups t_group_leader] in H.

Definition inf_tree (t : lh1_tree) (m : N) : lh1_tree :=
  let F := t_freq t in let G := t_group t in let GL := t_group_leader t in let GS := t_groups t in
  let ng := t_num_groups t in
  let f := aget F m in let g := aget G m in
  let F' := aset F m (f + 1) in
  let og := aget G (m - 1) in
  let joins := f + 1 =? aget F (m - 1) in
  if (m <? 626) && (g =? aget G (m + 1)) then
    let GL1 := aset GL g (m + 1) in
    if joins then mkT (t_leaf t) (t_child t) (t_parent t) F' (aset G m og) (t_leaf_nodes t) GS ng GL1
    else mkT (t_leaf t) (t_child t) (t_parent t) F' (aset G m (aget GS ng)) (t_leaf_nodes t) GS (ng + 1)
             (aset GL1 (aget GS ng) m)
  else
    if joins then mkT (t_leaf t) (t_child t) (t_parent t) F' (aset G m og) (t_leaf_nodes t)
                      (aset GS (ng - 1) g) (ng - 1) GL
    else mkT (t_leaf t) (t_child t) (t_parent t) F' G (t_leaf_nodes t) GS ng GL.

Lemma sumf_has_zero f n a : (forall i, i < N.of_nat n -> f i <= 1) -> a < N.of_nat n -> f a = 0 ->
  sumf f n + 1 <= N.of_nat n.
Proof.
  intros H Ha E.
  pose proof (sumf_upd1 f (fun i => if i =? a then 1 else f i) n a Ha) as X. cbv beta in X.
  rewrite N.eqb_refl in X.
  assert (Y : sumf f n + 1 = sumf (fun i => if i =? a then 1 else f i) n + f a).
  { apply X. intros i Hi Hne. destruct (N.eqb_spec i a); [lia|reflexivity]. }
  assert (Z : sumf (fun i => if i =? a then 1 else f i) n <= sumf (fun _ => 1) n).
  { apply sumf_le. intros i Hi. destruct (i =? a); [lia|]. apply H. exact Hi. }
  rewrite sumf_const1 in Z. lia.
Qed.

Definition dstep (F : arr) (i : N) : N := if aget F i =? aget F (i + 1) then 0 else 1.

Lemma bnd_upd F m v : 1 <= m -> m < 627 ->
  bnd_of F + dstep (aset F m v) (m - 1) + (if m <? 626 then dstep (aset F m v) m else 0) =
  bnd_of (aset F m v) + dstep F (m - 1) + (if m <? 626 then dstep F m else 0).
Proof.
  intros H1 H2. unfold bnd_of. fold (dstep F). fold (dstep (aset F m v)).
  assert (Hext : forall i, i < 626 -> i <> m - 1 -> i <> m -> dstep F i = dstep (aset F m v) i).
  { intros i Hi A B. unfold dstep. rewrite !aget_aset.
    destruct (N.eqb_spec m i); [lia|]. destruct (N.eqb_spec m (i + 1)); [lia|]. reflexivity. }
  destruct (N.ltb_spec m 626) as [Hm|Hm].
  - pose proof (sumf_upd2 (dstep F) (dstep (aset F m v)) 626 (m - 1) m) as X.
    apply X; try (change (N.of_nat 626) with 626; lia).
    intros i Hi. change (N.of_nat 626) with 626 in Hi. apply Hext. exact Hi.
  - pose proof (sumf_upd1 (dstep F) (dstep (aset F m v)) 626 (m - 1)) as X.
    rewrite !N.add_0_r. apply X; try (change (N.of_nat 626) with 626; lia).
    intros i Hi A. change (N.of_nat 626) with 626 in Hi. apply Hext; lia.
Qed.

Lemma of626 : N.of_nat 626 = 626.
Proof. reflexivity. Qed.
Lemma of627 : N.of_nat 627 = 627.
Proof. reflexivity. Qed.

Lemma alloc_room F G GL GS ng : GI F G GL GS ng -> forall m, m < 626 -> aget G m = aget G (m + 1) -> ng < 627.
Proof.
  intros Gi m M1 M2.
  pose proof (gi_cnt _ _ _ _ _ Gi) as Cn.
  pose proof (gi_eq _ _ _ _ _ Gi m (m + 1) ltac:(lia) ltac:(lia)) as [Q _]. specialize (Q M2).
  assert (H : bnd_of F + 1 <= N.of_nat 626).
  { unfold bnd_of. apply (sumf_has_zero _ 626 m).
    - intros i _. destruct (aget F i =? aget F (i + 1)); lia.
    - rewrite of626. exact M1.
    - rewrite Q. rewrite N.eqb_refl. reflexivity. }
  rewrite of626 in H. lia.
Qed.

Lemma inf_eq t m : PI t m -> 1 <= m -> m < 627 ->
  aget (t_group_leader t) (aget (t_group t) m) = m ->
  increment_node_freq t m = Ok (inf_tree t m).
Proof.
  intros [Tl S Fi Gi] Hm1 Hm Hlead.
  destruct t as [LA CA PA FA GA LNA GSA ng GLA]. tproj_in Tl. unfold tlen in Tl. tproj_in Tl.
  destruct Tl as (T1 & T2 & T3 & T4 & T5 & T6 & T7 & T8).
  tproj_in S. tproj_in Fi. tproj_in Gi. tproj_in Hlead.
  pose proof (fi_root_gt _ _ _ _ _ _ S Fi m Hm1 Hm) as R.
  destruct (N.eqb_spec m 0) as [|_]; [lia|].
  pose proof (fi_max _ _ _ _ Fi) as Mx.
  pose proof (gi_grb _ _ _ _ _ Gi m Hm) as Hg.
  pose proof (gi_grb _ _ _ _ _ Gi (m - 1) ltac:(lia)) as Hog.
  destruct (gi_ng_le _ _ _ _ _ Gi) as [Ng1 Ng2].
  unfold increment_node_freq, inf_tree, rd_freq, rd_group, rd_group_leader, wr_freq, wr_group, wr_group_leader,
    alloc_group, free_group, set_freq, set_group, set_group_leader, set_num_groups, set_groups.
  tproj.
  rewrite (dec1_id m) by lia.
  rewrite (rd_ok 830 FA m) by lia. cbn [bind].
  rewrite (u16_id (aget FA m + 1)) by lia. rewrite (u16_id (aget FA m + 1)) by lia.
  rewrite (wr_ok 830 FA) by lia. cbn [bind]. tproj.
  rewrite (rd_ok 830 GA m) by lia. cbn [bind].
  change (lh1_NUM_TREE_NODES - 1) with 626.
  assert (Eb : (if m <? 626 then g1 <- rd 831 GA (m + 1);; Ok (aget GA m =? g1) else Ok false) =
               Ok ((m <? 626) && (aget GA m =? aget GA (m + 1)))).
  { destruct (N.ltb_spec m 626); [|reflexivity]. rewrite rd_ok by lia. reflexivity. }
  rewrite Eb. cbn [bind]. clear Eb.
  destruct ((m <? 626) && (aget GA m =? aget GA (m + 1))) eqn:Eg.
  - rewrite (rd_ok 832 GLA) by lia. cbn [bind]. rewrite Hlead.
    rewrite (u16_id (m + 1)) by lia.
    rewrite (wr_ok 832 GLA) by lia. cbn [bind]. tproj.
    rewrite (rd_ok 833) by (rewrite ?alen_aset; lia). cbn [bind].
    rewrite aget_aset. destruct (N.eqb_spec m (m - 1)); [lia|].
    destruct (aget FA m + 1 =? aget FA (m - 1)) eqn:Ej.
    + rewrite (rd_ok 833 GA) by lia. cbn [bind].
      rewrite (u16_id (aget GA (m - 1))) by lia.
      rewrite (wr_ok 830 GA) by lia. cbn [bind]. reflexivity.
    + assert (Hng : ng < 627).
      { assert (m < 626 /\ aget GA m = aget GA (m + 1)) as [M1 M2] by lia.
        apply (alloc_room _ _ _ _ _ Gi m M1 M2). }
      rewrite (rd_ok 801 GSA) by lia. cbn [bind]. tproj.
      pose proof (gi_fb _ _ _ _ _ Gi ng ltac:(lia) Hng) as Hid.
      rewrite (u32_id (ng + 1)) by lia.
      rewrite !(u16_id (aget GSA ng)) by lia. rewrite (u16_id m) by lia.
      rewrite (wr_ok 830 GA) by lia. cbn [bind]. tproj.
      rewrite (wr_ok 834) by (rewrite ?alen_aset; lia). cbn [bind]. reflexivity.
  - rewrite (rd_ok 833) by (rewrite ?alen_aset; lia). cbn [bind].
    rewrite aget_aset. destruct (N.eqb_spec m (m - 1)); [lia|].
    destruct (aget FA m + 1 =? aget FA (m - 1)) eqn:Ej.
    + rewrite (dec1_id ng) by lia. rewrite (u16_id (aget GA m)) by lia.
      rewrite (wr_ok 802 GSA) by lia. cbn [bind]. tproj.
      rewrite (rd_ok 833 GA) by lia. cbn [bind].
      rewrite (u16_id (aget GA (m - 1))) by lia.
      rewrite (wr_ok 830 GA) by lia. cbn [bind]. reflexivity.
    + reflexivity.
Qed.

(* ------------------------------------------------------------------ *)
(* groups after the increment                                           *)

Section IncG.
  Variables F G GL GS : arr.
  Variables ng m : N.
  Hypothesis Gi : GI F G GL GS ng.
  Hypothesis Hs : forall i, i < 626 -> aget F (i + 1) <= aget F i.
  Hypothesis Hm1 : 1 <= m.
  Hypothesis Hm : m < 627.
  Hypothesis Hlead : aget GL (aget G m) = m.

  Let f := aget F m.
  Let g := aget G m.
  Let F' := aset F m (f + 1).

  Lemma inc_HL : f + 1 <= aget F (m - 1).
  Proof.
    pose proof (gi_lead _ _ _ _ _ Gi m Hm) as (_ & _ & X). rewrite Hlead in X.
    pose proof (Hs (m - 1) ltac:(lia)) as Y. replace (m - 1 + 1) with m in Y by lia.
    unfold f. destruct X as [X|X]; lia.
  Qed.

  Lemma inc_lo i : i < m -> f + 1 <= aget F i.
  Proof.
    intros Hi. pose proof inc_HL.
    pose proof (sorted_gen F Hs i (m - 1) ltac:(lia) ltac:(lia)). lia.
  Qed.

  Lemma inc_hi i : m < i -> i < 627 -> aget F i <= f.
  Proof. intros H1 H2. apply (sorted_gen F Hs m i); lia. Qed.

  Lemma inc_F' i : aget F' i = if m =? i then f + 1 else aget F i.
  Proof. unfold F'. apply aget_aset. Qed.

  Lemma inc_sorted : forall i, i < 626 -> aget F' (i + 1) <= aget F' i.
  Proof.
    intros i Hi. rewrite !inc_F'. pose proof (Hs i Hi). pose proof inc_HL.
    destruct (N.eqb_spec m (i + 1)) as [E|E]; destruct (N.eqb_spec m i) as [E'|E']; try lia.
    - replace (m - 1) with i in * by lia. lia.
    - subst i. unfold f. lia.
  Qed.

  Lemma inc_bnd :
    bnd_of F' + (if f + 1 =? aget F (m - 1) then 1 else 0) =
    bnd_of F + (if (m <? 626) && (f =? aget F (m + 1)) then 1 else 0).
  Proof.
    pose proof (bnd_upd F m (f + 1) Hm1 Hm) as X. fold F' in X.
    pose proof inc_HL as HL.
    assert (D1 : dstep F' (m - 1) = if f + 1 =? aget F (m - 1) then 0 else 1).
    { unfold dstep. rewrite !inc_F'. destruct (N.eqb_spec m (m - 1)); [lia|].
      destruct (N.eqb_spec m (m - 1 + 1)); [|lia].
      destruct (N.eqb_spec (aget F (m - 1)) (f + 1)); destruct (N.eqb_spec (f + 1) (aget F (m - 1))); lia. }
    assert (D2 : dstep F (m - 1) = 1).
    { unfold dstep. replace (m - 1 + 1) with m by lia. fold f.
      destruct (N.eqb_spec (aget F (m - 1)) f); lia. }
    rewrite D1, D2 in X.
    destruct (N.ltb_spec m 626) as [M|M]; cbn [andb].
    - assert (D3 : dstep F' m = 1).
      { unfold dstep. rewrite !inc_F'. rewrite N.eqb_refl. destruct (N.eqb_spec m (m + 1)); [lia|].
        pose proof (inc_hi (m + 1) ltac:(lia) ltac:(lia)). destruct (N.eqb_spec (f + 1) (aget F (m + 1))); lia. }
      assert (D4 : dstep F m = if f =? aget F (m + 1) then 0 else 1) by reflexivity.
      rewrite D3, D4 in X.
      destruct (f + 1 =? aget F (m - 1)); destruct (f =? aget F (m + 1)); lia.
    - destruct (f + 1 =? aget F (m - 1)); lia.
  Qed.

  (* nodes other than m whose class is not m's: the leader data is unchanged *)
  Lemma lead_other i lam : i <> m -> i < 627 -> lam <= i -> aget F lam = aget F i ->
    (lam = 0 \/ aget F (lam - 1) <> aget F i) -> aget F i <> f ->
    aget F' lam = aget F' i /\ (lam = 0 \/ aget F' (lam - 1) <> aget F' i).
  Proof.
    intros Him Hi Hle He Hb Hnf. rewrite !inc_F'.
    destruct (N.eqb_spec m lam) as [E|E]; [subst lam; unfold f in Hnf; lia|].
    destruct (N.eqb_spec m i) as [E'|E']; [lia|].
    split; [exact He|]. destruct Hb as [Hb|Hb]; [left; exact Hb|].
    destruct (N.eqb_spec m (lam - 1)) as [E2|E2]; [|right; exact Hb].
    right. pose proof (inc_hi i ltac:(lia) Hi). lia.
  Qed.

  (* G j = g only for j in the run starting at m *)
  Lemma inc_class j : j < 627 -> (aget G j = g <-> aget F j = f).
  Proof. intros Hj. unfold g, f. apply (gi_eq _ _ _ _ _ Gi j m Hj Hm). Qed.

  Lemma inc_og_ne : aget G (m - 1) <> g.
  Proof.
    intros E. apply (inc_class (m - 1) ltac:(lia)) in E. pose proof inc_HL. lia.
  Qed.

  (* leader clause at i = m when m joins the group on its left *)
  Lemma lead_join : f + 1 = aget F (m - 1) ->
    let lam := aget GL (aget G (m - 1)) in
    lam <= m /\ aget F' lam = aget F' m /\ (lam = 0 \/ aget F' (lam - 1) <> aget F' m).
  Proof.
    intros Hj lam.
    pose proof (gi_lead _ _ _ _ _ Gi (m - 1) ltac:(lia)) as (A & B & C). fold lam in A, B, C.
    rewrite !inc_F'. rewrite N.eqb_refl.
    destruct (N.eqb_spec m lam); [lia|]. destruct (N.eqb_spec m (lam - 1)); [lia|].
    split; [lia|]. split; [lia|]. destruct C as [C|C]; [left; exact C|right; lia].
  Qed.

  (* all group ids stay below 627 when m takes id x *)
  Lemma grb_upd x : x < 627 -> forall i, i < 627 -> aget (aset G m x) i < 627.
  Proof.
    intros Hx i Hi. rewrite aget_aset. destruct (m =? i); [exact Hx|]. apply (gi_grb _ _ _ _ _ Gi i Hi).
  Qed.

  (* the class equivalence when m joins the left group *)
  Lemma eq_join : f + 1 = aget F (m - 1) -> forall i j, i < 627 -> j < 627 ->
    (aget (aset G m (aget G (m - 1))) i = aget (aset G m (aget G (m - 1))) j <-> aget F' i = aget F' j).
  Proof.
    intros Hj i j Hi Hj'. rewrite !aget_aset, !inc_F'.
    pose proof (gi_eq _ _ _ _ _ Gi (m - 1) j ltac:(lia) Hj') as X1.
    pose proof (gi_eq _ _ _ _ _ Gi i (m - 1) Hi ltac:(lia)) as X2.
    pose proof (gi_eq _ _ _ _ _ Gi i j Hi Hj') as X3.
    destruct (N.eqb_spec m i); destruct (N.eqb_spec m j); lia.
  Qed.

  (* ... and when m gets an id x that nobody uses and its new frequency is new *)
  Lemma eq_fresh x : (forall j, j < 627 -> j <> m -> aget G j <> x) -> f + 1 <> aget F (m - 1) ->
    forall i j, i < 627 -> j < 627 ->
    (aget (aset G m x) i = aget (aset G m x) j <-> aget F' i = aget F' j).
  Proof.
    intros Hx Hnj i j Hi Hj'. rewrite !aget_aset, !inc_F'.
    pose proof (gi_eq _ _ _ _ _ Gi i j Hi Hj') as X3.
    pose proof inc_HL.
    assert (Q : forall k, k < 627 -> k <> m -> aget F k <> f + 1).
    { intros k Hk Hkm. destruct (N.lt_ge_cases k m).
      - pose proof (sorted_gen F Hs k (m - 1) ltac:(lia) ltac:(lia)). lia.
      - pose proof (inc_hi k ltac:(lia) Hk). lia. }
    destruct (N.eqb_spec m i); destruct (N.eqb_spec m j); try lia.
    - pose proof (Hx j Hj' ltac:(lia)). pose proof (Q j Hj' ltac:(lia)). lia.
    - pose proof (Hx i Hi ltac:(lia)). pose proof (Q i Hi ltac:(lia)). lia.
  Qed.

  Section InGroup.
    Hypothesis Hin1 : m < 626.
    Hypothesis Hin2 : aget G m = aget G (m + 1).

    Lemma in_next : aget F (m + 1) = f.
    Proof. apply (inc_class (m + 1) ltac:(lia)). unfold g. symmetry. exact Hin2. Qed.

    (* leader clause for i <> m when group_leader[g] := m + 1 *)
    Lemma lead_in i : i <> m -> i < 627 ->
      let lam := aget (aset GL g (m + 1)) (aget G i) in
      lam <= i /\ aget F' lam = aget F' i /\ (lam = 0 \/ aget F' (lam - 1) <> aget F' i).
    Proof.
      intros Him Hi lam. unfold lam. rewrite aget_aset.
      pose proof (inc_class i Hi) as Cl.
      destruct (N.eqb_spec g (aget G i)) as [E|E].
      - assert (Fi : aget F i = f) by (apply Cl; congruence).
        assert (m < i).
        { destruct (N.lt_ge_cases i m) as [X|X]; [pose proof (inc_lo i X); lia|lia]. }
        rewrite !inc_F'. destruct (N.eqb_spec m (m + 1)); [lia|]. destruct (N.eqb_spec m i); [lia|].
        destruct (N.eqb_spec m (m + 1 - 1)); [|lia]. pose proof in_next. split; [lia|]. split; [lia|]. right. lia.
      - pose proof (gi_lead _ _ _ _ _ Gi i Hi) as (A & B & C).
        split; [exact A|]. apply lead_other; auto. intros X. apply E. symmetry. apply Cl. exact X.
    Qed.

    Lemma giA : f + 1 = aget F (m - 1) ->
      GI F' (aset G m (aget G (m - 1))) (aset GL g (m + 1)) GS ng.
    Proof.
      intros Hj. pose proof inc_og_ne as Hog.
      constructor.
      - apply grb_upd. apply (gi_grb _ _ _ _ _ Gi). lia.
      - apply eq_join. exact Hj.
      - intros i Hi. rewrite (aget_aset G). destruct (N.eqb_spec m i) as [<-|Him].
        + rewrite aget_aset. destruct (N.eqb_spec g (aget G (m - 1))); [congruence|].
          apply lead_join. exact Hj.
        + apply lead_in; auto.
      - apply (gi_ng _ _ _ _ _ Gi).
      - apply (gi_fb _ _ _ _ _ Gi).
      - intros k i Hk1 Hk Hi. rewrite aget_aset. destruct (m =? i); apply (gi_unused _ _ _ _ _ Gi); auto; lia.
      - apply (gi_dist _ _ _ _ _ Gi).
      - pose proof (gi_cnt _ _ _ _ _ Gi). pose proof inc_bnd as X. pose proof in_next as Y.
        destruct (N.eqb_spec (f + 1) (aget F (m - 1))); [|lia].
        destruct (N.ltb_spec m 626); [|lia]. destruct (N.eqb_spec f (aget F (m + 1))); [|lia].
        cbn [andb] in X. lia.
    Qed.

    Lemma giB : f + 1 <> aget F (m - 1) -> ng < 627 ->
      GI F' (aset G m (aget GS ng)) (aset (aset GL g (m + 1)) (aget GS ng) m) GS (ng + 1).
    Proof.
      intros Hj Hng.
      pose proof (gi_fb _ _ _ _ _ Gi ng ltac:(lia) Hng) as Hid.
      assert (Hun : forall i, i < 627 -> aget G i <> aget GS ng).
      { intros i Hi. apply (gi_unused _ _ _ _ _ Gi); auto; lia. }
      constructor.
      - apply grb_upd. exact Hid.
      - apply eq_fresh; auto.
      - intros i Hi. rewrite (aget_aset G). destruct (N.eqb_spec m i) as [<-|Him].
        + rewrite aget_aset. rewrite N.eqb_refl. rewrite !inc_F'. rewrite N.eqb_refl.
          destruct (N.eqb_spec m (m - 1)); [lia|]. split; [lia|]. split; [reflexivity|]. right. lia.
        + rewrite (aget_aset (aset GL g (m + 1))).
          destruct (N.eqb_spec (aget GS ng) (aget G i)) as [E|E]; [exfalso; apply (Hun i Hi); congruence|].
          apply lead_in; auto.
      - lia.
      - intros k Hk1 Hk. apply (gi_fb _ _ _ _ _ Gi); lia.
      - intros k i Hk1 Hk Hi. rewrite aget_aset. destruct (N.eqb_spec m i).
        + intros E. assert (ng = k) by (apply (gi_dist _ _ _ _ _ Gi); auto; lia). lia.
        + apply (gi_unused _ _ _ _ _ Gi); auto; lia.
      - intros k k' A B C D. apply (gi_dist _ _ _ _ _ Gi); lia.
      - pose proof (gi_cnt _ _ _ _ _ Gi). pose proof inc_bnd as X. pose proof in_next as Y.
        destruct (N.eqb_spec (f + 1) (aget F (m - 1))); [lia|].
        destruct (N.ltb_spec m 626); [|lia]. destruct (N.eqb_spec f (aget F (m + 1))); [|lia].
        cbn [andb] in X. lia.
    Qed.
  End InGroup.

  Section Alone.
    Hypothesis Hout : ~ (m < 626 /\ aget G m = aget G (m + 1)).

    Lemma alone_class j : j < 627 -> j <> m -> aget F j <> f.
    Proof.
      intros Hj Hne. destruct (N.lt_ge_cases j m) as [X|X]; [pose proof (inc_lo j X); lia|].
      assert (M : m < 626) by lia.
      assert (N1 : aget F (m + 1) <> f).
      { intros E. apply Hout. split; [exact M|]. symmetry. apply (inc_class (m + 1) ltac:(lia)). exact E. }
      pose proof (inc_hi (m + 1) ltac:(lia) ltac:(lia)).
      pose proof (sorted_gen F Hs (m + 1) j ltac:(lia) Hj). lia.
    Qed.

    Lemma alone_g j : j < 627 -> j <> m -> aget G j <> g.
    Proof. intros Hj Hne E. apply (alone_class j Hj Hne). apply (inc_class j Hj). exact E. Qed.

    Lemma lead_alone i : i <> m -> i < 627 ->
      let lam := aget GL (aget G i) in
      lam <= i /\ aget F' lam = aget F' i /\ (lam = 0 \/ aget F' (lam - 1) <> aget F' i).
    Proof.
      intros Him Hi lam. pose proof (gi_lead _ _ _ _ _ Gi i Hi) as (A & B & C). fold lam in A, B, C.
      split; [exact A|]. apply lead_other; auto. apply alone_class; auto.
    Qed.

    Lemma inc_bnd_alone : bnd_of F' + (if f + 1 =? aget F (m - 1) then 1 else 0) = bnd_of F.
    Proof.
      pose proof inc_bnd as X.
      destruct (N.ltb_spec m 626) as [M|M]; cbn [andb] in X; [|lia].
      destruct (N.eqb_spec f (aget F (m + 1))) as [E|E]; [|lia].
      exfalso. apply (alone_class (m + 1)); lia.
    Qed.

    Lemma giC : f + 1 = aget F (m - 1) ->
      GI F' (aset G m (aget G (m - 1))) GL (aset GS (ng - 1) g) (ng - 1).
    Proof.
      intros Hj. pose proof inc_og_ne as Hog. destruct (gi_ng_le _ _ _ _ _ Gi) as [Ng1 Ng2].
      constructor.
      - apply grb_upd. apply (gi_grb _ _ _ _ _ Gi). lia.
      - apply eq_join. exact Hj.
      - intros i Hi. rewrite (aget_aset G). destruct (N.eqb_spec m i) as [<-|Him].
        + apply lead_join. exact Hj.
        + apply lead_alone; auto.
      - lia.
      - intros k Hk1 Hk. rewrite aget_aset. destruct (N.eqb_spec (ng - 1) k).
        + apply (gi_grb _ _ _ _ _ Gi m Hm).
        + apply (gi_fb _ _ _ _ _ Gi); lia.
      - intros k i Hk1 Hk Hi. rewrite !aget_aset.
        destruct (N.eqb_spec (ng - 1) k); destruct (N.eqb_spec m i).
        + exact Hog.
        + apply alone_g; auto.
        + apply (gi_unused _ _ _ _ _ Gi); lia.
        + apply (gi_unused _ _ _ _ _ Gi); lia.
      - intros k k' A B C D. rewrite !aget_aset.
        destruct (N.eqb_spec (ng - 1) k); destruct (N.eqb_spec (ng - 1) k'); try lia.
        + intros E. exfalso. apply (gi_unused _ _ _ _ _ Gi k' m ltac:(lia) D Hm). exact E.
        + intros E. exfalso. apply (gi_unused _ _ _ _ _ Gi k m ltac:(lia) B Hm). symmetry. exact E.
        + apply (gi_dist _ _ _ _ _ Gi); lia.
      - pose proof (gi_cnt _ _ _ _ _ Gi). pose proof inc_bnd_alone as X.
        destruct (N.eqb_spec (f + 1) (aget F (m - 1))); lia.
    Qed.

    Lemma giD : f + 1 <> aget F (m - 1) -> GI F' G GL GS ng.
    Proof.
      intros Hj.
      constructor.
      - apply (gi_grb _ _ _ _ _ Gi).
      - intros i j Hi Hj'.
        pose proof (eq_fresh g (fun j Hj Hne => alone_g j Hj Hne) Hj i j Hi Hj') as X.
        rewrite !aget_aset in X.
        destruct (N.eqb_spec m i) as [<-|]; destruct (N.eqb_spec m j) as [<-|]; exact X.
      - intros i Hi. destruct (N.eq_dec i m) as [->|Him].
        + rewrite Hlead. rewrite !inc_F'. rewrite N.eqb_refl.
          destruct (N.eqb_spec m (m - 1)); [lia|]. split; [lia|]. split; [reflexivity|]. right. lia.
        + apply lead_alone; auto.
      - apply (gi_ng _ _ _ _ _ Gi).
      - apply (gi_fb _ _ _ _ _ Gi).
      - apply (gi_unused _ _ _ _ _ Gi).
      - apply (gi_dist _ _ _ _ _ Gi).
      - pose proof (gi_cnt _ _ _ _ _ Gi). pose proof inc_bnd_alone as X.
        destruct (N.eqb_spec (f + 1) (aget F (m - 1))); lia.
    Qed.
  End Alone.
End IncG.

(* ------------------------------------------------------------------ *)
(* the whole invariant after the increment                              *)

Lemma inf_leaf t m : t_leaf (inf_tree t m) = t_leaf t.
Proof. unfold inf_tree. destruct ((m <? 626) && _), (_ =? _); reflexivity. Qed.
Lemma inf_child t m : t_child (inf_tree t m) = t_child t.
Proof. unfold inf_tree. destruct ((m <? 626) && _), (_ =? _); reflexivity. Qed.
Lemma inf_parent t m : t_parent (inf_tree t m) = t_parent t.
Proof. unfold inf_tree. destruct ((m <? 626) && _), (_ =? _); reflexivity. Qed.
Lemma inf_leaf_nodes t m : t_leaf_nodes (inf_tree t m) = t_leaf_nodes t.
Proof. unfold inf_tree. destruct ((m <? 626) && _), (_ =? _); reflexivity. Qed.
Lemma inf_freq t m : t_freq (inf_tree t m) = aset (t_freq t) m (aget (t_freq t) m + 1).
Proof. unfold inf_tree. destruct ((m <? 626) && _), (_ =? _); reflexivity. Qed.

Lemma inf_tlen t m : tlen t -> tlen (inf_tree t m).
Proof.
  intros (T1 & T2 & T3 & T4 & T5 & T6 & T7 & T8). unfold inf_tree, tlen.
  destruct ((m <? 626) && _), (_ =? _); tproj; rewrite ?alen_aset; repeat split; assumption.
Qed.

Lemma ls_upd L F m v : m < 627 ->
  ls_of L (aset F m v) + aget L m * aget F m = ls_of L F + aget L m * v.
Proof.
  intros Hm. unfold ls_of.
  pose proof (sumf_upd1 (fun i => aget L i * aget (aset F m v) i) (fun i => aget L i * aget F i) 627 m) as X.
  cbv beta in X. rewrite aget_aset_eq in X. apply X; [rewrite of627; exact Hm|].
  intros i _ Hne. rewrite aget_aset_ne by congruence. reflexivity.
Qed.

Lemma inf_GI t m : PI t m -> 1 <= m -> m < 627 ->
  aget (t_group_leader t) (aget (t_group t) m) = m ->
  GI (t_freq (inf_tree t m)) (t_group (inf_tree t m)) (t_group_leader (inf_tree t m))
     (t_groups (inf_tree t m)) (t_num_groups (inf_tree t m)).
Proof.
  intros [Tl S Fi Gi] Hm1 Hm Hlead.
  pose proof (fi_sorted _ _ _ _ Fi) as Hs.
  unfold inf_tree.
  destruct ((m <? 626) && (aget (t_group t) m =? aget (t_group t) (m + 1))) eqn:Eg;
  destruct (aget (t_freq t) m + 1 =? aget (t_freq t) (m - 1)) eqn:Ej; tproj.
  - apply giA; auto; lia.
  - apply giB; auto; try lia. apply (alloc_room _ _ _ _ _ Gi m); lia.
  - apply giC; auto; lia.
  - apply giD; auto; lia.
Qed.

Lemma inf_PI t m : PI t m -> 1 <= m -> m < 627 ->
  aget (t_group_leader t) (aget (t_group t) m) = m ->
  PI (inf_tree t m) (aget (t_parent t) m) /\ aget (t_parent t) m < m.
Proof.
  intros HP Hm1 Hm Hlead. pose proof (inf_GI t m HP Hm1 Hm Hlead) as Gi'.
  destruct HP as [Tl S Fi Gi].
  pose proof (fi_sorted _ _ _ _ Fi) as Hs.
  set (p := aget (t_parent t) m).
  pose proof (si_pab _ _ _ _ S m Hm1 Hm) as Hp. fold p in Hp.
  pose proof (si_pa _ _ _ _ S m p Hm1 Hm Hp) as [Pp _]. specialize (Pp eq_refl). destruct Pp as [Pl Pc].
  pose proof (si_node _ _ _ _ S p Hp) as (_ & _ & Pn). specialize (Pn Pl).
  assert (Hpm : p < m) by lia.
  pose proof (fi_root_gt _ _ _ _ _ _ S Fi m Hm1 Hm) as R.
  destruct (N.eqb_spec m 0) as [|_]; [lia|].
  split; [|exact Hpm].
  constructor.
  - apply inf_tlen. exact Tl.
  - rewrite inf_leaf, inf_child, inf_parent, inf_leaf_nodes. exact S.
  - rewrite inf_leaf, inf_child, inf_freq.
    set (f := aget (t_freq t) m).
    assert (HL : f + 1 <= aget (t_freq t) (m - 1)) by (apply (inc_HL _ _ _ _ _ _ Gi Hs Hm1 Hm Hlead)).
    constructor.
    + apply (inc_sorted _ _ _ _ _ _ Gi Hs Hm1 Hm Hlead).
    + intros i Hi. rewrite aget_aset. pose proof (fi_pos _ _ _ _ Fi i Hi). destruct (m =? i); lia.
    + intros b Hb Lb.
      pose proof (fi_sum _ _ _ _ Fi b Hb Lb) as X.
      pose proof (si_pa _ _ _ _ S m b Hm1 Hm Hb) as Y. fold p in Y.
      pose proof (si_node _ _ _ _ S b Hb) as (_ & _ & Nb). specialize (Nb Lb).
      rewrite !aget_aset.
      destruct (N.eqb_spec m b) as [E1|E1].
      * rewrite <- E1 in *. fold f in X. rewrite N.eqb_refl in X.
        destruct (N.eqb_spec m (aget (t_child t) m)); [lia|].
        destruct (N.eqb_spec m (aget (t_child t) m - 1)); [lia|].
        destruct (N.eqb_spec m p); [lia|]. destruct (N.eqb_spec m 0); lia.
      * destruct (N.eqb_spec b m); [lia|].
        destruct (N.eqb_spec m (aget (t_child t) b)) as [E2|E2].
        -- rewrite <- E2 in *. fold f in X.
           destruct (N.eqb_spec m (m - 1)); [lia|].
           destruct (N.eqb_spec b p); [|lia]. destruct (N.eqb_spec b 0); lia.
        -- destruct (N.eqb_spec m (aget (t_child t) b - 1)) as [E3|E3].
           ++ rewrite <- E3 in *. fold f in X.
              destruct (N.eqb_spec b p); [|lia]. destruct (N.eqb_spec b 0); lia.
           ++ destruct (N.eqb_spec b p); [lia|]. destruct (N.eqb_spec b 0); lia.
    + rewrite aget_aset. destruct (N.eqb_spec m 0); [lia|]. apply (fi_max _ _ _ _ Fi).
    + rewrite aget_aset. destruct (N.eqb_spec m 0); [lia|]. rewrite Pl.
      pose proof (ls_upd (t_leaf t) (t_freq t) m (f + 1) Hm) as X. fold f in X.
      pose proof (fi_ls _ _ _ _ Fi) as Y.
      pose proof (si_node _ _ _ _ S m Hm) as (Lm & _ & _).
      set (a := ls_of (t_leaf t) (aset (t_freq t) m (f + 1))) in *.
      set (b := ls_of (t_leaf t) (t_freq t)) in *. nia.
  - exact Gi'.
Qed.

(* P_Lh1d -- part D: the increment loop *)

Lemma ifc_step_eq t n : PI t n -> n < 627 -> n <> 0 ->
  let l := aget (t_group_leader t) (aget (t_group t) n) in
  let t1 := if l =? n then t else swap_tree t n l in
  ifc_step (t, n) = Ok (inl (inf_tree t1 l, aget (t_parent t1) l)) /\
  PI t1 l /\ 1 <= l /\ l <= n /\ aget (t_freq t) l = aget (t_freq t) n /\
  PI (inf_tree t1 l) (aget (t_parent t1) l) /\ aget (t_parent t1) l < l.
Proof.
  intros HP Hn Hn0 l t1. unfold ifc_step. destruct (N.eqb_spec n 0); [lia|].
  rewrite (mgl_eq t n HP ltac:(lia) Hn). cbv zeta. cbn [bind].
  fold l. fold t1.
  assert (H1 : PI t1 l /\ 1 <= l /\ l <= n /\ aget (t_freq t) l = aget (t_freq t) n /\
               t_freq t1 = t_freq t /\ t_group t1 = t_group t /\ t_group_leader t1 = t_group_leader t).
  { unfold t1. destruct (N.eqb_spec l n) as [E|E].
    - rewrite E. split; [exact HP|]. split; [lia|]. split; [lia|]. split; [reflexivity|]. auto.
    - destruct (swap_PI t n HP ltac:(lia) Hn E) as (A & B & C & D). fold l in A, B, C, D.
      split; [exact A|]. split; [lia|]. split; [lia|]. split; [exact D|]. auto. }
  destruct H1 as (P1 & L1 & L2 & L3 & E1 & E2 & E3).
  assert (Hlead : aget (t_group_leader t1) (aget (t_group t1) l) = l).
  { rewrite E2, E3. destruct HP as [_ _ _ Gi].
    assert (aget (t_group t) l = aget (t_group t) n) as -> by (apply (gi_eq _ _ _ _ _ Gi); [lia|lia|exact L3]).
    reflexivity. }
  rewrite (inf_eq t1 l P1 L1 ltac:(lia) Hlead). cbn [bind].
  destruct (inf_PI t1 l P1 L1 ltac:(lia) Hlead) as [P2 Hlt].
  unfold rd_parent. rewrite inf_parent.
  pose proof P1 as [Tl _ _ _]. destruct Tl as (_ & _ & T3 & _).
  rewrite rd_ok by lia. cbn [bind].
  split; [reflexivity|]. split; [exact P1|]. split; [exact L1|]. split; [exact L2|]. split; [exact L3|].
  split; [exact P2|exact Hlt].
Qed.

Lemma ifc_step_ok t n : PI t n -> n < 627 -> n <> 0 ->
  exists t' n', ifc_step (t, n) = Ok (inl (t', n')) /\ PI t' n' /\ n' < n.
Proof.
  intros HP Hn Hn0. destruct (ifc_step_eq t n HP Hn Hn0) as (E & _ & _ & L2 & _ & P2 & Hlt).
  eexists _, _. split; [exact E|]. split; [exact P2|lia].
Qed.

Lemma ifc_loop_ok t n : PI t n -> n < 627 ->
  exists t', loop ifc_step 10 (t, n) = Ok t' /\ PI t' 0.
Proof.
  intros HP Hn.
  apply (loop_total_ok ifc_step (fun s => PI (fst s) (snd s) /\ snd s < 627) (fun r => PI r 0) (fun s => snd s) 10).
  - intros [t0 n0] [A B]. cbn [fst snd] in *.
    destruct (N.eq_dec n0 0) as [->|Hne].
    + exists (inr t0). split; [reflexivity|exact A].
    + destruct (ifc_step_ok t0 n0 A B Hne) as (t' & n' & E & P' & Hlt).
      exists (inl (t', n')). split; [exact E|]. cbn [fst snd]. split; [split; [exact P'|lia]|exact Hlt].
  - cbn [fst snd]. split; assumption.
  - cbn [snd]. change (2 ^ N.of_nat 10) with 1024. lia.
Qed.

(* ++nodes[0].freq, then start at the leaf of the code *)
Lemma bnd_root F : aget F 1 + 1 <= aget F 0 -> bnd_of (aset F 0 (aget F 0 + 1)) = bnd_of F.
Proof.
  intros H. unfold bnd_of. apply sumf_ext. intros i _. rewrite !aget_aset.
  destruct (N.eqb_spec 0 i) as [<-|E].
  - change (0 + 1) with 1. cbn [N.eqb].
    destruct (N.eqb_spec (aget F 0 + 1) (aget F 1)); destruct (N.eqb_spec (aget F 0) (aget F 1)); lia.
  - destruct (N.eqb_spec 0 (i + 1)); [lia|reflexivity].
Qed.

Lemma preinc_PI t c : PI t 0 -> aget (t_freq t) 0 <= 32767 -> c < 314 ->
  let n := aget (t_leaf_nodes t) c in
  PI (set_freq t (aset (t_freq t) 0 (aget (t_freq t) 0 + 1))) n /\ 1 <= n /\ n < 627.
Proof.
  intros [Tl S Fi Gi] Hmax Hc n.
  destruct (si_root _ _ _ _ S) as [R1 R2].
  pose proof (si_lnb _ _ _ _ S c Hc) as Hn. fold n in Hn.
  pose proof (si_ln _ _ _ _ S c n Hc Hn) as [X _]. specialize (X eq_refl). destruct X as [Ln Cn].
  assert (Hn1 : 1 <= n) by (destruct (N.eq_dec n 0) as [E|E]; [rewrite E in Ln; lia|lia]).
  split; [|split; assumption].
  set (F := t_freq t) in *. set (F' := aset F 0 (aget F 0 + 1)).
  assert (EF : forall i, aget F' i = if 0 =? i then aget F 0 + 1 else aget F i) by (intros i; apply aget_aset).
  assert (RG : forall j, 1 <= j -> j < 627 -> aget F j + 1 <= aget F 0).
  { intros j A B. pose proof (fi_root_gt _ _ _ _ _ _ S Fi j A B) as Y. cbn [N.eqb] in Y. lia. }
  constructor.
  - destruct Tl as (T1 & T2 & T3 & T4 & T5 & T6 & T7 & T8). unfold tlen, set_freq.
    cbn [t_leaf t_child t_parent t_freq t_group t_leaf_nodes t_groups t_num_groups t_group_leader].
    fold F'. unfold F'. rewrite alen_aset. repeat split; assumption.
  - exact S.
  - unfold set_freq. cbn [t_leaf t_child t_freq]. fold F'.
    constructor.
    + intros i Hi. rewrite !EF. pose proof (fi_sorted _ _ _ _ Fi i Hi).
      destruct (N.eqb_spec 0 (i + 1)); [lia|]. destruct (N.eqb_spec 0 i) as [<-|]; [|assumption]. fold F in H. lia.
    + intros i Hi. rewrite EF. pose proof (fi_pos _ _ _ _ Fi i Hi). fold F in H. destruct (0 =? i); lia.
    + intros b Hb Lb. pose proof (fi_sum _ _ _ _ Fi b Hb Lb) as X. fold F in X.
      pose proof (si_node _ _ _ _ S b Hb) as (_ & _ & Nb). specialize (Nb Lb).
      rewrite !EF.
      destruct (N.eqb_spec 0 (aget (t_child t) b)); [lia|].
      destruct (N.eqb_spec 0 (aget (t_child t) b - 1)); [lia|].
      destruct (N.eqb_spec b n) as [E|E]; [rewrite E in Lb; lia|].
      destruct (N.eqb_spec 0 b) as [<-|E0].
      * cbn [N.eqb] in *. lia.
      * destruct (N.eqb_spec b 0); [lia|]. lia.
    + rewrite EF. cbn [N.eqb]. lia.
    + rewrite EF. cbn [N.eqb]. rewrite Ln.
      pose proof (ls_upd (t_leaf t) F 0 (aget F 0 + 1) ltac:(lia)) as X. fold F' in X. rewrite R1 in X.
      pose proof (fi_ls _ _ _ _ Fi) as Y. fold F in Y. rewrite R1 in Y. lia.
  - unfold set_freq. cbn [t_freq t_group t_groups t_num_groups t_group_leader]. fold F'. fold F in Gi.
    constructor.
    + apply (gi_grb _ _ _ _ _ Gi).
    + intros i j Hi Hj. rewrite !EF. pose proof (gi_eq _ _ _ _ _ Gi i j Hi Hj) as X.
      destruct (N.eqb_spec 0 i) as [<-|Ei]; destruct (N.eqb_spec 0 j) as [<-|Ej]; try lia.
      * pose proof (RG j ltac:(lia) Hj). lia.
      * pose proof (RG i ltac:(lia) Hi). lia.
    + intros i Hi. pose proof (gi_lead _ _ _ _ _ Gi i Hi) as (A & B & C).
      set (lam := aget (t_group_leader t) (aget (t_group t) i)) in *.
      split; [exact A|]. rewrite !EF.
      destruct (N.eqb_spec 0 i) as [<-|Ei].
      * assert (lam = 0) as -> by lia. cbn [N.eqb]. split; [reflexivity|left; reflexivity].
      * pose proof (RG i ltac:(lia) Hi).
        destruct (N.eqb_spec 0 lam) as [E|E]; [rewrite <- E in B; lia|].
        split; [exact B|]. destruct C as [C|C]; [lia|].
        right. destruct (N.eqb_spec 0 (lam - 1)); [lia|exact C].
    + apply (gi_ng _ _ _ _ _ Gi).
    + apply (gi_fb _ _ _ _ _ Gi).
    + apply (gi_unused _ _ _ _ _ Gi).
    + apply (gi_dist _ _ _ _ _ Gi).
    + unfold F'. rewrite bnd_root; [apply (gi_cnt _ _ _ _ _ Gi)|]. apply RG; lia.
Qed.

(* increment_for_code after the (possible) rebuild *)
Lemma ifc_tail t c : PI t 0 -> aget (t_freq t) 0 <= 32767 -> c < 314 ->
  exists t',
    (f0' <- rd_freq 867 t 0 ;; t2 <- wr_freq 867 t 0 (f0' + 1) ;;
     node_index <- rd_leaf_nodes 868 t2 c ;; loop ifc_step 10 (t2, node_index)) = Ok t' /\ PI t' 0.
Proof.
  intros HP Hmax Hc.
  destruct (preinc_PI t c HP Hmax Hc) as (P2 & N1 & N2).
  destruct HP as [Tl _ _ _]. destruct Tl as (T1 & T2 & T3 & T4 & T5 & T6 & T7 & T8).
  unfold rd_freq, wr_freq, rd_leaf_nodes. rewrite rd_ok by lia. cbn [bind].
  rewrite u16_id by lia. rewrite wr_ok by lia. cbn [bind].
  unfold set_freq at 1. cbn [t_leaf_nodes]. rewrite rd_ok by lia. cbn [bind].
  apply ifc_loop_ok; assumption.
Qed.

Lemma ifc_norebuild t c : PI t 0 -> aget (t_freq t) 0 < 32768 -> c < 314 ->
  exists t', increment_for_code t c = Ok t' /\ PI t' 0.
Proof.
  intros HP Hmax Hc. unfold increment_for_code.
  pose proof HP as [Tl _ _ _]. destruct Tl as (T1 & T2 & T3 & T4 & T5 & T6 & T7 & T8).
  unfold rd_freq at 1. rewrite rd_ok by lia. cbn [bind].
  unfold lh1_TREE_REORDER_LIMIT. destruct (N.leb_spec 32768 (aget (t_freq t) 0)); [lia|].
  cbn [bind]. apply ifc_tail; auto. lia.
Qed.

(* P_Lh1e -- part E: reconstruct_tree, phase 1 (gather_leaves) *)

(* number of leaves before position i *)
Definition rk (L0 : arr) (i : N) : N := sumf (fun j => aget L0 j) (N.to_nat i).

Strategy expand [rk].

Lemma rk_0 L0 : rk L0 0 = 0.
Proof. reflexivity. Qed.

Lemma rk_succ L0 i : rk L0 (i + 1) = rk L0 i + aget L0 i.
Proof.
  unfold rk. replace (N.to_nat (i + 1)) with (S (N.to_nat i)) by lia.
  rewrite sumf_S. rewrite N2Nat.id. reflexivity.
Qed.

Lemma rk_mono L0 i j : i <= j -> rk L0 i <= rk L0 j.
Proof.
  intros H. replace j with (i + N.of_nat (N.to_nat (j - i))) by lia.
  generalize (N.to_nat (j - i)) as d. induction d as [|d IH].
  - replace (i + N.of_nat 0) with i by lia. lia.
  - replace (i + N.of_nat (S d)) with (i + N.of_nat d + 1) by lia. rewrite rk_succ. lia.
Qed.

Lemma rk_le L0 i : (forall j, j < i -> aget L0 j <= 1) -> rk L0 i <= i.
Proof.
  intros H. replace i with (N.of_nat (N.to_nat i)) in * by lia.
  generalize dependent (N.to_nat i). intros d. induction d as [|d IH]; intros H.
  - cbn. lia.
  - replace (N.of_nat (S d)) with (N.of_nat d + 1) by lia. rewrite rk_succ.
    assert (rk L0 (N.of_nat d) <= N.of_nat d) by (apply IH; intros j Hj; apply H; lia).
    assert (aget L0 (N.of_nat d) <= 1) by (apply H; lia). lia.
Qed.

(* every rank below the total is the rank of some leaf *)
Lemma rk_onto L0 : (forall j, aget L0 j <= 1) -> forall i k, k < rk L0 i ->
  exists j, j < i /\ aget L0 j = 1 /\ rk L0 j = k.
Proof.
  intros H i. replace i with (N.of_nat (N.to_nat i)) by lia.
  generalize (N.to_nat i) as d. induction d as [|d IH]; intros k Hk.
  - cbn in Hk. lia.
  - replace (N.of_nat (S d)) with (N.of_nat d + 1) in * by lia. rewrite rk_succ in Hk.
    destruct (N.lt_ge_cases k (rk L0 (N.of_nat d))) as [X|X].
    + destruct (IH k X) as (j & A & B & C). exists j. split; [lia|]. split; assumption.
    + pose proof (H (N.of_nat d)). exists (N.of_nat d). split; [lia|]. split; lia.
Qed.

Lemma to_nat627 : N.to_nat 627 = 627%nat.
Proof. vm_compute. reflexivity. Qed.
Lemma to_nat314 : N.to_nat 314 = 314%nat.
Proof. vm_compute. reflexivity. Qed.

Definition half (f : N) : N := (f + 1) / 2.

Section Gather.
  Variable t0 : lh1_tree.
  Hypothesis HP : PI t0 0.

  Let L0 := t_leaf t0.
  Let C0 := t_child t0.
  Let F0 := t_freq t0.

  (* state of the scan at position i *)
  Record GInv (t : lh1_tree) (i : N) : Prop := {
    gv_len : tlen t;
    gv_same : t_parent t = t_parent t0 /\ t_group t = t_group t0 /\ t_leaf_nodes t = t_leaf_nodes t0 /\
              t_groups t = t_groups t0 /\ t_num_groups t = t_num_groups t0 /\
              t_group_leader t = t_group_leader t0;
    gv_done : forall j, j < i -> aget L0 j = 1 ->
      aget (t_leaf t) (rk L0 j) = 1 /\ aget (t_child t) (rk L0 j) = aget C0 j /\
      aget (t_freq t) (rk L0 j) = half (aget F0 j);
    gv_rest : forall j, i <= j -> j < 627 ->
      aget (t_leaf t) j = aget L0 j /\ aget (t_child t) j = aget C0 j /\ aget (t_freq t) j = aget F0 j
  }.

  Lemma L0_le1 j : j < 627 -> aget L0 j <= 1.
  Proof. intros Hj. destruct HP as [_ S _ _]. apply (si_node _ _ _ _ S j Hj). Qed.

  Lemma rk_le627 i : i <= 627 -> rk L0 i <= i.
  Proof. intros Hi. apply rk_le. intros j Hj. apply L0_le1. lia. Qed.

  Lemma half_le f : f <= 32768 -> half f <= 16384.
  Proof. intros H. unfold half. lia. Qed.

  Lemma gather_ok n : forall t i, GInv t i -> i + N.of_nat n = 627 ->
    exists t', gather_leaves n t i (rk L0 i) = Ok t' /\ GInv t' 627.
  Proof.
    induction n as [|n IH]; intros t i Gv Hi.
    - replace i with 627 in * by lia. exists t. split; [reflexivity|exact Gv].
    - assert (Hi' : i < 627) by lia.
      cbn [gather_leaves].
      destruct Gv as [Tl Sm Dn Rs].
      pose proof Tl as (T1 & T2 & T3 & T4 & T5 & T6 & T7 & T8).
      destruct (Rs i ltac:(lia) Hi') as (R1 & R2 & R3).
      unfold rd_leaf. rewrite rd_ok by lia. cbn [bind]. rewrite R1.
      pose proof (L0_le1 i Hi') as Hl.
      pose proof (rk_le627 i ltac:(lia)) as Hr.
      destruct (N.eqb_spec (aget L0 i) 0) as [E|E]; cbn [negb].
      + replace (rk L0 i) with (rk L0 (i + 1)) by (rewrite rk_succ; lia).
        apply IH; [|lia]. constructor; auto.
        * intros j Hj Lj. apply Dn; [|exact Lj]. destruct (N.eq_dec j i) as [->|]; [lia|lia].
        * intros j Hj1 Hj2. apply Rs; lia.
      + assert (E1 : aget L0 i = 1) by lia.
        destruct HP as [_ S Fi _].
        pose proof (si_node _ _ _ _ S i Hi') as (_ & Nc & _). specialize (Nc E1). fold C0 in Nc.
        pose proof (fi_le_root _ _ _ _ Fi i Hi') as Fr. pose proof (fi_max _ _ _ _ Fi) as Mx. fold F0 in Fr, Mx.
        unfold wr_leaf, rd_child, wr_child, rd_freq, wr_freq, set_leaf, set_child, set_freq.
        cbn [t_leaf t_child t_parent t_freq t_group t_leaf_nodes t_groups t_num_groups t_group_leader].
        rewrite (wr_ok 841 (t_leaf t)) by lia. cbn [bind].
        cbn [t_leaf t_child t_parent t_freq t_group t_leaf_nodes t_groups t_num_groups t_group_leader].
        rewrite (rd_ok 842) by lia. cbn [bind]. rewrite R2.
        rewrite land15_id by lia.
        rewrite (wr_ok 841 (t_child t)) by lia. cbn [bind].
        cbn [t_leaf t_child t_parent t_freq t_group t_leaf_nodes t_groups t_num_groups t_group_leader].
        rewrite (rd_ok 843) by lia. cbn [bind]. rewrite R3.
        rewrite (u16_id (aget F0 i + 1)) by lia.
        pose proof (half_le (aget F0 i) ltac:(lia)) as Hh. unfold half in Hh.
        rewrite (u16_id ((aget F0 i + 1) / 2)) by lia.
        rewrite (wr_ok 841 (t_freq t)) by lia. cbn [bind].
        change (N.land 1 1) with 1.
        replace (rk L0 i + 1) with (rk L0 (i + 1)) by (rewrite rk_succ; lia).
        apply IH; [|lia].
        destruct Sm as (S1 & S2 & S3 & S4 & S5 & S6).
        constructor.
        * unfold tlen. cbn [t_leaf t_child t_parent t_freq t_group t_leaf_nodes t_groups t_num_groups t_group_leader].
          rewrite !alen_aset. repeat split; assumption.
        * cbn [t_leaf t_child t_parent t_freq t_group t_leaf_nodes t_groups t_num_groups t_group_leader].
          repeat split; assumption.
        * intros j Hj Lj.
          cbn [t_leaf t_child t_parent t_freq t_group t_leaf_nodes t_groups t_num_groups t_group_leader].
          rewrite !aget_aset.
          destruct (N.eq_dec j i) as [->|Hne].
          -- rewrite N.eqb_refl. unfold half. auto.
          -- assert (rk L0 j < rk L0 i).
             { pose proof (rk_mono L0 (j + 1) i ltac:(lia)) as M. rewrite rk_succ in M. lia. }
             destruct (N.eqb_spec (rk L0 i) (rk L0 j)); [lia|]. apply Dn; [lia|exact Lj].
        * intros j Hj1 Hj2.
          cbn [t_leaf t_child t_parent t_freq t_group t_leaf_nodes t_groups t_num_groups t_group_leader].
          rewrite !aget_aset. destruct (N.eqb_spec (rk L0 i) j); [lia|]. apply Rs; lia.
  Qed.

  Lemma GInv_init : GInv t0 0.
  Proof.
    constructor.
    - apply HP.
    - repeat split.
    - intros j Hj. lia.
    - intros j _ _. auto.
  Qed.

  Lemma gather_total : exists t1, gather_leaves (N.to_nat lh1_NUM_TREE_NODES) t0 0 0 = Ok t1 /\ GInv t1 627.
  Proof.
    pose proof (gather_ok (N.to_nat lh1_NUM_TREE_NODES) t0 0 GInv_init) as X.
    rewrite rk_0 in X. apply X. reflexivity.
  Qed.
End Gather.

(* what the rebuild loop needs to know about the gathered leaves *)
Record GA (L1 C1 F1 : arr) (T : N) : Prop := {
  ga_leaf : forall k, k < 314 -> aget L1 k = 1;
  ga_code : forall k, k < 314 -> aget C1 k < 314;
  ga_inj : forall k k', k < 314 -> k' < 314 -> aget C1 k = aget C1 k' -> k = k';
  ga_surj : forall c, c < 314 -> exists k, k < 314 /\ aget C1 k = c;
  ga_pos : forall k, k < 314 -> 1 <= aget F1 k;
  ga_le : forall k, k < 314 -> aget F1 k <= 16384;
  ga_sorted : forall k, k < 313 -> aget F1 (k + 1) <= aget F1 k;
  ga_sum : sumf (fun k => aget F1 k) 314 = T;
  ga_T : T <= 16541
}.

Lemma half_mono a b : a <= b -> half a <= half b.
Proof. intros H. unfold half. apply N.div_le_mono; lia. Qed.

Lemma half_pos a : 1 <= a -> 1 <= half a.
Proof. intros H. unfold half. lia. Qed.

Lemma half_double a : 2 * half a <= a + 1.
Proof. unfold half. lia. Qed.

Section Gathered.
  Variables t0 t1 : lh1_tree.
  Hypothesis HP : PI t0 0.
  Hypothesis Gv : GInv t0 t1 627.

  Let L0 := t_leaf t0.
  Let C0 := t_child t0.
  Let F0 := t_freq t0.

  Lemma rk_total : rk L0 627 = 314.
  Proof. destruct HP as [_ S _ _]. unfold rk. rewrite to_nat627. exact (si_cnt _ _ _ _ S). Qed.

  Lemma rank_pos k : k < 314 -> exists j, j < 627 /\ aget L0 j = 1 /\ rk L0 j = k.
  Proof.
    intros Hk.
    assert (G : forall d k, k < rk L0 (N.of_nat d) -> N.of_nat d <= 627 ->
                exists j, j < N.of_nat d /\ aget L0 j = 1 /\ rk L0 j = k).
    { induction d as [|d IH]; intros k0 Hk0 Hd.
      - cbn in Hk0. lia.
      - replace (N.of_nat (S d)) with (N.of_nat d + 1) in * by lia. rewrite rk_succ in Hk0.
        destruct (N.lt_ge_cases k0 (rk L0 (N.of_nat d))) as [X|X].
        + destruct (IH k0 X ltac:(lia)) as (j & A & B & C). exists j. split; [lia|]. split; assumption.
        + pose proof (L0_le1 t0 HP (N.of_nat d) ltac:(lia)) as Q. fold L0 in Q.
          exists (N.of_nat d). split; [lia|]. split; lia. }
    specialize (G 627%nat k). rewrite of627 in G. rewrite rk_total in G.
    destruct (G Hk ltac:(lia)) as (j & A & B & C). exists j. auto.
  Qed.

  Lemma rank_lt j : j < 627 -> aget L0 j = 1 -> rk L0 j < 314.
  Proof.
    intros Hj Lj. pose proof (rk_mono L0 (j + 1) 627 ltac:(lia)) as M.
    rewrite rk_succ, rk_total in M. lia.
  Qed.

  Lemma rank_inj j j' : j < 627 -> j' < 627 -> aget L0 j = 1 -> aget L0 j' = 1 -> rk L0 j = rk L0 j' -> j = j'.
  Proof.
    intros Hj Hj' Lj Lj' E.
    destruct (N.lt_trichotomy j j') as [X|[X|X]]; [|exact X|].
    - pose proof (rk_mono L0 (j + 1) j' ltac:(lia)) as M. rewrite rk_succ in M. lia.
    - pose proof (rk_mono L0 (j' + 1) j ltac:(lia)) as M. rewrite rk_succ in M. lia.
  Qed.

  Lemma gathered_sum_aux d : N.of_nat d <= 627 ->
    sumf (fun k => aget (t_freq t1) k) (N.to_nat (rk L0 (N.of_nat d))) =
    sumf (fun j => aget L0 j * half (aget F0 j)) d.
  Proof.
    induction d as [|d IH]; intros Hd.
    - reflexivity.
    - replace (N.of_nat (S d)) with (N.of_nat d + 1) by lia. rewrite rk_succ, sumf_S.
      rewrite <- IH by lia.
      pose proof (L0_le1 t0 HP (N.of_nat d) ltac:(lia)) as Hl. fold L0 in Hl.
      destruct (N.eq_dec (aget L0 (N.of_nat d)) 0) as [E|E].
      + rewrite E. rewrite N.add_0_r. lia.
      + assert (E1 : aget L0 (N.of_nat d) = 1) by lia. rewrite E1.
        replace (N.to_nat (rk L0 (N.of_nat d) + 1)) with (S (N.to_nat (rk L0 (N.of_nat d)))) by lia.
        rewrite sumf_S. rewrite N2Nat.id.
        destruct (gv_done _ _ _ Gv (N.of_nat d) ltac:(lia) E1) as (_ & _ & X). fold L0 in X. rewrite X.
        fold F0. lia.
  Qed.

  Lemma gathered_GA : GA (t_leaf t1) (t_child t1) (t_freq t1) (sumf (fun k => aget (t_freq t1) k) 314).
  Proof.
    pose proof HP as [_ S Fi _].
    constructor.
    - intros k Hk. destruct (rank_pos k Hk) as (j & A & B & C).
      destruct (gv_done _ _ _ Gv j A B) as (X & _ & _). fold L0 in X. rewrite C in X. exact X.
    - intros k Hk. destruct (rank_pos k Hk) as (j & A & B & C).
      destruct (gv_done _ _ _ Gv j A B) as (_ & X & _). fold L0 in X. rewrite C in X. rewrite X.
      apply (si_node _ _ _ _ S j A). exact B.
    - intros k k' Hk Hk' E.
      destruct (rank_pos k Hk) as (j & A & B & C). destruct (rank_pos k' Hk') as (j' & A' & B' & C').
      destruct (gv_done _ _ _ Gv j A B) as (_ & X & _). fold L0 in X. rewrite C in X.
      destruct (gv_done _ _ _ Gv j' A' B') as (_ & X' & _). fold L0 in X'. rewrite C' in X'.
      rewrite X, X' in E.
      assert (j = j').
      { pose proof (si_node _ _ _ _ S j A) as (_ & Q & _). specialize (Q B).
        pose proof (si_ln _ _ _ _ S (aget (t_child t0) j) j Q A) as [_ Y1]. specialize (Y1 (conj B eq_refl)).
        pose proof (si_ln _ _ _ _ S (aget (t_child t0) j) j' Q A') as [_ Y2]. specialize (Y2 (conj B' (eq_sym E))).
        congruence. }
      subst j'. congruence.
    - intros c Hc. pose proof (si_lnb _ _ _ _ S c Hc) as A.
      pose proof (si_ln _ _ _ _ S c _ Hc A) as [Y _]. specialize (Y eq_refl). destruct Y as [B Cc].
      exists (rk L0 (aget (t_leaf_nodes t0) c)). split; [apply rank_lt; assumption|].
      destruct (gv_done _ _ _ Gv _ A B) as (_ & X & _). fold L0 in X. rewrite X. exact Cc.
    - intros k Hk. destruct (rank_pos k Hk) as (j & A & B & C).
      destruct (gv_done _ _ _ Gv j A B) as (_ & _ & X). fold L0 in X. rewrite C in X. rewrite X.
      apply half_pos. apply (fi_pos _ _ _ _ Fi j A).
    - intros k Hk. destruct (rank_pos k Hk) as (j & A & B & C).
      destruct (gv_done _ _ _ Gv j A B) as (_ & _ & X). fold L0 in X. rewrite C in X. rewrite X.
      apply half_le. pose proof (fi_le_root _ _ _ _ Fi j A). pose proof (fi_max _ _ _ _ Fi). lia.
    - intros k Hk.
      destruct (rank_pos k ltac:(lia)) as (j & A & B & C). destruct (rank_pos (k + 1) ltac:(lia)) as (j' & A' & B' & C').
      destruct (gv_done _ _ _ Gv j A B) as (_ & _ & X). fold L0 in X. rewrite C in X.
      destruct (gv_done _ _ _ Gv j' A' B') as (_ & _ & X'). fold L0 in X'. rewrite C' in X'.
      rewrite X, X'. apply half_mono.
      assert (j <= j').
      { destruct (N.le_gt_cases j j') as [Y|Y]; [exact Y|]. pose proof (rk_mono L0 j' j ltac:(lia)). lia. }
      apply (sorted_gen _ (fi_sorted _ _ _ _ Fi)); assumption.
    - reflexivity.
    - pose proof (gathered_sum_aux 627 ltac:(rewrite of627; lia)) as X.
      rewrite of627, rk_total in X. rewrite to_nat314 in X. rewrite X.
      pose proof (fi_ls _ _ _ _ Fi) as Y. destruct (si_root _ _ _ _ S) as [R _]. rewrite R in Y.
      pose proof (si_cnt _ _ _ _ S) as Z. pose proof (fi_max _ _ _ _ Fi) as Mx.
      unfold ls_of in Y. unfold cnt_of in Z. fold L0 F0 in Y, Z, Mx.
      assert (Q : sumf (fun j => 2 * (aget L0 j * half (aget F0 j))) 627 <=
                  sumf (fun j => aget L0 j * aget F0 j + aget L0 j) 627).
      { apply sumf_le. intros j _. pose proof (half_double (aget F0 j)). nia. }
      rewrite sumf_mul2, sumf_add in Q.
      set (a := sumf (fun j => aget L0 j * half (aget F0 j)) 627) in *.
      set (b := sumf (fun i => aget L0 i * aget F0 i) 627) in *.
      set (c := sumf (fun i => aget L0 i) 627) in *. lia.
  Qed.

  (* everything else is as in t0 *)
  Lemma gathered_rest : tlen t1 /\ t_leaf_nodes t1 = t_leaf_nodes t0.
  Proof. split; [apply Gv|]. apply (gv_same _ _ _ Gv). Qed.
End Gathered.

(* P_Lh1f -- part F: reconstruct_tree, phase 2 (the merge loop): copy step *)

(* ------------------------------------------------------------------ *)
(* sums over [0, n) and [a, a + n) with binary bounds                   *)

Definition psum (f : N -> N) (n : N) : N := sumf f (N.to_nat n).
Definition rsum (f : N -> N) (a n : N) : N := sumf (fun d => f (a + d)) (N.to_nat n).

Lemma psum_0 f : psum f 0 = 0.
Proof. reflexivity. Qed.

Lemma psum_succ f n : psum f (n + 1) = psum f n + f n.
Proof.
  unfold psum. replace (N.to_nat (n + 1)) with (S (N.to_nat n)) by lia.
  rewrite sumf_S, N2Nat.id. reflexivity.
Qed.

Lemma psum_ext f g n : (forall k, k < n -> f k = g k) -> psum f n = psum g n.
Proof. intros H. unfold psum. apply sumf_ext. intros i Hi. apply H. lia. Qed.

Lemma rsum_0 f a : rsum f a 0 = 0.
Proof. reflexivity. Qed.

Lemma rsum_right f a n : rsum f a (n + 1) = rsum f a n + f (a + n).
Proof.
  unfold rsum. replace (N.to_nat (n + 1)) with (S (N.to_nat n)) by lia.
  rewrite sumf_S, N2Nat.id. reflexivity.
Qed.

Lemma rsum_ext f g a n : (forall j, a <= j -> j < a + n -> f j = g j) -> rsum f a n = rsum g a n.
Proof. intros H. unfold rsum. apply sumf_ext. intros i Hi. apply H; lia. Qed.

Lemma rsum_left f a n : 1 <= a -> rsum f (a - 1) (n + 1) = f (a - 1) + rsum f a n.
Proof.
  intros Ha. replace n with (N.of_nat (N.to_nat n)) by lia.
  generalize (N.to_nat n) as d. induction d as [|d IH].
  - change (N.of_nat 0) with 0. rewrite (rsum_right f (a - 1) 0), !rsum_0, N.add_0_r. lia.
  - replace (N.of_nat (S d)) with (N.of_nat d + 1) by lia.
    rewrite (rsum_right f (a - 1)), IH, (rsum_right f a).
    replace (a - 1 + (N.of_nat d + 1)) with (a + N.of_nat d) by lia. lia.
Qed.

Lemma rsum_left' f p n : rsum f p (n + 1) = f p + rsum f (p + 1) n.
Proof. pose proof (rsum_left f (p + 1) n ltac:(lia)) as X. replace (p + 1 - 1) with p in X by lia. exact X. Qed.

Lemma rsum_psum f n : rsum f 0 n = psum f n.
Proof. unfold rsum, psum. apply sumf_ext. intros i _. reflexivity. Qed.

Lemma rsum_ge_last2 f a n : f (a + n) + f (a + n + 1) <= rsum f a (n + 2).
Proof.
  replace (n + 2) with (n + 1 + 1) by lia. rewrite !rsum_right.
  replace (a + (n + 1)) with (a + n + 1) by lia. lia.
Qed.

(* ------------------------------------------------------------------ *)
(* copy_leaf                                                            *)

Definition copy_tree (t : lh1_tree) (ii li : N) : lh1_tree :=
  mkT (aset (t_leaf t) ii (aget (t_leaf t) li)) (aset (t_child t) ii (aget (t_child t) li))
      (aset (t_parent t) ii (u16 (aget (t_parent t) li))) (aset (t_freq t) ii (aget (t_freq t) li))
      (aset (t_group t) ii (u16 (aget (t_group t) li)))
      (aset (t_leaf_nodes t) (aget (t_child t) li) ii) (t_groups t) (t_num_groups t) (t_group_leader t).

Ltac tprojf := cbn [t_leaf t_child t_parent t_freq t_group t_leaf_nodes t_groups t_num_groups t_group_leader].

Lemma copy_leaf_eq sa sb sc t ii li : tlen t -> ii < 627 -> li < 627 ->
  aget (t_leaf t) li <= 1 -> aget (t_child t) li < 314 -> aget (t_freq t) li < 65536 ->
  copy_leaf sa sb sc t (Z.of_N ii) (Z.of_N li) =
  Ok (copy_tree t ii li, (Z.of_N ii - 1)%Z, (Z.of_N li - 1)%Z).
Proof.
  intros (T1 & T2 & T3 & T4 & T5 & T6 & T7 & T8) Hi Hl A B C.
  unfold copy_leaf, zi.
  destruct (Z.ltb_spec (Z.of_N li) 0); [lia|]. cbn [bind].
  destruct (Z.ltb_spec (Z.of_N ii) 0); [lia|]. cbn [bind].
  rewrite !N2Z.id.
  unfold rd_leaf, rd_child, rd_parent, rd_freq, rd_group.
  rewrite !rd_ok by lia. cbn [bind].
  unfold wr_leaf, wr_child, wr_parent, wr_freq, wr_group, wr_leaf_nodes,
    set_leaf, set_child, set_parent, set_freq, set_group, set_leaf_nodes.
  rewrite (wr_ok sb (t_leaf t)) by lia. cbn [bind]. tprojf.
  rewrite (wr_ok sb (t_child t)) by lia. cbn [bind]. tprojf.
  rewrite (wr_ok sb (t_parent t)) by lia. cbn [bind]. tprojf.
  rewrite (wr_ok sb (t_freq t)) by lia. cbn [bind]. tprojf.
  rewrite (wr_ok sb (t_group t)) by lia. cbn [bind]. tprojf.
  rewrite (wr_ok sc (t_leaf_nodes t)) by lia. cbn [bind].
  rewrite land1_id by lia. rewrite land15_id by lia. rewrite (u16_id (aget (t_freq t) li)) by lia.
  rewrite u16z_id by lia. rewrite N2Z.id. rewrite (u16_id ii) by lia.
  reflexivity.
Qed.

(* ------------------------------------------------------------------ *)
(* the merge loop invariant.  ib = i + 1: the built nodes are [ib, 627);
   lb = leaf + 1: the leaves still to be placed are [0, lb); b branch nodes
   have been built, child = 626 - 2 b.                                   *)

Section Merge.
  Variables C1 F1 : arr.
  Variable T : N.
  Variable L1 : arr.
  Hypothesis Ga : GA L1 C1 F1 T.

  Record CP (t : lh1_tree) (ib lb b : N) : Prop := {
    cp_len : tlen t;
    cp_b : b <= 313;
    cp_rel : ib + b = 313 + lb;
    cp_lb : lb <= 314;
    cp_ib : ib + 2 * b <= 627;
    cp_rem : forall k, k < lb ->
      aget (t_leaf t) k = 1 /\ aget (t_child t) k = aget C1 k /\ aget (t_freq t) k = aget F1 k;
    cp_node : forall j, ib <= j -> j < 627 -> aget (t_leaf t) j <= 1 /\ 1 <= aget (t_freq t) j;
    cp_sorted : forall j, ib <= j -> j < 626 -> aget (t_freq t) (j + 1) <= aget (t_freq t) j;
    cp_top : 1 <= lb -> ib <= 626 -> aget (t_freq t) ib <= aget F1 (lb - 1);
    cp_leafb : forall j, ib <= j -> j < 627 -> aget (t_leaf t) j = 1 ->
      exists k, lb <= k /\ k < 314 /\ aget (t_child t) j = aget C1 k /\ aget (t_leaf_nodes t) (aget C1 k) = j;
    cp_leaff : forall k, lb <= k -> k < 314 ->
      ib <= aget (t_leaf_nodes t) (aget C1 k) /\ aget (t_leaf_nodes t) (aget C1 k) < 627 /\
      aget (t_leaf t) (aget (t_leaf_nodes t) (aget C1 k)) = 1 /\
      aget (t_child t) (aget (t_leaf_nodes t) (aget C1 k)) = aget C1 k;
    cp_brb : forall j, ib <= j -> j < 627 -> aget (t_leaf t) j = 0 ->
      j + 2 <= aget (t_child t) j /\
      (exists b', b' < b /\ aget (t_child t) j = 626 - 2 * b') /\
      aget (t_parent t) (aget (t_child t) j) = j /\ aget (t_parent t) (aget (t_child t) j - 1) = j /\
      aget (t_freq t) j = aget (t_freq t) (aget (t_child t) j) + aget (t_freq t) (aget (t_child t) j - 1);
    cp_brf : forall x, 626 - 2 * b < x -> x < 627 ->
      ib <= aget (t_parent t) x /\ aget (t_parent t) x < 627 /\
      aget (t_leaf t) (aget (t_parent t) x) = 0 /\
      (aget (t_child t) (aget (t_parent t) x) = x \/ aget (t_child t) (aget (t_parent t) x) = x + 1);
    cp_forest : rsum (fun j => aget (t_freq t) j) ib (627 - 2 * b - ib) + psum (fun k => aget (t_freq t) k) lb = T;
    cp_cnt : rsum (fun j => aget (t_leaf t) j) ib (627 - ib) + lb = 314;
    cp_ls : rsum (fun j => aget (t_leaf t) j * aget (t_freq t) j) ib (627 - ib) +
            psum (fun k => aget (t_freq t) k) lb = T
  }.

  (* placing the last remaining leaf just below the built nodes *)
  Lemma cp_copy t ib lb b : CP t ib lb b -> 1 <= lb -> b <= 312 ->
    CP (copy_tree t (ib - 1) (lb - 1)) (ib - 1) (lb - 1) b.
  Proof.
    intros Cp Hlb Hb.
    pose proof (cp_rel _ _ _ _ Cp) as Rel. pose proof (cp_lb _ _ _ _ Cp) as Lb. pose proof (cp_ib _ _ _ _ Cp) as Ib.
    set (p := ib - 1). set (q := lb - 1).
    assert (Hq : q < 314) by lia. assert (Hqp : q < p) by lia. assert (Hp : p < 627) by lia.
    assert (Hpib : p + 1 = ib) by lia.
    destruct (cp_rem _ _ _ _ Cp q ltac:(lia)) as (Q1 & Q2 & Q3).
    pose proof (ga_pos _ _ _ _ Ga q Hq) as Qpos. pose proof (ga_code _ _ _ _ Ga q Hq) as Qc.
    unfold copy_tree. rewrite Q1, Q2, Q3.
    set (L := t_leaf t) in *. set (C := t_child t) in *. set (F := t_freq t) in *.
    set (LN := t_leaf_nodes t) in *. set (P := t_parent t) in *.
    constructor; tprojf.
    - destruct (cp_len _ _ _ _ Cp) as (T1 & T2 & T3 & T4 & T5 & T6 & T7 & T8).
      unfold tlen. tprojf. rewrite !alen_aset. repeat split; assumption.
    - exact (cp_b _ _ _ _ Cp).
    - lia.
    - lia.
    - lia.
    - intros k Hk. rewrite !aget_aset. destruct (N.eqb_spec p k); [lia|]. apply (cp_rem _ _ _ _ Cp). lia.
    - intros j Hj1 Hj2. rewrite !aget_aset. destruct (N.eqb_spec p j); [lia|]. apply (cp_node _ _ _ _ Cp); lia.
    - intros j Hj1 Hj2. rewrite !aget_aset.
      destruct (N.eqb_spec p (j + 1)); [lia|].
      destruct (N.eqb_spec p j) as [E|E].
      + pose proof (cp_top _ _ _ _ Cp Hlb ltac:(lia)) as X. fold F in X. replace (j + 1) with ib by lia. exact X.
      + apply (cp_sorted _ _ _ _ Cp); lia.
    - intros Hq1 _. rewrite aget_aset, N.eqb_refl.
      pose proof (ga_sorted _ _ _ _ Ga (q - 1) ltac:(lia)) as X. replace (q - 1 + 1) with q in X by lia. exact X.
    - intros j Hj1 Hj2. rewrite !aget_aset. destruct (N.eqb_spec p j) as [E|E].
      + intros _. exists q. split; [lia|]. split; [exact Hq|]. split; [reflexivity|].
        rewrite aget_aset_eq. exact E.
      + intros Lj. destruct (cp_leafb _ _ _ _ Cp j ltac:(lia) Hj2 Lj) as (k & K1 & K2 & K3 & K4).
        exists k. split; [lia|]. split; [exact K2|]. split; [exact K3|]. rewrite aget_aset.
        destruct (N.eqb_spec (aget C1 q) (aget C1 k)) as [E'|E']; [|exact K4].
        apply (ga_inj _ _ _ _ Ga) in E'; lia.
    - intros k Hk1 Hk2. destruct (N.eq_dec k q) as [->|Hne].
      + rewrite !aget_aset, N.eqb_refl. rewrite N.eqb_refl. repeat split; lia.
      + destruct (cp_leaff _ _ _ _ Cp k ltac:(lia) Hk2) as (K1 & K2 & K3 & K4).
        rewrite (aget_aset LN).
        destruct (N.eqb_spec (aget C1 q) (aget C1 k)) as [E'|E']; [apply (ga_inj _ _ _ _ Ga) in E'; lia|].
        fold LN in K1, K2, K3, K4. rewrite !aget_aset.
        destruct (N.eqb_spec p (aget LN (aget C1 k))); [lia|]. repeat split; try assumption; lia.
    - intros j Hj1 Hj2. rewrite (aget_aset L). destruct (N.eqb_spec p j) as [E|E]; [lia|].
      intros Lj. destruct (cp_brb _ _ _ _ Cp j ltac:(lia) Hj2 Lj) as (B1 & B2 & B3 & B4 & B5).
      fold C P F in B1, B2, B3, B4, B5. rewrite !aget_aset. destruct (N.eqb_spec p j); [lia|].
      destruct (N.eqb_spec p (aget C j)); [lia|]. destruct (N.eqb_spec p (aget C j - 1)); [lia|].
      split; [exact B1|]. split; [exact B2|]. split; [exact B3|]. split; [exact B4|exact B5].
    - intros x Hx1 Hx2. destruct (cp_brf _ _ _ _ Cp x Hx1 Hx2) as (B1 & B2 & B3 & B4).
      fold P L C in B1, B2, B3, B4. rewrite (aget_aset P). destruct (N.eqb_spec p x); [lia|].
      rewrite !aget_aset. destruct (N.eqb_spec p (aget P x)); [lia|].
      split; [lia|]. split; [exact B2|]. split; [exact B3|exact B4].
    - pose proof (cp_forest _ _ _ _ Cp) as X. fold F in X.
      replace (627 - 2 * b - p) with (627 - 2 * b - ib + 1) by lia.
      rewrite rsum_left'. rewrite Hpib.
      rewrite aget_aset, N.eqb_refl.
      rewrite (rsum_ext (fun j => aget (aset F p (aget F1 q)) j) (fun j => aget F j))
        by (intros j A B; rewrite aget_aset; destruct (N.eqb_spec p j); [lia|reflexivity]).
      rewrite (psum_ext (fun k => aget (aset F p (aget F1 q)) k) (fun k => aget F k))
        by (intros k A; rewrite aget_aset; destruct (N.eqb_spec p k); [lia|reflexivity]).
      replace lb with (q + 1) in X by lia. rewrite psum_succ in X. fold F in Q3. rewrite Q3 in X.
      set (s1 := rsum _ _ _) in *. set (s2 := psum _ _) in *. lia.
    - pose proof (cp_cnt _ _ _ _ Cp) as X. fold L in X.
      replace (627 - p) with (627 - ib + 1) by lia.
      rewrite rsum_left'. rewrite Hpib.
      rewrite aget_aset, N.eqb_refl.
      rewrite (rsum_ext (fun j => aget (aset L p 1) j) (fun j => aget L j))
        by (intros j A B; rewrite aget_aset; destruct (N.eqb_spec p j); [lia|reflexivity]).
      set (s1 := rsum _ _ _) in *. lia.
    - pose proof (cp_ls _ _ _ _ Cp) as X. fold L F in X.
      replace (627 - p) with (627 - ib + 1) by lia.
      rewrite rsum_left'. rewrite Hpib.
      rewrite !aget_aset, N.eqb_refl.
      rewrite (rsum_ext (fun j => aget (aset L p 1) j * aget (aset F p (aget F1 q)) j) (fun j => aget L j * aget F j))
        by (intros j A B; rewrite !aget_aset; destruct (N.eqb_spec p j); [lia|reflexivity]).
      rewrite (psum_ext (fun k => aget (aset F p (aget F1 q)) k) (fun k => aget F k))
        by (intros k A; rewrite aget_aset; destruct (N.eqb_spec p k); [lia|reflexivity]).
      replace lb with (q + 1) in X by lia. rewrite psum_succ in X. fold F in Q3. rewrite Q3 in X.
      set (s1 := rsum _ _ _) in *. set (s2 := psum _ _) in *. lia.
  Qed.

  Definition branch_tree (t : lh1_tree) (p child freq : N) : lh1_tree :=
    mkT (aset (t_leaf t) p 0) (aset (t_child t) p child)
        (aset (aset (t_parent t) child p) (child - 1) p) (aset (t_freq t) p freq)
        (t_group t) (t_leaf_nodes t) (t_groups t) (t_num_groups t) (t_group_leader t).

  Definition HEAD (t : lh1_tree) (ib b : N) : Prop :=
    (b = 0 /\ ib = 627) \/
    (1 <= b /\ ib + 2 * b <= 626 /\
     aget (t_freq t) ib <= aget (t_freq t) (627 - 2 * b) + aget (t_freq t) (628 - 2 * b)).

  Lemma cp_freq_le t ib lb b : CP t ib lb b -> b <= 312 -> ib + 2 * b <= 625 ->
    aget (t_freq t) (626 - 2 * b) + aget (t_freq t) (626 - 2 * b - 1) <= T.
  Proof.
    intros Cp Hb Hib. pose proof (cp_forest _ _ _ _ Cp) as X.
    pose proof (rsum_ge_last2 (fun j => aget (t_freq t) j) ib (625 - 2 * b - ib)) as Y. cbv beta in Y.
    replace (625 - 2 * b - ib + 2) with (627 - 2 * b - ib) in Y by lia.
    replace (ib + (625 - 2 * b - ib)) with (626 - 2 * b - 1) in Y by lia.
    replace (626 - 2 * b - 1 + 1) with (626 - 2 * b) in Y by lia.
    set (s1 := rsum _ _ _) in *. set (s2 := psum _ _) in *. lia.
  Qed.

  Lemma cp_branch t ib lb b : CP t ib lb b -> b <= 312 -> ib + 2 * b <= 625 ->
    let child := 626 - 2 * b in
    let freq := aget (t_freq t) child + aget (t_freq t) (child - 1) in
    aget (t_freq t) ib <= freq -> (lb = 0 \/ freq < aget F1 (lb - 1)) ->
    CP (branch_tree t (ib - 1) child freq) (ib - 1) lb (b + 1) /\
    HEAD (branch_tree t (ib - 1) child freq) (ib - 1) (b + 1).
  Proof.
    intros Cp Hb Hib child freq Hfr Hex.
    pose proof (cp_rel _ _ _ _ Cp) as Rel. pose proof (cp_lb _ _ _ _ Cp) as Lb.
    set (p := ib - 1).
    assert (Hpib : p + 1 = ib) by lia. assert (Hp : p < 627) by lia.
    assert (Hplb : lb <= p) by lia.
    assert (Hc1 : child <= 626) by (unfold child; lia). assert (Hc2 : 2 <= child) by (unfold child; lia).
    assert (Hpc : p + 2 <= child) by (unfold child; lia).
    destruct (cp_node _ _ _ _ Cp child ltac:(lia) ltac:(lia)) as [_ Fc1].
    destruct (cp_node _ _ _ _ Cp (child - 1) ltac:(lia) ltac:(lia)) as [_ Fc2].
    unfold branch_tree.
    set (L := t_leaf t) in *. set (C := t_child t) in *. set (F := t_freq t) in *.
    set (LN := t_leaf_nodes t) in *. set (P := t_parent t) in *.
    split.
    - constructor; tprojf.
      + destruct (cp_len _ _ _ _ Cp) as (T1 & T2 & T3 & T4 & T5 & T6 & T7 & T8).
        unfold tlen. tprojf. rewrite !alen_aset. repeat split; assumption.
      + lia.
      + lia.
      + lia.
      + unfold child in *. lia.
      + intros k Hk. rewrite !aget_aset. destruct (N.eqb_spec p k); [lia|]. apply (cp_rem _ _ _ _ Cp). lia.
      + intros j Hj1 Hj2. rewrite !aget_aset. destruct (N.eqb_spec p j); [lia|]. apply (cp_node _ _ _ _ Cp); lia.
      + intros j Hj1 Hj2. rewrite !aget_aset.
        destruct (N.eqb_spec p (j + 1)); [lia|].
        destruct (N.eqb_spec p j) as [E|E].
        * replace (j + 1) with ib by lia. exact Hfr.
        * apply (cp_sorted _ _ _ _ Cp); lia.
      + intros Hlb1 _. rewrite aget_aset, N.eqb_refl. destruct Hex; lia.
      + intros j Hj1 Hj2. rewrite !aget_aset. destruct (N.eqb_spec p j) as [E|E]; [lia|].
        intros Lj. apply (cp_leafb _ _ _ _ Cp j ltac:(lia) Hj2 Lj).
      + intros k Hk1 Hk2. destruct (cp_leaff _ _ _ _ Cp k Hk1 Hk2) as (K1 & K2 & K3 & K4).
        fold LN L C in K1, K2, K3, K4. rewrite !aget_aset.
        destruct (N.eqb_spec p (aget LN (aget C1 k))); [lia|]. split; [lia|]. split; [exact K2|]. split; assumption.
      + intros j Hj1 Hj2. rewrite (aget_aset L). destruct (N.eqb_spec p j) as [E|E].
        * intros _. subst j. rewrite !aget_aset. rewrite !N.eqb_refl.
          destruct (N.eqb_spec (child - 1) child); [lia|]. rewrite ?N.eqb_refl.
          destruct (N.eqb_spec p child); [lia|]. destruct (N.eqb_spec p (child - 1)); [lia|].
          split; [lia|]. split; [exists b; split; [lia|reflexivity]|]. split; [reflexivity|]. split; reflexivity.
        * intros Lj. destruct (cp_brb _ _ _ _ Cp j ltac:(lia) Hj2 Lj) as (B1 & (b' & B2 & B2') & B3 & B4 & B5).
          fold C P F in B1, B2', B3, B4, B5. rewrite !aget_aset. destruct (N.eqb_spec p j); [lia|].
          assert (child + 2 <= aget C j) by (unfold child; lia).
          destruct (N.eqb_spec (child - 1) (aget C j)); [lia|]. destruct (N.eqb_spec child (aget C j)); [lia|].
          destruct (N.eqb_spec (child - 1) (aget C j - 1)); [lia|]. destruct (N.eqb_spec child (aget C j - 1)); [lia|].
          destruct (N.eqb_spec p (aget C j)); [lia|]. destruct (N.eqb_spec p (aget C j - 1)); [lia|].
          split; [exact B1|]. split; [exists b'; split; [lia|exact B2']|]. split; [exact B3|]. split; [exact B4|exact B5].
      + intros x Hx1 Hx2. rewrite (aget_aset (aset P child p)).
        destruct (N.eqb_spec (child - 1) x) as [E1|E1].
        * rewrite !aget_aset, !N.eqb_refl. split; [lia|]. split; [exact Hp|]. split; [reflexivity|]. right. lia.
        * rewrite (aget_aset P). destruct (N.eqb_spec child x) as [E2|E2].
          -- rewrite !aget_aset, !N.eqb_refl. split; [lia|]. split; [exact Hp|]. split; [reflexivity|]. left. exact E2.
          -- destruct (cp_brf _ _ _ _ Cp x ltac:(unfold child in *; lia) Hx2) as (B1 & B2 & B3 & B4).
             fold P L C in B1, B2, B3, B4. rewrite !aget_aset.
             destruct (N.eqb_spec p (aget P x)); [lia|]. split; [lia|]. split; [exact B2|]. split; [exact B3|exact B4].
      + pose proof (cp_forest _ _ _ _ Cp) as X. fold F in X.
        replace (627 - 2 * (b + 1) - p) with (625 - 2 * b - ib + 1) by lia.
        rewrite rsum_left'. rewrite Hpib. rewrite aget_aset, N.eqb_refl.
        rewrite (rsum_ext (fun j => aget (aset F p freq) j) (fun j => aget F j))
          by (intros j A B; rewrite aget_aset; destruct (N.eqb_spec p j); [lia|reflexivity]).
        rewrite (psum_ext (fun k => aget (aset F p freq) k) (fun k => aget F k))
          by (intros k A; rewrite aget_aset; destruct (N.eqb_spec p k); [lia|reflexivity]).
        replace (627 - 2 * b - ib) with (625 - 2 * b - ib + 1 + 1) in X by lia.
        rewrite !rsum_right in X.
        replace (ib + (625 - 2 * b - ib)) with (child - 1) in X by (unfold child; lia).
        replace (ib + (625 - 2 * b - ib + 1)) with child in X by (unfold child; lia).
        unfold freq. set (s1 := rsum _ _ _) in *. set (s2 := psum _ _) in *. lia.
      + pose proof (cp_cnt _ _ _ _ Cp) as X. fold L in X.
        replace (627 - p) with (627 - ib + 1) by lia.
        rewrite rsum_left'. rewrite Hpib. rewrite aget_aset, N.eqb_refl.
        rewrite (rsum_ext (fun j => aget (aset L p 0) j) (fun j => aget L j))
          by (intros j A B; rewrite aget_aset; destruct (N.eqb_spec p j); [lia|reflexivity]).
        set (s1 := rsum _ _ _) in *. lia.
      + pose proof (cp_ls _ _ _ _ Cp) as X. fold L F in X.
        replace (627 - p) with (627 - ib + 1) by lia.
        rewrite rsum_left'. rewrite Hpib. rewrite !aget_aset, N.eqb_refl.
        rewrite (rsum_ext (fun j => aget (aset L p 0) j * aget (aset F p freq) j) (fun j => aget L j * aget F j))
          by (intros j A B; rewrite !aget_aset; destruct (N.eqb_spec p j); [lia|reflexivity]).
        rewrite (psum_ext (fun k => aget (aset F p freq) k) (fun k => aget F k))
          by (intros k A; rewrite aget_aset; destruct (N.eqb_spec p k); [lia|reflexivity]).
        set (s1 := rsum _ _ _) in *. set (s2 := psum _ _) in *. lia.
    - right. tprojf. split; [lia|]. split; [unfold child in *; lia|].
      rewrite !aget_aset. rewrite N.eqb_refl.
      replace (627 - 2 * (b + 1)) with (child - 1) by (unfold child; lia).
      replace (628 - 2 * (b + 1)) with child by (unfold child; lia).
      destruct (N.eqb_spec p (child - 1)); [lia|]. destruct (N.eqb_spec p child); [lia|].
      unfold freq. lia.
  Qed.
End Merge.

(* P_Lh1g -- part G: reconstruct_tree, the merge loops *)

Lemma zpred_N n : 1 <= n -> (Z.of_N n - 1)%Z = Z.of_N (n - 1).
Proof. intros. lia. Qed.

Lemma s32_small x : x < 2147483648 -> s32 x = Z.of_N x.
Proof. intros H. unfold s32. destruct (N.ltb_spec x 2147483648); [reflexivity|lia]. Qed.

Section MergeLoops.
  Variables C1 F1 : arr.
  Variable T : N.
  Variable L1 : arr.
  Hypothesis Ga : GA L1 C1 F1 T.

  Notation CP := (CP C1 F1 T).

  (* an additional invariant carried along (used for the LZHUF side of the rebuild) *)
  Variable XI : N -> lh1_tree -> N -> N -> Prop.
  Hypothesis Xcopy : forall b t ib lb, CP t ib lb b -> 1 <= lb -> b <= 312 -> XI b t ib lb ->
    XI b (copy_tree t (ib - 1) (lb - 1)) (ib - 1) (lb - 1).
  Hypothesis Xbranch : forall b t ib lb, CP t ib lb b -> b <= 312 -> ib + 2 * b <= 625 ->
    let child := 626 - 2 * b in
    let freq := aget (t_freq t) child + aget (t_freq t) (child - 1) in
    aget (t_freq t) ib <= freq -> (lb = 0 \/ freq < aget F1 (lb - 1)) -> XI b t ib lb ->
    XI (b + 1) (branch_tree t (ib - 1) child freq) (ib - 1) lb.

  Lemma cp_copy_pre t ib lb b : CP t ib lb b -> 1 <= lb -> b <= 312 ->
    tlen t /\ ib - 1 < 627 /\ lb - 1 < 627 /\ aget (t_leaf t) (lb - 1) <= 1 /\
    aget (t_child t) (lb - 1) < 314 /\ aget (t_freq t) (lb - 1) < 65536 /\ 1 <= ib.
  Proof.
    intros Cp Hlb Hb.
    pose proof (cp_rel _ _ _ _ _ _ _ Cp). pose proof (cp_lb _ _ _ _ _ _ _ Cp). pose proof (cp_ib _ _ _ _ _ _ _ Cp).
    destruct (cp_rem _ _ _ _ _ _ _ Cp (lb - 1) ltac:(lia)) as (Q1 & Q2 & Q3).
    pose proof (ga_code _ _ _ _ Ga (lb - 1) ltac:(lia)). pose proof (ga_le _ _ _ _ Ga (lb - 1) ltac:(lia)).
    split; [apply (cp_len _ _ _ _ _ _ _ Cp)|]. repeat split; lia.
  Qed.

  (* ---- the fill loop: at most two copies ---- *)

  Lemma fill_step_copy t ib lb b : CP t ib lb b -> XI b t ib lb -> b <= 312 -> 626 <= ib + 2 * b ->
    rt_fill_step (626 - 2 * b) (t, (Z.of_N ib - 1)%Z, (Z.of_N lb - 1)%Z) =
    Ok (inl (copy_tree t (ib - 1) (lb - 1), (Z.of_N (ib - 1) - 1)%Z, (Z.of_N (lb - 1) - 1)%Z)) /\
    CP (copy_tree t (ib - 1) (lb - 1)) (ib - 1) (lb - 1) b /\
    XI b (copy_tree t (ib - 1) (lb - 1)) (ib - 1) (lb - 1).
  Proof.
    intros Cp Hx Hb Hc.
    pose proof (cp_rel _ _ _ _ _ _ _ Cp) as Rel.
    assert (Hlb : 1 <= lb) by lia.
    destruct (cp_copy_pre t ib lb b Cp Hlb Hb) as (A1 & A2 & A3 & A4 & A5 & A6 & A7).
    split; [|split; [apply (cp_copy C1 F1 T L1 Ga); assumption|apply Xcopy; assumption]].
    unfold rt_fill_step. rewrite s32_small by lia.
    destruct (Z.ltb_spec (Z.of_N (626 - 2 * b) - (Z.of_N ib - 1)) 2); [|lia].
    rewrite (zpred_N ib A7), (zpred_N lb Hlb).
    rewrite (copy_leaf_eq 844 845 846 t (ib - 1) (lb - 1)) by assumption. reflexivity.
  Qed.

  Lemma fill_step_exit t ib lb b : b <= 313 -> ib + 2 * b <= 625 ->
    rt_fill_step (626 - 2 * b) (t, (Z.of_N ib - 1)%Z, (Z.of_N lb - 1)%Z) =
    Ok (inr (t, (Z.of_N ib - 1)%Z, (Z.of_N lb - 1)%Z)).
  Proof.
    intros Hb Hc. unfold rt_fill_step. rewrite s32_small by lia.
    destruct (Z.ltb_spec (Z.of_N (626 - 2 * b) - (Z.of_N ib - 1)) 2); [lia|reflexivity].
  Qed.

  Lemma fill_loop t ib lb b : CP t ib lb b -> XI b t ib lb -> HEAD t ib b -> b <= 312 ->
    exists t' ib' lb',
      loop (rt_fill_step (626 - 2 * b)) 10 (t, (Z.of_N ib - 1)%Z, (Z.of_N lb - 1)%Z) =
        Ok (t', (Z.of_N ib' - 1)%Z, (Z.of_N lb' - 1)%Z) /\
      CP t' ib' lb' b /\ ib' + 2 * b <= 625 /\
      aget (t_freq t') ib' <= aget (t_freq t') (626 - 2 * b) + aget (t_freq t') (626 - 2 * b - 1) /\
      ib' <= ib /\ XI b t' ib' lb'.
  Proof.
    intros Cp Hx Hd Hb. destruct Hd as [[-> ->]|(Hb1 & Hib & Hfr)].
    - (* two copies *)
      destruct (fill_step_copy t 627 lb 0 Cp Hx ltac:(lia) ltac:(lia)) as (E1 & Cp1 & Hx1).
      change (627 - 1) with 626 in *.
      destruct (fill_step_copy _ 626 (lb - 1) 0 Cp1 Hx1 ltac:(lia) ltac:(lia)) as (E2 & Cp2 & Hx2).
      change (626 - 1) with 625 in *.
      pose proof (fill_step_exit (copy_tree (copy_tree t 626 (lb - 1)) 625 (lb - 1 - 1)) 625 (lb - 1 - 1) 0 ltac:(lia) ltac:(lia)) as E3.
      eexists _, 625, (lb - 1 - 1). split.
      + apply (loop_complete _ 10 2); [|cbn; lia].
        eapply loops_more; [exact E1|]. eapply loops_more; [exact E2|]. apply loops_done. exact E3.
      + split; [exact Cp2|]. split; [lia|]. change (626 - 2 * 0) with 626. change (626 - 1) with 625.
        split; [lia|]. split; [lia|exact Hx2].
    - destruct (N.eq_dec (ib + 2 * b) 626) as [E|E].
      + destruct (fill_step_copy t ib lb b Cp Hx Hb ltac:(lia)) as (E1 & Cp1 & Hx1).
        pose proof (fill_step_exit (copy_tree t (ib - 1) (lb - 1)) (ib - 1) (lb - 1) b ltac:(lia) ltac:(lia)) as E3.
        eexists _, (ib - 1), (lb - 1). split.
        * apply (loop_complete _ 10 1); [|cbn; lia].
          eapply loops_more; [exact E1|]. apply loops_done. exact E3.
        * split; [exact Cp1|]. split; [lia|]. replace (626 - 2 * b - 1) with (ib - 1) by lia.
          split; [lia|]. split; [lia|exact Hx1].
      + pose proof (fill_step_exit t ib lb b ltac:(lia) ltac:(lia)) as E3.
        exists t, ib, lb. split.
        * apply (loop_complete _ 10 0); [|cbn; lia]. apply loops_done. exact E3.
        * split; [exact Cp|]. split; [lia|].
          pose proof (cp_sorted _ _ _ _ _ _ _ Cp (626 - 2 * b - 1) ltac:(lia) ltac:(lia)) as S1.
          pose proof (cp_sorted _ _ _ _ _ _ _ Cp (626 - 2 * b) ltac:(lia) ltac:(lia)) as S2.
          pose proof (cp_sorted _ _ _ _ _ _ _ Cp (626 - 2 * b + 1) ltac:(lia) ltac:(lia)) as S3.
          replace (626 - 2 * b - 1 + 1) with (626 - 2 * b) in S1 by lia.
          replace (626 - 2 * b + 1) with (627 - 2 * b) in * by lia.
          replace (627 - 2 * b + 1) with (628 - 2 * b) in * by lia. split; [lia|]. split; [lia|exact Hx].
  Qed.

  (* ---- the insert loop ---- *)

  Definition JI (b freq ub : N) (t : lh1_tree) (ib lb : N) : Prop :=
    CP t ib lb b /\ ib + 2 * b <= 625 /\
    aget (t_freq t) (626 - 2 * b) + aget (t_freq t) (626 - 2 * b - 1) = freq /\
    aget (t_freq t) ib <= freq /\ ib <= ub /\ XI b t ib lb.

  Lemma insert_loop b freq ub t ib lb : JI b freq ub t ib lb -> b <= 312 ->
    exists t' ib' lb',
      loop (rt_insert_step freq) 10 (t, (Z.of_N ib - 1)%Z, (Z.of_N lb - 1)%Z) =
        Ok (t', (Z.of_N ib' - 1)%Z, (Z.of_N lb' - 1)%Z) /\
      JI b freq ub t' ib' lb' /\ (lb' = 0 \/ freq < aget F1 (lb' - 1)).
  Proof.
    intros Hj Hb.
    destruct (loop_total_ok (rt_insert_step freq)
      (fun s => exists t ib lb, s = (t, (Z.of_N ib - 1)%Z, (Z.of_N lb - 1)%Z) /\ JI b freq ub t ib lb)
      (fun r => exists t ib lb, r = (t, (Z.of_N ib - 1)%Z, (Z.of_N lb - 1)%Z) /\ JI b freq ub t ib lb /\
                                (lb = 0 \/ freq < aget F1 (lb - 1)))
      (fun s => Z.to_N (snd s + 1)) 10) with (s := (t, (Z.of_N ib - 1)%Z, (Z.of_N lb - 1)%Z)) as (r & E & Q).
    - intros s (t0 & ib0 & lb0 & -> & J0). destruct J0 as (Cp & Hib & Hfq & Hle & Hub & Hx).
      unfold rt_insert_step.
      destruct (Z.leb_spec 0 (Z.of_N lb0 - 1)) as [Hl|Hl].
      + assert (Hlb : 1 <= lb0) by lia.
        destruct (cp_copy_pre t0 ib0 lb0 b Cp Hlb Hb) as (A1 & A2 & A3 & A4 & A5 & A6 & A7).
        pose proof A1 as (T1 & T2 & T3 & T4 & T5 & T6 & T7 & T8).
        unfold rd_freq. rewrite rd_ok by lia. cbn [bind].
        replace (Z.to_N (Z.of_N lb0 - 1)) with (lb0 - 1) by lia.
        destruct (cp_rem _ _ _ _ _ _ _ Cp (lb0 - 1) ltac:(lia)) as (Q1 & Q2 & Q3). rewrite Q3.
        destruct (N.leb_spec (aget F1 (lb0 - 1)) freq) as [Hc|Hc].
        * rewrite (zpred_N ib0 A7), (zpred_N lb0 Hlb).
          rewrite (copy_leaf_eq 850 851 852 t0 (ib0 - 1) (lb0 - 1)); try assumption.
          cbn [bind]. eexists. split; [reflexivity|]. cbn [snd].
          split; [|lia].
          exists (copy_tree t0 (ib0 - 1) (lb0 - 1)), (ib0 - 1), (lb0 - 1). split; [reflexivity|].
          split; [apply (cp_copy C1 F1 T L1 Ga); assumption|]. split; [lia|].
          unfold copy_tree. cbn [t_freq]. rewrite !aget_aset.
          destruct (N.eqb_spec (ib0 - 1) (626 - 2 * b)); [lia|].
          destruct (N.eqb_spec (ib0 - 1) (626 - 2 * b - 1)); [lia|].
          rewrite N.eqb_refl. split; [exact Hfq|]. split; [rewrite Q3; exact Hc|]. split; [lia|]. apply Xcopy; assumption.
        * eexists. split; [reflexivity|]. exists t0, ib0, lb0. split; [reflexivity|].
          split; [exact (conj Cp (conj Hib (conj Hfq (conj Hle (conj Hub Hx)))))|]. right. exact Hc.
      + eexists. split; [reflexivity|]. exists t0, ib0, lb0. split; [reflexivity|].
        split; [exact (conj Cp (conj Hib (conj Hfq (conj Hle (conj Hub Hx)))))|]. left. lia.
    - exists t, ib, lb. split; [reflexivity|exact Hj].
    - cbn [snd]. pose proof (cp_lb _ _ _ _ _ _ _ (proj1 Hj)). change (2 ^ N.of_nat 10) with 1024. lia.
    - destruct Q as (t' & ib' & lb' & -> & J' & X). exists t', ib', lb'. split; [exact E|]. split; assumption.
  Qed.

  (* ---- one round of the outer loop ---- *)

  Lemma outer_step t ib lb b : CP t ib lb b -> XI b t ib lb -> HEAD t ib b -> 1 <= ib ->
    exists t' ib' lb',
      rt_outer_step (t, (Z.of_N ib - 1)%Z, (Z.of_N lb - 1)%Z, 626 - 2 * b) =
        Ok (inl (t', (Z.of_N ib' - 1)%Z, (Z.of_N lb' - 1)%Z, 626 - 2 * (b + 1))) /\
      CP t' ib' lb' (b + 1) /\ HEAD t' ib' (b + 1) /\ ib' < ib /\ XI (b + 1) t' ib' lb'.
  Proof.
    intros Cp Hx Hd Hib1.
    assert (Hb : b <= 312).
    { pose proof (cp_b _ _ _ _ _ _ _ Cp). destruct Hd as [[-> _]|(A & B & _)]; lia. }
    unfold rt_outer_step.
    destruct (Z.ltb_spec (Z.of_N ib - 1) 0); [lia|].
    destruct (fill_loop t ib lb b Cp Hx Hd Hb) as (t1 & ib1 & lb1 & E1 & Cp1 & Hib & Hfr1 & Hub1 & Hx1).
    rewrite E1. cbn [bind].
    pose proof (cp_len _ _ _ _ _ _ _ Cp1) as (T1 & T2 & T3 & T4 & T5 & T6 & T7 & T8).
    unfold rd_freq. rewrite (dec1_id (626 - 2 * b)) by lia.
    rewrite !rd_ok by lia. cbn [bind].
    pose proof (cp_freq_le C1 F1 T t1 ib1 lb1 b Cp1 Hb Hib) as Hft. pose proof (ga_T _ _ _ _ Ga) as HT.
    set (freq := aget (t_freq t1) (626 - 2 * b) + aget (t_freq t1) (626 - 2 * b - 1)) in *.
    rewrite (u32_id freq) by lia.
    destruct (insert_loop b freq ib1 t1 ib1 lb1 (conj Cp1 (conj Hib (conj eq_refl (conj Hfr1 (conj (N.le_refl ib1) Hx1))))) Hb)
      as (t2 & ib2 & lb2 & E2 & (Cp2 & Hib2 & Hfq2 & Hle2 & Hub2 & Hx2) & Hex).
    rewrite E2. cbn [bind].
    pose proof (cp_rel _ _ _ _ _ _ _ Cp2) as Rel2.
    assert (Hib21 : 1 <= ib2) by lia.
    unfold zi. destruct (Z.ltb_spec (Z.of_N ib2 - 1) 0); [lia|]. cbn [bind].
    replace (Z.to_N (Z.of_N ib2 - 1)) with (ib2 - 1) by lia.
    pose proof (cp_len _ _ _ _ _ _ _ Cp2) as (U1 & U2 & U3 & U4 & U5 & U6 & U7 & U8).
    unfold wr_leaf, wr_freq, wr_child, wr_parent, set_leaf, set_freq, set_child, set_parent.
    rewrite (wr_ok 853 (t_leaf t2)) by lia. cbn [bind].
    cbn [t_leaf t_child t_parent t_freq t_group t_leaf_nodes t_groups t_num_groups t_group_leader].
    rewrite (wr_ok 854 (t_freq t2)) by lia. cbn [bind].
    cbn [t_leaf t_child t_parent t_freq t_group t_leaf_nodes t_groups t_num_groups t_group_leader].
    rewrite (wr_ok 855 (t_child t2)) by lia. cbn [bind].
    cbn [t_leaf t_child t_parent t_freq t_group t_leaf_nodes t_groups t_num_groups t_group_leader].
    rewrite (wr_ok 856 (t_parent t2)) by lia. cbn [bind].
    cbn [t_leaf t_child t_parent t_freq t_group t_leaf_nodes t_groups t_num_groups t_group_leader].
    rewrite (wr_ok 857) by (rewrite alen_aset; lia). cbn [bind].
    cbn [t_leaf t_child t_parent t_freq t_group t_leaf_nodes t_groups t_num_groups t_group_leader].
    change (N.land 0 1) with 0.
    rewrite (u16_id freq) by lia. rewrite (u16_id (626 - 2 * b)) by lia.
    rewrite (land15_id (626 - 2 * b)) by lia.
    rewrite u16z_id by lia. replace (Z.to_N (Z.of_N ib2 - 1)) with (ib2 - 1) by lia.
    rewrite (u16_id (ib2 - 1)) by lia.
    rewrite (dec2_id (626 - 2 * b)) by lia.
    pose proof (cp_branch C1 F1 T t2 ib2 lb2 b Cp2 Hb Hib2) as XX. cbv zeta in XX.
    rewrite Hfq2 in XX. specialize (XX Hle2 Hex). destruct XX as [Cp3 Hd3].
    pose proof (Xbranch b t2 ib2 lb2 Cp2 Hb Hib2) as XB. cbv zeta in XB.
    rewrite Hfq2 in XB. specialize (XB Hle2 Hex Hx2).
    unfold branch_tree in Cp3, Hd3.
    exists (branch_tree t2 (ib2 - 1) (626 - 2 * b) freq), (ib2 - 1), lb2.
    split.
    - unfold branch_tree. rewrite (zpred_N ib2 Hib21).
      replace (626 - 2 * b - 2) with (626 - 2 * (b + 1)) by lia. reflexivity.
    - split; [exact Cp3|]. split; [exact Hd3|]. split; [lia|exact XB].
  Qed.
End MergeLoops.

(* P_Lh1h -- part H: reconstruct_tree, outer loop and the regrouping *)

Section Outer.
  Variables C1 F1 : arr.
  Variable T : N.
  Variable L1 : arr.
  Hypothesis Ga : GA L1 C1 F1 T.
  Variable XI : N -> lh1_tree -> N -> N -> Prop.
  Hypothesis Xcopy : forall b t ib lb, CP C1 F1 T t ib lb b -> 1 <= lb -> b <= 312 -> XI b t ib lb ->
    XI b (copy_tree t (ib - 1) (lb - 1)) (ib - 1) (lb - 1).
  Hypothesis Xbranch : forall b t ib lb, CP C1 F1 T t ib lb b -> b <= 312 -> ib + 2 * b <= 625 ->
    let child := 626 - 2 * b in
    let freq := aget (t_freq t) child + aget (t_freq t) (child - 1) in
    aget (t_freq t) ib <= freq -> (lb = 0 \/ freq < aget F1 (lb - 1)) -> XI b t ib lb ->
    XI (b + 1) (branch_tree t (ib - 1) child freq) (ib - 1) lb.

  Lemma outer_loop t ib lb b : CP C1 F1 T t ib lb b -> XI b t ib lb -> HEAD t ib b ->
    exists t', loop rt_outer_step 10 (t, (Z.of_N ib - 1)%Z, (Z.of_N lb - 1)%Z, 626 - 2 * b) = Ok t' /\
               CP C1 F1 T t' 0 0 313 /\ XI 313 t' 0 0.
  Proof.
    intros Cp Hx Hd.
    apply (loop_total_ok rt_outer_step
      (fun s => exists t ib lb b, s = (t, (Z.of_N ib - 1)%Z, (Z.of_N lb - 1)%Z, 626 - 2 * b) /\
                                  CP C1 F1 T t ib lb b /\ HEAD t ib b /\ XI b t ib lb)
      (fun r => CP C1 F1 T r 0 0 313 /\ XI 313 r 0 0)
      (fun s => Z.to_N (snd (fst (fst s)) + 1)) 10).
    - intros s (t0 & ib0 & lb0 & b0 & -> & Cp0 & Hd0 & Hx0).
      destruct (N.eq_dec ib0 0) as [->|Hne].
      + exists (inr t0). split.
        * unfold rt_outer_step. destruct (Z.ltb_spec (Z.of_N 0 - 1) 0); [reflexivity|lia].
        * pose proof (cp_rel _ _ _ _ _ _ _ Cp0). pose proof (cp_b _ _ _ _ _ _ _ Cp0).
          assert (lb0 = 0) by lia. assert (b0 = 313) by lia. subst. split; assumption.
      + destruct (outer_step C1 F1 T L1 Ga XI Xcopy Xbranch t0 ib0 lb0 b0 Cp0 Hx0 Hd0 ltac:(lia))
          as (t' & ib' & lb' & E & Cp' & Hd' & Hlt & Hx').
        eexists. split; [exact E|]. split.
        * exists t', ib', lb', (b0 + 1). split; [reflexivity|]. split; [assumption|]. split; assumption.
        * cbn [fst snd]. lia.
    - exists t, ib, lb, b. split; [reflexivity|]. split; [assumption|]. split; assumption.
    - cbn [fst snd]. pose proof (cp_ib _ _ _ _ _ _ _ Cp). change (2 ^ N.of_nat 10) with 1024. lia.
  Qed.
End Outer.

(* the start of the merge: all 314 leaves gathered at the front *)
Lemma cp_init t1 T : GA (t_leaf t1) (t_child t1) (t_freq t1) T -> tlen t1 ->
  CP (t_child t1) (t_freq t1) T t1 627 314 0 /\ HEAD t1 627 0.
Proof.
  intros Ga Tl. split; [|left; split; reflexivity].
  constructor.
  - exact Tl.
  - lia.
  - lia.
  - lia.
  - lia.
  - intros k Hk. split; [apply (ga_leaf _ _ _ _ Ga k Hk)|]. split; reflexivity.
  - intros j A B. lia.
  - intros j A B. lia.
  - intros A B. lia.
  - intros j A B. lia.
  - intros k A B. lia.
  - intros j A B. lia.
  - intros x A B. lia.
  - change (627 - 2 * 0 - 627) with 0. rewrite rsum_0. unfold psum. rewrite to_nat314. rewrite (ga_sum _ _ _ _ Ga). lia.
  - change (627 - 627) with 0. rewrite rsum_0. lia.
  - change (627 - 627) with 0. rewrite rsum_0. unfold psum. rewrite to_nat314. rewrite (ga_sum _ _ _ _ Ga). lia.
Qed.

Lemma rsum0_cnt L : rsum (fun j => aget L j) 0 627 = cnt_of L.
Proof. rewrite rsum_psum. unfold psum. rewrite to_nat627. reflexivity. Qed.
Lemma rsum0_ls L F : rsum (fun j => aget L j * aget F j) 0 627 = ls_of L F.
Proof. rewrite rsum_psum. unfold psum. rewrite to_nat627. reflexivity. Qed.

(* what the finished merge means *)
Lemma cp_final C1 F1 T L1 t : GA L1 C1 F1 T -> CP C1 F1 T t 0 0 313 ->
  tlen t /\ SI (t_leaf t) (t_child t) (t_parent t) (t_leaf_nodes t) /\
  FI (t_leaf t) (t_child t) (t_freq t) 0 /\ aget (t_freq t) 0 <= 16541.
Proof.
  intros Ga Cp.
  set (L := t_leaf t). set (C := t_child t). set (P := t_parent t). set (F := t_freq t). set (LN := t_leaf_nodes t).
  assert (Nd : forall j, j < 627 -> aget L j <= 1 /\ 1 <= aget F j) by (intros j Hj; apply (cp_node _ _ _ _ _ _ _ Cp); lia).
  assert (Lfb : forall j, j < 627 -> aget L j = 1 ->
            exists k, k < 314 /\ aget C j = aget C1 k /\ aget LN (aget C1 k) = j).
  { intros j Hj Lj. destruct (cp_leafb _ _ _ _ _ _ _ Cp j ltac:(lia) Hj Lj) as (k & _ & K). exists k. exact K. }
  assert (Lff : forall k, k < 314 -> aget LN (aget C1 k) < 627 /\ aget L (aget LN (aget C1 k)) = 1 /\
                                    aget C (aget LN (aget C1 k)) = aget C1 k).
  { intros k Hk. destruct (cp_leaff _ _ _ _ _ _ _ Cp k ltac:(lia) Hk) as (_ & K). exact K. }
  assert (Brb : forall j, j < 627 -> aget L j = 0 ->
            j + 2 <= aget C j /\ aget C j <= 626 /\ aget P (aget C j) = j /\ aget P (aget C j - 1) = j /\
            aget F j = aget F (aget C j) + aget F (aget C j - 1)).
  { intros j Hj Lj. destruct (cp_brb _ _ _ _ _ _ _ Cp j ltac:(lia) Hj Lj) as (B1 & (b' & B2 & B2') & B3 & B4 & B5).
    fold C P F in B1, B2', B3, B4, B5. repeat split; try assumption. lia. }
  assert (Brf : forall x, 1 <= x -> x < 627 -> aget P x < 627 /\ aget L (aget P x) = 0 /\
                  (aget C (aget P x) = x \/ aget C (aget P x) = x + 1)).
  { intros x Hx1 Hx2. destruct (cp_brf _ _ _ _ _ _ _ Cp x ltac:(lia) Hx2) as (_ & K). exact K. }
  assert (R0 : aget L 0 = 0).
  { destruct (Brf 1 ltac:(lia) ltac:(lia)) as (A & B & D).
    destruct (Brb _ A B) as (E & _). assert (aget P 1 = 0) by lia. congruence. }
  assert (FT : aget F 0 = T).
  { pose proof (cp_forest _ _ _ _ _ _ _ Cp) as X. fold F in X.
    change (627 - 2 * 313 - 0) with (0 + 1) in X. rewrite rsum_right, rsum_0, psum_0 in X.
    change (0 + 0) with 0 in X. lia. }
  split; [apply (cp_len _ _ _ _ _ _ _ Cp)|]. split; [|split].
  - constructor.
    + intros i Hi. destruct (Nd i Hi) as [A _]. split; [exact A|]. split.
      * intros Li. destruct (Lfb i Hi Li) as (k & K1 & K2 & _). fold C in K2. rewrite K2. apply (ga_code _ _ _ _ Ga k K1).
      * intros Li. destruct (Brb i Hi Li) as (B1 & B2 & _). split; assumption.
    + intros c Hc. destruct (ga_surj _ _ _ _ Ga c Hc) as (k & K1 & <-). apply (Lff k K1).
    + intros c i Hc Hi. destruct (ga_surj _ _ _ _ Ga c Hc) as (k & K1 & <-).
      destruct (Lff k K1) as (A & B & D). split.
      * intros <-. split; assumption.
      * intros [Li Ci]. destruct (Lfb i Hi Li) as (k' & K1' & K2' & K3').
        assert (k' = k) by (apply (ga_inj _ _ _ _ Ga); auto; congruence). subst k'. exact K3'.
    + intros j Hj1 Hj. apply (Brf j Hj1 Hj).
    + intros j i Hj1 Hj Hi. destruct (Brf j Hj1 Hj) as (A & B & D). split.
      * intros <-. split; assumption.
      * intros [Li Ci]. destruct (Brb i Hi Li) as (_ & _ & B3 & B4 & _).
        destruct Ci as [Ci|Ci]; [rewrite Ci in B3; exact B3|].
        rewrite Ci in B4. replace (j + 1 - 1) with j in B4 by lia. exact B4.
    + pose proof (cp_cnt _ _ _ _ _ _ _ Cp) as X. fold L in X. change (627 - 0) with 627 in X.
      rewrite rsum0_cnt in X. lia.
    + intros i Hi Li. destruct (cp_brb _ _ _ _ _ _ _ Cp i ltac:(lia) Hi Li) as (_ & (b' & B2 & B2') & _).
      fold C in B2'. rewrite B2'. replace (626 - 2 * b') with (2 * (313 - b')) by lia. rewrite N.even_mul. reflexivity.
  - constructor.
    + intros i Hi. apply (cp_sorted _ _ _ _ _ _ _ Cp); lia.
    + intros i Hi. apply (Nd i Hi).
    + intros b0 Hb Lb. destruct (Brb b0 Hb Lb) as (_ & _ & _ & _ & B5). fold F in B5. fold C. lia.
    + pose proof (ga_T _ _ _ _ Ga). fold F. lia.
    + fold L F. rewrite R0, FT.
      pose proof (cp_ls _ _ _ _ _ _ _ Cp) as X. fold L F in X. change (627 - 0) with 627 in X.
      rewrite rsum0_ls, psum_0 in X. lia.
  - fold F. pose proof (ga_T _ _ _ _ Ga). lia.
Qed.

(* ------------------------------------------------------------------ *)
(* init_groups and the regrouping loop                                  *)

Lemma init_groups_loop_ok n : forall g i, i + N.of_nat n = 627 -> alen g = 627 ->
  exists g', init_groups_loop n g i = Ok g' /\ alen g' = 627 /\
    (forall k, i <= k -> k < 627 -> aget g' k = k) /\ (forall k, k < i -> aget g' k = aget g k).
Proof.
  induction n as [|n IH]; intros g i Hi Hg.
  - exists g. split; [reflexivity|]. split; [exact Hg|]. split; [intros; lia|reflexivity].
  - cbn [init_groups_loop]. rewrite wr_ok by lia. cbn [bind]. rewrite u16_id by lia.
    destruct (IH (aset g i i) (i + 1) ltac:(lia) ltac:(rewrite alen_aset; exact Hg)) as (g' & E & A & B & C).
    exists g'. split; [exact E|]. split; [exact A|]. split.
    + intros k Hk1 Hk2. destruct (N.eq_dec k i) as [->|Hne].
      * rewrite C by lia. apply aget_aset_eq.
      * apply B; lia.
    + intros k Hk. rewrite C by lia. apply aget_aset_ne. lia.
Qed.

Lemma to_nat626 : N.to_nat 626 = 626%nat.
Proof. vm_compute. reflexivity. Qed.

Lemma bnd_psum F : bnd_of F = psum (dstep F) 626.
Proof. unfold psum. rewrite to_nat626. reflexivity. Qed.

Section Regroup.
  Variable t2 : lh1_tree.
  Hypothesis Fs : forall i, i < 626 -> aget (t_freq t2) (i + 1) <= aget (t_freq t2) i.

  Let F := t_freq t2.

  Record RG (t : lh1_tree) (i : N) : Prop := {
    rg_len : tlen t;
    rg_same : t_leaf t = t_leaf t2 /\ t_child t = t_child t2 /\ t_parent t = t_parent t2 /\
              t_freq t = t_freq t2 /\ t_leaf_nodes t = t_leaf_nodes t2;
    rg_gs : forall k, k < 627 -> aget (t_groups t) k = k;
    rg_ng : 1 <= t_num_groups t /\ t_num_groups t <= i;
    rg_cnt : t_num_groups t = 1 + psum (dstep F) (i - 1);
    rg_grb : forall a, a < i -> aget (t_group t) a < t_num_groups t;
    rg_eq : forall a a', a < i -> a' < i -> (aget (t_group t) a = aget (t_group t) a' <-> aget F a = aget F a');
    rg_lead : forall a, a < i ->
      aget (t_group_leader t) (aget (t_group t) a) <= a /\
      aget F (aget (t_group_leader t) (aget (t_group t) a)) = aget F a /\
      (aget (t_group_leader t) (aget (t_group t) a) = 0 \/
       aget F (aget (t_group_leader t) (aget (t_group t) a) - 1) <> aget F a)
  }.

  Lemma regroup_ok n : forall t i, RG t i -> 1 <= i -> i + N.of_nat n = 627 ->
    exists t', regroup_loop n t i = Ok t' /\ RG t' 627.
  Proof.
    induction n as [|n IH]; intros t i Rg Hi1 Hi.
    - replace i with 627 in Rg by lia. exists t. split; [reflexivity|exact Rg].
    - cbn [regroup_loop].
      destruct Rg as [Tl Sm Gs Ng Cn Gb Ge Gl].
      destruct t as [LA CA PA FA GA LNA GSA ng GLA].
      cbn [t_leaf t_child t_parent t_freq t_group t_leaf_nodes t_groups t_num_groups t_group_leader] in *.
      destruct Tl as (T1 & T2 & T3 & T4 & T5 & T6 & T7 & T8).
      cbn [t_leaf t_child t_parent t_freq t_group t_leaf_nodes t_groups t_num_groups t_group_leader] in *.
      destruct Sm as (S1 & S2 & S3 & S4 & S5). subst FA. fold F in T4 |- *.
      unfold rd_freq, rd_group, wr_group, wr_group_leader, alloc_group, set_group, set_group_leader, set_num_groups.
      cbn [t_leaf t_child t_parent t_freq t_group t_leaf_nodes t_groups t_num_groups t_group_leader].
      rewrite (dec1_id i) by lia.
      rewrite (rd_ok 860 F i) by lia. cbn [bind]. rewrite (rd_ok 861 F) by lia. cbn [bind].
      assert (Hsort : aget F i <= aget F (i - 1)).
      { pose proof (Fs (i - 1) ltac:(lia)) as X. replace (i - 1 + 1) with i in X by lia. exact X. }
      assert (Hge : forall a, a < i -> aget F (i - 1) <= aget F a).
      { intros a Ha. apply (sorted_gen F Fs a (i - 1)); lia. }
      assert (Hd : dstep F (i - 1) = if aget F i =? aget F (i - 1) then 0 else 1).
      { unfold dstep. replace (i - 1 + 1) with i by lia. rewrite (N.eqb_sym (aget F (i - 1))). reflexivity. }
      assert (Hps : psum (dstep F) (i + 1 - 1) = psum (dstep F) (i - 1) + dstep F (i - 1)).
      { replace (i + 1 - 1) with (i - 1 + 1) by lia. apply psum_succ. }
      destruct (N.eqb_spec (aget F i) (aget F (i - 1))) as [E|E].
      + rewrite (rd_ok 862 GA) by lia. cbn [bind].
        pose proof (Gb (i - 1) ltac:(lia)) as Hg.
        rewrite u16_id by lia. rewrite (wr_ok 863 GA) by lia. cbn [bind].
        apply IH; [|lia|lia].
        constructor; cbn [t_leaf t_child t_parent t_freq t_group t_leaf_nodes t_groups t_num_groups t_group_leader].
        * unfold tlen. cbn [t_leaf t_child t_parent t_freq t_group t_leaf_nodes t_groups t_num_groups t_group_leader].
          rewrite alen_aset. repeat split; assumption.
        * repeat split; assumption.
        * exact Gs.
        * lia.
        * rewrite Hps, Hd. lia.
        * intros a Ha. rewrite aget_aset. destruct (N.eqb_spec i a); [exact Hg|]. apply Gb. lia.
        * intros a a' Ha Ha'. rewrite !aget_aset.
          destruct (N.eqb_spec i a) as [<-|Na]; destruct (N.eqb_spec i a') as [<-|Na'].
          -- split; reflexivity.
          -- rewrite E. apply Ge; lia.
          -- rewrite E. apply Ge; lia.
          -- apply Ge; lia.
        * intros a Ha. rewrite aget_aset. destruct (N.eqb_spec i a) as [<-|Na].
          -- destruct (Gl (i - 1) ltac:(lia)) as (A & B & C). rewrite E. split; [lia|]. split; assumption.
          -- apply Gl. lia.
      + assert (Hng : ng < 627) by lia.
        rewrite (rd_ok 801 GSA) by lia. cbn [bind]. rewrite (Gs ng Hng).
        rewrite u32_id by lia. rewrite (u16_id ng) by lia. rewrite (u16_id i) by lia.
        cbn [t_leaf t_child t_parent t_freq t_group t_leaf_nodes t_groups t_num_groups t_group_leader].
        rewrite (wr_ok 864 GA) by lia. cbn [bind].
        cbn [t_leaf t_child t_parent t_freq t_group t_leaf_nodes t_groups t_num_groups t_group_leader].
        rewrite (wr_ok 865 GLA) by lia. cbn [bind].
        apply IH; [|lia|lia].
        constructor; cbn [t_leaf t_child t_parent t_freq t_group t_leaf_nodes t_groups t_num_groups t_group_leader].
        * unfold tlen. cbn [t_leaf t_child t_parent t_freq t_group t_leaf_nodes t_groups t_num_groups t_group_leader].
          rewrite !alen_aset. repeat split; assumption.
        * repeat split; assumption.
        * exact Gs.
        * lia.
        * rewrite Hps, Hd. lia.
        * intros a Ha. rewrite aget_aset. destruct (N.eqb_spec i a); [lia|]. pose proof (Gb a ltac:(lia)). lia.
        * intros a a' Ha Ha'. rewrite !aget_aset.
          destruct (N.eqb_spec i a) as [<-|Na]; destruct (N.eqb_spec i a') as [<-|Na'].
          -- split; reflexivity.
          -- pose proof (Gb a' ltac:(lia)). pose proof (Hge a' ltac:(lia)). lia.
          -- pose proof (Gb a ltac:(lia)). pose proof (Hge a ltac:(lia)). lia.
          -- apply Ge; lia.
        * intros a Ha. rewrite (aget_aset GA). destruct (N.eqb_spec i a) as [<-|Na].
          -- rewrite aget_aset_eq. split; [lia|]. split; [reflexivity|]. right. lia.
          -- pose proof (Gb a ltac:(lia)). rewrite aget_aset. destruct (N.eqb_spec ng (aget GA a)); [lia|].
             apply Gl. lia.
  Qed.
End Regroup.

(* ------------------------------------------------------------------ *)
(* reconstruct_tree                                                     *)

Lemma RG_GI t2 t : RG t2 t 627 ->
  GI (t_freq t) (t_group t) (t_group_leader t) (t_groups t) (t_num_groups t).
Proof.
  intros [Tl Sm Gs Ng Cn Gb Ge Gl]. destruct Sm as (_ & _ & _ & S4 & _). rewrite S4.
  constructor.
  - intros i Hi. pose proof (Gb i Hi). lia.
  - intros i j Hi Hj. apply Ge; assumption.
  - intros i Hi. apply Gl. exact Hi.
  - lia.
  - intros k _ Hk. rewrite Gs by exact Hk. exact Hk.
  - intros k i Hk1 Hk Hi. rewrite Gs by exact Hk. pose proof (Gb i Hi). lia.
  - intros k k' _ Hk _ Hk'. rewrite !Gs by assumption. auto.
  - rewrite bnd_psum. change (627 - 1) with 626 in Cn. exact Cn.
Qed.

(* init_groups; alloc_group; the regrouping loop *)
Lemma regroup_phase t2 : tlen t2 -> (forall i, i < 626 -> aget (t_freq t2) (i + 1) <= aget (t_freq t2) i) ->
  exists t', (t3 <- init_groups t2 ;; '(group, t4) <- alloc_group t3 ;;
              t5 <- wr_group 858 t4 0 group ;; t6 <- wr_group_leader 859 t5 group 0 ;;
              regroup_loop (N.to_nat (lh1_NUM_TREE_NODES - 1)) t6 1) = Ok t' /\ RG t2 t' 627.
Proof.
  intros Tl2 Hs.
  pose proof Tl2 as (T1 & T2 & T3 & T4 & T5 & T6 & T7 & T8).
  unfold init_groups.
  destruct (init_groups_loop_ok (N.to_nat lh1_NUM_TREE_NODES) (t_groups t2) 0 ltac:(reflexivity) T7)
    as (g' & E3 & G1 & G2 & _).
  rewrite E3. cbn [bind].
  unfold alloc_group, wr_group, wr_group_leader, set_num_groups, set_groups, set_group, set_group_leader.
  cbn [t_leaf t_child t_parent t_freq t_group t_leaf_nodes t_groups t_num_groups t_group_leader].
  rewrite (rd_ok 801 g') by lia. cbn [bind].
  cbn [t_leaf t_child t_parent t_freq t_group t_leaf_nodes t_groups t_num_groups t_group_leader].
  rewrite (G2 0) by lia.
  rewrite (wr_ok 858) by lia. cbn [bind].
  cbn [t_leaf t_child t_parent t_freq t_group t_leaf_nodes t_groups t_num_groups t_group_leader].
  rewrite (wr_ok 859) by lia. cbn [bind].
  change (u32 (0 + 1)) with 1. change (u16 0) with 0.
  change (N.to_nat (lh1_NUM_TREE_NODES - 1)) with (N.to_nat 626). rewrite to_nat626.
  match goal with |- exists t', regroup_loop _ ?tt 1 = _ /\ _ => set (t6 := tt) end.
  assert (Rg : RG t2 t6 1).
  { unfold t6. constructor; cbn [t_leaf t_child t_parent t_freq t_group t_leaf_nodes t_groups t_num_groups t_group_leader].
    - unfold tlen. cbn [t_leaf t_child t_parent t_freq t_group t_leaf_nodes t_groups t_num_groups t_group_leader].
      rewrite !alen_aset. repeat split; assumption.
    - repeat split.
    - intros k Hk. apply G2; lia.
    - lia.
    - change (1 - 1) with 0. rewrite psum_0. reflexivity.
    - intros a Ha. assert (a = 0) as -> by lia. rewrite aget_aset_eq. lia.
    - intros a a' Ha Ha'. assert (a = 0) as -> by lia. assert (a' = 0) as -> by lia. split; reflexivity.
    - intros a Ha. assert (a = 0) as -> by lia. rewrite !aget_aset_eq. split; [lia|]. split; [reflexivity|left; reflexivity]. }
  apply (regroup_ok t2 Hs 626 t6 1 Rg); [lia|reflexivity].
Qed.

(* the whole of reconstruct_tree, with the intermediate states exposed *)
Lemma reconstruct_phases t : PI t 0 ->
  exists t1, gather_leaves (N.to_nat lh1_NUM_TREE_NODES) t 0 0 = Ok t1 /\ GInv t t1 627 /\
  let T := sumf (fun k => aget (t_freq t1) k) 314 in
  GA (t_leaf t1) (t_child t1) (t_freq t1) T /\
  forall XI : N -> lh1_tree -> N -> N -> Prop,
  (forall b t ib lb, CP (t_child t1) (t_freq t1) T t ib lb b -> 1 <= lb -> b <= 312 -> XI b t ib lb ->
     XI b (copy_tree t (ib - 1) (lb - 1)) (ib - 1) (lb - 1)) ->
  (forall b t ib lb, CP (t_child t1) (t_freq t1) T t ib lb b -> b <= 312 -> ib + 2 * b <= 625 ->
     let child := 626 - 2 * b in
     let freq := aget (t_freq t) child + aget (t_freq t) (child - 1) in
     aget (t_freq t) ib <= freq -> (lb = 0 \/ freq < aget (t_freq t1) (lb - 1)) -> XI b t ib lb ->
     XI (b + 1) (branch_tree t (ib - 1) child freq) (ib - 1) lb) ->
  XI 0 t1 627 314 ->
  exists t2 t', reconstruct_tree t = Ok t' /\ XI 313 t2 0 0 /\ RG t2 t' 627 /\
    tlen t2 /\ SI (t_leaf t2) (t_child t2) (t_parent t2) (t_leaf_nodes t2) /\
    FI (t_leaf t2) (t_child t2) (t_freq t2) 0 /\ aget (t_freq t2) 0 <= 16541.
Proof.
  intros HP.
  destruct (gather_total t HP) as (t1 & E1 & Gv). exists t1. split; [exact E1|]. split; [exact Gv|].
  pose proof (gathered_GA t t1 HP Gv) as Ga.
  destruct (gathered_rest t t1 Gv) as [Tl1 _].
  cbv zeta. split; [exact Ga|].
  set (T := sumf (fun k => aget (t_freq t1) k) 314) in *.
  intros XI Xc Xb X0.
  destruct (cp_init t1 T Ga Tl1) as [Cp0 Hd0].
  destruct (outer_loop _ _ _ _ Ga XI Xc Xb t1 627 314 0 Cp0 X0 Hd0) as (t2 & E2 & Cp2 & X2).
  destruct (cp_final _ _ _ _ t2 Ga Cp2) as (Tl2 & S2 & F2 & Hmax).
  destruct (regroup_phase t2 Tl2 (fi_sorted _ _ _ _ F2)) as (t' & E3 & Rg).
  exists t2, t'. split.
  - unfold reconstruct_tree. rewrite E1. cbn [bind].
    replace (loop rt_outer_step 10
               (t1, (Z.of_N lh1_NUM_TREE_NODES - 1)%Z, (Z.of_N lh1_NUM_CODES - 1)%Z, dec1 lh1_NUM_TREE_NODES))
      with (loop rt_outer_step 10 (t1, (Z.of_N 627 - 1)%Z, (Z.of_N 314 - 1)%Z, 626 - 2 * 0)) by reflexivity.
    rewrite E2. cbn [bind]. exact E3.
  - split; [exact X2|]. split; [exact Rg|]. split; [exact Tl2|]. split; [exact S2|]. split; [exact F2|exact Hmax].
Qed.

Lemma RG_PI t2 t' : RG t2 t' 627 -> tlen t2 ->
  SI (t_leaf t2) (t_child t2) (t_parent t2) (t_leaf_nodes t2) -> FI (t_leaf t2) (t_child t2) (t_freq t2) 0 ->
  PI t' 0.
Proof.
  intros Rg Tl2 S2 F2. pose proof (rg_same _ _ _ Rg) as (Q1 & Q2 & Q3 & Q4 & Q5).
  constructor.
  - apply (rg_len _ _ _ Rg).
  - rewrite Q1, Q2, Q3, Q5. exact S2.
  - rewrite Q1, Q2, Q4. exact F2.
  - apply (RG_GI t2). exact Rg.
Qed.

Lemma reconstruct_ok t : PI t 0 ->
  exists t', reconstruct_tree t = Ok t' /\ PI t' 0 /\ aget (t_freq t') 0 <= 16541.
Proof.
  intros HP. destruct (reconstruct_phases t HP) as (t1 & _ & _ & _ & H).
  destruct (H (fun _ _ _ _ => True)) as (t2 & t' & E & _ & Rg & Tl2 & S2 & F2 & Hmax); auto.
  exists t'. split; [exact E|]. split; [apply (RG_PI t2); assumption|].
  pose proof (rg_same _ _ _ Rg) as (_ & _ & _ & Q4 & _). rewrite Q4. exact Hmax.
Qed.

(* ------------------------------------------------------------------ *)
(* increment_for_code, all cases                                        *)

Theorem increment_for_code_ok t c : PI t 0 -> c < 314 ->
  exists t', increment_for_code t c = Ok t' /\ PI t' 0.
Proof.
  intros HP Hc.
  pose proof (fi_max _ _ _ _ (pi_f _ _ HP)) as Mx.
  destruct (N.lt_ge_cases (aget (t_freq t) 0) 32768) as [Hlt|Hge].
  - apply ifc_norebuild; assumption.
  - unfold increment_for_code.
    pose proof HP as [Tl _ _ _]. destruct Tl as (T1 & T2 & T3 & T4 & T5 & T6 & T7 & T8).
    unfold rd_freq at 1. rewrite rd_ok by lia. cbn [bind].
    unfold lh1_TREE_REORDER_LIMIT. destruct (N.leb_spec 32768 (aget (t_freq t) 0)); [|lia].
    destruct (reconstruct_ok t HP) as (t1 & E1 & P1 & M1). rewrite E1. cbn [bind].
    apply ifc_tail; auto. lia.
Qed.

(* P_Lh1i -- part I: lh1_read never faults *)

(* W: what is known about the bit reader (bsr_wf for byte-valued callbacks, bsr_ok for
   callbacks that are only known to return at most what they are asked for) *)
Definition lh1_inv_gen (W : bsr -> Prop) (s : lh1_state) : Prop :=
  W (lh1_bsr s) /\ alen (lh1_ring s) = lh1_ringbuf_extent /\ lh1_pos s < lh1_RING_BUFFER_SIZE /\
  lh1_tree_inv (lh1_t s) /\ lh1_lookup s = lh1_lookup lh1_s0 /\ lh1_lengths s = lh1_lengths lh1_s0.

Definition lh1_inv (s : lh1_state) : Prop := lh1_inv_gen bsr_wf s.
Definition lh1_inv_len (s : lh1_state) : Prop := lh1_inv_gen bsr_ok s.

Lemma lh1_inv_len_of s : lh1_inv s -> lh1_inv_len s.
Proof. intros (A & B). split; [apply bsr_wf_ok; exact A|exact B]. Qed.

Theorem lh1_init_ok : exists s0, lh1_init = Ok s0 /\ lh1_inv s0.
Proof.
  exists lh1_s0. split; [exact lh1_init_eq|].
  split; [apply bsr_init_wf|]. split; [reflexivity|]. split; [reflexivity|].
  split; [exact lh1_s0_tree_inv|]. split; reflexivity.
Qed.

Theorem lh1_init_ok_len : exists s0, lh1_init = Ok s0 /\ lh1_inv_len s0.
Proof. destruct lh1_init_ok as (s0 & E & I). exists s0. split; [exact E|apply lh1_inv_len_of; exact I]. Qed.

Lemma ring_mod_lt x : lh1_ring_mod x < 4096.
Proof.
  unfold lh1_ring_mod. change lh1_ring_pow2 with true. cbv iota.
  change (lh1_RING_BUFFER_SIZE - 1) with (N.ones 12). rewrite N.land_ones.
  change (2 ^ 12) with 4096. apply N.mod_lt. lia.
Qed.

Definition ob_ok (o : obuf) : Prop := ob_len o = nlen (ob_rev o).

Lemma nlen_rev_append {A} (l acc : list A) : nlen (rev_append l acc) = nlen l + nlen acc.
Proof.
  revert acc. induction l as [|x l IH]; intros acc; cbn [rev_append].
  - unfold nlen at 2. cbn. lia.
  - rewrite IH, !nlen_cons. lia.
Qed.

Lemma ob_bytes_len o : ob_ok o -> nlen (ob_bytes o) = ob_len o.
Proof. intros H. unfold ob_bytes. rewrite nlen_rev_append, nlen_nil. unfold ob_ok in H. lia. Qed.

Section Read.
  Context {cbs : Type}.
  Variable cb : callback cbs.
  Variable W : bsr -> Prop.
  Hypothesis Wbit : forall r c, W r ->
    exists res r' c', read_bit cb r c = Ok (res, r', c') /\ W r' /\ (forall v, res = Some v -> v < 2).
  Hypothesis Wpeek : forall r c n, W r -> n <= 32 ->
    exists res r' c', peek_bits cb r c n = Ok (res, r', c') /\ W r' /\ (forall v, res = Some v -> v < 2 ^ n).
  Hypothesis Wread : forall r c n, W r -> n <= 32 ->
    exists res r' c', read_bits cb r c n = Ok (res, r', c') /\ W r' /\ (forall v, res = Some v -> v < 2 ^ n).

  (* ---- read_code: the walk from the root moves to larger indices ---- *)
  Lemma read_code_walk t r c : PI t 0 -> W r ->
    exists res r' c', loop (read_code_step cb t) 10 (0, r, c) = Ok (res, r', c') /\ W r' /\
      (forall ni, res = Some ni -> ni < 627 /\ aget (t_leaf t) ni = 1).
  Proof.
    intros HP Hr.
    pose proof HP as [Tl S _ _]. destruct Tl as (T1 & T2 & T3 & T4 & T5 & T6 & T7 & T8).
    destruct (loop_total_ok (read_code_step cb t)
      (fun s => fst (fst s) < 627 /\ W (snd (fst s)))
      (fun x => W (snd (fst x)) /\ forall ni, fst (fst x) = Some ni -> ni < 627 /\ aget (t_leaf t) ni = 1)
      (fun s => 627 - fst (fst s)) 10) with (s := (0, r, c)) as ([[res r'] c'] & E & Q).
    - intros [[ni r0] c0] [Hn Hw]. cbn [fst snd] in *.
      unfold read_code_step, rd_leaf, rd_child. rewrite rd_ok by lia. cbn [bind].
      pose proof (si_node _ _ _ _ S ni Hn) as (A1 & A2 & A3).
      destruct (N.eqb_spec (aget (t_leaf t) ni) 0) as [E0|E0]; cbn [negb].
      + destruct (Wbit r0 c0 Hw) as (bit & r1 & c1 & Eb & Hw1 & Hv).
        rewrite Eb. cbn [bind]. destruct bit as [b|].
        * rewrite rd_ok by lia. cbn [bind]. specialize (A3 E0). specialize (Hv b eq_refl).
          eexists. split; [reflexivity|]. cbn [fst snd].
          rewrite usub_id by lia. split; [split; [lia|exact Hw1]|lia].
        * eexists. split; [reflexivity|]. cbn [fst snd]. split; [exact Hw1|]. intros ni0 X. discriminate.
      + eexists. split; [reflexivity|]. cbn [fst snd]. split; [exact Hw|].
        intros ni0 X. injection X as <-. split; [exact Hn|lia].
    - cbn [fst snd]. split; [lia|exact Hr].
    - cbn [fst snd]. change (2 ^ N.of_nat 10) with 1024. lia.
    - exists res, r', c'. cbn [fst snd] in Q. split; [exact E|exact Q].
  Qed.

  Lemma read_code_ok t r c : PI t 0 -> W r ->
    exists res t' r' c', read_code cb t r c = Ok (res, t', r', c') /\ W r' /\ PI t' 0 /\
      (forall cd, res = Some cd -> cd < 314).
  Proof.
    intros HP Hr. unfold read_code.
    destruct (read_code_walk t r c HP Hr) as (res & r' & c' & E & Hw & Hres).
    rewrite E. cbn [bind]. destruct res as [ni|].
    - destruct (Hres ni eq_refl) as [Hn Hl].
      pose proof HP as [Tl S _ _]. destruct Tl as (T1 & T2 & T3 & T4 & T5 & T6 & T7 & T8).
      unfold rd_child. rewrite rd_ok by lia. cbn [bind].
      pose proof (si_node _ _ _ _ S ni Hn) as (_ & A2 & _). specialize (A2 Hl).
      destruct (increment_for_code_ok t _ HP A2) as (t' & Ei & HP').
      rewrite Ei. cbn [bind]. eexists _, t', r', c'. split; [reflexivity|].
      split; [exact Hw|]. split; [exact HP'|]. intros cd X. injection X as <-. exact A2.
    - eexists None, t, r', c'. split; [reflexivity|]. split; [exact Hw|]. split; [exact HP|]. intros cd X. discriminate.
  Qed.

  (* ---- read_offset ---- *)
  Lemma read_offset_ok r c : W r ->
    exists res r' c', read_offset cb (lh1_lookup lh1_s0) (lh1_lengths lh1_s0) r c = Ok (res, r', c') /\ W r'.
  Proof.
    intros Hr. unfold read_offset.
    destruct (Wpeek r c 8 Hr ltac:(lia)) as (fu & r1 & c1 & E1 & Hw1 & Hv1).
    rewrite E1. cbn [bind]. destruct fu as [fu|].
    - pose proof (Hv1 fu eq_refl) as Hfu. change (2 ^ 8) with 256 in Hfu.
      destruct (lh1_offset_tables fu Hfu) as [O1 O2].
      rewrite rd_ok by (rewrite lh1_s0_lookup_len; exact Hfu). cbn [bind].
      rewrite rd_ok by (rewrite lh1_s0_lengths_len; exact O1). cbn [bind].
      destruct (Wread r1 c1 (aget (lh1_lengths lh1_s0) (aget (lh1_lookup lh1_s0) fu)) Hw1 ltac:(lia)) as (x & r2 & c2 & E2 & Hw2 & _).
      rewrite E2. cbn [bind].
      destruct (Wread r2 c2 6 Hw2 ltac:(lia)) as (o2 & r3 & c3 & E3 & Hw3 & _).
      rewrite E3. cbn [bind]. destruct o2; eexists _, r3, c3; (split; [reflexivity|exact Hw3]).
    - eexists None, r1, c1. split; [reflexivity|exact Hw1].
  Qed.

  (* ---- output ---- *)
  Lemma output_byte_ok s o b : alen (lh1_ring s) = 4096 -> lh1_pos s < 4096 -> ob_ok o -> ob_len o < 4096 ->
    exists s' o', lh1_output_byte s o b = Ok (s', o') /\
      alen (lh1_ring s') = 4096 /\ lh1_pos s' < 4096 /\ ob_ok o' /\ ob_len o' = ob_len o + 1 /\
      lh1_bsr s' = lh1_bsr s /\ lh1_t s' = lh1_t s /\ lh1_lookup s' = lh1_lookup s /\ lh1_lengths s' = lh1_lengths s.
  Proof.
    intros Ha Hp Ho Hl. unfold lh1_output_byte, ob_push. change lh1_max_read with 4096.
    destruct (N.ltb_spec (ob_len o) 4096); [|lia]. cbn [bind].
    rewrite wr_ok by lia. cbn [bind]. eexists _, _. split; [reflexivity|].
    cbn [lh1_ring lh1_pos lh1_bsr lh1_t lh1_lookup lh1_lengths ob_len].
    split; [rewrite alen_aset; exact Ha|]. split; [apply ring_mod_lt|].
    split; [unfold ob_ok in *; cbn [ob_len ob_rev]; rewrite nlen_cons; lia|]. repeat split.
  Qed.

  Lemma copy_loop_ok n : forall s o start i, alen (lh1_ring s) = 4096 -> lh1_pos s < 4096 -> ob_ok o ->
    ob_len o + N.of_nat n <= 4096 ->
    exists s' o', lh1_copy_loop n s o start i = Ok (s', o') /\
      alen (lh1_ring s') = 4096 /\ lh1_pos s' < 4096 /\ ob_ok o' /\ ob_len o' = ob_len o + N.of_nat n /\
      lh1_bsr s' = lh1_bsr s /\ lh1_t s' = lh1_t s /\ lh1_lookup s' = lh1_lookup s /\ lh1_lengths s' = lh1_lengths s.
  Proof.
    induction n as [|n IH]; intros s o start i Ha Hp Ho Hl.
    - exists s, o. split; [reflexivity|]. repeat split; auto. lia.
    - cbn [lh1_copy_loop]. pose proof (ring_mod_lt (u32 (start + i))).
      rewrite rd_ok by lia. cbn [bind].
      destruct (output_byte_ok s o (aget (lh1_ring s) (lh1_ring_mod (u32 (start + i)))) Ha Hp Ho ltac:(lia))
        as (s1 & o1 & E1 & A1 & A2 & A3 & A4 & A5 & A6 & A7 & A8).
      rewrite E1. cbn [bind].
      destruct (IH s1 o1 start (i + 1) A1 A2 A3 ltac:(lia)) as (s2 & o2 & E2 & B1 & B2 & B3 & B4 & B5 & B6 & B7 & B8).
      exists s2, o2. split; [exact E2|]. repeat split; auto; try congruence. lia.
  Qed.

  Theorem lh1_read_total_gen : forall s c, lh1_inv_gen W s ->
    exists ch s' c', lh1_read cb s c = Ok (ch, s', c') /\ nlen ch <= lh1_max_read /\ lh1_inv_gen W s'.
  Proof.
    intros s c (Hw & Ha & Hp & Ht & Hlk & Hln).
    change lh1_ringbuf_extent with 4096 in Ha. change lh1_RING_BUFFER_SIZE with 4096 in Hp.
    unfold lh1_read.
    destruct (read_code_ok (lh1_t s) (lh1_bsr s) c Ht Hw) as (code & t1 & r1 & c1 & E1 & Hw1 & Ht1 & Hcd).
    rewrite E1. cbn [bind]. destruct code as [cd|].
    - specialize (Hcd cd eq_refl).
      destruct (N.ltb_spec cd 256) as [Hlit|Hcopy].
      + destruct (output_byte_ok (lh1_set s t1 r1) ob_empty (u8 cd)) as (s2 & o & E2 & A1 & A2 & A3 & A4 & A5 & A6 & A7 & A8);
          [exact Ha|exact Hp|reflexivity|cbn; lia|].
        rewrite E2. cbn [bind]. exists (ob_bytes o), s2, c1. split; [reflexivity|].
        split; [rewrite ob_bytes_len by exact A3; rewrite A4; cbn; unfold lh1_max_read; lia|].
        unfold lh1_inv_gen. rewrite A5, A6, A7, A8. cbn [lh1_set lh1_bsr lh1_t lh1_lookup lh1_lengths].
        split; [exact Hw1|]. split; [exact A1|]. split; [exact A2|]. split; [exact Ht1|]. split; [exact Hlk|exact Hln].
      + cbn [lh1_set lh1_lookup lh1_lengths]. rewrite Hlk, Hln.
        destruct (read_offset_ok r1 c1 Hw1) as (off & r2 & c2 & E2 & Hw2).
        rewrite E2. cbn [bind]. destruct off as [offset|].
        * set (count := u32 (cd + 4294967296 - 256 + lh1_COPY_THRESHOLD)).
          assert (Hcount : count <= 60).
          { unfold count, lh1_COPY_THRESHOLD. rewrite u32_mod. change (2 ^ 32) with 4294967296. lia. }
          match goal with |- context [lh1_copy_loop _ ?ss ob_empty ?st 0] =>
            destruct (copy_loop_ok (N.to_nat count) ss ob_empty st 0) as (s3 & o & E3 & A1 & A2 & A3 & A4 & A5 & A6 & A7 & A8)
          end; [exact Ha|exact Hp|reflexivity|cbn [ob_empty ob_len]; lia|].
          rewrite E3. cbn [bind]. exists (ob_bytes o), s3, c2. split; [reflexivity|].
          split; [rewrite ob_bytes_len by exact A3; rewrite A4; cbn [ob_empty ob_len]; unfold lh1_max_read; lia|].
          unfold lh1_inv_gen. rewrite A5, A6, A7, A8. cbn [lh1_set lh1_bsr lh1_t lh1_lookup lh1_lengths].
          split; [exact Hw2|]. split; [exact A1|]. split; [exact A2|]. split; [exact Ht1|]. split; [exact Hlk|exact Hln].
        * exists [], (lh1_set (lh1_set s t1 r1) t1 r2), c2. split; [reflexivity|].
          split; [cbn; unfold lh1_max_read; lia|].
          unfold lh1_inv_gen. cbn [lh1_set lh1_bsr lh1_t lh1_lookup lh1_lengths lh1_ring lh1_pos].
          split; [exact Hw2|]. split; [exact Ha|]. split; [exact Hp|]. split; [exact Ht1|]. split; [exact Hlk|exact Hln].
    - exists [], (lh1_set s t1 r1), c1. split; [reflexivity|]. split; [cbn; unfold lh1_max_read; lia|].
      unfold lh1_inv_gen. cbn [lh1_set lh1_bsr lh1_t lh1_lookup lh1_lengths lh1_ring lh1_pos].
      split; [exact Hw1|]. split; [exact Ha|]. split; [exact Hp|]. split; [exact Ht1|]. split; [exact Hlk|exact Hln].
  Qed.
End Read.

(* byte-valued callbacks: the reader stays well formed *)
Theorem lh1_read_total : forall cbs (cb : callback cbs), cb_bounded cb -> forall s c, lh1_inv s ->
  exists ch s' c', lh1_read cb s c = Ok (ch, s', c') /\ nlen ch <= lh1_max_read /\ lh1_inv s'.
Proof.
  intros cbs cb Hcb. apply (lh1_read_total_gen cb bsr_wf).
  - intros r c Hw. apply (read_bit_safe cb Hcb r c Hw).
  - intros r c n Hw Hn. destruct (peek_bits_safe cb Hcb r c n Hw Hn) as (res & r' & c' & E & Hw' & Hv).
    exists res, r', c'. split; [exact E|]. split; [exact Hw'|]. intros v Ev. apply (Hv v Ev).
  - intros r c n Hw Hn. apply (read_bits_safe cb Hcb r c n Hw Hn).
Qed.

(* callbacks that only promise to return at most what they are asked for *)
Theorem lh1_read_total_len : forall cbs (cb : callback cbs), cb_len_bounded cb -> forall s c, lh1_inv_len s ->
  exists ch s' c', lh1_read cb s c = Ok (ch, s', c') /\ nlen ch <= lh1_max_read /\ lh1_inv_len s'.
Proof.
  intros cbs cb Hcb. apply (lh1_read_total_gen cb bsr_ok).
  - intros r c Hw. destruct (read_bits_ok cb Hcb r c 1 Hw ltac:(lia)) as (res & r' & c' & E & Hw' & Hv).
    exists res, r', c'. split; [exact E|]. split; [exact Hw'|]. intros v Ev. specialize (Hv v Ev). change (2 ^ 1) with 2 in Hv. exact Hv.
  - intros r c n Hw Hn. destruct (peek_bits_ok cb Hcb r c n Hw Hn) as (res & r' & c' & E & Hw' & Hv).
    exists res, r', c'. split; [exact E|]. split; [exact Hw'|]. intros v Ev. apply (Hv v Ev).
  - intros r c n Hw Hn. apply (read_bits_ok cb Hcb r c n Hw Hn).
Qed.

(* P_Lh1j -- part J: the mirror relation with LZHUF; update without rebuild *)

(* decoder node j <-> LZHUF position 626 - j.  d = 1 while the decoder's root has
   already been incremented and LZHUF's has not. *)
Record MRg (d : N) (h : huff) (t : lh1_tree) : Prop := {
  mr_freq : forall j, 1 <= j -> j < 627 -> aget (h_freq h) (626 - j) = aget (t_freq t) j;
  mr_rootf : aget (h_freq h) 626 + d = aget (t_freq t) 0;
  mr_sent : aget (h_freq h) 627 = 65535;
  mr_son : forall j, j < 627 ->
    aget (h_son h) (626 - j) =
    if aget (t_leaf t) j =? 0 then 626 - aget (t_child t) j else aget (t_child t) j + 627;
  mr_prnt : forall j, 1 <= j -> j < 627 -> aget (h_prnt h) (626 - j) = 626 - aget (t_parent t) j;
  mr_rootp : aget (h_prnt h) 626 = 0;
  mr_leaf : forall c, c < 314 -> aget (h_prnt h) (c + 627) = 626 - aget (t_leaf_nodes t) c
}.

Definition lh1_mirror (h : huff) (t : lh1_tree) : Prop := MRg 0 h t.

Definition mr_b (d : N) (h : huff) (t : lh1_tree) : bool :=
  all_lt 627 (fun j => (j =? 0) || (aget (h_freq h) (626 - j) =? aget (t_freq t) j)) &&
  (aget (h_freq h) 626 + d =? aget (t_freq t) 0) &&
  (aget (h_freq h) 627 =? 65535) &&
  all_lt 627 (fun j => aget (h_son h) (626 - j) =?
     (if aget (t_leaf t) j =? 0 then 626 - aget (t_child t) j else aget (t_child t) j + 627)) &&
  all_lt 627 (fun j => (j =? 0) || (aget (h_prnt h) (626 - j) =? 626 - aget (t_parent t) j)) &&
  (aget (h_prnt h) 626 =? 0) &&
  all_lt 314 (fun c => aget (h_prnt h) (c + 627) =? 626 - aget (t_leaf_nodes t) c).

Lemma mr_b_spec d h t : mr_b d h t = true -> MRg d h t.
Proof.
  unfold mr_b. rewrite !andb_true_iff. intros [[[[[[H1 H2] H3] H4] H5] H6] H7].
  fa627 H1. fa627 H4. fa627 H5. fa314 H7.
  constructor.
  - intros j Hj1 Hj. pose proof (H1 j Hj) as X. cbv beta in X. lia.
  - lia.
  - lia.
  - intros j Hj. pose proof (H4 j Hj) as X. cbv beta in X. apply N.eqb_eq in X. exact X.
  - intros j Hj1 Hj. pose proof (H5 j Hj) as X. cbv beta in X. lia.
  - lia.
  - intros c Hc. pose proof (H7 c Hc) as X. cbv beta in X. lia.
Qed.

Lemma mirror_init_b : mr_b 0 StartHuff (lh1_t lh1_s0) = true.
Proof. vm_compute. reflexivity. Qed.

Theorem lh1_mirror_init : lh1_mirror StartHuff (lh1_t lh1_s0).
Proof. apply mr_b_spec. exact mirror_init_b. Qed.

(* ------------------------------------------------------------------ *)
(* one iteration of LZHUF's update loop                                 *)

Definition up_iter (h : huff) (c : N) : huff * N :=
  let k := aget (h_freq h) c + 1 in
  let freq1 := aset (h_freq h) c k in
  let l0 := c + 1 in
  if aget freq1 l0 <? k then
    let l := up_scan fuelT freq1 k l0 - 1 in
    let freq2 := aset freq1 c (aget freq1 l) in
    let freq3 := aset freq2 l k in
    let i := aget (h_son h) c in
    let p1 := aset (h_prnt h) i l in
    let p2 := if i <? lzhuf_T then aset p1 (i + 1) l else p1 in
    let j := aget (h_son h) l in
    let s1 := aset (h_son h) l i in
    let p3 := aset p2 j c in
    let p4 := if j <? lzhuf_T then aset p3 (j + 1) c else p3 in
    let s2 := aset s1 c j in
    ({| h_freq := freq3; h_prnt := p4; h_son := s2 |}, l)
  else ({| h_freq := freq1; h_prnt := h_prnt h; h_son := h_son h |}, c).

Lemma up_loop_S m h c : up_loop (S m) h c =
  let '(h', c') := up_iter h c in
  let c'' := aget (h_prnt h') c' in
  if c'' =? 0 then h' else up_loop m h' c''.
Proof. reflexivity. Qed.

Lemma up_scan_S m freq k l : up_scan (S m) freq k l =
  if aget freq (l + 1) <? k then up_scan m freq k (l + 1) else l + 1.
Proof. reflexivity. Qed.

Lemma up_scan_spec fuel : forall freq k l stop, l < stop ->
  (forall x, l < x -> x < stop -> aget freq x < k) -> k <= aget freq stop ->
  stop - l <= N.of_nat fuel -> up_scan fuel freq k l = stop.
Proof.
  induction fuel as [|m IH]; intros freq k l stop Hl Hlow Hstop Hf; [lia|].
  rewrite up_scan_S. destruct (N.eq_dec (l + 1) stop) as [E|E].
  - rewrite E. destruct (N.ltb_spec (aget freq stop) k); [lia|reflexivity].
  - pose proof (Hlow (l + 1) ltac:(lia) ltac:(lia)).
    destruct (N.ltb_spec (aget freq (l + 1)) k); [|lia].
    apply IH; try lia. intros x A B. apply Hlow; lia.
Qed.

Lemma fuelT_val : N.of_nat fuelT = 1024.
Proof. reflexivity. Qed.

(* ------------------------------------------------------------------ *)
(* one iteration: LZHUF's exchange-and-increment is the decoder's
   make_group_leader + increment_node_freq                              *)

Lemma inf_MRg_fields t1 l : 
  t_leaf (inf_tree t1 l) = t_leaf t1 /\ t_child (inf_tree t1 l) = t_child t1 /\
  t_parent (inf_tree t1 l) = t_parent t1 /\ t_leaf_nodes (inf_tree t1 l) = t_leaf_nodes t1 /\
  t_freq (inf_tree t1 l) = aset (t_freq t1) l (aget (t_freq t1) l + 1).
Proof.
  split; [apply inf_leaf|]. split; [apply inf_child|]. split; [apply inf_parent|].
  split; [apply inf_leaf_nodes|apply inf_freq].
Qed.

Definition w2 (b y : N) : bool := (y =? b) || ((b <? 627) && (y =? b + 1)).

Lemma aget_w2 p b v y :
  aget (if b <? lzhuf_T then aset (aset p b v) (b + 1) v else aset p b v) y =
  if w2 b y then v else aget p y.
Proof.
  unfold w2. change lzhuf_T with 627. destruct (N.ltb_spec b 627); rewrite ?aget_aset; cbn [andb].
  - destruct (N.eqb_spec (b + 1) y); destruct (N.eqb_spec b y); destruct (N.eqb_spec y b);
      destruct (N.eqb_spec y (b + 1)); cbn [orb]; try lia; reflexivity.
  - destruct (N.eqb_spec b y); destruct (N.eqb_spec y b); cbn [orb]; try lia; reflexivity.
Qed.

Section SonFacts.
  Variables L C P LN : arr.
  Hypothesis S : SI L C P LN.
  Variable a : N.
  Hypothesis Ha : a < 627.
  Let sa := if aget L a =? 0 then 626 - aget C a else aget C a + 627.

  Lemma w2_prnt x : 1 <= x -> x < 627 -> w2 sa (626 - x) = (aget P x =? a).
  Proof.
    intros Hx1 Hx. pose proof (si_pa _ _ _ _ S x a Hx1 Hx Ha) as X.
    pose proof (si_node _ _ _ _ S a Ha) as (A1 & A2 & A3).
    unfold w2, sa. destruct (N.eqb_spec (aget L a) 0) as [E|E].
    - specialize (A3 E). destruct (N.ltb_spec (626 - aget C a) 627); [|lia]. cbn [andb].
      destruct (N.eqb_spec (626 - x) (626 - aget C a)); destruct (N.eqb_spec (626 - x) (626 - aget C a + 1));
        destruct (N.eqb_spec (aget P x) a); cbn [orb]; try reflexivity; lia.
    - destruct (N.ltb_spec (aget C a + 627) 627); [lia|]. cbn [andb].
      destruct (N.eqb_spec (626 - x) (aget C a + 627)); destruct (N.eqb_spec (aget P x) a); cbn [orb]; try reflexivity; lia.
  Qed.

  Lemma w2_leaf c0 : c0 < 314 -> w2 sa (c0 + 627) = (aget LN c0 =? a).
  Proof.
    intros Hc. pose proof (si_ln _ _ _ _ S c0 a Hc Ha) as X.
    pose proof (si_node _ _ _ _ S a Ha) as (A1 & A2 & A3).
    unfold w2, sa. destruct (N.eqb_spec (aget L a) 0) as [E|E].
    - specialize (A3 E). destruct (N.ltb_spec (626 - aget C a) 627); [|lia]. cbn [andb].
      destruct (N.eqb_spec (c0 + 627) (626 - aget C a)); destruct (N.eqb_spec (c0 + 627) (626 - aget C a + 1));
        destruct (N.eqb_spec (aget LN c0) a); cbn [orb]; try reflexivity; lia.
    - destruct (N.ltb_spec (aget C a + 627) 627); [lia|]. cbn [andb].
      destruct (N.eqb_spec (c0 + 627) (aget C a + 627)); destruct (N.eqb_spec (aget LN c0) a); cbn [orb]; try reflexivity; lia.
  Qed.

  Lemma w2_root : w2 sa 626 = false.
  Proof.
    pose proof (si_node _ _ _ _ S a Ha) as (A1 & A2 & A3).
    unfold w2, sa. destruct (N.eqb_spec (aget L a) 0) as [E|E].
    - specialize (A3 E). destruct (N.ltb_spec (626 - aget C a) 627); [|lia]. cbn [andb].
      destruct (N.eqb_spec 626 (626 - aget C a)); destruct (N.eqb_spec 626 (626 - aget C a + 1)); cbn [orb]; try reflexivity; lia.
    - destruct (N.ltb_spec (aget C a + 627) 627); [lia|]. cbn [andb].
      destruct (N.eqb_spec 626 (aget C a + 627)); cbn [orb]; try reflexivity; lia.
  Qed.
End SonFacts.

Lemma up_iter_sim t n h : PI t n -> 1 <= n -> n < 627 -> MRg 1 h t ->
  let l := aget (t_group_leader t) (aget (t_group t) n) in
  let t1 := if l =? n then t else swap_tree t n l in
  exists h', up_iter h (626 - n) = (h', 626 - l) /\ MRg 1 h' (inf_tree t1 l).
Proof.
  intros HP Hn1 Hn M l t1.
  pose proof HP as [Tl S Fi Gi].
  pose proof (gi_lead _ _ _ _ _ Gi n Hn) as (Hl1 & Hl2 & Hl3). fold l in Hl1, Hl2, Hl3.
  pose proof (fi_root_gt _ _ _ _ _ _ S Fi) as RG.
  destruct (N.eqb_spec n 0) as [|_]; [lia|].
  assert (Hl0 : 1 <= l).
  { destruct (N.eq_dec l 0) as [E|E]; [|lia]. rewrite E in Hl2. pose proof (RG n Hn1 Hn). lia. }
  pose proof (fi_sorted _ _ _ _ Fi) as Hs.
  destruct M as [Mf Mr Ms Mso Mp Mrp Ml].
  destruct (inf_MRg_fields t1 l) as (I1 & I2 & I3 & I4 & I5).
  set (F := t_freq t) in *. set (L := t_leaf t) in *. set (C := t_child t) in *.
  set (P := t_parent t) in *. set (LN := t_leaf_nodes t) in *.
  set (cL := 626 - n). set (k := aget (h_freq h) cL + 1).
  assert (Ek : k = aget F n + 1) by (unfold k, cL; rewrite Mf by lia; reflexivity).
  assert (El0 : aget (aset (h_freq h) cL k) (cL + 1) = aget (h_freq h) (cL + 1)).
  { apply aget_aset_ne. lia. }
  (* frequency just above c *)
  assert (Eab : forall j, j < n -> aget F n + 1 <= aget F j -> k <= aget (h_freq h) (626 - j) ).
  { intros j Hj Hfj. destruct (N.eq_dec j 0) as [->|Hj0].
    - change (626 - 0) with 626. pose proof (RG n Hn1 Hn). lia.
    - rewrite Mf by lia. lia. }
  unfold up_iter. fold cL. fold k. cbv zeta. rewrite El0.
  destruct (N.eq_dec l n) as [Eln|Eln].
  - (* n is the leader of its group: no exchange *)
    assert (Hup : aget F n + 1 <= aget F (n - 1)).
    { pose proof (Hs (n - 1) ltac:(lia)) as X. replace (n - 1 + 1) with n in X by lia.
      rewrite Eln in Hl3. destruct Hl3 as [?|Hl3]; [lia|]. lia. }
    pose proof (Eab (n - 1) ltac:(lia) Hup) as X. replace (626 - (n - 1)) with (cL + 1) in X by (unfold cL; lia).
    destruct (N.ltb_spec (aget (h_freq h) (cL + 1)) k); [lia|].
    eexists. split; [rewrite Eln; reflexivity|].
    unfold t1. destruct (N.eqb_spec l n); [|lia]. rewrite Eln.
    destruct (inf_MRg_fields t n) as (J1 & J2 & J3 & J4 & J5).
    constructor; cbn [h_freq h_prnt h_son]; rewrite ?J1, ?J2, ?J3, ?J4, ?J5.
    + intros j Hj1 Hj. rewrite !aget_aset. unfold cL.
      destruct (N.eqb_spec (626 - n) (626 - j)); destruct (N.eqb_spec n j); try lia.
      * subst j. fold F. lia.
      * apply Mf; lia.
    + rewrite !aget_aset. unfold cL. destruct (N.eqb_spec (626 - n) 626); [lia|].
      destruct (N.eqb_spec n 0); [lia|]. exact Mr.
    + rewrite aget_aset. unfold cL. destruct (N.eqb_spec (626 - n) 627); [lia|]. exact Ms.
    + exact Mso.
    + exact Mp.
    + exact Mrp.
    + exact Ml.
  - (* exchange with the leader *)
    assert (Hln : l < n) by lia.
    assert (Hsame : forall j, l <= j -> j <= n -> aget F j = aget F n).
    { intros j A B. pose proof (sorted_gen F Hs l j A ltac:(lia)). pose proof (sorted_gen F Hs j n B Hn). fold F in Hl2. lia. }
    assert (Hbelow : aget (h_freq h) (cL + 1) < k).
    { replace (cL + 1) with (626 - (n - 1)) by (unfold cL; lia). rewrite Mf by lia. rewrite (Hsame (n - 1)) by lia. lia. }
    destruct (N.ltb_spec (aget (h_freq h) (cL + 1)) k); [|lia].
    set (lL := 626 - l).
    assert (Escan : up_scan fuelT (aset (h_freq h) cL k) k (cL + 1) = lL + 1).
    { apply up_scan_spec.
      - unfold cL, lL. lia.
      - intros x A B. rewrite aget_aset_ne by lia.
        replace x with (626 - (626 - x)) by (unfold cL, lL in *; lia).
        rewrite Mf by (unfold cL, lL in *; lia). rewrite Hsame by (unfold cL, lL in *; lia). lia.
      - rewrite aget_aset_ne by (unfold cL, lL; lia).
        replace (lL + 1) with (626 - (l - 1)) by (unfold lL; lia).
        apply Eab; [lia|].
        pose proof (Hs (l - 1) ltac:(lia)) as X. replace (l - 1 + 1) with l in X by lia.
        fold F in Hl2, Hl3. destruct Hl3 as [?|Hl3]; [lia|]. lia.
      - rewrite fuelT_val. unfold cL, lL. lia. }
    rewrite Escan. replace (lL + 1 - 1) with lL by lia.
    eexists. split; [reflexivity|].
    unfold t1. destruct (N.eqb_spec l n); [lia|].
    assert (Hl : l < 627) by lia.
    pose proof (si_node _ _ _ _ S l Hl) as (A1 & A2 & A3). pose proof (si_node _ _ _ _ S n Hn) as (B1 & B2 & B3).
    fold L C in A1, A2, A3, B1, B2, B3.
    set (ii := aget (h_son h) cL). set (jj := aget (h_son h) lL).
    assert (Eii : ii = if aget L n =? 0 then 626 - aget C n else aget C n + 627) by (unfold ii, cL; apply Mso; lia).
    assert (Ejj : jj = if aget L l =? 0 then 626 - aget C l else aget C l + 627) by (unfold jj, lL; apply Mso; lia).
    (* the parent array after the exchange, pointwise *)
    set (p4 := if jj <? lzhuf_T then _ else _).
    assert (EP : forall y, aget p4 y =
              if w2 jj y then cL else if w2 ii y then lL else aget (h_prnt h) y).
    { intros y. unfold p4. rewrite aget_w2. rewrite aget_w2. reflexivity. }
    clearbody p4.
    destruct (inf_MRg_fields (swap_tree t n l) l) as (K1 & K2 & K3 & K4 & K5).
    constructor; cbn [h_freq h_prnt h_son]; rewrite ?K1, ?K2, ?K3, ?K4, ?K5;
      rewrite ?swap_freq.
    + intros j Hj1 Hj. fold F. rewrite !aget_aset. unfold lL, cL.
      destruct (N.eqb_spec l j) as [<-|Hlj].
      * rewrite N.eqb_refl. fold F in Hl2. lia.
      * destruct (N.eqb_spec (626 - l) (626 - j)); [lia|].
        destruct (N.eq_dec j n) as [->|Hjn].
        -- rewrite N.eqb_refl. destruct (N.eqb_spec (626 - n) (626 - l)); [lia|].
           rewrite Mf by lia. fold F in Hl2. exact Hl2.
        -- destruct (N.eqb_spec (626 - n) (626 - j)); [lia|]. apply Mf; lia.
    + fold F. rewrite !aget_aset. unfold lL, cL.
      destruct (N.eqb_spec (626 - l) 626); [lia|]. destruct (N.eqb_spec (626 - n) 626); [lia|].
      destruct (N.eqb_spec l 0); [lia|]. exact Mr.
    + rewrite !aget_aset. unfold lL, cL.
      destruct (N.eqb_spec (626 - l) 627); [lia|]. destruct (N.eqb_spec (626 - n) 627); [lia|]. exact Ms.
    + intros x Hx. rewrite swap_leaf, swap_child by (auto; lia). fold L C.
      rewrite !aget_aset. unfold sw, cL, lL.
      destruct (N.eqb_spec (626 - n) (626 - x)).
      * assert (x = n) by lia. subst x. destruct (N.eqb_spec n l); [lia|]. rewrite N.eqb_refl. exact Ejj.
      * destruct (N.eqb_spec (626 - l) (626 - x)).
        -- assert (x = l) by lia. subst x. rewrite N.eqb_refl. exact Eii.
        -- destruct (N.eqb_spec x l); [lia|]. destruct (N.eqb_spec x n); [lia|]. apply Mso. exact Hx.
    + intros x Hx1 Hx. rewrite swap_pa by (auto; lia). fold P. rewrite EP.
      rewrite Ejj, Eii.
      rewrite (w2_prnt L C P LN S l Hl x Hx1 Hx), (w2_prnt L C P LN S n Hn x Hx1 Hx).
      pose proof (Mp x Hx1 Hx) as Y. fold P in Y.
      unfold sw, cL, lL. destruct (N.eqb_spec (aget P x) l); destruct (N.eqb_spec (aget P x) n); lia.
    + rewrite EP. rewrite Ejj, Eii.
      rewrite (w2_root L C P LN S l Hl), (w2_root L C P LN S n Hn). exact Mrp.
    + intros c0 Hc0. rewrite swap_ln by (auto; lia). fold LN. rewrite EP.
      rewrite Ejj, Eii.
      rewrite (w2_leaf L C P LN S l Hl c0 Hc0), (w2_leaf L C P LN S n Hn c0 Hc0).
      pose proof (Ml c0 Hc0) as Y. fold LN in Y.
      unfold sw, cL, lL. destruct (N.eqb_spec (aget LN c0) l); destruct (N.eqb_spec (aget LN c0) n); lia.
Qed.

(* ------------------------------------------------------------------ *)
(* the whole update loop                                                *)

Lemma up_root_sim h t m : PI t 0 -> MRg 1 h t -> MRg 0 (up_loop (S m) h 626) t.
Proof.
  intros HP M. destruct M as [Mf Mr Ms Mso Mp Mrp Ml].
  pose proof (fi_max _ _ _ _ (pi_f _ _ HP)) as Mx.
  rewrite up_loop_S. unfold up_iter. cbv zeta.
  rewrite (aget_aset_ne (h_freq h) 626 (626 + 1)) by lia. change (626 + 1) with 627. rewrite Ms.
  destruct (N.ltb_spec 65535 (aget (h_freq h) 626 + 1)); [lia|].
  cbn [h_prnt]. rewrite Mrp. cbn [N.eqb].
  constructor; cbn [h_freq h_prnt h_son].
  - intros j Hj1 Hj. rewrite aget_aset_ne by lia. apply Mf; assumption.
  - rewrite aget_aset_eq. lia.
  - rewrite aget_aset_ne by lia. exact Ms.
  - exact Mso.
  - exact Mp.
  - exact Mrp.
  - exact Ml.
Qed.

Lemma up_loop_sim : forall k n, n <= k -> forall t h fuel, PI t n -> n < 627 -> MRg 1 h t -> n < N.of_nat fuel ->
  exists m t', loops ifc_step m (t, n) t' /\ N.of_nat m <= n /\ PI t' 0 /\
               MRg 0 (up_loop fuel h (626 - n)) t'.
Proof.
  intros k. induction k as [|k IH] using N.peano_ind; intros n Hk t h fuel HP Hn M Hf.
  - assert (n = 0) as -> by lia. destruct fuel as [|fuel]; [lia|].
    exists O, t. split; [apply loops_done; reflexivity|]. split; [lia|]. split; [exact HP|].
    change (626 - 0) with 626. apply up_root_sim; assumption.
  - destruct (N.eq_dec n 0) as [->|Hn0].
    + destruct fuel as [|fuel]; [lia|].
      exists O, t. split; [apply loops_done; reflexivity|]. split; [lia|]. split; [exact HP|].
      change (626 - 0) with 626. apply up_root_sim; assumption.
    + destruct (ifc_step_eq t n HP Hn Hn0) as (E & P1 & L1 & L2 & L3 & P2 & Hlt).
      destruct (up_iter_sim t n h HP ltac:(lia) Hn M) as (h' & Eh & M').
      set (l := aget (t_group_leader t) (aget (t_group t) n)) in *.
      set (t1 := if l =? n then t else swap_tree t n l) in *.
      set (p := aget (t_parent t1) l) in *.
      destruct fuel as [|fuel]; [lia|].
      destruct (IH p ltac:(lia) (inf_tree t1 l) h' fuel P2 ltac:(lia) M' ltac:(lia)) as (m & t' & Lp & Hm & P' & Mfin).
      exists (S m), t'. split; [eapply loops_more; [exact E|exact Lp]|]. split; [lia|]. split; [exact P'|].
      rewrite up_loop_S. rewrite Eh. cbv zeta.
      pose proof (mr_prnt _ _ _ M' l L1 ltac:(lia)) as Ep. rewrite inf_parent in Ep. fold p in Ep.
      rewrite Ep. destruct (N.eqb_spec (626 - p) 0); [lia|]. exact Mfin.
Qed.

Lemma preinc_MRg h t : MRg 0 h t -> MRg 1 h (set_freq t (aset (t_freq t) 0 (aget (t_freq t) 0 + 1))).
Proof.
  intros [Mf Mr Ms Mso Mp Mrp Ml]. constructor; unfold set_freq;
    cbn [t_leaf t_child t_parent t_freq t_group t_leaf_nodes t_groups t_num_groups t_group_leader]; auto.
  - intros j Hj1 Hj. rewrite aget_aset_ne by lia. apply Mf; assumption.
  - rewrite aget_aset_eq. lia.
Qed.

(* increment_for_code after the (possible) rebuild, against LZHUF's loop *)
Lemma ifc_tail_sim t c h : PI t 0 -> aget (t_freq t) 0 <= 32767 -> c < 314 -> MRg 0 h t ->
  exists t',
    (f0' <- rd_freq 867 t 0 ;; t2 <- wr_freq 867 t 0 (f0' + 1) ;;
     node_index <- rd_leaf_nodes 868 t2 c ;; loop ifc_step 10 (t2, node_index)) = Ok t' /\ PI t' 0 /\
    MRg 0 (up_loop fuelT h (aget (h_prnt h) (c + lzhuf_T))) t'.
Proof.
  intros HP Hmax Hc M.
  destruct (preinc_PI t c HP Hmax Hc) as (P2 & N1 & N2).
  pose proof (preinc_MRg h t M) as M2.
  pose proof HP as [Tl _ _ _]. destruct Tl as (T1 & T2 & T3 & T4 & T5 & T6 & T7 & T8).
  unfold rd_freq, wr_freq, rd_leaf_nodes. rewrite rd_ok by lia. cbn [bind].
  rewrite u16_id by lia. rewrite wr_ok by lia. cbn [bind].
  unfold set_freq at 1. cbn [t_leaf_nodes]. rewrite rd_ok by lia. cbn [bind].
  set (n := aget (t_leaf_nodes t) c) in *.
  set (t2 := set_freq t (aset (t_freq t) 0 (aget (t_freq t) 0 + 1))) in *.
  destruct (up_loop_sim n n ltac:(lia) t2 h fuelT P2 N2 M2 ltac:(rewrite fuelT_val; lia)) as (m & t' & Lp & Hm & P' & Mfin).
  exists t'. split.
  - apply (loop_complete ifc_step 10 m); [exact Lp|].
    assert (N.of_nat m < 1024) by lia. change (2 ^ 10)%nat with 1024%nat. lia.
  - split; [exact P'|]. change lzhuf_T with 627. rewrite (mr_leaf _ _ _ M c Hc). fold n. exact Mfin.
Qed.

(* update without rebuild *)
Lemma update_sim_norebuild t c h : PI t 0 -> aget (t_freq t) 0 < 32768 -> c < 314 -> MRg 0 h t ->
  exists t', increment_for_code t c = Ok t' /\ PI t' 0 /\ MRg 0 (update h c) t'.
Proof.
  intros HP Hmax Hc M. unfold increment_for_code, update.
  pose proof HP as [Tl _ _ _]. destruct Tl as (T1 & T2 & T3 & T4 & T5 & T6 & T7 & T8).
  unfold rd_freq at 1. rewrite rd_ok by lia. cbn [bind].
  unfold lh1_TREE_REORDER_LIMIT. destruct (N.leb_spec 32768 (aget (t_freq t) 0)); [lia|].
  cbn [bind].
  pose proof (mr_rootf _ _ _ M) as R. change lzhuf_R with 626. unfold MAX_FREQ.
  destruct (N.eqb_spec (aget (h_freq h) 626) 32768); [lia|].
  apply ifc_tail_sim; auto. lia.
Qed.

(* P_Lh1k -- part K: LZHUF's reconst against reconstruct_tree *)

(* ------------------------------------------------------------------ *)
(* K.1  the pieces of reconst, on their own                             *)

Lemma rc_find_S m freq f k1 : rc_find (S m) freq f k1 =
  if k1 =? 0 then 0 else if f <? aget freq (k1 - 1) then rc_find m freq f (k1 - 1) else k1.
Proof. reflexivity. Qed.

Lemma rc_find_spec fuel : forall freq f k1 stop, stop <= k1 ->
  (forall x, stop <= x -> x < k1 -> f < aget freq x) ->
  (stop = 0 \/ aget freq (stop - 1) <= f) -> k1 - stop <= N.of_nat fuel ->
  rc_find fuel freq f k1 = stop.
Proof.
  induction fuel as [|m IH]; intros freq f k1 stop H1 H2 H3 H4.
  - cbn [rc_find]. lia.
  - rewrite rc_find_S. destruct (N.eqb_spec k1 0) as [E|E]; [lia|].
    destruct (N.eq_dec k1 stop) as [->|Hne].
    + destruct H3 as [H3|H3]; [lia|]. destruct (N.ltb_spec f (aget freq (stop - 1))); [lia|reflexivity].
    + pose proof (H2 (k1 - 1) ltac:(lia) ltac:(lia)).
      destruct (N.ltb_spec f (aget freq (k1 - 1))); [|lia].
      apply IH; try lia. intros x A B. apply H2; lia.
Qed.

Lemma shift_up_S n a m k : shift_up (S n) a m k =
  if k <? m then shift_up n (aset a m (aget a (m - 1))) (m - 1) k else a.
Proof. reflexivity. Qed.

Lemma shift_up_spec fuel : forall a m k, m - k <= N.of_nat fuel -> forall x,
  aget (shift_up fuel a m k) x = if (k <? x) && (x <=? m) then aget a (x - 1) else aget a x.
Proof.
  induction fuel as [|n IH]; intros a m k Hf x.
  - cbn [shift_up]. destruct (N.ltb_spec k x); destruct (N.leb_spec x m); cbn [andb]; try reflexivity. lia.
  - rewrite shift_up_S. destruct (N.ltb_spec k m) as [Hkm|Hkm].
    + rewrite IH by lia. rewrite !aget_aset.
      repeat (match goal with
              | |- context [N.eqb ?a ?b] => destruct (N.eqb_spec a b)
              | |- context [N.ltb ?a ?b] => destruct (N.ltb_spec a b)
              | |- context [N.leb ?a ?b] => destruct (N.leb_spec a b)
              end); cbn [andb]; try lia; try reflexivity; f_equal; lia.
    + destruct (N.ltb_spec k x); destruct (N.leb_spec x m); cbn [andb]; try reflexivity. lia.
Qed.

(* one round of the build loop: i = 2 b, j = 314 + b *)
Definition rc_step (h : huff) (b : N) : huff :=
  let i := 2 * b in let j := 314 + b in
  let f := aget (h_freq h) i + aget (h_freq h) (i + 1) in
  let freq0 := aset (h_freq h) j f in
  let k := rc_find fuelT freq0 f j in
  let freq1 := aset (shift_up fuelT freq0 j k) k f in
  let son1 := aset (shift_up fuelT (h_son h) j k) k i in
  {| h_freq := freq1; h_son := son1; h_prnt := h_prnt h |}.

Lemma rc_build_S n h i j : rc_build (S n) h i j =
  if j <? lzhuf_T then
    let f := aget (h_freq h) i + aget (h_freq h) (i + 1) in
    let freq0 := aset (h_freq h) j f in
    let k := rc_find fuelT freq0 f j in
    let freq1 := aset (shift_up fuelT freq0 j k) k f in
    let son1 := aset (shift_up fuelT (h_son h) j k) k i in
    rc_build n {| h_freq := freq1; h_son := son1; h_prnt := h_prnt h |} (i + 2) (j + 1)
  else h.
Proof. reflexivity. Qed.

Fixpoint hbn (h1 : huff) (n : nat) : huff :=
  match n with
  | O => h1
  | S m => rc_step (hbn h1 m) (N.of_nat m)
  end.

Lemma rc_build_unroll h1 : forall r fuel b, (b + r = 313)%nat -> (r < fuel)%nat ->
  rc_build fuel (hbn h1 b) (2 * N.of_nat b) (314 + N.of_nat b) = hbn h1 313.
Proof.
  induction r as [|r IH]; intros fuel b Hb Hf.
  - destruct fuel as [|fuel]; [lia|]. rewrite rc_build_S. change lzhuf_T with 627.
    destruct (N.ltb_spec (314 + N.of_nat b) 627); [lia|]. replace b with 313%nat by lia. reflexivity.
  - destruct fuel as [|fuel]; [lia|]. rewrite rc_build_S. change lzhuf_T with 627.
    destruct (N.ltb_spec (314 + N.of_nat b) 627); [|lia]. cbv zeta.
    replace (2 * N.of_nat b + 2) with (2 * N.of_nat (S b)) by lia.
    replace (314 + N.of_nat b + 1) with (314 + N.of_nat (S b)) by lia.
    rewrite <- (IH fuel (S b) ltac:(lia) ltac:(lia)). reflexivity.
Qed.

(* rc_parents: every slot named by son[] gets the index of its owner *)
Definition slot (s : arr) (i y : N) : Prop := y = aget s i \/ (aget s i < 627 /\ y = aget s i + 1).

Lemma rc_parents_S n h i : rc_parents (S n) h i =
  let k := aget (h_son h) i in
  let p := if lzhuf_T <=? k then aset (h_prnt h) k i else aset (aset (h_prnt h) (k + 1) i) k i in
  rc_parents n {| h_freq := h_freq h; h_son := h_son h; h_prnt := p |} (i + 1).
Proof. reflexivity. Qed.

Lemma rc_parents_spec s : (forall i i' y, i < 627 -> i' < 627 -> slot s i y -> slot s i' y -> i = i') ->
  forall n h i, h_son h = s -> i + N.of_nat n = 627 ->
  let h' := rc_parents n h i in
  h_freq h' = h_freq h /\ h_son h' = s /\
  (forall i' y, i <= i' -> i' < 627 -> slot s i' y -> aget (h_prnt h') y = i') /\
  (forall y, (forall i', i <= i' -> i' < 627 -> ~ slot s i' y) -> aget (h_prnt h') y = aget (h_prnt h) y).
Proof.
  intros Dj. induction n as [|n IH]; intros h i Hs Hi.
  - cbn [rc_parents]. split; [reflexivity|]. split; [exact Hs|]. split; [intros; lia|reflexivity].
  - rewrite rc_parents_S. cbv zeta.
    set (k := aget (h_son h) i).
    set (p := if lzhuf_T <=? k then aset (h_prnt h) k i else aset (aset (h_prnt h) (k + 1) i) k i).
    set (h1 := {| h_freq := h_freq h; h_son := h_son h; h_prnt := p |}).
    destruct (IH h1 (i + 1) Hs ltac:(lia)) as (A & B & C & D).
    split; [exact A|]. split; [exact B|]. split.
    + intros i' y Hi1 Hi2 Sl. destruct (N.eq_dec i' i) as [->|Hne]; [|apply C; [lia|exact Hi2|exact Sl]].
      rewrite D.
      * cbn [h1 h_prnt]. unfold p. change lzhuf_T with 627. unfold slot in Sl. rewrite <- Hs in Sl. fold k in Sl.
        destruct (N.leb_spec 627 k).
        -- destruct Sl as [->|[? _]]; [apply aget_aset_eq|lia].
        -- destruct Sl as [->|[_ ->]]; [apply aget_aset_eq|].
           rewrite aget_aset_ne by lia. apply aget_aset_eq.
      * intros i'' H1 H2 Sl'. assert (i = i'') by (apply (Dj i i'' y); auto; lia). lia.
    + intros y Hy. rewrite D by (intros i' H1 H2; apply Hy; [lia|exact H2]).
      cbn [h1 h_prnt]. unfold p. change lzhuf_T with 627.
      assert (Ns : ~ slot s i y) by (apply Hy; lia). unfold slot in Ns. rewrite <- Hs in Ns. fold k in Ns.
      destruct (N.leb_spec 627 k).
      * apply aget_aset_ne. intros E. apply Ns. left. congruence.
      * rewrite aget_aset_ne by (intros E; apply Ns; left; congruence).
        apply aget_aset_ne. intros E. apply Ns. right. split; [exact H|congruence].
Qed.

(* ------------------------------------------------------------------ *)
(* K.2  rc_collect against the decoder's gather_leaves                  *)

Lemma rc_collect_S n h i j : rc_collect (S n) h i j =
  if lzhuf_T <=? aget (h_son h) i then
    rc_collect n {| h_freq := aset (h_freq h) j ((aget (h_freq h) i + 1) / 2);
                    h_son := aset (h_son h) j (aget (h_son h) i);
                    h_prnt := h_prnt h |} (i + 1) (j + 1)
  else rc_collect n h (i + 1) j.
Proof. reflexivity. Qed.

Section Collect.
  Variable t0 : lh1_tree.
  Variable h0 : huff.
  Hypothesis HP : PI t0 0.
  Hypothesis M0 : MRg 0 h0 t0.

  Let L0 := t_leaf t0.

  Definition lr (i : N) : N := 314 - rk L0 (627 - i).

  Lemma rk_le_total i : i <= 627 -> rk L0 i <= 314.
  Proof. intros Hi. pose proof (rk_total t0 HP) as X. fold L0 in X. rewrite <- X. apply rk_mono. exact Hi. Qed.

  Lemma lr_0 : lr 0 = 0.
  Proof. unfold lr. change (627 - 0) with 627. pose proof (rk_total t0 HP) as X. fold L0 in X. rewrite X. reflexivity. Qed.

  Lemma lr_succ i : i < 627 -> lr (i + 1) = lr i + aget L0 (626 - i).
  Proof.
    intros Hi. unfold lr. replace (627 - i) with (626 - i + 1) by lia. rewrite rk_succ.
    replace (627 - (i + 1)) with (626 - i) by lia.
    pose proof (rk_le_total (626 - i + 1) ltac:(lia)) as X. rewrite rk_succ in X. lia.
  Qed.

  Lemma lr_mono i j : i <= j -> j <= 627 -> lr i <= lr j.
  Proof. intros H1 H2. unfold lr. pose proof (rk_mono L0 (627 - j) (627 - i) ltac:(lia)). lia. Qed.

  Lemma lr_le i : i <= 627 -> lr i <= i.
  Proof.
    intros Hi. replace i with (N.of_nat (N.to_nat i)) in * by lia.
    generalize dependent (N.to_nat i). intros d. induction d as [|d IH]; intros Hd.
    - change (N.of_nat 0) with 0. rewrite lr_0. lia.
    - replace (N.of_nat (S d)) with (N.of_nat d + 1) in * by lia. rewrite lr_succ by lia.
      pose proof (L0_le1 t0 HP (626 - N.of_nat d) ltac:(lia)) as Q. fold L0 in Q.
      specialize (IH ltac:(lia)). lia.
  Qed.

  Lemma lr_rank q : q < 627 -> aget L0 q = 1 -> lr (626 - q) = 313 - rk L0 q.
  Proof.
    intros Hq Lq. unfold lr. replace (627 - (626 - q)) with (q + 1) by lia. rewrite rk_succ, Lq.
    pose proof (rank_lt t0 HP q Hq Lq). fold L0 in H. lia.
  Qed.

  Lemma son0_leaf x : x < 627 -> (627 <= aget (h_son h0) x <-> aget L0 (626 - x) = 1).
  Proof.
    intros Hx. pose proof (mr_son _ _ _ M0 (626 - x) ltac:(lia)) as E.
    replace (626 - (626 - x)) with x in E by lia. rewrite E. fold L0.
    destruct HP as [_ S _ _]. pose proof (si_node _ _ _ _ S (626 - x) ltac:(lia)) as (A1 & A2 & A3). fold L0 in A1, A2, A3.
    destruct (N.eqb_spec (aget L0 (626 - x)) 0) as [E0|E0].
    - specialize (A3 E0). lia.
    - lia.
  Qed.

  Record CInv (hc : huff) (i : N) : Prop := {
    ci_prnt : h_prnt hc = h_prnt h0;
    ci_done : forall x, x < i -> aget L0 (626 - x) = 1 ->
      aget (h_freq hc) (lr x) = half (aget (h_freq h0) x) /\ aget (h_son hc) (lr x) = aget (h_son h0) x;
    ci_rest : forall x, i <= x -> aget (h_freq hc) x = aget (h_freq h0) x /\ aget (h_son hc) x = aget (h_son h0) x
  }.

  Lemma rc_collect_ok n : forall hc i, CInv hc i -> i + N.of_nat n = 627 ->
    CInv (rc_collect n hc i (lr i)) 627.
  Proof.
    induction n as [|n IH]; intros hc i Ci Hi.
    - replace i with 627 in Ci by lia. exact Ci.
    - rewrite rc_collect_S. change lzhuf_T with 627.
      destruct Ci as [Cp Cd Cr]. destruct (Cr i ltac:(lia)) as [R1 R2].
      pose proof (son0_leaf i ltac:(lia)) as Sl.
      pose proof (L0_le1 t0 HP (626 - i) ltac:(lia)) as Q. fold L0 in Q.
      pose proof (lr_le i ltac:(lia)) as Hle.
      rewrite R2. destruct (N.leb_spec 627 (aget (h_son h0) i)) as [Hs|Hs].
      + assert (E1 : aget L0 (626 - i) = 1) by (apply Sl; exact Hs).
        replace (lr i + 1) with (lr (i + 1)) by (rewrite lr_succ by lia; lia).
        apply IH; [|lia]. constructor; cbn [h_freq h_son h_prnt].
        * exact Cp.
        * intros x Hx Lx. rewrite !aget_aset. destruct (N.eq_dec x i) as [->|Hne].
          -- rewrite N.eqb_refl. rewrite R1. split; reflexivity.
          -- assert (lr x < lr i).
             { pose proof (lr_mono (x + 1) i ltac:(lia) ltac:(lia)) as Mn. rewrite lr_succ in Mn by lia. lia. }
             destruct (N.eqb_spec (lr i) (lr x)); [lia|]. apply Cd; [lia|exact Lx].
        * intros x Hx. rewrite !aget_aset. destruct (N.eqb_spec (lr i) x); [lia|]. apply Cr. lia.
      + assert (E0 : aget L0 (626 - i) = 0) by (destruct (N.eq_dec (aget L0 (626 - i)) 1) as [E|E]; [apply Sl in E; lia|lia]).
        replace (lr i) with (lr (i + 1)) by (rewrite lr_succ by lia; lia).
        apply IH; [|lia]. constructor.
        * exact Cp.
        * intros x Hx Lx. destruct (N.eq_dec x i) as [->|Hne]; [lia|]. apply Cd; [lia|exact Lx].
        * intros x Hx. apply Cr. lia.
  Qed.

  Definition h_collected : huff := rc_collect (N.to_nat lzhuf_T) h0 0 0.

  Lemma collected_inv : CInv h_collected 627.
  Proof.
    unfold h_collected.
    assert (C0 : CInv h0 0) by (constructor; [reflexivity|intros; lia|intros; split; reflexivity]).
    pose proof (rc_collect_ok (N.to_nat lzhuf_T) h0 0 C0 ltac:(reflexivity)) as X. rewrite lr_0 in X. exact X.
  Qed.

  (* the collected leaves are the decoder's gathered leaves, upside down *)
  Variable t1 : lh1_tree.
  Hypothesis Gv : GInv t0 t1 627.

  Lemma collected_rem k : k < 314 ->
    aget (h_freq h_collected) (313 - k) = aget (t_freq t1) k /\
    aget (h_son h_collected) (313 - k) = aget (t_child t1) k + 627.
  Proof.
    intros Hk. destruct (rank_pos t0 HP k Hk) as (q & Hq & Lq & Rq). fold L0 in Lq, Rq.
    destruct (gv_done _ _ _ Gv q Hq Lq) as (_ & G2 & G3). fold L0 in G2, G3. rewrite Rq in G2, G3.
    destruct (ci_done _ _ collected_inv (626 - q) ltac:(lia)) as [D1 D2].
    { replace (626 - (626 - q)) with q by lia. exact Lq. }
    rewrite (lr_rank q Hq Lq), Rq in D1, D2.
    assert (Hq1 : 1 <= q).
    { destruct (N.eq_dec q 0) as [E|E]; [|lia]. destruct HP as [_ S _ _]. destruct (si_root _ _ _ _ S) as [R _].
      fold L0 in R. rewrite E in Lq. lia. }
    rewrite D1, D2, G2, G3. rewrite (mr_freq _ _ _ M0 q Hq1 Hq).
    pose proof (mr_son _ _ _ M0 q Hq) as E. rewrite E. fold L0. rewrite Lq. cbn [N.eqb]. split; reflexivity.
  Qed.

  Lemma collected_sent : aget (h_freq h_collected) 627 = 65535.
  Proof. destruct (ci_rest _ _ collected_inv 627 ltac:(lia)) as [E _]. rewrite E. apply (mr_sent _ _ _ M0). Qed.

  Lemma collected_prnt : h_prnt h_collected = h_prnt h0.
  Proof. apply (ci_prnt _ _ collected_inv). Qed.
End Collect.

(* ------------------------------------------------------------------ *)
(* K.3  the build loop against the decoder's merge                      *)

Lemma ga_sorted_gen L1 C1 F1 T : GA L1 C1 F1 T -> forall i j, i <= j -> j < 314 -> aget F1 j <= aget F1 i.
Proof.
  intros Ga i j Hij Hj.
  assert (G : forall d i, i + N.of_nat d < 314 -> aget F1 (i + N.of_nat d) <= aget F1 i).
  { induction d as [|d IH]; intros i0 H0.
    - replace (i0 + N.of_nat 0) with i0 by lia. lia.
    - replace (i0 + N.of_nat (S d)) with (i0 + N.of_nat d + 1) by lia.
      pose proof (ga_sorted _ _ _ _ Ga (i0 + N.of_nat d) ltac:(lia)).
      assert (aget F1 (i0 + N.of_nat d) <= aget F1 i0) by (apply IH; lia). lia. }
  specialize (G (N.to_nat (j - i)) i). replace (i + N.of_nat (N.to_nat (j - i))) with j in G by lia.
  apply G. lia.
Qed.

Section Build.
  Variables C1 F1 : arr.
  Variable T : N.
  Variable L1 : arr.
  Hypothesis Ga : GA L1 C1 F1 T.
  Variable h1 : huff.

  Record JV (hb : huff) (t : lh1_tree) (ib lb : N) : Prop := {
    j_built : forall x, x + ib < 627 ->
      aget (h_freq hb) x = aget (t_freq t) (626 - x) /\
      aget (h_son hb) x = (if aget (t_leaf t) (626 - x) =? 0 then 626 - aget (t_child t) (626 - x)
                           else aget (t_child t) (626 - x) + 627);
    j_rem : forall k, k < lb ->
      aget (h_freq hb) (627 - ib + (lb - 1 - k)) = aget F1 k /\
      aget (h_son hb) (627 - ib + (lb - 1 - k)) = aget C1 k + 627;
    j_sent : aget (h_freq hb) 627 = 65535;
    j_prnt : h_prnt hb = h_prnt h1
  }.

  Definition XJ (b : N) (t : lh1_tree) (ib lb : N) : Prop := JV (hbn h1 (N.to_nat b)) t ib lb.

  Lemma XJ_copy b t ib lb : CP C1 F1 T t ib lb b -> 1 <= lb -> b <= 312 -> XJ b t ib lb ->
    XJ b (copy_tree t (ib - 1) (lb - 1)) (ib - 1) (lb - 1).
  Proof.
    intros Cp Hlb Hb [Jb Jr Js Jp]. unfold XJ.
    pose proof (cp_rel _ _ _ _ _ _ _ Cp) as Rel. pose proof (cp_lb _ _ _ _ _ _ _ Cp) as Lb.
    destruct (cp_rem _ _ _ _ _ _ _ Cp (lb - 1) ltac:(lia)) as (Q1 & Q2 & Q3).
    constructor.
    - intros x Hx. unfold copy_tree. cbn [t_leaf t_child t_freq]. rewrite !aget_aset. rewrite Q1, Q2, Q3.
      destruct (N.eqb_spec (ib - 1) (626 - x)) as [E|E].
      + cbn [N.eqb]. pose proof (Jr (lb - 1) ltac:(lia)) as [R1 R2].
        replace (627 - ib + (lb - 1 - (lb - 1))) with x in R1, R2 by lia. split; assumption.
      + apply Jb. lia.
    - intros k Hk. pose proof (Jr k ltac:(lia)) as [R1 R2].
      replace (627 - (ib - 1) + (lb - 1 - 1 - k)) with (627 - ib + (lb - 1 - k)) by lia. split; assumption.
    - exact Js.
    - exact Jp.
  Qed.

  Lemma XJ_branch b t ib lb : CP C1 F1 T t ib lb b -> b <= 312 -> ib + 2 * b <= 625 ->
    let child := 626 - 2 * b in
    let freq := aget (t_freq t) child + aget (t_freq t) (child - 1) in
    aget (t_freq t) ib <= freq -> (lb = 0 \/ freq < aget F1 (lb - 1)) -> XJ b t ib lb ->
    XJ (b + 1) (branch_tree t (ib - 1) child freq) (ib - 1) lb.
  Proof.
    intros Cp Hb Hib child freq Hfr Hex [Jb Jr Js Jp]. unfold XJ.
    replace (N.to_nat (b + 1)) with (S (N.to_nat b)) by lia. cbn [hbn]. rewrite N2Nat.id.
    set (hb := hbn h1 (N.to_nat b)) in *.
    pose proof (cp_rel _ _ _ _ _ _ _ Cp) as Rel. pose proof (cp_lb _ _ _ _ _ _ _ Cp) as Lb.
    set (j := 314 + b). set (k := 627 - ib).
    assert (Hkj : k + lb = j) by (unfold k, j; lia).
    (* f *)
    destruct (Jb (2 * b) ltac:(lia)) as [B1 _]. destruct (Jb (2 * b + 1) ltac:(lia)) as [B2 _].
    replace (626 - 2 * b) with child in B1 by reflexivity.
    replace (626 - (2 * b + 1)) with (child - 1) in B2 by (unfold child; lia).
    assert (Ef : aget (h_freq hb) (2 * b) + aget (h_freq hb) (2 * b + 1) = freq) by (unfold freq; lia).
    (* the insertion point *)
    assert (Ek : rc_find fuelT (aset (h_freq hb) j freq) freq j = k).
    { apply rc_find_spec.
      - lia.
      - intros x A B. rewrite aget_aset_ne by lia.
        destruct (Jr (lb - 1 - (x - k)) ltac:(lia)) as [R _].
        replace (627 - ib + (lb - 1 - (lb - 1 - (x - k)))) with x in R by (unfold k in *; lia).
        rewrite R. destruct Hex as [?|Hex]; [lia|].
        pose proof (ga_sorted_gen _ _ _ _ Ga (lb - 1 - (x - k)) (lb - 1) ltac:(lia) ltac:(lia)). lia.
      - right. rewrite aget_aset_ne by lia. destruct (Jb (k - 1) ltac:(unfold k; lia)) as [R _].
        replace (626 - (k - 1)) with ib in R by (unfold k; lia). rewrite R. exact Hfr.
      - rewrite fuelT_val. lia. }
    unfold rc_step. fold j. rewrite Ef, Ek.
    assert (Hsh : j - k <= N.of_nat fuelT) by (rewrite fuelT_val; lia).
    constructor; cbn [h_freq h_son h_prnt].
    - intros x Hx. unfold branch_tree. cbn [t_leaf t_child t_freq]. rewrite !aget_aset.
      rewrite !(shift_up_spec fuelT _ j k Hsh).
      destruct (N.eqb_spec k x) as [E|E].
      + destruct (N.eqb_spec (ib - 1) (626 - x)); [|lia]. cbn [N.eqb]. split; [reflexivity|unfold child; lia].
      + destruct (N.eqb_spec (ib - 1) (626 - x)); [lia|].
        destruct (N.ltb_spec k x); [lia|]. cbn [andb]. rewrite aget_aset_ne by lia. apply Jb. lia.
    - intros k' Hk'. rewrite !aget_aset. rewrite !(shift_up_spec fuelT _ j k Hsh).
      set (idx := 627 - (ib - 1) + (lb - 1 - k')).
      assert (Hidx : idx = k + 1 + (lb - 1 - k')) by (unfold idx, k; lia).
      destruct (N.eqb_spec k idx); [lia|].
      destruct (N.ltb_spec k idx); [|lia]. destruct (N.leb_spec idx j); [|lia]. cbn [andb].
      rewrite aget_aset_ne by lia.
      destruct (Jr k' Hk') as [R1 R2].
      replace (idx - 1) with (627 - ib + (lb - 1 - k')) by (unfold k in *; lia). split; assumption.
    - rewrite aget_aset_ne by (unfold k; lia). rewrite (shift_up_spec fuelT _ j k Hsh).
      destruct (N.ltb_spec k 627); destruct (N.leb_spec 627 j); cbn [andb]; try (unfold j in *; lia);
        rewrite aget_aset_ne by (unfold j; lia); exact Js.
    - exact Jp.
  Qed.
End Build.

(* ------------------------------------------------------------------ *)
(* K.4  reconst = reconstruct_tree under the mirror                     *)

Lemma slot_w2 s i y : slot s i y <-> w2 (aget s i) y = true.
Proof.
  unfold slot, w2. split.
  - intros [->|[A ->]].
    + rewrite N.eqb_refl. reflexivity.
    + rewrite N.eqb_refl. destruct (N.ltb_spec (aget s i) 627); [|lia]. cbn [andb]. apply orb_true_r.
  - intros H. apply orb_true_iff in H. destruct H as [H|H].
    + left. apply N.eqb_eq. exact H.
    + apply andb_true_iff in H. destruct H as [A B]. right. split; [apply N.ltb_lt; exact A|apply N.eqb_eq; exact B].
Qed.

Theorem reconst_mirror t h : PI t 0 -> MRg 0 h t ->
  exists t', reconstruct_tree t = Ok t' /\ PI t' 0 /\ aget (t_freq t') 0 <= 16541 /\ MRg 0 (reconst h) t'.
Proof.
  intros HP M.
  destruct (reconstruct_phases t HP) as (t1 & E1 & Gv & Ga & H).
  set (T := sumf (fun k => aget (t_freq t1) k) 314) in *.
  set (h1 := h_collected h).
  destruct (H (XJ (t_child t1) (t_freq t1) h1)) as (t2 & t' & E & X2 & Rg & Tl2 & S2 & F2 & Hmax).
  - intros b t0 ib lb Cp Hlb Hb Hx. apply (XJ_copy _ _ T h1 b t0 ib lb Cp Hlb Hb Hx).
  - intros b t0 ib lb Cp Hb Hib child freq Hfr Hex Hx.
    apply (XJ_branch _ _ T (t_leaf t1) Ga h1 b t0 ib lb Cp Hb Hib Hfr Hex Hx).
  - unfold XJ. change (N.to_nat 0) with O. cbn [hbn]. constructor.
    + intros x Hx. lia.
    + intros k Hk. replace (627 - 627 + (314 - 1 - k)) with (313 - k) by lia.
      apply (collected_rem t h HP M t1 Gv k Hk).
    + apply (collected_sent t h HP M).
    + reflexivity.
  - exists t'. split; [exact E|]. split; [apply (RG_PI t2); assumption|].
    pose proof (rg_same _ _ _ Rg) as (Q1 & Q2 & Q3 & Q4 & Q5).
    split; [rewrite Q4; exact Hmax|].
    (* LZHUF side *)
    unfold XJ in X2. change (N.to_nat 313) with 313%nat in X2.
    set (h2 := hbn h1 313) in *.
    assert (Eh2 : rc_build fuelT h1 0 N_CHAR = h2).
    { pose proof (rc_build_unroll h1 313 fuelT 0 ltac:(reflexivity)) as X.
      change (hbn h1 0) with h1 in X. change (2 * N.of_nat 0) with 0 in X.
      change (314 + N.of_nat 0) with N_CHAR in X. apply X. unfold fuelT. change (N.to_nat 1024) with 1024%nat. lia. }
    unfold reconst. fold (h_collected h). fold h1. rewrite Eh2.
    destruct X2 as [Jb _ Js Jp].
    set (s := h_son h2).
    assert (Es : forall i, i < 627 -> aget s i =
              if aget (t_leaf t2) (626 - i) =? 0 then 626 - aget (t_child t2) (626 - i)
              else aget (t_child t2) (626 - i) + 627).
    { intros i Hi. apply (Jb i ltac:(lia)). }
    assert (Dj : forall i i' y, i < 627 -> i' < 627 -> slot s i y -> slot s i' y -> i = i').
    { intros i i' y Hi Hi' A B. apply slot_w2 in A. apply slot_w2 in B.
      rewrite (Es i Hi) in A. rewrite (Es i' Hi') in B.
      destruct (N.lt_ge_cases y 626) as [Hy|Hy].
      - replace y with (626 - (626 - y)) in A, B by lia.
        rewrite (w2_prnt _ _ _ _ S2 (626 - i) ltac:(lia) (626 - y) ltac:(lia) ltac:(lia)) in A.
        rewrite (w2_prnt _ _ _ _ S2 (626 - i') ltac:(lia) (626 - y) ltac:(lia) ltac:(lia)) in B.
        apply N.eqb_eq in A. apply N.eqb_eq in B. lia.
      - destruct (N.eq_dec y 626) as [->|Hne].
        + rewrite (w2_root _ _ _ _ S2 (626 - i) ltac:(lia)) in A. discriminate.
        + destruct (N.lt_ge_cases (y - 627) 314) as [Hc|Hc].
          * replace y with (y - 627 + 627) in A, B by lia.
            rewrite (w2_leaf _ _ _ _ S2 (626 - i) ltac:(lia) (y - 627) Hc) in A.
            rewrite (w2_leaf _ _ _ _ S2 (626 - i') ltac:(lia) (y - 627) Hc) in B.
            apply N.eqb_eq in A. apply N.eqb_eq in B. lia.
          * exfalso. pose proof (si_node _ _ _ _ S2 (626 - i) ltac:(lia)) as (A1 & A2 & A3).
            unfold w2 in A. destruct (N.eqb_spec (aget (t_leaf t2) (626 - i)) 0) as [E0|E0].
            -- specialize (A3 E0).
               destruct (N.eqb_spec y (626 - aget (t_child t2) (626 - i))); [lia|].
               destruct (N.eqb_spec y (626 - aget (t_child t2) (626 - i) + 1)); [lia|].
               rewrite andb_false_r in A. discriminate.
            -- specialize (A2 ltac:(lia)).
               destruct (N.eqb_spec y (aget (t_child t2) (626 - i) + 627)); [lia|].
               destruct (N.ltb_spec (aget (t_child t2) (626 - i) + 627) 627); [lia|]. discriminate. }
    pose proof (rc_parents_spec s Dj (N.to_nat lzhuf_T) h2 0 eq_refl ltac:(reflexivity)) as (R1 & R2 & R3 & R4).
    set (h3 := rc_parents (N.to_nat lzhuf_T) h2 0) in *.
    constructor; rewrite ?Q1, ?Q2, ?Q3, ?Q4, ?Q5; rewrite ?R1, ?R2.
    + intros j Hj1 Hj. destruct (Jb (626 - j) ltac:(lia)) as [B1 _]. replace (626 - (626 - j)) with j in B1 by lia. exact B1.
    + destruct (Jb 626 ltac:(lia)) as [B1 _]. change (626 - 626) with 0 in B1. lia.
    + exact Js.
    + intros j Hj. fold s. rewrite (Es (626 - j) ltac:(lia)). replace (626 - (626 - j)) with j by lia. reflexivity.
    + intros x Hx1 Hx.
      pose proof (si_pab _ _ _ _ S2 x Hx1 Hx) as Pb.
      pose proof (si_pa _ _ _ _ S2 x _ Hx1 Hx Pb) as [Y _]. specialize (Y eq_refl). destruct Y as [Y1 Y2].
      set (q := aget (t_parent t2) x) in *.
      replace (626 - q) with (626 - q) by reflexivity.
      apply (R3 (626 - q) (626 - x)); [lia|lia|].
      unfold slot. rewrite (Es (626 - q) ltac:(lia)). replace (626 - (626 - q)) with q by lia.
      rewrite Y1. cbn [N.eqb].
      pose proof (si_node _ _ _ _ S2 q Pb) as (_ & _ & A3). specialize (A3 Y1).
      destruct Y2 as [Y2|Y2]; [left; lia|right; split; lia].
    + rewrite R4.
      * rewrite Jp. unfold h1. rewrite (collected_prnt t h HP M). apply (mr_rootp _ _ _ M).
      * intros i' _ Hi' Sl. apply slot_w2 in Sl. rewrite (Es i' Hi') in Sl.
        rewrite (w2_root _ _ _ _ S2 (626 - i') ltac:(lia)) in Sl. discriminate.
    + intros c Hc.
      pose proof (si_lnb _ _ _ _ S2 c Hc) as Pb.
      pose proof (si_ln _ _ _ _ S2 c _ Hc Pb) as [Y _]. specialize (Y eq_refl). destruct Y as [Y1 Y2].
      set (q := aget (t_leaf_nodes t2) c) in *.
      apply (R3 (626 - q) (c + 627)); [lia|lia|].
      unfold slot. rewrite (Es (626 - q) ltac:(lia)). replace (626 - (626 - q)) with q by lia.
      rewrite Y1, Y2. cbn [N.eqb]. left. reflexivity.
Qed.

(* P_Lh1l -- part L: the refinement theorem *)

(* one symbol: LZHUF's update (with reconst when freq[R] = MAX_FREQ) against the
   decoder's increment_for_code (with reconstruct_tree when nodes[0].freq >= 0x8000) *)
Theorem lh1_update_step t c h : lh1_tree_inv t -> lh1_mirror h t -> c < 314 ->
  exists t', increment_for_code t c = Ok t' /\ lh1_tree_inv t' /\ lh1_mirror (update h c) t'.
Proof.
  unfold lh1_tree_inv, lh1_mirror. intros HP M Hc.
  pose proof (fi_max _ _ _ _ (pi_f _ _ HP)) as Mx.
  destruct (N.lt_ge_cases (aget (t_freq t) 0) 32768) as [Hlt|Hge].
  - apply update_sim_norebuild; assumption.
  - unfold increment_for_code, update.
    pose proof HP as [Tl _ _ _]. destruct Tl as (T1 & T2 & T3 & T4 & T5 & T6 & T7 & T8).
    unfold rd_freq at 1. rewrite rd_ok by lia. cbn [bind].
    unfold lh1_TREE_REORDER_LIMIT. destruct (N.leb_spec 32768 (aget (t_freq t) 0)); [|lia].
    pose proof (mr_rootf _ _ _ M) as R. change lzhuf_R with 626. unfold MAX_FREQ.
    destruct (N.eqb_spec (aget (h_freq h) 626) 32768); [|lia].
    destruct (reconst_mirror t h HP M) as (t1 & E1 & P1 & M1 & Mr1). rewrite E1. cbn [bind].
    apply ifc_tail_sim; auto. lia.
Qed.

(* any number of symbols *)
Definition lh1_run_codes (t : lh1_tree) (codes : list N) : outcome lh1_tree :=
  fold_left (fun acc c => t' <- acc ;; increment_for_code t' c) codes (Ok t).

Lemma lh1_run_codes_cons t c codes :
  lh1_run_codes t (c :: codes) = (t' <- increment_for_code t c ;; lh1_run_codes t' codes).
Proof.
  unfold lh1_run_codes. cbn [fold_left bind].
  destruct (increment_for_code t c) as [t'| |]; cbn [bind]; [reflexivity| |].
  - induction codes as [|x r IH]; [reflexivity|]. cbn [fold_left bind]. exact IH.
  - induction codes as [|x r IH]; [reflexivity|]. cbn [fold_left bind]. exact IH.
Qed.

Lemma lh1_refines_lzhuf_from codes : forall t h, lh1_tree_inv t -> lh1_mirror h t ->
  Forall (fun c => c < 314) codes ->
  exists t', lh1_run_codes t codes = Ok t' /\ lh1_tree_inv t' /\ lh1_mirror (fold_left update codes h) t'.
Proof.
  induction codes as [|c r IH]; intros t h HP M Hall.
  - exists t. split; [reflexivity|]. split; assumption.
  - inversion Hall as [|? ? Hc Hr]; subst.
    destruct (lh1_update_step t c h HP M Hc) as (t1 & E1 & P1 & M1).
    destruct (IH t1 (update h c) P1 M1 Hr) as (t' & E' & P' & M').
    exists t'. split; [|split; assumption].
    rewrite lh1_run_codes_cons, E1. cbn [bind]. exact E'.
Qed.

Theorem lh1_refines_lzhuf : forall codes, Forall (fun c => c < 314) codes ->
  exists t', lh1_run_codes (lh1_t lh1_s0) codes = Ok t' /\ lh1_tree_inv t' /\
             lh1_mirror (fold_left update codes StartHuff) t'.
Proof.
  intros codes Hall. apply lh1_refines_lzhuf_from; [exact lh1_s0_tree_inv|exact lh1_mirror_init|exact Hall].
Qed.

(* P_Lh1m -- part M: decoding what EncodeChar / EncodePosition emit *)

Lemma ec_walk_S m prnt k acc : ec_walk (S m) prnt k acc =
  if aget prnt k =? lzhuf_R then N.odd k :: acc else ec_walk m prnt (aget prnt k) (N.odd k :: acc).
Proof. reflexivity. Qed.

Lemma odd_626_sub j : j <= 626 -> N.odd (626 - j) = N.odd j.
Proof.
  intros H. rewrite <- !N.negb_even. f_equal.
  replace 626 with (626 - j + j) at 2 by lia.
  destruct (N.even (626 - j)) eqn:E1; destruct (N.even j) eqn:E2; try reflexivity.
  - assert (X : N.even (626 - j + j) = true) by (replace (626 - j + j) with 626 by lia; reflexivity).
    rewrite N.even_add, E1, E2 in X. discriminate.
  - assert (X : N.even (626 - j + j) = true) by (replace (626 - j + j) with 626 by lia; reflexivity).
    rewrite N.even_add, E1, E2 in X. discriminate.
Qed.

Lemma char_code_eq h c : char_code h c = ec_walk fuelT (h_prnt h) (aget (h_prnt h) (c + 627)) [].
Proof. reflexivity. Qed.

Lemma fuelT_gt j : j < 1024 -> (N.to_nat j < fuelT)%nat.
Proof. intros H. unfold fuelT. lia. Qed.

Section DecodeChar.
  Variable t : lh1_tree.
  Variable h : huff.
  Hypothesis HP : PI t 0.
  Hypothesis M : MRg 0 h t.

  (* one step down from a branch node *)
  Lemma walk_step p b rest r s : p < 627 -> aget (t_leaf t) p = 0 ->
    bsr_wf r -> src_ok s -> pending r s = b :: rest ->
    exists r' s', read_code_step src_cb t (p, r, s) = Ok (inl (aget (t_child t) p - N.b2n b, r', s')) /\
                  bsr_wf r' /\ src_ok s' /\ pending r' s' = rest.
  Proof.
    intros Hp Lp Hr Hs Hpe.
    pose proof HP as [Tl S _ _]. destruct Tl as (T1 & T2 & T3 & T4 & T5 & T6 & T7 & T8).
    destruct (read_bit_src r s b rest Hr Hs Hpe) as (r' & s' & E & A & B & C).
    exists r', s'. split; [|auto].
    unfold read_code_step, rd_leaf, rd_child. rewrite rd_ok by lia. cbn [bind]. rewrite Lp. cbn [N.eqb negb].
    rewrite E. cbn [bind]. rewrite rd_ok by lia. cbn [bind].
    pose proof (si_node _ _ _ _ S p Hp) as (_ & _ & A3). specialize (A3 Lp).
    rewrite usub_id by (destruct b; cbn; lia). reflexivity.
  Qed.

  (* the bit LZHUF emits for node j is the one that leads the decoder from its parent to j *)
  Lemma bit_of_node j : 1 <= j -> j < 627 ->
    aget (t_child t) (aget (t_parent t) j) - N.b2n (N.odd j) = j.
  Proof.
    intros Hj1 Hj. pose proof HP as [_ S _ _].
    pose proof (si_pab _ _ _ _ S j Hj1 Hj) as Pb.
    pose proof (si_pa _ _ _ _ S j _ Hj1 Hj Pb) as [Y _]. specialize (Y eq_refl). destruct Y as [Y1 Y2].
    pose proof (si_even _ _ _ _ S _ Pb Y1) as Ev.
    destruct Y2 as [Y2|Y2]; rewrite Y2 in *.
    - rewrite <- N.negb_even, Ev. cbn. lia.
    - rewrite <- N.negb_even. replace (j + 1) with (N.succ j) in Ev by lia. rewrite N.even_succ in Ev.
      rewrite <- N.negb_even in Ev. destruct (N.even j); cbn in *; [discriminate|lia].
  Qed.

  Lemma walk_to : forall k j, j <= k -> 1 <= j -> j < 627 ->
    forall fuel acc rest r s, (N.to_nat j < fuel)%nat -> bsr_wf r -> src_ok s ->
    pending r s = ec_walk fuel (h_prnt h) (626 - j) acc ++ rest ->
    exists m r' s', iters (read_code_step src_cb t) m (0, r, s) (j, r', s') /\ N.of_nat m <= j /\
                    bsr_wf r' /\ src_ok s' /\ pending r' s' = acc ++ rest.
  Proof.
    intros k. induction k as [|k IH] using N.peano_ind; intros j Hk Hj1 Hj fuel acc rest r s Hf Hr Hs Hpe; [lia|].
    pose proof HP as [_ S _ _].
    destruct fuel as [|fuel]; [lia|]. rewrite ec_walk_S in Hpe.
    rewrite (mr_prnt _ _ _ M j Hj1 Hj) in Hpe. change lzhuf_R with 626 in Hpe.
    rewrite (odd_626_sub j ltac:(lia)) in Hpe.
    pose proof (si_pab _ _ _ _ S j Hj1 Hj) as Pb.
    pose proof (si_pa _ _ _ _ S j _ Hj1 Hj Pb) as [Y _]. specialize (Y eq_refl). destruct Y as [Y1 Y2].
    pose proof (si_node _ _ _ _ S _ Pb) as (_ & _ & A3). specialize (A3 Y1).
    set (p := aget (t_parent t) j) in *.
    destruct (N.eqb_spec (626 - p) 626) as [E|E].
    - assert (p = 0) by lia.
      cbn [app] in Hpe.
      destruct (walk_step 0 (N.odd j) (acc ++ rest) r s ltac:(lia) ltac:(congruence) Hr Hs Hpe) as (r' & s' & E1 & A & B & C).
      exists 1%nat, r', s'. split.
      + eapply iters_S; [exact E1|]. pose proof (bit_of_node j Hj1 Hj) as X. fold p in X. rewrite H in X. rewrite X. apply iters_0.
      + split; [lia|]. auto.
    - assert (Hp1 : 1 <= p) by lia.
      destruct (IH p ltac:(lia) Hp1 Pb fuel (N.odd j :: acc) rest r s ltac:(lia) Hr Hs Hpe) as (m & r1 & s1 & It & Hm & A & B & C).
      cbn [app] in C.
      destruct (walk_step p (N.odd j) (acc ++ rest) r1 s1 Pb Y1 A B C) as (r' & s' & E1 & A' & B' & C').
      exists (m + 1)%nat, r', s'. split.
      + eapply iters_app; [exact It|]. eapply iters_S; [exact E1|].
        pose proof (bit_of_node j Hj1 Hj) as X. fold p in X. rewrite X. apply iters_0.
      + split; [lia|]. auto.
  Qed.

  Lemma walk_loop j m r s r' s' : j < 627 -> aget (t_leaf t) j = 1 ->
    iters (read_code_step src_cb t) m (0, r, s) (j, r', s') -> N.of_nat m <= j ->
    loop (read_code_step src_cb t) 10 (0, r, s) = Ok (Some j, r', s').
  Proof.
    intros Hj Lj It Hm. pose proof HP as [Tl _ _ _]. destruct Tl as (T1 & _).
    assert (Ex : read_code_step src_cb t (j, r', s') = Ok (inr (Some j, r', s'))).
    { unfold read_code_step, rd_leaf. rewrite rd_ok by lia. cbn [bind]. rewrite Lj. reflexivity. }
    apply (loop_complete _ 10 (m + 0)).
    - eapply loops_after_iters; [exact It|]. apply loops_done. exact Ex.
    - assert (E : (2 ^ 10)%nat = N.to_nat 1024) by reflexivity. rewrite E. lia.
  Qed.

  (* The decoder's read_code on the bits LZHUF's EncodeChar writes for c returns c,
     consumes exactly those bits and performs the same tree update. *)
  Theorem read_code_of_char_code c rest r s : c < 314 -> bsr_wf r -> src_ok s ->
    pending r s = char_code h c ++ rest ->
    exists t' r' s', read_code src_cb t r s = Ok (Some c, t', r', s') /\
      increment_for_code t c = Ok t' /\ bsr_wf r' /\ src_ok s' /\ pending r' s' = rest.
  Proof.
    intros Hc Hr Hs Hpe. pose proof HP as [Tl S _ _]. destruct Tl as (T1 & T2 & T3 & T4 & T5 & T6 & T7 & T8).
    rewrite char_code_eq in Hpe. rewrite (mr_leaf _ _ _ M c Hc) in Hpe.
    pose proof (si_lnb _ _ _ _ S c Hc) as Pb.
    pose proof (si_ln _ _ _ _ S c _ Hc Pb) as [Y _]. specialize (Y eq_refl). destruct Y as [Y1 Y2].
    set (j := aget (t_leaf_nodes t) c) in *.
    assert (Hj1 : 1 <= j).
    { destruct (N.eq_dec j 0) as [E|E]; [|lia]. destruct (si_root _ _ _ _ S) as [R _]. rewrite E in Y1. lia. }
    destruct (walk_to j j ltac:(lia) Hj1 Pb fuelT [] rest r s (fuelT_gt j ltac:(lia)) Hr Hs Hpe)
      as (m & r' & s' & It & Hm & A & B & C).
    cbn [app] in C.
    pose proof (walk_loop j m r s r' s' Pb Y1 It Hm) as El.
    unfold read_code. rewrite El. cbn [bind]. unfold rd_child. rewrite rd_ok by lia. cbn [bind]. rewrite Y2.
    destruct (increment_for_code_ok t c HP Hc) as (t' & Ei & _). rewrite Ei. cbn [bind].
    exists t', r', s'. auto.
  Qed.
End DecodeChar.

(* P_Lh1n -- part N: decoding what EncodePosition emits *)

Lemma put_bits_S m w v out : put_bits (S m) w v out = put_bits m (w - 1) v (N.testbit v (w - 1) :: out).
Proof. reflexivity. Qed.

(* put_bits pushes the top n bits of the w-bit value v, most significant first *)
Lemma put_bits_spec n : forall w v out, N.of_nat n <= w ->
  put_bits n w v out = rev (bits_of n (N.shiftr v (w - N.of_nat n))) ++ out.
Proof.
  induction n as [|m IH]; intros w v out Hw; [reflexivity|].
  rewrite put_bits_S, IH by lia. rewrite bits_of_S. cbn [rev]. rewrite <- app_assoc. cbn [app].
  replace (w - 1 - N.of_nat m) with (w - N.of_nat (S m)) by lia.
  rewrite N.shiftr_spec by lia. replace (N.of_nat m + (w - N.of_nat (S m))) with (w - 1) by lia. reflexivity.
Qed.

Lemma p_tables_sweep :
  sweep 6 (fun u => (3 <=? aget p_len u) && (aget p_len u <=? 8) && (aget p_code u <? 256)) 0 = true.
Proof. vm_compute. reflexivity. Qed.

Lemma p_tables u : u < 64 -> 3 <= aget p_len u <= 8 /\ aget p_code u < 256.
Proof.
  intros H. pose proof (sweep_below 6 _ p_tables_sweep u) as X. cbv beta in X.
  change (2 ^ N.of_nat 6) with 64 in X. specialize (X H). lia.
Qed.

(* the bits of a position in stream order *)
Definition pos_bits (c : N) : list bool :=
  let u := N.shiftr c 6 in
  bits_of (N.to_nat (aget p_len u)) (N.shiftr (aget p_code u) (8 - aget p_len u)) ++ bits_of 6 (N.land c 63).

Lemma EncodePosition_bits out c : c < 4096 -> EncodePosition out c = rev (pos_bits c) ++ out.
Proof.
  intros Hc. unfold EncodePosition, pos_bits. cbv zeta.
  assert (Hu : N.shiftr c 6 < 64).
  { rewrite N.shiftr_div_pow2. change (2 ^ 6) with 64. lia. }
  destruct (p_tables _ Hu) as [P1 P2].
  rewrite (put_bits_spec 6 6) by (cbn; lia). change (6 - N.of_nat 6) with 0. rewrite N.shiftr_0_r.
  rewrite put_bits_spec by lia. rewrite N2Nat.id.
  rewrite rev_app_distr, <- app_assoc. reflexivity.
Qed.

(* peek_bits over the list source *)
Lemma peek_bits_src r s n : bsr_wf r -> src_ok s -> 1 <= n -> n <= 25 -> n <= nlen (pending r s) ->
  exists r' s', peek_bits src_cb r s n = Ok (Some (val (firstn_N n (pending r s))), r', s') /\
                bsr_wf r' /\ src_ok s' /\ pending r' s' = pending r s.
Proof.
  intros Hwf Hs Hn1 Hn Hlen. pose proof (wf_holds r Hwf) as Hh. set (bl := buf_bits r) in *.
  rewrite (pending_holds r s bl Hh) in *.
  unfold peek_bits. destruct (N.eqb_spec n 0); [lia|].
  destruct (peek_fill_src 6 r s n bl Hh Hs Hn) as (ok & r1 & s1 & bl1 & E & Hh1 & Hs1 & Ep & Ht & Hf); [lia|].
  rewrite E. cbn [bind]. rewrite <- Ep in *.
  destruct ok.
  - specialize (Ht eq_refl). clear Hf.
    destruct (consume_holds r1 bl1 n Hh1 Ht) as [_ Ev]. rewrite Ev.
    assert (V : val (firstn_N n bl1) < 2147483648).
    { pose proof (val_lt (firstn_N n bl1)) as V. rewrite nlen_firstn_N in V.
      replace (N.min n (nlen bl1)) with n in V by lia.
      assert (2 ^ n <= 2 ^ 25) by (apply N.pow_le_mono_r; lia).
      change (2 ^ 25) with 33554432 in *. lia. }
    destruct (N.ltb_spec (val (firstn_N n bl1)) 2147483648) as [_|]; [|lia].
    exists r1, s1. rewrite firstn_N_app_l by exact Ht.
    split; [reflexivity|]. split; [exact (holds_wf _ _ Hh1)|]. split; [exact Hs1|].
    apply pending_holds. exact Hh1.
  - specialize (Hf eq_refl). lia.
Qed.

(* The decoder's read_offset on the bits EncodePosition writes for c returns c. *)
Theorem read_offset_of_pos_bits c rest r s : c < 4096 -> bsr_wf r -> src_ok s ->
  pending r s = pos_bits c ++ rest ->
  exists r' s', read_offset src_cb (lh1_lookup lh1_s0) (lh1_lengths lh1_s0) r s = Ok (Some c, r', s') /\
                bsr_wf r' /\ src_ok s' /\ pending r' s' = rest.
Proof.
  intros Hc Hr Hs Hpe. unfold pos_bits in Hpe. cbv zeta in Hpe.
  set (u := N.shiftr c 6) in *. set (lo := N.land c 63) in *.
  assert (Hu : u < 64) by (unfold u; rewrite N.shiftr_div_pow2; change (2 ^ 6) with 64; lia).
  assert (Hlo : lo < 64).
  { unfold lo. change 63 with (N.ones 6). rewrite N.land_ones. change (2 ^ 6) with 64. lia. }
  assert (Ec : c = u * 64 + lo).
  { unfold u, lo. rewrite N.shiftr_div_pow2. change 63 with (N.ones 6). rewrite N.land_ones. change (2 ^ 6) with 64. lia. }
  destruct (p_tables u Hu) as [P1 P2].
  set (plen := aget p_len u) in *. set (code := aget p_code u) in *.
  set (cd := N.shiftr code (8 - plen)) in *.
  assert (Hcd : cd < 2 ^ plen).
  { unfold cd. rewrite N.shiftr_div_pow2.
    assert (X : 256 = 2 ^ (8 - plen) * 2 ^ plen) by (rewrite <- N.pow_add_r; replace (8 - plen + plen) with 8 by lia; reflexivity).
    pose proof (pow2_pos (8 - plen)). apply N.div_lt_upper_bound; [lia|]. lia. }
  set (A := bits_of (N.to_nat plen) cd) in *. set (B := bits_of 6 lo) in *.
  assert (LA : nlen A = plen) by (unfold A; rewrite nlen_bits_of; lia).
  assert (LB : nlen B = 6) by (unfold B; rewrite nlen_bits_of; reflexivity).
  rewrite <- app_assoc in Hpe.
  (* the 8-bit window *)
  destruct (peek_bits_src r s 8 Hr Hs ltac:(lia) ltac:(lia)) as (r1 & s1 & E1 & Hr1 & Hs1 & Hp1).
  { rewrite Hpe, !nlen_app. lia. }
  set (D := firstn_N (8 - plen) (B ++ rest)).
  assert (LD : nlen D = 8 - plen) by (unfold D; rewrite nlen_firstn_N, nlen_app; lia).
  assert (Efu : val (firstn_N 8 (pending r s)) = cd * 2 ^ (8 - plen) + val D).
  { rewrite Hpe. rewrite firstn_N_app_r by lia. rewrite LA. fold D. rewrite val_app, LD.
    unfold A. rewrite val_bits_of_small by (rewrite N2Nat.id; exact Hcd). reflexivity. }
  set (fu := val (firstn_N 8 (pending r s))) in *.
  pose proof (val_lt D) as VD. rewrite LD in VD.
  assert (Hfu : fu < 256).
  { assert (X : 256 = 2 ^ plen * 2 ^ (8 - plen)) by (rewrite <- N.pow_add_r; replace (plen + (8 - plen)) with 8 by lia; reflexivity).
    rewrite Efu, X. pose proof (pow2_pos (8 - plen)). nia. }
  assert (Esh : N.shiftr fu (8 - plen) = cd).
  { rewrite N.shiftr_div_pow2, Efu. pose proof (pow2_pos (8 - plen)).
    rewrite N.div_add_l by lia. rewrite (N.div_small (val D)) by exact VD. lia. }
  destruct (lh1_position_code u fu Hu Hfu Esh) as [T1 T2]. fold plen in T2.
  unfold read_offset. rewrite E1. cbn [bind].
  rewrite rd_ok by (rewrite lh1_s0_lookup_len; exact Hfu). cbn [bind]. rewrite T1.
  rewrite rd_ok by (rewrite lh1_s0_lengths_len; exact Hu). cbn [bind]. rewrite T2.
  rewrite Hpe in Hp1.
  destruct (read_bits_src_prefix r1 s1 (N.to_nat plen) cd (B ++ rest) Hr1 Hs1) as (r2 & s2 & E2 & Hr2 & Hs2 & Hp2);
    [lia|rewrite N2Nat.id; exact Hcd|exact Hp1|].
  rewrite N2Nat.id in E2. rewrite E2. cbn [bind].
  destruct (read_bits_src_prefix r2 s2 6 lo rest Hr2 Hs2) as (r3 & s3 & E3 & Hr3 & Hs3 & Hp3);
    [cbn; lia|exact Hlo|exact Hp2|].
  change (N.of_nat 6) with 6 in E3. rewrite E3. cbn [bind].
  exists r3, s3. split; [|auto].
  rewrite N.shiftl_mul_pow2. rewrite lor_disjoint by exact Hlo. change (2 ^ 6) with 64.
  rewrite u32_id by lia. rewrite <- Ec. reflexivity.
Qed.

(* P_Lh1o -- part O: one command at a time, and the whole stream *)

(* ------------------------------------------------------------------ *)
(* the encoder's output, command by command                             *)

Definition cmd_valid (c : cmd) : Prop :=
  match c with
  | Lit b => b < 256
  | Copy offset len => offset < 4096 /\ 3 <= len /\ len <= 60
  end.

Definition cmd_code (c : cmd) : N :=
  match c with Lit b => b | Copy _ len => 255 - lzhuf_THRESHOLD + len end.

Definition cmd_bits (h : huff) (c : cmd) : list bool :=
  match c with
  | Lit b => char_code h b
  | Copy offset len => char_code h (cmd_code c) ++ pos_bits offset
  end.

(* conversion hints: unfold the small wrappers first, LZHUF's loops last *)
Strategy expand [cmd_bits cmd_code].
Strategy opaque [char_code update].

Fixpoint stream_bits (l : list cmd) (h : huff) : list bool :=
  match l with
  | [] => []
  | c :: r => cmd_bits h c ++ stream_bits r (update h (cmd_code c))
  end.

Lemma encode_cmds_bits l : forall h out, Forall cmd_valid l ->
  encode_cmds l h out = rev (stream_bits l h) ++ out.
Proof.
  induction l as [|c r IH]; intros h out Hv; [reflexivity|].
  inversion Hv as [|? ? Hc Hr]; subst. cbn [encode_cmds stream_bits]. destruct c as [b|offset len].
  - unfold EncodeChar. rewrite IH by exact Hr. cbn [cmd_bits cmd_code].
    rewrite rev_append_rev, rev_app_distr, <- app_assoc. reflexivity.
  - unfold EncodeChar. destruct Hc as (Ho & _). rewrite IH by exact Hr. rewrite EncodePosition_bits by exact Ho.
    cbn [cmd_bits cmd_code]. rewrite rev_append_rev, !rev_app_distr, <- !app_assoc. reflexivity.
Qed.

Lemma lzhuf_encode_bits l : Forall cmd_valid l -> lzhuf_encode l = stream_bits l StartHuff.
Proof.
  intros Hv. unfold lzhuf_encode. rewrite rev_append_rev, app_nil_r, encode_cmds_bits by exact Hv.
  rewrite app_nil_r. apply rev_involutive.
Qed.

(* ------------------------------------------------------------------ *)
(* decoder state against the specification's window                     *)

Record DS (s : lh1_state) (h : huff) (win : arr) (r : N) : Prop := {
  ds_tree : lh1_tree_inv (lh1_t s);
  ds_mirror : lh1_mirror h (lh1_t s);
  ds_ring : lh1_ring s = win;
  ds_pos : lh1_pos s = r;
  ds_len : alen win = 4096;
  ds_r : r < 4096;
  ds_wf : bsr_wf (lh1_bsr s);
  ds_lookup : lh1_lookup s = lh1_lookup lh1_s0;
  ds_lengths : lh1_lengths s = lh1_lengths lh1_s0
}.

Lemma ring_mod_eq x : lh1_ring_mod x = N.land x 4095.
Proof. reflexivity. Qed.

Lemma land4095 x : N.land x 4095 = x mod 4096.
Proof. change 4095 with (N.ones 12). rewrite N.land_ones. reflexivity. Qed.

Lemma expand_copy_S m win r src out : expand_copy (S m) win r src out =
  expand_copy m (aset win r (aget win src)) (N.land (r + 1) (lzhuf_N - 1)) (N.land (src + 1) (lzhuf_N - 1))
              (aget win src :: out).
Proof. reflexivity. Qed.

Lemma copy_loop_sim n : forall s o start i, alen (lh1_ring s) = 4096 -> lh1_pos s < 4096 ->
  ob_len o + N.of_nat n <= 4096 -> start + i + N.of_nat n < 4294967296 ->
  exists s' o', lh1_copy_loop n s o start i = Ok (s', o') /\
    (lh1_ring s', lh1_pos s', ob_rev o') =
      expand_copy n (lh1_ring s) (lh1_pos s) (lh1_ring_mod (u32 (start + i))) (ob_rev o) /\
    lh1_bsr s' = lh1_bsr s /\ lh1_t s' = lh1_t s /\ lh1_lookup s' = lh1_lookup s /\ lh1_lengths s' = lh1_lengths s.
Proof.
  induction n as [|n IH]; intros s o start i Ha Hp Hl Hst.
  - exists s, o. split; [reflexivity|]. repeat split.
  - cbn [lh1_copy_loop]. pose proof (ring_mod_lt (u32 (start + i))) as Hm.
    rewrite rd_ok by lia. cbn [bind].
    set (b := aget (lh1_ring s) (lh1_ring_mod (u32 (start + i)))).
    unfold lh1_output_byte, ob_push. change lh1_max_read with 4096.
    destruct (N.ltb_spec (ob_len o) 4096); [|lia]. cbn [bind].
    rewrite wr_ok by lia. cbn [bind].
    match goal with |- context [lh1_copy_loop n ?ss ?oo start (i + 1)] =>
      destruct (IH ss oo start (i + 1)) as (s' & o' & E & R & A1 & A2 & A3 & A4) end;
      cbn [lh1_ring lh1_pos ob_len ob_rev lh1_bsr lh1_t lh1_lookup lh1_lengths] in *.
    + rewrite alen_aset. exact Ha.
    + apply ring_mod_lt.
    + lia.
    + lia.
    + exists s', o'. split; [exact E|]. split; [|auto].
      rewrite R. rewrite expand_copy_S. fold b. f_equal.
      * rewrite ring_mod_eq. rewrite u32_id by lia. reflexivity.
      * rewrite !ring_mod_eq. rewrite !u32_id by lia. change (lzhuf_N - 1) with 4095.
        rewrite !land4095. replace (start + (i + 1)) with (start + i + 1) by lia.
        rewrite N.add_mod_idemp_l by lia. reflexivity.
Qed.

(* ------------------------------------------------------------------ *)
(* one lh1_read consumes the bits of one command and does what the
   specification says the command means                                 *)

Lemma lh1_read_lit s h win r b rest c acc restc : b < 256 -> DS s h win r -> src_ok c ->
  pending (lh1_bsr s) c = char_code h b ++ rest ->
  exists out s' c' win' r',
    lh1_read src_cb s c = Ok (out, s', c') /\
    DS s' (update h b) win' r' /\ src_ok c' /\ pending (lh1_bsr s') c' = rest /\
    expand_cmds (Lit b :: restc) win r acc = expand_cmds restc win' r' (rev out ++ acc).
Proof.
  intros Hv [Dt Dm Dr Dp Dl Dr4 Dw Dlk Dln] Hs Hpc.
  assert (Hcode : b < 314) by lia.
  destruct (read_code_of_char_code (lh1_t s) h Dt Dm b rest (lh1_bsr s) c Hcode Dw Hs Hpc)
    as (t1 & r1 & c1 & E1 & Ei & Hw1 & Hs1 & Hp1).
  destruct (lh1_update_step (lh1_t s) b h Dt Dm Hcode) as (t1' & Ei' & Pt1 & Mt1).
  rewrite Ei in Ei'. injection Ei' as <-.
  unfold lh1_read. rewrite E1. cbn [bind].
  destruct (N.ltb_spec b 256); [|lia].
  unfold lh1_output_byte, ob_push. cbn [ob_empty ob_len ob_rev]. change lh1_max_read with 4096.
  cbn [lh1_set lh1_ring lh1_pos]. rewrite Dr, Dp.
  rewrite wr_ok by lia. cbn [bind].
  rewrite u8_id by lia.
  eexists _, _, c1, (aset win r b), (N.land (r + 1) 4095). split; [reflexivity|].
  split; [|split; [exact Hs1|split; [cbn [lh1_bsr]; exact Hp1|]]].
  - constructor; cbn [lh1_t lh1_ring lh1_pos lh1_bsr lh1_lookup lh1_lengths lh1_set].
    + exact Pt1.
    + exact Mt1.
    + reflexivity.
    + rewrite ring_mod_eq. rewrite u32_id by lia. reflexivity.
    + rewrite alen_aset. exact Dl.
    + rewrite land4095. lia.
    + exact Hw1.
    + exact Dlk.
    + exact Dln.
  - cbn [expand_cmds ob_bytes ob_rev rev_append rev app]. reflexivity.
Qed.

Lemma expand_copy_acc n : forall w rr sr a, expand_copy n w rr sr a =
  (fst (fst (expand_copy n w rr sr [])), snd (fst (expand_copy n w rr sr [])),
   snd (expand_copy n w rr sr []) ++ a).
Proof.
  induction n as [|n IHn]; intros w rr sr a; [reflexivity|].
  rewrite !expand_copy_S. rewrite IHn. rewrite (IHn _ _ _ [_]). cbn [fst snd]. rewrite <- app_assoc. reflexivity.
Qed.

Lemma lh1_read_copy s h win r offset len rest c acc restc : offset < 4096 -> 3 <= len -> len <= 60 ->
  DS s h win r -> src_ok c ->
  pending (lh1_bsr s) c = char_code h (253 + len) ++ pos_bits offset ++ rest ->
  exists out s' c' win' r',
    lh1_read src_cb s c = Ok (out, s', c') /\
    DS s' (update h (253 + len)) win' r' /\ src_ok c' /\ pending (lh1_bsr s') c' = rest /\
    expand_cmds (Copy offset len :: restc) win r acc = expand_cmds restc win' r' (rev out ++ acc).
Proof.
  intros Ho Hl3 Hl60 [Dt Dm Dr Dp Dl Dr4 Dw Dlk Dln] Hs Hpc.
  assert (Hcode : 253 + len < 314) by lia.
  destruct (read_code_of_char_code (lh1_t s) h Dt Dm (253 + len) _ (lh1_bsr s) c Hcode Dw Hs Hpc)
    as (t1 & r1 & c1 & E1 & Ei & Hw1 & Hs1 & Hp1).
  destruct (lh1_update_step (lh1_t s) (253 + len) h Dt Dm Hcode) as (t1' & Ei' & Pt1 & Mt1).
  rewrite Ei in Ei'. injection Ei' as <-.
  unfold lh1_read. rewrite E1. cbn [bind].
  destruct (N.ltb_spec (253 + len) 256); [lia|].
  cbn [lh1_set lh1_lookup lh1_lengths]. rewrite Dlk, Dln.
  destruct (read_offset_of_pos_bits offset rest r1 c1 Ho Hw1 Hs1 Hp1) as (r2 & c2 & E2 & Hw2 & Hs2 & Hp2).
  rewrite E2. cbn [bind].
  set (count := u32 (253 + len + 4294967296 - 256 + lh1_COPY_THRESHOLD)).
  assert (Ecount : count = len).
  { unfold count, lh1_COPY_THRESHOLD. rewrite u32_mod. change (2 ^ 32) with 4294967296. lia. }
  rewrite Ecount.
  match goal with |- context [lh1_copy_loop _ ?ss ob_empty _ 0] => set (s2 := ss) end.
  match goal with |- context [lh1_copy_loop _ s2 ob_empty ?st 0] => set (start := st) end.
  assert (Estart : start = r + 4095 - offset).
  { unfold start, s2. cbn [lh1_set lh1_pos]. rewrite Dp. change lh1_RING_BUFFER_SIZE with 4096.
    rewrite u32_mod. change (2 ^ 32) with 4294967296. lia. }
  destruct (copy_loop_sim (N.to_nat len) s2 ob_empty start 0) as (s3 & o & E3 & R3 & A1 & A2 & A3 & A4).
  { unfold s2. cbn [lh1_set lh1_ring]. rewrite Dr. exact Dl. }
  { unfold s2. cbn [lh1_set lh1_pos]. rewrite Dp. exact Dr4. }
  { cbn [ob_empty ob_len]. lia. }
  { rewrite Estart. lia. }
  rewrite E3. cbn [bind].
  assert (Hgeom : alen (lh1_ring s3) = 4096 /\ lh1_pos s3 < 4096).
  { destruct (copy_loop_ok (N.to_nat len) s2 ob_empty start 0) as (s3' & o' & E3' & B1 & B2 & _).
    - unfold s2. cbn [lh1_set lh1_ring]. rewrite Dr. exact Dl.
    - unfold s2. cbn [lh1_set lh1_pos]. rewrite Dp. exact Dr4.
    - reflexivity.
    - cbn [ob_empty ob_len]. lia.
    - rewrite E3 in E3'. injection E3' as <- <-. split; assumption. }
  destruct Hgeom as [G1 G2].
  unfold s2 in R3, A1, A2, A3, A4. cbn [lh1_set lh1_ring lh1_pos lh1_bsr lh1_t lh1_lookup lh1_lengths ob_empty ob_rev] in R3, A1, A2, A3, A4.
  rewrite Dr, Dp in R3.
  (* the specification's copy *)
  cbn [expand_cmds].
  assert (Esrc : N.land (r + lzhuf_N + lzhuf_N - 1 - N.land offset (lzhuf_N - 1)) (lzhuf_N - 1) =
                 lh1_ring_mod (u32 (start + 0))).
  { change lzhuf_N with 4096. change (4096 - 1) with 4095. rewrite ring_mod_eq, !land4095.
    rewrite (N.mod_small offset) by lia. rewrite u32_id by lia. rewrite Estart.
    replace (r + 4096 + 4096 - 1 - offset) with (r + 4095 - offset + 0 + 1 * 4096) by lia.
    rewrite N.mod_add by lia. reflexivity. }
  rewrite Esrc. rewrite expand_copy_acc. rewrite <- R3. cbn [fst snd].
  eexists (ob_bytes o), s3, c2, (lh1_ring s3), (lh1_pos s3). split; [reflexivity|].
  split; [|split; [exact Hs2|split; [rewrite A1; exact Hp2|]]].
  - constructor.
    + rewrite A2. exact Pt1.
    + rewrite A2. exact Mt1.
    + reflexivity.
    + reflexivity.
    + exact G1.
    + exact G2.
    + rewrite A1. exact Hw2.
    + rewrite A3. exact Dlk.
    + rewrite A4. exact Dln.
  - unfold ob_bytes. rewrite rev_append_rev, app_nil_r, rev_involutive. reflexivity.
Qed.

Lemma cmd_code_copy offset len : cmd_code (Copy offset len) = 253 + len.
Proof. unfold cmd_code, lzhuf_THRESHOLD. lia. Qed.

Theorem lh1_read_cmd s h win r cm rest c acc restc : cmd_valid cm -> DS s h win r -> src_ok c ->
  pending (lh1_bsr s) c = cmd_bits h cm ++ rest ->
  exists out s' c' win' r',
    lh1_read src_cb s c = Ok (out, s', c') /\
    DS s' (update h (cmd_code cm)) win' r' /\ src_ok c' /\ pending (lh1_bsr s') c' = rest /\
    expand_cmds (cm :: restc) win r acc = expand_cmds restc win' r' (rev out ++ acc).
Proof.
  intros Hv Hd Hs Hpe. destruct cm as [b|offset len].
  - apply lh1_read_lit; assumption.
  - destruct Hv as (Ho & Hl3 & Hl60). unfold cmd_bits in Hpe. rewrite cmd_code_copy in *.
    rewrite <- app_assoc in Hpe. apply lh1_read_copy; assumption.
Qed.

(* P_Lh1p -- part P: the round trip *)

(* n calls of lh1_read; the output is accumulated newest first *)
Fixpoint lh1_reads_rev (n : nat) (s : lh1_state) (c : src) (acc : list N) : outcome (list N * lh1_state * src) :=
  match n with
  | O => Ok (acc, s, c)
  | S m => '(ch, s', c') <- lh1_read src_cb s c ;; lh1_reads_rev m s' c' (rev ch ++ acc)
  end.

Definition lh1_reads (n : nat) (s : lh1_state) (c : src) : outcome (list N * lh1_state * src) :=
  '(o, s', c') <- lh1_reads_rev n s c [] ;; Ok (rev o, s', c').

Lemma lh1_reads_stream cmds : forall s h win r c acc tail, Forall cmd_valid cmds -> DS s h win r -> src_ok c ->
  pending (lh1_bsr s) c = stream_bits cmds h ++ tail ->
  exists s' c' win' r', lh1_reads_rev (length cmds) s c acc = Ok (expand_cmds cmds win r acc, s', c') /\
    DS s' (fold_left update (map cmd_code cmds) h) win' r' /\ src_ok c' /\ pending (lh1_bsr s') c' = tail.
Proof.
  induction cmds as [|cm rest IH]; intros s h win r c acc tail Hv Hd Hs Hpe.
  - exists s, c, win, r. split; [reflexivity|]. split; [exact Hd|]. split; [exact Hs|exact Hpe].
  - inversion Hv as [|? ? Hc Hr]; subst. cbn [stream_bits] in Hpe. rewrite <- app_assoc in Hpe.
    destruct (lh1_read_cmd s h win r cm _ c acc rest Hc Hd Hs Hpe) as (out & s1 & c1 & win1 & r1 & E1 & D1 & S1 & P1 & X1).
    cbn [length lh1_reads_rev]. rewrite E1. cbn [bind].
    destruct (IH s1 _ win1 r1 c1 (rev out ++ acc) tail Hr D1 S1 P1) as (s' & c' & win' & r' & E2 & D2 & S2 & P2).
    exists s', c', win', r'. split; [rewrite E2, X1; reflexivity|]. split; [exact D2|]. split; [exact S2|exact P2].
Qed.

Lemma DS_init : DS lh1_s0 StartHuff (mk_arr lzhuf_N 32) 0.
Proof.
  constructor; try reflexivity.
  - exact lh1_s0_tree_inv.
  - exact lh1_mirror_init.
  - apply bsr_init_wf.
Qed.

(* C02, on bits: decoding LZHUF's encoding of a command list gives what the list denotes *)
Theorem lh1_roundtrip_bits cmds c tail : Forall cmd_valid cmds -> src_ok c ->
  pending bsr_init c = lzhuf_encode cmds ++ tail ->
  exists s' c', lh1_reads (length cmds) lh1_s0 c = Ok (lz77_expand_4k cmds, s', c') /\
    lh1_inv s' /\ lh1_mirror (fold_left update (map cmd_code cmds) StartHuff) (lh1_t s').
Proof.
  intros Hv Hs Hpe. rewrite lzhuf_encode_bits in Hpe by exact Hv.
  destruct (lh1_reads_stream cmds lh1_s0 StartHuff (mk_arr lzhuf_N 32) 0 c [] tail Hv DS_init Hs Hpe)
    as (s' & c' & win' & r' & E & D & S' & P').
  exists s', c'. split.
  - unfold lh1_reads. rewrite E. cbn [bind]. unfold lz77_expand_4k. rewrite rev_append_rev, app_nil_r. reflexivity.
  - destruct D as [Dt Dm Dr Dp Dl Dr4 Dw Dlk Dln]. split; [|exact Dm].
    split; [exact Dw|]. split; [rewrite Dr; exact Dl|]. split; [rewrite Dp; exact Dr4|].
    split; [exact Dt|]. split; assumption.
Qed.

(* ------------------------------------------------------------------ *)
(* ... and on bytes: bits_to_bytes packs what the bit reader unpacks    *)

Lemma b2b_cons b r cur cnt acc : b2b (b :: r) cur cnt acc =
  let cur' := 2 * cur + (if b then 1 else 0) in
  if cnt =? 7 then b2b r 0 0 (cur' :: acc) else b2b r cur' (cnt + 1) acc.
Proof. reflexivity. Qed.

Lemma b2b_spec l : forall bl acc, nlen bl < 8 -> Forall (fun x => x < 256) acc ->
  Forall (fun x => x < 256) (b2b l (val bl) (nlen bl) acc) /\
  exists k, (k < 8)%nat /\
    bytes_bits (b2b l (val bl) (nlen bl) acc) = bytes_bits (rev acc) ++ bl ++ l ++ repeat false k.
Proof.
  induction l as [|b r IH]; intros bl acc Hbl Hacc.
  - cbn [b2b]. rewrite rev_append_rev, app_nil_r. destruct (N.eqb_spec (nlen bl) 0) as [E|E].
    + apply nlen_zero_nil in E. subst bl. split; [apply Forall_rev; exact Hacc|].
      exists O. split; [lia|]. cbn [app repeat]. rewrite app_nil_r. reflexivity.
    + set (pad := repeat false (N.to_nat (8 - nlen bl))).
      assert (Lp : nlen pad = 8 - nlen bl) by (unfold pad, nlen; rewrite repeat_length; lia).
      assert (Ev : N.shiftl (val bl) (8 - nlen bl) = val (bl ++ pad)).
      { rewrite N.shiftl_mul_pow2, val_app, Lp. unfold pad. rewrite val_repeat_false. lia. }
      assert (Lb : length (bl ++ pad) = 8%nat).
      { rewrite app_length. unfold pad. rewrite repeat_length. unfold nlen in *. lia. }
      rewrite Ev. split.
      * apply Forall_rev. constructor; [|exact Hacc].
        pose proof (val_lt (bl ++ pad)) as V. unfold nlen in V. rewrite Lb in V. change (2 ^ N.of_nat 8) with 256 in V. exact V.
      * exists (N.to_nat (8 - nlen bl)). split; [lia|]. cbn [rev]. rewrite bytes_bits_app, bytes_bits_cons.
        rewrite bits_of_val_n by (symmetry; exact Lb). cbn [bytes_bits flat_map]. rewrite app_nil_r.
        reflexivity.
  - rewrite b2b_cons. cbv zeta.
    assert (Ev : 2 * val bl + (if b then 1 else 0) = val (bl ++ [b])).
    { rewrite val_app. cbn [val nlen]. unfold nlen. cbn [length]. change (2 ^ N.of_nat 1) with 2.
      change (2 ^ N.of_nat 0) with 1. destruct b; cbn [N.b2n]; lia. }
    assert (Ln : nlen (bl ++ [b]) = nlen bl + 1) by (rewrite nlen_app; reflexivity).
    rewrite Ev. destruct (N.eqb_spec (nlen bl) 7) as [E|E].
    + assert (Lb : length (bl ++ [b]) = 8%nat) by (unfold nlen in *; rewrite app_length; cbn [length]; lia).
      assert (V : val (bl ++ [b]) < 256).
      { pose proof (val_lt (bl ++ [b])) as V. unfold nlen in V. rewrite Lb in V. change (2 ^ N.of_nat 8) with 256 in V. exact V. }
      destruct (IH [] (val (bl ++ [b]) :: acc)) as [F (k & Hk & Ek)]; [cbn; lia|constructor; assumption|].
      cbn [val] in F, Ek. change (nlen (@nil bool)) with 0 in F, Ek.
      split; [exact F|]. exists k. split; [exact Hk|]. rewrite Ek. cbn [rev]. rewrite bytes_bits_app, bytes_bits_cons.
      rewrite bits_of_val_n by (symmetry; exact Lb). cbn [bytes_bits flat_map]. rewrite app_nil_r.
      cbn [app]. rewrite <- !app_assoc. reflexivity.
    + destruct (IH (bl ++ [b]) acc) as [F (k & Hk & Ek)]; [lia|exact Hacc|].
      rewrite Ln in F, Ek. split; [exact F|]. exists k. split; [exact Hk|]. rewrite Ek.
      rewrite <- !app_assoc. reflexivity.
Qed.

Lemma bits_to_bytes_spec l : Forall (fun x => x < 256) (bits_to_bytes l) /\
  exists k, (k < 8)%nat /\ bytes_bits (bits_to_bytes l) = l ++ repeat false k.
Proof.
  destruct (b2b_spec l [] []) as [F (k & Hk & Ek)]; [cbn; lia|constructor|].
  split; [exact F|]. exists k. split; [exact Hk|exact Ek].
Qed.

(* C02: decode (LZHUF-encode commands) = LZ77-expand commands, for the encoder's byte
   stream followed by any further bytes *)
Theorem lh1_roundtrip cmds more : Forall cmd_valid cmds -> Forall (fun x => x < 256) more ->
  exists s' c',
    lh1_reads (length cmds) lh1_s0 {| src_data := bits_to_bytes (lzhuf_encode cmds) ++ more; src_chunks := [] |} =
      Ok (lz77_expand_4k cmds, s', c') /\ lh1_inv s'.
Proof.
  intros Hv Hm. destruct (bits_to_bytes_spec (lzhuf_encode cmds)) as [F (k & Hk & Ek)].
  set (c := {| src_data := bits_to_bytes (lzhuf_encode cmds) ++ more; src_chunks := [] |}).
  assert (Hs : src_ok c) by (split; [reflexivity|]; cbn [src_data]; apply Forall_app; split; assumption).
  assert (Hpe : pending bsr_init c = lzhuf_encode cmds ++ (repeat false k ++ bytes_bits more)).
  { rewrite (pending_holds _ _ [] holds_init). cbn [src_data app c]. rewrite bytes_bits_app, Ek, <- app_assoc. reflexivity. }
  destruct (lh1_roundtrip_bits cmds c _ Hv Hs Hpe) as (s' & c' & E & I & _).
  exists s', c'. split; assumption.
Qed.

(* ------------------------------------------------------------------ *)
(* Summary.
   C09 (-lh1-):  lh1_init_ok, lh1_read_total  -- for any callback that returns at most what
     it is asked for (cb_bounded), from any state satisfying lh1_inv, one lh1_read returns Ok
     (no Fault at any of the sites 801-877, no OutOfFuel), at most lh1_max_read bytes, and
     lh1_inv holds again.  lh1_init_ok_len, lh1_read_total_len: the same for callbacks that
     are only cb_len_bounded (lh1_inv_len: bsr_ok in place of bsr_wf).  lh1_inv contains the code tree invariant lh1_tree_inv (= PI t 0:
     structure SI, frequencies FI, groups GI); increment_for_code_ok is its preservation,
     including the reconstruct_tree branch (reconstruct_ok).
   C02:  lh1_mirror_init, lh1_update_step, lh1_refines_lzhuf -- the decoder's tree is the
     mirror image (node j <-> position 626 - j) of LZHUF's freq/prnt/son arrays after any
     sequence of codes, through every exchange and every rebuild (reconst_mirror);
     read_code_of_char_code, read_offset_of_pos_bits -- the bits EncodeChar / EncodePosition
     emit are decoded to the same code / position; lh1_read_cmd -- one lh1_read per command;
     lh1_roundtrip_bits, lh1_roundtrip -- decode (LZHUF-encode cmds) = LZ77-expand cmds for
     command lists of any length (full-read callback over the encoder's bytes followed by
     arbitrary further bytes). *)

Print Assumptions lh1_init_ok.
Print Assumptions lh1_read_total.
Print Assumptions lh1_init_ok_len.
Print Assumptions lh1_read_total_len.
Print Assumptions lh1_s0_tree_inv.
Print Assumptions increment_for_code_ok.
Print Assumptions reconstruct_ok.
Print Assumptions lh1_offset_tables.
Print Assumptions lh1_position_code.
Print Assumptions lh1_mirror_init.
Print Assumptions reconst_mirror.
Print Assumptions lh1_update_step.
Print Assumptions lh1_refines_lzhuf.
Print Assumptions read_code_of_char_code.
Print Assumptions read_offset_of_pos_bits.
Print Assumptions lh1_read_cmd.
Print Assumptions lh1_roundtrip_bits.
Print Assumptions lh1_roundtrip.


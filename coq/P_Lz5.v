(* P_Lz5.v -- proofs about the model of lib/lz5_decoder.c (Lz5.v):
   the decoder never faults on any input, its initial ring is the LArc fill
   pattern, and decoding the serialisation of a command list returns what the
   specification (S_Larc.v) says the commands denote. *)
From Lhasa Require Import Base ListN DecBase Loop Sweep Generated Lz5 S_Larc Crc16 P_Crc16 Decoder P_Decoder P_DecoderInv.
From Coq Require Import ZifyBool ZifyN ZifyNat.
Local Open Scope N_scope.

(* ------------------------------------------------------------------ *)
(* B.1  Invariant and initial state                                     *)

Definition lz5_inv (s : lz5_state) : Prop :=
  alen (lz5_ring s) = lz5_ringbuf_extent /\ lz5_pos s < lz5_RING_BUFFER_SIZE.

Lemma alen_aset_list l : forall a i, alen (aset_list a i l) = alen a.
Proof.
  induction l as [|x l IH]; intros a i; cbn [aset_list]; [reflexivity|].
  rewrite IH. apply alen_aset.
Qed.

Lemma lz5_fill_len : nlen lz5_fill_bytes = 4096.
Proof. vm_compute. reflexivity. Qed.

Definition lz5_s0 : lz5_state :=
  {| lz5_ring := aset_list (mk_arr lz5_ringbuf_extent 0) 0 lz5_fill_bytes;
     lz5_pos := lz5_RING_BUFFER_SIZE - lz5_START_OFFSET |}.

Lemma lz5_init_eq : lz5_init = Ok lz5_s0.
Proof. unfold lz5_init. rewrite lz5_fill_len. reflexivity. Qed.

Lemma lz5_s0_inv : lz5_inv lz5_s0.
Proof.
  split.
  - unfold lz5_s0. cbn [lz5_ring]. rewrite alen_aset_list. reflexivity.
  - unfold lz5_s0. cbn [lz5_pos]. unfold lz5_RING_BUFFER_SIZE, lz5_START_OFFSET. lia.
Qed.

Theorem lz5_init_ok : exists s, lz5_init = Ok s /\ lz5_inv s.
Proof. exists lz5_s0. split; [apply lz5_init_eq|apply lz5_s0_inv]. Qed.

(* ------------------------------------------------------------------ *)
(* B.3  The initial ring is the closed-form fill pattern                *)

Lemma lz5_initial_ring_sweep :
  sweep 12 (fun p => aget (lz5_ring lz5_s0) p =? lz5_fill_at p) 0 = true.
Proof. vm_compute. reflexivity. Qed.

Theorem lz5_initial_ring : forall s0, lz5_init = Ok s0 ->
  forall p, p < 4096 -> aget (lz5_ring s0) p = lz5_fill_at p.
Proof.
  intros s0 E p Hp. rewrite lz5_init_eq in E. injection E as <-.
  apply N.eqb_eq.
  apply (sweep_below 12 (fun p => aget (lz5_ring lz5_s0) p =? lz5_fill_at p) lz5_initial_ring_sweep).
  exact Hp.
Qed.

(* the specification's ring, too *)
Lemma lz5_ring0_sweep :
  sweep 12 (fun p => aget (r_mem lz5_ring0) p =? lz5_fill_at p) 0 = true.
Proof. vm_compute. reflexivity. Qed.

Lemma lz5_ring0_fill : forall p, p < 4096 -> aget (r_mem lz5_ring0) p = lz5_fill_at p.
Proof.
  intros p Hp. apply N.eqb_eq.
  apply (sweep_below 12 (fun p => aget (r_mem lz5_ring0) p =? lz5_fill_at p) lz5_ring0_sweep).
  exact Hp.
Qed.

(* ------------------------------------------------------------------ *)
(* The decoder's ring as a ring of the specification; accumulator       *)
(* lemmas about the specification's ring machine.                       *)

Definition ring_of (s : lz5_state) : ring := {| r_mem := lz5_ring s; r_wpos := lz5_pos s |}.

Definition st_put (s : lz5_state) (b : N) : lz5_state :=
  {| lz5_ring := aset (lz5_ring s) (lz5_pos s) b;
     lz5_pos := (lz5_pos s + 1) mod lz5_RING_BUFFER_SIZE |}.
Definition ob_put (o : obuf) (b : N) : obuf :=
  {| ob_rev := b :: ob_rev o; ob_len := ob_len o + 1 |}.
Definition ob_wf (o : obuf) : Prop := ob_len o = nlen (ob_rev o).

Lemma ring_of_put s b : ring_of (st_put s b) = ring_put 4096 (ring_of s) b.
Proof. reflexivity. Qed.

Lemma st_put_inv s b : lz5_inv s -> lz5_inv (st_put s b).
Proof.
  intros [Ha Hp]. split; cbn [st_put lz5_ring lz5_pos].
  - rewrite alen_aset. exact Ha.
  - apply N.mod_lt. unfold lz5_RING_BUFFER_SIZE. lia.
Qed.

Lemma ob_put_wf o b : ob_wf o -> ob_wf (ob_put o b).
Proof. unfold ob_wf. cbn [ob_put ob_len ob_rev]. rewrite nlen_cons. lia. Qed.

Lemma ob_empty_wf : ob_wf ob_empty.
Proof. reflexivity. Qed.

Lemma ring_copy_S size k r pos acc :
  ring_copy size (S k) r pos acc =
  ring_copy size k (ring_put size r (aget (r_mem r) (pos mod size))) (pos + 1)
            (aget (r_mem r) (pos mod size) :: acc).
Proof. reflexivity. Qed.

Lemma ring_copy_acc size n : forall r pos acc,
  ring_copy size n r pos acc =
  (fst (ring_copy size n r pos []), snd (ring_copy size n r pos []) ++ acc).
Proof.
  induction n as [|k IH]; intros r pos acc.
  - reflexivity.
  - rewrite !ring_copy_S. rewrite IH.
    rewrite (IH _ _ [_]). cbn [fst snd]. rewrite <- app_assoc. reflexivity.
Qed.

Lemma ring_copy_length size n : forall r pos acc,
  length (snd (ring_copy size n r pos acc)) = (n + length acc)%nat.
Proof.
  induction n as [|k IH]; intros r pos acc; [reflexivity|].
  rewrite ring_copy_S, IH. simpl. lia.
Qed.

Notation rfold size := (fold_left (ring_cmd size)).

Lemma ring_cmd_acc size r acc c :
  ring_cmd size (r, acc) c =
  (fst (ring_cmd size (r, []) c), snd (ring_cmd size (r, []) c) ++ acc).
Proof.
  destruct c as [b|pos len]; cbn [ring_cmd].
  - reflexivity.
  - apply ring_copy_acc.
Qed.

Lemma rfold_acc size cmds : forall r acc,
  rfold size cmds (r, acc) =
  (fst (rfold size cmds (r, [])), snd (rfold size cmds (r, [])) ++ acc).
Proof.
  induction cmds as [|c cs IH]; intros r acc; cbn [fold_left].
  - reflexivity.
  - rewrite ring_cmd_acc.
    destruct (ring_cmd size (r, []) c) as [r1 o1]. cbn [fst snd].
    rewrite IH. rewrite (IH r1 o1). cbn [fst snd]. rewrite <- app_assoc. reflexivity.
Qed.

Lemma ring_expand_app size r a b :
  ring_expand size r (a ++ b) =
  ring_expand size r a ++ ring_expand size (fst (rfold size a (r, []))) b.
Proof.
  unfold ring_expand. rewrite fold_left_app.
  destruct (rfold size a (r, [])) as [r1 o1]. cbn [fst snd].
  rewrite rfold_acc. cbn [snd]. apply rev_app_distr.
Qed.

Lemma ring_expand_nil size r : ring_expand size r [] = [].
Proof. reflexivity. Qed.

(* every well-formed command produces at least one byte *)
Lemma rfold_length cmds : forall r acc, forallb lz5_wf_cmd cmds = true ->
  (length cmds + length acc <= length (snd (rfold 4096 cmds (r, acc))))%nat.
Proof.
  induction cmds as [|c cs IH]; intros r acc Hwf; cbn [fold_left length]; [cbn; lia|].
  cbn [forallb] in Hwf. apply andb_true_iff in Hwf. destruct Hwf as [Hc Hcs].
  destruct (ring_cmd 4096 (r, acc) c) as [r1 o1] eqn:E.
  specialize (IH r1 o1 Hcs).
  assert (S (length acc) <= length o1)%nat; [|lia].
  destruct c as [b|pos len]; cbn [ring_cmd] in E.
  - injection E as _ <-. simpl. lia.
  - pose proof (ring_copy_length 4096 (N.to_nat len) r pos acc) as L. rewrite E in L. cbn [snd] in L.
    cbn [lz5_wf_cmd] in Hc. lia.
Qed.

Lemma ring_expand_length cmds r : forallb lz5_wf_cmd cmds = true ->
  N.of_nat (length cmds) <= nlen (ring_expand 4096 r cmds).
Proof.
  intros Hwf. unfold ring_expand. rewrite nlen_rev. unfold nlen.
  pose proof (rfold_length cmds r [] Hwf). simpl in H. lia.
Qed.

(* ------------------------------------------------------------------ *)
(* B.2  The decoder never faults: any callback, any bytes               *)

Lemma land_15_le x : N.land x 15 <= 15.
Proof.
  change 15 with (N.ones 4) at 1. rewrite N.land_ones.
  pose proof (N.mod_lt x (2 ^ 4)). change (2 ^ 4) with 16 in *. lia.
Qed.

Lemma output_byte_eq s o b : lz5_inv s -> ob_len o < lz5_max_read ->
  lz5_output_byte s o b = Ok (st_put s b, ob_put o b).
Proof.
  intros [Ha Hp] Ho. unfold lz5_output_byte, ob_push.
  destruct (N.ltb_spec (ob_len o) lz5_max_read); [|lia]. cbn [bind].
  rewrite wr_ok; [reflexivity|].
  rewrite Ha. unfold lz5_ringbuf_extent, lz5_RING_BUFFER_SIZE in *. lia.
Qed.

Lemma output_block_S k s o start i :
  lz5_output_block (S k) s o start i =
  (b <- rd 404 (lz5_ring s) ((start + i) mod lz5_RING_BUFFER_SIZE) ;;
   '(s', o') <- lz5_output_byte s o b ;;
   lz5_output_block k s' o' start (i + 1)).
Proof. reflexivity. Qed.

Lemma output_block_spec n : forall s o start i,
  lz5_inv s -> ob_wf o -> ob_len o + N.of_nat n <= lz5_max_read ->
  exists s' o', lz5_output_block n s o start i = Ok (s', o') /\
    lz5_inv s' /\ ob_wf o' /\ ob_len o' = ob_len o + N.of_nat n /\
    ring_copy 4096 n (ring_of s) (start + i) (ob_rev o) = (ring_of s', ob_rev o').
Proof.
  induction n as [|k IH]; intros s o start i Hi Hw Hl.
  - exists s, o. cbn [lz5_output_block ring_copy]. repeat split; try assumption; try apply Hi. lia.
  - rewrite output_block_S.
    assert (Hidx : (start + i) mod lz5_RING_BUFFER_SIZE < alen (lz5_ring s)).
    { destruct Hi as [Ha _]. rewrite Ha. unfold lz5_ringbuf_extent, lz5_RING_BUFFER_SIZE. apply N.mod_lt. lia. }
    rewrite rd_ok by exact Hidx. cbn [bind].
    rewrite output_byte_eq by (try assumption; lia). cbn [bind].
    set (b := aget (lz5_ring s) ((start + i) mod lz5_RING_BUFFER_SIZE)).
    destruct (IH (st_put s b) (ob_put o b) start (i + 1)) as (s' & o' & E & Hi' & Hw' & Hl' & Hc).
    { apply st_put_inv. exact Hi. }
    { apply ob_put_wf. exact Hw. }
    { cbn [ob_put ob_len]. lia. }
    exists s', o'. split; [exact E|]. split; [exact Hi'|]. split; [exact Hw'|].
    split; [cbn [ob_put ob_len] in Hl'; lia|].
    rewrite ring_copy_S. rewrite ring_of_put in Hc. cbn [ob_put ob_rev] in Hc.
    replace (start + (i + 1)) with (start + i + 1) in Hc by lia. exact Hc.
Qed.

Section Lz5Total.
  Context {cbs : Type}.
  Variable cb : callback cbs.
  Variable junk : N.

  Lemma lz5_run_S k bit bitmap s o c :
    lz5_run cb junk (S k) bit bitmap s o c =
      if N.testbit bitmap bit then
        let '(bs, c') := cb c 1 in
        match bs with
        | [] => Ok (s, o, c')
        | b :: _ =>
          '(s', o') <- lz5_output_byte s o b ;;
          lz5_run cb junk k (bit + 1) bitmap s' o' c'
        end
      else
        let '(bs, c') := cb c 2 in
        match bs with
        | [] => Ok (s, o, c')
        | [_] => Ok (s, o, c')
        | c0 :: c1 :: _ =>
          let seqstart := N.lor (N.shiftl (N.land c1 240) 4) c0 in
          let seqlen := N.land c1 15 + lz5_THRESHOLD in
          '(s', o') <- lz5_output_block (N.to_nat seqlen) s o seqstart 0 ;;
          lz5_run cb junk k (bit + 1) bitmap s' o' c'
        end.
  Proof. reflexivity. Qed.

  (* at most 18 bytes per command, n commands to go *)
  Lemma lz5_run_total n : forall bit bitmap s o c,
    lz5_inv s -> ob_wf o -> ob_len o + 18 * N.of_nat n <= lz5_max_read ->
    exists s' o' c' ext, lz5_run cb junk n bit bitmap s o c = Ok (s', o', c') /\
      lz5_inv s' /\ ob_wf o' /\ ob_len o' <= lz5_max_read /\ ob_rev o' = ext ++ ob_rev o.
  Proof.
    induction n as [|k IH]; intros bit bitmap s o c Hi Hw Hl.
    - exists s, o, c, []. cbn [lz5_run]. repeat split; try assumption; try apply Hi. lia.
    - rewrite lz5_run_S. destruct (N.testbit bitmap bit).
      + destruct (cb c 1) as [bs c']. destruct bs as [|b bs'].
        { exists s, o, c', []. repeat split; try assumption; try apply Hi. lia. }
        rewrite output_byte_eq by (try assumption; lia). cbn [bind].
        destruct (IH (bit + 1) bitmap (st_put s b) (ob_put o b) c') as (s' & o' & c'' & ext & E & Hi' & Hw' & Hl' & He).
        { apply st_put_inv. exact Hi. }
        { apply ob_put_wf. exact Hw. }
        { cbn [ob_put ob_len]. lia. }
        exists s', o', c'', (ext ++ [b]). split; [exact E|]. split; [exact Hi'|]. split; [exact Hw'|].
        split; [exact Hl'|]. rewrite He. cbn [ob_put ob_rev]. rewrite <- app_assoc. reflexivity.
      + destruct (cb c 2) as [bs c']. destruct bs as [|c0 rest].
        { exists s, o, c', []. repeat split; try assumption; try apply Hi. lia. }
        destruct rest as [|c1 rest'].
        { exists s, o, c', []. repeat split; try assumption; try apply Hi. lia. }
        cbv zeta.
        pose proof (land_15_le c1) as H15.
        destruct (output_block_spec (N.to_nat (N.land c1 15 + lz5_THRESHOLD)) s o
                    (N.lor (N.shiftl (N.land c1 240) 4) c0) 0 Hi Hw)
          as (s1 & o1 & E1 & Hi1 & Hw1 & Hl1 & Hc1).
        { unfold lz5_THRESHOLD. lia. }
        rewrite E1. cbn [bind].
        destruct (IH (bit + 1) bitmap s1 o1 c') as (s' & o' & c'' & ext & E & Hi' & Hw' & Hl' & He);
          [exact Hi1|exact Hw1|unfold lz5_THRESHOLD in *; lia|].
        rewrite ring_copy_acc in Hc1. injection Hc1 as _ Hc1.
        exists s', o', c'', (ext ++ snd (ring_copy 4096 (N.to_nat (N.land c1 15 + lz5_THRESHOLD)) (ring_of s)
                                             (N.lor (N.shiftl (N.land c1 240) 4) c0 + 0) [])).
        split; [exact E|]. split; [exact Hi'|]. split; [exact Hw'|].
        split; [exact Hl'|]. rewrite He, <- Hc1, <- app_assoc. reflexivity.
  Qed.

  Lemma nlen_ob_bytes o : ob_wf o -> nlen (ob_bytes o) = ob_len o.
  Proof.
    unfold ob_wf, ob_bytes. intros ->. rewrite rev_append_rev, app_nil_r. apply nlen_rev.
  Qed.

  Lemma ob_bytes_rev o : ob_bytes o = rev (ob_rev o).
  Proof. unfold ob_bytes. rewrite rev_append_rev. apply app_nil_r. Qed.

  (* no hypothesis on the callback or on junk is needed *)
  Lemma lz5_read_total_gen : forall s c, lz5_inv s ->
    exists ch s' c', lz5_read cb junk s c = Ok (ch, s', c') /\ nlen ch <= lz5_max_read /\ lz5_inv s'.
  Proof.
    intros s c Hi. unfold lz5_read.
    destruct (cb c 1) as [bs c1]. destruct bs as [|bitmap bs'].
    - exists [], s, c1. split; [reflexivity|]. split; [unfold nlen, lz5_max_read; simpl; lia|exact Hi].
    - destruct (lz5_run_total 8 0 bitmap s ob_empty c1 Hi ob_empty_wf)
        as (s' & o' & c' & ext & E & Hi' & Hw' & Hl' & He).
      { unfold lz5_max_read. cbn. lia. }
      rewrite E. cbn [bind]. exists (ob_bytes o'), s', c'. split; [reflexivity|].
      split; [|exact Hi']. rewrite nlen_ob_bytes by exact Hw'. exact Hl'.
  Qed.
End Lz5Total.

Theorem lz5_read_total : forall cbs (cb : callback cbs) junk, cb_bounded cb -> junk < 256 ->
  forall s c, lz5_inv s ->
  exists ch s' c', lz5_read cb junk s c = Ok (ch, s', c') /\ nlen ch <= lz5_max_read /\ lz5_inv s'.
Proof. intros cbs cb junk _ _. apply lz5_read_total_gen. Qed.

(* ------------------------------------------------------------------ *)
(* B.4  Round trip.  First: rings that agree on [0, 4096) behave alike. *)

Definition req (a b : ring) : Prop :=
  r_wpos a = r_wpos b /\ r_wpos a < 4096 /\
  forall p, p < 4096 -> aget (r_mem a) p = aget (r_mem b) p.

Lemma req_refl a : r_wpos a < 4096 -> req a a.
Proof. intros H. repeat split; auto. Qed.

Lemma ring_put_req a b x : req a b -> req (ring_put 4096 a x) (ring_put 4096 b x).
Proof.
  intros (Hw & Hlt & Hm). unfold ring_put. split; [|split]; cbn [r_wpos r_mem].
  - rewrite Hw. reflexivity.
  - apply N.mod_lt. lia.
  - intros p Hp. rewrite !aget_aset, <- Hw. destruct (r_wpos a =? p); [reflexivity|apply Hm; exact Hp].
Qed.

Lemma ring_copy_req n : forall a b pos acc, req a b ->
  snd (ring_copy 4096 n a pos acc) = snd (ring_copy 4096 n b pos acc) /\
  req (fst (ring_copy 4096 n a pos acc)) (fst (ring_copy 4096 n b pos acc)).
Proof.
  induction n as [|k IH]; intros a b pos acc Hr.
  - cbn [ring_copy fst snd]. auto.
  - rewrite !ring_copy_S.
    assert (E : aget (r_mem a) (pos mod 4096) = aget (r_mem b) (pos mod 4096)).
    { apply Hr. apply N.mod_lt. lia. }
    rewrite E. apply IH. apply ring_put_req. exact Hr.
Qed.

Lemma ring_cmd_req a b acc c : req a b ->
  snd (ring_cmd 4096 (a, acc) c) = snd (ring_cmd 4096 (b, acc) c) /\
  req (fst (ring_cmd 4096 (a, acc) c)) (fst (ring_cmd 4096 (b, acc) c)).
Proof.
  intros Hr. destruct c as [x|pos len]; cbn [ring_cmd].
  - cbn [fst snd]. split; [reflexivity|apply ring_put_req; exact Hr].
  - apply ring_copy_req. exact Hr.
Qed.

Lemma rfold_req cmds : forall a b acc, req a b ->
  snd (rfold 4096 cmds (a, acc)) = snd (rfold 4096 cmds (b, acc)) /\
  req (fst (rfold 4096 cmds (a, acc))) (fst (rfold 4096 cmds (b, acc))).
Proof.
  induction cmds as [|c cs IH]; intros a b acc Hr; cbn [fold_left].
  - cbn [fst snd]. auto.
  - destruct (ring_cmd_req a b acc c Hr) as [Es Hr'].
    destruct (ring_cmd 4096 (a, acc) c) as [a1 o1].
    destruct (ring_cmd 4096 (b, acc) c) as [b1 o2]. cbn [fst snd] in *. subst o2.
    apply IH. exact Hr'.
Qed.

Lemma ring_expand_req a b cmds : req a b -> ring_expand 4096 a cmds = ring_expand 4096 b cmds.
Proof. intros Hr. unfold ring_expand. f_equal. apply rfold_req. exact Hr. Qed.

(* the initial states of model and specification agree *)
Lemma lz5_s0_req : req (ring_of lz5_s0) lz5_ring0.
Proof.
  assert (Ew : r_wpos (ring_of lz5_s0) = 4078) by (unfold ring_of, lz5_s0; cbn [r_wpos lz5_pos]; reflexivity).
  assert (Ew0 : r_wpos lz5_ring0 = 4078) by (unfold lz5_ring0; cbn [r_wpos]; reflexivity).
  split; [rewrite Ew, Ew0; reflexivity|]. split; [rewrite Ew; lia|].
  intros p Hp. unfold ring_of at 1. cbn [r_mem].
  rewrite (lz5_initial_ring lz5_s0 lz5_init_eq p Hp). symmetry. apply lz5_ring0_fill. exact Hp.
Qed.

(* ---- the two bytes of a copy command decode to its position and length ---- *)

Definition copy_chk (pos l : N) : bool :=
  let c0 := N.land pos 255 in
  let c1 := N.lor (N.land (N.shiftr pos 4) 240) l in
  (N.lor (N.shiftl (N.land c1 240) 4) c0 =? pos) && (N.land c1 15 =? l).

Lemma copy_chk_sweep : sweep 12 (fun pos => sweep 4 (copy_chk pos) 0) 0 = true.
Proof. vm_compute. reflexivity. Qed.

Lemma copy_decode pos len : pos < 4096 -> 3 <= len -> len <= 18 ->
  N.lor (N.shiftl (N.land (N.lor (N.land (N.shiftr pos 4) 240) (len - 3)) 240) 4) (N.land pos 255) = pos /\
  N.land (N.lor (N.land (N.shiftr pos 4) 240) (len - 3)) 15 + lz5_THRESHOLD = len.
Proof.
  intros Hp H3 H18.
  pose proof (sweep_below 12 _ copy_chk_sweep pos Hp) as H. cbv beta in H.
  pose proof (sweep_below 4 _ H (len - 3)) as H'.
  assert (Hl : len - 3 < 2 ^ N.of_nat 4) by (change (2 ^ N.of_nat 4) with 16; lia).
  specialize (H' Hl). unfold copy_chk in H'. cbv zeta in H'.
  apply andb_true_iff in H'. destruct H' as [A B].
  apply N.eqb_eq in A. apply N.eqb_eq in B. split; [exact A|].
  rewrite B. unfold lz5_THRESHOLD. lia.
Qed.

(* ---- the flag byte ---- *)

Lemma flag_byte_shift flags : forall i, flag_byte flags i = 2 ^ i * flag_byte flags 0.
Proof.
  induction flags as [|f r IH]; intros i; cbn [flag_byte]; [lia|].
  rewrite (IH (i + 1)), (IH (0 + 1)). rewrite !N.shiftl_1_l.
  rewrite N.pow_add_r. change (2 ^ (0 + 1)) with 2. change (2 ^ 0) with 1. change (2 ^ 1) with 2.
  destruct f; lia.
Qed.

Lemma flag_byte_cons f r : flag_byte (f :: r) 0 = 2 * flag_byte r 0 + N.b2n f.
Proof.
  cbn [flag_byte]. rewrite (flag_byte_shift r (0 + 1)). change (2 ^ (0 + 1)) with 2.
  rewrite N.shiftl_1_l. change (2 ^ 0) with 1. destruct f; cbn [N.b2n]; lia.
Qed.

Lemma flag_byte_testbit flags : forall j,
  N.testbit (flag_byte flags 0) (N.of_nat j) = nth j flags false.
Proof.
  induction flags as [|f r IH]; intros j.
  - cbn [flag_byte]. rewrite N.bits_0. destruct j; reflexivity.
  - rewrite flag_byte_cons. destruct j as [|j].
    + change (N.of_nat 0) with 0. cbn [nth]. apply N.testbit_0_r.
    + rewrite Nat2N.inj_succ, N.testbit_succ_r. cbn [nth]. apply IH.
Qed.

(* ---- the list source ---- *)

Definition src_plain (data : list N) : src := {| src_data := data; src_chunks := [] |}.

Lemma src_cb_1 x l : src_cb (src_plain (x :: l)) 1 = ([x], src_plain l).
Proof.
  unfold src_cb, src_plain. cbn [src_chunks src_data firstn_N skipn_N].
  change (1 =? 0) with false. change (N.pred 1) with 0. cbv iota.
  rewrite firstn_N_0, skipn_N_0. reflexivity.
Qed.

Lemma src_cb_2 x y l : src_cb (src_plain (x :: y :: l)) 2 = ([x; y], src_plain l).
Proof.
  unfold src_cb, src_plain. cbn [src_chunks src_data firstn_N skipn_N].
  change (2 =? 0) with false. change (N.pred 2) with 1. cbv iota.
  change (1 =? 0) with false. change (N.pred 1) with 0. cbv iota.
  rewrite firstn_N_0, skipn_N_0. reflexivity.
Qed.

(* ---- lz5_run on the bytes of well-formed commands ---- *)

Section Lz5Cmds.
  Variable junk : N.

  Lemma lz5_run_cmds bitmap : forall run n bit s o data,
    forallb lz5_wf_cmd run = true -> (length run <= n)%nat ->
    lz5_inv s -> ob_wf o -> ob_len o + 18 * N.of_nat n <= lz5_max_read ->
    (forall j, (j < length run)%nat ->
       N.testbit bitmap (bit + N.of_nat j) = lz5_flag (nth j run (ALit 0))) ->
    exists s' o',
      lz5_run src_cb junk n bit bitmap s o (src_plain (flat_map lz5_cmd_bytes run ++ data)) =
      lz5_run src_cb junk (n - length run) (bit + N.of_nat (length run)) bitmap s' o' (src_plain data) /\
      lz5_inv s' /\ ob_wf o' /\ ob_len o' + 18 * N.of_nat (n - length run) <= lz5_max_read /\
      rfold 4096 run (ring_of s, ob_rev o) = (ring_of s', ob_rev o').
  Proof.
    induction run as [|cmd run IH]; intros n bit s o data Hwf Hn Hi Hw Hl Hbits.
    - exists s, o. cbn [length flat_map app fold_left]. rewrite Nat.sub_0_r.
      change (N.of_nat 0) with 0. rewrite N.add_0_r. auto.
    - destruct n as [|k]; [cbn [length] in Hn; lia|].
      cbn [forallb] in Hwf. apply andb_true_iff in Hwf. destruct Hwf as [Hc Hwf].
      cbn [length] in Hn.
      pose proof (Hbits O ltac:(cbn [length]; lia)) as Hb0.
      change (N.of_nat 0) with 0 in Hb0. rewrite N.add_0_r in Hb0. cbn [nth] in Hb0.
      assert (Hbits' : forall j, (j < length run)%nat ->
                N.testbit bitmap (bit + 1 + N.of_nat j) = lz5_flag (nth j run (ALit 0))).
      { intros j Hj. specialize (Hbits (S j) ltac:(cbn [length]; lia)). cbn [nth] in Hbits.
        rewrite <- Hbits. f_equal. lia. }
      assert (Ebit : bit + N.of_nat (length (cmd :: run)) = bit + 1 + N.of_nat (length run))
        by (cbn [length]; lia).
      rewrite Ebit. change (S k - length (cmd :: run))%nat with (k - length run)%nat.
      rewrite lz5_run_S, Hb0.
      destruct cmd as [b|pos len]; cbn [lz5_flag flat_map lz5_cmd_bytes app fold_left ring_cmd].
      + rewrite src_cb_1.
        rewrite output_byte_eq by (try assumption; lia). cbn [bind].
        destruct (IH k (bit + 1) (st_put s b) (ob_put o b) data Hwf) as (s' & o' & E & Hi' & Hw' & Hl' & Hf).
        { lia. }
        { apply st_put_inv. exact Hi. }
        { apply ob_put_wf. exact Hw. }
        { cbn [ob_put ob_len]. lia. }
        { exact Hbits'. }
        exists s', o'. split; [exact E|]. split; [exact Hi'|]. split; [exact Hw'|].
        split; [exact Hl'|]. exact Hf.
      + cbn [lz5_wf_cmd] in Hc.
        apply andb_true_iff in Hc. destruct Hc as [Hc H18].
        apply andb_true_iff in Hc. destruct Hc as [Hpos H3].
        apply N.ltb_lt in Hpos. apply N.leb_le in H3. apply N.leb_le in H18.
        rewrite src_cb_2. cbv beta iota zeta.
        destruct (copy_decode pos len Hpos H3 H18) as [Estart Elen].
        rewrite Estart, Elen.
        destruct (output_block_spec (N.to_nat len) s o pos 0 Hi Hw) as (s1 & o1 & E1 & Hi1 & Hw1 & Hl1 & Hc1).
        { lia. }
        rewrite E1. cbn [bind]. rewrite N.add_0_r in Hc1. rewrite Hc1.
        destruct (IH k (bit + 1) s1 o1 data Hwf) as (s' & o' & E & Hi' & Hw' & Hl' & Hf);
          [lia|exact Hi1|exact Hw1|lia|exact Hbits'|].
        exists s', o'. split; [exact E|]. split; [exact Hi'|]. split; [exact Hw'|].
        split; [exact Hl'|]. exact Hf.
  Qed.

  (* One lz5_read on the serialisation of a group of 1..8 commands: the
     chunk starts with the bytes the commands denote; if the group is full
     the chunk is exactly those bytes, exactly the group's bytes are consumed,
     and the rings stay in step. *)
  Lemma lz5_read_group run flags_extra data s :
    forallb lz5_wf_cmd run = true -> (0 < length run <= 8)%nat -> lz5_inv s ->
    exists s' c' ext,
      lz5_read src_cb junk s
        (src_plain (flag_byte (map lz5_flag run ++ flags_extra) 0 :: flat_map lz5_cmd_bytes run ++ data)) =
      Ok (ring_expand 4096 (ring_of s) run ++ ext, s', c') /\
      lz5_inv s' /\ nlen (ring_expand 4096 (ring_of s) run ++ ext) <= lz5_max_read /\
      (length run = 8%nat ->
         ext = [] /\ c' = src_plain data /\ ring_of s' = fst (rfold 4096 run (ring_of s, []))).
  Proof.
    intros Hwf [Hlo Hhi] Hi.
    set (fb := flag_byte (map lz5_flag run ++ flags_extra) 0).
    unfold lz5_read. rewrite src_cb_1.
    destruct (lz5_run_cmds fb run 8 0 s ob_empty data Hwf Hhi Hi ob_empty_wf) as (s1 & o1 & E1 & Hi1 & Hw1 & Hl1 & Hf1).
    { unfold lz5_max_read. cbn. lia. }
    { intros j Hj. rewrite N.add_0_l. unfold fb. rewrite flag_byte_testbit.
      rewrite app_nth1 by (rewrite map_length; exact Hj).
      rewrite (nth_indep _ false (lz5_flag (ALit 0))) by (rewrite map_length; exact Hj).
      apply map_nth. }
    rewrite E1.
    destruct (lz5_run_total src_cb junk (8 - length run) (0 + N.of_nat (length run)) fb s1 o1 (src_plain data) Hi1 Hw1 Hl1)
      as (s2 & o2 & c2 & ext & E2 & Hi2 & Hw2 & Hl2 & He2).
    rewrite E2. cbn [bind].
    cbn [ob_empty ob_rev] in Hf1.
    assert (Eout : ring_expand 4096 (ring_of s) run = rev (ob_rev o1)).
    { unfold ring_expand. rewrite Hf1. reflexivity. }
    exists s2, c2, (rev ext).
    assert (Ech : ob_bytes o2 = ring_expand 4096 (ring_of s) run ++ rev ext).
    { rewrite ob_bytes_rev, He2, rev_app_distr, Eout. reflexivity. }
    split; [rewrite Ech; reflexivity|]. split; [exact Hi2|].
    split; [rewrite <- Ech, nlen_ob_bytes by exact Hw2; exact Hl2|].
    intros E8. rewrite E8 in E2. cbn [Nat.sub lz5_run] in E2.
    injection E2 as <- <- <-.
    assert (ext = []) as ->.
    { apply (app_inv_tail (ob_rev o1)). exact (eq_sym He2). }
    split; [reflexivity|]. split; [reflexivity|]. rewrite Hf1. reflexivity.
  Qed.
End Lz5Cmds.

(* ---- the serialisation, one group of eight at a time ---- *)

Lemma lz5_serialise_fuel_S f cmds pad :
  lz5_serialise_fuel (S f) cmds pad =
  match cmds with
  | [] => []
  | _ =>
    flag_byte (map lz5_flag (firstn 8 cmds) ++
               (match skipn 8 cmds with [] => firstn (8 - length (firstn 8 cmds)) pad | _ => [] end)) 0
    :: flat_map lz5_cmd_bytes (firstn 8 cmds) ++ lz5_serialise_fuel f (skipn 8 cmds) pad
  end.
Proof. reflexivity. Qed.

Lemma skipn8_length {A} (x : A) l : (length (skipn 8 (x :: l)) <= length l)%nat.
Proof. rewrite skipn_length. cbn [length]. lia. Qed.

Lemma lz5_serialise_fuel_indep pad : forall f1 f2 cmds,
  (length cmds <= f1)%nat -> (length cmds <= f2)%nat ->
  lz5_serialise_fuel f1 cmds pad = lz5_serialise_fuel f2 cmds pad.
Proof.
  induction f1 as [|f1 IH]; intros f2 cmds H1 H2.
  - destruct cmds as [|c l]; [|cbn [length] in H1; lia]. destruct f2; reflexivity.
  - destruct cmds as [|c l]; [destruct f2; reflexivity|].
    destruct f2 as [|f2]; [cbn [length] in H2; lia|].
    rewrite !lz5_serialise_fuel_S. f_equal. f_equal.
    pose proof (skipn8_length c l). cbn [length] in H1, H2. apply IH; lia.
Qed.

Lemma lz5_serialise_nil pad : lz5_serialise [] pad = [].
Proof. reflexivity. Qed.

Lemma lz5_serialise_step cmds pad : cmds <> [] ->
  lz5_serialise cmds pad =
  flag_byte (map lz5_flag (firstn 8 cmds) ++
             (match skipn 8 cmds with [] => firstn (8 - length (firstn 8 cmds)) pad | _ => [] end)) 0
  :: flat_map lz5_cmd_bytes (firstn 8 cmds) ++ lz5_serialise (skipn 8 cmds) pad.
Proof.
  intros Hne. destruct cmds as [|c l]; [congruence|].
  unfold lz5_serialise at 1. cbn [length]. rewrite lz5_serialise_fuel_S. f_equal. f_equal.
  unfold lz5_serialise. pose proof (skipn8_length c l). apply lz5_serialise_fuel_indep; lia.
Qed.

Lemma forallb_firstn_skipn {A} (f : A -> bool) n l : forallb f l = true ->
  forallb f (firstn n l) = true /\ forallb f (skipn n l) = true.
Proof.
  intros H. rewrite <- (firstn_skipn n l) in H. rewrite forallb_app in H.
  apply andb_true_iff in H. exact H.
Qed.

(* ---- the chunk sequence of the decoder on a serialised command list ---- *)

Section Lz5Chunks.
  Variable junk : N.
  Variable pad : list bool.
  Variable tail : list N.

  (* The chunks hold what the commands denote, followed (possibly) by bytes
     decoded from [tail] after a partial last group. *)
  Lemma lz5_chunks : forall n cmds s r,
    (length cmds <= n)%nat -> forallb lz5_wf_cmd cmds = true -> lz5_inv s -> req (ring_of s) r ->
    exists chs extra,
      chunks_from (lz5_read src_cb junk) lz5_max_read s
                  (src_plain (lz5_serialise cmds pad ++ tail)) chs /\
      concat chs = ring_expand 4096 r cmds ++ extra.
  Proof.
    induction n as [|k IH]; intros cmds s r Hn Hwf Hi Hr.
    - destruct cmds as [|c l]; [|cbn [length] in Hn; lia].
      exists [], []. split; [constructor|reflexivity].
    - destruct cmds as [|c l].
      { exists [], []. split; [constructor|reflexivity]. }
      set (cmds := c :: l) in *.
      assert (Hne : cmds <> []) by (unfold cmds; congruence).
      rewrite (lz5_serialise_step cmds pad Hne).
      destruct (forallb_firstn_skipn lz5_wf_cmd 8 cmds Hwf) as [Hwf1 Hwf2].
      pose proof (firstn_skipn 8 cmds) as Esplit.
      pose proof (firstn_length 8 cmds) as Lrun.
      pose proof (skipn_length 8 cmds) as Lrest.
      assert (Lc : length cmds = S (length l)) by reflexivity.
      set (run := firstn 8 cmds) in *. set (rest := skipn 8 cmds) in *.
      cbn [app]. rewrite <- app_assoc.
      destruct (lz5_read_group junk run
                  (match rest with [] => firstn (8 - length run) pad | _ => [] end)
                  (lz5_serialise rest pad ++ tail) s Hwf1) as (s' & c' & ext & Er & Hi' & Hlen & H8);
        [lia|exact Hi|].
      assert (Hne_ch : ring_expand 4096 (ring_of s) run ++ ext <> []).
      { intros En. apply (f_equal (@nlen N)) in En. rewrite nlen_app in En.
        pose proof (ring_expand_length run (ring_of s) Hwf1). unfold nlen in En at 3. simpl in En. lia. }
      rewrite (ring_expand_req _ _ run Hr) in *.
      destruct (Nat.eq_dec (length run) 8) as [E8|N8].
      + destruct (H8 E8) as (-> & -> & Ering).
        destruct (IH rest s' (fst (rfold 4096 run (r, []))) ltac:(lia) Hwf2 Hi') as (chs & extra & C & Ec).
        { rewrite Ering. apply rfold_req. exact Hr. }
        exists ((ring_expand 4096 r run ++ []) :: chs), extra. split.
        * econstructor; [exact Er|exact Hne_ch|exact Hlen|exact C].
        * cbn [concat]. rewrite Ec, app_nil_r, app_assoc, <- ring_expand_app, Esplit. reflexivity.
      + assert (Erest : rest = []).
        { apply length_zero_iff_nil. lia. }
        exists [ring_expand 4096 r run ++ ext], ext. split.
        * econstructor; [exact Er|exact Hne_ch|exact Hlen|constructor].
        * cbn [concat]. rewrite app_nil_r. rewrite Erest, app_nil_r in Esplit. rewrite <- Esplit. reflexivity.
  Qed.
End Lz5Chunks.

(* ------------------------------------------------------------------ *)
(* B.4  The round-trip theorem                                          *)

Theorem lz5_chunks_spec : forall junk cmds pad tail,
  forallb lz5_wf_cmd cmds = true ->
  exists chs extra,
    chunks_from (lz5_read src_cb junk) lz5_max_read lz5_s0
      {| src_data := lz5_serialise cmds pad ++ tail; src_chunks := [] |} chs /\
    concat chs = lz5_expand cmds ++ extra.
Proof.
  intros junk cmds pad tail Hwf.
  exact (lz5_chunks junk pad tail (length cmds) cmds lz5_s0 lz5_ring0 (Nat.le_refl _) Hwf lz5_s0_inv lz5_s0_req).
Qed.

Theorem lz5_roundtrip : forall junk cmds pad tail s0 ks os d',
  forallb lz5_wf_cmd cmds = true ->
  lz5_init = Ok s0 ->
  nlen (lz5_expand cmds) <= sum_N ks -> sum_N ks < 2 ^ 62 ->
  run_reads (lz5_read src_cb junk) lz5_max_read lz5_block_size
    (lha_decoder_new s0 {| src_data := lz5_serialise cmds pad ++ tail; src_chunks := [] |}
                     (nlen (lz5_expand cmds))) ks = Ok (os, d') ->
  concat os = lz5_expand cmds.
Proof.
  intros junk cmds pad tail s0 ks os d' Hwf E0 Hk Hs Hr.
  rewrite lz5_init_eq in E0. injection E0 as <-.
  destruct (lz5_chunks_spec junk cmds pad tail Hwf) as (chs & extra & C & Ec).
  pose proof (decode_of_chunks_inv (lz5_read src_cb junk) lz5_max_read lz5_block_size lz5_inv
                (lz5_read_total_gen src_cb junk) chs lz5_s0 _ (nlen (lz5_expand cmds)) ks os d' lz5_s0_inv C) as H.
  rewrite H; [| |exact Hk|exact Hs|exact Hr].
  - rewrite Ec. rewrite firstn_N_app_l by lia. apply firstn_N_all. lia.
  - rewrite Ec, nlen_app. lia.
Qed.

(* the hypothesis "run_reads ... = Ok" is never vacuous: for any input bytes
   whatsoever the reads succeed *)
Theorem lz5_reads_ok : forall junk data chunks L ks s0, lz5_init = Ok s0 -> sum_N ks < 2 ^ 62 ->
  exists os d', run_reads (lz5_read src_cb junk) lz5_max_read lz5_block_size
    (lha_decoder_new s0 {| src_data := data; src_chunks := chunks |} L) ks = Ok (os, d').
Proof.
  intros junk data chunks L ks s0 E0 Hs.
  rewrite lz5_init_eq in E0. injection E0 as <-.
  apply (run_reads_inv_ok (lz5_read src_cb junk) lz5_max_read lz5_block_size lz5_inv
           (lz5_read_total_gen src_cb junk)); [exact lz5_s0_inv|exact Hs].
Qed.

Print Assumptions lz5_init_ok.
Print Assumptions lz5_read_total.
Print Assumptions lz5_initial_ring.
Print Assumptions lz5_chunks_spec.
Print Assumptions lz5_roundtrip.
Print Assumptions lz5_reads_ok.

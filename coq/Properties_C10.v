(* Properties_C10.v -- C10: extraction never touches anything outside the
   extraction directory.  Statements over the model of the tool (CliMain.v,
   CliExtract.v, CliFilter.v on Reader.v and the filesystem model Fs.v), whose
   filesystem keeps the trace of every successful mutating operation with the
   physical location it resolved to.

   The confinement clause at full strength is FALSE of the faithful model and of
   the C (known finding, KNOWN_FINDINGS.txt): confinement_refuted below exhibits
   a 215-byte archive for which `lha xf` in a clean, link-free directory creates a
   symbolic link in /outside.  What holds and is proved (P_CliSafe, P_CliOrder,
   P_FsConfine, P_CliPath, P_CliConfine, P_CliConfineAll):
     - list, test, print and every dry run leave the filesystem record untouched;
     - for ANY invocation the trace is  late ++ early ++ initial  with no dangerous-link
       creation in early and only symlink / unlink / mkdir operations in late (the
       mkdir is make_parent_directories running for deferred links -- part of the
       known finding, ordering_mkdir_witness); the deferred list is longest first;
     - a link at the final path component is reported, never followed;
     - confinement until the first dangerous link exists: in a tree whose links are
       all safe (relative, no '..'; in particular a link-free tree) every operation
       of an extraction resolves below the extraction directory up to and including
       the creation of the first dangerous link.  What can follow it is exactly the
       known finding. *)
From Lhasa Require Import Base Loop Generated Header Fs FsRun Glob Reader CliExtract CliMain InputStream ListOut
  P_CliSafe P_CliOrder P_FsConfine P_CliPath P_CliConfine P_CliConfineAll P_FsLinks P_CliPathLen P_CliConfineLate
  P_CliMembers P_CliConfineBytes P_CliConfineBytesEx.
From Lhasa Require Import S_Capstone P_Capstone P_CapCli S_CapAny P_CapAnyRun P_CapConfine P_CapConfineEx.
Local Open Scope N_scope.

(* ---- the deferred list: longest path first ---- *)
Fixpoint sorted_desc (l : list header) : Prop :=
  match l with
  | [] => True
  | x :: r => (match r with [] => True | y :: _ => file_header_path_len y <= file_header_path_len x end) /\ sorted_desc r
  end.

Theorem insert_deferred_keeps_longest_first : forall l h, sorted_desc l -> sorted_desc (insert_deferred l h).
Proof.
  induction l as [|x r IH]; intros h Hs.
  - cbn. split; exact I.
  - cbn [insert_deferred]. destruct (file_header_path_len h <? file_header_path_len x) eqn:E.
    + destruct Hs as [Hx Hr]. specialize (IH h Hr). cbn [sorted_desc]. split; [|exact IH].
      destruct r as [|y r'].
      * cbn. apply N.ltb_lt in E. apply N.lt_le_incl. exact E.
      * cbn [insert_deferred] in *. destruct (file_header_path_len h <? file_header_path_len y).
        -- exact Hx.
        -- apply N.ltb_lt in E. apply N.lt_le_incl. exact E.
    + cbn [sorted_desc]. split; [|exact Hs]. apply N.ltb_ge in E. exact E.
Qed.

(* every header of the list is still there, the new one is added once *)
Theorem insert_deferred_adds_one : forall l h, length (insert_deferred l h) = S (length l) /\ In h (insert_deferred l h).
Proof.
  induction l as [|x r IH]; intros h; cbn [insert_deferred].
  - split; [reflexivity|left; reflexivity].
  - destruct (file_header_path_len h <? file_header_path_len x).
    + destruct (IH h) as [L I]. split; [cbn; rewrite L; reflexivity|right; exact I].
    + split; [reflexivity|left; reflexivity].
Qed.

(* ---- the known finding, as a theorem about the model ---- *)
Definition outside_root (o : fsop) : bool :=
  let loc := match o with
             | OpMkdir l _ | OpCreate l | OpUnlink l | OpSymlink l _ | OpChmod l _ | OpChown l | OpUtime l _ | OpWrite l _ => l
             end in
  match loc with
  | n :: _ => negb (name_eqb n bytes_root)
  | [] => true
  end.

(* directory t/, link s -> t, link s/p -> /x, link uuuuuuuu -> /outside, link s -> uuuuuuuu *)
Definition escape_archive : list N :=
  [36;0;45;108;104;100;45;0;0;0;0;0;0;0;0;0;59;61;75;32;2;0;0;85;5;0;2;116;255;5;0;80;237;65;0;0;
   37;0;45;108;104;100;45;0;0;0;0;0;0;0;0;0;133;226;1;32;2;0;0;85;6;0;1;115;124;116;5;0;80;255;161;0;0;
   43;0;45;108;104;100;45;0;0;0;0;0;0;0;0;0;133;226;1;32;2;0;0;85;4;0;1;120;8;0;2;115;255;112;124;255;5;0;80;255;161;0;0;
   54;0;45;108;104;100;45;0;0;0;0;0;0;0;0;0;133;226;1;32;2;0;0;85;10;0;1;111;117;116;115;105;100;101;13;0;2;117;117;117;117;117;117;117;117;124;255;5;0;80;255;161;0;0;
   44;0;45;108;104;100;45;0;0;0;0;0;0;0;0;0;133;226;1;32;2;0;0;85;13;0;1;115;124;117;117;117;117;117;117;117;117;5;0;80;255;161;0;0;0].

Definition escape_argv : list (list N) :=
  [[108;104;97]; [120;102]; [47;97;114;99;47;97;46;108;122;104]].      (* lha xf /arc/a.lzh *)

Definition escape_run : outcome cli_result :=
  cli_run mktime_utc gmtime_utc (fun _ => []) false 1300000000 1200000000 escape_argv escape_archive [] [].

(* In a clean extraction directory without any symbolic link, extraction of this
   archive performs an operation that resolves outside the directory: the literal
   confinement clause does not hold. *)
Theorem confinement_refuted :
  exists r, escape_run = Ok r /\ existsb outside_root (fs_trace (cr_fs r)) = true.
Proof. eexists. split; [vm_compute; reflexivity|vm_compute; reflexivity]. Qed.

(* ---- the read-only commands ---- *)

(* l, v, t, p (with any options, with or without '-') and x / e with option n are
   read-only invocations ... *)
Theorem list_test_print_are_read_only : forall (c : N) (opts : list N) (mode : program_mode) (o : lha_options),
  In c [108; 118; 116; 112] ->
  (parse_command_line (c :: opts) = Some (mode, o) -> read_only_command mode o = true) /\
  (parse_command_line (45 :: c :: opts) = Some (mode, o) -> read_only_command mode o = true).
Proof. exact command_letters_read_only. Qed.

Theorem dry_run_is_read_only : forall (c : N) (pre rest : list N) (mode : program_mode) (o : lha_options),
  In c [120; 101] -> ~ In 119 pre ->
  (parse_command_line (c :: pre ++ 110 :: rest) = Some (mode, o) -> read_only_command mode o = true) /\
  (parse_command_line (45 :: c :: pre ++ 110 :: rest) = Some (mode, o) -> read_only_command mode o = true).
Proof. exact extract_n_read_only. Qed.

(* ... and a read-only invocation, on ANY archive bytes, standard input and initial tree,
   returns the filesystem exactly as it found it, with an empty operation trace *)
Theorem read_only_commands_touch_nothing : forall mktime localtime strerror uid0 now mtime argv archive stdin setup r,
  read_only_invocation argv = true ->
  cli_run mktime localtime strerror uid0 now mtime argv archive stdin setup = Ok r ->
  cr_fs r = cli_fs_init uid0 archive mtime setup /\ fs_trace (cr_fs r) = [].
Proof. exact cli_run_read_only. Qed.

(* ---- the order of operations, for ANY invocation ---- *)
Theorem dangerous_links_come_last : forall mktime junk localtime now stdin_kind strerror argv stdin (s : fs) r,
  lha_main mktime junk localtime now stdin_kind strerror argv stdin s = Ok r ->
  two_phase s (cr_fs r) /\ ordered_since s (cr_fs r).
Proof. exact lha_main_order. Qed.

(* ---- a link at the final component is never followed ---- *)
Theorem final_component_is_not_followed : forall (s : fs) (p : list N) (parent : phys) (lst : name) (found : option node),
  trailing_slash p = false -> resolve s p false = WOk parent lst found ->
  lst = last (split_path p) [] /\ nodd lst /\
  exists o pm t ents, Fs.node_at (fs_root s) parent = Some (Dir o pm t ents) /\ lookup ents lst = found.
Proof. exact final_component_not_followed. Qed.

(* ---- confinement until the first dangerous link exists ---- *)
Theorem confined_until_first_dangerous_link : forall mktime junk (R : phys) (o0 : lha_options), good_w o0 ->
  forall (flt : lha_filter) (st0 : cli_state) (strm : istream) (v : res bool) (st : cli_state),
  fs_ok R (cs_fs st0) -> cs_opts st0 = o0 -> cs_reader st0 = lha_reader_new strm ->
  extract_archive mktime junk flt st0 = Ok (v, st) ->
  exists new, fs_trace (cs_fs st) = new ++ fs_trace (cs_fs st0) /\
    ((forall o, In o new -> below_op R o) \/
     (exists late d early, new = late ++ d :: early /\ dangerous_op d /\ below_op R d /\
        forall o, In o early -> below_op R o /\ ~ dangerous_op o)).
Proof. exact extract_trace_confined. Qed.

(* the path handed to the library: relative, components = those of w=DIR followed by the
   header's real names, none of them '..' except possibly a last component the resolution
   then refuses *)
Theorem extraction_paths_are_relative : forall (h : header) (o : lha_options), hdr_c11 h -> good_w o -> good_str (file_full_path h o).
Proof. exact file_full_path_good. Qed.

(* ---- confinement of the WHOLE run, final phase included (P_CliConfineLate) ----
   Hypotheses: no symbolic link below the extraction directory R to begin with; w=DIR relative
   without '..'; no symbolic-link member is extracted THROUGH a safe symbolic-link member (the
   path of a safe link member is not a proper prefix of the path of a link member).  Then every
   operation of the run -- the mkdir of parents, the unlink and the symlink of each deferred link
   included -- resolved below R.  [presents]: the headers the extraction loop obtains. *)

(* why longest-first is the right order: a link that stands at a directory position of M's
   path has a strictly smaller key than M *)
Theorem deferred_prefix_is_shorter : forall (o0 : lha_options) (A M : header), hdr_c11 A -> hdr_c11 M ->
  creatable o0 A -> proper_prefix (pcomps o0 A) (pcomps o0 M) ->
  file_header_path_len A < file_header_path_len M.
Proof. exact prefix_is_shorter. Qed.

(* a path that meets no link before its final component is resolved physically *)
Theorem linkfree_path_is_physical : ltac:(let t := type of P_FsLinks.resolve_phys in exact t).
Proof. exact P_FsLinks.resolve_phys. Qed.

(* no safe link in the archive at all *)
Theorem no_safe_links_confined : forall mktime junk (R : phys) (o0 : lha_options), good_w o0 ->
  forall (flt : lha_filter) (st0 : cli_state) (strm : istream) (v : res bool) (st : cli_state),
  fs_cwd (cs_fs st0) = R -> no_links_below R (fs_root (cs_fs st0)) ->
  cs_opts st0 = o0 -> cs_reader st0 = lha_reader_new strm ->
  (forall hd, presents mktime junk flt st0 hd -> forall t, h_symlink_target hd = Some t -> dangerous_target t = true) ->
  extract_archive mktime junk flt st0 = Ok (v, st) ->
  (exists new, fs_trace (cs_fs st) = new ++ fs_trace (cs_fs st0) /\ forall o, In o new -> below_op R o) /\
  (forall suf t, Fs.node_at (fs_root (cs_fs st)) (R ++ suf) = Some (Link t) -> dangerous_target t = true).
Proof. exact P_CliConfineLate.no_safe_links_confined. Qed.

(* safe links allowed: [Mem] any set containing the presented headers *)
Theorem whole_run_confined : forall mktime junk (R : phys) (o0 : lha_options), good_w o0 ->
  forall (Mem : header -> Prop) (flt : lha_filter) (st0 : cli_state) (strm : istream) (v : res bool) (st : cli_state),
  fs_cwd (cs_fs st0) = R -> no_links_below R (fs_root (cs_fs st0)) ->
  cs_opts st0 = o0 -> cs_reader st0 = lha_reader_new strm ->
  (forall hd, presents mktime junk flt st0 hd -> Mem hd) -> no_link_through_safe o0 Mem ->
  extract_archive mktime junk flt st0 = Ok (v, st) ->
  (exists new, fs_trace (cs_fs st) = new ++ fs_trace (cs_fs st0) /\ forall o, In o new -> below_op R o) /\
  links_are_members R o0 Mem (fs_root (cs_fs st)).
Proof. exact extract_confined_whole. Qed.

(* safe links that were there before are allowed too, if no link member is extracted through one *)
Theorem whole_run_confined_initial_links : forall mktime junk (R : phys) (o0 : lha_options), good_w o0 ->
  forall (Mem : header -> Prop) (flt : lha_filter) (st0 : cli_state) (strm : istream) (v : res bool) (st : cli_state),
  fs_cwd (cs_fs st0) = R -> initial_links_ok R o0 Mem (fs_root (cs_fs st0)) ->
  cs_opts st0 = o0 -> cs_reader st0 = lha_reader_new strm ->
  (forall hd, presents mktime junk flt st0 hd -> Mem hd) -> no_link_through_safe o0 Mem ->
  extract_archive mktime junk flt st0 = Ok (v, st) ->
  exists new, fs_trace (cs_fs st) = new ++ fs_trace (cs_fs st0) /\ forall o, In o new -> below_op R o.
Proof. exact extract_confined_whole_init. Qed.

(* the same with the hypothesis as a boolean test on a list of members (path, link target) *)
Theorem whole_run_confined_by_test : forall mktime junk (R : phys) (o0 : lha_options), good_w o0 ->
  forall (ms : list minfo) (flt : lha_filter) (st0 : cli_state) (strm : istream) (v : res bool) (st : cli_state),
  fs_cwd (cs_fs st0) = R -> no_links_below R (fs_root (cs_fs st0)) ->
  cs_opts st0 = o0 -> cs_reader st0 = lha_reader_new strm ->
  (forall hd, presents mktime junk flt st0 hd -> In (msum o0 hd) ms) -> no_link_through_safe_b ms = true ->
  extract_archive mktime junk flt st0 = Ok (v, st) ->
  (exists new, fs_trace (cs_fs st) = new ++ fs_trace (cs_fs st0) /\ forall o, In o new -> below_op R o) /\
  links_are_members R o0 (fun h => In (msum o0 h) ms) (fs_root (cs_fs st)).
Proof. exact members_confined. Qed.

(* the whole tool from argv, and the differential-test form *)
Theorem lha_main_confined_whole : ltac:(let t := type of P_CliConfineLate.lha_main_confined_whole in exact t).
Proof. exact P_CliConfineLate.lha_main_confined_whole. Qed.
Theorem lha_main_no_safe_links_confined : ltac:(let t := type of P_CliConfineLate.lha_main_no_safe_links_confined in exact t).
Proof. exact P_CliConfineLate.lha_main_no_safe_links_confined. Qed.
Theorem cli_run_confined_whole : ltac:(let t := type of P_CliConfineLate.cli_run_confined_whole in exact t).
Proof. exact P_CliConfineLate.cli_run_confined_whole. Qed.

(* the presented headers of a concrete run can be computed *)
Theorem presents_in_run_headers : ltac:(let t := type of P_CliConfineLate.presents_in_run_headers in exact t).
Proof. exact P_CliConfineLate.presents_in_run_headers. Qed.

(* non-vacuity: d/, d/f, d/x -> ../y, zz -> /outside, d/x -> /outside meets the hypotheses; the run evaluated *)
Theorem late_phase_example : ltac:(let t := type of P_CliConfineLate.late_phase_example in exact t).
Proof. exact P_CliConfineLate.late_phase_example. Qed.
Theorem safe_link_example : ltac:(let t := type of P_CliConfineLate.safe_link_example in exact t).
Proof. exact P_CliConfineLate.safe_link_example. Qed.
Theorem initial_link_example : ltac:(let t := type of P_CliConfineLate.initial_link_example in exact t).
Proof. exact P_CliConfineLate.initial_link_example. Qed.

(* the hypotheses cannot be weakened to the obvious candidates (both evaluated on the model):
   safe links in the INITIAL tree suffice for an escape without any safe link in the archive; a safe
   link of the archive whose target is a plain directory suffices when a deferred link is extracted
   through it (the test on link targets passes).  The witness of confinement_refuted fails both tests. *)
Theorem safe_initial_links_refuted : ltac:(let t := type of P_CliConfineLate.safe_initial_links_refuted in exact t).
Proof. exact P_CliConfineLate.safe_initial_links_refuted. Qed.
Theorem target_test_refuted : ltac:(let t := type of P_CliConfineLate.target_test_refuted in exact t).
Proof. exact P_CliConfineLate.target_test_refuted. Qed.
Theorem escape_fails_both_tests : ltac:(let t := type of P_CliConfineLate.escape_fails_both_tests in exact t).
Proof. exact P_CliConfineLate.escape_fails_both_tests. Qed.
Example escape_archive_is_f5 : escape_archive = f5_archive.
Proof. reflexivity. Qed.

(* ---- END TO END: confinement from archive BYTES (P_CapAnyRun, P_CapConfine) ----
   S_Capstone.desc / archive_of: tree descriptions and their serialisation (Properties_E2E);
   S_CapAny.wf_descs_any: S_Capstone.wf_descs WITHOUT the restriction on link targets (any
   non-empty string of at most 4095 bytes in 1..254: absolute, climbing with "..", anything);
   names distinct inside each directory.  For every such description, `lha x /arc/a.lzh` on
   the bytes returns; EVERY operation of the run, the creation of the deferred links at the
   end included, resolved below the extraction directory; every symbolic link below it at the
   end is a described link at its own path with its own target.  The hypothesis
   no_link_through_safe of the whole-run theorem is discharged: in a tree with distinct
   names a link is a leaf (links_are_leaves); the headers the loop presents are the members'
   headers, parsed back from the bytes (presents_members).  The exit status is 0 or 1, not
   always 0: a deferred link whose directory was closed read-only cannot be made
   (exit_status_not_zero). *)
Theorem e2e_confined : forall mktime localtime strerror uid0 tnow mt ds,
  wf_descs_any uid0 ds -> N.of_nat (2 * dsizes ds) < 2 ^ 40 ->
  exists r, cli_run mktime localtime strerror uid0 tnow mt argv_x (archive_of ds) [] [] = Ok r /\
    (cr_exit r = 0 \/ cr_exit r = 1) /\
    (forall op, In op (fs_trace (cr_fs r)) -> below_op [bytes_root] op) /\
    (forall suf t, Fs.node_at (fs_root (cr_fs r)) (bytes_root :: suf) = Some (Link t) -> In (suf, t) (links_of_descs ds)).
Proof. exact P_CapConfine.e2e_confined. Qed.

Theorem e2e_confined_by_size : ltac:(let t := type of P_CapConfine.e2e_confined_by_size in exact t).
Proof. exact P_CapConfine.e2e_confined_by_size. Qed.
Theorem e2e_confined_members : ltac:(let t := type of P_CapConfine.e2e_confined_members in exact t).
Proof. exact P_CapConfine.e2e_confined_members. Qed.
(* a link member is a leaf: its path is a proper prefix of no member's path *)
Theorem links_are_leaves : ltac:(let t := type of P_CapConfine.links_are_leaves in exact t).
Proof. exact P_CapConfine.links_are_leaves. Qed.
Theorem no_link_through_safe_members : ltac:(let t := type of P_CapConfine.no_link_through_safe_members in exact t).
Proof. exact P_CapConfine.no_link_through_safe_members. Qed.
(* the headers the loop presents for archive_of ds are the members' headers *)
Theorem presents_members : ltac:(let t := type of P_CapConfine.presents_members in exact t).
Proof. exact P_CapConfine.presents_members. Qed.
Theorem cli_run_any : ltac:(let t := type of P_CapAnyRun.cli_run_any in exact t).
Proof. exact P_CapAnyRun.cli_run_any. Qed.
(* non-vacuity: d/, d/f, d/x -> ../../y, zz -> /outside, s -> d; and exit status 1 in a read-only directory *)
Theorem e2e_confined_example : ltac:(let t := type of P_CapConfineEx.ex3_theorem in exact t).
Proof. exact P_CapConfineEx.ex3_theorem. Qed.
Theorem e2e_confined_example_run : ltac:(let t := type of P_CapConfineEx.ex3_computed in exact t).
Proof. exact P_CapConfineEx.ex3_computed. Qed.
Theorem exit_status_not_zero : ltac:(let t := type of P_CapConfineEx.exit_status_not_zero in exact t).
Proof. exact P_CapConfineEx.exit_status_not_zero. Qed.

(* ---- CONFINEMENT DECIDED ON THE ARCHIVE BYTES (P_CliMembers, P_CliConfineBytes) ----
   stream_headers mktime strm: the headers plain iteration with the basic reader yields on the
   stream (lha_basic_reader_next_file until "no header"), a total function of the bytes.
   Every header the extraction loop obtains -- members, directories presented again, deferred
   links presented again -- is one of them (C15: what was done with a member does not change
   what follows), unless the overwrite prompt takes its answer from the archive stream itself
   (archive "-", policy "prompt": no_shared_prompt excludes it; stdin_prompt_refuted shows it
   must).  Hence the test of whole_run_confined_by_test can be evaluated on the bytes. *)
Theorem presents_are_stream_headers : forall mktime junk flt st0 strm hd,
  cs_reader st0 = lha_reader_new strm -> P_HeaderSafe.wf strm -> P_HeaderSafe.avail strm < 1099511627776 ->
  no_shared_prompt st0 ->
  presents mktime junk flt st0 hd -> In hd (stream_headers mktime strm).
Proof. exact P_CliMembers.presents_are_stream_headers. Qed.

Theorem stream_headers_spec : ltac:(let t := type of P_CliMembers.stream_headers_spec in exact t).
Proof. exact P_CliMembers.stream_headers_spec. Qed.
Theorem stream_headers_kind : ltac:(let t := type of P_CliConfineBytes.stream_headers_kind in exact t).
Proof. exact P_CliConfineBytes.stream_headers_kind. Qed.

Theorem confined_by_bytes : forall mktime junk (R : phys) (o0 : lha_options), good_w o0 ->
  forall (k : skind) (A : list N) (flt : lha_filter) (st0 : cli_state) (v : res bool) (st : cli_state),
  nlen A < 1099511627776 ->
  fs_cwd (cs_fs st0) = R -> no_links_below R (fs_root (cs_fs st0)) ->
  cs_opts st0 = o0 -> cs_reader st0 = lha_reader_new (lha_input_stream_new (mk_source k A)) ->
  no_shared_prompt st0 ->
  no_link_through_safe_b (map (msum o0) (stream_headers mktime (lha_input_stream_new (mk_source k A)))) = true ->
  extract_archive mktime junk flt st0 = Ok (v, st) ->
  exists new, fs_trace (cs_fs st) = new ++ fs_trace (cs_fs st0) /\ forall o, In o new -> below_op R o.
Proof. exact P_CliConfineBytes.confined_by_bytes. Qed.

Theorem confined_by_stream : ltac:(let t := type of P_CliConfineBytes.confined_by_stream in exact t).
Proof. exact P_CliConfineBytes.confined_by_stream. Qed.

(* the whole tool: any command line; the archive argument a file of the filesystem or "-" *)
Theorem lha_main_confined_by_bytes : ltac:(let t := type of P_CliConfineBytes.lha_main_confined_by_bytes in exact t).
Proof. exact P_CliConfineBytes.lha_main_confined_by_bytes. Qed.
Theorem cli_run_confined_by_bytes : ltac:(let t := type of P_CliConfineBytes.cli_run_confined_by_bytes in exact t).
Proof. exact P_CliConfineBytes.cli_run_confined_by_bytes. Qed.

(* `lha CMD /arc/a.lzh [file...]` in the clean test tree, ANY archive bytes A *)
Theorem cli_arc_confined_by_bytes : forall mktime localtime strerror uid0 now mt argv A stdin r mode o filters,
  parse_main (tl argv) = Some (mode, o, bytes_arc_path, filters) -> good_w o ->
  nlen A < 1099511627776 ->
  confinement_test mktime o (stream_of (mk_source KFile A)) = true ->
  cli_run mktime localtime strerror uid0 now mt argv A stdin [] = Ok r ->
  forall op, In op (fs_trace (cr_fs r)) -> below_op [bytes_root] op.
Proof. exact P_CliConfineBytes.cli_arc_confined_by_bytes. Qed.

(* the test evaluated: false on the F5 witness, true on d/, d/f, d/s -> f, d/x -> ../y, and the
   conclusion obtained from the theorem; the hypothesis on standard input is necessary *)
Theorem f5_test_false : ltac:(let t := type of P_CliConfineBytesEx.f5_test_false in exact t).
Proof. exact P_CliConfineBytesEx.f5_test_false. Qed.
Theorem example_test_true : ltac:(let t := type of P_CliConfineBytesEx.example_test_true in exact t).
Proof. exact P_CliConfineBytesEx.example_test_true. Qed.
Theorem example_confined : ltac:(let t := type of P_CliConfineBytesEx.example_confined in exact t).
Proof. exact P_CliConfineBytesEx.example_confined. Qed.
Theorem example_cli_confined_utc : ltac:(let t := type of P_CliConfineBytesEx.example_cli_confined_utc in exact t).
Proof. exact P_CliConfineBytesEx.example_cli_confined_utc. Qed.
Theorem example_cli_returns : ltac:(let t := type of P_CliConfineBytesEx.example_cli_returns in exact t).
Proof. exact P_CliConfineBytesEx.example_cli_returns. Qed.
Theorem stdin_prompt_refuted : ltac:(let t := type of P_CliConfineBytesEx.stdin_prompt_refuted in exact t).
Proof. exact P_CliConfineBytesEx.stdin_prompt_refuted. Qed.
Theorem dash_force_confined : ltac:(let t := type of P_CliConfineBytesEx.dash_force_confined in exact t).
Proof. exact P_CliConfineBytesEx.dash_force_confined. Qed.

Print Assumptions insert_deferred_keeps_longest_first.
Print Assumptions insert_deferred_adds_one.
Print Assumptions confinement_refuted.
Print Assumptions list_test_print_are_read_only.
Print Assumptions dry_run_is_read_only.
Print Assumptions read_only_commands_touch_nothing.
Print Assumptions dangerous_links_come_last.
Print Assumptions final_component_is_not_followed.
Print Assumptions confined_until_first_dangerous_link.
Print Assumptions extraction_paths_are_relative.
Print Assumptions deferred_prefix_is_shorter.
Print Assumptions linkfree_path_is_physical.
Print Assumptions no_safe_links_confined.
Print Assumptions whole_run_confined.
Print Assumptions whole_run_confined_initial_links.
Print Assumptions whole_run_confined_by_test.
Print Assumptions lha_main_confined_whole.
Print Assumptions lha_main_no_safe_links_confined.
Print Assumptions cli_run_confined_whole.
Print Assumptions presents_in_run_headers.
Print Assumptions late_phase_example.
Print Assumptions safe_link_example.
Print Assumptions initial_link_example.
Print Assumptions safe_initial_links_refuted.
Print Assumptions target_test_refuted.
Print Assumptions escape_fails_both_tests.
Print Assumptions escape_archive_is_f5.
Print Assumptions e2e_confined.
Print Assumptions e2e_confined_by_size.
Print Assumptions e2e_confined_members.
Print Assumptions links_are_leaves.
Print Assumptions no_link_through_safe_members.
Print Assumptions presents_members.
Print Assumptions cli_run_any.
Print Assumptions e2e_confined_example.
Print Assumptions e2e_confined_example_run.
Print Assumptions exit_status_not_zero.
Print Assumptions presents_are_stream_headers.
Print Assumptions stream_headers_spec.
Print Assumptions stream_headers_kind.
Print Assumptions confined_by_bytes.
Print Assumptions confined_by_stream.
Print Assumptions lha_main_confined_by_bytes.
Print Assumptions cli_run_confined_by_bytes.
Print Assumptions cli_arc_confined_by_bytes.
Print Assumptions f5_test_false.
Print Assumptions example_test_true.
Print Assumptions example_confined.
Print Assumptions example_cli_confined_utc.
Print Assumptions example_cli_returns.
Print Assumptions stdin_prompt_refuted.
Print Assumptions dash_force_confined.

(* Properties_C10.v -- C10: extraction never touches anything outside the
   extraction directory.  Statements over the model of the tool (CliMain.v,
   CliExtract.v, CliFilter.v on Reader.v and the filesystem model Fs.v), whose
   filesystem keeps the trace of every successful mutating operation with the
   physical location it resolved to.

   The confinement clause at full strength is FALSE of the faithful model and of
   the C (known finding, KNOWN_FINDINGS.txt): confinement_refuted below exhibits
   a 215-byte archive for which `lha xf` in a clean, link-free directory creates a
   symbolic link in /outside.  What holds and is proved: the deferred list is kept
   longest path first; the read-only commands are decided by the check (tree
   identical before and after on the real tool) until the theorem over the model
   is complete (P_CliSafe.v, in progress). *)
From Lhasa Require Import Base Generated Header Fs FsRun Reader CliExtract CliMain InputStream ListOut.
Local Open Scope N_scope.

(* ---- the deferred list: longest path first ---- *)
Fixpoint sorted_desc (l : list header) : Prop :=
  match l with
  | [] => True
  | x :: r => (match r with [] => True | y :: _ => file_header_path_len y <= file_header_path_len x end) /\ sorted_desc r
  end.

Theorem insert_deferred_keeps_longest_first : forall l h, sorted_desc l -> sorted_desc (insert_deferred l h).
Proof.
  induction l as [|x r IH]; intros h Hs.
  - cbn. split; exact I.
  - cbn [insert_deferred]. destruct (file_header_path_len h <? file_header_path_len x) eqn:E.
    + destruct Hs as [Hx Hr]. specialize (IH h Hr). cbn [sorted_desc]. split; [|exact IH].
      destruct r as [|y r'].
      * cbn. apply N.ltb_lt in E. apply N.lt_le_incl. exact E.
      * cbn [insert_deferred] in *. destruct (file_header_path_len h <? file_header_path_len y).
        -- exact Hx.
        -- apply N.ltb_lt in E. apply N.lt_le_incl. exact E.
    + cbn [sorted_desc]. split; [|exact Hs]. apply N.ltb_ge in E. exact E.
Qed.

(* every header of the list is still there, the new one is added once *)
Theorem insert_deferred_adds_one : forall l h, length (insert_deferred l h) = S (length l) /\ In h (insert_deferred l h).
Proof.
  induction l as [|x r IH]; intros h; cbn [insert_deferred].
  - split; [reflexivity|left; reflexivity].
  - destruct (file_header_path_len h <? file_header_path_len x).
    + destruct (IH h) as [L I]. split; [cbn; rewrite L; reflexivity|right; exact I].
    + split; [reflexivity|left; reflexivity].
Qed.

(* ---- the known finding, as a theorem about the model ---- *)
Definition outside_root (o : fsop) : bool :=
  let loc := match o with
             | OpMkdir l _ | OpCreate l | OpUnlink l | OpSymlink l _ | OpChmod l _ | OpChown l | OpUtime l _ | OpWrite l _ => l
             end in
  match loc with
  | n :: _ => negb (name_eqb n bytes_root)
  | [] => true
  end.

(* directory t/, link s -> t, link s/p -> /x, link uuuuuuuu -> /outside, link s -> uuuuuuuu *)
Definition escape_archive : list N :=
  [36;0;45;108;104;100;45;0;0;0;0;0;0;0;0;0;59;61;75;32;2;0;0;85;5;0;2;116;255;5;0;80;237;65;0;0;
   37;0;45;108;104;100;45;0;0;0;0;0;0;0;0;0;133;226;1;32;2;0;0;85;6;0;1;115;124;116;5;0;80;255;161;0;0;
   43;0;45;108;104;100;45;0;0;0;0;0;0;0;0;0;133;226;1;32;2;0;0;85;4;0;1;120;8;0;2;115;255;112;124;255;5;0;80;255;161;0;0;
   54;0;45;108;104;100;45;0;0;0;0;0;0;0;0;0;133;226;1;32;2;0;0;85;10;0;1;111;117;116;115;105;100;101;13;0;2;117;117;117;117;117;117;117;117;124;255;5;0;80;255;161;0;0;
   44;0;45;108;104;100;45;0;0;0;0;0;0;0;0;0;133;226;1;32;2;0;0;85;13;0;1;115;124;117;117;117;117;117;117;117;117;5;0;80;255;161;0;0;0].

Definition escape_argv : list (list N) :=
  [[108;104;97]; [120;102]; [47;97;114;99;47;97;46;108;122;104]].      (* lha xf /arc/a.lzh *)

Definition escape_run : outcome cli_result :=
  cli_run mktime_utc gmtime_utc (fun _ => []) false 1300000000 1200000000 escape_argv escape_archive [] [].

(* In a clean extraction directory without any symbolic link, extraction of this
   archive performs an operation that resolves outside the directory: the literal
   confinement clause does not hold. *)
Theorem confinement_refuted :
  exists r, escape_run = Ok r /\ existsb outside_root (fs_trace (cr_fs r)) = true.
Proof. eexists. split; [vm_compute; reflexivity|vm_compute; reflexivity]. Qed.

Print Assumptions insert_deferred_keeps_longest_first.
Print Assumptions insert_deferred_adds_one.
Print Assumptions confinement_refuted.

(* P_Pm1RtBits.v -- C04, -pm1- half, layer 1: the bit reader of the -pm1-
   decoder (it reads through read_callback_wrapper, which hands out zero
   bytes once the input has ended) over the list source.

     zeq p q            : the bit lists p and q agree up to trailing zero bits
     read_bits_wrap     : read_bits over the wrapper, 0 <= n <= 25, NEVER fails:
                          it returns the n-bit field at the front of the pending
                          bits continued with zero bits
     rdy s c bits       : the decoder's reader is well formed, the source is a
                          plain byte list and what is pending agrees with
                          [bits] up to trailing zeros
     pm1_read_bits_z    : reading an n-bit field v off rdy s c (nbits n v ++ rest)
     dvl_z              : decode_variable_length in the same form *)
From Lhasa Require Import Base ListN DecBase BitReader Loop Sweep PmaCommon Generated Pm1
  S_Larc S_Pm P_BitReader P_PmaCommon P_Pm1.
From Coq Require Import ZifyBool ZifyN ZifyNat.
Local Open Scope N_scope.

Ltac Zify.zify_post_hook ::= Z.div_mod_to_equations.

(* ------------------------------------------------------------------ *)
(* Agreement up to trailing zero bits                                  *)

Definition zeq (p q : list bool) : Prop :=
  exists a b, p ++ repeat false a = q ++ repeat false b.

Lemma zeq_refl p : zeq p p.
Proof. exists O, O. reflexivity. Qed.

Lemma zeq_sym p q : zeq p q -> zeq q p.
Proof. intros (a & b & E). exists b, a. symmetry. exact E. Qed.

Lemma repeat_add {A} (x : A) a b : repeat x (a + b) = repeat x a ++ repeat x b.
Proof. apply repeat_app. Qed.

Lemma repeat_comm {A} (x : A) a b : repeat x a ++ repeat x b = repeat x b ++ repeat x a.
Proof. rewrite <- !repeat_app. f_equal. lia. Qed.

Lemma zeq_trans p q r : zeq p q -> zeq q r -> zeq p r.
Proof.
  intros (a & b & E1) (c & d & E2). exists (a + c)%nat, (d + b)%nat.
  rewrite !repeat_add, !app_assoc, E1, <- app_assoc, repeat_comm, app_assoc, E2.
  rewrite <- !app_assoc. reflexivity.
Qed.

Lemma zeq_pad_r p k : zeq p (p ++ repeat false k).
Proof. exists k, O. rewrite !app_nil_r. reflexivity. Qed.

Lemma zeq_pad_l p k : zeq (p ++ repeat false k) p.
Proof. apply zeq_sym, zeq_pad_r. Qed.

Lemma zeq_app_l x p q : zeq p q -> zeq (x ++ p) (x ++ q).
Proof. intros (a & b & E). exists a, b. rewrite <- !app_assoc, E. reflexivity. Qed.

(* a common front can be taken off *)
Lemma zeq_take (x p q : list bool) : zeq p (x ++ q) -> nlen x <= nlen p ->
  firstn_N (nlen x) p = x /\ zeq (skipn_N (nlen x) p) q.
Proof.
  intros (a & b & E) Hl.
  assert (E1 : firstn_N (nlen x) (p ++ repeat false a) = firstn_N (nlen x) ((x ++ q) ++ repeat false b))
    by (rewrite E; reflexivity).
  assert (E2 : skipn_N (nlen x) (p ++ repeat false a) = skipn_N (nlen x) ((x ++ q) ++ repeat false b))
    by (rewrite E; reflexivity).
  rewrite firstn_N_app_l in E1 by exact Hl.
  rewrite <- app_assoc, (firstn_N_app_l (nlen x) x), (firstn_N_all (nlen x) x) in E1 by lia.
  rewrite skipn_N_app_l in E2 by exact Hl.
  rewrite <- app_assoc, (skipn_N_app_l (nlen x) x) in E2 by lia.
  replace (skipn_N (nlen x) x) with (@nil bool) in E2 by (symmetry; apply skipn_N_nil_iff; lia).
  split; [exact E1|]. exists a, b. exact E2.
Qed.

(* ------------------------------------------------------------------ *)
(* The wrapper over the list source                                    *)

Notation W := (read_callback_wrapper src_cb).

Lemma wrapper_src_empty s n : src_chunks s = [] -> src_data s = [] ->
  W s n = (repeat 0 (N.to_nat n), s).
Proof.
  intros Hc Hd. unfold read_callback_wrapper. rewrite src_cb_full by exact Hc.
  rewrite Hd, firstn_N_nil, skipn_N_nil. destruct s as [d ch]. cbn [src_data src_chunks] in *. subst.
  reflexivity.
Qed.

Lemma wrapper_src_some s n : src_chunks s = [] -> firstn_N n (src_data s) <> [] ->
  W s n = (firstn_N n (src_data s), {| src_data := skipn_N n (src_data s); src_chunks := [] |}).
Proof.
  intros Hc Hd. unfold read_callback_wrapper. rewrite src_cb_full by exact Hc.
  destruct (firstn_N n (src_data s)) as [|b r]; [congruence|reflexivity].
Qed.

Lemma bytes_bits_zeros k : bytes_bits (repeat 0 k) = repeat false (8 * k).
Proof.
  induction k as [|k IH]; [reflexivity|].
  cbn [repeat]. rewrite bytes_bits_cons, IH.
  replace (8 * S k)%nat with (8 + 8 * k)%nat by lia. rewrite repeat_add. reflexivity.
Qed.

Lemma Forall_zeros k : Forall (fun b => b < 256) (repeat 0 k).
Proof. apply Forall_forall. intros x Hx. apply repeat_spec in Hx. subst. lia. Qed.

Lemma nlen_repeat_b {A} (x : A) m : nlen (repeat x m) = N.of_nat m.
Proof. unfold nlen. rewrite repeat_length. reflexivity. Qed.

(* the input has ended: one round of zero bytes is enough *)
Lemma peek_fill_wrap_empty f r s n bl : holds r bl -> src_chunks s = [] -> src_data s = [] ->
  bits r < n -> n <= 25 ->
  exists r' j, peek_fill W (S (S f)) r s n = Ok (true, r', s) /\ holds r' (bl ++ repeat false j) /\
    n <= nlen (bl ++ repeat false j).
Proof.
  intros Hh Hc Hd Hlt Hn. pose proof Hh as (Hl & Hl32 & _).
  rewrite peek_fill_eq. destruct (N.ltb_spec (bits r) n) as [_|]; [|lia].
  cbv zeta. rewrite wrapper_src_empty by assumption.
  set (fill := (32 - bits r) / 8).
  assert (Hfill : 1 <= fill /\ fill <= 4 /\ 8 * fill <= 32 - bits r /\ 24 < bits r + 8 * fill) by (unfold fill; lia).
  set (bs := repeat 0 (N.to_nat fill)).
  assert (Hbs : nlen bs = fill) by (unfold bs; rewrite nlen_repeat_b; lia).
  destruct (fill_bytes_loop_ok bs r 0) as (r1 & E1 & Eb1 & Hok1);
    [apply bsr_wf_ok; exact (holds_wf r bl Hh)|lia|lia|].
  assert (Hh1 : holds r1 (bl ++ bytes_bits bs)).
  { eapply fill_bytes_loop_holds; [exact Hh|lia|apply Forall_zeros|exact E1]. }
  unfold bs in Hh1. rewrite bytes_bits_zeros in Hh1.
  destruct bs as [|b0 bs0] eqn:Ebs; [rewrite nlen_nil in Hbs; lia|]. rewrite <- Ebs in *.
  cbv iota beta. rewrite E1. cbn [bind].
  rewrite peek_fill_enough by lia.
  exists r1, (8 * N.to_nat fill)%nat. split; [reflexivity|]. split; [exact Hh1|].
  destruct Hh1 as (Hl1 & _). lia.
Qed.

(* the refill loop over the wrapper always succeeds (n <= 25); what it
   buffers is the pending bits, continued with zero bits if they ran out *)
Lemma peek_fill_wrap r s n bl : holds r bl -> src_ok s -> n <= 25 ->
  exists r' s' bl' j, peek_fill W 6 r s n = Ok (true, r', s') /\ holds r' bl' /\ src_ok s' /\
    bl' ++ bytes_bits (src_data s') = (bl ++ bytes_bits (src_data s)) ++ repeat false j /\
    n <= nlen bl'.
Proof.
  intros Hh [Hc Hby] Hn.
  destruct (N.le_gt_cases n (bits r)) as [Hge|Hlt].
  { exists r, s, bl, O. rewrite peek_fill_enough by exact Hge.
    split; [reflexivity|]. split; [exact Hh|]. split; [split; assumption|].
    split; [rewrite app_nil_r; reflexivity|]. destruct Hh as (Hl & _). lia. }
  destruct (src_data s) as [|d ds] eqn:Ed.
  { destruct (peek_fill_wrap_empty 4 r s n bl Hh Hc Ed Hlt Hn) as (r' & j & E & Hh' & Hl').
    exists r', s, (bl ++ repeat false j), j. split; [exact E|]. split; [exact Hh'|].
    split; [split; [exact Hc|rewrite Ed; constructor]|]. rewrite Ed, bytes_bits_nil, !app_nil_r.
    split; [reflexivity|exact Hl']. }
  rewrite <- Ed in *.
  pose proof Hh as (Hl & Hl32 & _).
  rewrite peek_fill_eq. destruct (N.ltb_spec (bits r) n) as [_|]; [|lia].
  cbv zeta.
  set (fill := (32 - bits r) / 8).
  assert (Hdl : 1 <= nlen (src_data s)) by (rewrite Ed, nlen_cons; lia).
  assert (Hfill : 1 <= fill /\ fill <= 4 /\ 8 * fill <= 32 - bits r /\ 24 < bits r + 8 * fill) by (unfold fill; lia).
  set (bs := firstn_N fill (src_data s)). set (rest := skipn_N fill (src_data s)).
  assert (Hbs : nlen bs = N.min fill (nlen (src_data s))) by apply nlen_firstn_N.
  assert (Hrest : nlen rest = nlen (src_data s) - fill) by apply nlen_skipn_N.
  assert (Hsplit : bs ++ rest = src_data s) by apply firstn_skipn_N.
  assert (Hne : bs <> []).
  { intros X. rewrite X, nlen_nil in Hbs. lia. }
  rewrite wrapper_src_some by assumption. fold bs. fold rest.
  assert (Hbsby : Forall (fun b => b < 256) bs) by (apply Forall_firstn_N; exact Hby).
  assert (Hrestby : Forall (fun b => b < 256) rest) by (apply Forall_skipn_N; exact Hby).
  destruct (fill_bytes_loop_ok bs r 0) as (r1 & E1 & Eb1 & Hok1);
    [apply bsr_wf_ok; exact (holds_wf r bl Hh)|lia|lia|].
  assert (Hh1 : holds r1 (bl ++ bytes_bits bs)).
  { eapply fill_bytes_loop_holds; [exact Hh|lia|exact Hbsby|exact E1]. }
  assert (Epend : (bl ++ bytes_bits bs) ++ bytes_bits rest = bl ++ bytes_bits (src_data s)).
  { rewrite <- app_assoc, <- bytes_bits_app, Hsplit. reflexivity. }
  cbv iota beta.
  destruct bs as [|b0 bs0] eqn:Ebs; [congruence|]. rewrite <- Ebs in *.
  rewrite E1. cbn [bind].
  set (s1 := {| src_data := rest; src_chunks := [] |}).
  destruct (N.le_gt_cases n (bits r1)) as [Hge1|Hlt1].
  - exists r1, s1, (bl ++ bytes_bits bs), O. rewrite peek_fill_enough by exact Hge1.
    split; [reflexivity|]. split; [exact Hh1|]. split; [split; [reflexivity|exact Hrestby]|].
    cbn [s1 src_data]. rewrite app_nil_r. split; [exact Epend|]. destruct Hh1 as (Hl1 & _). lia.
  - assert (Er : rest = []) by (apply nlen_zero_nil; lia).
    destruct (peek_fill_wrap_empty 3 r1 s1 n (bl ++ bytes_bits bs) Hh1 eq_refl Er Hlt1 Hn) as (r' & j & E & Hh' & Hl').
    exists r', s1, ((bl ++ bytes_bits bs) ++ repeat false j), j. split; [exact E|]. split; [exact Hh'|].
    split; [split; [reflexivity|exact Hrestby]|].
    cbn [s1 src_data]. rewrite <- Epend, Er, bytes_bits_nil, !app_nil_r. split; [reflexivity|exact Hl'].
Qed.

(* read_bits over the wrapper: the field at the front of what is pending *)
Theorem read_bits_wrap r s n v rest : bsr_wf r -> src_ok s -> N.of_nat n <= 25 -> v < 2 ^ N.of_nat n ->
  zeq (pending r s) (bits_of n v ++ rest) ->
  exists r' s', read_bits W r s (N.of_nat n) = Ok (Some v, r', s') /\
    bsr_wf r' /\ src_ok s' /\ zeq (pending r' s') rest.
Proof.
  intros Hwf Hs Hn Hv Hz. pose proof (wf_holds r Hwf) as Hh. set (bl := buf_bits r) in *.
  rewrite (pending_holds r s bl Hh) in Hz.
  unfold read_bits, peek_bits. destruct (N.eqb_spec (N.of_nat n) 0) as [E0|Hn0].
  - assert (n = O) by lia. subst n. cbn [bits_of app] in Hz. cbn [bind]. change (N.of_nat 0) with 0.
    destruct (consume_holds r bl 0 Hh) as [Hh' _]; [lia|]. rewrite skipn_N_0 in Hh'.
    change (2 ^ N.of_nat 0) with 1 in Hv. assert (v = 0) by lia. subst v.
    eexists _, s. split; [reflexivity|]. split; [exact (holds_wf _ _ Hh')|]. split; [exact Hs|].
    rewrite (pending_holds _ s bl Hh'). exact Hz.
  - destruct (peek_fill_wrap r s (N.of_nat n) bl Hh Hs Hn) as (r1 & s1 & bl1 & j & E & Hh1 & Hs1 & Ep & Ht).
    rewrite E. cbn [bind].
    destruct (consume_holds r1 bl1 (N.of_nat n) Hh1 Ht) as [Hh' Ev]. rewrite Ev.
    assert (Hz1 : zeq (bl1 ++ bytes_bits (src_data s1)) (bits_of n v ++ rest)).
    { rewrite Ep. eapply zeq_trans; [apply zeq_pad_l|exact Hz]. }
    destruct (zeq_take (bits_of n v) _ rest Hz1) as [Ef Et].
    { rewrite nlen_bits_of, nlen_app. lia. }
    rewrite nlen_bits_of in Ef, Et.
    rewrite firstn_N_app_l in Ef by exact Ht. rewrite skipn_N_app_l in Et by exact Ht.
    rewrite Ef, val_bits_of_small by exact Hv.
    assert (V : v < 2147483648).
    { assert (2 ^ N.of_nat n <= 2 ^ 25) by (apply N.pow_le_mono_r; lia).
      change (2 ^ 25) with 33554432 in *. lia. }
    destruct (N.ltb_spec v 2147483648) as [_|]; [|lia].
    eexists _, s1. split; [reflexivity|]. split; [exact (holds_wf _ _ Hh')|]. split; [exact Hs1|].
    rewrite (pending_holds _ s1 _ Hh'). exact Et.
Qed.

(* ------------------------------------------------------------------ *)
(* Decoder-state form                                                  *)

(* s' differs from s in the bit reader only *)
Definition beq (s s' : pm1_state) : Prop :=
  pm1_output_stream_pos s' = pm1_output_stream_pos s /\
  pm1_byte_decode_tree s' = pm1_byte_decode_tree s /\
  pm1_ringbuf s' = pm1_ringbuf s /\ pm1_ringbuf_pos s' = pm1_ringbuf_pos s /\
  pm1_history_list s' = pm1_history_list s.

Lemma beq_refl s : beq s s.
Proof. repeat split. Qed.

Lemma beq_trans a b c : beq a b -> beq b c -> beq a c.
Proof. unfold beq. intuition congruence. Qed.

Lemma beq_set_bsr s r : beq s (pm1_set_bsr s r).
Proof. repeat split. Qed.

Definition rdy (s : pm1_state) (c : src) (bl : list bool) : Prop :=
  bsr_wf (pm1_bsr s) /\ src_ok c /\ zeq (pending (pm1_bsr s) c) bl.

Lemma rdy_zeq s c p q : rdy s c p -> zeq p q -> rdy s c q.
Proof. intros (A & B & C) H. split; [exact A|]. split; [exact B|]. eapply zeq_trans; eassumption. Qed.

Lemma rdy_pad s c p k : rdy s c p -> rdy s c (p ++ repeat false k).
Proof. intros H. eapply rdy_zeq; [exact H|apply zeq_pad_r]. Qed.

Lemma pm1_read_bits_z s (c : src) n v rest : rdy s c (nbits n v ++ rest) -> n <= 25 -> v < 2 ^ n ->
  exists s' c', pm1_read_bits src_cb s c n = Ok (Some v, s', c') /\ beq s s' /\ rdy s' c' rest.
Proof.
  intros (A & B & C) Hn Hv. unfold pm1_read_bits. unfold nbits in C.
  destruct (read_bits_wrap (pm1_bsr s) c (N.to_nat n) v rest A B) as (r' & c' & E & A' & B' & C');
    [lia|rewrite N2Nat.id; exact Hv|exact C|].
  rewrite N2Nat.id in E. rewrite E. cbn [bind].
  exists (pm1_set_bsr s r'), c'. split; [reflexivity|]. split; [apply beq_set_bsr|].
  split; [exact A'|]. split; [exact B'|exact C'].
Qed.

Lemma pm1_read_bit_z s (c : src) b rest : rdy s c (b :: rest) ->
  exists s' c', pm1_read_bit src_cb s c = Ok (Some (N.b2n b), s', c') /\ beq s s' /\ rdy s' c' rest.
Proof.
  intros H. unfold pm1_read_bit. apply (pm1_read_bits_z s c 1 (N.b2n b) rest); [|lia|destruct b; cbn; lia].
  destruct b; exact H.
Qed.

(* decode_variable_length over the wrapper *)
Lemma dvl_z (tbl : vltable) s (c : src) idx base w v rest :
  idx < alen (vl_bits tbl) -> idx < alen (vl_offset tbl) ->
  aget (vl_offset tbl) idx = base -> aget (vl_bits tbl) idx = w -> w <= 25 -> v < 2 ^ w ->
  rdy s c (nbits w v ++ rest) ->
  exists r' c', decode_variable_length W tbl (pm1_bsr s) c idx = Ok (Some (base + v), r', c') /\
    rdy (pm1_set_bsr s r') c' rest.
Proof.
  intros H1 H2 Eb Ew Hw Hv (A & B & C). unfold decode_variable_length.
  rewrite rd_ok by exact H1. cbn [bind]. rewrite Ew. unfold nbits in C.
  destruct (read_bits_wrap (pm1_bsr s) c (N.to_nat w) v rest A B) as (r' & c' & E & A' & B' & C');
    [lia|rewrite N2Nat.id; exact Hv|exact C|].
  rewrite N2Nat.id in E. rewrite E. cbn [bind]. cbv beta iota.
  rewrite rd_ok by exact H2. cbn [bind]. rewrite Eb.
  exists r', c'. split; [reflexivity|]. split; [exact A'|]. split; [exact B'|exact C'].
Qed.

Print Assumptions read_bits_wrap.
Print Assumptions pm1_read_bits_z.
Print Assumptions dvl_z.

(* Properties_C14.v -- C14: decoder reads are split-invariant, stop exactly at
   the declared length, and report faithful length and CRC.
   Statements only; proofs are in P_Decoder.v (model: Decoder.v). *)
From Lhasa Require Import Base ListN DecBase Crc16 P_Crc16 Generated Decoder P_Decoder P_DecoderInv P_Progress.
Local Open Scope N_scope.

Section C14.
  Context {cbs st : Type}.
  (* any inner decoder (the LHADecoderType read function), any input callback state *)
  Variable dread : st -> cbs -> outcome (list N * st * cbs).
  Variable max_read block_size : N.
  (* the inner decoder returns, and its chunk fits the output buffer of max_read bytes
     (discharged per decoder by the C09 theorems) *)
  Hypothesis Hd : dread_total dread max_read.

  Notation fresh inner c L := (lha_decoder_new inner c L).
  Notation reads := (run_reads dread max_read block_size).
  Notation read := (lha_decoder_read dread max_read block_size).

  (* Every sequence of read sizes (zeros allowed) returns, in pieces, exactly what
     one read of the total size returns, and leaves the decoder in the same state.
     In particular no read runs out of fuel or faults. *)
  Theorem reads_are_one_read : forall ks inner c L, sum_N ks < 2 ^ 62 ->
    exists os d', reads (fresh inner c L) ks = Ok (os, d') /\
                  read (fresh inner c L) (sum_N ks) = Ok (concat os, [], d').
  Proof.
    intros ks inner c L Hs.
    destruct (reads_compose_proof dread max_read block_size Hd ks (fresh inner c L)) as (os & d' & A & B & _);
      [unfold pos_ok; cbn; lia|reflexivity|exact Hs|]. eauto.
  Qed.

  (* Split invariance: two schedules asking for the same total get the same bytes
     and end in the same decoder state. *)
  Theorem split_invariant : forall ks1 ks2 inner c L os1 d1 os2 d2,
    sum_N ks1 = sum_N ks2 -> sum_N ks1 < 2 ^ 62 ->
    reads (fresh inner c L) ks1 = Ok (os1, d1) -> reads (fresh inner c L) ks2 = Ok (os2, d2) ->
    concat os1 = concat os2 /\ d1 = d2.
  Proof.
    intros ks1 ks2 inner c L os1 d1 os2 d2 Es Hs R1 R2.
    destruct (reads_are_one_read ks1 inner c L Hs) as (a1 & b1 & A1 & B1).
    destruct (reads_are_one_read ks2 inner c L ltac:(congruence)) as (a2 & b2 & A2 & B2).
    rewrite R1 in A1. rewrite R2 in A2. inversion A1; inversion A2; subst.
    rewrite Es in B1. rewrite B1 in B2. inversion B2. auto.
  Qed.

  (* Never past the declared length; reported length and CRC are those of the
     bytes returned. *)
  Theorem length_and_crc_faithful : forall ks inner c L os d',
    sum_N ks < 2 ^ 62 -> reads (fresh inner c L) ks = Ok (os, d') ->
    nlen (concat os) <= L /\
    lha_decoder_get_length d' = nlen (concat os) /\
    lha_decoder_get_crc d' = lha_crc16_buf 0 (concat os) /\
    (Forall (fun b => b < 256) (concat os) -> lha_decoder_get_crc d' = crc_bitwise 0 (concat os)).
  Proof.
    intros ks inner c L os d' Hs R.
    destruct (reads_length_crc_proof dread max_read block_size Hd ks (fresh inner c L) os d') as (A & B & C & D);
      [unfold pos_ok; cbn; lia|reflexivity|exact Hs|exact R|].
    cbn in A, B, C, D. unfold lha_decoder_get_length, lha_decoder_get_crc.
    split; [lia|]. split; [lia|]. split; [exact B|].
    intros Hb. rewrite B. apply crc16_is_arc_proof; [lia|exact Hb].
  Qed.

  (* Once the declared length has been delivered, a read returns nothing and does
     not touch the inner decoder or the input. *)
  Theorem stops_at_declared_length : forall (d : decoder) n,
    d_stream_pos d = d_stream_length d -> d_monitor d = false -> n < 2 ^ 62 ->
    read d n = Ok ([], [], d).
  Proof. exact (read_at_end_proof dread max_read block_size Hd). Qed.

  (* No read returns more than asked (also with a monitor attached). *)
  Theorem read_at_most_asked : forall (d : decoder) n o ev d',
    d_stream_pos d <= d_stream_length d -> n < 2 ^ 62 -> read d n = Ok (o, ev, d') -> nlen o <= n.
  Proof. exact (read_at_most_asked_proof dread max_read block_size Hd). Qed.
End C14.

(* The same statements for inner decoders that return normally only in states
   satisfying an invariant I that they preserve (every real decoder: ring sizes,
   positions, closed trees ...).  I := fun _ => True gives the statements above. *)
Section C14_inv.
  Context {cbs st : Type}.
  Variable dread : st -> cbs -> outcome (list N * st * cbs).
  Variable max_read block_size : N.
  Variable I : st -> Prop.
  Hypothesis Htot : forall s c, I s ->
    exists ch s' c', dread s c = Ok (ch, s', c') /\ nlen ch <= max_read /\ I s'.

  Theorem reads_are_one_read_I : forall ks s c L, I s -> sum_N ks < 2 ^ 62 ->
    exists os d', run_reads dread max_read block_size (lha_decoder_new s c L) ks = Ok (os, d') /\
                  lha_decoder_read dread max_read block_size (lha_decoder_new s c L) (sum_N ks) = Ok (concat os, [], d').
  Proof. exact (reads_are_one_read_inv dread max_read block_size I Htot). Qed.

  Theorem split_invariant_I : forall ks1 ks2 s c L os1 d1 os2 d2, I s ->
    sum_N ks1 = sum_N ks2 -> sum_N ks1 < 2 ^ 62 ->
    run_reads dread max_read block_size (lha_decoder_new s c L) ks1 = Ok (os1, d1) ->
    run_reads dread max_read block_size (lha_decoder_new s c L) ks2 = Ok (os2, d2) ->
    concat os1 = concat os2 /\ d1 = d2.
  Proof. exact (split_invariant_inv dread max_read block_size I Htot). Qed.

  Theorem length_and_crc_faithful_I : forall ks s c L os d', I s ->
    sum_N ks < 2 ^ 62 -> run_reads dread max_read block_size (lha_decoder_new s c L) ks = Ok (os, d') ->
    nlen (concat os) <= L /\
    lha_decoder_get_length d' = nlen (concat os) /\
    lha_decoder_get_crc d' = lha_crc16_buf 0 (concat os) /\
    (Forall (fun b => b < 256) (concat os) -> lha_decoder_get_crc d' = crc_bitwise 0 (concat os)).
  Proof. exact (length_and_crc_faithful_inv dread max_read block_size I Htot). Qed.

  Theorem stops_at_declared_length_I : forall (d : decoder) n, I (d_inner d) ->
    d_stream_pos d = d_stream_length d -> d_monitor d = false -> n < 2 ^ 62 ->
    lha_decoder_read dread max_read block_size d n = Ok ([], [], d).
  Proof. exact (stops_at_declared_length_inv dread max_read block_size I Htot). Qed.
End C14_inv.

(* --- the progress monitor (proofs: P_Progress.v) ---
   blk p = ceil(p / block_size) as the C computes it; upto b T = [(0,T); ...; (b,T)];
   run_reads_ev = run_reads keeping the (block, total) calls made during every read. *)
Section C14_progress.
  Context {cbs st : Type}.
  Variable dread : st -> cbs -> outcome (list N * st * cbs).
  Variable max_read block_size : N.
  Variable I : st -> Prop.
  Hypothesis Htot : forall s c, I s ->
    exists ch s' c', dread s c = Ok (ch, s', c') /\ nlen ch <= max_read /\ I s'.

  (* any two read schedules with the same total (zero-length reads included) make the
     same monitor calls, return the same bytes and end in the same decoder, wherever the
     monitor was attached *)
  Theorem progress_split_invariant : forall ks1 ks2 (d : @decoder cbs st) os1 evs1 d1 os2 evs2 d2, I (d_inner d) ->
    d_stream_pos d <= d_stream_length d -> mon_ok block_size d -> blocks_fit block_size d ->
    sum_N ks1 = sum_N ks2 -> sum_N ks1 < 2 ^ 62 ->
    run_reads_ev dread max_read block_size d ks1 = Ok (os1, evs1, d1) ->
    run_reads_ev dread max_read block_size d ks2 = Ok (os2, evs2, d2) ->
    concat os1 = concat os2 /\ concat evs1 = concat evs2 /\ d1 = d2.
  Proof. exact (events_split_invariant_I dread max_read block_size I Htot). Qed.

  (* monitor attached at the beginning: the calls are (0,T) (made by lha_decoder_monitor
     itself), (1,T), ... one by one up to the block of the position reached, and up to
     (T,T) exactly when the stream decodes completely; T = ceil(L / block_size) *)
  Theorem progress_counts_up : forall ks inner c L, I inner ->
    blk block_size L < 4294967295 -> sum_N ks < 2 ^ 62 ->
    exists d1 os evs d2,
      lha_decoder_monitor block_size (lha_decoder_new inner c L : @decoder cbs st) = (d1, [(0, blk block_size L)]) /\
      d_total_blocks d1 = blk block_size L /\
      run_reads_ev dread max_read block_size d1 ks = Ok (os, evs, d2) /\
      [(0, blk block_size L)] ++ concat evs = upto (blk block_size (nlen (concat os))) (blk block_size L) /\
      (d_stream_pos d2 = L -> [(0, blk block_size L)] ++ concat evs = upto (blk block_size L) (blk block_size L)) /\
      d_stream_pos d2 = nlen (concat os) /\ nlen (concat os) <= L.
  Proof. exact (events_count_up_I dread max_read block_size I Htot). Qed.
End C14_progress.

(* every block size of the decoder table is at least 2048 (so blk is the ceiling) *)
Theorem block_sizes_positive :
  Forall (fun b => 2048 <= b)
    [decoder_block_size_0; decoder_block_size_1; decoder_block_size_2; decoder_block_size_3;
     decoder_block_size_4; decoder_block_size_5; decoder_block_size_6; decoder_block_size_7;
     decoder_block_size_8; decoder_block_size_9; decoder_block_size_10; decoder_block_size_11;
     decoder_block_size_12; decoder_block_size_13] /\ decoders_count = 14.
Proof. exact table_block_sizes_positive. Qed.

Print Assumptions reads_are_one_read_I.
Print Assumptions split_invariant_I.
Print Assumptions length_and_crc_faithful_I.
Print Assumptions stops_at_declared_length_I.
Print Assumptions reads_are_one_read.
Print Assumptions split_invariant.
Print Assumptions length_and_crc_faithful.
Print Assumptions stops_at_declared_length.
Print Assumptions read_at_most_asked.
Print Assumptions progress_split_invariant.
Print Assumptions progress_counts_up.
Print Assumptions block_sizes_positive.

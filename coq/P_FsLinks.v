(* P_FsLinks.v -- C10, the filesystem side of LATE-PHASE confinement (Fs.v / FsRun.v).

   P_FsConfine follows a path through SAFE links.  Once the first dangerous link
   exists that argument is gone; what remains true is simpler: a relative path
   without ".." whose walk meets NO symbolic link before its final component is
   resolved purely physically -- the parent directory it ends in is
       cwd ++ (the components of the path, "." dropped, without the last one).
   This file provides
     - [ltree Q loc n]: every symbolic link in the tree n (standing at location loc)
       satisfies Q at its own location (all entries of a directory are looked at,
       also entries shadowed by an earlier entry of the same name);
       [gtree Q root] is the whole tree;
     - [keeps s s']: same current directory, and no new symbolic link: every Q that
       held of the links of s holds of the links of s'.  mkdir, unlink, open, write,
       chmod, chown, utime keep; symlink keeps Q when the new link satisfies Q at
       the location it is logged with;
     - [walk_phys] / [resolve_phys]: the physical resolution above;
     - the three operations the final phase of an extraction performs (mkdir,
       unlink, symlink) log a location below cwd when no link stands at a proper
       prefix of the path. *)
From Lhasa Require Import Base Fs FsRun Reader P_CliOrder P_FsConfine.
From Coq Require Import Lia.
Local Open Scope N_scope.

(* ------------------------------------------------------------------ *)
(* links and their locations                                            *)

Fixpoint ltree (Q : phys -> list N -> Prop) (loc : phys) (n : node) : Prop :=
  match n with
  | Dir _ _ _ ents =>
    (fix go (l : list (name * node)) : Prop :=
       match l with [] => True | kv :: r => ltree Q (loc ++ [fst kv]) (snd kv) /\ go r end) ents
  | File _ _ _ _ => True
  | Link t => Q loc t
  end.

Definition lents (Q : phys -> list N -> Prop) (loc : phys) (l : list (name * node)) : Prop :=
  Forall (fun kv => ltree Q (loc ++ [fst kv]) (snd kv)) l.

Lemma ltree_dir Q loc o p t ents : ltree Q loc (Dir o p t ents) <-> lents Q loc ents.
Proof.
  cbn [ltree]. induction ents as [|kv r IH].
  - split; intros _; [constructor|exact I].
  - split.
    + intros [A B]. constructor; [exact A|]. apply IH. exact B.
    + intros H. inversion H as [|? ? A B]; subst. split; [exact A|]. apply IH. exact B.
Qed.

Lemma lookup_l Q loc ents c m : lents Q loc ents -> lookup ents c = Some m -> ltree Q (loc ++ [c]) m.
Proof.
  induction ents as [|[k v] r IH]; intros H E; [discriminate|].
  inversion H as [|? ? A B]; subst. cbn [lookup] in E. destruct (name_eqb k c) eqn:Ek.
  - injection E as <-. apply name_eqb_eq in Ek. subst c. exact A.
  - apply IH; assumption.
Qed.

Lemma set_ent_l Q loc ents c v : lents Q loc ents -> ltree Q (loc ++ [c]) v -> lents Q loc (set_ent ents c v).
Proof.
  intros H Hv. unfold set_ent. destruct (lookup ents c).
  - unfold lents in *. rewrite Forall_map. eapply Forall_impl; [|exact H].
    intros [k w] Hw. cbn [fst snd] in *. destruct (name_eqb k c); [exact Hv|exact Hw].
  - apply Forall_app. split; [exact H|]. constructor; [exact Hv|constructor].
Qed.

Lemma remove_ent_l Q loc ents c : lents Q loc ents -> lents Q loc (remove_ent ents c).
Proof.
  induction ents as [|[k w] r IH]; intros H; [constructor|].
  inversion H as [|? ? A B]; subst. cbn [remove_ent]. destruct (name_eqb k c); [exact B|].
  constructor; [exact A|apply IH; exact B].
Qed.

(* Q may be weakened *)
Lemma ltree_weaken (Q Q' : phys -> list N -> Prop) (H : forall loc t, Q loc t -> Q' loc t) :
  forall n loc, ltree Q loc n -> ltree Q' loc n.
Proof.
  fix IH 1. intros [o p t ents|o p t d|t] loc.
  - cbn [ltree]. induction ents as [|[k v] r IHr]; [intros _; exact I|].
    intros [A B]. split; [apply IH; exact A|apply IHr; exact B].
  - intros _. exact I.
  - cbn [ltree]. apply H.
Qed.

(* a function on optional nodes whose result, put at location L, satisfies Q if its argument did *)
Definition fgoodl (Q : phys -> list N -> Prop) (L : phys) (f : option node -> option node) : Prop :=
  forall o y, (forall x, o = Some x -> ltree Q L x) -> f o = Some y -> ltree Q L y.

Lemma update_at_l Q f : forall path base n, fgoodl Q (base ++ path) f -> ltree Q base n ->
  ltree Q base (update_at n path f).
Proof.
  induction path as [|c r IH]; intros base n Hf Hn.
  - rewrite app_nil_r in Hf. cbn [update_at]. destruct (f (Some n)) as [m|] eqn:E; [|exact Hn].
    eapply Hf; [|exact E]. intros x Hx. injection Hx as <-. exact Hn.
  - destruct r as [|c' r'].
    + cbn [update_at]. destruct n as [o p t ents| |]; try exact Hn.
      apply ltree_dir in Hn.
      destruct (f (lookup ents c)) as [m|] eqn:E; apply ltree_dir.
      * apply set_ent_l; [exact Hn|]. eapply Hf; [|exact E]. intros x Hx. eapply lookup_l; eauto.
      * apply remove_ent_l. exact Hn.
    + change (update_at n (c :: c' :: r') f) with
        (match n with
         | Dir o p t ents => match lookup ents c with
                             | Some m => Dir o p t (set_ent ents c (update_at m (c' :: r') f))
                             | None => n
                             end
         | _ => n
         end).
      destruct n as [o p t ents| |]; try exact Hn.
      destruct (lookup ents c) as [m|] eqn:E; [|exact Hn].
      apply ltree_dir in Hn. apply ltree_dir. apply set_ent_l; [exact Hn|].
      apply IH; [|eapply lookup_l; eauto].
      rewrite <- app_assoc. exact Hf.
Qed.

(* what a link found by node_at satisfies *)
Lemma ltree_node_at Q : forall loc base n t, ltree Q base n -> node_at n loc = Some (Link t) -> Q (base ++ loc) t.
Proof.
  induction loc as [|c r IH]; intros base n t H E.
  - injection E as ->. rewrite app_nil_r. exact H.
  - cbn [node_at] in E. destruct n as [o p tt ents| |]; try discriminate.
    destruct (lookup ents c) as [m|] eqn:El; [|discriminate].
    apply ltree_dir in H. pose proof (lookup_l Q base ents c m H El) as Hm.
    specialize (IH (base ++ [c]) m t Hm E). rewrite <- app_assoc in IH. exact IH.
Qed.

Definition gtree (Q : phys -> list N -> Prop) (root : node) : Prop := ltree Q [] root.

Lemma gtree_node_at Q root loc t : gtree Q root -> node_at root loc = Some (Link t) -> Q loc t.
Proof. intros H E. exact (ltree_node_at Q loc [] root t H E). Qed.

Lemma gtree_weaken (Q Q' : phys -> list N -> Prop) root :
  (forall loc t, Q loc t -> Q' loc t) -> gtree Q root -> gtree Q' root.
Proof. intros H. apply ltree_weaken. exact H. Qed.

(* the links of a tree with their locations: [gtree Q] can be checked link by link *)
Fixpoint links_of (loc : phys) (n : node) : list (phys * list N) :=
  match n with
  | Dir _ _ _ ents =>
    (fix go (l : list (name * node)) : list (phys * list N) :=
       match l with [] => [] | kv :: r => links_of (loc ++ [fst kv]) (snd kv) ++ go r end) ents
  | File _ _ _ _ => []
  | Link t => [(loc, t)]
  end.

Lemma ltree_of_links (Q : phys -> list N -> Prop) :
  forall n loc, (forall l t, In (l, t) (links_of loc n) -> Q l t) -> ltree Q loc n.
Proof.
  fix IH 1. intros [o p t ents|o p t d|t] loc.
  - cbn [ltree links_of]. induction ents as [|[k v] r IHr]; [intros _; exact I|].
    intros H. split.
    + apply IH. intros l tt Hin. apply H. apply in_or_app. left. exact Hin.
    + apply IHr. intros l tt Hin. apply H. apply in_or_app. right. exact Hin.
  - intros _. exact I.
  - intros H. cbn [ltree]. apply H. left. reflexivity.
Qed.

Lemma gtree_of_links (Q : phys -> list N -> Prop) root :
  (forall l t, In (l, t) (links_of [] root) -> Q l t) -> gtree Q root.
Proof. apply ltree_of_links. Qed.

(* a tree all of whose links below R are safe is safe_at R *)
Lemma ltree_safe_tree (Q : phys -> list N -> Prop) R :
  (forall loc t, below R loc -> Q loc t -> safe_target t = true) ->
  forall n loc, below R loc -> ltree Q loc n -> safe_tree n.
Proof.
  intros HQ. fix IH 1. intros [o p t ents|o p t d|t] loc Hb.
  - cbn [ltree safe_tree]. induction ents as [|[k v] r IHr]; [intros _; exact I|].
    intros [A B]. split; [eapply IH; [|exact A]; apply below_snoc; exact Hb|apply IHr; exact B].
  - intros _. exact I.
  - cbn [ltree safe_tree]. apply HQ. exact Hb.
Qed.

Lemma ltree_safe_at (Q : phys -> list N -> Prop) R0 :
  (forall loc t, below R0 loc -> Q loc t -> safe_target t = true) ->
  forall R base n, base ++ R = R0 -> ltree Q base n -> safe_at n R.
Proof.
  intros HQ. induction R as [|c r IH]; intros base n E H.
  - cbn [safe_at]. rewrite app_nil_r in E. subst base. eapply ltree_safe_tree; [exact HQ|apply below_refl|exact H].
  - cbn [safe_at]. destruct n as [o p t ents| |]; try exact I.
    destruct (lookup ents c) as [m|] eqn:El; [|exact I].
    apply ltree_dir in H. apply (IH (base ++ [c]) m); [rewrite <- app_assoc; exact E|eapply lookup_l; eauto].
Qed.

Lemma gtree_safe_at (Q : phys -> list N -> Prop) R root :
  (forall loc t, below R loc -> Q loc t -> safe_target t = true) -> gtree Q root -> safe_at root R.
Proof. intros HQ H. eapply (ltree_safe_at Q R HQ R [] root); [reflexivity|exact H]. Qed.

(* ------------------------------------------------------------------ *)
(* operations that make no symbolic link                                *)

Definition keeps (s s' : fs) : Prop :=
  fs_cwd s' = fs_cwd s /\ forall Q, gtree Q (fs_root s) -> gtree Q (fs_root s').

Lemma keeps_refl s : keeps s s.
Proof. split; [reflexivity|auto]. Qed.
Lemma keeps_trans a b c : keeps a b -> keeps b c -> keeps a c.
Proof. intros [A1 A2] [B1 B2]. split; [congruence|]. intros Q H. apply B2, A2, H. Qed.

Lemma fgoodl_touchf Q L : fgoodl Q L touchf.
Proof.
  intros o y Ho E. destruct o as [[own p t e| |]|]; cbn [touchf] in E; try discriminate; injection E as <-.
  - apply ltree_dir. eapply ltree_dir. apply Ho. reflexivity.
  - apply Ho. reflexivity.
  - apply Ho. reflexivity.
Qed.

Lemma set_entry_l Q s parent lst n : gtree Q (fs_root s) -> (forall x, n = Some x -> ltree Q (parent ++ [lst]) x) ->
  gtree Q (set_entry s parent lst n).
Proof.
  intros Hs Hn. unfold set_entry, gtree. rewrite touch_dir_eq.
  apply update_at_l; [apply fgoodl_touchf|]. apply update_at_l; [|exact Hs].
  intros o y _ E. apply Hn. exact E.
Qed.

Lemma keeps_kind_l Q L f : keeps_kind f -> fgoodl Q L f.
Proof.
  intros [K1 K2] o y Ho E. destruct o as [x|].
  - specialize (K2 x y E). specialize (Ho x eq_refl).
    destruct x as [o1 p1 t1 e1|o1 p1 t1 d1|t1], y as [o2 p2 t2 e2|o2 p2 t2 d2|t2]; try contradiction.
    + subst e2. apply ltree_dir. eapply ltree_dir. exact Ho.
    + exact I.
    + subst t2. exact Ho.
  - destruct K1 as [_ K1]. rewrite K1 in E. discriminate.
Qed.

Lemma keeps_log_entry s o parent lst n :
  (forall x, n = Some x -> match x with Link _ => False | Dir _ _ _ e => e = [] | File _ _ _ _ => True end) ->
  keeps s (log s o (set_entry s parent lst n)).
Proof.
  intros Hn. split; [reflexivity|]. intros Q H. cbn [log fs_root]. apply set_entry_l; [exact H|].
  intros x Hx. specialize (Hn x Hx). destruct x as [? ? ? e| |]; [subst e; exact I|exact I|contradiction].
Qed.

Lemma keeps_log_update s o loc f : keeps_kind f -> keeps s (log s o (update_at (fs_root s) loc f)).
Proof.
  intros Hk. split; [reflexivity|]. intros Q H. cbn [log fs_root]. unfold gtree.
  apply update_at_l; [apply keeps_kind_l; exact Hk|exact H].
Qed.

Ltac kk2 := split; [split; [intros [? ? ? ?|? ? ? ?|?]; discriminate|reflexivity]|
                    intros [? ? ? ?|? ? ? ?|?] y E; cbn in E; injection E as <-; auto].

Lemma fs_mkdir_keeps s p m : keeps s (snd (fs_mkdir s p m)).
Proof.
  unfold fs_mkdir. break_match; cbn [snd]; try apply keeps_refl.
  apply keeps_log_entry. intros x E. injection E as <-. reflexivity.
Qed.

Lemma fs_unlink_keeps s p : keeps s (snd (fs_unlink s p)).
Proof.
  unfold fs_unlink. break_match; cbn [snd]; try apply keeps_refl; apply keeps_log_entry; discriminate.
Qed.

Lemma fs_create_excl_keeps s p m : keeps s (snd (fs_create_excl s p m)).
Proof.
  unfold fs_create_excl. break_match; cbn [snd]; try apply keeps_refl.
  apply keeps_log_entry. intros x E. injection E as <-. exact I.
Qed.

Lemma fs_fchmod_keeps s h m : keeps s (snd (fs_fchmod s h m)).
Proof. unfold fs_fchmod. cbn [snd]. apply keeps_log_update. kk2. Qed.

Lemma fs_write_keeps s h b : keeps s (fs_write s h b).
Proof. unfold fs_write. apply keeps_log_update. kk2. Qed.

Lemma fs_chmod_keeps s p m : keeps s (snd (fs_chmod s p m)).
Proof.
  unfold fs_chmod, with_target. break_match; cbn [snd]; try apply keeps_refl; apply keeps_log_update; kk2.
Qed.

Lemma fs_chown_keeps s p : keeps s (snd (fs_chown s p)).
Proof.
  unfold fs_chown, with_target. break_match; cbn [snd]; try apply keeps_refl; apply keeps_log_update; kk2.
Qed.

Lemma fs_utime_keeps s p t : keeps s (snd (fs_utime s p t)).
Proof.
  unfold fs_utime, with_target. break_match; cbn [snd]; try apply keeps_refl; apply keeps_log_update; kk2.
Qed.

Lemma arch_mkdir_keeps s p m : keeps s (snd (arch_mkdir s p m)).
Proof. apply fs_mkdir_keeps. Qed.

Lemma arch_fopen_keeps s p perms : keeps s (snd (arch_fopen s p perms)).
Proof.
  unfold arch_fopen.
  pose proof (fs_unlink_keeps s p) as K1. destruct (fs_unlink s p) as [b s1]. cbn [snd] in K1.
  pose proof (fs_create_excl_keeps s1 p 384) as K2. destruct (fs_create_excl s1 p 384) as [[h|] s2]; cbn [snd] in K2.
  - destruct perms as [m|]; cbn [snd].
    + pose proof (fs_fchmod_keeps s2 h m) as K3. unfold fs_fchmod in *. cbn [fst snd] in *.
      eapply keeps_trans; [exact K1|]. eapply keeps_trans; [exact K2|exact K3].
    + eapply keeps_trans; eassumption.
  - cbn [snd]. eapply keeps_trans; eassumption.
Qed.

(* symlink: Q is kept if it holds of the new link at the location the operation is logged with *)
Lemma fs_symlink_l Q s t p : gtree Q (fs_root s) ->
  (forall parent lst, trailing_slash p = false -> resolve s p false = WOk parent lst None -> Q (parent ++ [lst]) t) ->
  gtree Q (fs_root (snd (fs_symlink s t p))) /\ fs_cwd (snd (fs_symlink s t p)) = fs_cwd s.
Proof.
  intros H Hq. unfold fs_symlink. destruct (trailing_slash p) eqn:Ets; [split; [exact H|reflexivity]|].
  destruct t as [|t0 t']; [split; [exact H|reflexivity]|].
  destruct (path_max <? nlen (t0 :: t')); [split; [exact H|reflexivity]|].
  destruct (resolve s p false) as [parent lst [n|]| | |] eqn:Er; cbn [snd]; try (split; [exact H|reflexivity]).
  destruct (parent_writable s parent); cbn [snd]; [|split; [exact H|reflexivity]].
  split; [|reflexivity]. cbn [log fs_root]. apply set_entry_l; [exact H|].
  intros x Hx. injection Hx as <-. cbn [ltree]. apply Hq; reflexivity.
Qed.

(* ------------------------------------------------------------------ *)
(* physical resolution                                                  *)

(* the components that change the location: "." dropped *)
Definition ploc (cs : list name) : list name := filter (fun c => negb (name_eqb c dot)) cs.

Lemma ploc_app a b : ploc (a ++ b) = ploc a ++ ploc b.
Proof. apply filter_app. Qed.

Definition proper_prefix {A} (a b : list A) : Prop := exists x y, b = a ++ x :: y.

Lemma proper_prefix_app {A} (z a b : list A) : proper_prefix a b -> proper_prefix (z ++ a) (z ++ b).
Proof. intros (x & y & ->). exists x, y. rewrite app_assoc. reflexivity. Qed.

Lemma proper_prefix_app_inv {A} (z a b : list A) : proper_prefix (z ++ a) (z ++ b) -> proper_prefix a b.
Proof. intros (x & y & E). rewrite <- app_assoc in E. apply app_inv_head in E. exists x, y. exact E. Qed.

Lemma proper_prefix_more {A} (a b c : list A) : proper_prefix a b -> proper_prefix a (b ++ c).
Proof. intros (x & y & ->). exists x, (y ++ c). rewrite <- app_assoc. reflexivity. Qed.

(* follow_last = false, no trailing slash: the name in the result is the path's own final
   component, and it is neither ".." nor "." *)
Theorem walk_nofollow_name root uid0 : forall links comps cur parent lst found,
  walk links root uid0 cur comps false false = WOk parent lst found ->
  lst = last comps [] /\ name_eqb lst dot = false /\ name_eqb lst dotdot = false.
Proof.
  induction links as [|links IHl].
  all: induction comps as [|c rest IHc]; intros cur parent lst found H;
    [rewrite walk_nil in H; discriminate|].
  all: rewrite walk_cons in H; cbv zeta in H.
  all: destruct (node_at root cur) as [[o p t ents| |]|] eqn:En; try discriminate.
  all: destruct (negb (can_search uid0 (Dir o p t ents))); [discriminate|].
  all: destruct (name_max <? nlen c); [discriminate|].
  all: assert (Hrec : forall cur', walk _ root uid0 cur' rest false false = WOk parent lst found ->
                      lst = last (c :: rest) [] /\ name_eqb lst dot = false /\ name_eqb lst dotdot = false)
         by (intros cur' Hw; destruct rest as [|c2 r2]; [rewrite walk_nil in Hw; discriminate|];
             rewrite last_cons_ne by discriminate; eapply IHc; exact Hw).
  all: destruct (name_eqb c dot) eqn:Ed; [eapply Hrec; exact H|].
  all: destruct (name_eqb c dotdot) eqn:Edd; [eapply Hrec; exact H|].
  all: assert (Hhere : rest = [] -> c = last (c :: rest) [] /\ name_eqb c dot = false /\ name_eqb c dotdot = false)
         by (intros ->; split; [reflexivity|split; assumption]).
  all: destruct (lookup ents c) as [[o2 p2 t2 e2|o2 p2 t2 d2|tgt]|] eqn:El.
  1,5: destruct rest as [|c2 r2]; [injection H as <- <- <-; apply Hhere; reflexivity|eapply Hrec; exact H].
  1,4: destruct rest as [|c2 r2]; [injection H as <- <- <-; apply Hhere; reflexivity|discriminate].
  2,4: destruct rest as [|c2 r2]; [injection H as <- <- <-; apply Hhere; reflexivity|discriminate].
  all: destruct rest as [|c2 r2]; [injection H as <- <- <-; apply Hhere; reflexivity|].
  - discriminate.
  - cbn [andb orb negb] in H. apply IHl in H. destruct H as (A & B & C).
    rewrite last_app_ne in A by discriminate. rewrite last_cons_ne by discriminate.
    split; [exact A|]. split; [exact B|exact C].
Qed.

Lemma ploc_last cs lst : cs <> [] -> lst = last cs [] -> name_eqb lst dot = false ->
  ploc cs = ploc (removelast cs) ++ [lst].
Proof.
  intros Hne -> Hd. rewrite (app_removelast_last [] Hne) at 1. rewrite ploc_app. f_equal.
  cbn [ploc filter]. rewrite Hd. reflexivity.
Qed.

(* no link stands at a proper prefix of the location the components lead to *)
Definition nolink_before (root : node) (cur : phys) (cs : list name) : Prop :=
  forall suf t, proper_prefix suf (ploc cs) -> node_at root (cur ++ suf) <> Some (Link t).

Theorem walk_phys root uid0 links : forall comps cur parent lst found,
  walk links root uid0 cur comps false false = WOk parent lst found ->
  Forall nodd (removelast comps) -> nolink_before root cur comps ->
  parent = cur ++ ploc (removelast comps).
Proof.
  induction comps as [|c rest IHc]; intros cur parent lst found H Hn Hl;
    [rewrite walk_nil in H; discriminate|].
  pose proof (walk_nofollow_name root uid0 links (c :: rest) cur parent lst found H) as (Elst & Hdot & _).
  pose proof H as H0.
  rewrite walk_cons in H; cbv zeta in H.
  destruct (node_at root cur) as [[o p t ents| |]|] eqn:En; try discriminate.
  destruct (negb (can_search uid0 (Dir o p t ents))); [discriminate|].
  destruct (name_max <? nlen c); [discriminate|].
  assert (Hrest : Forall nodd (removelast rest))
    by (destruct rest as [|c2 r2]; [constructor|rewrite removelast_cons_ne in Hn by discriminate;
                                               inversion Hn; assumption]).
  destruct rest as [|c2 r2].
  { (* the final component *)
    cbn [removelast ploc filter]. rewrite app_nil_r.
    destruct (name_eqb c dot); [rewrite walk_nil in H; discriminate|].
    destruct (name_eqb c dotdot); [rewrite walk_nil in H; discriminate|].
    destruct (lookup ents c) as [[o2 p2 t2 e2|o2 p2 t2 d2|tgt]|]; cbn [andb orb negb] in H;
      injection H as <- _ _; reflexivity. }
  rewrite removelast_cons_ne by discriminate.
  destruct (name_eqb c dot) eqn:Ed.
  { (* "." *)
    cbn [ploc filter]. rewrite Ed. cbn [negb]. apply (IHc cur parent lst found H Hrest).
    intros suf tt Hp. apply Hl. cbn [ploc filter]. rewrite Ed. exact Hp. }
  rewrite removelast_cons_ne in Hn by discriminate. pose proof (Forall_inv Hn) as Hc.
  unfold nodd in Hc. rewrite Hc in H.
  assert (Hpl : ploc (c :: c2 :: r2) = c :: ploc (c2 :: r2)) by (cbn [ploc filter]; rewrite Ed; reflexivity).
  assert (Hpr : ploc (c :: removelast (c2 :: r2)) = c :: ploc (removelast (c2 :: r2)))
    by (cbn [ploc filter]; rewrite Ed; reflexivity).
  rewrite Hpr.
  (* the rest is not empty after dropping the dots: it holds the final name *)
  assert (Hlast : ploc (c2 :: r2) = ploc (removelast (c2 :: r2)) ++ [lst]).
  { apply ploc_last; [discriminate| |exact Hdot]. rewrite Elst. rewrite last_cons_ne by discriminate. reflexivity. }
  destruct (lookup ents c) as [[o2 p2 t2 e2|o2 p2 t2 d2|tgt]|] eqn:El; try discriminate.
  - (* a directory: go on below it *)
    specialize (IHc (cur ++ [c]) parent lst found H Hrest).
    rewrite <- app_assoc in IHc. cbn [app] in IHc. apply IHc.
    intros suf tt Hp. rewrite <- app_assoc. cbn [app]. apply Hl. rewrite Hpl.
    apply (proper_prefix_app [c]) in Hp. exact Hp.
  - (* a link before the final component: excluded *)
    exfalso. apply (Hl [c] tgt).
    + rewrite Hpl, Hlast. destruct (ploc (removelast (c2 :: r2))) as [|x y].
      * exists lst, []. reflexivity.
      * exists x, (y ++ [lst]). reflexivity.
    + rewrite node_at_app, En. cbn [node_at]. rewrite El. reflexivity.
Qed.

(* the same for a path *)
Theorem resolve_phys s p parent lst found :
  is_absolute p = false -> Forall nodd (removelast (split_path p)) ->
  nolink_before (fs_root s) (fs_cwd s) (split_path p) ->
  resolve_gen s p false false = WOk parent lst found ->
  parent = fs_cwd s ++ ploc (removelast (split_path p)) /\
  ploc (split_path p) = ploc (removelast (split_path p)) ++ [lst] /\
  split_path p <> [] /\ lst = last (split_path p) [] /\ name_eqb lst dot = false.
Proof.
  intros Ha Hn Hl H. unfold resolve_gen in H. destruct p as [|x p']; [discriminate|].
  destruct (path_max <? nlen (x :: p')); [discriminate|]. rewrite Ha in H.
  pose proof (walk_nofollow_name _ _ _ _ _ _ _ _ H) as (A & B & _).
  assert (Hne : split_path (x :: p') <> []) by (intros E; rewrite E, walk_nil in H; discriminate).
  split; [eapply walk_phys; eauto|]. split; [apply ploc_last; assumption|].
  split; [exact Hne|]. split; assumption.
Qed.

(* ------------------------------------------------------------------ *)
(* the operations of the final phase                                    *)

Lemma below_phys R cs lst : below R ((R ++ cs) ++ [lst]).
Proof. exists (cs ++ [lst]). rewrite <- app_assoc. reflexivity. Qed.

Lemma fs_mkdir_phys s p m :
  is_absolute p = false -> Forall nodd (removelast (split_path p)) ->
  nolink_before (fs_root s) (fs_cwd s) (split_path p) ->
  kinds (below_op (fs_cwd s)) s (snd (fs_mkdir s p m)).
Proof.
  intros Ha Hn Hl. pose proof (resolve_phys s p) as Hr. unfold fs_mkdir.
  destruct (resolve_gen s p false false) as [parent lst [n|]| | |]; cbn [snd]; try apply kinds_refl.
  destruct (Hr parent lst None Ha Hn Hl eq_refl) as (-> & _).
  destruct (node_at (fs_root s) _) as [[o pp t e| |]|]; cbn [snd]; try apply kinds_refl.
  destruct (can_write_dir (fs_uid0 s) (Dir o pp t e)); cbn [snd]; [|apply kinds_refl].
  apply kinds_log. apply below_phys.
Qed.

Lemma fs_unlink_phys s p :
  is_absolute p = false -> Forall nodd (removelast (split_path p)) ->
  nolink_before (fs_root s) (fs_cwd s) (split_path p) ->
  kinds (below_op (fs_cwd s)) s (snd (fs_unlink s p)).
Proof.
  intros Ha Hn Hl. pose proof (resolve_phys s p) as Hr. unfold fs_unlink.
  destruct (trailing_slash p) eqn:Ets; [apply kinds_refl|]. unfold resolve. rewrite Ets.
  destruct (resolve_gen s p false false) as [parent lst [n|]| | |]; cbn [snd]; try apply kinds_refl.
  destruct (Hr parent lst (Some n) Ha Hn Hl eq_refl) as (-> & _).
  assert (G : forall victim, kinds (below_op (fs_cwd s)) s (snd (match node_at (fs_root s) (fs_cwd s ++ ploc (removelast (split_path p))) with
                | Some d => if can_delete (fs_uid0 s) d victim
                            then (true, log s (OpUnlink ((fs_cwd s ++ ploc (removelast (split_path p))) ++ [lst]))
                                            (set_entry s (fs_cwd s ++ ploc (removelast (split_path p))) lst None))
                            else (false, s)
                | None => (false, s) end))).
  { intros victim. destruct (node_at (fs_root s) _) as [d|]; [|apply kinds_refl].
    destruct (can_delete (fs_uid0 s) d victim); [|apply kinds_refl]. cbn [snd]. apply kinds_log. apply below_phys. }
  destruct n as [o pp t e|o pp t d|tgt]; [apply kinds_refl|apply G|apply G].
Qed.

(* symlink: logged below cwd, at the physical location of the path *)
Lemma fs_symlink_phys s t p :
  is_absolute p = false -> Forall nodd (removelast (split_path p)) ->
  nolink_before (fs_root s) (fs_cwd s) (split_path p) ->
  kinds (below_op (fs_cwd s)) s (snd (fs_symlink s t p)).
Proof.
  intros Ha Hn Hl. pose proof (resolve_phys s p) as Hr. unfold fs_symlink.
  destruct (trailing_slash p) eqn:Ets; [apply kinds_refl|].
  destruct t as [|t0 t']; [apply kinds_refl|].
  destruct (path_max <? nlen (t0 :: t')); [apply kinds_refl|].
  unfold resolve. rewrite Ets.
  destruct (resolve_gen s p false false) as [parent lst [n|]| | |]; cbn [snd]; try apply kinds_refl.
  destruct (Hr parent lst None Ha Hn Hl eq_refl) as (-> & _).
  destruct (parent_writable s _); cbn [snd]; [|apply kinds_refl].
  apply kinds_log. apply below_phys.
Qed.

(* unlink + symlink (lha_arch_symlink) at a path that meets no link on its way: both
   operations are logged below R = cwd, and a property Q of all links of the tree is
   kept if it holds of the new link at R ++ (the components of the path) *)
Lemma arch_symlink_links (Q : phys -> list N -> Prop) R f p t :
  fs_cwd f = R -> is_absolute p = false -> Forall nodd (removelast (split_path p)) ->
  gtree Q (fs_root f) ->
  (forall root, gtree Q root -> nolink_before root R (split_path p)) ->
  (trailing_slash p = false -> p <> [] -> name_eqb (last (split_path p) []) dot = false ->
   Q (R ++ ploc (split_path p)) t) ->
  kinds (below_op R) f (snd (arch_symlink f p t)) /\ gtree Q (fs_root (snd (arch_symlink f p t))) /\
  fs_cwd (snd (arch_symlink f p t)) = R.
Proof.
  intros Hc Ha Hn Hg Hl Hq. unfold arch_symlink.
  pose proof (fs_unlink_keeps f p) as [C1 K1].
  pose proof (fs_unlink_phys f p Ha Hn) as P1. rewrite Hc in P1. specialize (P1 (Hl _ Hg)).
  destruct (fs_unlink f p) as [b f1]. cbn [snd] in C1, K1, P1.
  assert (Hc1 : fs_cwd f1 = R) by congruence.
  specialize (K1 Q Hg).
  pose proof (fs_symlink_phys f1 t p Ha Hn) as P2. rewrite Hc1 in P2. specialize (P2 (Hl _ K1)).
  destruct (fs_symlink_l Q f1 t p K1) as [G2 C2].
  { intros parent lst Ets Er. unfold resolve in Er. rewrite Ets in Er.
    destruct (resolve_phys f1 p parent lst None Ha Hn) as (-> & E2 & Hne & El & Hd); [rewrite Hc1; apply Hl; exact K1|exact Er|].
    rewrite Hc1, <- app_assoc, <- E2. apply Hq; [exact Ets| |rewrite <- El; exact Hd].
    intros ->. apply Hne. reflexivity. }
  split; [eapply kinds_trans; eassumption|]. split; [exact G2|congruence].
Qed.

Print Assumptions update_at_l.
Print Assumptions walk_phys.
Print Assumptions resolve_phys.
Print Assumptions fs_symlink_l.
Print Assumptions arch_fopen_keeps.
Print Assumptions arch_symlink_links.
Print Assumptions gtree_of_links.

(* P_CliSelectFlatEx.v -- non-vacuity of extract_archive_selected_flat: an archive of two stored members
   fox.txt and gox.txt (90 bytes each); "lha x archive g*" passes over fox.txt and extracts gox.txt. *)
From Lhasa Require Import Base ListN DecBase Loop Generated Crc16 InputStream Header BasicReader
  AnyDecoder Decoder MacBinary Fs FsRun Reader Glob ListOut CliFilter CliExtract CliMain
  P_ReaderCheck P_FsExtract P_ReaderExtract P_CliExtract P_CliTree P_FsReplace P_CliOverwrite P_CliExtractGen
  P_CliTreeGen P_CliFlat P_CliFilterSkip P_CliSelectFlat.
Import P_ReaderCheck.Example.
Local Open Scope N_scope.

Definition hdr_g : list N :=
  [29; 239; 45; 108; 104; 48; 45; 90; 0; 0; 0; 90; 0; 0; 0; 0; 0; 33; 40; 32; 0; 7;
   103; 111; 120; 46; 116; 120; 116; 198; 203].
Definition arc2 : list N := ex_header 238 198 ++ ex_data ++ hdr_g ++ ex_data ++ [0].

Definition s_br0 : breader := lha_basic_reader_new (lha_input_stream_new (mk_source KFile arc2)).
Definition s_next (br : breader) : option header * breader :=
  match lha_basic_reader_next_file mktime_utc br with Ok x => x | _ => (None, br) end.
Definition s_br1 := snd (s_next s_br0).
Definition s_h1 : header := match fst (s_next s_br0) with Some h => h | None => header0 [] end.
Definition s_br2 := snd (s_next s_br1).
Definition s_h2 : header := match fst (s_next s_br1) with Some h => h | None => header0 [] end.
Definition n_fox : name := [102; 111; 120; 46; 116; 120; 116].
Definition n_gox : name := [103; 111; 120; 46; 116; 120; 116].
Definition s_items : list item := [IFile n_fox s_h1 ex_data; IFile n_gox s_h2 ex_data].
Definition pat_g : lha_filter := lha_filter_init [[103; 42]].        (* g* *)

Ltac decode_clause :=
  let r := fresh "r" in let Hbr := fresh "Hbr" in let Hty := fresh "Hty" in let Hcur := fresh "Hcur" in
  intros r Hbr Hty Hcur; destruct r; cbn in Hbr, Hty, Hcur; subst;
  eexists; split;
  [unfold member_ok; eexists _, _, _; split; [vm_compute; reflexivity|];
   split; [eapply dd_more; [ |vm_compute; reflexivity| ]; [discriminate| ];
           eapply dd_more; [ |vm_compute; reflexivity| ]; [discriminate| ];
           eapply dd_last; vm_compute; reflexivity|];
   split; [reflexivity|]; split; [vm_compute; reflexivity|cbn; lia]
  |].

Ltac end_clause := eexists _, _; split; [vm_compute; reflexivity|]; apply pS_end; vm_compute; reflexivity.
Ltac second_member :=
  apply pS_file; [vm_compute; reflexivity| |]; [decode_clause; end_clause|end_clause].

Example s_positioned : positionedS mktime_utc 0 s_br1 [MFile s_h1 ex_data; MFile s_h2 ex_data].
Proof.
  apply pS_file; [vm_compute; reflexivity| |].
  - decode_clause. eexists _, _. split; [vm_compute; reflexivity|]. second_member.
  - eexists _, _. split; [vm_compute; reflexivity|]. second_member.
Qed.

Definition s_fs : fs := cli_fs_init false arc2 1200000000 [].
Definition s_st : cli_state :=
  {| cs_fs := s_fs; cs_reader := lha_reader_new (lha_input_stream_new (mk_source KFile arc2));
     cs_opts := init_options; cs_stdin := []; cs_stdin_shared := false; cs_out := []; cs_err := [] |}.

Example s_selected :
  exists st', extract_archive mktime_utc 0 pat_g s_st = Ok (RVal true, st') /\
    fs_root (cs_fs st') = update_at (fs_root s_fs) (fs_cwd s_fs ++ [])
      (const_some (Dir true 493 now ([] ++ [(n_gox, File true 384 (h_timestamp s_h2) ex_data)]))).
Proof.
  assert (Hgood : forall n, n = n_fox \/ n = n_gox -> good_name n).
  { intros n [->| ->]; (split; [discriminate|split; [repeat constructor; discriminate|repeat split; vm_compute; reflexivity]]). }
  destruct (extract_archive_selected_flat mktime_utc 0 pat_g 18 false [] s_items s_st true 493 0 [])
    as (st' & Hex & _ & Hadd & _).
  - constructor; [|constructor; [|constructor]]; cbn [wf_item];
      (split; [apply Hgood; auto|]; split; [vm_compute; discriminate|]; split; [repeat split; vm_compute; reflexivity|];
       right; vm_compute; reflexivity).
  - repeat constructor.
  - constructor; [|constructor; [|constructor]]; cbn [fits]; vm_compute; discriminate.
  - constructor; [intros [H|[]]; discriminate|]. constructor; [intros []|constructor].
  - intros c _. reflexivity.
  - apply pfx_plain. repeat split.
  - reflexivity.
  - reflexivity.
  - split; [constructor|]. split.
    + apply chain_nil. exists true, 493, 0, []. split; vm_compute; reflexivity.
    + split; vm_compute; reflexivity.
  - repeat split. discriminate.
  - exists s_br1. split; [vm_compute; reflexivity|exact s_positioned].
  - vm_compute. reflexivity.
  - exists st'. split; [exact Hex|]. vm_compute in Hadd. exact Hadd.
Qed.

Print Assumptions s_selected.

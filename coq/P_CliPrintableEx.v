(* P_CliPrintableEx.v -- C18, non-vacuity: a hostile archive (names, path
   components, link target, user / group names and the method field of a later
   member carrying ESC, BEL, BS, CSI 0x9B, DEL, 0x80, CR, LF) run through the whole
   program model [cli_run] with t, x, xn, l, v, xq1, x with the overwrite dialogue,
   x against a file in the place of a directory (stat error message), and p: every output byte
   satisfies the predicate of P_CliPrintable.v; the outputs are not empty and do
   contain the '?' replacements.  The real tool prints the same bytes on this
   archive. *)
From Lhasa Require Import Base Loop Generated InputStream Header BasicReader Fs FsRun Reader Glob Printf ListOut
  CliFilter CliExtract CliMain P_ListOut P_CliSafe P_CliPrintable P_CliPrintMode.
Local Open Scope N_scope.

(* four members:
   level 2  -lh0-  path "d" 1B 9B "/"  name "a" 1B "[2J" 07 9B 7F 80 0A "b", user "u" 1B 07, group "g" 9B 0A, data "AAA"
   level 2  -lhd-  symbolic link "s" 07 -> "t" 1B "[31m" 0A FF
   level 1  method "-l" 1B 9B 0A, name "x" 1B 7F 0A 0D "y", data "AA"
   level 0  -lh0-  name "q" 08 80 9B "\z" 1B, data 40 x "A" *)
Definition hostile_archive : list N :=
  [66;0;45;108;104;48;45;3;0;0;0;3;0;0;0;0;47;104;89;32;2;160;116;85;7;0;2;100;27;155;255;14;0;1;97;27;91;50;
   74;7;155;127;128;10;98;6;0;82;117;27;7;6;0;83;103;155;10;7;0;81;1;0;2;0;0;0;65;65;65;
   45;0;45;108;104;100;45;0;0;0;0;0;0;0;0;0;47;104;89;32;2;0;0;85;5;0;80;255;161;14;0;1;115;7;124;116;27;91;
   51;49;109;10;255;0;0;
   31;235;45;108;27;155;10;2;0;0;0;2;0;0;0;0;0;0;90;32;1;6;120;27;127;10;13;121;240;96;27;0;0;65;65;
   29;32;45;108;104;48;45;40;0;0;0;40;0;0;0;0;0;0;90;32;0;7;113;8;128;155;92;122;27;128;236;
   65;65;65;65;65;65;65;65;65;65;65;65;65;65;65;65;65;65;65;65;65;65;65;65;65;65;65;65;65;65;65;65;65;65;65;65;
   65;65;65;65;0].

Definition arc_name : list N := [47;97;114;99;47;97;46;108;122;104].        (* /arc/a.lzh *)

Definition hostile_argv (cmd : list N) : list (list N) := [[108;104;97]; cmd; arc_name].

Definition hostile_run (cmd : list N) (stdin : list N) (setup : list op) : outcome cli_result :=
  cli_run mktime_utc gmtime_utc (fun _ => []) false 1500000000 1200000000 (hostile_argv cmd) hostile_archive stdin setup.

(* the check: the run ends normally, stdout is in {0x20..0x7E, LF, CR, TAB}, stderr
   in {0x20..0x7E, LF}, at least [n] bytes were written to stdout and [m] to stderr,
   and a '?' was printed *)
Definition run_clean (r : outcome cli_result) (n m : N) : bool :=
  match r with
  | Ok x => forallb allowed_outb (cr_stdout x) && forallb allowedb (cr_stderr x)
            && (n <=? nlen (cr_stdout x)) && (m <=? nlen (cr_stderr x))
            && existsb (N.eqb 63) (cr_stdout x ++ cr_stderr x)
  | _ => false
  end.

(* the archive does carry the bytes in question *)
Example hostile_archive_is_hostile :
  forallb (fun b => existsb (N.eqb b) hostile_archive) [27; 7; 8; 155; 127; 128; 10; 13; 255] = true.
Proof. vm_compute. reflexivity. Qed.

Example hostile_t : run_clean (hostile_run [116] [] []) 150 0 = true.                      (* t *)
Proof. vm_compute. reflexivity. Qed.
Example hostile_x : run_clean (hostile_run [120] [] []) 150 0 = true.                      (* x *)
Proof. vm_compute. reflexivity. Qed.
Example hostile_e : run_clean (hostile_run [101] [] []) 150 0 = true.                      (* e *)
Proof. vm_compute. reflexivity. Qed.
Example hostile_xn : run_clean (hostile_run [120; 110] [] []) 80 0 = true.                 (* xn *)
Proof. vm_compute. reflexivity. Qed.
Example hostile_tn : run_clean (hostile_run [116; 110] [] []) 40 0 = true.                 (* tn: VERIFY lines *)
Proof. vm_compute. reflexivity. Qed.
Example hostile_pn : run_clean (hostile_run [112; 110] [] []) 80 0 = true.                 (* pn *)
Proof. vm_compute. reflexivity. Qed.
Example hostile_l : run_clean (hostile_run [108] [] []) 400 0 = true.                      (* l *)
Proof. vm_compute. reflexivity. Qed.
Example hostile_v : run_clean (hostile_run [118] [] []) 400 0 = true.                      (* v *)
Proof. vm_compute. reflexivity. Qed.
Example hostile_vv : run_clean (hostile_run [118; 118] [] []) 400 0 = true.                (* vv *)
Proof. vm_compute. reflexivity. Qed.
Example hostile_xq1 : run_clean (hostile_run [120; 113; 49] [] []) 20 0 = true.            (* xq1: brief names *)
Proof. vm_compute. reflexivity. Qed.

(* x with the overwrite dialogue: the last member's file exists; answers "z" (asked
   again) and "n": the prompt with the sanitised name is on stderr twice *)
Definition setup_existing : list op :=
  [OMkdir [113; 8; 128; 155] 493; OFopen [113; 8; 128; 155; 47; 122; 27] None [1]].
Example hostile_x_prompt : run_clean (hostile_run [120] [122; 10; 110; 10] setup_existing) 100 70 = true.
Proof. vm_compute. reflexivity. Qed.

(* x where a FILE stands in the place of the first member's directory: stat fails
   with ENOTDIR, "Failed to read file type of 'd??/a?[2J?????b'" on stderr, exit(-1) *)
Definition setup_blocked : list op := [OFopen [100; 27; 155] None []].
Example hostile_x_filetype : run_clean (hostile_run [120] [] setup_blocked) 0 46 = true.
Proof. vm_compute. reflexivity. Qed.

(* the hypotheses of lha_main_output_clean hold for these invocations *)
Example hostile_hypotheses :
  forallb (fun cmd => data_free_invocation (hostile_argv cmd) && forallb (forallb printableb) (hostile_argv cmd))
          [[116]; [120]; [101]; [120; 110]; [116; 110]; [112; 110]; [108]; [118]; [118; 118]; [120; 113; 49]] = true.
Proof. vm_compute. reflexivity. Qed.

(* p: the banners are clean and the data ("AAA", "AA" is not delivered: unknown
   method, 40 x "A") is printable here, so the whole output is *)
Example hostile_p : run_clean (hostile_run [112] [] []) 100 0 = true.
Proof. vm_compute. reflexivity. Qed.

(* the error path that echoes argv: a missing archive with a hostile NAME ON THE
   COMMAND LINE is printed raw -- argv text, not archive-derived (this is why
   lha_main_output_clean assumes argv printable) *)
Example argv_echo_is_raw :
  match cli_run mktime_utc gmtime_utc (fun _ => [78; 111]) false 1500000000 1200000000
                [[108;104;97]; [116]; [110; 27; 91; 50; 74]] hostile_archive [] [] with
  | Ok x => existsb (N.eqb 27) (cr_stderr x) && (cr_exit x =? 255) && (nlen (cr_stdout x) =? 0)
  | _ => false
  end = true.
Proof. vm_compute. reflexivity. Qed.

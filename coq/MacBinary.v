(* MacBinary.v -- model of lib/macbinary.c: the pass-through decoder that
   strips a MacBinary header from members written by MacLHA.

   Pointers.  The MacBinaryDecoder holds a pointer to the inner LHADecoder,
   whose callback data in turn is a pointer to the LHABasicReader, and the
   inner decoder may carry a progress callback whose invocations are visible
   to the caller.  Everything the pass-through decoder reaches through its
   pointer is its "callback state" here: [mb_world] = the inner decoder (which
   contains its copy of the basic reader, see Reader.v) and the progress
   events the inner decoder has emitted. *)
From Lhasa Require Import Base DecBase Loop Generated Header BasicReader AnyDecoder Decoder.
Local Open Scope N_scope.

Record mb_state := {
  mb_header : list N;          (* mb_header[0 .. MBHDR_SIZE) as far as filled *)
  mb_header_bytes : N;
  mb_remaining : N             (* stream_remaining *)
}.

(* An LHADecoder of one of the decoders[] types reading through the basic
   reader: decoder->dtype->max_read, ->block_size and the decoder itself. *)
Record idec := {
  id_max_read : N;
  id_block_size : N;
  id_dec : @decoder breader dstate
}.

(* what the pass-through decoder reaches through MacBinaryDecoder.decoder *)
Record mb_world := { mw_dec : idec; mw_ev : list (N * N) }.

Section MacBinary.
  Variable junk : N.

  Definition with_dec (d : idec) (d' : @decoder breader dstate) : idec :=
    {| id_max_read := id_max_read d; id_block_size := id_block_size d; id_dec := d' |}.

  (* lha_decoder_read(inner, buf, n) *)
  Definition inner_read (d : idec) (n : N) : outcome (list N * list (N * N) * idec) :=
    '(o, ev, d') <- lha_decoder_read (any_read decoder_callback junk) (id_max_read d) (id_block_size d) (id_dec d) n ;;
    Ok (o, ev, with_dec d d').

  Definition mb_at (site : N) (data : list N) (i : N) : outcome N :=
    if i <? mb_header_extent then
      match nth_N data i with Some b => Ok b | None => Fault site end
    else Fault site.

  Fixpoint block_is_zero (n : nat) (data : list N) (i : N) : outcome bool :=
    match n with
    | O => Ok true
    | S k => b <- mb_at 1301 data i ;; if b =? 0 then block_is_zero k data (i + 1) else Ok false
    end.

  Definition be32 (site : N) (data : list N) (i : N) : outcome N :=
    b0 <- mb_at site data i ;; b1 <- mb_at site data (i + 1) ;;
    b2 <- mb_at site data (i + 2) ;; b3 <- mb_at site data (i + 3) ;;
    Ok (N.lor (N.lor (N.shiftl b0 24) (N.shiftl b1 16)) (N.lor (N.shiftl b2 8) b3)).

  (* memcmp(&data[MBHDR_OFF_FILENAME], filename, len) == 0 *)
  Fixpoint name_matches (data : list N) (i : N) (fn : list N) : outcome bool :=
    match fn with
    | [] => Ok true
    | c :: r => b <- mb_at 1302 data i ;; if b =? c then name_matches data (i + 1) r else Ok false
    end.

  Definition check_modification_time (mod_time : N) (h : header) : bool :=
    let ts := h_timestamp h in
    let diff := if mod_time <? ts then ts - mod_time else mod_time - ts in
    negb (50400 <? diff).

  Definition is_macbinary_header (data : list N) (h : header) : outcome bool :=
    v <- mb_at 1303 data mb_MBHDR_OFF_VERSION ;;
    z1 <- mb_at 1304 data mb_MBHDR_OFF_ZERO_COMPAT1 ;;
    z2 <- mb_at 1305 data mb_MBHDR_OFF_ZERO_COMPAT2 ;;
    if negb ((v =? 0) && (z1 =? 0) && (z2 =? 0)) then Ok false else
    c0 <- block_is_zero 2 data mb_MBHDR_OFF_COMMENT_LEN ;;
    if negb c0 then Ok false else
    m2 <- block_is_zero (N.to_nat mb_MBHDR_LEN_MACBINARY2_DATA) data mb_MBHDR_OFF_MACBINARY2_DATA ;;
    if negb m2 then Ok false else
    fl <- mb_at 1306 data mb_MBHDR_OFF_FILENAME_LEN ;;
    (* filename_len > MBHDR_LEN_FILENAME || filename_len != strlen(header->filename) || memcmp(...) *)
    if mb_MBHDR_LEN_FILENAME <? fl then Ok false else
    match h_filename h with
    | None => Fault 1307                      (* strlen(NULL) *)
    | Some fn =>
      if negb (fl =? nlen fn) then Ok false else
      nm <- name_matches data mb_MBHDR_OFF_FILENAME fn ;;
      if negb nm then Ok false else
      rest <- block_is_zero (N.to_nat (mb_MBHDR_LEN_FILENAME - fl)) data (mb_MBHDR_OFF_FILENAME + fl) ;;
      if negb rest then Ok false else
      dfl <- be32 1308 data mb_MBHDR_OFF_DATA_FORK_LEN ;;
      rfl <- be32 1309 data mb_MBHDR_OFF_RES_FORK_LEN ;;
      let expected := u32 (dfl + rfl + mb_MBHDR_SIZE) in
      if negb (h_length h =? N.land (u32 (expected + 127)) 4294967168) then Ok false else
      mt <- be32 1310 data mb_MBHDR_OFF_FILE_MOD_DATE ;;
      if (mt <? mb_MAC_TIME_OFFSET) || negb (check_modification_time (mt - mb_MAC_TIME_OFFSET) h) then Ok false
      else Ok true
    end.

  (* read_macbinary_header: while (bytes < MBHDR_SIZE) { n = lha_decoder_read(...); if (n == 0) return 0; ... } *)
  Definition rmh_step (s : mb_world * list N) : outcome ((mb_world * list N) + (bool * mb_world * list N)) :=
    let '(w, got) := s in
    if nlen got <? mb_MBHDR_SIZE then
      '(o, ev, d') <- inner_read (mw_dec w) (mb_MBHDR_SIZE - nlen got) ;;
      let w' := {| mw_dec := d'; mw_ev := mw_ev w ++ ev |} in
      match o with
      | [] => Ok (inr (false, w', got))
      | _ => Ok (inl (w', got ++ o))
      end
    else Ok (inr (true, w, got)).

  (* macbinary_decoder_init: None = failure (the outer lha_decoder_new returns NULL).
     The inner decoder has been advanced in either case. *)
  Definition macbinary_init (w : mb_world) (h : header) : outcome (option mb_state * mb_world) :=
    let st0 := {| mb_header := []; mb_header_bytes := 0; mb_remaining := h_length h |} in
    if h_length h <? mb_MBHDR_SIZE then Ok (Some st0, w) else
    '(ok, w1, got) <- loop rmh_step 10 (w, []) ;;
    if negb ok then Ok (None, w1) else
    if mb_header_extent <? nlen got then Fault 1311 else
    is_mb <- is_macbinary_header got h ;;
    if negb is_mb then
      Ok (Some {| mb_header := got; mb_header_bytes := nlen got; mb_remaining := h_length h |}, w1)
    else
      dfl <- be32 1312 got mb_MBHDR_OFF_DATA_FORK_LEN ;;
      rfl <- be32 1313 got mb_MBHDR_OFF_RES_FORK_LEN ;;
      Ok (Some {| mb_header := got; mb_header_bytes := 0;
                  mb_remaining := if 0 <? dfl then dfl else rfl |}, w1).

  (* decode_to_end: do { n = lha_decoder_read(decoder, buf, 128); } while (n > 0); *)
  Definition dte_step (w : mb_world) : outcome (mb_world + mb_world) :=
    '(o, ev, d') <- inner_read (mw_dec w) 128 ;;
    let w' := {| mw_dec := d'; mw_ev := mw_ev w ++ ev |} in
    match o with [] => Ok (inr w') | _ => Ok (inl w') end.

  (* macbinary_decoder_read: the dread of the outer decoder *)
  Definition macbinary_read (s : mb_state) (w : mb_world) : outcome (list N * mb_state * mb_world) :=
    let pre := if 0 <? mb_header_bytes s then firstn_N (mb_header_bytes s) (mb_header s) else [] in
    let result := nlen pre in
    if mb_OUTPUT_BUFFER_SIZE <? result then Fault 1314 else
    let to_read := mb_OUTPUT_BUFFER_SIZE - result in
    let to_read := if mb_remaining s <? to_read then mb_remaining s else to_read in
    '(o, ev, d1) <- inner_read (mw_dec w) to_read ;;
    let w1 := {| mw_dec := d1; mw_ev := mw_ev w ++ ev |} in
    let remaining := mb_remaining s - nlen o in
    let s' := {| mb_header := mb_header s; mb_header_bytes := 0; mb_remaining := remaining |} in
    if remaining =? 0 then
      w2 <- loop dte_step 64 w1 ;;
      Ok (pre ++ o, s', w2)
    else Ok (pre ++ o, s', w1).
End MacBinary.

(* P_CliPrintMac.v -- C06, the p command for members from MacLHA (h_os_type =
   MACOS, lib/macbinary.c), and the p command under wildcard patterns.

   print_archived_file copies the member to standard output with reads of 512
   bytes through the same pass-through decoder that extraction uses with reads
   of 64 bytes.  [mac_print_content]: whatever the reads return, what is printed
   is  firstn (h_length h) (mac_out h ibs)  for the inner stream ibs of the
   member -- the content function of P_MacContent.mac_run_content /
   mac_extract_content: the data fork (or the resource fork when the data fork
   is empty) after the 128-byte MacBinary envelope, or the bytes as they are
   when the stored length is below 128 or the first 128 bytes are no envelope
   for this header.
   [print_archive_output_mac]: "lha p archive [PATTERN...]": the filesystem is
   not touched; standard output gains, for every SELECTED member in archive
   order, the banner and the member's bytes (a link: its line; a directory:
   nothing); the members no pattern matches are passed over undecoded; and the
   bytes of every selected MacOS member are that content. *)
From Lhasa Require Import Base ListN DecBase Loop Generated Crc16 P_Crc16 InputStream Header BasicReader
  AnyDecoder Decoder MacBinary Fs FsRun Reader Glob ListOut P_ListOut CliFilter CliExtract
  P_Decoder P_ReaderCheck P_DecoderTrace P_FsExtract P_ReaderExtract P_CliExtract P_CliTree P_CliPrint
  P_CliFilterSkip P_MacContent.
From Coq Require Import ZifyBool ZifyN ZifyNat.
Local Open Scope N_scope.

Set Default Timeout 120.

Section MacPrint.
  Variable junk : N.
  Notation ireads := (ireads junk).
  Notation mspec := (mspec junk).
  Notation mac_inv := (mac_inv junk).
  Notation rd512 := (rd512 junk).
  Notation oread := (lha_decoder_read (macbinary_read junk) macbinary_max_read macbinary_block_size).

  (* one lha_reader_read of any size with the pass-through decoder open
     (P_MacContent.mac_read_step is the instance n = 64) *)
  Lemma mac_read_step_n n m0 w0 L r OUT out ev r' : 0 < n ->
    mac_inv m0 w0 L r OUT -> lha_reader_read junk r n = Ok (out, ev, r') ->
    mac_inv m0 w0 L r' (OUT ++ out) /\
    (out = [] -> exists o', rd_decoder r' = Some (DO_mac o') /\
                  ((d_outbuf o' = [] /\ d_failed o' = true) \/ nlen OUT = L)).
  Proof.
    intros Hn (o & Hdec & ob & Hm & Hob & Hpos & Hlen & Hle & Hend) H.
    rewrite (reader_read_open junk r n _ Hdec), decoder_read_eq, Hdec in H. cbv zeta in H.
    set (w := {| mw_dec := load_br (mw_dec (d_cb o)) (rd_br r); mw_ev := [] |}) in *.
    destruct (oread (set_world o w) n) as [[[o1 ev1] od1]| |] eqn:E; cbn [bind] in H; try discriminate.
    inversion H; subst out ev r'; clear H.
    destruct (dec_read_trace _ _ _ mspec (mspec_refl junk) (mspec_trans junk) (mspec_dread junk) _ _ _ _ _ E)
      as (ob1 & HT & Hbuf & Hended & Hp1 & Hl1 & Hc1 & Hc2).
    cbn [set_world d_inner d_cb d_outbuf d_stream_pos d_stream_length d_failed] in HT, Hbuf, Hended, Hp1, Hl1.
    assert (Hm' : mspec m0 w0 ob (d_inner o) w) by (eapply mspec_load; [exact Hm|reflexivity]).
    assert (Hcl : clamp (set_world o w) n <= L - nlen OUT).
    { unfold clamp. cbn [set_world d_stream_length d_stream_pos]. rewrite Hlen, Hpos.
      destruct (N.ltb_spec L (nlen OUT + n)); lia. }
    split.
    - exists od1. cbn [set_decoders rd_decoder]. split; [reflexivity|].
      exists (ob ++ ob1). split; [eapply mspec_trans; eauto|].
      split; [rewrite Hob, <- !app_assoc, Hbuf; reflexivity|].
      split; [rewrite Hp1, Hpos, nlen_app; reflexivity|]. split; [congruence|].
      split; [rewrite nlen_app; lia|].
      intros Hf. destruct (Hended Hf) as [[A B]|(s1 & c1 & Hd)].
      + cbn [set_world d_failed d_inner] in A, B. rewrite B. apply Hend. exact A.
      + eapply macbinary_read_bytes0. exact Hd.
    - intros ->. exists od1. cbn [set_decoders rd_decoder]. split; [reflexivity|].
      change (nlen (@nil N)) with 0 in Hc2.
      destruct (N.eq_dec (clamp (set_world o w) n) 0) as [Ez|Enz].
      + right. unfold clamp in Ez. cbn [set_world d_stream_length d_stream_pos] in Ez. rewrite Hlen, Hpos in Ez.
        destruct (N.ltb_spec L (nlen OUT + n)); lia.
      + left. destruct (Hc2 ltac:(lia)) as [A B]. auto.
  Qed.

  (* the whole run of print_archived_file *)
  Lemma mac_rd_run r chunks r' : rd512 r chunks r' ->
    forall m0 w0 L OUT, mac_inv m0 w0 L r OUT ->
    exists o', rd_decoder r' = Some (DO_mac o') /\
      exists ob, mspec m0 w0 ob (d_inner o') (d_cb o') /\ ob = (OUT ++ concat chunks) ++ d_outbuf o' /\
        nlen (OUT ++ concat chunks) <= L /\
        (d_failed o' = true -> mb_header_bytes (d_inner o') = 0) /\
        ((d_outbuf o' = [] /\ d_failed o' = true) \/ nlen (OUT ++ concat chunks) = L).
  Proof.
    induction 1 as [r ev r' E|r o ev ra chunks r' Hne E _ IH]; intros m0 w0 L OUT Hinv.
    - destruct (mac_read_step_n 512 _ _ _ _ _ _ _ _ eq_refl Hinv E) as [Hinv' Hfin].
      destruct (Hfin eq_refl) as (o' & Hd' & Hcase).
      destruct Hinv' as (o'' & Hd'' & ob & Hm & Hob & _ & _ & Hle & Hend). rewrite Hd' in Hd''. inversion Hd''; subst o''.
      exists o'. split; [exact Hd'|]. exists ob. cbn [concat]. rewrite !app_nil_r in *.
      split; [exact Hm|]. split; [exact Hob|]. split; [exact Hle|]. split; [exact Hend|exact Hcase].
    - destruct (mac_read_step_n 512 _ _ _ _ _ _ _ _ eq_refl Hinv E) as [Hinv' _].
      destruct (IH m0 w0 L (OUT ++ o) Hinv') as (o' & Hd' & ob & Hm & Hob & Hle & Hend & Hcase).
      exists o'. split; [exact Hd'|]. exists ob. cbn [concat]. rewrite app_assoc. auto 10.
  Qed.

  Lemma rd512_inner r chunks r' : rd512 r chunks r' ->
    forall x, rd_decoder r = Some x -> rd_inner r = IR_same -> rd_inner r' = IR_same.
  Proof.
    induction 1 as [r ev r' E|r o ev ra chunks r' Hne E _ IH]; intros x Hdec Hin.
    - destruct (reader_read_step junk r 512 x [] ev r' Hdec Hin E) as (Hin' & _). exact Hin'.
    - destruct (reader_read_step junk r 512 x o ev ra Hdec Hin E) as (Hin' & _ & _ & x' & _ & _ & _ & Hdec' & _).
      exact (IH x' Hdec' Hin').
  Qed.

  (* the first read opens the decoder *)
  Lemma rd512_open r h chunks r2 : rd_decoder r = None -> rd_curr r = Some h -> rd512 r chunks r2 ->
    (exists ev1 r1, open_decoder junk r false = Ok (true, ev1, r1) /\ rd512 r1 chunks r2) \/
    (exists ev1, open_decoder junk r false = Ok (false, ev1, r2) /\ chunks = []).
  Proof.
    intros Hdec Hcur Hrun.
    assert (Hread : forall o ev r', lha_reader_read junk r 512 = Ok (o, ev, r') ->
              (exists ev1 r1 ev2, open_decoder junk r false = Ok (true, ev1, r1) /\ lha_reader_read junk r1 512 = Ok (o, ev2, r')) \/
              (exists ev1, open_decoder junk r false = Ok (false, ev1, r') /\ o = [])).
    { intros o ev r' H. unfold lha_reader_read in H. rewrite Hdec in H.
      destruct (open_decoder junk r false) as [[[ok e1] r1]| |] eqn:Eo; cbn [bind] in H; try discriminate.
      destruct ok.
      - destruct (decoder_read junk r1 512) as [[[o2 e2] r2']| |] eqn:Er; cbn [bind] in H; try discriminate.
        destruct (open_decoder_ok junk r false e1 r1 h Eo Hcur) as (_ & _ & _ & d0 & x & d1 & ibs0 & _ & Hd1 & _).
        inversion H; subst. left. eexists _, _, _. split; [reflexivity|].
        rewrite (reader_read_open junk r1 512 x Hd1). exact Er.
      - inversion H; subst. right. eexists. split; reflexivity. }
    inversion Hrun as [r0 ev r' E|r0 o ev ra chunks0 r' Hne E Hrest]; subst.
    - destruct (Hread _ _ _ E) as [(ev1 & r1 & ev2 & Ho & Hr)|(ev1 & Ho & _)].
      + left. exists ev1, r1. split; [exact Ho|]. eapply rl_last. exact Hr.
      + right. exists ev1. auto.
    - destruct (Hread _ _ _ E) as [(ev1 & r1 & ev2 & Ho & Hr)|(ev1 & Ho & Ho2)].
      + left. exists ev1, r1. split; [exact Ho|]. eapply rl_more; eauto.
      + contradiction.
  Qed.

  (* what "lha p" prints for a MacOS member whose inner stream matches the header *)
  Theorem mac_print_content r h chunks r2 dfin :
    rd_decoder r = None -> rd_inner r = IR_null -> rd_curr r = Some h -> (h_os_type h =? OS_TYPE_MACOS) = true ->
    rd512 r chunks r2 ->
    inner_of r2 = Some dfin -> ipos dfin = h_length h -> icrc dfin = h_crc h ->
    exists ibs, nlen ibs = h_length h /\ lha_crc16_buf 0 ibs = h_crc h /\
      concat chunks = firstn_N (h_length h) (mac_out h ibs).
  Proof.
    intros Hdec0 Hin0 Hcur Hos Hrun0 Hof Vl Vc.
    destruct (rd512_open r h chunks r2 Hdec0 Hcur Hrun0) as [(ev1 & r1 & Hop & Hrun)|(ev1 & Hop & _)].
    2:{ (* the decoder could not be opened: no inner decoder is left *)
        exfalso. assert (Hnull : rd_inner r2 = IR_null).
        { unfold open_decoder in Hop. destruct (rd_type r); try (inversion Hop; subst; exact Hin0).
          destruct (lha_basic_reader_decode (rd_br r)) as [[dd|]| |]; cbn [bind] in Hop; try discriminate.
          - rewrite Hcur, Hos in Hop.
            destruct (macbinary_init junk _ h) as [[ms w]| |]; cbn [bind] in Hop; try discriminate.
            destruct ms; inversion Hop; subst. reflexivity.
          - inversion Hop; subst. reflexivity. }
        unfold inner_of in Hof. rewrite Hnull in Hof. discriminate. }
    (* open_decoder, unfolded *)
    pose proof Hop as Hop0. unfold open_decoder in Hop.
    destruct (rd_type r) eqn:Et; try discriminate.
    destruct (lha_basic_reader_decode (rd_br r)) as [[dd|]| |] eqn:Ed; cbn [bind] in Hop; try discriminate.
    rewrite Hcur, Hos in Hop.
    assert (Hfresh : fresh_inner r false dd) by (exists dd; split; [exact Ed|reflexivity]).
    rename dd into d0.
    destruct (macbinary_init junk {| mw_dec := d0; mw_ev := [] |} h) as [[ms w]| |] eqn:Ei; cbn [bind] in Hop; try discriminate.
    destruct ms as [m|]; [|discriminate]. inversion Hop; subst ev1 r1; clear Hop.
    destruct (macbinary_init_case junk _ _ _ _ Ei) as (got & Higot & Hcase). cbn [mw_dec] in Higot.
    set (w1 := {| mw_dec := mw_dec w; mw_ev := [] |}) in *.
    set (L := h_length h) in *.
    assert (Hinv : mac_inv m w1 L (set_decoders r (idec_br (mw_dec w)) (Some (DO_mac (lha_decoder_new m w1 L))) IR_same) []).
    { eexists. cbn [set_decoders rd_decoder]. split; [reflexivity|]. exists [].
      cbn [lha_decoder_new d_inner d_cb d_outbuf d_stream_pos d_stream_length d_failed].
      split; [apply mspec_refl|]. repeat split; auto; try discriminate. unfold nlen; cbn; lia. }
    destruct (mac_rd_run _ _ _ Hrun m w1 L [] Hinv) as (o' & Hd' & ob & Hm & Hob & Hle & Hend & Hfin).
    cbn [app] in Hob, Hle, Hfin.
    destruct Hm as (ib & dr & Hi & Hp & Hr & Hdr & Hh & Hb0 & Hc).
    (* the inner decoder at the end *)
    destruct (open_decoder_ok junk r false _ _ h Hop0 Hcur) as (_ & Hcur1 & Hin1 & d00 & x & d1 & ibs0 & _ & Hdec1 & Hof1 & _).
    pose proof (rd512_inner _ _ _ Hrun x Hdec1 Hin1) as Hin2.
    assert (Hdfin : dfin = mw_dec (d_cb o')).
    { unfold inner_of in Hof. rewrite Hin2, Hd' in Hof. inversion Hof. reflexivity. }
    set (ibs := got ++ ib ++ dr).
    assert (Hibs : ireads d0 ibs dfin).
    { subst ibs. rewrite Hdfin. eapply ireads_app; [exact Higot|]. exact Hi. }
    exists ibs.
    destruct (fresh_inner_zero r false d0 Hfresh) as [Hp0 Hc0].
    pose proof (ireads_len_crc junk _ _ _ Hibs) as [Lp Lc].
    rewrite Hp0, N.add_0_l in Lp. rewrite Hc0 in Lc.
    assert (Hlen : nlen ibs = L) by (rewrite <- Lp; exact Vl).
    split; [exact Hlen|]. split; [rewrite <- Lc; exact Vc|].
    (* OUT = firstn L ob *)
    assert (Hout : concat chunks = firstn_N L ob).
    { rewrite Hob. destruct Hfin as [[Hbuf _]|Hfull].
      - rewrite Hbuf, app_nil_r. symmetry. apply firstn_N_all. exact Hle.
      - symmetry. apply firstn_N_app_exact. exact Hfull. }
    rewrite Hout. unfold mac_out. fold L.
    destruct Hcase as [Hs Hg Hm0|Hs Hg Hmb Hm0|Hs Hg Hmb Hm0].
    - (* shorter than a header: passed through *)
      destruct (N.ltb_spec L mb_MBHDR_SIZE) as [_|C]; [|unfold L in C; lia].
      subst got m. cbn [mb_header_bytes mb_remaining] in *. specialize (Hb0 eq_refl).
      unfold pend in Hp. cbn [mb_header_bytes] in Hp. rewrite Hb0 in Hp. cbn in Hp. rewrite app_nil_r in Hp. subst ob.
      unfold ibs. cbn [app].
      destruct dr as [|b dr]; [rewrite app_nil_r; reflexivity|].
      assert (E : mb_remaining (d_inner o') = 0) by (apply Hdr; discriminate).
      rewrite (firstn_N_app_exact ib (b :: dr) L) by lia. apply firstn_N_all. lia.
    - (* no envelope: the 128 bytes read are handed out first *)
      destruct (N.ltb_spec L mb_MBHDR_SIZE) as [C|_]; [unfold L in C; lia|].
      assert (Hfg : firstn_N mb_MBHDR_SIZE ibs = got) by (unfold ibs; apply firstn_N_app_exact; exact Hg).
      rewrite Hfg, Hmb. subst m. cbn [mb_header_bytes mb_remaining mb_header] in *.
      assert (Hb' : mb_header_bytes (d_inner o') = 0).
      { destruct Hc as [Hc|Hc]; [|exact Hc]. subst ob.
        destruct Hfin as [[_ Hfl]|Hfull]; [apply Hend; exact Hfl|].
        symmetry in Hob. apply app_eq_nil in Hob. destruct Hob as [Hob _]. rewrite Hob in Hfull.
        unfold nlen in Hfull. cbn in Hfull. unfold L, mb_MBHDR_SIZE in *. lia. }
      assert (Hpg : pend {| mb_header := got; mb_header_bytes := nlen got; mb_remaining := L |} = got).
      { unfold pend. cbn [mb_header_bytes mb_header]. rewrite Hg. cbn. apply firstn_N_all. rewrite Hg. reflexivity. }
      fold L in Hp, Hr. rewrite Hpg in Hp. unfold pend in Hp at 1. rewrite Hb' in Hp. cbn in Hp. rewrite app_nil_r in Hp. subst ob.
      unfold ibs. destruct dr as [|b dr]; [rewrite app_nil_r; reflexivity|].
      assert (E : mb_remaining (d_inner o') = 0) by (apply Hdr; discriminate).
      rewrite (app_assoc got ib). rewrite (firstn_N_app_l L (got ++ ib)) by (rewrite nlen_app; lia). reflexivity.
    - (* an envelope: the fork *)
      destruct (N.ltb_spec L mb_MBHDR_SIZE) as [C|_]; [unfold L in C; lia|].
      assert (Hfg : firstn_N mb_MBHDR_SIZE ibs = got) by (unfold ibs; apply firstn_N_app_exact; exact Hg).
      assert (Hsk : skipn_N mb_MBHDR_SIZE ibs = ib ++ dr) by (unfold ibs; apply skipn_N_app_exact; exact Hg).
      rewrite Hfg, Hmb, Hsk. subst m. cbn [mb_header_bytes mb_remaining mb_header] in *. specialize (Hb0 eq_refl).
      unfold pend in Hp. cbn [mb_header_bytes] in Hp. rewrite Hb0 in Hp. cbn in Hp. rewrite app_nil_r in Hp. subst ob.
      f_equal. symmetry. apply firstn_N_drop; [lia|]. intros Hd. specialize (Hdr Hd). lia.
  Qed.
End MacPrint.

(* ------------------------------------------------------------------ *)
(* the p command under wildcard patterns *)
Section PrintSel.
  Variable mktime : N -> N -> N -> N -> Z -> N -> N.
  Variable junk : N.
  Variable f : lha_filter.

  Notation sel := (matches_filter f).
  Notation pstep := (print_archive_step mktime junk f).
  Notation rd512 := (rd512 junk).
  Notation skips := (skips mktime f).

  Definition is_mac (h : header) : bool := h_os_type h =? OS_TYPE_MACOS.
  Definition selm (m : member) : bool := sel (hdr m).

  (* the archive as "lha p archive PATTERN..." reads it.  A regular member that some
     pattern matches is read with 512-byte reads until an empty read (bs = what these
     return), and if it is a MacOS member its inner stream then has the header's length
     and CRC (the member is intact); a regular member no pattern matches is skipped by
     the basic reader. *)
  Inductive positionedPS : breader -> list member -> Prop :=
  | pps_end br : br_curr br = None -> positionedPS br []
  | pps_file br h bs ms : br_curr br = Some h -> is_dir_method h = false -> h_symlink_target h = None ->
      (sel h = true ->
       forall r, rd_br r = br -> rd_type r = CT_NORMAL -> rd_curr r = Some h -> rd_decoder r = None -> rd_inner r = IR_null ->
         exists chunks r2, rd512 r chunks r2 /\ concat chunks = bs /\ N.of_nat (length chunks) < 2 ^ 40 /\
           (is_mac h = true -> exists dfin, inner_of r2 = Some dfin /\ ipos dfin = h_length h /\ icrc dfin = h_crc h) /\
           exists x br', lha_basic_reader_next_file mktime (rd_br r2) = Ok (x, br') /\ positionedPS br' ms) ->
      (sel h = false -> exists x br', lha_basic_reader_next_file mktime br = Ok (x, br') /\ positionedPS br' ms) ->
      positionedPS br (MFile h bs :: ms)
  | pps_other br h ms x br' : br_curr br = Some h -> is_dir_method h = true ->
      lha_basic_reader_next_file mktime br = Ok (x, br') -> positionedPS br' ms ->
      positionedPS br (MOther h :: ms).

  Definition upcomingPS (r : reader) (ms : list member) : Prop :=
    exists br1, fetch mktime r = Ok (br1, false) /\ positionedPS br1 ms.

  Lemma rinv_mk0 br1 c : rinv (mk_reader br1 c CT_NORMAL [] false) [].
  Proof. repeat split. discriminate. Qed.

  (* a member is presented; left alone (not selected), the next one is upcoming *)
  Lemma present_PS r m ms : rinv r [] -> upcomingPS r (m :: ms) ->
    exists br1, positionedPS br1 (m :: ms) /\
      lha_reader_next_file mktime r = Ok (Some (hdr m), mk_reader br1 (Some (hdr m)) CT_NORMAL [] false) /\
      (selm m = false -> upcomingPS (mk_reader br1 (Some (hdr m)) CT_NORMAL [] false) ms).
  Proof.
    intros Hrinv (br1 & Hf & Hpos). exists br1. split; [exact Hpos|].
    assert (Hcur : br_curr br1 = Some (hdr m)) by (inversion Hpos; subst; assumption).
    split; [apply next_entry; assumption|].
    intros Hs. unfold selm in Hs.
    inversion Hpos as [|br0 h bs ms0 Hc Hdm Hsl Hdec Hskip|br0 h ms0 x br' Hc Hdm Hbn Hp']; subst; cbn [hdr] in *.
    - destruct (Hskip Hs) as (x & br' & Hbn & Hp').
      exists br'. split; [unfold fetch; cbn [mk_reader rd_type rd_br]; rewrite Hbn; reflexivity|exact Hp'].
    - exists br'. split; [unfold fetch; cbn [mk_reader rd_type rd_br]; rewrite Hbn; reflexivity|exact Hp'].
  Qed.

  Lemma skip_noise_P : forall nz r ms, rinv r [] -> upcomingPS r (nz ++ ms) ->
    Forall (fun m => selm m = false) nz ->
    exists r', rinv r' [] /\ upcomingPS r' ms /\ forall x, skips r' [] x -> skips r (map hdr nz) x.
  Proof.
    induction nz as [|m nz IH]; intros r ms Hrinv Hup Hall.
    - exists r. auto.
    - inversion Hall as [|m0 l0 Hm Hrest]; subst. cbn [app] in Hup.
      destruct (present_PS r m (nz ++ ms) Hrinv Hup) as (br1 & _ & Hnext & Hup1).
      destruct (IH _ ms (rinv_mk0 br1 _) (Hup1 Hm) Hrest) as (r' & Hr' & Hup' & Hsk).
      exists r'. split; [exact Hr'|]. split; [exact Hup'|]. intros x Hx. cbn [map].
      eapply sk_skip; [exact Hnext|exact Hm|]. apply Hsk. exact Hx.
  Qed.

  Lemma next_header_skips st hs x r' : skips (cs_reader st) hs (x, r') -> N.of_nat (length hs) < 2 ^ 40 ->
    next_header mktime f st = Ok (x, set_reader st r').
  Proof.
    intros Hs Hk. destruct (filter_next_file_skips mktime f _ _ _ Hs Hk) as [Hf _].
    unfold next_header. rewrite Hf. reflexivity.
  Qed.

  Lemma print_run_sel : forall ms nz st,
    rinv (cs_reader st) [] -> upcomingPS (cs_reader st) (nz ++ ms) -> Forall (fun m => selm m = false) nz ->
    N.of_nat (length nz + length ms) < 2 ^ 40 ->
    exists st' nz', iters pstep (length (filter selm ms)) st st' /\
      cs_fs st' = cs_fs st /\ cs_opts st' = cs_opts st /\
      rinv (cs_reader st') [] /\ upcomingPS (cs_reader st') nz' /\ Forall (fun m => selm m = false) nz' /\
      (length nz' <= length nz + length ms)%nat /\
      stdout_bytes st' = stdout_bytes st ++ concat (map (pout (cs_opts st)) (filter selm ms)).
  Proof.
    induction ms as [|m ms IH]; intros nz st Hrinv Hup Hnz Hk.
    - exists st, nz. rewrite app_nil_r in Hup. cbn [filter length map concat]. rewrite app_nil_r.
      split; [constructor|]. split; [reflexivity|]. split; [reflexivity|]. split; [exact Hrinv|]. split; [exact Hup|].
      split; [exact Hnz|]. split; [lia|reflexivity].
    - cbn [filter]. destruct (selm m) eqn:Es.
      + (* selected: the pending members are passed over, this one is printed *)
        destruct (skip_noise_P nz _ _ Hrinv Hup Hnz) as (r' & Hr' & Hup' & Hsk).
        destruct (present_PS r' m ms Hr' Hup') as (br1 & Hpos & Hnext & _).
        set (r1 := mk_reader br1 (Some (hdr m)) CT_NORMAL [] false) in *.
        assert (Hnh : next_header mktime f st = Ok (Some (hdr m), set_reader st r1)).
        { eapply next_header_skips; [apply Hsk; apply sk_hit; [exact Hnext|exact Es]|].
          rewrite map_length. cbn [length] in Hk. lia. }
        assert (Hstep : exists st1, pstep st = Ok (inl st1) /\ cs_fs st1 = cs_fs st /\ cs_opts st1 = cs_opts st /\
                          rinv (cs_reader st1) [] /\ upcomingPS (cs_reader st1) ms /\
                          stdout_bytes st1 = stdout_bytes st ++ pout (cs_opts st) m).
        { unfold selm in Es.
          inversion Hpos as [|br0 h bs ms0 Hcur Hdm Hsl Hdec _|br0 h ms0 x br' Hcur Hdm Hbn Hpos']; subst br0 ms0; subst m; cbn [hdr] in *.
          - (* a regular file *)
            destruct (Hdec Es r1 eq_refl eq_refl eq_refl eq_refl eq_refl) as (chunks & r2 & Hrd & Hbs & Hlen & _ & x & br' & Hbn & Hpos').
            unfold print_archive_step. rewrite Hnh. cbn [bind].
            change (is_dir_type h) with (is_dir_method h). rewrite Hdm. cbn [negb cs_opts set_reader].
            set (st2 := if o_quiet (cs_opts st) <? 2 then _ else _).
            assert (Hst2 : cs_reader st2 = r1 /\ cs_fs st2 = cs_fs st /\ cs_opts st2 = cs_opts st /\
                           stdout_bytes st2 = stdout_bytes st ++
                             (if o_quiet (cs_opts st) <? 2 then s_banner_top ++ safe_printf (file_full_path h (cs_opts st)) ++ s_banner_bottom else [])).
            { unfold st2. rewrite Hsl. destruct (o_quiet (cs_opts st) <? 2).
              - split; [reflexivity|]; split; [reflexivity|]; split; [reflexivity|].
                unfold stdout_bytes. cbn [cs_out put_out set_reader rev]. rewrite concat_app. cbn [concat]. rewrite app_nil_r. reflexivity.
              - split; [reflexivity|]. split; [reflexivity|]. split; [reflexivity|]. rewrite app_nil_r. reflexivity. }
            destruct Hst2 as (S1 & S2 & S3 & S4).
            unfold print_archived_file.
            rewrite (loop_complete_N (print_file_step junk) 40 _ _ _ (print_file_loops junk r1 chunks r2 Hrd st2 S1)) by exact Hlen.
            cbn [bind negb].
            eexists. split; [reflexivity|].
            pose proof (rd512_book junk _ _ _ Hrd) as Hbook. unfold book in Hbook.
            cbn [r1 mk_reader rd_curr rd_type rd_policy rd_dir_stack rd_deferred rd_linked] in Hbook.
            injection Hbook as B1 B2 B3 B4 B5 B6.
            cbn [printed cs_fs cs_opts cs_reader].
            split; [exact S2|]. split; [exact S3|].
            split; [split; [exact B3|]; split; [exact B5|]; split; [exact B4|]; rewrite B2; discriminate|].
            split; [exists br'; split; [unfold fetch; rewrite B2, Hbn; reflexivity|exact Hpos']|].
            rewrite stdout_printed, S4, Hbs, <- app_assoc. reflexivity.
          - (* a directory or a symbolic link *)
            unfold print_archive_step. rewrite Hnh. cbn [bind].
            change (is_dir_type h) with (is_dir_method h). rewrite Hdm. cbn [negb cs_opts set_reader].
            eexists. split; [reflexivity|].
            assert (Hup1 : upcomingPS r1 ms) by (exists br'; split; [unfold fetch; cbn [r1 mk_reader rd_type rd_br]; rewrite Hbn; reflexivity|exact Hpos']).
            assert (Hri1 : rinv r1 []) by (repeat split; discriminate).
            cbn [P_CliPrint.pout]. destruct (o_quiet (cs_opts st) <? 2); [destruct (h_symlink_target h)|];
              cbn [cs_fs cs_opts cs_reader put_out set_reader];
              (split; [reflexivity|]; split; [reflexivity|]; split; [exact Hri1|]; split; [exact Hup1|]).
            + unfold stdout_bytes. cbn [cs_out put_out set_reader rev]. rewrite concat_app. cbn [concat]. rewrite app_nil_r. reflexivity.
            + rewrite app_nil_r. reflexivity.
            + rewrite app_nil_r. reflexivity. }
        destruct Hstep as (st1 & Hs & F1 & O1 & R1 & U1 & B1).
        destruct (IH [] st1 R1 U1 (Forall_nil _)) as (st' & nz' & Hit & F' & O' & R' & U' & Z' & L' & B').
        { cbn [length] in *. lia. }
        exists st', nz'. split; [cbn [length]; econstructor; eauto|].
        split; [congruence|]. split; [congruence|]. split; [exact R'|]. split; [exact U'|]. split; [exact Z'|].
        split; [cbn [length] in *; lia|].
        rewrite B', B1, O1. cbn [map concat]. rewrite <- app_assoc. reflexivity.
      + (* not selected: it joins the pending ones *)
        destruct (IH (nz ++ [m]) st Hrinv) as (st' & nz' & Hit & F' & O' & R' & U' & Z' & L' & B').
        { rewrite <- app_assoc. exact Hup. }
        { apply Forall_app. split; [exact Hnz|]. constructor; [exact Es|constructor]. }
        { rewrite app_length. cbn [length] in *. lia. }
        exists st', nz'. split; [exact Hit|]. split; [exact F'|]. split; [exact O'|]. split; [exact R'|]. split; [exact U'|].
        split; [exact Z'|]. split; [rewrite app_length in L'; cbn [length] in *; lia|exact B'].
  Qed.

  (* the bytes of the selected MacOS members *)
  Definition mac_content (m : member) : Prop :=
    match m with
    | MFile h bs => is_mac h = true -> sel h = true ->
        exists ibs, nlen ibs = h_length h /\ lha_crc16_buf 0 ibs = h_crc h /\ bs = firstn_N (h_length h) (mac_out h ibs)
    | MOther _ => True
    end.

  Lemma mac_members : forall ms br, positionedPS br ms -> Forall mac_content ms.
  Proof.
    induction ms as [|m ms IH]; intros br Hpos; [constructor|].
    inversion Hpos as [|br0 h bs ms0 Hcur Hdm Hsl Hdec Hskip|br0 h ms0 x br' Hcur Hdm Hbn Hpos']; subst.
    - destruct (sel h) eqn:Es.
      + destruct (Hdec eq_refl (mk_reader br (Some h) CT_NORMAL [] false) eq_refl eq_refl eq_refl eq_refl eq_refl)
          as (chunks & r2 & Hrd & Hbs & _ & Hint & x & br' & _ & Hpos').
        constructor; [|exact (IH _ Hpos')].
        cbn [mac_content]. intros Hmac _. destruct (Hint Hmac) as (dfin & Hof & Vl & Vc).
        destruct (mac_print_content junk (mk_reader br (Some h) CT_NORMAL [] false) h chunks r2 dfin eq_refl eq_refl eq_refl Hmac Hrd Hof Vl Vc) as (ibs & A & B & C).
        exists ibs. rewrite <- Hbs. auto.
      + destruct (Hskip eq_refl) as (x & br' & _ & Hpos').
        constructor; [|exact (IH _ Hpos')]. cbn [mac_content]. intros _ C. congruence.
    - constructor; [exact I|exact (IH _ Hpos')].
  Qed.

  (* "lha p archive [PATTERN...]", MacOS members included *)
  Theorem print_archive_output_mac ms st :
    o_dry_run (cs_opts st) = false ->
    rinv (cs_reader st) [] -> upcomingPS (cs_reader st) ms -> N.of_nat (length ms) < 2 ^ 40 ->
    exists st', print_archive mktime junk f st = Ok (RVal true, st') /\
      cs_fs st' = cs_fs st /\
      stdout_bytes st' = stdout_bytes st ++ concat (map (pout (cs_opts st)) (filter selm ms)) /\
      Forall mac_content ms.
  Proof.
    intros Hdry Hrinv Hup Hlen.
    assert (Hmac : Forall mac_content ms) by (destruct Hup as (br & _ & Hpos); exact (mac_members ms br Hpos)).
    destruct (print_run_sel ms [] st Hrinv Hup (Forall_nil _) ltac:(cbn [length]; lia))
      as (st1 & nz' & Hit & F1 & O1 & R1 & U1 & Z1 & L1 & B1).
    rewrite <- (app_nil_r nz') in U1.
    destruct (skip_noise_P nz' _ [] R1 U1 Z1) as (r' & (Hpol' & Hdef' & Hstk' & Hty') & (br1 & Hf1 & Hpos1) & Hsk).
    assert (Hcur1 : br_curr br1 = None) by (inversion Hpos1; assumption).
    assert (Hnext : exists r'', lha_reader_next_file mktime r' = Ok (None, r'')).
    { rewrite (next_file_eq mktime _ Hty'), Hf1. cbn [bind]. rewrite (present_end _ br1 false Hstk' Hdef' Hcur1). eauto. }
    destruct Hnext as [r'' Hnext].
    assert (Hend : pstep st1 = Ok (inr (RVal true, set_reader st1 r''))).
    { unfold print_archive_step.
      rewrite (next_header_skips st1 (map hdr nz') None r''); [reflexivity|apply Hsk; apply sk_end; exact Hnext|].
      rewrite map_length. cbn [length] in L1. lia. }
    exists (set_reader st1 r''). split.
    - unfold print_archive. rewrite Hdry.
      eapply loop_complete_N; [eapply loops_after_iters; [exact Hit|constructor; exact Hend]|].
      rewrite Nat.add_0_r.
      assert (Hle : (length (filter selm ms) <= length ms)%nat).
      { clear. induction ms as [|x r IH]; [reflexivity|]. cbn [filter length]. destruct (selm x); cbn [length]; lia. }
      lia.
    - cbn [cs_fs set_reader]. split; [exact F1|]. split; [exact B1|exact Hmac].
  Qed.

  (* what is selected *)
  Lemma selm_iff m : selm m = true <->
    (f_filters f = [] \/ exists g, In g (f_filters f) /\ matches g (opt_str (h_path (hdr m)) ++ opt_str (h_filename (hdr m)))).
  Proof. apply selected_iff. Qed.
End PrintSel.

Print Assumptions mac_print_content.
Print Assumptions print_run_sel.
Print Assumptions print_archive_output_mac.

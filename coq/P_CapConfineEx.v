(* P_CapConfineEx.v -- non-vacuity of the end-to-end confinement theorem
   (P_CapConfine.e2e_confined, Properties_C10 / Properties_E2E).

   1. d/ (0755), d/f ("hi"), d/x -> ../../y, zz -> /outside, s -> d: the description is
      well formed in the sense of wf_descs_any and NOT in the sense of wf_descs (two
      dangerous targets: Properties_E2E.e2e_cli_run does not cover it); the theorem
      applies; the run evaluated: exit status 0, sixteen operations, all below /root,
      the two dangerous links made last (longest path first), the links at the end are
      the three described links.
   2. The exit status cannot be promised to be 0: d/ (0555), d/x -> /outside, not
      root: the directory has been closed (chmod 0555) before the final phase, the
      deferred link cannot be made, the empty placeholder d/x stays; exit status 1.
      Confinement holds all the same. *)
From Lhasa Require Import Base ListN Loop Generated InputStream Header BasicReader Fs FsRun Reader Glob ListOut
  CliFilter CliExtract CliMain P_FsExtract P_CliExtract P_CliTree
  S_Capstone P_CapHeader P_CapItems P_Capstone P_CapCli S_CapAny P_CapAnyRun
  P_CliSafe P_CliOrder P_FsConfine P_CliPath P_CliConfine P_FsLinks P_CliPathLen P_CliConfineLate P_CapConfine.
From Coq Require Import ZifyBool ZifyN ZifyNat.
Local Open Scope N_scope.

Ltac name_ok_tac :=
  split; [split; [discriminate|split; [repeat constructor; discriminate|repeat split; vm_compute; reflexivity]]
         |repeat constructor; unfold name_byte; lia].
Ltac bytes_tac := repeat constructor; unfold tgt_byte; lia.

Definition n_d : name := [100].
Definition n_f : name := [102].
Definition n_x : name := [120].
Definition n_zz : name := [122; 122].
Definition n_s : name := [115].
Definition t_up : list N := [46; 46; 47; 46; 46; 47; 121].                       (* ../../y *)
Definition t_out : list N := [47; 111; 117; 116; 115; 105; 100; 101].            (* /outside *)

(* ---- 1 ---- *)
Definition ex3 : list desc :=
  [DDir n_d 493 1262304000 [DFile n_f 420 1000000000 [104; 105]; DLink n_x 31622400 t_up];
   DLink n_zz 31622401 t_out;
   DLink n_s 31622402 n_d].

Example ex3_wf_any : wf_descs_any false ex3.
Proof.
  split; [|repeat constructor; cbn; intuition discriminate].
  constructor; [|constructor; [|constructor; [|constructor]]].
  - cbn [wf_desc_any].
    split; [name_ok_tac|]. split; [vm_compute; discriminate|]. split; [lia|]. split; [lia|].
    split; [repeat constructor; cbn; intuition discriminate|].
    split; [|split; [|exact I]].
    + split; [name_ok_tac|]. split; [vm_compute; discriminate|]. split; [lia|]. split; [lia|].
      split; [vm_compute; reflexivity|]. split; [repeat constructor; lia|]. right. vm_compute. reflexivity.
    + split; [name_ok_tac|]. split; [vm_compute; discriminate|]. split; [lia|].
      split; [discriminate|]. split; [vm_compute; discriminate|bytes_tac].
  - cbn [wf_desc_any]. split; [name_ok_tac|]. split; [vm_compute; discriminate|]. split; [lia|].
    split; [discriminate|]. split; [vm_compute; discriminate|bytes_tac].
  - cbn [wf_desc_any]. split; [name_ok_tac|]. split; [vm_compute; discriminate|]. split; [lia|].
    split; [discriminate|]. split; [vm_compute; discriminate|bytes_tac].
Qed.

(* not covered by the tree theorem: two of the targets are dangerous *)
Example ex3_not_safe : safe_target t_up = false /\ safe_target t_out = false /\ ~ wf_descs false ex3.
Proof.
  split; [reflexivity|]. split; [reflexivity|].
  intros [Hwf _]. inversion Hwf as [|x l _ Hl]; subst. inversion Hl as [|y l' Hy _]; subst.
  cbn [wf_desc] in Hy. destruct Hy as (_ & _ & _ & _ & _ & _ & Hs). discriminate.
Qed.

Definition ex3_run : outcome cli_result :=
  cli_run mktime_utc gmtime_utc (fun _ => []) false 1300000000 1200000000 argv_x (archive_of ex3) [] [].

(* the theorem applies ... *)
Example ex3_theorem :
  exists r, ex3_run = Ok r /\ (cr_exit r = 0 \/ cr_exit r = 1) /\
    (forall op, In op (fs_trace (cr_fs r)) -> below_op [bytes_root] op) /\
    (forall suf t, Fs.node_at (fs_root (cr_fs r)) (bytes_root :: suf) = Some (Link t) ->
                   In (suf, t) [([n_d; n_x], t_up); ([n_zz], t_out); ([n_s], n_d)]).
Proof.
  exact (e2e_confined mktime_utc gmtime_utc (fun _ => []) false 1300000000 1200000000 ex3 ex3_wf_any
           ltac:(vm_compute; reflexivity)).
Qed.

(* ... and the run, evaluated on the 212 bytes *)
Example ex3_computed :
  nlen (archive_of ex3) = 212 /\
  exists r rest, ex3_run = Ok r /\ cr_exit r = 0 /\
    fs_trace (cr_fs r) =
      OpSymlink [bytes_root; n_zz] t_out :: OpUnlink [bytes_root; n_zz]
      :: OpSymlink [bytes_root; n_d; n_x] t_up :: OpUnlink [bytes_root; n_d; n_x] :: rest /\
    length rest = 12%nat /\ existsb is_dangerous_op rest = false /\
    forallb inside_root (fs_trace (cr_fs r)) = true /\
    links_of [] (fs_root (cr_fs r)) =
      [([bytes_root; n_d; n_x], t_up); ([bytes_root; n_s], n_d); ([bytes_root; n_zz], t_out)] /\
    Fs.node_at (fs_root (cr_fs r)) [bytes_root] =
      Some (Dir true 493 0
              [(n_d, Dir true 493 0 [(n_f, File true 420 1000000000 [104; 105]); (n_x, Link t_up)]);
               (n_s, Link n_d); (n_zz, Link t_out)]).
Proof.
  split; [vm_compute; reflexivity|]. eexists. eexists. split; [vm_compute; reflexivity|].
  split; [reflexivity|]. split; [vm_compute; reflexivity|]. repeat split; vm_compute; reflexivity.
Qed.

(* the hypothesis of the whole-run theorem, for this archive, as the boolean test on the members *)
Example ex3_members_test :
  no_link_through_safe_b (map (msum x_opts) (headers_of ex3)) = true.
Proof. vm_compute. reflexivity. Qed.

(* ---- 2: the exit status need not be 0 ---- *)
Definition ex4 : list desc := [DDir n_d 365 1262304000 [DLink n_x 31622400 t_out]].          (* d/ 0555 *)

Example ex4_wf_any : wf_descs_any false ex4.
Proof.
  split; [|repeat constructor; intros []].
  constructor; [|constructor]. cbn [wf_desc_any].
  split; [name_ok_tac|]. split; [vm_compute; discriminate|]. split; [lia|]. split; [lia|].
  split; [repeat constructor; intros []|]. split; [|exact I].
  split; [name_ok_tac|]. split; [vm_compute; discriminate|]. split; [lia|].
  split; [discriminate|]. split; [vm_compute; discriminate|bytes_tac].
Qed.

Example exit_status_not_zero :
  exists r, cli_run mktime_utc gmtime_utc (fun _ => []) false 1300000000 1200000000 argv_x (archive_of ex4) [] [] = Ok r /\
    cr_exit r = 1 /\
    forallb inside_root (fs_trace (cr_fs r)) = true /\
    links_of [] (fs_root (cr_fs r)) = [] /\
    Fs.node_at (fs_root (cr_fs r)) [bytes_root; n_d] = Some (Dir true 365 1262304000 [(n_x, File true 384 0 [])]).
Proof. eexists. split; [vm_compute; reflexivity|]. repeat split; vm_compute; reflexivity. Qed.

Print Assumptions ex3_wf_any.
Print Assumptions ex3_not_safe.
Print Assumptions ex3_theorem.
Print Assumptions ex3_computed.
Print Assumptions ex3_members_test.
Print Assumptions exit_status_not_zero.

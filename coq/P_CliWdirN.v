(* P_CliWdirN.v -- C06, option w=DIR where DIR = d1/.../dk and a suffix of its
   components (possibly all of them) is missing: the first
   make_parent_directories call creates each missing component in turn (mode
   0755 & ~umask), and from then on the run is the run with DIR present; the
   tree is built inside the innermost new directory.  (DIR written with a
   trailing '/': see the end of the file.) *)
From Lhasa Require Import Base ListN DecBase Loop Generated Crc16 InputStream Header BasicReader
  AnyDecoder Decoder MacBinary Fs FsRun Reader Glob ListOut CliFilter CliExtract
  P_ReaderCheck P_FsExtract P_ReaderExtract P_CliExtract P_CliTree P_FsReplace P_CliOverwrite P_CliExtractGen
  P_CliTreeGen P_CliWdir.
From Coq Require Import ZifyBool ZifyN ZifyNat.
Local Open Scope N_scope.

Set Default Timeout 120.

(* ---- make_parent_directories over components that exist, with anything after them ---- *)
Lemma mpd_dirs_cont rest : forall comps S st, Forall good_name comps ->
  (forall a d b, comps = a ++ d :: b -> arch_exists (cs_fs st) (S ++ dirstr a ++ d) = FT_DIRECTORY) ->
  mpd_loop (rev S) (dirstr comps ++ rest) st = mpd_loop (rev (S ++ dirstr comps)) rest st.
Proof.
  induction comps as [|d ds IH]; intros S st H Hex.
  - cbn [dirstr map concat app]. rewrite app_nil_r. reflexivity.
  - inversion H as [|d0 ds0 (Hne & Hsf & Hpl) Hds]; subst.
    rewrite dirstr_cons, <- app_assoc, (mpd_name d _ _ st Hsf). cbn [app mpd_loop]. rewrite N.eqb_refl.
    unfold check_parent_directory. rewrite rev_app_distr, !rev_involutive.
    pose proof (Hex [] d ds eq_refl) as E0. cbn [dirstr map concat app] in E0. rewrite E0. cbn [negb].
    replace (47 :: rev d ++ rev S) with (rev (S ++ d ++ [47])).
    2:{ rewrite !rev_app_distr. reflexivity. }
    rewrite IH; [|exact Hds|].
    + rewrite <- !app_assoc. reflexivity.
    + intros a d' b E. specialize (Hex (d :: a) d' b). rewrite dirstr_cons in Hex.
      rewrite <- !app_assoc. cbn [app]. rewrite <- !app_assoc in Hex. cbn [app] in Hex. apply Hex. rewrite E. reflexivity.
Qed.

(* ---- a path through a missing directory: ENOENT ---- *)
Lemma walk_missing links root uid0 fl md : forall pre cur d rest,
  Forall plain pre -> plain d -> chain root uid0 cur pre -> rest <> [] ->
  (forall o p t e, node_at root (cur ++ pre) = Some (Dir o p t e) -> lookup e d = None) ->
  walk links root uid0 cur (pre ++ d :: rest) fl md = WFail true.
Proof.
  induction pre as [|c pre IH]; intros cur d rest Hpre Hd Hch Hne Hmiss.
  - cbn [app]. rewrite walk_cons. cbv zeta.
    destruct (chain_head _ _ _ _ Hch) as (o & p & t & e & Hn & Hs).
    rewrite Hn, Hs. cbn [negb]. destruct Hd as (Hdt & Hdd & Hlen). rewrite Hlen, Hdt, Hdd.
    rewrite app_nil_r in Hmiss. rewrite (Hmiss o p t e Hn).
    destruct rest; [contradiction Hne; reflexivity|reflexivity].
  - inversion Hpre as [|c0 pre0 Hc Hpre']; subst.
    cbn [app]. destruct (pre ++ d :: rest) as [|x r] eqn:Er; [destruct pre; discriminate|].
    rewrite walk_cons. cbv zeta.
    destruct (chain_head _ _ _ _ Hch) as (o & p & t & e & Hn & Hs).
    rewrite Hn, Hs. cbn [negb]. destruct Hc as (Hdt & Hdd & Hlen). rewrite Hlen, Hdt, Hdd.
    pose proof (chain_tail _ _ _ _ _ Hch) as Hch'.
    destruct (chain_head _ _ _ _ Hch') as (o1 & p1 & t1 & e1 & Hn1 & Hs1).
    rewrite node_at_app, Hn, node_at_cons in Hn1.
    destruct (lookup e c) as [m|]; [|discriminate]. cbn [node_at] in Hn1. inversion Hn1; subst m.
    rewrite <- Er. apply IH; auto. intros o2 p2 t2 e2 H2. apply (Hmiss o2 p2 t2 e2). rewrite <- app_assoc in H2. exact H2.
Qed.

Lemma exists_through_missing s dl (d : name) more (c : name) o pm t ents :
  dir_ready s dl o pm t ents -> lookup ents d = None -> Forall good_name (d :: more) -> good_name c ->
  nlen (dirstr (dl ++ d :: more) ++ c) <= 4095 -> arch_exists s (dirstr (dl ++ d :: more) ++ c) = FT_NONE.
Proof.
  intros (Hg & Hch & Hn & Hw) Hl Hdm Hc Hlen.
  assert (Hall : Forall good_name (dl ++ d :: more)) by (apply Forall_app; split; assumption).
  destruct (rel_path_file _ c Hall Hc Hlen) as (Hne & Habs & Hpm & Hsp).
  unfold arch_exists, fs_exists, resolve, resolve_gen.
  destruct (dirstr (dl ++ d :: more) ++ c) as [|b0 r0] eqn:Ep; [contradiction Hne; reflexivity|].
  rewrite Hpm, Habs, Hsp. rewrite <- app_assoc. cbn [app].
  inversion Hdm as [|d0 m0 Hd Hm]; subst.
  rewrite (walk_missing max_links (fs_root s) (fs_uid0 s) true _ dl (fs_cwd s) d (more ++ [c])); [reflexivity| | | | |].
  - apply good_names_plain. exact Hg.
  - apply Hd.
  - exact Hch.
  - destruct more; discriminate.
  - intros o1 p1 t1 e1 H1. rewrite Hn in H1. inversion H1; subst. exact Hl.
Qed.

(* ---- the chain of new directories ---- *)
Fixpoint mk_chain (s : fs) (dl miss : list name) : fs :=
  match miss with
  | [] => s
  | d :: r => mk_chain (snd (arch_mkdir s (dirstr dl ++ d) 493)) (dl ++ [d]) r
  end.

Lemma mk_chain_cons s dl d r :
  mk_chain s dl (d :: r) = mk_chain (snd (arch_mkdir s (dirstr dl ++ d) 493)) (dl ++ [d]) r.
Proof. reflexivity. Qed.

(* d1/d2/.../dk, each holding only the next, the last holding [inner] *)
Fixpoint nest (m : N) (ds : list name) (inner : list (name * node)) : node :=
  match ds with
  | [] => Dir true m now inner
  | d :: r => Dir true m now [(d, nest m r inner)]
  end.

Section Chain.
  Variable u : N.
  Hypothesis Humask : umask_ok u.
  Notation m := (mkdir_mode u 493).

  Lemma mk_step s dl (d : name) o pm t ents :
    dir_ready s dl o pm t ents -> lookup ents d = None -> N.land pm 1024 = 0 -> fs_umask s = u ->
    good_name d -> nlen (dirstr dl ++ d) <= 4095 ->
    exists s1, arch_mkdir s (dirstr dl ++ d) 493 = (true, s1) /\ same_env s s1 /\
      arch_exists s (dirstr dl ++ d) = FT_NONE /\
      fs_root s1 = update_at (fs_root s) (fs_cwd s ++ dl) (const_some (Dir o pm now (ents ++ [(d, Dir true m now [])]))) /\
      dir_ready s1 (dl ++ [d]) true m now [].
  Proof.
    intros Hready Hl Hsg Hum Hd Hlen. pose proof Hready as (Hg & Hch & Hn & Hw).
    assert (Hat : at_path s (dirstr dl ++ d) dl d) by (eapply at_path_in_dir; eauto).
    assert (Hnone : node_at (fs_root s) ((fs_cwd s ++ dl) ++ [d]) = None).
    { rewrite (child_lookup _ _ _ _ _ _ d Hn). exact Hl. }
    destruct (mkdir_fresh s _ dl d Hat 493 o pm t ents Hnone Hn Hw) as (s1 & Hmk & Henv & Hroot).
    rewrite (mkdir_mode_eq s _ pm Hsg), (set_ent_fresh _ _ _ Hl), Hum in Hroot.
    exists s1. split; [exact Hmk|]. split; [exact Henv|]. split; [apply (exists_none s _ dl d Hat Hnone)|].
    split; [exact Hroot|].
    assert (Hready1 : dir_ready s1 dl o pm now (ents ++ [(d, Dir true m now [])])) by (eapply dir_ready_update; eauto).
    destruct (mkdir_mode_owner u 493 (fs_uid0 s1) now [] Humask eq_refl eq_refl) as [Hs Hwr].
    eapply dir_ready_enter; eauto.
  Qed.

  Lemma fold_one root P o pm ents (d : name) D0 X m0 :
    node_at root P = Some m0 -> lookup ents d = None ->
    update_at (update_at root P (const_some (Dir o pm now (ents ++ [(d, D0)])))) (P ++ [d]) (const_some X) =
    update_at root P (const_some (Dir o pm now (ents ++ [(d, X)]))).
  Proof.
    intros Hn Hl.
    rewrite (update_loc_to_parent _ P o pm now (ents ++ [(d, D0)]) d X (node_at_update_const_same _ P root m0 Hn)).
    rewrite (set_ent_last _ _ _ _ Hl). apply update_const_twice.
  Qed.

  Lemma chain_spec : forall rest (d1 : name) dl o pm t ents s,
    dir_ready s dl o pm t ents -> lookup ents d1 = None -> N.land pm 1024 = 0 -> fs_umask s = u ->
    Forall good_name (d1 :: rest) -> nlen (dirstr (dl ++ d1 :: rest)) <= 4095 ->
    let sk := mk_chain s dl (d1 :: rest) in
    same_env s sk /\ dir_ready sk (dl ++ d1 :: rest) true m now [] /\
    forall inner, update_at (fs_root sk) (fs_cwd s ++ dl ++ d1 :: rest) (const_some (Dir true m now inner)) =
                  update_at (fs_root s) (fs_cwd s ++ dl) (const_some (Dir o pm now (ents ++ [(d1, nest m rest inner)]))).
  Proof.
    induction rest as [|d2 r IH]; intros d1 dl o pm t ents s Hready Hl Hsg Hum Hgood Hlen sk.
    - inversion Hgood as [|x l Hd _]; subst x l.
      destruct (mk_step s dl d1 o pm t ents Hready Hl Hsg Hum Hd) as (s1 & Hmk & Henv & _ & Hroot & Hready1).
      { eapply N.le_trans; [apply (nlen_dirstr_split dl d1 [])|exact Hlen]. }
      unfold sk. cbn [mk_chain]. rewrite Hmk. cbn [snd].
      split; [exact Henv|]. split; [exact Hready1|]. intros inner. cbn [nest].
      destruct Hready as (_ & _ & Hn & _). rewrite Hroot, app_assoc. eapply fold_one; eauto.
    - inversion Hgood as [|x l Hd Hrest]; subst x l.
      assert (Hlen1 : nlen (dirstr dl ++ d1) <= 4095).
      { eapply N.le_trans; [apply (nlen_dirstr_split dl d1 (d2 :: r))|exact Hlen]. }
      destruct (mk_step s dl d1 o pm t ents Hready Hl Hsg Hum Hd Hlen1) as (s1 & Hmk & Henv & _ & Hroot & Hready1).
      assert (Hum1 : fs_umask s1 = u) by (destruct Henv as (_ & _ & E); congruence).
      assert (Hcwd1 : fs_cwd s1 = fs_cwd s) by apply Henv.
      destruct (IH d2 (dl ++ [d1]) true m now [] s1 Hready1 eq_refl (mkdir_mode_nosgid _ _) Hum1 Hrest) as (Henv2 & Hready2 & Hfold).
      { rewrite <- app_assoc. exact Hlen. }
      unfold sk. rewrite mk_chain_cons, Hmk. cbn [snd].
      split; [exact (same_env_trans _ _ _ Henv Henv2)|]. split; [rewrite <- app_assoc in Hready2; exact Hready2|].
      intros inner. specialize (Hfold inner). rewrite Hcwd1, <- !app_assoc in Hfold. cbn [app] in Hfold.
      rewrite Hfold. cbn [nest app].
      destruct Hready as (_ & _ & Hn & _). rewrite Hroot, app_assoc. eapply fold_one; eauto.
  Qed.

  (* make_parent_directories creates them *)
  Lemma mpd_make : forall rest0 (d1 : name) dl o pm t ents st tail,
    dir_ready (cs_fs st) dl o pm t ents -> lookup ents d1 = None -> N.land pm 1024 = 0 -> fs_umask (cs_fs st) = u ->
    Forall good_name (d1 :: rest0) -> nlen (dirstr (dl ++ d1 :: rest0)) <= 4095 ->
    mpd_loop (rev (dirstr dl)) (dirstr (d1 :: rest0) ++ tail) st =
    mpd_loop (rev (dirstr (dl ++ d1 :: rest0))) tail (set_fs st (mk_chain (cs_fs st) dl (d1 :: rest0))).
  Proof.
    induction rest0 as [|d2 r IH]; intros d1 dl o pm t ents st tail Hready Hl Hsg Hum Hgood Hlen;
      inversion Hgood as [|x l Hd Hrest]; subst x l.
    - assert (Hlen1 : nlen (dirstr dl ++ d1) <= 4095).
      { eapply N.le_trans; [apply (nlen_dirstr_split dl d1 [])|exact Hlen]. }
      destruct (mk_step _ dl d1 o pm t ents Hready Hl Hsg Hum Hd Hlen1) as (s1 & Hmk & Henv & Hex & Hroot & Hready1).
      rewrite dirstr_cons, <- app_assoc, (mpd_name d1 _ _ st (proj1 (proj2 Hd))). cbn [app mpd_loop dirstr map concat].
      rewrite N.eqb_refl. unfold check_parent_directory. rewrite rev_app_distr, !rev_involutive, Hex, Hmk. cbn [negb].
      cbn [mk_chain]. rewrite Hmk. cbn [snd]. rewrite dirstr_snoc, !rev_app_distr. reflexivity.
    - assert (Hlen1 : nlen (dirstr dl ++ d1) <= 4095).
      { eapply N.le_trans; [apply (nlen_dirstr_split dl d1 (d2 :: r))|exact Hlen]. }
      destruct (mk_step _ dl d1 o pm t ents Hready Hl Hsg Hum Hd Hlen1) as (s1 & Hmk & Henv & Hex & Hroot & Hready1).
      rewrite dirstr_cons, <- app_assoc, (mpd_name d1 _ _ st (proj1 (proj2 Hd))). cbn [app mpd_loop].
      rewrite N.eqb_refl. unfold check_parent_directory. rewrite rev_app_distr, !rev_involutive, Hex, Hmk. cbn [negb].
      replace (47 :: rev d1 ++ rev (dirstr dl)) with (rev (dirstr (dl ++ [d1]))).
      2:{ rewrite dirstr_snoc, !rev_app_distr. reflexivity. }
      assert (Hum1 : fs_umask s1 = u) by (destruct Henv as (_ & _ & E); congruence).
      rewrite (IH d2 (dl ++ [d1]) true m now [] (set_fs st s1) tail); cbn [cs_fs set_fs]; auto.
      + rewrite (mk_chain_cons (cs_fs st)), Hmk. cbn [snd]. rewrite <- app_assoc. reflexivity.
      + apply mkdir_mode_nosgid.
      + rewrite <- app_assoc. exact Hlen.
  Qed.
End Chain.

(* make_parent_directories on  comps/c  or  comps/c/  is the loop over  comps/c *)
Lemma mpd_unfold comps (c : name) tail st : Forall good_name comps -> good_name c -> (tail = [] \/ tail = [47]) ->
  make_parent_directories (dirstr comps ++ c ++ tail) st = mpd_loop [] (dirstr comps ++ c) st.
Proof.
  intros Hg Hc Htail.
  assert (Hstrip : strip_trailing_slashes (dirstr comps ++ c ++ tail) = dirstr comps ++ c).
  { unfold strip_trailing_slashes. destruct (good_last c Hc) as (b & r & E & Hb).
    destruct Htail as [->| ->].
    - rewrite app_nil_r, rev_app_distr.
      rewrite (skip_slashes_id (rev c ++ rev (dirstr comps)) b (r ++ rev (dirstr comps))) by (try rewrite E; auto).
      rewrite <- rev_app_distr. apply rev_involutive.
    - rewrite app_assoc, rev_app_distr. cbn [rev app skip_slashes]. rewrite N.eqb_refl, rev_app_distr.
      rewrite (skip_slashes_id (rev c ++ rev (dirstr comps)) b (r ++ rev (dirstr comps))) by (try rewrite E; auto).
      rewrite <- rev_app_distr. apply rev_involutive. }
  unfold make_parent_directories. rewrite Hstrip.
  destruct (path_head comps c Hg Hc) as (b' & r' & E' & Hb'). rewrite (leading_slashes_none _ b' r' E' Hb'). reflexivity.
Qed.

Section WdirN.
  Variable mktime : N -> N -> N -> N -> Z -> N -> N.
  Variable junk : N.
  Variable f : lha_filter.
  Hypothesis Hnofilter : f_filters f = [].
  Variables (u : N) (uid0 : bool).
  Hypothesis Humask : umask_ok u.
  (* DIR = pre/d1/rest: pre exists, d1 does not *)
  Variables (pre : list name) (d1 : name) (rest : list name).
  Notation miss := (d1 :: rest).
  Notation bl := (pre ++ d1 :: rest).
  Notation m := (mkdir_mode u 493).
  Hypothesis Hgood : Forall good_name miss.
  Hypothesis Hlenbl : nlen (dirstr bl) <= 4095.

  Lemma mpd_first st (c : name) tail o pm t ents :
    dir_ready (cs_fs st) pre o pm t ents -> lookup ents d1 = None -> N.land pm 1024 = 0 -> fs_umask (cs_fs st) = u ->
    good_name c -> (tail = [] \/ tail = [47]) ->
    make_parent_directories (dirstr bl ++ c ++ tail) st = (true, set_fs st (mk_chain (cs_fs st) pre miss)).
  Proof.
    intros Hready Hl Hsg Hum Hc Htail. pose proof Hready as (Hg & _).
    assert (Hall : Forall good_name bl) by (apply Forall_app; split; assumption).
    rewrite (mpd_unfold bl c tail st Hall Hc Htail).
    rewrite dirstr_app, <- app_assoc. change (@nil N) with (rev (@nil N)).
    rewrite (mpd_dirs_cont _ pre [] st Hg).
    2:{ cbn [app]. eapply parents_exist; [exact Hready|].
        rewrite dirstr_app, nlen_app in Hlenbl. eapply N.le_trans; [apply N.le_add_r|exact Hlenbl]. }
    cbn [app]. rewrite (mpd_make u Humask rest d1 pre o pm t ents st c Hready Hl Hsg Hum Hgood Hlenbl).
    apply mpd_tail. apply Hc.
  Qed.

  Lemma first_entry_same_n it st r1 o pm t ents :
    wf_item u uid0 [] it -> fits bl [] it -> pfx_opts bl (cs_opts st) ->
    dir_ready (cs_fs st) pre o pm t ents -> lookup ents d1 = None -> N.land pm 1024 = 0 -> fs_umask (cs_fs st) = u ->
    extract_archived_file junk (ihdr it) (set_reader st r1) =
    extract_archived_file junk (ihdr it) (set_reader (set_fs st (mk_chain (cs_fs st) pre miss)) r1).
  Proof.
    intros Hwf Hfit (Hu & Hdry & Hfull) Hready Hl Hsg Hum.
    destruct (chain_spec u Humask rest d1 pre o pm t ents (cs_fs st) Hready Hl Hsg Hum Hgood Hlenbl) as (Henv & Hready_k & _).
    set (sk := mk_chain (cs_fs st) pre miss) in *.
    pose proof Hready_k as (Hgbl & _).
    assert (Hpar : forall a d b, bl = a ++ d :: b -> arch_exists sk (dirstr a ++ d) = FT_DIRECTORY).
    { eapply parents_exist; [exact Hready_k|exact Hlenbl]. }
    destruct it as [c h bs|c h tgt|c h sub]; cbn [wf_item] in Hwf; cbn [fits] in Hfit; cbn [ihdr].
    - destruct Hwf as (Hc & _ & (Hp & Hf & Hdm & Hsl & Hos) & _). rewrite app_nil_r in Hfit.
      assert (Hfn : file_full_path h (cs_opts st) = dirstr bl ++ c).
      { rewrite (Hfull h [] (Forall_nil _) Hp), Hf, (skip_slashes_name c Hc), app_nil_r. reflexivity. }
      eapply (eaf_same_after_mkparent junk h _ _ (dirstr bl ++ c)); cbn [cs_opts set_reader set_fs]; auto.
      + rewrite (decide_regular h _ (conj Hdm Hsl)). cbn [cs_opts set_reader]. rewrite Hfn.
        rewrite file_exists_none; [reflexivity|]. cbn [cs_fs set_reader]. eapply exists_through_missing; eauto.
      + rewrite (decide_regular h _ (conj Hdm Hsl)). cbn [cs_opts set_reader set_fs]. rewrite Hfn.
        rewrite file_exists_none; [reflexivity|]. cbn [cs_fs set_reader set_fs].
        assert (Hat : at_path sk (dirstr bl ++ c) bl c) by (eapply at_path_in_dir; eauto).
        eapply (exists_none sk _ bl c Hat). destruct Hready_k as (_ & _ & Hn & _).
        rewrite (child_lookup _ _ _ _ _ _ c Hn). reflexivity.
      + rewrite <- (app_nil_r c) at 1. eapply (mpd_first (set_reader st r1) c []); cbn [cs_fs set_reader]; eauto.
      + apply mpd_file; auto.
    - destruct Hwf as (Hc & _ & (Hp & Hf & Hdm & Hsl & _)). rewrite app_nil_r in Hfit.
      assert (Hfn : file_full_path h (cs_opts st) = dirstr bl ++ c).
      { rewrite (Hfull h [] (Forall_nil _) Hp), Hf, (skip_slashes_name c Hc), app_nil_r. reflexivity. }
      eapply (eaf_same_after_mkparent junk h _ _ (dirstr bl ++ c)); cbn [cs_opts set_reader set_fs]; auto.
      + unfold eaf_decide. rewrite Hsl. cbn [negb andb]. rewrite andb_false_r. reflexivity.
      + unfold eaf_decide. rewrite Hsl. cbn [negb andb]. rewrite andb_false_r. reflexivity.
      + rewrite <- (app_nil_r c) at 1. eapply (mpd_first (set_reader st r1) c []); cbn [cs_fs set_reader]; eauto.
      + apply mpd_file; auto.
    - destruct Hwf as (Hc & _ & (Hp & Hf & Hdm & Hsl) & _). destruct Hfit as (Hlen & _). rewrite app_nil_r in Hlen.
      assert (Hgc : Forall good_name [c]) by (constructor; [exact Hc|constructor]).
      assert (Hps : opt_str (h_path h) = dirstr [c]) by (rewrite Hp; reflexivity).
      assert (Hfn : file_full_path h (cs_opts st) = dirstr bl ++ c ++ [47]).
      { rewrite (Hfull h [c] Hgc Hps), Hf, app_nil_r. apply dirstr_snoc. }
      eapply (eaf_same_after_mkparent junk h _ _ (dirstr bl ++ c ++ [47])); cbn [cs_opts set_reader set_fs]; auto.
      + unfold eaf_decide. rewrite Hsl. change (is_dir_type h) with (is_dir_method h). rewrite Hdm. reflexivity.
      + unfold eaf_decide. rewrite Hsl. change (is_dir_type h) with (is_dir_method h). rewrite Hdm. reflexivity.
      + eapply (mpd_first (set_reader st r1) c [47]); cbn [cs_fs set_reader]; eauto.
      + rewrite <- dirstr_snoc. apply mpd_dir; auto.
  Qed.

  (* "lha xw=pre/d1/.../dk" with d1.. missing: they are created (0755 & ~umask), the innermost holds the tree *)
  Theorem extract_archive_wdir_created_n it more st o pm t ents :
    let s := cs_fs st in
    let its := it :: more in
    Forall (wf_item u uid0 []) its -> Forall (fits bl []) its -> NoDup (map iname its) ->
    pfx_opts bl (cs_opts st) -> fs_umask s = u -> fs_uid0 s = uid0 ->
    dir_ready s pre o pm t ents -> lookup ents d1 = None -> N.land pm 1024 = 0 ->
    rinv (cs_reader st) [] -> upcoming mktime junk (cs_reader st) (flat_map ser its) ->
    N.of_nat (sizes its) < 2 ^ 40 ->
    exists st', extract_archive mktime junk f st = Ok (RVal true, st') /\
      same_env s (cs_fs st') /\
      fs_root (cs_fs st') = update_at (fs_root s) (fs_cwd s ++ pre)
        (const_some (Dir o pm now (ents ++ [(d1, nest m rest (builds u its))]))).
  Proof.
    intros s its Hwf Hfit Hnd Hopts Hum Huid Hready Hl Hsg Hrinv Hup Hsz.
    destruct (chain_spec u Humask rest d1 pre o pm t ents s Hready Hl Hsg Hum Hgood Hlenbl) as (Henv & Hready_k & Hfold).
    set (sk := mk_chain s pre miss) in *. set (st_mk := set_fs st sk).
    destruct (extract_archive_below mktime junk f Hnofilter u uid0 Humask bl its st_mk true m now [])
      as (st' & Hex & Henv' & _ & Hroot'); auto.
    { cbn [cs_fs st_mk set_fs]. destruct Henv as (_ & _ & E). congruence. }
    { cbn [cs_fs st_mk set_fs]. destruct Henv as (_ & E & _). congruence. }
    { apply mkdir_mode_nosgid. }
    cbn [cs_fs st_mk set_fs its] in Hroot', Henv'.
    exists st'. split; [|split; [exact (same_env_trans _ _ _ Henv Henv')|]].
    - rewrite <- Hex. unfold extract_archive. cbn [cs_opts st_mk set_fs].
      destruct Hopts as (Hu & Hdry & Hfull). rewrite Hdry. apply loop_first.
      pose proof Hup as Hup0. unfold its in Hup0. cbn [flat_map] in Hup0.
      destruct (ser_head_pstr u uid0 [] it ltac:(inversion Hwf; assumption)) as (mm & tl & Es & Hm & _).
      rewrite Es in Hup0. cbn [app] in Hup0.
      destruct (present_entry mktime junk (cs_reader st) [] [] _ mm (pstr mm) Hrinv (or_introl eq_refl) Hup0)
        as (br1 & _ & Hnext); [right; reflexivity|reflexivity|reflexivity|].
      unfold extract_archive_step.
      rewrite (next_header_eq mktime f Hnofilter st _ _ Hnext).
      rewrite (next_header_eq mktime f Hnofilter st_mk _ _ Hnext). cbn [bind]. rewrite Hm.
      rewrite (first_entry_same_n it st _ o pm t ents); auto.
      + inversion Hwf; assumption.
      + inversion Hfit; assumption.
      + split; [exact Hu|]. split; [exact Hdry|exact Hfull].
    - rewrite Hroot'. assert (Hcwd : fs_cwd sk = fs_cwd s) by apply Henv. rewrite Hcwd. cbn [app].
      apply Hfold.
  Qed.
End WdirN.

Print Assumptions extract_archive_wdir_created_n.

(* Glob.v -- model of src/filter.c: match_glob, matches_filter,
   lha_filter_next_file.  C strings are byte lists without the NUL; the empty
   list stands for a pointer at the terminating NUL. *)
From Lhasa Require Import Base Header.
Local Open Scope N_scope.

(* while ( *glob == '*' ) ++glob; return *glob == NUL; *)
Fixpoint glob_tail_ok (glob : list N) : bool :=
  match glob with
  | [] => true
  | g :: r => if g =? 42 then glob_tail_ok r else false
  end.

(* match_glob(glob, str).  The C function loops over str, advancing glob when
   the current glob character is '?' or equals the string character, and
   calls itself on (glob + 1, str) at a '*'.  Here: structural recursion on
   glob (every recursive use is on the tail of glob) with an inner loop over
   str that is the C while loop for as long as glob does not move.
   When glob points at NUL and str does not: neither '?' nor equal: return 0. *)
Fixpoint match_glob (glob : list N) : list N -> bool :=
  match glob with
  | [] => fun str => match str with [] => true | _ :: _ => false end
  | g :: grest =>
    fix loop (str : list N) : bool :=
      match str with
      | [] => glob_tail_ok glob
      | c :: srest =>
        if g =? 42 then
          if match_glob grest str then true else loop srest
        else if (g =? 63) || (g =? c) then match_glob grest srest
        else false
      end
  end.

(* the filter: filters = argv + 3 *)
Record lha_filter := { f_filters : list (list N) }.

Definition lha_filter_init (filters : list (list N)) : lha_filter := {| f_filters := filters |}.

(* matches_filter: for i < num_filters: if match_glob(filters[i], path) break;
   return i < num_filters *)
Definition matches_filter (f : lha_filter) (h : header) : bool :=
  match f_filters f with
  | [] => true
  | fs => let path := opt_str (h_path h) ++ opt_str (h_filename h) in
          existsb (fun g => match_glob g path) fs
  end.

(* lha_filter_next_file over the headers the reader still has to deliver:
   the first one that matches and the rest after it; None at the end *)
Fixpoint lha_filter_next_file (f : lha_filter) (rest : list header) : option (header * list header) :=
  match rest with
  | [] => None
  | h :: r => if matches_filter f h then Some (h, r) else lha_filter_next_file f r
  end.
